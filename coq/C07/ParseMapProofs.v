(* ParseSourceMap returns its mappings sorted by generated position, with every
   index inside Sources / Names: what ChunkBuilder.appendMapping (SourceMap.Find,
   Names[i]) relies on, i.e. the hypotheses of builder_composes. *)
From V Require Import Common.Base C16.Checked C16.Vlq16 C16.Vlq16Proofs C16.Wtf8Proofs
  C07.Vlq C07.FindProofs C07.ParseMap.

(* ---------------- forgetting needSort gives the C16 model ---------------- *)

Definition erase (r : res nresult) : res mresult :=
  match r with
  | Ok (NErr c v e cur) => Ok (MErr c v e cur)
  | Ok (NDone st acc _) => Ok (MDone st acc)
  | Crash => Crash
  | Hang => Hang
  end.

Lemma mloop_ns_erase raw lo co so no sl nl : forall fuel st current acc ns,
  erase (mloop_ns raw lo co so no sl nl fuel st current acc ns) = mloop raw lo co so no sl nl fuel st current acc.
Proof.
  induction fuel as [|f IH]; intros st current acc ns; [reflexivity|].
  cbn [mloop_ns mloop].
  repeat first
    [ apply IH
    | reflexivity
    | match goal with
      | |- context [bind ?e _] => destruct e as [?| |]; cbn [bind erase]
      | |- context [let '(_, _) := ?p in _] => destruct p
      | |- context [if ?c then _ else _] => destruct c
      end ].
Qed.

Definition erase_p (r : res presult_ns) : res presult :=
  match r with
  | Ok (QErr k c v e cur) => Ok (PErr k c v e cur)
  | Ok QNil => Ok PNil
  | Ok (QMap ns nn ms _) => Ok (PMap ns nn ms)
  | Crash => Crash
  | Hang => Hang
  end.

Lemma psections_ns_rel : forall secs k nsrc nnames acc gline gcol ns,
  match psections_ns secs k nsrc nnames acc gline gcol ns with
  | Ok (QErr k' c v e cur) => psections secs k nsrc nnames acc = Ok (PErr k' c v e cur)
  | Ok QNil => psections secs k nsrc nnames acc = Ok PNil
  | Ok (QMap n1 n2 ms flag) =>
    exists ms0, psections secs k nsrc nnames acc = Ok (PMap n1 n2 ms0) /\
                ms = (if flag then sort_pos ms0 else ms0)
  | Crash => psections secs k nsrc nnames acc = Crash
  | Hang => psections secs k nsrc nnames acc = Hang
  end.
Proof.
  induction secs as [|[[[[lo co] sl] nl] raw] rest IH]; intros k nsrc nnames acc gline gcol ns.
  - cbn [psections_ns psections]. destruct ((nsrc =? 0) || _); [reflexivity|].
    eexists. split; reflexivity.
  - cbn [psections_ns psections]. destruct ((len raw =? 0) || (sl =? 0)); [apply IH|].
    set (ns1 := ns || (lo <? gline) || ((lo =? gline) && (co <? gcol))).
    rewrite <- (mloop_ns_erase raw lo co (wrap_i32 nsrc) (wrap_i32 nnames) sl nl (S (length raw))
                  (mkM lo co (wrap_i32 nsrc) 0 0 (wrap_i32 nnames)) 0 acc ns1).
    destruct (mloop_ns _ _ _ _ _ _ _ _ _ _ _ ns1) as [[c v e cur|st acc' ns']| |]; cbn [bind erase]; try reflexivity.
    apply IH.
Qed.

(* ---------------- DecodeVLQUTF16 returns an int32 (upper bound) ---------------- *)

Lemma shl32_lt x s : shl32 x s < 2 ^ 31.
Proof. unfold shl32. destruct (32 <=? s); [lia|]. pose proof (wrap_i32_range (Z.shiftl x s)). lia. Qed.

Lemma lor_lt31 a b : a < 2 ^ 31 -> b < 2 ^ 31 -> Z.lor a b < 2 ^ 31.
Proof.
  intros Ha Hb. destruct (Z.lt_ge_cases (Z.lor a b) 0) as [Hn|Hn]; [lia|].
  apply Z.lor_nonneg in Hn as [H1 H2].
  apply (lor_bound a b 31); lia.
Qed.

Lemma vlq_loop_S f enc current shift vlq :
  vlq_loop (S f) enc current shift vlq =
    if len enc <=? current then Ok (0, 0, false) else
    u <- idx enc current ;;
    let index := index_byte base64 (u mod 256) 0 in
    if index <? 0 then Ok (0, 0, false) else
    let vlq' := Z.lor vlq (shl32 (Z.land index 31) shift) in
    let current' := current + 1 in
    if Z.land index 32 =? 0 then
      let value := Z.shiftr vlq' 1 in
      let value := if negb (Z.land vlq' 1 =? 0) then wrap_i32 (- value) else value in
      Ok (value, current', true)
    else vlq_loop f enc current' (shift + 5) vlq'.
Proof. reflexivity. Qed.

Lemma vlq_loop_lt fuel : forall enc current shift vlq v i,
  vlq < 2 ^ 31 -> vlq_loop fuel enc current shift vlq = Ok (v, i, true) -> v < 2 ^ 31.
Proof.
  induction fuel as [|f IH]; intros enc current shift vlq v i Hv H; [discriminate|].
  rewrite vlq_loop_S in H.
  destruct (len enc <=? current); [inversion H|].
  destruct (idx enc current) as [u| |]; cbn [bind] in H; try discriminate.
  cbv zeta in H. revert H. generalize (index_byte base64 (u mod 256) 0). intros ix H.
  destruct (ix <? 0); [inversion H|].
  set (vlq' := Z.lor vlq (shl32 (Z.land ix 31) shift)) in *.
  assert (Hv' : vlq' < 2 ^ 31) by (apply lor_lt31; [exact Hv|apply shl32_lt]).
  destruct (Z.land ix 32 =? 0).
  - cbv zeta in H. injection H as Hval _. subst v. destruct (negb (Z.land vlq' 1 =? 0)).
    + pose proof (wrap_i32_range (- Z.shiftr vlq' 1)). lia.
    + rewrite Z.shiftr_div_pow2 by lia. change (2 ^ 1) with 2.
      destruct (Z.lt_ge_cases vlq' 0); [|].
      * assert (vlq' / 2 < 0) by (apply Z.div_lt_upper_bound; lia). lia.
      * assert (vlq' / 2 <= vlq') by (apply Z.div_le_upper_bound; lia). lia.
  - eapply IH; [exact Hv'|exact H].
Qed.

Lemma DecodeVLQUTF16_lt enc v i : DecodeVLQUTF16 enc = Ok (v, i, true) -> v < 2 ^ 31.
Proof.
  unfold DecodeVLQUTF16. destruct (len enc =? 0); [intro H; inversion H|].
  apply vlq_loop_lt. lia.
Qed.

(* ---------------- order of the returned mappings ---------------- *)

Definition mpos (m : Vlq16.mapping) : Z * Z := let '(l, c, _, _, _, _) := m in (l, c).
Definition ple (a b : Z * Z) : Prop := fst a < fst b \/ (fst a = fst b /\ snd a <= snd b).

(* newest first: every older mapping is at or before every newer one *)
Fixpoint desc (acc : list Vlq16.mapping) : Prop :=
  match acc with
  | [] => True
  | m :: r => Forall (fun x => ple (mpos x) (mpos m)) r /\ desc r
  end.

Definition InvEnd (st : mstate) (acc : list Vlq16.mapping) : Prop :=
  desc acc /\ Forall (fun x => ple (mpos x) (gl st, gc st)) acc /\ - 2 ^ 31 <= gc st < 2 ^ 31.

Lemma wrap_nonneg_id x : - 2 ^ 31 <= x < 2 ^ 32 -> 0 <= wrap_i32 x -> wrap_i32 x = x.
Proof.
  intros Hx Hw. destruct (Z.lt_ge_cases x (2 ^ 31)); [apply wrap_i32_id; lia|].
  exfalso. unfold wrap_i32 in Hw.
  replace (x + 2 ^ 31) with ((x - 2 ^ 31) + 1 * 2 ^ 32) in Hw by lia.
  rewrite Z.mod_add in Hw by lia. rewrite Z.mod_small in Hw by lia. lia.
Qed.

Lemma ple_mono l c c' x : ple x (l, c) -> c <= c' -> ple x (l, c').
Proof. unfold ple. cbn [fst snd]. intros [H|[H1 H2]] Hc; [left; exact H|right; split; [exact H1|lia]]. Qed.

Lemma ple_nextline l c x : ple x (l, c) -> ple x (l + 1, 0).
Proof. unfold ple. cbn [fst snd]. intros [H|[H1 H2]]; left; lia. Qed.

Section Sorted.
  Variable raw : list Z.
  Variables lo co so no sl nl : Z.

  Definition Inv (st : mstate) (current : Z) (acc : list Vlq16.mapping) : Prop :=
    InvEnd st acc /\ gl st + (len raw - current) < 2 ^ 31 /\ - 2 ^ 31 <= gl st.

  Ltac hstep H :=
    match type of H with
    | bind ?e _ = _ => let v := fresh "v" in destruct e as [v| |] eqn:?; cbn [bind] in H; [|discriminate H|discriminate H]
    | (let '(_, _) := ?p in _) = _ => destruct p
    | (if negb ?b then _ else _) = _ => destruct b eqn:?; cbn [negb] in H
    | (if ?c then _ else _) = _ => destruct c eqn:?
    | Ok (NErr _ _ _ _) = _ => discriminate H
    end.

  Lemma mloop_ns_sorted : forall fuel st current acc ns st' acc',
    mloop_ns raw lo co so no sl nl fuel st current acc ns = Ok (NDone st' acc' false) ->
    ns = false /\ (Inv st current acc -> InvEnd st' acc').
  Proof.
    induction fuel as [|f IH]; intros st current acc ns st' acc' H; [discriminate|].
    cbn [mloop_ns] in H. cbv zeta in H.
    repeat hstep H.
    all: repeat match goal with
         | E : DecodeVLQUTF16 _ = Ok (_, _, ?b) |- _ => is_var b; destruct b
         end.
    all: cbv iota in *.
    all: repeat match goal with
         | E : DecodeVLQUTF16 _ = Ok (_, _, true) |- _ =>
           pose proof (DecodeVLQUTF16_progress _ _ _ E); pose proof (DecodeVLQUTF16_lt _ _ _ E); clear E
         end.
    all: try (injection H as <- <- Hns).
    all: try (destruct (IH _ _ _ _ _ _ H) as [Hns Himp]).
    all: try (apply orb_false_iff in Hns as [Hns Hd]).
    all: (split; [assumption|]).
    all: intros ((Hdesc & Hall & Hgc) & Hgl & Hgl').
    all: try apply Himp.
    all: unfold Inv, InvEnd; cbn [gl gc desc mpos].
    all: repeat match goal with
         | Hc : (_ || _) = false |- _ => apply orb_false_iff in Hc as [? ?]
         end.
    all: try match goal with
         | Hw : (wrap_i32 (gc ?s + ?d) <? 0) = false |- _ =>
           assert (Ew : wrap_i32 (gc s + d) = gc s + d) by (apply wrap_nonneg_id; lia);
           pose proof (wrap_i32_range (gc s + d)); rewrite Ew in *
         end.
    all: try match goal with |- context [wrap_i32 (gl ?s + 1)] => assert (El : wrap_i32 (gl s + 1) = gl s + 1) by (apply wrap_i32_id; lia); rewrite El end.
    all: repeat split; try assumption; try lia.
    all: try (eapply Forall_impl; [|exact Hall]; intros x Hx; first [eapply ple_mono; [exact Hx|lia] | apply (ple_nextline _ _ _ Hx)]).
    all: try (constructor; [unfold ple; cbn [fst snd mpos]; right; split; [reflexivity|lia]|]).
    all: try (eapply Forall_impl; [|exact Hall]; intros x Hx; eapply ple_mono; [exact Hx|lia]).
  Qed.
End Sorted.

(* ---------------- sorted lists ---------------- *)

Definition conv (m : Vlq16.mapping) : Vlq.mapping :=
  let '(l, c, s, ol, oc, name) := m in mkMapping l c s ol oc (if name <? 0 then None else Some name).

Definition mle (a b : Vlq16.mapping) : Prop := ple (mpos a) (mpos b).

Fixpoint ssorted (l : list Vlq16.mapping) : Prop :=
  match l with [] => True | x :: r => Forall (mle x) r /\ ssorted r end.

Lemma ple_trans a b c : ple a b -> ple b c -> ple a c.
Proof. unfold ple. lia. Qed.

Lemma ple_total a b : ~ ple a b -> ple b a.
Proof. unfold ple. lia. Qed.

Lemma ssorted_snoc l m : ssorted l -> Forall (fun x => mle x m) l -> ssorted (l ++ [m]).
Proof.
  induction l as [|x l IH]; intros Hs Hm; cbn [app ssorted].
  - split; constructor.
  - destruct Hs as [H1 H2]. inversion Hm as [|? ? Hxm Hm']; subst. split.
    + apply Forall_app. split; [exact H1|constructor; [exact Hxm|constructor]].
    + apply IH; assumption.
Qed.

Lemma desc_ssorted acc : desc acc -> ssorted (rev acc).
Proof.
  induction acc as [|m r IH]; intro H; [exact I|].
  destruct H as [H1 H2]. cbn [rev]. apply ssorted_snoc; [apply IH, H2|].
  apply Forall_rev. exact H1.
Qed.

Lemma pos_le_conv a b : mle a b -> pos_le (conv a) (conv b).
Proof.
  destruct a as [[[[[al ac] a3] a4] a5] a6], b as [[[[[bl bc] b3] b4] b5] b6].
  unfold mle, ple, pos_le, mpos, conv. cbn. tauto.
Qed.

Lemma ssorted_sorted_maps l : ssorted l -> sorted_maps (map conv l).
Proof.
  induction l as [|x [|y r] IH]; intro H; cbn [map sorted_maps]; [exact I|exact I|].
  destruct H as [H1 H2]. split.
  - apply pos_le_conv. inversion H1; assumption.
  - apply IH. exact H2.
Qed.

Lemma insert_pos_cases m l :
  insert_pos m l = match l with
                   | [] => [m]
                   | x :: r => if less_m m x then m :: l else x :: insert_pos m r
                   end.
Proof.
  destruct l as [|x r]; [reflexivity|]. cbn [insert_pos]. unfold less_m.
  destruct m as [[[[[ml mc] m3] m4] m5] m6], x as [[[[[xl xc] x3] x4] x5] x6]. reflexivity.
Qed.

Lemma less_m_spec a b : less_m a b = true <-> mle a b.
Proof.
  destruct a as [[[[[al ac] a3] a4] a5] a6], b as [[[[[bl bc] b3] b4] b5] b6].
  unfold less_m, mle, ple, mpos. cbn [fst snd]. lia.
Qed.

Lemma Forall_insert (P : Vlq16.mapping -> Prop) m : forall l, P m -> Forall P l -> Forall P (insert_pos m l).
Proof.
  induction l as [|x r IH]; intros Hm Hl; rewrite insert_pos_cases.
  - constructor; [exact Hm|constructor].
  - inversion Hl; subst. destruct (less_m m x); constructor; auto.
Qed.

Lemma insert_ssorted m : forall l, ssorted l -> ssorted (insert_pos m l).
Proof.
  induction l as [|x r IH]; intro Hs; rewrite insert_pos_cases.
  - split; constructor.
  - destruct Hs as [H1 H2]. destruct (less_m m x) eqn:E.
    + apply less_m_spec in E. split; [|split; assumption].
      constructor; [exact E|]. eapply Forall_impl; [|exact H1]. intros y Hy. unfold mle in *. eapply ple_trans; eassumption.
    + assert (Hxm : mle x m).
      { apply ple_total. intro Hc. apply less_m_spec in Hc. congruence. }
      split; [apply Forall_insert; assumption|apply IH; exact H2].
Qed.

Lemma sort_pos_ssorted l : ssorted (sort_pos l).
Proof. induction l as [|x r IH]; [exact I|]. cbn [sort_pos fold_right]. apply insert_ssorted. exact IH. Qed.

Lemma Forall_sort_pos (P : Vlq16.mapping -> Prop) l : Forall P l -> Forall P (sort_pos l).
Proof.
  induction l as [|x r IH]; intro H; [constructor|]. inversion H; subst.
  cbn [sort_pos fold_right]. apply Forall_insert; auto.
Qed.

(* ---------------- the sections ---------------- *)

(* the section offsets are int32 and the line counter cannot overflow *)
Definition sec_bounds (s : section) : Prop :=
  let '(lo, co, _, _, raw) := s in - 2 ^ 31 <= lo /\ lo + len raw < 2 ^ 31 /\ - 2 ^ 31 <= co < 2 ^ 31.

Lemma psections_ns_sorted : forall secs k nsrc nnames acc gline gcol ns n1 n2 ms,
  psections_ns secs k nsrc nnames acc gline gcol ns = Ok (QMap n1 n2 ms false) ->
  ns = false /\
  (Forall sec_bounds secs -> desc acc -> Forall (fun x => ple (mpos x) (gline, gcol)) acc -> ssorted ms).
Proof.
  induction secs as [|[[[[lo co] sl] nl] raw] rest IH]; intros k nsrc nnames acc gline gcol ns n1 n2 ms H.
  - cbn [psections_ns] in H. destruct ((nsrc =? 0) || _); [discriminate|].
    injection H as _ _ Hms Hns. subst ns. split; [reflexivity|]. intros _ Hd _. subst ms. apply desc_ssorted, Hd.
  - cbn [psections_ns] in H. destruct ((len raw =? 0) || (sl =? 0)).
    + destruct (IH _ _ _ _ _ _ _ _ _ _ H) as [Hns Himp]. split; [exact Hns|].
      intros Hb. inversion Hb; subst. apply Himp. assumption.
    + cbv zeta in H.
      destruct (mloop_ns raw lo co (wrap_i32 nsrc) (wrap_i32 nnames) sl nl (S (length raw)) _ 0 acc _)
        as [[c v e cur|st acc' ns']| |] eqn:Em; cbn [bind] in H; try discriminate.
      destruct (IH _ _ _ _ _ _ _ _ _ _ H) as [Hns' Himp]. subst ns'.
      destruct (mloop_ns_sorted _ _ _ _ _ _ _ _ _ _ _ _ _ _ Em) as [Hns Hinv].
      apply orb_false_iff in Hns as [Hns H3]. apply orb_false_iff in Hns as [Hns H2].
      split; [exact Hns|].
      intros Hb Hd Hall. inversion Hb as [|? ? Hhd Hb']; subst. unfold sec_bounds in Hhd. destruct Hhd as (B1 & B2 & B3).
      assert (HI : Inv raw (mkM lo co (wrap_i32 nsrc) 0 0 (wrap_i32 nnames)) 0 acc).
      { unfold Inv, InvEnd. cbn [gl gc]. repeat split; try assumption; try lia.
        eapply Forall_impl; [|exact Hall]. intros x Hx. eapply ple_trans; [exact Hx|].
        unfold ple. cbn [fst snd]. lia. }
      destruct (Hinv HI) as (D1 & D2 & _).
      apply Himp; assumption.
Qed.

(* ParseSourceMap's Mappings are sorted by generated position and index inside
   Sources / Names *)
Theorem parse_sorted_in_range : forall secs n1 n2 ms flag,
  sections_ok secs -> total_sources secs < 2 ^ 31 -> total_names secs < 2 ^ 31 ->
  Forall sec_bounds secs ->
  ParseMappingsOrdered secs = Ok (QMap n1 n2 ms flag) ->
  sorted_maps (map conv ms) /\ Forall (good_mapping n1 n2) ms.
Proof.
  intros secs n1 n2 ms flag Hok Hs Hn Hb E. unfold ParseMappingsOrdered in E.
  pose proof (psections_ns_rel secs 0 0 0 [] 0 0 false) as R. rewrite E in R.
  destruct R as (ms0 & E0 & Ems).
  pose proof (parsed_map_indices_in_range_all secs n1 n2 ms0 Hok Hs Hn E0) as Hgood.
  destruct flag.
  - subst ms. split; [apply ssorted_sorted_maps, sort_pos_ssorted|apply Forall_sort_pos, Hgood].
  - subst ms. split; [|exact Hgood].
    apply ssorted_sorted_maps.
    destruct (psections_ns_sorted _ _ _ _ _ _ _ _ _ _ _ E) as [_ Himp].
    apply Himp; [exact Hb|exact I|constructor].
Qed.

(* ---------------- the hypotheses of builder_composes ---------------- *)
From V Require Import C07.BuilderInProofs.

Lemma good_names_in_range n1 n2 ms (inames : list Z) :
  Z.of_nat (length inames) = n2 -> Forall (good_mapping n1 n2) ms -> names_in_range (map conv ms) inames.
Proof.
  intros Hl H. unfold names_in_range. apply Forall_map. eapply Forall_impl; [|exact H].
  intros [[[[[l c] s] ol] oc] name] Hg. unfold good_mapping in Hg. cbn [conv m_name].
  destruct (name <? 0) eqn:E; [exact I|]. lia.
Qed.

(* every source map ParseSourceMap returns satisfies what builder_composes asks
   of an input map: sorted by generated position, name indices inside Names *)
Theorem parsed_map_composable : forall secs n1 n2 ms flag (inames : list Z),
  sections_ok secs -> total_sources secs < 2 ^ 31 -> total_names secs < 2 ^ 31 ->
  Forall sec_bounds secs ->
  ParseMappingsOrdered secs = Ok (QMap n1 n2 ms flag) ->
  Z.of_nat (length inames) = n2 ->
  sorted_maps (map conv ms) /\ names_in_range (map conv ms) inames.
Proof.
  intros secs n1 n2 ms flag inames H1 H2 H3 H4 E Hl.
  destruct (parse_sorted_in_range secs n1 n2 ms flag H1 H2 H3 H4 E) as [A B].
  split; [exact A|]. eapply good_names_in_range; eassumption.
Qed.
