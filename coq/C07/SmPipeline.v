(* The emitted source map as a whole: the text assembled around the mappings of
   pipeline_exact is well-formed JSON and says what it should. *)
From V Require Import Common.Base Common.Utf8 C07.Vlq C07.SpecMap C07.Mappings C07.VlqProofs C07.MappingsProofs
  C07.JoinProofs C07.Shift C07.ShiftAux C07.ShiftProofs C07.LineCol C07.Builder C07.BuilderProofs C07.LineColProofs
  C07.SpecBuilder C07.JoinAll C07.JoinAllProofs C07.Pipeline
  C19.Json C19.JsonSpec C19.JsonProofs C07.SmJson C07.SmJsonProofs.

(* ---------------- a mappings string stands for itself between quotation marks ---------------- *)

Lemma b64_safe_sweep :
  forallb (fun n => let c := b64_char (Z.of_nat n) in (32 <=? c) && (c <=? 126) && negb (c =? 34) && negb (c =? 92))
          (seq 0 64) = true.
Proof. vm_compute. reflexivity. Qed.

Lemma b64_safe d : 0 <= d < 64 -> safe_char (b64_char d).
Proof.
  intro Hd. pose proof b64_safe_sweep as H. rewrite forallb_forall in H.
  specialize (H (Z.to_nat d)). rewrite Z2Nat.id in H by lia.
  specialize (H ltac:(apply in_seq; lia)). cbv zeta in H. unfold safe_char. lia.
Qed.

Lemma enc_loop_safe : forall fuel vlq, Forall safe_char (enc_loop fuel vlq).
Proof.
  induction fuel as [|f IH]; intro vlq; [constructor|].
  cbn [enc_loop]. assert (0 <= vlq mod 32 < 32) by (apply Z.mod_pos_bound; lia).
  destruct (vlq / 32 =? 0).
  - constructor; [apply b64_safe; lia|constructor].
  - constructor; [apply b64_safe; lia|apply IH].
Qed.

Lemma encodeVLQ_safe v : Forall safe_char (encodeVLQ v).
Proof. apply enc_loop_safe. Qed.

Lemma ebytes_safe : forall ops lb p, Forall safe_char (ebytes ops lb p).
Proof.
  induction ops as [|[|gc si ol oc nm|gc] r IH]; intros lb p.
  4:{ rewrite ebytes_null, null_seg_eq.
      repeat (apply Forall_app; split); try apply encodeVLQ_safe; try apply IH.
      destruct (sepb lb); [constructor; [unfold safe_char, COMMA; lia|constructor]|constructor]. }
  - constructor.
  - rewrite ebytes_newline. constructor; [unfold safe_char, SEMI; lia|apply IH].
  - destruct (ebytes_map_gen gc si ol oc nm r lb p) as (lb' & _ & ->).
    repeat (apply Forall_app; split); try apply encodeVLQ_safe; try apply IH.
    + destruct (sepb lb); [constructor; [unfold safe_char, COMMA; lia|constructor]|constructor].
    + unfold fields. destruct nm; repeat (apply Forall_app; split); try apply encodeVLQ_safe; constructor.
Qed.

Lemma emit_bytes_safe ops : Forall safe_char (emit_bytes ops).
Proof. rewrite emit_bytes_ebytes. apply ebytes_safe. Qed.

(* ---------------- the whole map ---------------- *)

Theorem sourcemap_json_all : forall (sfs : list src_file) sh ascii (items : list (bytes * bytes)) root excl (names : list bytes),
  Forall src_ok sfs -> shifts_wf sh ->
  Forall (fun it => bytes_ok (fst it) /\ bytes_ok (snd it)) items ->
  (forall r, root = Some r -> bytes_ok r) -> Forall bytes_ok names ->
  exists rs m result,
    map built_res sfs = map Some rs /\
    join_all rs = Some m /\
    Finalize sh m = Some result /\
    spec_decode result =
      Some (map (shift_abs sh) (joined_abs (assign_sources rs [] 0) (map spec_file sfs) (0, 0) 0)) /\
    parse_json (sourcemap_text_items ascii items root excl result names) =
      Some (sm_jv (map fst items) root (if excl then None else Some (map snd items)) result names).
Proof.
  intros sfs sh ascii items root excl names Hok Hsh Hit Hroot Hnames.
  set (fs := map spec_file sfs).
  assert (Hrs : map built_res sfs = map Some (map res_of fs) /\ Forall file_ok fs /\ Forall file_wf fs).
  { subst fs. clear -Hok. induction Hok as [|sf l Hsf _ IH]; [repeat split; constructor|].
    destruct (built_is_spec sf Hsf) as (A & B & C). destruct IH as (A' & B' & C').
    cbn [map]. rewrite A, A'. repeat split; constructor; assumption. }
  destruct Hrs as (Hrs & Hfo & Hfw).
  destruct (join_all_decodes_all fs Hfo) as (m & Ej & Em & _). cbv zeta in Ej, Em.
  set (tbl := assign_sources (map res_of fs) [] 0) in *.
  assert (Hwf : ops_wf (joined_ops tbl fs 0 0)) by (apply joined_sorted; [exact Hfw|lia]).
  pose proof (finalize_shift sh _ Hsh Hwf) as F1.
  set (result := emit_bytes (shift_ops sh (joined_ops tbl fs 0 0) 0)) in *.
  exists (map res_of fs), m, result.
  split; [exact Hrs|]. split; [exact Ej|]. rewrite Em. split; [exact F1|]. split.
  - subst result. rewrite mappings_roundtrip_all, abs_of_shift_ops. f_equal. f_equal. apply abs_of_joined.
    clear -Hfo. induction Hfo as [|f l Hf _ IH]; constructor; [apply Hf|exact IH].
  - unfold sourcemap_text_items. apply sm_json_all.
    + apply Forall_map. eapply Forall_impl; [|exact Hit]. intros it [H _]. exact H.
    + exact Hroot.
    + intros cs E. destruct excl; [discriminate|]. inversion E; subst.
      apply Forall_map. eapply Forall_impl; [|exact Hit]. intros it [_ H]. exact H.
    + subst result. apply emit_bytes_safe.
    + exact Hnames.
Qed.
