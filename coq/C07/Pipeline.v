(* pipeline_exact: builder events of n files -> GenerateChunk -> the joining loop
   of generateSourceMapForChunk -> SourceMapPieces.Finalize with a well-formed
   shift list; the final mappings string decodes to every file's specified
   mappings at the file's place, generated columns moved by the shifts.
   Composition of builder_mappings_exact, join_all_decodes and
   finalize_moves_columns; the new ingredient is that the joined event list is
   sorted within each generated line (needed by Finalize). *)
From V Require Import Common.Base Common.Utf8 C07.Vlq C07.SpecMap C07.Mappings C07.LineCol C07.Builder
  C07.VlqProofs C07.MappingsProofs C07.JoinProofs C07.BuilderProofs C07.LineColAux C07.LineColProofs
  C07.SpecBuilder C07.BuilderExact C07.JoinAll C07.JoinAllProofs C07.Shift C07.ShiftAux C07.ShiftProofs.

(* ---------------- chunks with a mapping ---------------- *)

Fixpoint has_map (ops : list op) : bool :=
  match ops with
  | [] => false
  | ONewline :: r => has_map r
  | OMap _ _ _ _ _ :: _ => true
  | ONull _ :: _ => false       (* the first mapping of a builder chunk has an original position *)
  end.

Lemma has_map_split : forall ops, has_map ops = true ->
  exists k gc si ol oc nm rest, ops = repeat ONewline k ++ OMap gc si ol oc nm :: rest.
Proof.
  induction ops as [|[|gc si ol oc nm|gc] r IH]; intro H; cbn [has_map] in H.
  - discriminate.
  - destruct (IH H) as (k & gc & si & ol & oc & nm & rest & ->).
    exists (S k), gc, si, ol, oc, nm, rest. reflexivity.
  - exists 0%nat, gc, si, ol, oc, nm, r. reflexivity.
  - discriminate.
Qed.

Lemma has_map_app_l a b : has_map a = true -> has_map (a ++ b) = true.
Proof. induction a as [|[| |] a IH]; cbn [app has_map]; intro H; [discriminate|exact (IH H)|reflexivity|discriminate]. Qed.

Lemma has_map_newlines k X : has_map (repeat ONewline k ++ X) = has_map X.
Proof. induction k as [|k IH]; [reflexivity|]. cbn [repeat app has_map]. exact IH. Qed.

Lemma breaks_ops_nil : forall k has, breaks_ops k [] has = repeat ONewline k.
Proof. induction k as [|k IH]; intro has; [reflexivity|]. cbn [breaks_ops repeat]. destruct has; cbn [app]; rewrite IH; reflexivity. Qed.

(* a chunk with a mapping is not ShouldIgnore *)
Lemma all_semis_has_map : forall ops lb p, has_map ops = true -> all_semis (ebytes ops lb p) = false.
Proof.
  induction ops as [|[|gc si ol oc nm|gc] r IH]; intros lb p H; cbn [has_map] in H.
  4:{ discriminate. }
  - discriminate.
  - rewrite ebytes_newline. cbn [all_semis]. rewrite (IH _ _ H). apply andb_false_r.
  - destruct (ebytes_map_gen gc si ol oc nm r lb p) as (lb' & _ & ->).
    destruct (sepb lb).
    + reflexivity.
    + cbn [app]. destruct (enc_cons (gc - gcol p)) as (c & t & -> & Hc & _). cbn [app all_semis].
      destruct (Z.eqb_spec c SEMI); [contradiction|reflexivity].
Qed.

(* ---------------- the joined events are sorted within lines ---------------- *)

Lemma sorted_ops_app : forall a b c, sorted_ops (a ++ b) c <-> sorted_ops a c /\ sorted_ops b (end_col a c).
Proof.
  induction a as [|[|gc si ol oc nm|gc] a IH]; intros b c; cbn [app sorted_ops end_col].
  - tauto.
  - apply IH.
  - rewrite IH. tauto.
  - rewrite IH. tauto.
Qed.

Lemma end_col_app : forall a b c, end_col (a ++ b) c = end_col b (end_col a c).
Proof. induction a as [|[| |] a IH]; intros b c; cbn [app end_col]; [reflexivity| | |]; apply IH. Qed.

Lemma end_col_newlines k c : end_col (repeat ONewline k) c = match k with O => c | S _ => 0 end.
Proof. revert c. induction k as [|k IH]; intro c; [reflexivity|]. cbn [repeat end_col]. rewrite IH. destruct k; reflexivity. Qed.

Lemma sorted_newlines k c : sorted_ops (repeat ONewline k) c.
Proof. revert c. induction k as [|k IH]; intro c; [exact I|]. cbn [repeat sorted_ops]. apply IH. Qed.

Lemma rebase_sorted_end (dc ds dn : Z) : forall ops c0 c' (fl : bool),
  sorted_ops ops c0 -> c' <= c0 + (if fl then dc else 0) ->
  sorted_ops (rebase dc ds dn fl ops) c' /\
  end_col (rebase dc ds dn fl ops) c' <= end_col ops c0 + (if fl && (nlines ops =? 0) then dc else 0).
Proof.
  induction ops as [|[|gc si ol oc nm|gc] r IH]; intros c0 c' fl Hs Hc; cbn [rebase sorted_ops end_col nlines] in *.
  - rewrite andb_true_r. split; [exact I|exact Hc].
  - destruct (IH 0 0 false Hs ltac:(lia)) as (A & B). split; [exact A|].
    pose proof (nlines_nonneg r).
    assert (Hf : fl && (1 + nlines r =? 0) = false) by (destruct fl; cbn [andb]; lia).
    rewrite Hf. cbn [andb] in B. exact B.
  - destruct Hs as [H1 H2].
    destruct (IH gc (if fl then gc + dc else gc) fl H2 ltac:(destruct fl; lia)) as (A & B).
    split; [split; [destruct fl; lia|exact A]|exact B].
  - destruct Hs as [H1 H2].
    destruct (IH gc (if fl then gc + dc else gc) fl H2 ltac:(destruct fl; lia)) as (A & B).
    split; [split; [destruct fl; lia|exact A]|exact B].
Qed.

(* a compiled file as the builder guarantees it, with an offset that is a position *)
Definition file_wf (f : jfile) : Prop :=
  sorted_ops (f_ops f) 0 /\ end_col (f_ops f) 0 <= f_fcol f /\ 0 <= fst (f_off f) /\ 0 <= snd (f_off f).

Lemma joined_sorted tbl : forall fs pco total c,
  Forall file_wf fs -> c <= pco ->
  sorted_ops (joined_ops tbl fs pco total) c.
Proof.
  induction fs as [|f fs IH]; intros pco total c Hall Hc; [exact I|].
  inversion Hall as [|f' l (W1 & W2 & W3 & W4) Hall']; subst.
  cbn [joined_ops]. apply sorted_ops_app. split; [apply sorted_newlines|].
  rewrite end_col_newlines. apply sorted_ops_app.
  set (L := Z.to_nat (fst (f_off f))).
  set (c1 := match L with O => c | S _ => 0 end).
  set (sc := start_col f pco).
  assert (Hc1 : c1 <= 0 + sc).
  { subst c1 sc L. unfold start_col. destruct (Z.eqb_spec (fst (f_off f)) 0) as [E|E].
    - rewrite E. cbn. lia.
    - destruct (Z.to_nat (fst (f_off f))) eqn:EL; lia. }
  destruct (rebase_sorted_end sc (src_of tbl f) total (f_ops f) 0 c1 true W1 Hc1) as (A & B).
  split; [exact A|]. apply IH; [exact Hall'|].
  cbn [andb] in B. lia.
Qed.

(* ---------------- the pipeline ---------------- *)

(* one source file as the printer sees it: original text, AddSourceMapping calls,
   final output text; and where the linker puts it: offset, source index *)
Definition src_file := (bytes * list (Z * Z * bytes) * bytes * (Z * Z) * Z)%type.

(* what the file contributes, by specification *)
Definition spec_file (sf : src_file) : jfile :=
  let '(text, evs, fin, off, src) := sf in
  let '(ops, names, fcol) := builder_spec text true evs fin in
  mkJfile ops (Z.of_nat (length names)) fcol off src.

(* what the linker gets from the (modelled) ChunkBuilder *)
Definition built_res (sf : src_file) : option jres :=
  let '(text, evs, fin, off, src) := sf in
  match run_builder (GenerateLineOffsetTables text) (bst0 true) evs with
  | None => None
  | Some b =>
    let '(data, fno, names, endst, fcol, ign) := GenerateChunk b fin in
    Some (mkJres data fno (Z.of_nat (length names)) endst fcol ign off src false)
  end.

Definition src_ok (sf : src_file) : Prop :=
  let '(text, evs, fin, off, src) := sf in
  Forall (fun e => boundary text (fst (fst e))) evs /\ evs <> [] /\ 0 <= fst off /\ 0 <= snd off.

Lemma boundary_nonneg text off : boundary text off -> 0 <= off.
Proof.
  intros [->|H]; [lia|].
  pose proof (wf_runes_offsets (runes text) text 0 off (runes_wf text) H). lia.
Qed.

(* the first call is never a duplicate: the chunk has a mapping *)
Lemma sp_event_first text cover loc name delta :
  0 <= loc -> has_map (snd (sp_event text cover sw0 loc name delta)) = true.
Proof.
  intro Hloc. unfold sp_event. cbn [w_ploc sw0].
  replace (loc =? -1) with false by lia. cbn [andb snd].
  assert (Hcov : cover_op cover (w_last sw0) = []) by (destruct cover; reflexivity).
  rewrite Hcov, breaks_ops_nil, has_map_newlines.
  match goal with |- has_map ((if ?c then _ else _) ++ _) = _ => destruct c end; reflexivity.
Qed.

Lemma spec_has_map text cover evs fin :
  Forall (fun e => boundary text (fst (fst e))) evs -> evs <> [] ->
  has_map (builder_spec_ops text cover evs fin) = true.
Proof.
  intros Hall Hne. destruct evs as [|[[loc name] delta] evs]; [congruence|].
  inversion Hall as [|e l Hb _]; subst. cbn [fst] in Hb. pose proof (boundary_nonneg _ _ Hb) as Hloc.
  unfold builder_spec_ops, builder_spec. cbn [fst snd].
  apply has_map_app_l. cbn [sp_run snd]. apply has_map_app_l.
  apply (sp_event_first text cover loc name delta Hloc).
Qed.

Lemma built_is_spec sf : src_ok sf ->
  built_res sf = Some (res_of (spec_file sf)) /\ file_ok (spec_file sf) /\ file_wf (spec_file sf).
Proof.
  destruct sf as [[[[text evs] fin] off] src]. intros (Hall & Hne & Ho1 & Ho2).
  pose proof (spec_has_map text true evs fin Hall Hne) as Hmap.
  destruct (builder_exact_all text true evs fin Hall) as (b & Erun & H).
  unfold built_res, spec_file. rewrite Erun.
  unfold builder_spec_ops in Hmap.
  destruct (GenerateChunk b fin) as [[[[[data fno] names] endst] fcol] ign] eqn:EG.
  destruct (builder_spec text true evs fin) as [[ops snames] scol] eqn:ES.
  cbn [fst] in Hmap.
  destruct H as (H1 & H2 & H3 & H4 & H5 & H6 & H7 & H8).
  assert (Hign : ign = false).
  { unfold GenerateChunk in EG. injection EG as E1 E2 E3 E4 E5 E6.
    rewrite <- E6, E1, H1. unfold emit_bytes. apply (all_semis_has_map ops 0 state0 Hmap). }
  split; [|split].
  - unfold res_of. cbn [f_ops f_nn f_fcol f_off f_src]. subst. reflexivity.
  - split; [exact (has_map_split ops Hmap)|exact Ho1].
  - unfold file_wf. cbn [f_ops f_fcol f_off]. split; [exact H7|]. split; [|split; assumption].
    rewrite <- H5. exact H8.
Qed.

(* every file through the builder, the joining loop, then Finalize *)
Theorem pipeline_exact_all : forall (sfs : list src_file) sh,
  Forall src_ok sfs -> shifts_wf sh ->
  exists rs m result,
    map built_res sfs = map Some rs /\
    join_all rs = Some m /\
    Finalize sh m = Some result /\
    spec_decode result =
      Some (map (shift_abs sh) (joined_abs (assign_sources rs [] 0) (map spec_file sfs) (0, 0) 0)).
Proof.
  intros sfs sh Hok Hsh.
  set (fs := map spec_file sfs).
  assert (Hrs : map built_res sfs = map Some (map res_of fs) /\ Forall file_ok fs /\ Forall file_wf fs).
  { subst fs. induction Hok as [|sf l Hsf _ IH]; [repeat split; constructor|].
    destruct (built_is_spec sf Hsf) as (A & B & C). destruct IH as (A' & B' & C').
    cbn [map]. rewrite A, A'. repeat split; constructor; assumption. }
  destruct Hrs as (Hrs & Hfo & Hfw).
  destruct (join_all_decodes_all fs Hfo) as (m & Ej & Em & _). cbv zeta in Ej, Em.
  set (tbl := assign_sources (map res_of fs) [] 0) in *.
  assert (Hwf : ops_wf (joined_ops tbl fs 0 0)) by (apply joined_sorted; [exact Hfw|lia]).
  destruct (finalize_decodes_map sh _ Hsh Hwf) as (result & F1 & _ & F3).
  exists (map res_of fs), m, result.
  split; [exact Hrs|]. split; [exact Ej|]. rewrite Em. split; [exact F1|].
  rewrite F3. f_equal. f_equal. apply abs_of_joined.
  clear -Hfo. induction Hfo as [|f l Hf _ IH]; constructor; [apply Hf|exact IH].
Qed.
