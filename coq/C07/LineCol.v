(* C07 model, part 4: LineColumnOffset.AdvanceBytes/AdvanceString/Add,
   GenerateLineOffsetTables and the table lookup of ChunkBuilder.AddSourceMapping
   (internal/sourcemap/sourcemap.go). *)
From V Require Import Common.Base Common.Utf8 C07.Vlq C07.Shift.

(* AdvanceBytes / AdvanceString: same loop over runes *)
Fixpoint advance_runes (rs : list (Z * Z * nat)) (rest : bytes) (lines cols : Z) : Z * Z :=
  match rs with
  | [] => (lines, cols)
  | (_, c, w) :: r =>
    let rest' := skipn w rest in
    if is_newline c then
      if (c =? 13) && (match rest' with b :: _ => b =? 10 | [] => false end)
      then advance_runes r rest' lines (cols + 1)
      else advance_runes r rest' (lines + 1) 0
    else advance_runes r rest' lines (cols + u16w c)
  end.

Definition Advance (off : lc) (text : bytes) : lc :=
  advance_runes (runes text) text (fst off) (snd off).

Definition lc_add (a b : lc) : lc :=
  if fst b =? 0 then (fst a, snd a + snd b) else (fst a + fst b, snd b).

(* one LineOffsetTable: start of line, offset of first non-ASCII, optional columns *)
Record lot := mkLot { l_start : Z; l_first : Z; l_cols : option (list Z) }.

Record gst := mkGst {
  g_cols : option (list Z);   (* ColumnsForNonASCII, most recent LAST *)
  g_first : Z;                (* ByteOffsetToFirstNonASCII *)
  g_lineoff : Z;              (* lineByteOffset *)
  g_coloff : Z;               (* columnByteOffset *)
  g_col : Z;                  (* column *)
  g_out : list lot            (* most recent first *)
}.

(* append `column` for columnByteOffset .. lineBytesSoFar *)
Definition fill_cols (cols : list Z) (coloff upto col : Z) : list Z * Z :=
  if coloff <=? upto
  then (cols ++ repeat col (Z.to_nat (upto - coloff + 1)), upto + 1)
  else (cols, coloff).

Definition gen_step (s : gst) (i c : Z) (next_is_lf : bool) : gst :=
  let lineoff := if g_col s =? 0 then i else g_lineoff s in
  let '(cols0, first0, coloff0) :=
    match g_cols s with
    | None => if 127 <? c then (Some [], i - lineoff, i - lineoff)
              else (None, g_first s, g_coloff s)
    | Some l => (Some l, g_first s, g_coloff s)
    end in
  let '(cols1, coloff1) :=
    match cols0 with
    | Some l => let '(l', co) := fill_cols l coloff0 (i - lineoff) (g_col s) in (Some l', co)
    | None => (None, coloff0)
    end in
  if is_newline c then
    if (c =? 13) && next_is_lf
    then mkGst cols1 first0 lineoff coloff1 (g_col s + 1) (g_out s)
    else mkGst None 0 lineoff 0 0 (mkLot lineoff first0 cols1 :: g_out s)
  else mkGst cols1 first0 lineoff coloff1 (g_col s + u16w c) (g_out s).

Fixpoint gen_loop (rs : list (Z * Z * nat)) (rest : bytes) (s : gst) : gst :=
  match rs with
  | [] => s
  | (i, c, w) :: r =>
    let rest' := skipn w rest in
    gen_loop r rest' (gen_step s i c (match rest' with b :: _ => b =? 10 | [] => false end))
  end.

Definition GenerateLineOffsetTables (text : bytes) : list lot :=
  let s := gen_loop (runes text) text (mkGst None 0 0 0 0 []) in
  let n := Z.of_nat (length text) in
  let lineoff := if g_col s =? 0 then n else g_lineoff s in
  let cols :=
    match g_cols s with
    | Some l => Some (fst (fill_cols l (g_coloff s) (n - lineoff) (g_col s)))
    | None => None
    end in
  rev (mkLot lineoff (g_first s) cols :: g_out s).

(* the binary search of AddSourceMapping: number of tables with start <= loc, minus one *)
Fixpoint line_search (fuel : nat) (ts : list lot) (orig count : nat) (loc : Z) : nat :=
  match fuel with
  | O => orig
  | S f =>
    match count with
    | O => orig
    | _ =>
      let step := Nat.div count 2 in
      let i := (orig + step)%nat in
      match nth_error ts i with
      | None => orig
      | Some t =>
        if l_start t <=? loc then line_search f ts (S i) (count - step - 1)%nat loc
        else line_search f ts orig step loc
      end
    end
  end.

(* returns (originalLine, originalColumn); None models an index panic *)
Definition lookup (ts : list lot) (loc : Z) : option (Z * Z) :=
  let n := line_search (S (length ts)) ts 0%nat (length ts) loc in
  match n with
  | O => None
  | S line =>
    match nth_error ts line with
    | None => None
    | Some t =>
      let col := loc - l_start t in
      match l_cols t with
      | Some cs =>
        if l_first t <=? col
        then match nth_error cs (Z.to_nat (col - l_first t)) with
             | Some c => Some (Z.of_nat line, c)
             | None => None
             end
        else Some (Z.of_nat line, col)
      | None => Some (Z.of_nat line, col)
      end
    end
  end.

(* Specification: UTF-16 line/column of a byte offset, by direct scanning
   (esbuild's newline convention: CR, LF, CRLF as one, U+2028, U+2029). *)
Fixpoint spec_linecol (rs : list (Z * Z * nat)) (rest : bytes) (off line col : Z) : Z * Z :=
  match rs with
  | [] => (line, col)
  | (i, c, w) :: r =>
    if off <=? i then (line, col)
    else
      let rest' := skipn w rest in
      if is_newline c then
        if (c =? 13) && (match rest' with b :: _ => b =? 10 | [] => false end)
        then spec_linecol r rest' off line (col + 1)
        else spec_linecol r rest' off (line + 1) 0
      else spec_linecol r rest' off line (col + u16w c)
  end.
Definition linecol_utf16 (text : bytes) (off : Z) : Z * Z := spec_linecol (runes text) text off 0 0.
