(* Checker for the parsemap family (kept apart from Harness.v because the C16
   model it evaluates uses names that clash with C07's: mapping, base64). *)
From V Require Import Common.Base C16.Checked C16.Vlq16 C07.ParseMap C07.Harness.

(* ---- js_parser.ParseSourceMap: decoded mappings in the order returned ---- *)
Fixpoint list_leb (a b : list Z) : bool :=
  match a, b with
  | [], _ => true
  | _ :: _, [] => false
  | x :: a', y :: b' => (x <? y) || ((x =? y) && list_leb a' b')
  end.
Definition m6_eqb (a b : Vlq16.mapping) : bool :=
  let '(a1, a2, a3, a4, a5, a6) := a in let '(b1, b2, b3, b4, b5, b6) := b in
  (a1 =? b1) && (a2 =? b2) && (a3 =? b3) && (a4 =? b4) && (a5 =? b5) && (a6 =? b6).
Definition m6_leb (a b : Vlq16.mapping) : bool :=
  let '(a1, a2, a3, a4, a5, a6) := a in let '(b1, b2, b3, b4, b5, b6) := b in
  list_leb [a1; a2; a3; a4; a5; a6] [b1; b2; b3; b4; b5; b6].
Fixpoint insert_c (m : Vlq16.mapping) (l : list Vlq16.mapping) : list Vlq16.mapping :=
  match l with [] => [m] | x :: r => if m6_leb m x then m :: l else x :: insert_c m r end.
Definition canon (l : list Vlq16.mapping) : list Vlq16.mapping := fold_right insert_c [] l.
Fixpoint sorted_posb (l : list Vlq16.mapping) : bool :=
  match l with a :: ((b :: _) as r) => less_m a b && sorted_posb r | _ => true end.

(* (sections (lineOffset, columnOffset, #sources, #names, mappings units),
    Go: 0 = nil / 1 = a map, len(Sources), len(Names), Mappings in order).
   When needSort is set the two sorted results are compared as sorted
   permutations (Go's Less is not strict: equal positions may be permuted). *)
Definition parsemap_ok (c : list (Z * Z * Z * Z * list Z) * Z * Z * Z * list Vlq16.mapping) : bool :=
  let '(secs, kind, gns, gnn, gms) := c in
  match ParseMappingsOrdered secs with
  | Ok (QMap ns nn ms flag) =>
    (kind =? 1) && (ns =? gns) && (nn =? gnn) &&
    (if flag then sorted_posb gms && list_eqb m6_eqb (canon gms) (canon ms)
     else list_eqb m6_eqb gms ms)
  | Ok QNil => kind =? 0
  | Ok (QErr _ _ _ _ _) => kind =? 0
  | _ => false
  end.
Definition check_parsemap := mismatches parsemap_ok.
