(* builder_sorted: whatever sequence of AddSourceMapping / GenerateChunk calls
   is made, the mappings buffer of the ChunkBuilder is the emission of an event
   list whose mappings are sorted by generated position; hence (with
   mappings_roundtrip) it decodes under the v3 semantics to a sorted list. *)
From V Require Import Common.Base Common.Utf8 C07.Vlq C07.SpecMap C07.Mappings C07.LineCol C07.Builder
  C07.VlqProofs C07.MappingsProofs C07.JoinProofs.

(* events sorted within each line; [c] = column of the last mapping on the current line *)
Fixpoint sorted_ops (ops : list op) (c : Z) : Prop :=
  match ops with
  | [] => True
  | ONewline :: r => sorted_ops r 0
  | OMap gc _ _ _ _ :: r => c <= gc /\ sorted_ops r gc
  | ONull gc :: r => c <= gc /\ sorted_ops r gc
  end.

(* column of the last mapping on the current line after ops, starting from c *)
Fixpoint end_col (ops : list op) (c : Z) : Z :=
  match ops with
  | [] => c
  | ONewline :: r => end_col r 0
  | OMap gc _ _ _ _ :: r => end_col r gc
  | ONull gc :: r => end_col r gc
  end.

Lemma sorted_ops_snoc : forall a c o,
  sorted_ops a c ->
  match o with ONewline => True | OMap gc _ _ _ _ => end_col a c <= gc | ONull gc => end_col a c <= gc end ->
  sorted_ops (a ++ [o]) c.
Proof.
  induction a as [|x a IH]; intros c o Ha Ho.
  - destruct o; cbn in *; auto.
  - destruct x as [|gc si ol oc nm|gc]; cbn [app sorted_ops end_col] in *.
    + apply IH; assumption.
    + destruct Ha as [H1 H2]. split; [exact H1|]. apply IH; assumption.
    + destruct Ha as [H1 H2]. split; [exact H1|]. apply IH; assumption.
Qed.

Lemma end_col_snoc a c o :
  end_col (a ++ [o]) c = match o with ONewline => 0 | OMap gc _ _ _ _ => gc | ONull gc => gc end.
Proof.
  revert c. induction a as [|x a IH]; intro c.
  - destruct o; reflexivity.
  - destruct x; cbn [app end_col]; apply IH.
Qed.

(* decoded mappings of sorted events are sorted *)
Lemma abs_of_sorted_aux : forall ops line c,
  sorted_ops ops c ->
  forall prev, a_gline prev <= line -> (a_gline prev = line -> a_gcol prev <= c) ->
  sorted_abs (prev :: abs_of ops line) = true.
Proof.
  induction ops as [|o ops IH]; intros line c Hs prev Hl Hc; [reflexivity|].
  destruct o as [|gc si ol oc nm|gc]; cbn [abs_of sorted_ops] in *.
  - apply (IH (line + 1) 0 Hs); [lia|]. intro; lia.
  - destruct Hs as [H1 H2].
    cbn [sorted_abs]. apply andb_true_iff. split.
    + unfold abs_pos_le. cbn. destruct (Z.eq_dec (a_gline prev) line) as [E|E].
      * specialize (Hc E). apply orb_true_iff. right. apply andb_true_iff. split; lia.
      * apply orb_true_iff. left. lia.
    + apply (IH line gc H2); cbn; [lia|intro; lia].
  - destruct Hs as [H1 H2].
    cbn [sorted_abs]. apply andb_true_iff. split.
    + unfold abs_pos_le. cbn. destruct (Z.eq_dec (a_gline prev) line) as [E|E].
      * specialize (Hc E). apply orb_true_iff. right. apply andb_true_iff. split; lia.
      * apply orb_true_iff. left. lia.
    + apply (IH line gc H2); cbn; [lia|intro; lia].
Qed.

Lemma abs_of_sorted ops : sorted_ops ops 0 -> sorted_abs (abs_of ops 0) = true.
Proof.
  intro Hs. destruct ops as [|o ops]; [reflexivity|].
  (* use a virtual predecessor at (0,0) *)
  pose proof (abs_of_sorted_aux (o :: ops) 0 0 Hs (mkAbs 0 0 None None) ltac:(cbn; lia) ltac:(cbn; lia)) as H.
  cbn [sorted_abs] in H. destruct (abs_of (o :: ops) 0) eqn:E; [reflexivity|].
  apply andb_true_iff in H. apply H.
Qed.

(* ---------------- the builder invariant ---------------- *)

Definition Inv0 (b : bst) : Prop :=
  exists ops,
    emit ops 0 state0 = (b_map b, last (b_map b) 0, b_prev b) /\
    sorted_ops ops 0 /\
    end_col ops 0 = gcol (b_prev b) /\
    gcol (b_prev b) <= b_gencol b.

Definition Inv (b : bst) : Prop := Inv0 b /\ (b_linestart b = false -> gcol (b_prev b) = 0).

Lemma emit_snoc ops o bm lb st :
  emit ops 0 state0 = (bm, lb, st) ->
  emit (ops ++ [o]) 0 state0 =
  let '(bb, lbb, sb) := emit [o] lb st in (bm ++ bb, lbb, sb).
Proof. intro E. rewrite emit_app, E. reflexivity. Qed.

Lemma last_app_seg (m seg : bytes) d : seg <> [] -> last (m ++ seg) d = last seg (last m d).
Proof.
  intro H. rewrite last_app_nonempty by exact H.
  destruct seg as [|x seg]; [congruence|]. clear H. revert x.
  induction seg as [|y seg IH]; intro x; [reflexivity|]. cbn [last]. apply IH.
Qed.

Lemma appendMapping_nonempty lb p c : fst (appendMapping lb p c false) <> [].
Proof.
  unfold appendMapping. destruct (has_name c); cbn [fst].
  - intro H. apply app_eq_nil in H as [_ H]. apply (encodeVLQ_nonempty _ H).
  - intro H. apply app_eq_nil in H as [_ H]. apply app_eq_nil in H as [_ H]. apply app_eq_nil in H as [_ H].
    apply (encodeVLQ_nonempty _ H).
Qed.

(* append_raw with a current state on the current line at a column between the
   previous mapping's column and the current generated column *)
Lemma append_raw_inv0 b gc si ol oc (nm : option Z) :
  Inv0 b -> gcol (b_prev b) <= gc -> gc <= b_gencol b ->
  let cur := mkState (gline (b_prev b)) gc si ol oc (match nm with Some n => n | None => 0 end)
                     (match nm with Some _ => true | None => false end) in
  Inv0 (append_raw b cur) /\ gcol (b_prev (append_raw b cur)) = gc /\
  b_gencol (append_raw b cur) = b_gencol b /\ b_linestart (append_raw b cur) = b_linestart b /\
  b_hasprev (append_raw b cur) = true /\ b_cover (append_raw b cur) = b_cover b /\
  gline (b_prev (append_raw b cur)) = gline (b_prev b).
Proof.
  intros (ops & He & Hs & Hec & Hg) Hge Hle cur.
  unfold append_raw.
  destruct (appendMapping (last (b_map b) 0) (b_prev b) cur false) as [seg off] eqn:Eapp.
  assert (Hseg : seg = fst (appendMapping (last (b_map b) 0) (b_prev b) cur false)) by (rewrite Eapp; reflexivity).
  unfold set_map. cbn [b_map b_prev b_gencol b_linestart b_hasprev b_cover].
  split; [|subst cur; destruct nm; cbn; repeat split; reflexivity].
  exists (ops ++ [OMap gc si ol oc nm]). cbn [b_map b_prev b_gencol].
  split.
  - rewrite (emit_snoc _ _ _ _ _ He). cbn [emit]. unfold next_state. fold cur. rewrite Eapp. cbn [fst app].
    rewrite app_nil_r. f_equal; [f_equal|].
    + rewrite last_app_seg; [reflexivity|]. rewrite Hseg. apply appendMapping_nonempty.
    + subst cur. destruct nm; reflexivity.
  - split; [apply sorted_ops_snoc; [exact Hs|rewrite Hec; exact Hge]|].
    split; [rewrite end_col_snoc; subst cur; destruct nm; reflexivity|].
    subst cur; destruct nm; cbn; exact Hle.
Qed.

Lemma cover_state_eq b :
  cover_state b = mkState (gline (b_prev b)) 0 (sidx (b_prev b)) (oline (b_prev b)) (ocol (b_prev b)) 0 false.
Proof. reflexivity. Qed.

Lemma cover_inv b :
  Inv0 b -> gcol (b_prev b) = 0 ->
  let b' := append_raw b (cover_state b) in
  Inv0 b' /\ gcol (b_prev b') = 0 /\ b_gencol b' = b_gencol b /\ b_linestart b' = b_linestart b /\
  b_hasprev b' = true /\ b_cover b' = b_cover b /\ gline (b_prev b') = gline (b_prev b).
Proof.
  intros HI H0.
  pose proof (append_raw_inv0 b 0 (sidx (b_prev b)) (oline (b_prev b)) (ocol (b_prev b)) None HI) as H.
  cbn zeta in H. apply H; [lia|]. destruct HI as (ops & _ & _ & _ & Hg). lia.
Qed.

Lemma newline_inv b :
  Inv0 b ->
  let p := b_prev b in
  let b' := mkBst (b_map b ++ [SEMI]) (b_names b) (mkState (gline p + 1) 0 (sidx p) (oline p) (ocol p) (oname p) (has_name p))
                  0 (b_prevlen b) (b_len b) (b_prevloc b) (b_prevname b) (b_firstname b) (b_hasprev b) false (b_cover b) (b_pending b) in
  Inv b'.
Proof.
  intros (ops & He & Hs & Hec & Hg) p b'. split; [|reflexivity].
  exists (ops ++ [ONewline]). subst b'. cbn [b_map b_prev b_gencol]. split.
  - rewrite (emit_snoc _ _ _ _ _ He). cbn [emit]. f_equal. f_equal.
    rewrite last_app_nonempty by discriminate. reflexivity.
  - split; [apply sorted_ops_snoc; [exact Hs|exact I]|].
    split; [rewrite end_col_snoc; reflexivity|]. cbn. lia.
Qed.

Lemma upd_runes_inv : forall rs rest b, Inv b -> Inv (upd_runes rs rest b).
Proof.
  induction rs as [|[[i c] w] rs IH]; intros rest b HI; [exact HI|].
  cbn [upd_runes].
  destruct (is_newline c) eqn:Enl.
  - destruct ((c =? 13) && match skipn w rest with x :: _ => x =? 10 | [] => false end).
    + apply IH, HI.
    + apply IH.
      destruct HI as [HI0 Hcl].
      destruct (b_cover b && negb (b_linestart b) && b_hasprev b) eqn:Ec.
      * assert (Hls : b_linestart b = false).
        { destruct (b_linestart b); [|reflexivity]. rewrite andb_false_r in Ec. discriminate. }
        destruct (cover_inv b HI0 (Hcl Hls)) as (H1 & _).
        apply (newline_inv _ H1).
      * apply (newline_inv _ HI0).
  - apply IH. destruct HI as [(ops & He & Hs & Hec & Hg) Hcl]. split.
    + exists ops. cbn [b_map b_prev b_gencol]. repeat split; try assumption.
      unfold u16w. destruct (c <=? 65535); lia.
    + exact Hcl.
Qed.

Lemma update_gen_inv b delta : Inv b -> Inv (update_gen b delta).
Proof.
  intro HI. unfold update_gen.
  pose proof (upd_runes_inv (runes (b_pending b ++ delta)) (b_pending b ++ delta) b HI) as [(ops & He & Hs & Hec & Hg) Hcl].
  split; [exists ops; cbn [b_map b_prev b_gencol]; repeat split; assumption | exact Hcl].
Qed.

Lemma append_named_inv0 b name gc ol oc :
  Inv0 b -> gcol (b_prev b) <= gc -> gc <= b_gencol b ->
  Inv0 (append_named b name (mkState (gline (b_prev b)) gc 0 ol oc 0 false)).
Proof.
  intros HI Hge Hle. unfold append_named.
  destruct (name =? 0).
  - apply (append_raw_inv0 b gc 0 ol oc None HI Hge Hle).
  - destruct (index_of_name name (b_names b) 0) as [i|].
    + apply (append_raw_inv0 b gc 0 ol oc (Some i) HI Hge Hle).
    + set (b' := mkBst (b_map b) (b_names b ++ [name]) (b_prev b) (b_gencol b) (b_prevlen b) (b_len b)
                       (b_prevloc b) (b_prevname b) (b_firstname b) (b_hasprev b) (b_linestart b) (b_cover b) (b_pending b)).
      assert (HI' : Inv0 b') by exact HI.
      apply (append_raw_inv0 b' gc 0 ol oc (Some (Z.of_nat (length (b_names b)))) HI' Hge Hle).
Qed.

Lemma AddSourceMapping_inv ts b loc name delta b' :
  Inv b -> AddSourceMapping ts b loc name delta = Some b' -> Inv b'.
Proof.
  intros HI H. unfold AddSourceMapping in H.
  destruct ((loc =? b_prevloc b) && _) eqn:Edup.
  - inversion H; subst b'. exact HI.
  - set (b0 := mkBst (b_map b) (b_names b) (b_prev b) (b_gencol b) _ (b_len b) loc name
                     (b_firstname b) (b_hasprev b) (b_linestart b) (b_cover b) (b_pending b)) in H.
    destruct (lookup ts loc) as [[ol oc]|]; [|discriminate].
    assert (HI0 : Inv b0) by exact HI.
    pose proof (update_gen_inv b0 delta HI0) as HI1.
    set (b1 := update_gen b0 delta) in *.
    set (b2 := if b_cover b1 && negb (b_linestart b1) && (0 <? b_gencol b1) && b_hasprev b1
               then append_raw b1 (cover_state b1) else b1) in H.
    assert (HI2 : Inv0 b2 /\ gcol (b_prev b2) <= b_gencol b2).
    { subst b2. destruct HI1 as [HI1 Hcl].
      destruct (b_cover b1 && negb (b_linestart b1) && (0 <? b_gencol b1) && b_hasprev b1) eqn:Ec.
      - assert (Hls : b_linestart b1 = false).
        { destruct (b_linestart b1); [|reflexivity]. rewrite andb_false_r in Ec. cbn in Ec. discriminate. }
        destruct (cover_inv b1 HI1 (Hcl Hls)) as (H1 & H2 & H3 & _).
        split; [exact H1|]. rewrite H2, H3. destruct HI1 as (ops & _ & _ & _ & Hg). rewrite (Hcl Hls) in Hg. exact Hg.
      - split; [exact HI1|]. destruct HI1 as (ops & _ & _ & _ & Hg). exact Hg. }
    destruct HI2 as [HI2 Hg2].
    pose proof (append_named_inv0 b2 name (b_gencol b2) ol oc HI2 Hg2 ltac:(lia)) as HI3.
    inversion H; subst b'. split; [|discriminate].
    destruct HI3 as (ops & He & Hs & Hec & Hg). exists ops. cbn [b_map b_prev b_gencol]. repeat split; assumption.
Qed.

Lemma run_builder_inv ts : forall evs b b', Inv b -> run_builder ts b evs = Some b' -> Inv b'.
Proof.
  induction evs as [|[[loc name] delta] evs IH]; intros b b' HI H; cbn [run_builder] in H.
  - inversion H; subst; exact HI.
  - destruct (AddSourceMapping ts b loc name delta) as [b1|] eqn:E; [|discriminate].
    apply (IH b1 b' (AddSourceMapping_inv _ _ _ _ _ _ HI E) H).
Qed.

Lemma Inv_init cover : Inv (bst0 cover).
Proof.
  split; [|reflexivity]. exists []. cbn. repeat split; lia.
Qed.

(* The mappings of every chunk the builder can produce: sorted, and exactly the
   v3 meaning of the emitted bytes. *)
Theorem builder_sorted_all : forall ts cover evs b fin,
  run_builder ts (bst0 cover) evs = Some b ->
  let '(data, _, _, _, _, _) := GenerateChunk b fin in
  exists l, spec_decode data = Some l /\ sorted_abs l = true.
Proof.
  intros ts cover evs b fin Hrun.
  pose proof (run_builder_inv ts evs _ _ (Inv_init cover) Hrun) as HI.
  pose proof (update_gen_inv b fin HI) as [(ops & He & Hs & _) _].
  unfold GenerateChunk.
  exists (abs_of ops 0). split.
  - rewrite <- mappings_roundtrip_all. f_equal. unfold emit_bytes. rewrite He. reflexivity.
  - apply abs_of_sorted, Hs.
Qed.
