(* C07 model, part 1: internal/sourcemap/sourcemap.go
     encodeVLQ, DecodeVLQ, appendMappingToBuffer, SourceMap.Find.
   Executable definitions only (no proofs) so that the correspondence check can
   still run the model when a proof breaks.

   Modelling notes (trusted-base relevant):
   * Go `int` is modelled as unbounded Z.  `vlq & 31` is written `vlq mod 32`,
     `vlq >> 5` is `vlq / 32` (equal on the non-negative values that occur) and
     `vlq |= d << shift` is `vlq + d * 2^shift` (equal because the bits are
     disjoint: everything accumulated so far is < 2^shift).  The theorems state
     the bound |v| < 2^62 under which the Go 64-bit arithmetic does not wrap.
   * `encoded[start]` past the end panics in Go; the model returns None. *)
From V Require Import Common.Base.

Definition base64 : list Z :=
  [65;66;67;68;69;70;71;72;73;74;75;76;77;78;79;80;81;82;83;84;85;86;87;88;89;90;
   97;98;99;100;101;102;103;104;105;106;107;108;109;110;111;112;113;114;115;116;
   117;118;119;120;121;122;48;49;50;51;52;53;54;55;56;57;43;47].

Definition b64_char (d : Z) : Z := nth (Z.to_nat d) base64 0.

Fixpoint index_of (c : Z) (l : list Z) (i : Z) : option Z :=
  match l with
  | [] => None
  | x :: r => if x =? c then Some i else index_of c r (i + 1)
  end.

(* bytes.IndexByte(base64, c) *)
Definition b64_index (c : Z) : option Z := index_of c base64 0.

Fixpoint enc_loop (fuel : nat) (vlq : Z) : bytes :=
  match fuel with
  | O => []
  | S f =>
    let digit := vlq mod 32 in
    let vlq' := vlq / 32 in
    if vlq' =? 0 then [b64_char digit]
    else b64_char (digit + 32) :: enc_loop f vlq'
  end.

Definition to_vlq (value : Z) : Z :=
  if value <? 0 then 2 * (- value) + 1 else 2 * value.

(* encodeVLQ(nil, value).  Both Go paths (the "common case" and the loop) are
   the same function: the loop emits one digit when vlq>>5 == 0. *)
Definition encodeVLQ (value : Z) : bytes :=
  let vlq := to_vlq value in
  enc_loop (S (Z.to_nat (Z.log2 vlq))) vlq.

Fixpoint dec_loop (l : bytes) (shift vlq : Z) : option (Z * bytes) :=
  match l with
  | [] => None
  | c :: r =>
    match b64_index c with
    | None => Some (vlq, l)
    | Some idx =>
      let vlq' := vlq + (idx mod 32) * 2 ^ shift in
      if idx <? 32 then Some (vlq', r) else dec_loop r (shift + 5) vlq'
    end
  end.

Definition from_vlq (vlq : Z) : Z :=
  if Z.odd vlq then - (vlq / 2) else vlq / 2.

(* DecodeVLQ(encoded, start): the model works on the suffix encoded[start:]
   and returns the decoded value and the remaining suffix. *)
Definition DecodeVLQ (l : bytes) : option (Z * bytes) :=
  match dec_loop l 0 0 with
  | Some (vlq, r) => Some (from_vlq vlq, r)
  | None => None
  end.

(* ---- SourceMapState and appendMappingToBuffer ---- *)

Record state := mkState {
  gline : Z; gcol : Z; sidx : Z; oline : Z; ocol : Z; oname : Z; has_name : bool
}.

Definition state0 : state := mkState 0 0 0 0 0 0 false.

Definition SEMI : Z := 59.
Definition COMMA : Z := 44.
Definition QUOTE : Z := 34.

(* returns the bytes appended (the Go function appends to `buffer`) and the
   offset of the name VLQ inside the appended bytes, if any *)
Definition appendMapping (lastByte : Z) (prev cur : state) (omitSource : bool)
  : bytes * option Z :=
  let sep := if (negb (lastByte =? 0)) && (negb (lastByte =? SEMI)) && (negb (lastByte =? QUOTE))
             then [COMMA] else [] in
  let b1 := sep ++ encodeVLQ (gcol cur - gcol prev) in
  let b2 := if omitSource then b1
            else b1 ++ encodeVLQ (sidx cur - sidx prev)
                    ++ encodeVLQ (oline cur - oline prev)
                    ++ encodeVLQ (ocol cur - ocol prev) in
  if has_name cur
  then (b2 ++ encodeVLQ (oname cur - oname prev), Some (Z.of_nat (length b2)))
  else (b2, None).

Definition last_byte (l : bytes) : Z := last l 0.

(* ---- SourceMap.Find ---- *)

Record mapping := mkMapping {
  m_gline : Z; m_gcol : Z; m_src : Z; m_oline : Z; m_ocol : Z; m_name : option Z
}.

Definition mapping_le_pos (m : mapping) (line col : Z) : bool :=
  (m_gline m <? line) || ((m_gline m =? line) && (m_gcol m <=? col)).

(* the binary search of Find, with explicit fuel = length of the slice *)
Fixpoint find_loop (fuel : nat) (ms : list mapping) (index count : nat) (line col : Z) : nat :=
  match fuel with
  | O => index
  | S f =>
    match count with
    | O => index
    | _ =>
      let step := Nat.div count 2 in
      let i := (index + step)%nat in
      match nth_error ms i with
      | None => index
      | Some m =>
        if mapping_le_pos m line col
        then find_loop f ms (S i) (count - (step + 1))%nat line col
        else find_loop f ms index step line col
      end
    end
  end.

Definition Find (ms : list mapping) (line col : Z) : option mapping :=
  let index := find_loop (S (length ms)) ms 0%nat (length ms) line col in
  match index with
  | O => None
  | S k =>
    match nth_error ms k with
    | Some m => if m_gline m =? line then Some m else None
    | None => None
    end
  end.
