(* join_all_decodes: the joining loop of generateSourceMapForChunk applied to n
   builder-produced chunks writes, byte for byte, the v3 encoding of the
   concatenation of every file's events moved to the file's place; hence the
   joined string decodes to every file's mappings at their absolute generated
   positions with source and name indices rebased. Induction over the file
   list on top of join_bytes (one AppendSourceMapChunk). *)
From V Require Import Common.Base C07.Vlq C07.SpecMap C07.Mappings C07.VlqProofs C07.MappingsProofs
  C07.JoinProofs C07.Shift C07.LineCol C07.JoinAll.

(* ---------------- small facts about emit ---------------- *)

Lemma last_cons_d {A} (x : A) l d : last (x :: l) d = last l x.
Proof.
  revert x d. induction l as [|y l IH]; intros x d; [reflexivity|].
  change (last (x :: y :: l) d) with (last (y :: l) d). rewrite (IH y d), (IH y x). reflexivity.
Qed.

Lemma last_app_gen {A} (a b : list A) d : last (a ++ b) d = last b (last a d).
Proof.
  revert d. induction a as [|x a IH]; intro d; [reflexivity|].
  cbn [app]. rewrite last_cons_d, IH, last_cons_d. reflexivity.
Qed.

Lemma emit_last : forall ops lb p, snd (fst (emit ops lb p)) = last (fst (fst (emit ops lb p))) lb.
Proof.
  induction ops as [|o ops IH]; intros lb p; [reflexivity|].
  destruct o as [|gc si ol oc nm|gc]; cbn [emit].
  - specialize (IH SEMI (mkState (gline p + 1) 0 (sidx p) (oline p) (ocol p) (oname p) (has_name p))).
    destruct (emit ops SEMI _) as [[b l] s]. cbn [fst snd] in *. rewrite IH.
    symmetry. apply last_cons_d.
  - destruct (next_state p gc si ol oc nm) as [cur prev'].
    set (seg := fst (appendMapping lb p cur false)).
    specialize (IH (last seg lb) prev').
    destruct (emit ops (last seg lb) prev') as [[b l] s]. cbn [fst snd] in *. rewrite IH.
    symmetry. apply last_app_gen.
  - set (seg := null_seg lb p gc).
    specialize (IH (last seg lb) (null_state p gc)).
    destruct (emit ops (last seg lb) (null_state p gc)) as [[b l] s]. cbn [fst snd] in *. rewrite IH.
    symmetry. apply last_app_gen.
Qed.

(* the state after the events (independent of the last byte) *)
Fixpoint st_after (ops : list op) (p : state) : state :=
  match ops with
  | [] => p
  | ONewline :: r => st_after r (nl_state p)
  | OMap gc si ol oc nm :: r => st_after r (snd (next_state p gc si ol oc nm))
  | ONull gc :: r => st_after r (null_state p gc)
  end.

Lemma emit_state : forall ops lb p, snd (emit ops lb p) = st_after ops p.
Proof.
  induction ops as [|o ops IH]; intros lb p; [reflexivity|].
  destruct o as [|gc si ol oc nm|gc]; cbn [emit st_after].
  - specialize (IH SEMI (nl_state p)). unfold nl_state in *. destruct (emit ops SEMI _) as [[b l] s]. exact IH.
  - destruct (next_state p gc si ol oc nm) as [cur prev'] eqn:En. cbn [snd].
    specialize (IH (last (fst (appendMapping lb p cur false)) lb) prev').
    destruct (emit ops _ prev') as [[b l] s]. exact IH.
  - specialize (IH (last (null_seg lb p gc) lb) (null_state p gc)).
    destruct (emit ops _ (null_state p gc)) as [[b l] s]. exact IH.
Qed.

Lemma st_after_app a b p : st_after (a ++ b) p = st_after b (st_after a p).
Proof.
  revert p. induction a as [|o a IH]; intro p; [reflexivity|].
  destruct o; cbn [app st_after]; apply IH.
Qed.

Fixpoint nlines (ops : list op) : Z :=
  match ops with
  | [] => 0
  | ONewline :: r => 1 + nlines r
  | OMap _ _ _ _ _ :: r => nlines r
  | ONull _ :: r => nlines r
  end.

Lemma nlines_nonneg ops : 0 <= nlines ops.
Proof. induction ops as [|[| |] r IH]; cbn [nlines]; lia. Qed.

Lemma nlines_app a b : nlines (a ++ b) = nlines a + nlines b.
Proof. induction a as [|[| |] a IH]; cbn [app nlines]; lia. Qed.

Lemma nlines_repeat k : nlines (repeat ONewline k) = Z.of_nat k.
Proof. induction k as [|k IH]; cbn [repeat nlines]; lia. Qed.

Lemma st_after_gline ops p : gline (st_after ops p) = gline p + nlines ops.
Proof.
  revert p. induction ops as [|[|gc si ol oc nm|gc] r IH]; intro p; cbn [st_after nlines].
  - lia.
  - rewrite IH. unfold nl_state. cbn [gline]. lia.
  - rewrite IH. unfold next_state. destruct nm; cbn [snd gline]; lia.
  - rewrite IH. unfold null_state. cbn [gline]. lia.
Qed.

Fixpoint ops_named (ops : list op) : bool :=
  match ops with
  | [] => false
  | ONewline :: r => ops_named r
  | OMap _ _ _ _ (Some _) :: _ => true
  | OMap _ _ _ _ None :: r => ops_named r
  | ONull _ :: r => ops_named r
  end.

Lemma first_name_off_named : forall ops lb p base,
  match first_name_off ops lb p base with Some _ => ops_named ops = true | None => ops_named ops = false end.
Proof.
  induction ops as [|[|gc si ol oc [n|]|gc] r IH]; intros lb p base.
  - reflexivity.
  - cbn [first_name_off ops_named]. apply IH.
  - cbn [first_name_off ops_named]. unfold next_state, appendMapping. cbn [has_name]. reflexivity.
  - rewrite fno_map_none. cbn [ops_named]. apply IH.
  - cbn [first_name_off ops_named]. apply IH.
Qed.

(* ---------------- the state after rebased events ---------------- *)

Definition rel4 (dc ds : Z) (P p0 : state) (fl : bool) : Prop :=
  gcol P = gcol p0 + (if fl then dc else 0) /\ sidx P = sidx p0 + ds /\
  oline P = oline p0 /\ ocol P = ocol p0.

Lemma st_after_rebase dc ds dn : forall ops p0 P fl,
  rel4 dc ds P p0 fl ->
  rel4 dc ds (st_after (rebase dc ds dn fl ops) P) (st_after ops p0) (fl && (nlines ops =? 0)) /\
  (if ops_named ops
   then oname (st_after (rebase dc ds dn fl ops) P) = oname (st_after ops p0) + dn
   else oname (st_after (rebase dc ds dn fl ops) P) = oname P /\ oname (st_after ops p0) = oname p0).
Proof.
  induction ops as [|[|gc si ol oc nm|gc] r IH]; intros p0 P fl HR.
  - cbn [rebase st_after nlines ops_named]. rewrite andb_true_r. split; [exact HR|split; reflexivity].
  - cbn [rebase st_after nlines ops_named].
    assert (HR' : rel4 dc ds (nl_state P) (nl_state p0) false).
    { destruct HR as (A & B & C & D). unfold rel4, nl_state. cbn. repeat split; try assumption; lia. }
    destruct (IH (nl_state p0) (nl_state P) false HR') as (H1 & H2).
    pose proof (nlines_nonneg r).
    assert (Hf : fl && (1 + nlines r =? 0) = false) by (destruct fl; cbn [andb]; lia). rewrite Hf.
    cbn [andb] in H1. split; [exact H1|].
    destruct (ops_named r); [exact H2|]. exact H2.
  - cbn [rebase st_after nlines].
    set (p1 := snd (next_state p0 gc si ol oc nm)).
    set (P1 := snd (next_state P (if fl then gc + dc else gc) (si + ds) ol oc
                               (match nm with Some n => Some (n + dn) | None => None end))).
    assert (HR' : rel4 dc ds P1 p1 fl).
    { subst P1 p1. unfold next_state, rel4. destruct nm; cbn; destruct fl; repeat split; lia. }
    destruct (IH p1 P1 fl HR') as (H1 & H2). split; [exact H1|].
    destruct nm as [n|]; cbn [ops_named].
    + destruct (ops_named r).
      * exact H2.
      * destruct H2 as (A & B). rewrite A, B. subst P1 p1. reflexivity.
    + destruct (ops_named r).
      * exact H2.
      * destruct H2 as (A & B). rewrite A, B. subst P1 p1. split; reflexivity.
  - cbn [rebase st_after nlines ops_named].
    set (p1 := null_state p0 gc).
    set (P1 := null_state P (if fl then gc + dc else gc)).
    assert (HR' : rel4 dc ds P1 p1 fl).
    { subst P1 p1. destruct HR as (A & B & C & D). unfold null_state, rel4. cbn. destruct fl; repeat split; try assumption; lia. }
    destruct (IH p1 P1 fl HR') as (H1 & H2). split; [exact H1|].
    destruct (ops_named r); [exact H2|]. exact H2.
Qed.

(* ---------------- files ---------------- *)

(* what the linker knows about one compiled file: its events, the number of its
   names, its final generated column, its offset and its source index *)
Record jfile := mkJfile { f_ops : list op; f_nn : Z; f_fcol : Z; f_off : Z * Z; f_src : Z }.

Definition res_of (f : jfile) : jres :=
  mkJres (emit_bytes (f_ops f)) (option_map Z.of_nat (first_name_off (f_ops f) 0 state0 0)) (f_nn f)
         (snd (emit (f_ops f) 0 state0)) (f_fcol f) false (f_off f) (f_src f) false.

(* the chunk has a mapping (it is not ShouldIgnore) and the offset is a position *)
Definition file_ok (f : jfile) : Prop :=
  (exists k gc si ol oc nm rest, f_ops f = repeat ONewline k ++ OMap gc si ol oc nm :: rest) /\
  0 <= fst (f_off f).

Definition src_of (tbl : list (Z * Z)) (f : jfile) : Z :=
  match tbl_find (f_src f) tbl with Some i => i | None => 0 end.

Definition start_col (f : jfile) (pco : Z) : Z :=
  snd (f_off f) + (if fst (f_off f) =? 0 then pco else 0).

(* all events of the joined map *)
Fixpoint joined_ops (tbl : list (Z * Z)) (fs : list jfile) (pco total : Z) : list op :=
  match fs with
  | [] => []
  | f :: r =>
    let sc := start_col f pco in
    repeat ONewline (Z.to_nat (fst (f_off f)))
      ++ rebase sc (src_of tbl f) total true (f_ops f)
      ++ joined_ops tbl r (f_fcol f + (if nlines (f_ops f) =? 0 then sc else 0)) (total + f_nn f)
  end.

Definition agree5 (a b : state) : Prop :=
  gcol a = gcol b /\ sidx a = sidx b /\ oline a = oline b /\ ocol a = ocol b /\ oname a = oname b.

Lemma st_after_newlines k p :
  st_after (repeat ONewline k) p = nl_iter k p.
Proof. revert p. induction k as [|k IH]; intro p; [reflexivity|]. cbn [repeat st_after nl_iter]. apply IH. Qed.

Section Loop.
Variable jl0 : Z.
Variable tbl : list (Z * Z).

Lemma join_one_ok s f pre :
  file_ok f -> tbl_find (f_src f) tbl <> None ->
  js_out s = ebytes pre jl0 state0 -> agree5 (js_prev s) (st_after pre state0) ->
  let X := repeat ONewline (Z.to_nat (fst (f_off f)))
             ++ rebase (start_col f (js_pco s)) (src_of tbl f) (js_total s) true (f_ops f) in
  exists s', join_one jl0 tbl s (res_of f) = Some s' /\
    js_out s' = ebytes (pre ++ X) jl0 state0 /\
    agree5 (js_prev s') (st_after (pre ++ X) state0) /\
    js_pco s' = f_fcol f + (if nlines (f_ops f) =? 0 then start_col f (js_pco s) else 0) /\
    js_total s' = js_total s + f_nn f.
Proof.
  intros ((k & gc & si & ol & oc & nm & rest & Hops) & Hoff) Htbl Hout Hag X.
  unfold join_one. cbn [res_of j_src j_null j_ignore j_off j_data j_fno j_end j_fcol j_nnames].
  unfold src_of in X. destruct (tbl_find (f_src f) tbl) as [srcs|] eqn:Et; [|congruence].
  set (start := mkState (fst (f_off f)) (snd (f_off f) + (if fst (f_off f) =? 0 then js_pco s else 0)) srcs 0 0 (js_total s) false).
  set (jl := last (js_out s) jl0).
  pose proof (join_bytes_all k gc si ol oc nm rest jl (js_prev s) start eq_refl eq_refl eq_refl Hoff) as HJ.
  cbv zeta in HJ. rewrite <- Hops in HJ.
  change (ebytes (f_ops f) 0 state0) with (emit_bytes (f_ops f)) in HJ.
  rewrite HJ. clear HJ.
  cbn [gline gcol sidx oname start] in *.
  fold (start_col f (js_pco s)) in *. fold X.
  (* the true state before this file *)
  set (P := st_after pre state0) in *.
  assert (Hjl : jl = snd (fst (emit pre jl0 state0))).
  { subst jl. rewrite Hout. unfold ebytes. symmetry. apply emit_last. }
  assert (Hbytes : js_out s ++ ebytes X jl (js_prev s) = ebytes (pre ++ X) jl0 state0).
  { unfold ebytes at 2. rewrite emit_app.
    pose proof (emit_state pre jl0 state0) as Hst.
    destruct (emit pre jl0 state0) as [[b0 l0] s0] eqn:E0. cbn [fst snd] in *.
    rewrite Hout. unfold ebytes at 1. rewrite E0. cbn [fst]. subst l0 s0.
    fold P.
    destruct Hag as (A1 & A2 & A3 & A4 & A5).
    rewrite (ebytes_irrel X jl (js_prev s) P A1 A2 A3 A4 A5).
    unfold ebytes. destruct (emit X jl P) as [[bb lbb] sb]. reflexivity. }
  (* the state after this file's events *)
  set (L := Z.to_nat (fst (f_off f))) in *.
  set (sc := start_col f (js_pco s)) in *.
  set (ops := f_ops f) in *.
  rewrite emit_state.
  set (e := st_after ops state0).
  assert (Hgl : gline e = nlines ops).
  { subst e. rewrite st_after_gline. reflexivity. }
  assert (Hstate : agree5
     (mkState (gline e) (gcol e + (if gline e =? 0 then sc else 0)) (sidx e + srcs) (oline e) (ocol e)
              (match option_map Z.of_nat (first_name_off ops 0 state0 0) with
               | Some _ => oname e + js_total s | None => oname (js_prev s) end) (has_name e))
     (st_after (pre ++ X) state0)).
  { subst X. rewrite !st_after_app. fold P. rewrite st_after_newlines.
    set (PL := nl_iter L P).
    pose proof (first_name_off_named ops 0 state0 0) as Hnamed.
    rewrite Hgl. subst e.
    rewrite Hops in *. rewrite nlines_app, nlines_repeat.
    rewrite rebase_newlines, !st_after_app, !st_after_newlines.
    set (fl0 := match k with O => true | S _ => false end).
    cbn [rebase st_after nlines].
    set (p1 := snd (next_state (nl_iter k state0) gc si ol oc nm)).
    set (P1 := snd (next_state (nl_iter k PL) (if fl0 then gc + sc else gc) (si + srcs) ol oc
                               (match nm with Some n => Some (n + js_total s) | None => None end))).
    assert (HR : rel4 sc srcs P1 p1 fl0).
    { subst P1 p1. unfold next_state, rel4. destruct nm; cbn; destruct fl0; repeat split; lia. }
    destruct (st_after_rebase sc srcs (js_total s) rest p1 P1 fl0 HR) as ((B1 & B2 & B3 & B4) & B5).
    set (e := st_after rest p1) in *. set (E := st_after (rebase sc srcs (js_total s) fl0 rest) P1) in *.
    pose proof (nlines_nonneg rest) as Hnn.
    assert (Hfl : (Z.of_nat k + nlines rest =? 0) = fl0 && (nlines rest =? 0)).
    { subst fl0. destruct k; cbn [andb]; lia. }
    rewrite Hfl.
    assert (Hnm : ops_named (repeat ONewline k ++ OMap gc si ol oc nm :: rest) =
                  match nm with Some _ => true | None => ops_named rest end).
    { clear. induction k as [|k IH]; [destruct nm; reflexivity|]. cbn [repeat app ops_named]. exact IH. }
    rewrite Hnm in Hnamed.
    unfold agree5. cbn [gcol sidx oline ocol oname].
    split; [lia|]. split; [lia|]. split; [lia|]. split; [lia|].
    destruct (first_name_off _ 0 state0 0) as [x|]; cbn [option_map].
    - destruct nm as [n|].
      + destruct (ops_named rest); [lia|]. destruct B5 as (B5 & B6). rewrite B5, B6. subst P1 p1. cbn. lia.
      + rewrite Hnamed in B5. lia.
    - destruct nm as [n|]; [discriminate|]. rewrite Hnamed in B5. destruct B5 as (B5 & _). rewrite B5.
      subst P1. unfold next_state. cbn [snd oname].
      destruct (nl_iter_fields k PL) as (_ & _ & _ & C4 & _). rewrite C4.
      subst PL. destruct (nl_iter_fields L P) as (_ & _ & _ & D4 & _). rewrite D4.
      destruct Hag as (_ & _ & _ & _ & A5). exact A5. }
  destruct Hstate as (S1 & S2 & S3 & S4 & S5). cbn [gcol sidx oline ocol oname] in S1, S2, S3, S4, S5.
  eexists. split; [reflexivity|].
  unfold join_finish. cbn [gline gcol sidx oline ocol oname has_name].
  rewrite Hgl in *.
  destruct (nlines ops =? 0) eqn:Enl; cbn [js_out js_prev js_pco js_total];
    (split; [exact Hbytes|]); (split; [|split; [try lia|reflexivity]]);
    unfold agree5; cbn [gcol sidx oline ocol oname]; repeat split; try (assumption || lia).
Qed.

(* the n-file statement, bytes *)
Lemma join_loop_bytes : forall fs s pre,
  Forall file_ok fs -> (forall f, In f fs -> tbl_find (f_src f) tbl <> None) ->
  js_out s = ebytes pre jl0 state0 -> agree5 (js_prev s) (st_after pre state0) ->
  exists s', join_loop jl0 tbl s (map res_of fs) = Some s' /\
    js_out s' = ebytes (pre ++ joined_ops tbl fs (js_pco s) (js_total s)) jl0 state0.
Proof.
  induction fs as [|f fs IH]; intros s pre Hok Htbl Hout Hag.
  - exists s. split; [reflexivity|]. cbn [joined_ops]. rewrite app_nil_r. exact Hout.
  - inversion Hok as [|f' l Hf Hok']; subst.
    destruct (join_one_ok s f pre Hf (Htbl f (or_introl eq_refl)) Hout Hag) as (s1 & E1 & O1 & A1 & P1 & T1).
    cbv zeta in O1, A1.
    destruct (IH s1 _ Hok' (fun g Hg => Htbl g (or_intror Hg)) O1 A1) as (s' & E' & O').
    exists s'. cbn [map join_loop]. rewrite E1. split; [exact E'|].
    rewrite O'. cbn [joined_ops]. rewrite P1, T1. rewrite <- !app_assoc. reflexivity.
Qed.
End Loop.

(* ---------------- the sources table ---------------- *)

Lemma tbl_find_app k t a b :
  tbl_find k (t ++ [(a, b)]) =
  match tbl_find k t with Some x => Some x | None => if a =? k then Some b else None end.
Proof.
  induction t as [|[a' b'] t IH]; cbn [app tbl_find]; [reflexivity|].
  destruct (a' =? k); [reflexivity|exact IH].
Qed.

Lemma assign_keeps : forall rs tbl next k x,
  tbl_find k tbl = Some x -> tbl_find k (assign_sources rs tbl next) = Some x.
Proof.
  induction rs as [|r rs IH]; intros tbl next k x H; [exact H|].
  cbn [assign_sources]. destruct (j_null r); [apply IH, H|].
  destruct (tbl_find (j_src r) tbl); [apply IH, H|].
  apply IH. rewrite tbl_find_app, H. reflexivity.
Qed.

(* every non-null result has a "sources" entry *)
Lemma assign_complete : forall rs tbl next r,
  In r rs -> j_null r = false -> tbl_find (j_src r) (assign_sources rs tbl next) <> None.
Proof.
  induction rs as [|r0 rs IH]; intros tbl next r Hin Hn; [destruct Hin|].
  cbn [assign_sources]. destruct Hin as [<- | Hin].
  - rewrite Hn. destruct (tbl_find (j_src r0) tbl) as [x|] eqn:E.
    + rewrite (assign_keeps _ _ _ _ _ E). discriminate.
    + erewrite assign_keeps; [discriminate|]. rewrite tbl_find_app, E, Z.eqb_refl. reflexivity.
  - destruct (j_null r0); [apply IH; assumption|].
    destruct (tbl_find (j_src r0) tbl); apply IH; assumption.
Qed.

(* the table numbers the distinct source indices 0, 1, 2, ... in order of first
   appearance (what the "sources" array lists) *)
Fixpoint zseq (a : Z) (n : nat) : list Z := match n with O => [] | S n' => a :: zseq (a + 1) n' end.

Lemma zseq_snoc a n : zseq a (S n) = zseq a n ++ [a + Z.of_nat n].
Proof.
  revert a. induction n as [|n IH]; intro a.
  - cbn. rewrite Z.add_0_r. reflexivity.
  - change (zseq a (S (S n))) with (a :: zseq (a + 1) (S n)). rewrite IH. cbn [zseq app].
    replace (a + Z.of_nat (S n)) with (a + 1 + Z.of_nat n) by lia. reflexivity.
Qed.

Lemma tbl_find_none_notin k t : tbl_find k t = None -> ~ In k (map fst t).
Proof.
  induction t as [|[a b] t IH]; cbn [tbl_find map In fst]; [tauto|].
  destruct (Z.eqb_spec a k); [discriminate|]. intros H [E|E]; [congruence|]. exact (IH H E).
Qed.

Lemma NoDup_app_one {A} (l : list A) a : NoDup l -> ~ In a l -> NoDup (l ++ [a]).
Proof.
  induction l as [|x l IH]; intros Hd Hn; cbn [app].
  - constructor; [intros []|constructor].
  - apply NoDup_cons_iff in Hd as [H1 H2]. apply NoDup_cons_iff. split.
    + intro Hin. apply in_app_iff in Hin as [Hin|[<-|[]]]; [exact (H1 Hin)|]. apply Hn. left. reflexivity.
    + apply IH; [exact H2|]. intro Hin. apply Hn. right. exact Hin.
Qed.

Lemma assign_numbering : forall rs tbl next,
  next = Z.of_nat (length tbl) -> map snd tbl = zseq 0 (length tbl) -> NoDup (map fst tbl) ->
  let t := assign_sources rs tbl next in
  map snd t = zseq 0 (length t) /\ NoDup (map fst t).
Proof.
  induction rs as [|r rs IH]; intros tbl next Hn Hs Hd; [split; assumption|].
  cbn [assign_sources]. destruct (j_null r); [apply IH; assumption|].
  destruct (tbl_find (j_src r) tbl) eqn:E; [apply IH; assumption|].
  apply IH.
  - rewrite app_length. cbn [length]. lia.
  - rewrite map_app, app_length, Hs. cbn [map snd length].
    replace (length tbl + 1)%nat with (S (length tbl)) by lia. rewrite zseq_snoc. subst next. reflexivity.
  - rewrite map_app. cbn [map fst].
    apply NoDup_app_one; [exact Hd|]. apply tbl_find_none_notin, E.
Qed.

(* ---------------- the declarative reading ---------------- *)

(* position + relative offset (what LineColumnOffset.Add computes) *)
Definition pos_add (a b : Z * Z) : Z * Z :=
  if fst b =? 0 then (fst a, snd a + snd b) else (fst a + fst b, snd b).

(* a mapping of a file moved to the file's place: [line] lines down, its
   first line [dc] columns right, source index + ds, name index + dn *)
Definition move_abs (line dc ds dn : Z) (a : abs) : abs :=
  mkAbs (a_gline a + line) (a_gcol a + (if a_gline a =? 0 then dc else 0))
        (match a_src a with Some (s, l, c) => Some (s + ds, l, c) | None => None end)
        (match a_name a with Some n => Some (n + dn) | None => None end).

(* [pos]: where the previous file's text ended; every file starts at
   pos + offset and its text ends (nlines, final column) further *)
Fixpoint joined_abs (tbl : list (Z * Z)) (fs : list jfile) (pos : Z * Z) (total : Z) : list abs :=
  match fs with
  | [] => []
  | f :: r =>
    let start := pos_add pos (f_off f) in
    map (move_abs (fst start) (snd start) (src_of tbl f) total) (abs_of (f_ops f) 0)
      ++ joined_abs tbl r (pos_add start (nlines (f_ops f), f_fcol f)) (total + f_nn f)
  end.

Lemma abs_of_app : forall a b l, abs_of (a ++ b) l = abs_of a l ++ abs_of b (l + nlines a).
Proof.
  induction a as [|[|gc si ol oc nm|gc] a IH]; intros b l; cbn [app abs_of nlines].
  - rewrite Z.add_0_r. reflexivity.
  - rewrite IH. f_equal. f_equal. lia.
  - rewrite IH. reflexivity.
  - rewrite IH. reflexivity.
Qed.

Lemma abs_of_newlines k l : abs_of (repeat ONewline k) l = [].
Proof. revert l. induction k as [|k IH]; intro l; [reflexivity|]. cbn [repeat abs_of]. apply IH. Qed.

Lemma nlines_rebase dc ds dn : forall ops fl, nlines (rebase dc ds dn fl ops) = nlines ops.
Proof. induction ops as [|[| |] r IH]; intro fl; cbn [rebase nlines]; [reflexivity| | |]; rewrite IH; reflexivity. Qed.

Lemma abs_of_rebase line dc ds dn : forall ops l0 fl,
  0 <= l0 -> fl = (l0 =? 0) ->
  abs_of (rebase dc ds dn fl ops) (line + l0) = map (move_abs line dc ds dn) (abs_of ops l0).
Proof.
  induction ops as [|[|gc si ol oc nm|gc] r IH]; intros l0 fl H0 Hfl; cbn [rebase abs_of map].
  - reflexivity.
  - replace (line + l0 + 1) with (line + (l0 + 1)) by lia. apply IH; lia.
  - rewrite (IH l0 fl H0 Hfl). f_equal. unfold move_abs. cbn [a_gline a_gcol a_src a_name].
    rewrite <- Hfl. f_equal; [lia|destruct fl; lia].
  - rewrite (IH l0 fl H0 Hfl). f_equal. unfold move_abs. cbn [a_gline a_gcol a_src a_name].
    rewrite <- Hfl. f_equal; [lia|destruct fl; lia].
Qed.

Lemma abs_of_joined tbl : forall fs line pco total,
  Forall (fun f => 0 <= fst (f_off f)) fs ->
  abs_of (joined_ops tbl fs pco total) line = joined_abs tbl fs (line, pco) total.
Proof.
  induction fs as [|f fs IH]; intros line pco total Hall; [reflexivity|].
  inversion Hall as [|f' l Hf Hall']; subst.
  cbn [joined_ops joined_abs].
  rewrite abs_of_app, abs_of_newlines, nlines_repeat. cbn [app].
  rewrite abs_of_app, nlines_rebase.
  rewrite Z2Nat.id by exact Hf.
  assert (Hstart : pos_add (line, pco) (f_off f) = (line + fst (f_off f), start_col f pco)).
  { unfold pos_add, start_col. cbn [fst snd]. destruct (Z.eqb_spec (fst (f_off f)) 0) as [E|E].
    - rewrite E. f_equal; lia.
    - f_equal. lia. }
  rewrite Hstart. cbn [fst snd].
  rewrite <- (Z.add_0_r (line + fst (f_off f))) at 1.
  rewrite (abs_of_rebase _ _ _ _ (f_ops f) 0 true (Z.le_refl 0) eq_refl).
  f_equal. rewrite IH by exact Hall'. f_equal.
  unfold pos_add. cbn [fst snd]. destruct (nlines (f_ops f) =? 0) eqn:E.
  - f_equal; lia.
  - f_equal; lia.
Qed.

(* ---------------- the theorem ---------------- *)

(* For every list of compiled files (builder-produced chunks that are not
   ShouldIgnore, any offsets with a non-negative line count, any source
   indices), the loop of generateSourceMapForChunk (with the sources table its
   first loop builds) does not panic, and the mappings it writes denote, under
   the v3 semantics, exactly: every file's mappings, in order, at the place of
   the file's text (start = end of the previous file's text + its offset), with
   the file's "sources" index and the number of names of the previous files
   added. *)
Theorem join_all_decodes_all : forall fs,
  Forall file_ok fs ->
  let tbl := assign_sources (map res_of fs) [] 0 in
  exists m, join_all (map res_of fs) = Some m /\
            m = emit_bytes (joined_ops tbl fs 0 0) /\
            spec_decode m = Some (joined_abs tbl fs (0, 0) 0).
Proof.
  intros fs Hok tbl. unfold join_all. fold tbl.
  assert (Htbl : forall f, In f fs -> tbl_find (f_src f) tbl <> None).
  { intros f Hin. subst tbl.
    apply (assign_complete (map res_of fs) [] 0 (res_of f)); [apply in_map, Hin|reflexivity]. }
  destruct (join_loop_bytes QUOTE tbl fs jst0 [] Hok Htbl eq_refl) as (s & E & O).
  { unfold agree5. cbn. repeat split. }
  rewrite E. eexists. split; [reflexivity|].
  cbn [app js_pco js_total jst0] in O.
  assert (Hm : js_out s = emit_bytes (joined_ops tbl fs 0 0)).
  { rewrite O. unfold emit_bytes. apply ebytes_lb. reflexivity. }
  split; [exact Hm|]. rewrite Hm, mappings_roundtrip_all. f_equal.
  apply abs_of_joined. clear -Hok. induction Hok as [|f l Hf _ IH]; constructor; [apply Hf|exact IH].
Qed.

(* the sources table: distinct source indices numbered 0,1,2,... in order of
   first appearance, every non-null result has an entry *)
Theorem sources_table_all : forall rs,
  let t := assign_sources rs [] 0 in
  map snd t = zseq 0 (length t) /\ NoDup (map fst t) /\
  (forall r, In r rs -> j_null r = false -> tbl_find (j_src r) t <> None).
Proof.
  intros rs t.
  destruct (assign_numbering rs [] 0 eq_refl eq_refl (NoDup_nil _)) as (A & B).
  split; [exact A|]. split; [exact B|]. intros r Hin Hn. apply assign_complete; assumption.
Qed.
