(* pipeline_exact and the emitted JSON with null entries: the compiled files of a
   chunk interleaved with files whose chunk has no mappings. *)
From V Require Import Common.Base Common.Utf8 C07.Vlq C07.SpecMap C07.Mappings C07.LineCol C07.Builder
  C07.VlqProofs C07.MappingsProofs C07.JoinProofs C07.BuilderProofs C07.LineColAux C07.LineColProofs
  C07.SpecBuilder C07.BuilderExact C07.JoinAll C07.JoinAllProofs C07.JoinNullProofs C07.Shift C07.ShiftAux C07.ShiftProofs
  C07.Pipeline C19.Json C19.JsonSpec C19.JsonProofs C07.SmJson C07.SmJsonProofs C07.SmPipeline.

Definition item_wf (it : jitem) : Prop := match it with JFile f => file_wf f | JNull _ => True end.

Lemma joined_sorted_i tbl : forall items pco total c,
  Forall item_wf items -> c <= pco ->
  sorted_ops (joined_ops_i tbl items pco total) c.
Proof.
  induction items as [|[f|src] items IH]; intros pco total c Hall Hc; [exact I| |];
    inversion Hall as [|it l Hw Hall']; subst; cbn [joined_ops_i].
  - destruct Hw as (W1 & W2 & W3 & W4).
    apply sorted_ops_app. split; [apply sorted_newlines|].
    rewrite end_col_newlines. apply sorted_ops_app.
    set (L := Z.to_nat (fst (f_off f))).
    set (c1 := match L with O => c | S _ => 0 end).
    set (sc := start_col f pco).
    assert (Hc1 : c1 <= 0 + sc).
    { subst c1 sc L. unfold start_col. destruct (Z.eqb_spec (fst (f_off f)) 0) as [E|E].
      - rewrite E. cbn. lia.
      - destruct (Z.to_nat (fst (f_off f))) eqn:EL; lia. }
    destruct (rebase_sorted_end sc (src_of tbl f) total (f_ops f) 0 c1 true W1 Hc1) as (A & B).
    split; [exact A|]. apply IH; [exact Hall'|].
    cbn [andb] in B. lia.
  - cbn [sorted_ops]. split; [exact Hc|]. apply IH; [exact Hall'|lia].
Qed.

(* a source file with mappings, or a file without mappings (only its source index matters) *)
Inductive src_item := SFile (sf : src_file) | SNull (src : Z).

Definition spec_item (si : src_item) : jitem :=
  match si with SFile sf => JFile (spec_file sf) | SNull src => JNull src end.

Definition built_item (si : src_item) : option jres :=
  match si with SFile sf => built_res sf | SNull src => Some (res_of_item (JNull src)) end.

Definition src_item_ok (si : src_item) : Prop := match si with SFile sf => src_ok sf | SNull _ => True end.

Lemma built_items_spec : forall sis, Forall src_item_ok sis ->
  map built_item sis = map Some (map res_of_item (map spec_item sis)) /\
  Forall item_ok (map spec_item sis) /\ Forall item_wf (map spec_item sis).
Proof.
  induction 1 as [|[sf|src] l Hs _ IH]; [repeat split; constructor| |]; destruct IH as (A' & B' & C'); cbn [map].
  - destruct (built_is_spec sf Hs) as (A & B & C). cbn [built_item spec_item res_of_item].
    rewrite A, A'. repeat split; constructor; assumption.
  - cbn [built_item spec_item]. rewrite A'. repeat split; constructor; try assumption; exact I.
Qed.

Theorem pipeline_exact_items : forall (sis : list src_item) sh,
  Forall src_item_ok sis -> shifts_wf sh ->
  exists rs m result,
    map built_item sis = map Some rs /\
    join_all rs = Some m /\
    Finalize sh m = Some result /\
    result = emit_bytes (shift_ops sh (joined_ops_i (assign_sources rs [] 0) (map spec_item sis) 0 0) 0) /\
    spec_decode result =
      Some (map (shift_abs sh) (joined_abs_i (assign_sources rs [] 0) (map spec_item sis) (0, 0) 0)).
Proof.
  intros sis sh Hok Hsh.
  destruct (built_items_spec sis Hok) as (Hrs & Hio & Hiw).
  set (items := map spec_item sis) in *.
  destruct (join_all_decodes_items items Hio) as (m & Ej & Em & _). cbv zeta in Ej, Em.
  set (tbl := assign_sources (map res_of_item items) [] 0) in *.
  assert (Hwf : ops_wf (joined_ops_i tbl items 0 0)) by (apply joined_sorted_i; [exact Hiw|lia]).
  pose proof (finalize_shift sh _ Hsh Hwf) as F1.
  exists (map res_of_item items), m, (emit_bytes (shift_ops sh (joined_ops_i tbl items 0 0) 0)).
  split; [exact Hrs|]. split; [exact Ej|]. rewrite Em. split; [exact F1|]. split; [reflexivity|].
  rewrite mappings_roundtrip_all, abs_of_shift_ops. f_equal. f_equal. apply abs_of_joined_i. exact Hio.
Qed.

Theorem sourcemap_json_items : forall (sis : list src_item) sh ascii (items : list (bytes * bytes)) root excl (names : list bytes),
  Forall src_item_ok sis -> shifts_wf sh ->
  Forall (fun it => bytes_ok (fst it) /\ bytes_ok (snd it)) items ->
  (forall r, root = Some r -> bytes_ok r) -> Forall bytes_ok names ->
  exists rs m result,
    map built_item sis = map Some rs /\
    join_all rs = Some m /\
    Finalize sh m = Some result /\
    spec_decode result =
      Some (map (shift_abs sh) (joined_abs_i (assign_sources rs [] 0) (map spec_item sis) (0, 0) 0)) /\
    parse_json (sourcemap_text_items ascii items root excl result names) =
      Some (sm_jv (map fst items) root (if excl then None else Some (map snd items)) result names).
Proof.
  intros sis sh ascii items root excl names Hok Hsh Hit Hroot Hnames.
  destruct (pipeline_exact_items sis sh Hok Hsh) as (rs & m & result & A & B & C & D & E).
  exists rs, m, result. repeat (split; [assumption|]).
  unfold sourcemap_text_items. apply sm_json_all.
  - apply Forall_map. eapply Forall_impl; [|exact Hit]. intros it [H _]. exact H.
  - exact Hroot.
  - intros cs Ec. destruct excl; [discriminate|]. inversion Ec; subst.
    apply Forall_map. eapply Forall_impl; [|exact Hit]. intros it [_ H]. exact H.
  - rewrite D. apply emit_bytes_safe.
  - exact Hnames.
Qed.
