(* C07 model, part 7: ChunkBuilder with an input source map
   (MakeChunkBuilder(inputSourceMap != nil, ...): coverLinesWithoutMappings =
   false; ChunkBuilder.appendMapping remaps every mapping through
   inputSourceMap.Find, drops it when there is none, and takes the name from
   the input map's Names when the found mapping carries one).
   [AddSourceMappingG None] is AddSourceMapping of Builder.v.
   Names are ids as in Builder.v (0 = the empty string); the input map's Names
   array is a list of ids. Executable definitions only. *)
From V Require Import Common.Base Common.Utf8 C07.Vlq C07.Mappings C07.LineCol C07.Builder.

(* ChunkBuilder.appendMapping; None = index panic (Names[i] out of range) *)
Definition append_mapping_g (ism : option (list mapping * list Z)) (b : bst) (name : Z) (cur : state) : option bst :=
  match ism with
  | None => Some (append_named b name cur)
  | Some (ms, inames) =>
    match Find ms (oline cur) (ocol cur) with
    | None => Some b
    | Some m =>
      let cur' := mkState (gline cur) (gcol cur) (m_src m) (m_oline m) (m_ocol m) (oname cur) (has_name cur) in
      match m_name m with
      | None => Some (append_named b name cur')
      | Some i =>
        match nth_error inames (Z.to_nat i) with
        | Some name' => Some (append_named b name' cur')
        | None => None
        end
      end
    end
  end.

Definition AddSourceMappingG (ism : option (list mapping * list Z)) (ts : list lot) (b : bst) (loc name : Z) (delta : bytes) : option bst :=
  let newlen := b_len b + Z.of_nat (length (b_pending b)) + Z.of_nat (length delta) in
  if (loc =? b_prevloc b) && ((b_prevlen b =? newlen) || (b_prevname b =? name))
  then Some (mkBst (b_map b) (b_names b) (b_prev b) (b_gencol b) (b_prevlen b) (b_len b) (b_prevloc b) (b_prevname b)
                   (b_firstname b) (b_hasprev b) (b_linestart b) (b_cover b) (b_pending b ++ delta))
  else
    let b0 := mkBst (b_map b) (b_names b) (b_prev b) (b_gencol b) newlen (b_len b) loc name
                    (b_firstname b) (b_hasprev b) (b_linestart b) (b_cover b) (b_pending b) in
    match lookup ts loc with
    | None => None
    | Some (oline, ocol) =>
      let b1 := update_gen b0 delta in
      let b2 := if b_cover b1 && negb (b_linestart b1) && (0 <? b_gencol b1) && b_hasprev b1
                then append_raw b1 (cover_state b1) else b1 in
      match append_mapping_g ism b2 name (mkState (gline (b_prev b2)) (b_gencol b2) 0 oline ocol 0 false) with
      | None => None
      | Some b3 =>
        Some (mkBst (b_map b3) (b_names b3) (b_prev b3) (b_gencol b3) (b_prevlen b3) (b_len b3) (b_prevloc b3)
                    (b_prevname b3) (b_firstname b3) (b_hasprev b3) true (b_cover b3) (b_pending b3))
      end
    end.

Fixpoint run_builder_g (ism : option (list mapping * list Z)) (ts : list lot) (b : bst) (evs : list (Z * Z * bytes)) : option bst :=
  match evs with
  | [] => Some b
  | (loc, name, delta) :: r =>
    match AddSourceMappingG ism ts b loc name delta with
    | None => None
    | Some b' => run_builder_g ism ts b' r
    end
  end.

(* MakeChunkBuilder: coverLinesWithoutMappings = (inputSourceMap == nil) *)
Definition bst0_g (ism : option (list mapping * list Z)) : bst :=
  bst0 (match ism with None => true | Some _ => false end).

Lemma AddSourceMappingG_None ts b loc name delta :
  AddSourceMappingG None ts b loc name delta = AddSourceMapping ts b loc name delta.
Proof.
  unfold AddSourceMappingG, AddSourceMapping. cbn [append_mapping_g].
  destruct (_ && _); [reflexivity|]. destruct (lookup ts loc) as [[ol oc]|]; reflexivity.
Qed.

Lemma run_builder_g_None ts : forall evs b, run_builder_g None ts b evs = run_builder ts b evs.
Proof.
  induction evs as [|[[loc name] delta] evs IH]; intro b; [reflexivity|].
  cbn [run_builder_g run_builder]. rewrite AddSourceMappingG_None.
  destruct (AddSourceMapping ts b loc name delta); [apply IH|reflexivity].
Qed.
