(* join_decodes: AppendSourceMapChunk applied to a chunk produced by the
   builder emits exactly the bytes the builder itself would have emitted for
   the rebased events, continuing from the previous chunk's end state.  With
   mappings_roundtrip this gives: every file's mappings survive joining,
   shifted by the file's generated start line/column and by its source and
   name index bases. *)
From V Require Import Common.Base C07.Vlq C07.SpecMap C07.Mappings C07.VlqProofs C07.MappingsProofs.

(* rebase the events of a chunk: source index += ds everywhere; generated
   column += dc on the chunk's first line only; names += dn *)
Fixpoint rebase (dc ds dn : Z) (first_line : bool) (ops : list op) : list op :=
  match ops with
  | [] => []
  | ONewline :: r => ONewline :: rebase dc ds dn false r
  | OMap gc si ol oc nm :: r =>
    OMap (if first_line then gc + dc else gc) (si + ds) ol oc
         (match nm with Some n => Some (n + dn) | None => None end)
      :: rebase dc ds dn first_line r
  | ONull gc :: r => ONull (if first_line then gc + dc else gc) :: rebase dc ds dn first_line r
  end.

(* byte offset of the first name VLQ in the builder's buffer (firstNameOffset) *)
Fixpoint first_name_off (ops : list op) (lastByte : Z) (prev : state) (base : nat) : option nat :=
  match ops with
  | [] => None
  | ONewline :: r =>
    first_name_off r SEMI (mkState (gline prev + 1) 0 (sidx prev) (oline prev) (ocol prev) (oname prev) (has_name prev)) (S base)
  | OMap gc si ol oc nm :: r =>
    let '(cur, prev') := next_state prev gc si ol oc nm in
    let '(seg, off) := appendMapping lastByte prev cur false in
    match off with
    | Some o => Some (base + Z.to_nat o)%nat
    | None => first_name_off r (last seg lastByte) prev' (base + length seg)%nat
    end
  | ONull gc :: r =>
    first_name_off r (last (null_seg lastByte prev gc) lastByte) (null_state prev gc)
                   (base + length (null_seg lastByte prev gc))%nat
  end.

Definition ebytes (ops : list op) (lb : Z) (prev : state) : bytes := fst (fst (emit ops lb prev)).

Definition sepb (lb : Z) : bool := negb (lb =? 0) && negb (lb =? SEMI) && negb (lb =? QUOTE).

(* the four position fields of a mapping with its separator, without name *)
Definition seg4 (lb : Z) (prev : state) (gc si ol oc : Z) : bytes :=
  (if sepb lb then [COMMA] else [])
  ++ encodeVLQ (gc - gcol prev)
  ++ encodeVLQ (si - sidx prev) ++ encodeVLQ (ol - oline prev) ++ encodeVLQ (oc - ocol prev).

Definition nl_state (p : state) : state :=
  mkState (gline p + 1) 0 (sidx p) (oline p) (ocol p) (oname p) (has_name p).

Lemma ebytes_nil lb p : ebytes [] lb p = [].
Proof. reflexivity. Qed.

Lemma ebytes_newline r lb p : ebytes (ONewline :: r) lb p = SEMI :: ebytes r SEMI (nl_state p).
Proof.
  unfold ebytes, nl_state. cbn [emit]. destruct (emit r SEMI _) as [[b l] s]. reflexivity.
Qed.

Lemma ebytes_map gc si ol oc nm r lb p :
  ebytes (OMap gc si ol oc nm :: r) lb p =
  let '(cur, prev') := next_state p gc si ol oc nm in
  let seg := fst (appendMapping lb p cur false) in
  seg ++ ebytes r (last seg lb) prev'.
Proof.
  unfold ebytes. cbn [emit]. destruct (next_state p gc si ol oc nm) as [cur prev'].
  destruct (emit r _ prev') as [[b l] s]. reflexivity.
Qed.

Lemma null_seg_eq lb p gc : null_seg lb p gc = (if sepb lb then [COMMA] else []) ++ encodeVLQ (gc - gcol p).
Proof. reflexivity. Qed.

Lemma ebytes_null gc r lb p :
  ebytes (ONull gc :: r) lb p = null_seg lb p gc ++ ebytes r (last (null_seg lb p gc) lb) (null_state p gc).
Proof. unfold ebytes. cbn [emit]. destruct (emit r _ (null_state p gc)) as [[b l] s]. reflexivity. Qed.

Lemma seg_none lb p gc si ol oc :
  fst (appendMapping lb p (mkState (gline p) gc si ol oc 0 false) false) = seg4 lb p gc si ol oc.
Proof.
  unfold appendMapping, seg4, sepb. cbn [has_name fst gcol sidx oline ocol]. rewrite <- !app_assoc. reflexivity.
Qed.

Lemma seg_some lb p gc si ol oc n :
  fst (appendMapping lb p (mkState (gline p) gc si ol oc n true) false) = seg4 lb p gc si ol oc ++ encodeVLQ (n - oname p).
Proof.
  unfold appendMapping, seg4, sepb. cbn [has_name fst gcol sidx oline ocol oname]. rewrite <- !app_assoc. reflexivity.
Qed.

Lemma ebytes_map_none gc si ol oc r lb p :
  ebytes (OMap gc si ol oc None :: r) lb p =
  seg4 lb p gc si ol oc ++
  ebytes r (last (seg4 lb p gc si ol oc) lb) (mkState (gline p) gc si ol oc (oname p) false).
Proof. rewrite ebytes_map. unfold next_state. rewrite seg_none. reflexivity. Qed.

Lemma ebytes_map_some gc si ol oc n r lb p :
  ebytes (OMap gc si ol oc (Some n) :: r) lb p =
  seg4 lb p gc si ol oc ++ encodeVLQ (n - oname p) ++
  ebytes r (last (seg4 lb p gc si ol oc ++ encodeVLQ (n - oname p)) lb) (mkState (gline p) gc si ol oc n true).
Proof. rewrite ebytes_map. unfold next_state. rewrite seg_some, <- app_assoc. reflexivity. Qed.

(* the bytes depend on the last byte only through the separator decision *)
Lemma last_app_ne {A} (a b : list A) d1 d2 : b <> [] -> last (a ++ b) d1 = last (a ++ b) d2.
Proof.
  intro Hb. rewrite !last_app_nonempty by exact Hb.
  destruct b as [|x b]; [congruence|]. clear Hb. revert x.
  induction b as [|y b IH]; intro x; [reflexivity|]. cbn [last]. apply IH.
Qed.

Lemma seg4_last lb d1 d2 p gc si ol oc :
  last (seg4 lb p gc si ol oc) d1 = last (seg4 lb p gc si ol oc) d2.
Proof.
  unfold seg4. rewrite !app_assoc. apply last_app_ne, encodeVLQ_nonempty.
Qed.

Lemma ebytes_lb ops lb1 lb2 p : sepb lb1 = sepb lb2 -> ebytes ops lb1 p = ebytes ops lb2 p.
Proof.
  intro H. destruct ops as [|[|gc si ol oc [n|]|gc] r].
  5:{ rewrite !ebytes_null, !null_seg_eq, H. f_equal. f_equal. apply last_app_ne, encodeVLQ_nonempty. }
  - reflexivity.
  - rewrite !ebytes_newline. reflexivity.
  - rewrite !ebytes_map_some. unfold seg4. rewrite H. f_equal. f_equal. f_equal.
    rewrite !app_assoc. apply last_app_ne, encodeVLQ_nonempty.
  - rewrite !ebytes_map_none.
    assert (E : seg4 lb1 p gc si ol oc = seg4 lb2 p gc si ol oc) by (unfold seg4; rewrite H; reflexivity).
    rewrite E. f_equal. f_equal. apply seg4_last.
Qed.

Lemma sepb_digit d : 0 <= d < 64 -> sepb (b64_char d) = true.
Proof.
  intro Hd. destruct (char_not_sep d Hd) as (C1 & C2 & C3 & C4). unfold sepb, SEMI, QUOTE.
  replace (b64_char d =? 0) with false by lia.
  replace (b64_char d =? 59) with false by lia.
  replace (b64_char d =? 34) with false by lia. reflexivity.
Qed.

Lemma sepb_last_enc a v lb : sepb (last (a ++ encodeVLQ v) lb) = true.
Proof.
  rewrite last_app_nonempty by apply encodeVLQ_nonempty.
  destruct (encodeVLQ_last v lb) as (d & Hd & ->). apply sepb_digit, Hd.
Qed.

Lemma sepb_last_seg4 lb p gc si ol oc lb' : sepb (last (seg4 lb p gc si ol oc) lb') = true.
Proof. unfold seg4. rewrite !app_assoc. apply sepb_last_enc. Qed.

(* bytes do not depend on the line number or has_name of prevState *)
Lemma ebytes_irrel : forall ops lb p q,
  gcol p = gcol q -> sidx p = sidx q -> oline p = oline q -> ocol p = ocol q -> oname p = oname q ->
  ebytes ops lb p = ebytes ops lb q.
Proof.
  induction ops as [|o ops IH]; intros lb p q H1 H2 H3 H4 H5; [reflexivity|].
  destruct o as [|gc si ol oc [n|]|gc].
  - rewrite !ebytes_newline. f_equal. apply IH; cbn; congruence.
  - rewrite !ebytes_map_some.
    assert (E : seg4 lb p gc si ol oc = seg4 lb q gc si ol oc) by (unfold seg4; congruence).
    rewrite E, H5. f_equal. f_equal. apply IH; reflexivity.
  - rewrite !ebytes_map_none.
    assert (E : seg4 lb p gc si ol oc = seg4 lb q gc si ol oc) by (unfold seg4; congruence).
    rewrite E. f_equal. apply IH; cbn; congruence.
  - rewrite !ebytes_null, !null_seg_eq, H1. f_equal. apply IH; cbn; congruence.
Qed.

Definition shifted (p : state) (fl : bool) (dc ds : Z) (q : Z) (l : Z) (h : bool) : state :=
  mkState l (gcol p + (if fl then dc else 0)) (sidx p + ds) (oline p) (ocol p) q h.

Lemma seg4_shift lb p fl dc ds q l h gc si ol oc :
  seg4 lb (shifted p fl dc ds q l h) (if fl then gc + dc else gc) (si + ds) ol oc = seg4 lb p gc si ol oc.
Proof.
  unfold seg4, shifted. cbn [gcol sidx oline ocol].
  replace ((if fl then gc + dc else gc) - (gcol p + (if fl then dc else 0))) with (gc - gcol p) by (destruct fl; lia).
  replace (si + ds - (sidx p + ds)) with (si - sidx p) by lia. reflexivity.
Qed.

(* Rebased events emitted from the correspondingly shifted previous state give
   the same bytes, except that the first name VLQ (if any) is re-based. *)
Lemma rebase_bytes : forall ops lb p base,
  match first_name_off ops lb p base with
  | None =>
    forall dc ds dn fl q l h,
      ebytes (rebase dc ds dn fl ops) lb (shifted p fl dc ds q l h) = ebytes ops lb p
  | Some off =>
    exists pre n post,
      (off = base + length pre)%nat /\
      ebytes ops lb p = pre ++ encodeVLQ (n - oname p) ++ post /\
      forall dc ds dn fl q l h,
        ebytes (rebase dc ds dn fl ops) lb (shifted p fl dc ds q l h) = pre ++ encodeVLQ (n + dn - q) ++ post
  end.
Proof.
  induction ops as [|o ops IH]; intros lb p base.
  - cbn [first_name_off]. intros. reflexivity.
  - destruct o as [|gc si ol oc [n|]|gc].
    4:{ (* mapping without original position *)
      cbn [first_name_off].
      set (st1 := null_state p gc). set (sg := null_seg lb p gc). set (lb1 := last sg lb).
      assert (Hsg : forall fl dc ds q l h,
                 null_seg lb (shifted p fl dc ds q l h) (if fl then gc + dc else gc) = sg).
      { intros. subst sg. rewrite !null_seg_eq. unfold shifted. cbn [gcol]. f_equal. f_equal. destruct fl; lia. }
      specialize (IH lb1 st1 (base + length sg)%nat).
      destruct (first_name_off ops lb1 st1 _) as [off|].
      * destruct IH as (pre & n' & post & Ho & H1 & H2).
        exists (sg ++ pre), n', post.
        split; [rewrite app_length; lia|]. split.
        { rewrite ebytes_null. fold sg lb1 st1. rewrite H1. subst st1. cbn [null_state oname]. rewrite <- app_assoc. reflexivity. }
        intros dc ds dn fl q l h. cbn [rebase]. rewrite ebytes_null, Hsg.
        rewrite <- app_assoc. f_equal. fold lb1.
        rewrite <- (H2 dc ds dn fl q l false).
        apply ebytes_irrel; unfold shifted, st1, null_state; cbn; try reflexivity; destruct fl; lia.
      * intros dc ds dn fl q l h. cbn [rebase]. rewrite !ebytes_null, Hsg. f_equal.
        fold sg lb1 st1.
        rewrite <- (IH dc ds dn fl q l false).
        apply ebytes_irrel; unfold shifted, st1, null_state; cbn; try reflexivity; destruct fl; lia. }
    + (* newline *)
      cbn [first_name_off]. fold (nl_state p).
      specialize (IH SEMI (nl_state p) (S base)).
      destruct (first_name_off ops SEMI (nl_state p) (S base)) as [off|].
      * destruct IH as (pre & n & post & Ho & H1 & H2).
        exists (SEMI :: pre), n, post. split; [cbn [length]; lia|]. split.
        { rewrite ebytes_newline, H1. reflexivity. }
        intros dc ds dn fl q l h. cbn [rebase]. rewrite ebytes_newline. cbn [app]. f_equal.
        rewrite <- (H2 dc ds dn false q (l + 1) h).
        apply ebytes_irrel; unfold shifted, nl_state; cbn; try reflexivity; lia.
      * intros dc ds dn fl q l h. cbn [rebase]. rewrite !ebytes_newline. f_equal.
        rewrite <- (IH dc ds dn false q (l + 1) h).
        apply ebytes_irrel; unfold shifted, nl_state; cbn; try reflexivity; lia.
    + (* mapping carrying a name: this is the first name *)
      cbn [first_name_off]. unfold next_state, appendMapping. cbn [has_name].
      exists (seg4 lb p gc si ol oc), n,
        (ebytes ops (last (seg4 lb p gc si ol oc ++ encodeVLQ (n - oname p)) lb) (mkState (gline p) gc si ol oc n true)).
      split.
      { rewrite Nat2Z.id. f_equal. unfold seg4, sepb. rewrite !app_length. cbn [gcol sidx oline ocol]. lia. }
      split; [apply ebytes_map_some|].
      intros dc ds dn fl q l h. cbn [rebase]. rewrite ebytes_map_some, seg4_shift.
      unfold shifted at 1. cbn [oname]. f_equal. f_equal.
      (* the continuation: uniformly shifted state, no dependence on the exact last byte *)
      specialize (IH (last (seg4 lb p gc si ol oc ++ encodeVLQ (n - oname p)) lb)
                     (mkState (gline p) gc si ol oc n true) 0%nat).
      set (lb1 := last (seg4 lb p gc si ol oc ++ encodeVLQ (n - oname p)) lb) in *.
      match goal with |- ebytes _ ?x _ = _ => set (lb2 := x) end.
      assert (Hlb : sepb lb2 = sepb lb1) by (subst lb1 lb2; rewrite !sepb_last_enc; reflexivity).
      rewrite (ebytes_lb _ lb2 lb1 _ Hlb).
      destruct (first_name_off ops lb1 _ 0%nat) as [off|].
      * destruct IH as (pre & n' & post & _ & H1 & H2).
        rewrite H1. cbn [oname].
        specialize (H2 dc ds dn fl (n + dn) l true).
        unfold shifted in H2. cbn [gcol sidx oline ocol] in H2.
        replace (n' + dn - (n + dn)) with (n' - n) in H2 by lia.
        rewrite <- H2. apply ebytes_irrel; cbn; try reflexivity; destruct fl; lia.
      * rewrite <- (IH dc ds dn fl (n + dn) l true).
        apply ebytes_irrel; unfold shifted; cbn; try reflexivity; destruct fl; lia.
    + (* mapping without a name *)
      cbn [first_name_off]. unfold next_state, appendMapping. cbn [has_name fst].
      assert (Eseg : (if negb (lb =? 0) && negb (lb =? SEMI) && negb (lb =? QUOTE) then [COMMA] else []) ++
                     encodeVLQ (gc - gcol p) ++ encodeVLQ (si - sidx p) ++ encodeVLQ (ol - oline p) ++ encodeVLQ (oc - ocol p)
                     = seg4 lb p gc si ol oc) by reflexivity.
      cbn [gcol sidx oline ocol]. rewrite <- !app_assoc. rewrite Eseg.
      set (st1 := mkState (gline p) gc si ol oc (oname p) false).
      set (lb1 := last (seg4 lb p gc si ol oc) lb).
      specialize (IH lb1 st1 (base + length (seg4 lb p gc si ol oc))%nat).
      destruct (first_name_off ops lb1 st1 _) as [off|].
      * destruct IH as (pre & n' & post & Ho & H1 & H2).
        exists (seg4 lb p gc si ol oc ++ pre), n', post.
        split; [rewrite app_length; lia|]. split.
        { rewrite ebytes_map_none. fold lb1 st1. rewrite H1. subst st1. cbn [oname]. rewrite <- app_assoc. reflexivity. }
        intros dc ds dn fl q l h. cbn [rebase]. rewrite ebytes_map_none, seg4_shift.
        rewrite <- app_assoc. f_equal.
        rewrite <- (H2 dc ds dn fl q l false).
        rewrite (ebytes_lb _ _ lb1).
        2:{ subst lb1. rewrite !sepb_last_seg4. reflexivity. }
        apply ebytes_irrel; unfold shifted, st1; cbn; try reflexivity; destruct fl; lia.
      * intros dc ds dn fl q l h. cbn [rebase]. rewrite !ebytes_map_none, seg4_shift. f_equal.
        fold lb1 st1.
        rewrite <- (IH dc ds dn fl q l false).
        apply ebytes_irrel; unfold shifted, st1; cbn; try reflexivity; destruct fl; lia.
Qed.

(* ------------------------------------------------------------------ *)
(* Evaluation of AppendSourceMapChunk on a builder-produced chunk      *)

Definition lbk (k : nat) (lb : Z) : Z := match k with O => lb | S _ => SEMI end.

Fixpoint nl_iter (k : nat) (p : state) : state :=
  match k with O => p | S k' => nl_iter k' (nl_state p) end.

Lemma ebytes_newlines k X lb p :
  ebytes (repeat ONewline k ++ X) lb p = rep SEMI k ++ ebytes X (lbk k lb) (nl_iter k p).
Proof.
  revert lb p. induction k as [|k IH]; intros lb p; [reflexivity|].
  cbn [repeat app]. rewrite ebytes_newline, IH. cbn [rep repeat app nl_iter].
  unfold rep. f_equal. f_equal. destruct k; reflexivity.
Qed.

Lemma nl_iter_fields k p :
  sidx (nl_iter k p) = sidx p /\ oline (nl_iter k p) = oline p /\ ocol (nl_iter k p) = ocol p /\
  oname (nl_iter k p) = oname p /\ gcol (nl_iter k p) = match k with O => gcol p | S _ => 0 end.
Proof.
  revert p. induction k as [|k IH]; intro p; [repeat split|].
  cbn [nl_iter]. destruct (IH (nl_state p)) as (H1 & H2 & H3 & H4 & H5).
  rewrite H1, H2, H3, H4, H5. unfold nl_state. cbn. repeat split. destruct k; reflexivity.
Qed.

Lemma first_name_off_newlines k X lb p base :
  first_name_off (repeat ONewline k ++ X) lb p base = first_name_off X (lbk k lb) (nl_iter k p) (base + k)%nat.
Proof.
  revert lb p base. induction k as [|k IH]; intros lb p base.
  - cbn. rewrite Nat.add_0_r. reflexivity.
  - cbn [repeat app first_name_off]. fold (nl_state p). rewrite IH. cbn [nl_iter].
    replace (S base + k)%nat with (base + S k)%nat by lia. destruct k; reflexivity.
Qed.

Lemma rebase_newlines dc ds dn fl k X :
  rebase dc ds dn fl (repeat ONewline k ++ X) =
  repeat ONewline k ++ rebase dc ds dn (match k with O => fl | S _ => false end) X.
Proof.
  revert fl. induction k as [|k IH]; intro fl; [reflexivity|].
  cbn [repeat app rebase]. rewrite IH. destruct k; reflexivity.
Qed.

Lemma span_eq_rep k y : (match y with c :: _ => c <> SEMI | [] => True end) ->
  span_eq SEMI (rep SEMI k ++ y) = (k, y).
Proof.
  intro Hy. induction k as [|k IH].
  - cbn. destruct y as [|c y]; [reflexivity|]. cbn. destruct (Z.eqb_spec c SEMI); [contradiction|reflexivity].
  - cbn [rep repeat app span_eq]. fold (rep SEMI k). rewrite Z.eqb_refl, IH. reflexivity.
Qed.

Lemma encodeVLQ_head v : exists d t, 0 <= d < 64 /\ encodeVLQ v = b64_char d :: t.
Proof.
  unfold encodeVLQ. cbn [enc_loop].
  set (vlq := to_vlq v).
  assert (0 <= vlq mod 32 < 32) by (apply Z.mod_pos_bound; lia).
  destruct (vlq / 32 =? 0); eexists; eexists; (split; [|reflexivity]); lia.
Qed.

Lemma last_rep c k d : last (rep c (S k)) d = c.
Proof.
  induction k as [|k IH]; [reflexivity|].
  change (rep c (S (S k))) with (c :: rep c (S k)).
  change (rep c (S k)) with (c :: rep c k) at 1. cbn [last].
  change (c :: rep c k) with (rep c (S k)). exact IH.
Qed.

Lemma last_reps m k jl : last (rep SEMI m ++ rep SEMI k) jl = lbk k (lbk m jl).
Proof.
  destruct k as [|k].
  - rewrite app_nil_r. destruct m as [|m]; [reflexivity|]. apply last_rep.
  - cbn [lbk]. rewrite last_app_nonempty by discriminate. apply last_rep.
Qed.

Lemma sepb_lbk0 k : sepb (lbk k 0) = false.
Proof. destruct k; reflexivity. Qed.

Definition zero_gcol (p : state) : state :=
  mkState (gline p) 0 (sidx p) (oline p) (ocol p) (oname p) (has_name p).

(* prevEndState as seen by the rewritten first mapping *)
Definition prev_for (m k : nat) (prevEnd : state) : state :=
  match m, k with O, O => prevEnd | _, _ => zero_gcol prevEnd end.

Lemma head_not_sep v t : match encodeVLQ v ++ t with c :: _ => is_sep c = false /\ c <> SEMI | [] => False end.
Proof.
  destruct (encodeVLQ_head v) as (d & t' & Hd & ->). cbn [app].
  destruct (char_not_sep d Hd) as (C1 & C2 & _). unfold is_sep, COMMA, SEMI. split; lia.
Qed.

Lemma append_eval k gc si ol oc TAIL fno jl prevEnd start :
  has_name start = false -> 0 <= gline start ->
  let m := Z.to_nat (gline start) in
  let F4 := encodeVLQ gc ++ encodeVLQ si ++ encodeVLQ ol ++ encodeVLQ oc in
  let data := rep SEMI k ++ F4 ++ TAIL in
  let PE := prev_for m k prevEnd in
  let rewritten := seg4 (lbk k (lbk m jl)) PE
                        ((match k with O => gcol start | S _ => 0 end) + gc)
                        (sidx start + si) (oline start + ol) (ocol start + oc) in
  let i := (k + length F4)%nat in
  AppendSourceMapChunk jl prevEnd start (mkChunk data fno) =
  match fno with
  | Some before =>
    match DecodeVLQ (skipn (Z.to_nat before) data) with
    | None => None
    | Some (nm, afterl) =>
      Some (rep SEMI m ++ rep SEMI k ++ rewritten
            ++ firstn (Z.to_nat before - i) (skipn i data)
            ++ encodeVLQ (nm + (oname start - oname prevEnd)) ++ afterl)
    end
  | None => Some (rep SEMI m ++ rep SEMI k ++ rewritten ++ TAIL)
  end.
Proof.
  intros Hhn Hgl m F4 data PE rewritten i.
  unfold AppendSourceMapChunk. cbn [c_data c_first_name].
  (* the byte index after the stripped fields *)
  assert (Hi : (length data - length TAIL)%nat = i).
  { subst data i. rewrite !app_length. unfold rep. rewrite repeat_length. lia. }
  assert (Hspan : span_eq SEMI data = (k, F4 ++ TAIL)).
  { subst data. apply span_eq_rep. subst F4. rewrite <- app_assoc.
    pose proof (head_not_sep gc ((encodeVLQ si ++ encodeVLQ ol ++ encodeVLQ oc) ++ TAIL)) as H.
    match goal with |- match ?X with _ => _ end => destruct X end; [contradiction|]. apply H. }
  rewrite Hspan.
  assert (Hne : F4 ++ TAIL <> []).
  { subst F4. pose proof (encodeVLQ_nonempty gc). destruct (encodeVLQ gc); [congruence|]. discriminate. }
  destruct (F4 ++ TAIL) as [|c0 rest0] eqn:Erest; [congruence|]. rewrite <- Erest. clear Hne.
  subst F4. rewrite <- !app_assoc in *.
  rewrite vlq_roundtrip_all.
  pose proof (head_not_sep si (encodeVLQ ol ++ encodeVLQ oc ++ TAIL)) as Hh.
  destruct (encodeVLQ si ++ encodeVLQ ol ++ encodeVLQ oc ++ TAIL) as [|c1 r1] eqn:Er1; [contradiction|].
  destruct Hh as [Hsep _]. rewrite Hsep. rewrite <- Er1.
  rewrite !vlq_roundtrip_all.
  rewrite Hi.
  (* out1 / out2 and the states *)
  assert (Hout1 : (if gline start =? 0 then [] else rep SEMI (Z.to_nat (gline start))) = rep SEMI m).
  { subst m. destruct (Z.eqb_spec (gline start) 0) as [->|]; reflexivity. }
  rewrite Hout1.
  assert (Hlast : last (rep SEMI m ++ rep SEMI k) jl = lbk k (lbk m jl)) by apply last_reps.
  rewrite Hlast.
  (* the rewritten first mapping *)
  set (prevEnd1 := if gline start =? 0 then prevEnd else _).
  set (prevEnd2 := if Nat.eqb k 0 then prevEnd1 else _).
  set (start2 := if Nat.eqb k 0 then start else _).
  assert (Hrew : fst (appendMapping (lbk k (lbk m jl))
                   (mkState (gline prevEnd2) (gcol prevEnd2) (sidx prevEnd2) (oline prevEnd2) (ocol prevEnd2) (oname prevEnd2) false)
                   (mkState (gline start2) (gcol start2 + gc) (sidx start2 + si) (oline start2 + ol) (ocol start2 + oc) (oname start2) (has_name start2))
                   false) = rewritten).
  { assert (Hs2 : has_name start2 = false) by (subst start2; destruct (Nat.eqb k 0); cbn; exact Hhn).
    unfold appendMapping. cbn [has_name]. rewrite Hs2. cbn [fst gcol sidx oline ocol].
    subst rewritten. unfold seg4, sepb. rewrite <- !app_assoc.
    assert (Hg : gcol prevEnd2 = gcol PE /\ sidx prevEnd2 = sidx PE /\ oline prevEnd2 = oline PE /\ ocol prevEnd2 = ocol PE).
    { subst prevEnd2 prevEnd1 PE. unfold prev_for, zero_gcol.
      destruct k; cbn [Nat.eqb].
      - destruct (Z.eqb_spec (gline start) 0) as [E|E].
        + subst m. rewrite E. cbn. repeat split.
        + subst m. destruct (Z.to_nat (gline start)) eqn:Em; [lia|]. cbn. repeat split.
      - destruct m; cbn; repeat split; destruct (gline start =? 0); reflexivity. }
    destruct Hg as (G1 & G2 & G3 & G4). rewrite G1, G2, G3, G4.
    assert (Hst : gcol start2 = match k with O => gcol start | S _ => 0 end /\ sidx start2 = sidx start /\
                  oline start2 = oline start /\ ocol start2 = ocol start).
    { subst start2. destruct k; cbn; repeat split. }
    destruct Hst as (S1 & S2 & S3 & S4). rewrite S1, S2, S3, S4. reflexivity. }
  rewrite Hrew.
  assert (Hon : oname start2 - oname prevEnd2 = oname start - oname prevEnd).
  { subst start2 prevEnd2 prevEnd1. destruct (Nat.eqb k 0), (gline start =? 0); reflexivity. }
  destruct fno as [before|].
  - destruct (DecodeVLQ (skipn (Z.to_nat before) data)) as [[nm afterl]|]; [|reflexivity].
    cbn [oname]. rewrite Hon. reflexivity.
  - reflexivity.
Qed.

Lemma fno_map_none gc si ol oc r lb p base :
  first_name_off (OMap gc si ol oc None :: r) lb p base =
  first_name_off r (last (seg4 lb p gc si ol oc) lb) (mkState (gline p) gc si ol oc (oname p) false)
                 (base + length (seg4 lb p gc si ol oc))%nat.
Proof.
  cbn [first_name_off]. unfold next_state.
  pose proof (seg_none lb p gc si ol oc) as Hs.
  destruct (appendMapping lb p (mkState (gline p) gc si ol oc 0 false) false) as [seg off] eqn:E.
  cbn [fst] in Hs. subst seg.
  unfold appendMapping in E. cbn [has_name] in E. inversion E. reflexivity.
Qed.

Lemma nl_iter_state0 k :
  gcol (nl_iter k state0) = 0 /\ sidx (nl_iter k state0) = 0 /\ oline (nl_iter k state0) = 0 /\
  ocol (nl_iter k state0) = 0 /\ oname (nl_iter k state0) = 0.
Proof.
  destruct (nl_iter_fields k state0) as (H1 & H2 & H3 & H4 & H5).
  rewrite H1, H2, H3, H4, H5. destruct k; repeat split.
Qed.

Lemma seg4_zero k gc si ol oc :
  seg4 (lbk k 0) (nl_iter k state0) gc si ol oc = encodeVLQ gc ++ encodeVLQ si ++ encodeVLQ ol ++ encodeVLQ oc.
Proof.
  unfold seg4. rewrite sepb_lbk0. destruct (nl_iter_state0 k) as (H1 & H2 & H3 & H4 & _).
  rewrite H1, H2, H3, H4, !Z.sub_0_r. reflexivity.
Qed.

Lemma prev_for_fields m k p :
  sidx (prev_for m k p) = sidx p /\ oline (prev_for m k p) = oline p /\ ocol (prev_for m k p) = ocol p /\
  oname (prev_for m k p) = oname p /\
  gcol (prev_for m k p) = gcol (nl_iter k (nl_iter m p)).
Proof.
  destruct (nl_iter_fields m p) as (A1 & A2 & A3 & A4 & A5).
  destruct (nl_iter_fields k (nl_iter m p)) as (B1 & B2 & B3 & B4 & B5).
  unfold prev_for, zero_gcol. rewrite B5. destruct m, k; cbn; repeat split; try reflexivity.
  cbn in A5. rewrite A5. reflexivity.
Qed.

(* AppendSourceMapChunk on a builder-produced chunk = the builder's own output
   for the rebased events, continuing after the previous chunk. *)
Theorem join_bytes_all : forall k gc si ol oc nm rest jl prevEnd start,
  has_name start = false -> oline start = 0 -> ocol start = 0 -> 0 <= gline start ->
  let ops := repeat ONewline k ++ OMap gc si ol oc nm :: rest in
  AppendSourceMapChunk jl prevEnd start
     (mkChunk (ebytes ops 0 state0) (option_map Z.of_nat (first_name_off ops 0 state0 0)))
  = Some (ebytes (repeat ONewline (Z.to_nat (gline start))
                  ++ rebase (gcol start) (sidx start) (oname start) true ops) jl prevEnd).
Proof.
  intros k gc si ol oc nm rest jl prevEnd start Hhn Hol Hoc Hgl ops.
  set (m := Z.to_nat (gline start)).
  set (p0 := nl_iter k state0). set (lb0 := lbk k 0).
  set (P := nl_iter k (nl_iter m prevEnd)). set (lbP := lbk k (lbk m jl)).
  set (fl0 := match k with O => true | S _ => false end).
  (* right-hand side *)
  assert (Hrhs : ebytes (repeat ONewline m ++ rebase (gcol start) (sidx start) (oname start) true ops) jl prevEnd
                 = rep SEMI m ++ rep SEMI k ++
                   ebytes (rebase (gcol start) (sidx start) (oname start) fl0 (OMap gc si ol oc nm :: rest)) lbP P).
  { subst ops. rewrite ebytes_newlines, rebase_newlines, ebytes_newlines. reflexivity. }
  rewrite Hrhs. clear Hrhs.
  (* the data *)
  assert (Hdata0 : ebytes ops 0 state0 = rep SEMI k ++ ebytes (OMap gc si ol oc nm :: rest) lb0 p0).
  { subst ops. apply ebytes_newlines. }
  assert (Hfno0 : first_name_off ops 0 state0 0 = first_name_off (OMap gc si ol oc nm :: rest) lb0 p0 k).
  { subst ops. rewrite first_name_off_newlines. reflexivity. }
  destruct (nl_iter_state0 k) as (Z1 & Z2 & Z3 & Z4 & Z5). fold p0 in Z1, Z2, Z3, Z4, Z5.
  destruct (prev_for_fields m k prevEnd) as (Q1 & Q2 & Q3 & Q4 & Q5). fold P in Q5.
  destruct (nl_iter_fields k (nl_iter m prevEnd)) as (R1 & R2 & R3 & R4 & _).
  destruct (nl_iter_fields m prevEnd) as (T1 & T2 & T3 & T4 & _).
  fold P in R1, R2, R3, R4.
  set (F4 := encodeVLQ gc ++ encodeVLQ si ++ encodeVLQ ol ++ encodeVLQ oc).
  (* the rewritten first mapping equals the rebased first mapping's position fields *)
  assert (Hseg : seg4 lbP (prev_for m k prevEnd) ((match k with O => gcol start | S _ => 0 end) + gc)
                      (sidx start + si) (oline start + ol) (ocol start + oc)
                 = seg4 lbP P (if fl0 then gc + gcol start else gc) (si + sidx start) ol oc).
  { unfold seg4. rewrite Q1, Q2, Q3, Q5, R1, R2, R3, T1, T2, T3, Hol, Hoc, !Z.add_0_l.
    replace ((match k with O => gcol start | S _ => 0 end) + gc) with (if fl0 then gc + gcol start else gc)
      by (subst fl0; destruct k; lia).
    replace (sidx start + si) with (si + sidx start) by lia. reflexivity. }
  destruct nm as [n|].
  - (* first mapping carries the first name *)
    rewrite Hdata0, ebytes_map_some. fold lb0 p0. rewrite (seg4_zero k). fold F4. rewrite Z5, Z.sub_0_r.
    set (T := ebytes rest _ _).
    rewrite Hfno0. cbn [first_name_off]. unfold next_state, appendMapping. cbn [has_name option_map].
    rewrite <- app_assoc.
    rewrite (append_eval k gc si ol oc (encodeVLQ n ++ T) _ jl prevEnd start Hhn Hgl).
    fold m F4. cbn zeta.
    (* offset of the name *)
    assert (Hoff : Z.to_nat (Z.of_nat (k + Z.to_nat (Z.of_nat (length (
                      (if negb (lb0 =? 0) && negb (lb0 =? SEMI) && negb (lb0 =? QUOTE) then [COMMA] else []) ++
                      encodeVLQ (gcol (mkState (gline p0) gc si ol oc n true) - gcol p0) ++
                      encodeVLQ (sidx (mkState (gline p0) gc si ol oc n true) - sidx p0) ++
                      encodeVLQ (oline (mkState (gline p0) gc si ol oc n true) - oline p0) ++
                      encodeVLQ (ocol (mkState (gline p0) gc si ol oc n true) - ocol p0)))))) = (k + length F4)%nat).
    { rewrite !Nat2Z.id. f_equal. f_equal.
      change (negb (lb0 =? 0) && negb (lb0 =? SEMI) && negb (lb0 =? QUOTE)) with (sepb lb0).
      subst lb0. rewrite sepb_lbk0. cbn [gcol sidx oline ocol app]. rewrite Z1, Z2, Z3, Z4, !Z.sub_0_r. reflexivity. }
    rewrite Hoff.
    assert (Hskip : skipn (k + length F4) (rep SEMI k ++ F4 ++ encodeVLQ n ++ T) = encodeVLQ n ++ T).
    { rewrite app_assoc. rewrite skipn_app.
      replace (k + length F4 - length (rep SEMI k ++ F4))%nat with 0%nat by (rewrite app_length; unfold rep; rewrite repeat_length; lia).
      rewrite skipn_all2 by (rewrite app_length; unfold rep; rewrite repeat_length; lia). reflexivity. }
    rewrite Hskip, vlq_roundtrip_all, Nat.sub_diag. cbn [firstn app].
    f_equal. f_equal. f_equal.
    cbn [rebase]. rewrite ebytes_map_some. fold lbP. rewrite Hseg. f_equal.
    rewrite R4, T4. replace (n + (oname start - oname prevEnd)) with (n + oname start - oname prevEnd) by lia.
    f_equal.
    (* the tail: uniformly shifted *)
    subst T.
    match goal with |- ebytes rest ?a ?s1 = ebytes _ ?b ?s2 => set (lbA := a); set (sA := s1); set (lbB := b); set (sB := s2) end.
    assert (Hlb : sepb lbB = sepb lbA) by (subst lbA lbB; rewrite !sepb_last_enc; reflexivity).
    rewrite (ebytes_lb _ lbB lbA _ Hlb).
    pose proof (rebase_bytes rest lbA sA 0%nat) as HR.
    destruct (first_name_off rest lbA sA 0%nat) as [off|].
    + destruct HR as (pre & n' & post & _ & H1 & H2). rewrite H1.
      specialize (H2 (gcol start) (sidx start) (oname start) fl0 (n + oname start) (gline P) true).
      subst sA. cbn [oname].
      replace (n' + oname start - (n + oname start)) with (n' - n) in H2 by lia. rewrite <- H2.
      apply ebytes_irrel; unfold shifted; subst sB; cbn; try reflexivity; destruct fl0; lia.
    + rewrite <- (HR (gcol start) (sidx start) (oname start) fl0 (n + oname start) (gline P) true).
      apply ebytes_irrel; unfold shifted; subst sB sA; cbn; try reflexivity; destruct fl0; lia.
  - (* first mapping has no name *)
    rewrite Hdata0, ebytes_map_none. fold lb0 p0. rewrite (seg4_zero k). fold F4.
    set (lbA := last F4 lb0). set (sA := mkState (gline p0) gc si ol oc (oname p0) false).
    rewrite Hfno0, fno_map_none. fold lb0 p0. rewrite (seg4_zero k). fold F4 lbA sA.
    pose proof (rebase_bytes rest lbA sA (k + length F4)%nat) as HR.
    cbn [rebase]. rewrite ebytes_map_none, <- Hseg.
    match goal with |- _ = Some (_ ++ _ ++ _ ++ ebytes _ ?b ?s2) => set (lbB := b); set (sB := s2) end.
    assert (Hlb : sepb lbB = sepb lbA).
    { subst lbA lbB. rewrite Hseg. rewrite sepb_last_seg4. subst F4.
      rewrite !app_assoc. rewrite sepb_last_enc. reflexivity. }
    rewrite (ebytes_lb _ lbB lbA _ Hlb).
    destruct (first_name_off rest lbA sA (k + length F4)%nat) as [off|] eqn:Eoff.
    + destruct HR as (pre & n' & post & Ho & H1 & H2).
      cbn [option_map].
      rewrite (append_eval k gc si ol oc (ebytes rest lbA sA) _ jl prevEnd start Hhn Hgl).
      fold m F4. cbn zeta. rewrite Nat2Z.id, Ho.
      assert (Hskip : skipn (k + length F4 + length pre) (rep SEMI k ++ F4 ++ ebytes rest lbA sA) = encodeVLQ (n' - oname sA) ++ post).
      { rewrite H1. rewrite !app_assoc. rewrite <- (app_assoc _ (encodeVLQ _) post).
        rewrite skipn_app.
        replace (k + length F4 + length pre - length ((rep SEMI k ++ F4) ++ pre))%nat with 0%nat
          by (rewrite !app_length; unfold rep; rewrite repeat_length; lia).
        rewrite skipn_all2 by (rewrite !app_length; unfold rep; rewrite repeat_length; lia). reflexivity. }
      rewrite Hskip, vlq_roundtrip_all.
      assert (Hfirst : firstn (k + length F4 + length pre - (k + length F4)) (skipn (k + length F4) (rep SEMI k ++ F4 ++ ebytes rest lbA sA)) = pre).
      { rewrite app_assoc, skipn_app.
        replace (k + length F4 - length (rep SEMI k ++ F4))%nat with 0%nat by (rewrite app_length; unfold rep; rewrite repeat_length; lia).
        rewrite skipn_all2 by (rewrite app_length; unfold rep; rewrite repeat_length; lia).
        cbn [app skipn]. rewrite H1.
        replace (k + length F4 + length pre - (k + length F4))%nat with (length pre + 0)%nat by lia.
        rewrite firstn_app_2. cbn [firstn]. apply app_nil_r. }
      rewrite Hfirst.
      f_equal. f_equal. f_equal. f_equal.
      specialize (H2 (gcol start) (sidx start) (oname start) fl0 (oname prevEnd) (gline P) false).
      subst sA. cbn [oname] in *. rewrite Z5 in *.
      replace (n' - 0 + (oname start - oname prevEnd)) with (n' + oname start - oname prevEnd) by lia.
      rewrite <- H2.
      apply ebytes_irrel; unfold shifted; subst sB; cbn; try reflexivity; try (destruct fl0; lia); lia.
    + cbn [option_map].
      pose proof (append_eval k gc si ol oc (ebytes rest lbA sA) None jl prevEnd start Hhn Hgl) as HA.
      cbn zeta in HA. fold m F4 lbP in HA. rewrite HA. f_equal. f_equal. f_equal. f_equal.
      rewrite <- (HR (gcol start) (sidx start) (oname start) fl0 (oname prevEnd) (gline P) false).
      apply ebytes_irrel; unfold shifted; subst sB sA; cbn; try reflexivity; try (destruct fl0; lia); lia.
Qed.

Lemma emit_app : forall a b lb p,
  emit (a ++ b) lb p =
  let '(ba, lba, sa) := emit a lb p in
  let '(bb, lbb, sb) := emit b lba sa in (ba ++ bb, lbb, sb).
Proof.
  induction a as [|o a IH]; intros b lb p.
  - cbn [app emit]. destruct (emit b lb p) as [[bb lbb] sb]. reflexivity.
  - destruct o as [|gc si ol oc nm|gc]; cbn [app emit].
    + rewrite IH. destruct (emit a SEMI _) as [[ba lba] sa]. destruct (emit b lba sa) as [[bb lbb] sb]. reflexivity.
    + destruct (next_state p gc si ol oc nm) as [cur prev'].
      rewrite IH. destruct (emit a _ prev') as [[ba lba] sa]. destruct (emit b lba sa) as [[bb lbb] sb].
      rewrite app_assoc. reflexivity.
    + rewrite IH. destruct (emit a _ (null_state p gc)) as [[ba lba] sa]. destruct (emit b lba sa) as [[bb lbb] sb].
      rewrite app_assoc. reflexivity.
Qed.

(* join_decodes: whatever the builder has emitted so far (events ops0, ending in
   last byte jl and state prevEnd), appending a builder-produced chunk with
   AppendSourceMapChunk yields a mappings string that denotes, under the v3
   semantics, the previous mappings followed by the chunk's mappings moved to
   (start line, start column on its first line, source index base, name base). *)
Theorem join_decodes_all : forall ops0 k gc si ol oc nm rest start,
  has_name start = false -> oline start = 0 -> ocol start = 0 -> 0 <= gline start ->
  let ops := repeat ONewline k ++ OMap gc si ol oc nm :: rest in
  let '(b0, jl, prevEnd) := emit ops0 0 state0 in
  exists appended,
    AppendSourceMapChunk jl prevEnd start
      (mkChunk (emit_bytes ops) (option_map Z.of_nat (first_name_off ops 0 state0 0))) = Some appended /\
    spec_decode (b0 ++ appended) =
      Some (abs_of (ops0 ++ repeat ONewline (Z.to_nat (gline start))
                    ++ rebase (gcol start) (sidx start) (oname start) true ops) 0).
Proof.
  intros ops0 k gc si ol oc nm rest start Hhn Hol Hoc Hgl ops.
  destruct (emit ops0 0 state0) as [[b0 jl] prevEnd] eqn:E0.
  eexists. split.
  - apply (join_bytes_all k gc si ol oc nm rest jl prevEnd start Hhn Hol Hoc Hgl).
  - rewrite <- mappings_roundtrip_all. f_equal. unfold emit_bytes.
    rewrite emit_app, E0. unfold ebytes.
    destruct (emit _ jl prevEnd) as [[bb lbb] sb]. reflexivity.
Qed.
