(* C07 model, part 5: sourcemap.ChunkBuilder (AddSourceMapping, GenerateChunk,
   updateGeneratedLineAndColumn, appendMapping, appendMappingWithoutRemapping).
   The output buffer is represented by the text appended since the previous
   call (the builder only ever looks at output[lastGeneratedUpdate:] and at
   len(output)). Names are represented by integer ids (0 = the empty name);
   the names table maps an id to its index in the chunk's name list. *)
From V Require Import Common.Base Common.Utf8 C07.Vlq C07.Mappings C07.LineCol.

Record bst := mkBst {
  b_map : bytes;                  (* sourceMap *)
  b_names : list Z;               (* quotedNames (ids), in order *)
  b_prev : state;                 (* prevState *)
  b_gencol : Z;                   (* generatedColumn *)
  b_prevlen : Z;                  (* prevGeneratedLen *)
  b_len : Z;                      (* len(output) at lastGeneratedUpdate *)
  b_prevloc : Z;                  (* prevOriginalLoc.Start *)
  b_prevname : Z;                 (* prevOriginalName (id) *)
  b_firstname : option Z;         (* firstNameOffset *)
  b_hasprev : bool;               (* hasPrevState *)
  b_linestart : bool;             (* lineStartsWithMapping *)
  b_cover : bool;                 (* coverLinesWithoutMappings *)
  b_pending : bytes               (* output[lastGeneratedUpdate:] not yet scanned *)
}.

Definition bst0 (cover : bool) : bst :=
  mkBst [] [] state0 0 0 0 (-1) 0 None false false cover [].

Definition set_map (b : bst) (m : bytes) (prev : state) (fn : option Z) (hp : bool) : bst :=
  mkBst m (b_names b) prev (b_gencol b) (b_prevlen b) (b_len b) (b_prevloc b) (b_prevname b) fn hp (b_linestart b) (b_cover b) (b_pending b).

(* appendMappingWithoutRemapping *)
Definition append_raw (b : bst) (cur : state) : bst :=
  let lb := last (b_map b) 0 in
  let '(seg, off) := appendMapping lb (b_prev b) cur false in
  let prev' := if has_name cur then cur
               else mkState (gline cur) (gcol cur) (sidx cur) (oline cur) (ocol cur) (oname (b_prev b)) false in
  let fn := match b_firstname b, off with
            | None, Some o => if has_name cur then Some (Z.of_nat (length (b_map b)) + o) else None
            | fnb, _ => fnb
            end in
  set_map b (b_map b ++ seg) prev' fn true.

Definition cover_state (b : bst) : state :=
  mkState (gline (b_prev b)) 0 (sidx (b_prev b)) (oline (b_prev b)) (ocol (b_prev b)) 0 false.

(* updateGeneratedLineAndColumn over the newly appended text *)
Fixpoint upd_runes (rs : list (Z * Z * nat)) (rest : bytes) (b : bst) : bst :=
  match rs with
  | [] => b
  | (_, c, w) :: r =>
    let rest' := skipn w rest in
    if is_newline c then
      if (c =? 13) && (match rest' with x :: _ => x =? 10 | [] => false end)
      then upd_runes r rest' b      (* "continue": the CR of CRLF is not counted *)
      else
        let b1 := if b_cover b && negb (b_linestart b) && b_hasprev b
                  then append_raw b (cover_state b) else b in
        let p := b_prev b1 in
        let prev' := mkState (gline p + 1) 0 (sidx p) (oline p) (ocol p) (oname p) (has_name p) in
        upd_runes r rest'
          (mkBst (b_map b1 ++ [SEMI]) (b_names b1) prev' 0 (b_prevlen b1) (b_len b1) (b_prevloc b1)
                 (b_prevname b1) (b_firstname b1) (b_hasprev b1) false (b_cover b1) (b_pending b1))
    else
      upd_runes r rest'
        (mkBst (b_map b) (b_names b) (b_prev b) (b_gencol b + u16w c) (b_prevlen b) (b_len b) (b_prevloc b)
               (b_prevname b) (b_firstname b) (b_hasprev b) (b_linestart b) (b_cover b) (b_pending b))
  end.

Definition update_gen (b : bst) (delta : bytes) : bst :=
  let text := b_pending b ++ delta in
  let b' := upd_runes (runes text) text b in
  mkBst (b_map b') (b_names b') (b_prev b') (b_gencol b') (b_prevlen b') (b_len b + Z.of_nat (length text))
        (b_prevloc b') (b_prevname b') (b_firstname b') (b_hasprev b') (b_linestart b') (b_cover b') [].

Fixpoint index_of_name (id : Z) (l : list Z) (i : Z) : option Z :=
  match l with
  | [] => None
  | x :: r => if x =? id then Some i else index_of_name id r (i + 1)
  end.

(* appendMapping (no input source map): name lookup/insert, then append_raw *)
Definition append_named (b : bst) (name : Z) (cur : state) : bst :=
  if name =? 0 then append_raw b cur
  else
    match index_of_name name (b_names b) 0 with
    | Some i =>
      append_raw b (mkState (gline cur) (gcol cur) (sidx cur) (oline cur) (ocol cur) i true)
    | None =>
      let i := Z.of_nat (length (b_names b)) in
      let b' := mkBst (b_map b) (b_names b ++ [name]) (b_prev b) (b_gencol b) (b_prevlen b) (b_len b)
                      (b_prevloc b) (b_prevname b) (b_firstname b) (b_hasprev b) (b_linestart b) (b_cover b) (b_pending b) in
      append_raw b' (mkState (gline cur) (gcol cur) (sidx cur) (oline cur) (ocol cur) i true)
    end.

(* AddSourceMapping(loc, name, output) where output = previous output ++ delta *)
Definition AddSourceMapping (ts : list lot) (b : bst) (loc name : Z) (delta : bytes) : option bst :=
  let newlen := b_len b + Z.of_nat (length (b_pending b)) + Z.of_nat (length delta) in
  if (loc =? b_prevloc b) && ((b_prevlen b =? newlen) || (b_prevname b =? name))
  then Some (mkBst (b_map b) (b_names b) (b_prev b) (b_gencol b) (b_prevlen b) (b_len b) (b_prevloc b) (b_prevname b)
                   (b_firstname b) (b_hasprev b) (b_linestart b) (b_cover b) (b_pending b ++ delta))
  else
    let b0 := mkBst (b_map b) (b_names b) (b_prev b) (b_gencol b) newlen (b_len b) loc name
                    (b_firstname b) (b_hasprev b) (b_linestart b) (b_cover b) (b_pending b) in
    match lookup ts loc with
    | None => None
    | Some (oline, ocol) =>
      let b1 := update_gen b0 delta in
      let b2 := if b_cover b1 && negb (b_linestart b1) && (0 <? b_gencol b1) && b_hasprev b1
                then append_raw b1 (cover_state b1) else b1 in
      let b3 := append_named b2 name (mkState (gline (b_prev b2)) (b_gencol b2) 0 oline ocol 0 false) in
      Some (mkBst (b_map b3) (b_names b3) (b_prev b3) (b_gencol b3) (b_prevlen b3) (b_len b3) (b_prevloc b3)
                  (b_prevname b3) (b_firstname b3) (b_hasprev b3) true (b_cover b3) (b_pending b3))
    end.

Fixpoint all_semis (l : bytes) : bool :=
  match l with [] => true | c :: r => (c =? SEMI) && all_semis r end.

(* GenerateChunk(output): data, firstNameOffset, names, EndState, FinalGeneratedColumn, ShouldIgnore *)
Definition GenerateChunk (b : bst) (delta : bytes) : bytes * option Z * list Z * state * Z * bool :=
  let b' := update_gen b delta in
  (b_map b', b_firstname b', b_names b', b_prev b', b_gencol b', all_semis (b_map b')).

(* run: events are (loc, name id, text appended since the previous event) *)
Fixpoint run_builder (ts : list lot) (b : bst) (evs : list (Z * Z * bytes)) : option bst :=
  match evs with
  | [] => Some b
  | (loc, name, delta) :: r =>
    match AddSourceMapping ts b loc name delta with
    | None => None
    | Some b' => run_builder ts b' r
    end
  end.
