(* C07 property theorems. This file contains only statements closed by
   [exact lemma] and Print Assumptions. *)
From V Require Import Common.Base Common.Utf8 C07.LineCol C07.Builder C07.BuilderProofs C07.LineColAux C07.LineColProofs C07.Shift C07.ShiftAux C07.ShiftProofs C07.Vlq C07.SpecMap C07.Mappings C07.VlqProofs C07.MappingsProofs C07.FindProofs C07.JoinProofs C07.SpecBuilder C07.BuilderExact C07.JoinAll C07.JoinAllProofs C07.JoinNullProofs C07.Pipeline C07.BuilderIn C07.BuilderInProofs C07.AdvConcat C07.ParseMap C07.ParseMapProofs.
From V Require C16.Checked C16.Vlq16 C16.Vlq16Proofs.
From V Require C19.Json C19.JsonSpec C19.JsonProofs C07.SmJson C07.SmJsonProofs C07.SmPipeline C07.PipelineNull.

(* encodeVLQ/DecodeVLQ round trip, every integer, arbitrary trailing bytes *)
Theorem vlq_roundtrip : forall v rest, DecodeVLQ (encodeVLQ v ++ rest) = Some (v, rest).
Proof. exact vlq_roundtrip_all. Qed.
Print Assumptions vlq_roundtrip.

(* within Go's 64-bit int the encoding has at most 13 digits: no shift >= 64 *)
Theorem vlq_digits_fit_int64 : forall v, - 2 ^ 62 < v < 2 ^ 62 -> (length (encodeVLQ v) <= 13)%nat.
Proof. exact encodeVLQ_length_bound. Qed.
Print Assumptions vlq_digits_fit_int64.

(* the base64 table in the code is the RFC 4648 alphabet *)
Theorem base64_table_is_rfc4648 : forall c, b64_index c = spec_digit c.
Proof. exact b64_index_is_spec. Qed.
Print Assumptions base64_table_is_rfc4648.

(* the mappings string the builder writes means, under the v3 semantics,
   exactly the mappings that were added: every event list, no size bound *)
Theorem mappings_roundtrip : forall ops, spec_decode (emit_bytes ops) = Some (abs_of ops 0).
Proof. exact mappings_roundtrip_all. Qed.
Print Assumptions mappings_roundtrip.

(* SourceMap.Find (binary search) returns the last mapping at or before the
   queried generated position, on the queried line: every sorted mapping list *)
Theorem find_is_last_le : forall ms line col, sorted_maps ms -> Find ms line col = spec_find ms line col.
Proof. exact find_is_spec. Qed.
Print Assumptions find_is_last_le.

(* AppendSourceMapChunk on a chunk produced by the builder writes exactly the
   bytes the builder would write for the rebased events (start line/column,
   source index base, name base), for every chunk and every previous state *)
Theorem join_bytes : forall k gc si ol oc nm rest jl prevEnd start,
  has_name start = false -> oline start = 0 -> ocol start = 0 -> 0 <= gline start ->
  let ops := repeat ONewline k ++ OMap gc si ol oc nm :: rest in
  AppendSourceMapChunk jl prevEnd start
     (mkChunk (ebytes ops 0 state0) (option_map Z.of_nat (first_name_off ops 0 state0 0)))
  = Some (ebytes (repeat ONewline (Z.to_nat (gline start))
                  ++ rebase (gcol start) (sidx start) (oname start) true ops) jl prevEnd).
Proof. exact join_bytes_all. Qed.
Print Assumptions join_bytes.

(* ... hence every file's mappings survive joining, shifted to the file's place *)
Theorem join_decodes : forall ops0 k gc si ol oc nm rest start,
  has_name start = false -> oline start = 0 -> ocol start = 0 -> 0 <= gline start ->
  let ops := repeat ONewline k ++ OMap gc si ol oc nm :: rest in
  let '(b0, jl, prevEnd) := emit ops0 0 state0 in
  exists appended,
    AppendSourceMapChunk jl prevEnd start
      (mkChunk (emit_bytes ops) (option_map Z.of_nat (first_name_off ops 0 state0 0))) = Some appended /\
    spec_decode (b0 ++ appended) =
      Some (abs_of (ops0 ++ repeat ONewline (Z.to_nat (gline start))
                    ++ rebase (gcol start) (sidx start) (oname start) true ops) 0).
Proof. exact join_decodes_all. Qed.
Print Assumptions join_decodes.

(* every chunk the ChunkBuilder can produce (any line tables, any sequence of
   AddSourceMapping calls with any output text, then GenerateChunk) carries a
   mappings string that is well-formed under the v3 semantics and sorted by
   generated position *)
Theorem builder_sorted : forall ts cover evs b fin,
  run_builder ts (bst0 cover) evs = Some b ->
  let '(data, _, _, _, _, _) := GenerateChunk b fin in
  exists l, spec_decode data = Some l /\ sorted_abs l = true.
Proof. exact builder_sorted_all. Qed.
Print Assumptions builder_sorted.

(* The line offset tables built from a source text, looked up the way
   AddSourceMapping does (binary search + per-line column table), give for
   every character boundary the true 0-based line and UTF-16 column of that
   byte offset (CR, LF, CRLF, U+2028, U+2029 line breaks; astral characters
   count two columns; invalid UTF-8 decodes as Go's range does): every text *)
Theorem lineoffset_table_is_spec : forall text off,
  boundary text off ->
  lookup (GenerateLineOffsetTables text) off = Some (linecol_utf16 text off).
Proof. exact lineoffset_is_spec. Qed.
Print Assumptions lineoffset_table_is_spec.

(* SourceMapPieces.Finalize applied to a builder-produced mappings string moves
   exactly the generated columns that lie after a substituted path on the same
   line, by that path's length difference: every event list sorted within
   lines, every well-formed shift list (first shift zero, Before/After on one
   line, Befores strictly increasing) *)
Theorem finalize_moves_columns : forall sh ops, shifts_wf sh -> ops_wf ops ->
  exists result, Finalize sh (emit_bytes ops) = Some result /\
    spec_decode (emit_bytes ops) = Some (abs_of ops 0) /\
    spec_decode result = Some (map (shift_abs sh) (abs_of ops 0)).
Proof. exact finalize_decodes_map. Qed.
Print Assumptions finalize_moves_columns.

(* What the mappings of a ChunkBuilder chunk ARE: for every original text, every
   sequence of AddSourceMapping(loc, name, output) calls with loc at a character
   boundary of the text, any output text, with or without
   coverLinesWithoutMappings: the builder does not panic and the chunk returned
   by GenerateChunk is byte for byte the v3 encoding of the event list of
   SpecBuilder.v, i.e. in order, for every call not suppressed as a duplicate,
   one mapping
     (generated line, generated UTF-16 column of the end of the output printed
      so far)  |->  (source 0, linecol_utf16 text loc, index of the name)
   plus (cover on, a previous mapping exists) its copy at column 0 of every
   generated line left without a mapping and of the line of a mapping that is
   not at column 0 on a line without mapping.  The name table, first-name
   offset, end state and final generated column are the specified ones and the
   events are sorted within each line (what Finalize and the joiner rely on).
   Combines the Builder.v model with lineoffset_table_is_spec. *)
Theorem builder_mappings_exact : forall text cover evs fin,
  Forall (fun e => boundary text (fst (fst e))) evs ->
  exists b, run_builder (GenerateLineOffsetTables text) (bst0 cover) evs = Some b /\
    let '(data, fno, names, endst, fcol, _) := GenerateChunk b fin in
    let '(ops, snames, scol) := builder_spec text cover evs fin in
    data = emit_bytes ops /\
    spec_decode data = Some (abs_of ops 0) /\
    fno = option_map Z.of_nat (first_name_off ops 0 state0 0) /\
    names = snames /\ fcol = scol /\
    endst = snd (emit ops 0 state0) /\
    sorted_ops ops 0 /\ end_col ops 0 <= fcol.
Proof. exact builder_exact_all. Qed.
Print Assumptions builder_mappings_exact.

(* Many files. The "Write the mappings" loop of linker.generateSourceMapForChunk
   (JoinAll.v: prevEndState / prevColumnOffset / totalQuotedNameLen bookkeeping,
   the two "Internal error" panics, null entries, the sourceIndexToSourcesIndex
   table of the first loop), applied to ANY list of compiled files whose chunks
   are builder outputs with at least one mapping (ShouldIgnore chunks never
   reach the loop) and whose offsets have a non-negative line count: the loop
   does not panic, and the mappings string it writes denotes, under the v3
   semantics, exactly every file's mappings, in order, moved to the place of the
   file's text -- start of file i = end of file i-1's text + offset i, end of
   its text = start + (number of line breaks, final column) -- with the file's
   "sources" index added to the source index and the number of names of the
   earlier files added to the name index. By induction over the file list on
   top of join_bytes.  The list may contain null entries (a file without
   mappings after a file with mappings): each contributes one mapping without
   original position at the place where the previous file's text ended; the
   linker's bookkeeping after a null entry on one line carries a common excess
   in prevEndState's column and prevColumnOffset (JoinNullProofs.v: drift),
   which cancels in every delta it writes. *)
Theorem join_all_decodes : forall items,
  Forall item_ok items ->
  let tbl := assign_sources (map res_of_item items) [] 0 in
  exists m, join_all (map res_of_item items) = Some m /\
            m = emit_bytes (joined_ops_i tbl items 0 0) /\
            spec_decode m = Some (joined_abs_i tbl items (0, 0) 0).
Proof. exact join_all_decodes_items. Qed.
Print Assumptions join_all_decodes.

(* the "sources" numbering used above: distinct source indices get 0,1,2,...
   in order of first appearance and every non-null result has an entry *)
Theorem sources_table_first_appearance : forall rs,
  let t := assign_sources rs [] 0 in
  map snd t = zseq 0 (length t) /\ NoDup (map fst t) /\
  (forall r, In r rs -> j_null r = false -> tbl_find (j_src r) t <> None).
Proof. exact sources_table_all. Qed.
Print Assumptions sources_table_first_appearance.

(* End to end over the modelled code: n source files, each with its original
   text, its AddSourceMapping calls (locs at character boundaries, at least one
   call) and its output text, placed by the linker at offsets that are
   positions (no input source maps: coverLinesWithoutMappings on), possibly
   interleaved with null entries (files without mappings), any well-formed
   shift list.  Every builder run succeeds, the joining loop of
   generateSourceMapForChunk does not panic, Finalize succeeds, and the final
   mappings string denotes exactly: for every file in order, the mappings
   specified by SpecBuilder.v (generated position of the output so far |->
   UTF-16 line/column of loc in the original text, name index, cover mappings)
   moved to the file's place in the chunk, source index = the file's "sources"
   index, name index + number of names of earlier files, and every generated
   column moved by the shift that applies at that position.
   Composes builder_mappings_exact, join_all_decodes, finalize_moves_columns. *)
Theorem pipeline_exact : forall (sis : list PipelineNull.src_item) sh,
  Forall PipelineNull.src_item_ok sis -> shifts_wf sh ->
  exists rs m result,
    map PipelineNull.built_item sis = map Some rs /\
    join_all rs = Some m /\
    Finalize sh m = Some result /\
    result = emit_bytes (shift_ops sh (joined_ops_i (assign_sources rs [] 0) (map PipelineNull.spec_item sis) 0 0) 0) /\
    spec_decode result =
      Some (map (shift_abs sh) (joined_abs_i (assign_sources rs [] 0) (map PipelineNull.spec_item sis) (0, 0) 0)).
Proof. exact PipelineNull.pipeline_exact_items. Qed.
Print Assumptions pipeline_exact.

(* Composition through an input source map. The ChunkBuilder created with a
   non-nil inputSourceMap (BuilderIn.v; AddSourceMappingG None is the builder of
   builder_mappings_exact) whose mappings [ms] are sorted by generated position
   and whose name indices lie inside its Names array: for every original text,
   calls at character boundaries and output text, the builder does not panic
   and the chunk is byte for byte the encoding of the event list of
   builder_in_spec (BuilderInProofs.v), which is the list of
   builder_mappings_exact without cover mappings in which every original
   position  linecol_utf16 text loc  is replaced by the target (source index,
   line, column) of  spec_find ms line col  -- the last input mapping at or
   before that position on that line, find_is_last_le -- and the mapping is
   dropped when there is none; the name is the input mapping's name when it has
   one, otherwise the caller's. *)
Theorem builder_composes : forall text ms inames,
  sorted_maps ms -> names_in_range ms inames ->
  forall evs fin,
  Forall (fun e => boundary text (fst (fst e))) evs ->
  exists b, run_builder_g (Some (ms, inames)) (GenerateLineOffsetTables text) (bst0_g (Some (ms, inames))) evs = Some b /\
    let '(data, fno, names, endst, fcol, _) := GenerateChunk b fin in
    let '(ops, snames, scol) := builder_in_spec text ms inames evs fin in
    data = emit_bytes ops /\
    spec_decode data = Some (abs_of ops 0) /\
    fno = option_map Z.of_nat (first_name_off ops 0 state0 0) /\
    names = snames /\ fcol = scol /\
    endst = snd (emit ops 0 state0) /\
    sorted_ops ops 0 /\ end_col ops 0 <= fcol.
Proof. exact builder_composes_all. Qed.
Print Assumptions builder_composes.

(* The generated position of builder_mappings_exact is measured portion by
   portion (the builder scans only the output added since its last scan).
   Measuring the concatenated output gives the same position whenever the cut
   is clean: a character boundary of the concatenation (not inside a UTF-8
   sequence) that does not separate a CR from the LF that follows it. *)
Theorem generated_position_concat : forall p a b,
  clean_cut a b -> adv p (a ++ b) = adv (adv p a) b.
Proof. exact adv_concat_all. Qed.
Print Assumptions generated_position_concat.

(* ... and the hypothesis is needed: the builder that has scanned "...CR" and
   then scans "LF..." counts two line breaks where the text has one *)
Theorem generated_position_dirty_cut_differs :
  adv (0, 0) ([13] ++ [10]) = (1, 0) /\ adv (adv (0, 0) [13]) [10] = (2, 0).
Proof. exact (conj eq_refl eq_refl). Qed.
Print Assumptions generated_position_dirty_cut_differs.

(* Hence, when every place where the builder stops scanning is a clean cut of
   the output ([clean_run]: the hypothesis about the printers, which record
   mappings between whole tokens / whole comments; exercised by the cut-probe
   corpus through api.Transform), the chunk of builder_mappings_exact is the one
   whose generated positions are  linecol_utf16 (all output printed so far)
   (its length)  -- the same direct scan that specifies original positions. *)
Theorem builder_spec_on_concatenated_output : forall text cover evs fin,
  clean_run sw0 [] evs fin ->
  builder_spec_cat text cover evs fin = builder_spec text cover evs fin.
Proof. exact builder_spec_cat_eq. Qed.
Print Assumptions builder_spec_on_concatenated_output.

(* builder_composes relative to builder_mappings_exact: names aside, the
   mappings of the chunk built with input map [ms] are the mappings of the chunk
   built without one (cover off), each with its original position (line,
   column) replaced by the target of spec_find ms line column, and dropped when
   spec_find finds nothing; generated positions are untouched. *)
Theorem composes_is_remapping : forall text ms inames evs fin,
  map strip_abs (abs_of (fst (fst (builder_in_spec text ms inames evs fin))) 0) =
  flat_map (remap_abs ms) (abs_of (builder_spec_ops text false evs fin) 0).
Proof. exact composes_remaps_abs. Qed.
Print Assumptions composes_is_remapping.

(* js_parser.ParseSourceMap (the decoder of INPUT source maps). The decoding loop
   is the model of coq/C16/Vlq16.v (imported, tied to the Go code by C16's
   correspondence, C16.parsed_map_indices_in_range); ParseMap.v adds the one
   variable that model leaves out -- needSort -- and the final sort, and
   mloop_ns_erase shows that forgetting the flag gives back C16's loop.
   For every list of sections whose offsets are int32 and whose line counter
   cannot overflow (sec_bounds) and fewer than 2^31 sources and names: a
   returned map has its mappings sorted by generated position (whether or not
   the needSort path ran: if no negative generated-column delta was read and no
   section starts before the end of the previous one, the decoded order is
   already sorted) and every source / name index lies inside Sources / Names. *)
Theorem parsed_map_sorted_in_range : forall secs n1 n2 ms flag,
  Vlq16Proofs.sections_ok secs -> Vlq16Proofs.total_sources secs < 2 ^ 31 -> Vlq16Proofs.total_names secs < 2 ^ 31 ->
  Forall sec_bounds secs ->
  ParseMappingsOrdered secs = Checked.Ok (QMap n1 n2 ms flag) ->
  sorted_maps (map conv ms) /\ Forall (Vlq16Proofs.good_mapping n1 n2) ms.
Proof. exact parse_sorted_in_range. Qed.
Print Assumptions parsed_map_sorted_in_range.

(* ... hence every map ParseSourceMap returns meets the hypotheses of
   builder_composes (sorted_maps, names_in_range for a Names array of the
   returned length): composition through a parsed input map never panics and
   is the spec_find remapping. *)
Theorem parsed_map_is_composable : forall secs n1 n2 ms flag (inames : list Z),
  Vlq16Proofs.sections_ok secs -> Vlq16Proofs.total_sources secs < 2 ^ 31 -> Vlq16Proofs.total_names secs < 2 ^ 31 ->
  Forall sec_bounds secs ->
  ParseMappingsOrdered secs = Checked.Ok (QMap n1 n2 ms flag) ->
  Z.of_nat (length inames) = n2 ->
  sorted_maps (map conv ms) /\ names_in_range (map conv ms) inames.
Proof. exact parsed_map_composable. Qed.
Print Assumptions parsed_map_is_composable.

(* the ordered model is the C16 model with the flag forgotten *)
Theorem parse_model_refines_c16 : forall raw lo co so no sl nl fuel st current acc ns,
  erase (mloop_ns raw lo co so no sl nl fuel st current acc ns) = Vlq16.mloop raw lo co so no sl nl fuel st current acc.
Proof. exact mloop_ns_erase. Qed.
Print Assumptions parse_model_refines_c16.

(* The text of the emitted map (SmJson.v: the AddString / QuoteForJSON calls of
   generateSourceMapForChunk around the mappings), for every list of sources,
   optional source root, optional list of file contents, every names list (any
   bytes: control characters, quotes, invalid UTF-8 ...) and every mappings
   string made of mapping characters: the text is accepted by the RFC 8259
   parser of coq/C19/JsonSpec.v and denotes the object
     version 3, sources, [sourceRoot], [sourcesContent], mappings, names
   where every string reads back as the UTF-16 units of the bytes it was written
   from (C19.json_quote_roundtrip, imported: an invalid byte reads as U+FFFD)
   and "mappings" reads back as the mappings string itself. *)
Theorem sourcemap_text_parses : forall ascii sources root contents mappings names,
  Forall JsonProofs.bytes_ok sources ->
  (forall r, root = Some r -> JsonProofs.bytes_ok r) ->
  (forall cs, contents = Some cs -> Forall JsonProofs.bytes_ok cs) ->
  Forall SmJsonProofs.safe_char mappings -> Forall JsonProofs.bytes_ok names ->
  JsonSpec.parse_json (SmJson.sourcemap_text ascii sources root contents mappings names) =
  Some (SmJsonProofs.sm_jv sources root contents mappings names).
Proof. exact SmJsonProofs.sm_json_all. Qed.
Print Assumptions sourcemap_text_parses.

(* ... and for the map esbuild emits for a chunk: n source files through the
   builder, the joining loop and Finalize (pipeline_exact), with one (source
   path, file contents) item per "sources" entry: the emitted text is
   well-formed JSON whose "version" is 3, whose "sources" and "sourcesContent"
   have one entry per item -- sourcesContent[i] is exactly file i's text (absent
   altogether with --sources-content=false) --, whose "names" are the given
   names and whose "mappings" is the string that pipeline_exact decodes. *)
Theorem sourcemap_json_wellformed_and_faithful :
  forall (sis : list PipelineNull.src_item) sh ascii (items : list (bytes * bytes)) root excl (names : list bytes),
  Forall PipelineNull.src_item_ok sis -> shifts_wf sh ->
  Forall (fun it => JsonProofs.bytes_ok (fst it) /\ JsonProofs.bytes_ok (snd it)) items ->
  (forall r, root = Some r -> JsonProofs.bytes_ok r) -> Forall JsonProofs.bytes_ok names ->
  exists rs m result,
    map PipelineNull.built_item sis = map Some rs /\
    join_all rs = Some m /\
    Finalize sh m = Some result /\
    spec_decode result =
      Some (map (shift_abs sh) (joined_abs_i (assign_sources rs [] 0) (map PipelineNull.spec_item sis) (0, 0) 0)) /\
    JsonSpec.parse_json (SmJsonProofs.sourcemap_text_items ascii items root excl result names) =
      Some (SmJsonProofs.sm_jv (map fst items) root (if excl then None else Some (map snd items)) result names).
Proof. exact PipelineNull.sourcemap_json_items. Qed.
Print Assumptions sourcemap_json_wellformed_and_faithful.

(* ParseSourceMap = the v3 decoding, on every mappings string written by the
   emitter (the canonical encoding esbuild and its chunk builder produce): for
   every event list whose columns, lines and indices are below 2^30 and inside
   the sources / names arrays, the parser model applied to the single section
   [emit_bytes ops] returns exactly the mappings that spec_decode assigns to
   that string and that have an original position (the parser ignores
   one-field segments), in decoding order when no generated column goes
   backwards within a line, stably sorted otherwise.  With
   parsed_map_is_composable and builder_composes this makes composition through
   an input map end-to-end: text of the input map -> parsed list -> Find. *)
From V Require C07.ParseRoundtrip.
Theorem parse_reads_back_emitted : forall sl nl ops,
  ParseRoundtrip.in30 sl -> ParseRoundtrip.in30 nl -> ParseRoundtrip.ops_in30 sl nl ops ->
  ParseRoundtrip.nlines16 ops < 2 ^ 30 -> ParseRoundtrip.pmaps ops 0 <> [] ->
  spec_decode (emit_bytes ops) = Some (abs_of ops 0) /\
  ParseMappingsOrdered [(0, 0, sl, nl, emit_bytes ops)] =
    Checked.Ok (QMap sl nl (let l := flat_map ParseRoundtrip.abs6 (abs_of ops 0) in
                            if ParseRoundtrip.negd ops 0 then sort_pos l else l) (ParseRoundtrip.negd ops 0)).
Proof. exact ParseRoundtrip.parse_emit_all. Qed.
Print Assumptions parse_reads_back_emitted.
