(* C07 property theorems. This file contains only statements closed by
   [exact lemma] and Print Assumptions. *)
From V Require Import Common.Base C07.Vlq C07.SpecMap C07.Mappings C07.VlqProofs C07.MappingsProofs.

(* encodeVLQ/DecodeVLQ round trip, every integer, arbitrary trailing bytes *)
Theorem vlq_roundtrip : forall v rest, DecodeVLQ (encodeVLQ v ++ rest) = Some (v, rest).
Proof. exact vlq_roundtrip_all. Qed.
Print Assumptions vlq_roundtrip.

(* within Go's 64-bit int the encoding has at most 13 digits: no shift >= 64 *)
Theorem vlq_digits_fit_int64 : forall v, - 2 ^ 62 < v < 2 ^ 62 -> (length (encodeVLQ v) <= 13)%nat.
Proof. exact encodeVLQ_length_bound. Qed.
Print Assumptions vlq_digits_fit_int64.

(* the base64 table in the code is the RFC 4648 alphabet *)
Theorem base64_table_is_rfc4648 : forall c, b64_index c = spec_digit c.
Proof. exact b64_index_is_spec. Qed.
Print Assumptions base64_table_is_rfc4648.

(* the mappings string the builder writes means, under the v3 semantics,
   exactly the mappings that were added: every event list, no size bound *)
Theorem mappings_roundtrip : forall ops, spec_decode (emit_bytes ops) = Some (abs_of ops 0).
Proof. exact mappings_roundtrip_all. Qed.
Print Assumptions mappings_roundtrip.
