(* C07 model, part 2: the byte stream produced by ChunkBuilder
   (appendMappingWithoutRemapping + the ';' of updateGeneratedLineAndColumn),
   and AppendSourceMapChunk / the joining loop of generateSourceMapForChunk. *)
From V Require Import Common.Base C07.Vlq.

(* One builder event: a line break in the generated text, or a mapping at
   generated column [gc] to (source index, line, column) with optional name index. *)
Inductive op :=
| ONewline
| OMap (gc si ol oc : Z) (nm : option Z)
| ONull (gc : Z).      (* a mapping without original position (one field): the "null" entries of the linker *)

(* appendMappingWithoutRemapping: new prevState *)
Definition next_state (prev : state) (gc si ol oc : Z) (nm : option Z) : state * state :=
  let cur := mkState (gline prev) gc si ol oc
                     (match nm with Some n => n | None => 0 end)
                     (match nm with Some _ => true | None => false end) in
  let prev' := match nm with
               | Some _ => cur
               | None => mkState (gline prev) gc si ol oc (oname prev) false
               end in
  (cur, prev').

(* a one-field segment: appendMappingToBuffer with omitSource = true and no name;
   only the generated column of prevState advances *)
Definition null_state (prev : state) (gc : Z) : state :=
  mkState (gline prev) gc (sidx prev) (oline prev) (ocol prev) (oname prev) (has_name prev).
Definition null_seg (lastByte : Z) (prev : state) (gc : Z) : bytes :=
  fst (appendMapping lastByte prev
         (mkState (gline prev) gc (sidx prev) (oline prev) (ocol prev) (oname prev) false) true).

(* emit ops, threading the last byte of the buffer and prevState *)
Fixpoint emit (ops : list op) (lastByte : Z) (prev : state) : bytes * Z * state :=
  match ops with
  | [] => ([], lastByte, prev)
  | ONewline :: r =>
    let prev' := mkState (gline prev + 1) 0 (sidx prev) (oline prev) (ocol prev) (oname prev) (has_name prev) in
    let '(b, lb, st) := emit r SEMI prev' in
    (SEMI :: b, lb, st)
  | OMap gc si ol oc nm :: r =>
    let '(cur, prev') := next_state prev gc si ol oc nm in
    let seg := fst (appendMapping lastByte prev cur false) in
    let '(b, lb, st) := emit r (last seg lastByte) prev' in
    (seg ++ b, lb, st)
  | ONull gc :: r =>
    let seg := null_seg lastByte prev gc in
    let '(b, lb, st) := emit r (last seg lastByte) (null_state prev gc) in
    (seg ++ b, lb, st)
  end.

Definition emit_bytes (ops : list op) : bytes := fst (fst (emit ops 0 state0)).

(* ---- AppendSourceMapChunk ---- *)

Record chunkbuf := mkChunk { c_data : bytes; c_first_name : option Z (* byte offset *) }.

Definition is_sep (c : Z) : bool := (c =? COMMA) || (c =? SEMI).

(* returns the bytes added to the joiner; [jlast] is j.LastByte() on entry *)
Definition AppendSourceMapChunk (jlast : Z) (prevEnd start : state) (buf : chunkbuf)
  : option bytes :=
  let out1 := if gline start =? 0 then [] else rep SEMI (Z.to_nat (gline start)) in
  let prevEnd1 := if gline start =? 0 then prevEnd
                  else mkState (gline prevEnd) 0 (sidx prevEnd) (oline prevEnd) (ocol prevEnd) (oname prevEnd) (has_name prevEnd) in
  let '(semis, rest) := span_eq SEMI (c_data buf) in
  match rest with [] => None (* Go: index out of range *) | _ =>
  let out2 := rep SEMI semis in
  let prevEnd2 := if Nat.eqb semis 0 then prevEnd1
                  else mkState (gline prevEnd1) 0 (sidx prevEnd1) (oline prevEnd1) (ocol prevEnd1) (oname prevEnd1) (has_name prevEnd1) in
  let start2 := if Nat.eqb semis 0 then start
                else mkState (gline start) 0 (sidx start) (oline start) (ocol start) (oname start) (has_name start) in
  match DecodeVLQ rest with None => None | Some (generatedColumn, r1) =>
  let omit := match r1 with [] => true | c :: _ => is_sep c end in
  let fields := if omit then Some (0, 0, 0, r1) else
      match DecodeVLQ r1 with None => None | Some (si, r2) =>
      match DecodeVLQ r2 with None => None | Some (ol, r3) =>
      match DecodeVLQ r3 with None => None | Some (oc, r4) => Some (si, ol, oc, r4)
      end end end in
  match fields with None => None | Some (si, ol, oc, rafter) =>
  let i := (length (c_data buf) - length rafter)%nat in       (* byte index after the stripped fields *)
  let start3 := mkState (gline start2) (gcol start2 + generatedColumn) (sidx start2 + si)
                        (oline start2 + ol) (ocol start2 + oc) (oname start2) (has_name start2) in
  let prevEnd3 := mkState (gline prevEnd2) (gcol prevEnd2) (sidx prevEnd2) (oline prevEnd2) (ocol prevEnd2) (oname prevEnd2) false in
  let jl := last (out1 ++ out2) jlast in
  (* Go passes currentState = startState whose HasOriginalName is false *)
  let rewritten := fst (appendMapping jl prevEnd3 start3 omit) in
  match c_first_name buf with
  | Some before =>
    let beforeN := Z.to_nat before in
    match DecodeVLQ (skipn beforeN (c_data buf)) with None => None | Some (nm, afterl) =>
    let nm' := nm + (oname start3 - oname prevEnd3) in
    Some (out1 ++ out2 ++ rewritten
          ++ firstn (beforeN - i) (skipn i (c_data buf))
          ++ encodeVLQ nm' ++ afterl)
    end
  | None => Some (out1 ++ out2 ++ rewritten ++ rafter)
  end
  end end end.
