(* Checker for the smtext family: the text of a real .map output is re-rendered
   by SmJson.sourcemap_text from the decoded fields and compared byte for byte. *)
From V Require Import Common.Base C19.Json C07.SmJson C07.Harness.

Definition smtext_ok (c : bool * list bytes * option bytes * option (list bytes) * bytes * list bytes * bytes) : bool :=
  let '(ascii, sources, root, contents, mappings, names, text) := c in
  zlist_eqb (sourcemap_text ascii sources root contents mappings names) text.
Definition check_smtext := mismatches smtext_ok.
