(* Checkers evaluated by the correspondence run: each returns the indices of
   the cases on which the model and the implementation's observed output
   differ (or on which the specification-side predicate fails). *)
From V Require Import Common.Base Common.Utf8 C07.Vlq C07.SpecMap C07.Mappings C07.Shift C07.LineCol C07.Builder C07.JoinAll C07.BuilderIn.

Fixpoint mism_from {A} (f : A -> bool) (l : list A) (i : nat) : list nat :=
  match l with
  | [] => []
  | x :: r => if f x then mism_from f r (S i) else i :: mism_from f r (S i)
  end.
Definition mismatches {A} (f : A -> bool) (l : list A) : list nat := mism_from f l 0.

Definition optzb_eqb (a b : option (Z * bytes)) : bool :=
  match a, b with
  | Some (x, l), Some (y, m) => (x =? y) && zlist_eqb l m
  | None, None => true
  | _, _ => false
  end.

(* (value, Go encoding, junk, Go decoded value of enc++junk, Go consumed count) *)
Definition vlq_ok (c : Z * bytes * bytes * Z * Z) : bool :=
  let '(v, enc, junk, dv, dn) := c in
  zlist_eqb (encodeVLQ v) enc
  && optzb_eqb (DecodeVLQ (enc ++ junk)) (Some (dv, skipn (Z.to_nat dn) (enc ++ junk))).
Definition check_vlq := mismatches vlq_ok.

(* raw decode: (bytes, Go value, Go consumed); bytes always end with a non-digit sentinel *)
Definition dec_ok (c : bytes * Z * Z) : bool :=
  let '(b, dv, dn) := c in
  optzb_eqb (DecodeVLQ b) (Some (dv, skipn (Z.to_nat dn) b)).
Definition check_dec := mismatches dec_ok.

Definition mkst (l : list Z) (hn : bool) : state :=
  match l with
  | [a; b; c; d; e; f] => mkState a b c d e f hn
  | _ => state0
  end.

(* appendMappingToBuffer: (lastByte, prev fields, prev hasName, cur fields, cur hasName, omit, Go bytes, Go name offset or -1) *)
Definition app_ok (c : Z * list Z * bool * list Z * bool * bool * bytes * Z) : bool :=
  let '(lb, p, ph, q, qh, omit, gb, goff) := c in
  let '(mb, moff) := appendMapping lb (mkst p ph) (mkst q qh) omit in
  zlist_eqb mb gb && (match moff with Some o => o =? goff | None => goff =? -1 end).
Definition check_app := mismatches app_ok.

(* AppendSourceMapChunk: (jlast, prevEnd, start, data, firstNameOffset or -1, Go appended bytes) *)
Definition join_ok (c : Z * list Z * list Z * bytes * Z * bytes) : bool :=
  let '(jl, p, st, data, fno, gb) := c in
  match AppendSourceMapChunk jl (mkst p false) (mkst st false)
          (mkChunk data (if fno <? 0 then None else Some fno)) with
  | Some mb => zlist_eqb mb gb
  | None => false
  end.
Definition check_join := mismatches join_ok.

Definition mkshift (l : list Z) : shift :=
  match l with [a; b; c; d] => ((a, b), (c, d)) | _ => ((0, 0), (0, 0)) end.

(* Finalize: (shifts as 4-lists, mappings, Go result) *)
Definition fin_ok (c : list (list Z) * bytes * bytes) : bool :=
  let '(sh, m, gb) := c in
  match Finalize (map mkshift sh) m with Some mb => zlist_eqb mb gb | None => false end.
Definition check_fin := mismatches fin_ok.

Definition mkmap (l : list Z) : mapping :=
  match l with
  | [a; b; c; d; e; f] => mkMapping a b c d e (if f <? 0 then None else Some f)
  | _ => mkMapping 0 0 0 0 0 None
  end.
Definition mapping_eqb (a b : mapping) : bool :=
  (m_gline a =? m_gline b) && (m_gcol a =? m_gcol b) && (m_src a =? m_src b) &&
  (m_oline a =? m_oline b) && (m_ocol a =? m_ocol b) && option_eqb Z.eqb (m_name a) (m_name b).

(* Find: (mappings as 6-lists, line, col, Go result as 6-list or []) *)
Definition find_ok (c : list (list Z) * Z * Z * list Z) : bool :=
  let '(ms, line, col, res) := c in
  match Find (map mkmap ms) line col, res with
  | None, [] => true
  | Some m, (_ :: _) => mapping_eqb m (mkmap res)
  | _, _ => false
  end.
Definition check_find := mismatches find_ok.

(* Specification-side predicate on real emitted maps: the mappings string
   decodes, is sorted by generated position, indices are in range and the
   decoded list equals the harness's own decoding (which the oracle used). *)
Definition abs_of_list (l : list Z) : abs :=
  match l with
  | [gl; gc] => mkAbs gl gc None None
  | [gl; gc; s; ol; oc] => mkAbs gl gc (Some (s, ol, oc)) None
  | [gl; gc; s; ol; oc; n] => mkAbs gl gc (Some (s, ol, oc)) (Some n)
  | _ => mkAbs (-1) (-1) None None
  end.
Definition abs_eqb (a b : abs) : bool :=
  (a_gline a =? a_gline b) && (a_gcol a =? a_gcol b) &&
  option_eqb (fun x y => let '(p, q, r) := x in let '(p', q', r') := y in (p =? p') && (q =? q') && (r =? r')) (a_src a) (a_src b) &&
  option_eqb Z.eqb (a_name a) (a_name b).
Definition abs_in_range (nsrc nnames : Z) (a : abs) : bool :=
  (0 <=? a_gline a) && (0 <=? a_gcol a) &&
  match a_src a with Some (s, ol, oc) => (0 <=? s) && (s <? nsrc) && (0 <=? ol) && (0 <=? oc) | None => true end &&
  match a_name a with Some n => (0 <=? n) && (n <? nnames) | None => true end.

(* (mappings bytes, #sources, #names, harness-decoded list) *)
Definition map_ok (c : bytes * Z * Z * list (list Z)) : bool :=
  let '(m, nsrc, nnames, dec) := c in
  match spec_decode m with
  | None => false
  | Some l => sorted_abs l && forallb (abs_in_range nsrc nnames) l
              && list_eqb abs_eqb l (map abs_of_list dec)
  end.
Definition check_map := mismatches map_ok.

(* ---- line/column tables ---- *)
Definition lot_of (l : list Z * list Z) : lot :=
  match l with
  | ([st; fi; hascols], cols) => mkLot st fi (if hascols =? 0 then None else Some cols)
  | _ => mkLot (-1) (-1) None
  end.
Definition lot_eqb (a b : lot) : bool :=
  (l_start a =? l_start b) && (l_first a =? l_first b) && option_eqb zlist_eqb (l_cols a) (l_cols b).
Definition pair_eqb (a b : Z * Z) : bool := (fst a =? fst b) && (snd a =? snd b).

(* every rune boundary (and the end): the table lookup equals the direct scan *)
Definition lookup_all_ok (text : bytes) (ts : list lot) : bool :=
  forallb (fun off => match lookup ts off with
                      | Some lc => pair_eqb lc (linecol_utf16 text off)
                      | None => false end)
          (map (fun r => fst (fst r)) (runes text) ++ [Z.of_nat (length text)]).

(* (text, Go tables as ([start;first;hascols], cols), start offset (lines, cols), Go Advance result) *)
Definition linecol_ok (c : bytes * list (list Z * list Z) * (Z * Z) * (Z * Z)) : bool :=
  let '(text, gts, st, adv) := c in
  let ts := GenerateLineOffsetTables text in
  list_eqb lot_eqb ts (map lot_of gts) && lookup_all_ok text ts && pair_eqb (Advance st text) adv.
Definition check_linecol := mismatches linecol_ok.

(* ---- ChunkBuilder ---- *)
(* (original text, events (loc, name id, delta), final delta,
    Go: data, first name offset or -1, names ids, end state 6 fields, end has_name, final generated column, should ignore) *)
Definition builder_ok (c : bytes * list (Z * Z * bytes) * bytes * bytes * Z * list Z * list Z * bool * Z * bool) : bool :=
  let '(text, evs, fin, gdata, gfno, gnames, gend, gendh, gcolumn, gign) := c in
  let ts := GenerateLineOffsetTables text in
  match run_builder ts (bst0 true) evs with
  | None => false
  | Some b =>
    let '(data, fno, names, endst, fcol, ign) := GenerateChunk b fin in
    zlist_eqb data gdata
    && (match fno with Some o => o =? gfno | None => gfno =? -1 end)
    && zlist_eqb names gnames
    && zlist_eqb [gline endst; gcol endst; sidx endst; oline endst; ocol endst; oname endst] gend
    && Bool.eqb (has_name endst) gendh
    && (fcol =? gcolumn) && Bool.eqb ign gign
  end.
Definition check_builder := mismatches builder_ok.

(* ---- the joining loop of generateSourceMapForChunk ---- *)
(* one result: (data, first name offset or -1, #names, end state 6 fields, end has_name,
    final column, should ignore, offset (lines, cols), source index, is null entry) *)
Definition mkjres (c : bytes * Z * Z * list Z * bool * Z * bool * (Z * Z) * Z * bool) : jres :=
  let '(data, fno, nn, e, eh, fcol, ign, off, src, null) := c in
  mkJres data (if fno <? 0 then None else Some fno) nn (mkst e eh) fcol ign off src null.

(* (results, Go: SourceMapPieces.Mappings) *)
Definition joinall_ok (c : list (bytes * Z * Z * list Z * bool * Z * bool * (Z * Z) * Z * bool) * bytes) : bool :=
  let '(rs, gb) := c in
  match join_all (map mkjres rs) with Some m => zlist_eqb m gb | None => false end.
Definition check_joinall := mismatches joinall_ok.

(* ---- ChunkBuilder with an input source map ---- *)
(* (original text, input mappings as 6-lists, input Names ids, events, final delta,
    Go: data, first name offset or -1, names ids, end state 6 fields, end has_name, final column, should ignore) *)
Definition builderin_ok (c : bytes * list (list Z) * list Z * list (Z * Z * bytes) * bytes * bytes * Z * list Z * list Z * bool * Z * bool) : bool :=
  let '(text, ms, inames, evs, fin, gdata, gfno, gnames, gend, gendh, gcolumn, gign) := c in
  let ts := GenerateLineOffsetTables text in
  let ism := Some (map mkmap ms, inames) in
  match run_builder_g ism ts (bst0_g ism) evs with
  | None => false
  | Some b =>
    let '(data, fno, names, endst, fcol, ign) := GenerateChunk b fin in
    zlist_eqb data gdata
    && (match fno with Some o => o =? gfno | None => gfno =? -1 end)
    && zlist_eqb names gnames
    && zlist_eqb [gline endst; gcol endst; sidx endst; oline endst; ocol endst; oname endst] gend
    && Bool.eqb (has_name endst) gendh
    && (fcol =? gcolumn) && Bool.eqb ign gign
  end.
Definition check_builderin := mismatches builderin_ok.

