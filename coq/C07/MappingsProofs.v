From V Require Import Common.Base C07.Vlq C07.SpecMap C07.Mappings C07.VlqProofs.

(* expected absolute mappings of a builder event list *)
Fixpoint abs_of (ops : list op) (line : Z) : list abs :=
  match ops with
  | [] => []
  | ONewline :: r => abs_of r (line + 1)
  | OMap gc si ol oc nm :: r => mkAbs line gc (Some (si, ol, oc)) nm :: abs_of r line
  | ONull gc :: r => mkAbs line gc None None :: abs_of r line
  end.

Definition push_field (s : dst) (v : Z) : dst :=
  mkDst (d_line s) (d_col s) (d_src s) (d_oline s) (d_ocol s) (d_name s)
        (v :: d_fields s) 0 0 false (d_out s) (d_err s).

Lemma signed_of_to_vlq v : signed_of (to_vlq v) = v.
Proof.
  unfold signed_of, to_vlq. destruct (Z.ltb_spec v 0).
  - replace (Z.even (2 * - v + 1)) with false; [lia|].
    symmetry. replace (2 * - v + 1) with (1 + 2 * - v) by lia. rewrite Z.even_add_mul_2. reflexivity.
  - replace (Z.even (2 * v)) with true; [lia|].
    symmetry. rewrite Z.even_mul. reflexivity.
Qed.

Lemma spec_digit_char d : 0 <= d < 64 -> spec_digit (b64_char d) = Some d.
Proof. intro H. rewrite <- b64_index_is_spec. apply b64_index_char, H. Qed.

Lemma char_not_sep_sweep :
  forallb (fun n => let c := b64_char (Z.of_nat n) in
                    negb (c =? 59) && negb (c =? 44) && negb (c =? 0) && negb (c =? 34))
          (seq 0 64) = true.
Proof. vm_compute. reflexivity. Qed.

Lemma char_not_sep d : 0 <= d < 64 ->
  let c := b64_char d in c <> 59 /\ c <> 44 /\ c <> 0 /\ c <> 34.
Proof.
  intro Hd. pose proof char_not_sep_sweep as H. rewrite forallb_forall in H.
  specialize (H (Z.to_nat d)). rewrite Z2Nat.id in H by lia.
  specialize (H ltac:(apply in_seq; lia)). simpl in H. cbv zeta. lia.
Qed.

Lemma spec_step_digit s d : 0 <= d < 64 ->
  spec_step s (b64_char d) =
    let acc := d_acc s + (d mod 32) * 2 ^ (d_shift s) in
    if d <? 32 then
      mkDst (d_line s) (d_col s) (d_src s) (d_oline s) (d_ocol s) (d_name s)
            (signed_of acc :: d_fields s) 0 0 false (d_out s) (d_err s)
    else
      mkDst (d_line s) (d_col s) (d_src s) (d_oline s) (d_ocol s) (d_name s)
            (d_fields s) acc (d_shift s + 5) true (d_out s) (d_err s).
Proof.
  intro Hd. unfold spec_step. destruct (char_not_sep d Hd) as (H1 & H2 & _).
  replace (b64_char d =? 59) with false by lia.
  replace (b64_char d =? 44) with false by lia.
  rewrite spec_digit_char by exact Hd. reflexivity.
Qed.

Lemma spec_run_enc_loop : forall fuel vlq s,
  (0 < fuel)%nat -> 0 <= vlq < 2 ^ (5 * Z.of_nat fuel) -> 0 <= d_shift s ->
  spec_run s (enc_loop fuel vlq) =
    mkDst (d_line s) (d_col s) (d_src s) (d_oline s) (d_ocol s) (d_name s)
          (signed_of (d_acc s + vlq * 2 ^ d_shift s) :: d_fields s) 0 0 false (d_out s) (d_err s).
Proof.
  induction fuel as [|f IH]; intros vlq s Hf Hv Hs; [lia|].
  cbn [enc_loop]. rewrite pow5 in Hv.
  assert (Hd : 0 <= vlq mod 32 < 32) by (apply Z.mod_pos_bound; lia).
  destruct (Z.eqb_spec (vlq / 32) 0) as [Hz|Hnz].
  - unfold spec_run. cbn [fold_left]. rewrite spec_step_digit by lia. cbv zeta.
    replace (vlq mod 32 <? 32) with true by lia.
    rewrite Z.mod_mod by lia. replace (vlq mod 32) with vlq by lia. reflexivity.
  - unfold spec_run. cbn [fold_left]. rewrite spec_step_digit by lia. cbv zeta.
    replace (vlq mod 32 + 32 <? 32) with false by lia.
    replace ((vlq mod 32 + 32) mod 32) with (vlq mod 32) by lia.
    assert (Hq : 0 <= vlq / 32 < 2 ^ (5 * Z.of_nat f)) by lia.
    assert (Hfpos : (0 < f)%nat) by (destruct f; [simpl in Hq; lia | lia]).
    fold (spec_run (mkDst (d_line s) (d_col s) (d_src s) (d_oline s) (d_ocol s) (d_name s)
            (d_fields s) (d_acc s + vlq mod 32 * 2 ^ d_shift s) (d_shift s + 5) true (d_out s) (d_err s))
            (enc_loop f (vlq / 32))).
    rewrite IH by (cbn; try assumption; lia). cbn [d_line d_col d_src d_oline d_ocol d_name d_fields d_acc d_shift d_out d_err].
    f_equal. f_equal. f_equal.
    rewrite Z.pow_add_r by lia. change (2 ^ 5) with 32.
    pose proof (Z.div_mod vlq 32 ltac:(lia)). nia.
Qed.

Lemma spec_run_encodeVLQ s v :
  d_acc s = 0 -> d_shift s = 0 -> spec_run s (encodeVLQ v) = push_field s v.
Proof.
  intros Ha Hs. unfold encodeVLQ. rewrite spec_run_enc_loop; try lia.
  - rewrite Ha, Hs, Z.pow_0_r, Z.mul_1_r, Z.add_0_l, signed_of_to_vlq. reflexivity.
  - split; [apply to_vlq_nonneg | apply log2_fuel, to_vlq_nonneg].
Qed.

Lemma spec_run_app s a b : spec_run s (a ++ b) = spec_run (spec_run s a) b.
Proof. unfold spec_run. apply fold_left_app. Qed.

(* the last byte of an encoded VLQ is a base64 digit *)
Lemma enc_loop_last fuel vlq dflt : (0 < fuel)%nat ->
  exists d, 0 <= d < 64 /\ last (enc_loop fuel vlq) dflt = b64_char d.
Proof.
  revert vlq; induction fuel as [|f IH]; intros vlq Hf; [lia|].
  cbn [enc_loop].
  assert (Hd : 0 <= vlq mod 32 < 32) by (apply Z.mod_pos_bound; lia).
  destruct (Z.eqb_spec (vlq / 32) 0).
  - exists (vlq mod 32). split; [lia|reflexivity].
  - destruct f as [|f'].
    + cbn [enc_loop]. exists (vlq mod 32 + 32). split; [lia|reflexivity].
    + destruct (IH (vlq / 32) ltac:(lia)) as (d & Hd1 & Hd2).
      exists d. split; [exact Hd1|].
      pose proof (enc_loop_nonempty (S f') (vlq / 32) ltac:(lia)) as Hne.
      destruct (enc_loop (S f') (vlq / 32)) eqn:E; [congruence|].
      rewrite <- Hd2. reflexivity.
Qed.

Lemma last_app_nonempty {A} (a b : list A) d : b <> [] -> last (a ++ b) d = last b d.
Proof.
  intro Hb. induction a as [|x a IH]; [reflexivity|].
  cbn [app]. destruct (a ++ b) eqn:E.
  - destruct a; simpl in E; [subst; congruence|discriminate].
  - rewrite <- IH. reflexivity.
Qed.

Lemma encodeVLQ_last v dflt :
  exists d, 0 <= d < 64 /\ last (encodeVLQ v) dflt = b64_char d.
Proof. unfold encodeVLQ. apply enc_loop_last. lia. Qed.

(* decoder state in step with the builder's prevState, nothing pending *)
Definition synced (prev : state) (s : dst) : Prop :=
  d_fields s = [] /\ d_mid s = false /\ d_acc s = 0 /\ d_shift s = 0 /\ d_err s = false /\
  d_line s = gline prev /\ d_col s = gcol prev /\ d_src s = sidx prev /\
  d_oline s = oline prev /\ d_ocol s = ocol prev /\ d_name s = oname prev.

Definition J (lastByte : Z) (prev : state) (s : dst) : Prop :=
  if (lastByte =? 0) || (lastByte =? 59) then synced prev s
  else lastByte <> 34 /\ d_mid s = false /\ synced prev (finish_segment s).

Lemma finish_synced prev s : synced prev s -> finish_segment s = s.
Proof.
  intros (Hf & Hm & _). unfold finish_segment. rewrite Hm, Hf. reflexivity.
Qed.

Lemma emit_sound : forall ops lastByte prev s,
  J lastByte prev s ->
  let '(b, lb, st) := emit ops lastByte prev in
  J lb st (spec_run s b) /\
  d_out (finish_segment (spec_run s b)) = rev (abs_of ops (gline prev)) ++ d_out (finish_segment s).
Proof.
  induction ops as [|o ops IH]; intros lastByte prev s HJ.
  - cbn [emit]. split; [exact HJ|reflexivity].
  - destruct o as [|gc si ol oc nm|gc].
    + (* newline *)
      cbn [emit abs_of].
      set (prev' := mkState (gline prev + 1) 0 (sidx prev) (oline prev) (ocol prev) (oname prev) (has_name prev)).
      set (s' := spec_step s SEMI).
      assert (HJ' : J SEMI prev' s' /\ d_out (finish_segment s') = d_out (finish_segment s)).
      { unfold J in *. cbn. subst s'. unfold spec_step, SEMI. cbn.
        assert (Hsy : synced prev (finish_segment s)).
        { destruct ((lastByte =? 0) || (lastByte =? 59)).
          - rewrite (finish_synced prev) by exact HJ. exact HJ.
          - tauto. }
        destruct Hsy as (H1 & H2 & H3 & H4 & H5 & H6 & H7 & H8 & H9 & H10 & H11).
        split.
        - unfold synced, prev'. cbn. repeat split; try reflexivity; try assumption; lia.
        - unfold finish_segment at 1. cbn. reflexivity. }
      destruct HJ' as [HJ' Hout'].
      specialize (IH SEMI prev' s' HJ').
      destruct (emit ops SEMI prev') as [[b lb] st].
      destruct IH as [IH1 IH2].
      change (spec_run s (SEMI :: b)) with (spec_run s' b).
      split; [exact IH1|]. rewrite IH2, Hout'. subst prev'. cbn. reflexivity.
    + (* mapping *)
      cbn [emit abs_of]. unfold next_state.
      set (cur := mkState (gline prev) gc si ol oc
                          (match nm with Some n => n | None => 0 end)
                          (match nm with Some _ => true | None => false end)).
      set (prev' := match nm with Some _ => cur
                    | None => mkState (gline prev) gc si ol oc (oname prev) false end).
      set (seg := fst (appendMapping lastByte prev cur false)).
      (* state after the optional separator *)
      set (s1 := if negb (lastByte =? 0) && negb (lastByte =? SEMI) && negb (lastByte =? QUOTE)
                 then finish_segment s else s).
      assert (Hs1 : synced prev s1 /\ d_out s1 = d_out (finish_segment s)).
      { unfold J in HJ. subst s1. unfold SEMI, QUOTE.
        destruct (Z.eqb_spec lastByte 0); [cbn; split; [exact HJ|rewrite (finish_synced prev) by exact HJ; reflexivity]|].
        destruct (Z.eqb_spec lastByte 59); [cbn; split; [exact HJ|rewrite (finish_synced prev) by exact HJ; reflexivity]|].
        cbn in HJ. destruct HJ as (Hq & Hm & Hsy).
        replace (lastByte =? 34) with false by lia. cbn. split; [exact Hsy|reflexivity]. }
      destruct Hs1 as [Hsy Hout1].
      destruct Hsy as (H1 & H2 & H3 & H4 & H5 & H6 & H7 & H8 & H9 & H10 & H11).
      (* run the segment *)
      assert (Hrun : exists s2,
                spec_run s seg = s2 /\ d_mid s2 = false /\ d_acc s2 = 0 /\ d_shift s2 = 0 /\
                d_err s2 = false /\
                synced prev' (finish_segment s2) /\
                d_out (finish_segment s2) = mkAbs (gline prev) gc (Some (si, ol, oc)) nm :: d_out s1).
      { eexists. split; [reflexivity|].
        assert (Hsep : spec_run s (if negb (lastByte =? 0) && negb (lastByte =? SEMI) && negb (lastByte =? QUOTE)
                                   then [COMMA] else []) = s1).
        { subst s1. destruct (negb (lastByte =? 0) && negb (lastByte =? SEMI) && negb (lastByte =? QUOTE));
            [reflexivity|reflexivity]. }
        subst seg. unfold appendMapping. cbn [negb].
        destruct nm as [n|]; cbn [has_name cur fst].
        - subst cur. cbn [has_name gcol sidx oline ocol oname fst].
          rewrite !spec_run_app.
          match goal with |- context [spec_run s ?x] => replace (spec_run s x) with s1 by (symmetry; exact Hsep) end.
          rewrite (spec_run_encodeVLQ s1) by assumption.
          rewrite (spec_run_encodeVLQ (push_field _ _)) by reflexivity.
          rewrite (spec_run_encodeVLQ (push_field _ _)) by reflexivity.
          rewrite (spec_run_encodeVLQ (push_field _ _)) by reflexivity.
          rewrite (spec_run_encodeVLQ (push_field _ _)) by reflexivity.
          unfold push_field. cbn. rewrite H1, H5. cbn.
          unfold synced, prev'. cbn.
          rewrite H6, H7, H8, H9, H10, ?H11.
          repeat split; try reflexivity; try lia; repeat f_equal; lia.
        - subst cur. cbn [has_name gcol sidx oline ocol oname fst].
          rewrite !spec_run_app.
          match goal with |- context [spec_run s ?x] => replace (spec_run s x) with s1 by (symmetry; exact Hsep) end.
          rewrite (spec_run_encodeVLQ s1) by assumption.
          rewrite (spec_run_encodeVLQ (push_field _ _)) by reflexivity.
          rewrite (spec_run_encodeVLQ (push_field _ _)) by reflexivity.
          rewrite (spec_run_encodeVLQ (push_field _ _)) by reflexivity.
          unfold push_field. cbn. rewrite H1, H5. cbn.
          unfold synced, prev'. cbn.
          rewrite H6, H7, H8, H9, H10, ?H11.
          repeat split; try reflexivity; try lia; repeat f_equal; lia. }
      destruct Hrun as (s2 & Hs2 & Hm2 & Ha2 & Hsh2 & He2 & Hsy2 & Hout2).
      (* last byte of the segment is a base64 digit *)
      assert (Hlast : exists d, 0 <= d < 64 /\ last seg lastByte = b64_char d).
      { subst seg. unfold appendMapping.
        destruct nm as [n|]; cbn [has_name cur fst negb].
        - rewrite !app_assoc. rewrite last_app_nonempty by apply encodeVLQ_nonempty. apply encodeVLQ_last.
        - rewrite !app_assoc. rewrite last_app_nonempty by apply encodeVLQ_nonempty. apply encodeVLQ_last. }
      destruct Hlast as (d & Hd & Hlast).
      assert (HJ2 : J (last seg lastByte) prev' s2).
      { unfold J. rewrite Hlast. destruct (char_not_sep d Hd) as (C1 & C2 & C3 & C4).
        replace (b64_char d =? 0) with false by lia.
        replace (b64_char d =? 59) with false by lia. cbn [orb].
        split; [assumption|split; assumption]. }
      specialize (IH (last seg lastByte) prev' s2 HJ2).
      replace (gline prev') with (gline prev) in IH by (subst prev' cur; destruct nm; reflexivity).
      destruct (emit ops (last seg lastByte) prev') as [[b lb] st].
      destruct IH as [IH1 IH2].
      rewrite spec_run_app, Hs2. split; [exact IH1|].
      rewrite IH2, Hout2, Hout1. cbn [rev]. rewrite <- app_assoc. reflexivity.
    + (* mapping without original position *)
      cbn [emit abs_of].
      set (prev' := null_state prev gc).
      set (seg := null_seg lastByte prev gc).
      set (s1 := if negb (lastByte =? 0) && negb (lastByte =? SEMI) && negb (lastByte =? QUOTE)
                 then finish_segment s else s).
      assert (Hs1 : synced prev s1 /\ d_out s1 = d_out (finish_segment s)).
      { unfold J in HJ. subst s1. unfold SEMI, QUOTE.
        destruct (Z.eqb_spec lastByte 0); [cbn; split; [exact HJ|rewrite (finish_synced prev) by exact HJ; reflexivity]|].
        destruct (Z.eqb_spec lastByte 59); [cbn; split; [exact HJ|rewrite (finish_synced prev) by exact HJ; reflexivity]|].
        cbn in HJ. destruct HJ as (Hq & Hm & Hsy).
        replace (lastByte =? 34) with false by lia. cbn. split; [exact Hsy|reflexivity]. }
      destruct Hs1 as [Hsy Hout1].
      destruct Hsy as (H1 & H2 & H3 & H4 & H5 & H6 & H7 & H8 & H9 & H10 & H11).
      assert (Hrun : exists s2,
                spec_run s seg = s2 /\ d_mid s2 = false /\ d_acc s2 = 0 /\ d_shift s2 = 0 /\
                d_err s2 = false /\
                synced prev' (finish_segment s2) /\
                d_out (finish_segment s2) = mkAbs (gline prev) gc None None :: d_out s1).
      { eexists. split; [reflexivity|].
        assert (Hsep : spec_run s (if negb (lastByte =? 0) && negb (lastByte =? SEMI) && negb (lastByte =? QUOTE)
                                   then [COMMA] else []) = s1).
        { subst s1. destruct (negb (lastByte =? 0) && negb (lastByte =? SEMI) && negb (lastByte =? QUOTE));
            [reflexivity|reflexivity]. }
        subst seg. unfold null_seg, appendMapping. cbn [has_name fst gcol negb].
        rewrite !spec_run_app.
        match goal with |- context [spec_run s ?x] => replace (spec_run s x) with s1 by (symmetry; exact Hsep) end.
        rewrite (spec_run_encodeVLQ s1) by assumption.
        unfold push_field. cbn. rewrite H1, H5. cbn.
        unfold synced, prev', null_state. cbn.
        rewrite H6, H7, H8, H9, H10, ?H11.
        repeat split; try reflexivity; try lia; repeat f_equal; lia. }
      destruct Hrun as (s2 & Hs2 & Hm2 & Ha2 & Hsh2 & He2 & Hsy2 & Hout2).
      assert (Hlast : exists d, 0 <= d < 64 /\ last seg lastByte = b64_char d).
      { subst seg. unfold null_seg, appendMapping. cbn [has_name fst negb].
        rewrite last_app_nonempty by apply encodeVLQ_nonempty. apply encodeVLQ_last. }
      destruct Hlast as (d & Hd & Hlast).
      assert (HJ2 : J (last seg lastByte) prev' s2).
      { unfold J. rewrite Hlast. destruct (char_not_sep d Hd) as (C1 & C2 & C3 & C4).
        replace (b64_char d =? 0) with false by lia.
        replace (b64_char d =? 59) with false by lia. cbn [orb].
        split; [assumption|split; assumption]. }
      specialize (IH (last seg lastByte) prev' s2 HJ2).
      replace (gline prev') with (gline prev) in IH by reflexivity.
      destruct (emit ops (last seg lastByte) prev') as [[b lb] st].
      destruct IH as [IH1 IH2].
      rewrite spec_run_app, Hs2. split; [exact IH1|].
      rewrite IH2, Hout2, Hout1. cbn [rev]. rewrite <- app_assoc. reflexivity.
Qed.

Lemma J_finish_ok lb st s : J lb st s -> d_err (finish_segment s) = false.
Proof.
  unfold J. destruct ((lb =? 0) || (lb =? 59)).
  - intro H. rewrite (finish_synced st) by exact H. apply H.
  - intros (_ & _ & H). apply H.
Qed.

(* The mappings string written by the builder denotes, under the source-map v3
   semantics, exactly the list of mappings that were added, for every event list. *)
Lemma mappings_roundtrip_all ops : spec_decode (emit_bytes ops) = Some (abs_of ops 0).
Proof.
  unfold spec_decode, emit_bytes.
  assert (HJ0 : J 0 state0 dst0).
  { unfold J. cbn. unfold synced. cbn. repeat split; reflexivity. }
  pose proof (emit_sound ops 0 state0 dst0 HJ0) as H.
  destruct (emit ops 0 state0) as [[b lb] st]. cbn [fst].
  destruct H as [H1 H2].
  rewrite (J_finish_ok _ _ _ H1). rewrite H2. cbn.
  rewrite app_nil_r, rev_involutive. reflexivity.
Qed.
