(* C07 specification of what a ChunkBuilder chunk must contain, written from the
   meaning of a source map (not from the builder's code):

     every recorded (= not suppressed as a duplicate) AddSourceMapping(loc, name,
     output) call yields ONE mapping
        (generated line, generated UTF-16 column of the END of the output text
         printed so far)  |->  (UTF-16 line/column of byte offset [loc] in the
         original text, index of [name] among the distinct names in order of
         first use)
     and, when coverLinesWithoutMappings is on and a mapping exists already,
     a copy of the most recent mapping's original position at column 0 of
        (1) every generated line that is left (a line break is printed) without
            having received a mapping, and
        (2) the line of a new mapping that is not at column 0 when that line
            has no mapping yet.

   The generated position is measured with the same direct scan that specifies
   original positions ([spec_linecol] of LineCol.v: CR, LF, CRLF, U+2028,
   U+2029 are line breaks, astral characters count two columns), applied to
   each portion of output between two recorded calls, continuing the count
   (the builder scans the output incrementally, so a CR that ends one portion
   is a line break even if the next portion starts with LF, and a UTF-8
   sequence split between two portions is decoded as the two halves; printers
   never cut there, and for the first portion [adv (0,0) t] is literally
   [linecol_utf16 t (length t)]).

   The result is given as an abstract event list ([op]: line break / mapping at
   a column of the current line); [abs_of ops 0] is its list of absolute
   mappings. *)
From V Require Import Common.Base Common.Utf8 C07.Vlq C07.SpecMap C07.Mappings C07.LineCol C07.MappingsProofs.

(* UTF-16 (line, column) reached at the end of text [t] when counting starts at [p] *)
Definition adv (p : Z * Z) (t : bytes) : Z * Z :=
  spec_linecol (runes t) t (Z.of_nat (length t)) (fst p) (snd p).

Record sw := mkSw {
  w_line : Z; w_col : Z;            (* generated position of the end of the measured output *)
  w_pend : bytes;                   (* output printed since (calls suppressed as duplicates) *)
  w_len : Z;                        (* length of the measured output *)
  w_ploc : Z; w_plen : Z; w_pname : Z;   (* the last recorded call: loc, len(output), name *)
  w_names : list Z;                 (* distinct names, in order of first use *)
  w_last : option (Z * Z);          (* original (line, column) of the most recent mapping *)
  w_has : bool                      (* the current generated line has a mapping *)
}.

Definition sw0 : sw := mkSw 0 0 [] 0 (-1) 0 0 [] None false.

(* the column-0 copy of the most recent mapping *)
Definition cover_op (cover : bool) (last : option (Z * Z)) : list op :=
  if cover then match last with Some (ol, oc) => [OMap 0 0 ol oc None] | None => [] end else [].

(* [k] line breaks are crossed; the first line left has a mapping iff [has] *)
Fixpoint breaks_ops (k : nat) (cov : list op) (has : bool) : list op :=
  match k with
  | O => []
  | S k' => (if has then [] else cov) ++ ONewline :: breaks_ops k' cov false
  end.

Fixpoint name_pos (id : Z) (l : list Z) (i : Z) : option Z :=
  match l with
  | [] => None
  | x :: r => if x =? id then Some i else name_pos id r (i + 1)
  end.

(* name table after using [name] (0 = no name), and the index recorded *)
Definition name_index (names : list Z) (name : Z) : list Z * option Z :=
  if name =? 0 then (names, None)
  else match name_pos name names 0 with
       | Some i => (names, Some i)
       | None => (names ++ [name], Some (Z.of_nat (length names)))
       end.

(* one AddSourceMapping(loc, name, output ++ delta) call *)
Definition sp_event (text : bytes) (cover : bool) (w : sw) (loc name : Z) (delta : bytes) : sw * list op :=
  let newlen := w_len w + Z.of_nat (length (w_pend w)) + Z.of_nat (length delta) in
  if (loc =? w_ploc w) && ((w_plen w =? newlen) || (w_pname w =? name))
  then (mkSw (w_line w) (w_col w) (w_pend w ++ delta) (w_len w) (w_ploc w) (w_plen w) (w_pname w)
             (w_names w) (w_last w) (w_has w), [])
  else
    let t := w_pend w ++ delta in
    let lc := adv (w_line w, w_col w) t in
    let k := Z.to_nat (fst lc - w_line w) in
    let cov := cover_op cover (w_last w) in
    let has' := match k with O => w_has w | S _ => false end in
    let orig := linecol_utf16 text loc in
    let ni := name_index (w_names w) name in
    (mkSw (fst lc) (snd lc) [] (w_len w + Z.of_nat (length t)) loc newlen name
          (fst ni) (Some orig) true,
     breaks_ops k cov (w_has w)
       ++ (if negb has' && (0 <? snd lc) then cov else [])
       ++ [OMap (snd lc) 0 (fst orig) (snd orig) (snd ni)]).

Fixpoint sp_run (text : bytes) (cover : bool) (w : sw) (evs : list (Z * Z * bytes)) : sw * list op :=
  match evs with
  | [] => (w, [])
  | (loc, name, delta) :: r =>
    let w1 := sp_event text cover w loc name delta in
    let w2 := sp_run text cover (fst w1) r in
    (fst w2, snd w1 ++ snd w2)
  end.

(* GenerateChunk(output ++ fin): the rest of the output is measured *)
Definition sp_final (cover : bool) (w : sw) (fin : bytes) : Z * Z * list op :=
  let t := w_pend w ++ fin in
  let lc := adv (w_line w, w_col w) t in
  (fst lc, snd lc, breaks_ops (Z.to_nat (fst lc - w_line w)) (cover_op cover (w_last w)) (w_has w)).

(* the events of the chunk, the name table, the final generated column *)
Definition builder_spec (text : bytes) (cover : bool) (evs : list (Z * Z * bytes)) (fin : bytes)
  : list op * list Z * Z :=
  let r := sp_run text cover sw0 evs in
  let f := sp_final cover (fst r) fin in
  (snd r ++ snd f, w_names (fst r), snd (fst f)).

Definition builder_spec_ops text cover evs fin : list op := fst (fst (builder_spec text cover evs fin)).
