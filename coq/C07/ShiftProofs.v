(* C07: SourceMapPieces.Finalize moves exactly the right generated columns.

   For ALL event lists (sorted within each line, as the builder guarantees) and
   ALL well-formed shift lists, running the byte-level model [Finalize] of
   Shift.v on the emitted "mappings" string gives the "mappings" string of the
   events in which every mapping at generated position (line, col) has been
   moved to column  col + delta_at shifts line col.

   No side condition about placeholders is needed for this statement (see the
   remark before [finalize_shift]). *)
From V Require Import Common.Base C07.Vlq C07.SpecMap C07.Mappings C07.VlqProofs
  C07.MappingsProofs C07.JoinProofs C07.Shift C07.ShiftAux.

(* ---------------- specification ---------------- *)

Definition sh_before (s : shift) : lc := fst s.
Definition sh_after (s : shift) : lc := snd s.
(* shift.After.Columns - shift.Before.Columns *)
Definition sh_delta (s : shift) : Z := snd (snd s) - snd (fst s).

(* Befores strictly increasing in (line, column) order *)
Fixpoint sorted_sh (l : list shift) : Prop :=
  match l with
  | a :: ((b :: _) as r) => comes_before (sh_before a) (sh_before b) = true /\ sorted_sh r
  | _ => True
  end.

Definition same_line (s : shift) : Prop := fst (sh_before s) = fst (sh_after s).

(* well-formed shift list, as computed by substituteFinalPaths: it starts with
   ((0,0),(0,0)); a substitution contains no newline, so Before and After are on
   the same line; Befores are strictly increasing.  (Non-negativity of the
   columns is not needed.) *)
Definition shifts_wf (sh : list shift) : Prop :=
  match sh with
  | [] => False
  | s0 :: _ => s0 = ((0, 0), (0, 0)) /\ Forall same_line sh /\ sorted_sh sh
  end.

(* does shift s apply to generated position (line, col)?  Its Before is
   strictly before the position (ComesBefore) and on the same line *)
Definition applies (s : shift) (line col : Z) : bool :=
  comes_before (sh_before s) (line, col) && (fst (sh_before s) =? line).

(* delta of the LAST applicable shift, [acc] if none *)
Fixpoint delta_acc (acc : Z) (sh : list shift) (line col : Z) : Z :=
  match sh with
  | [] => acc
  | s :: r => delta_acc (if applies s line col then sh_delta s else acc) r line col
  end.

Definition delta_at (sh : list shift) (line col : Z) : Z := delta_acc 0 sh line col.

(* events with every mapping's generated column moved by delta_at *)
Fixpoint shift_ops (sh : list shift) (ops : list op) (line : Z) : list op :=
  match ops with
  | [] => []
  | ONewline :: r => ONewline :: shift_ops sh r (line + 1)
  | OMap gc si ol oc nm :: r => OMap (gc + delta_at sh line gc) si ol oc nm :: shift_ops sh r line
  | ONull gc :: r => ONull (gc + delta_at sh line gc) :: shift_ops sh r line
  end.

(* generated columns within a line are non-decreasing, starting from [c]
   (same as sorted_ops of BuilderProofs.v, which the builder guarantees) *)
Fixpoint ops_sorted (ops : list op) (c : Z) : Prop :=
  match ops with
  | [] => True
  | ONewline :: r => ops_sorted r 0
  | OMap gc _ _ _ _ :: r => c <= gc /\ ops_sorted r gc
  | ONull gc :: r => c <= gc /\ ops_sorted r gc
  end.

(* columns within a line are non-decreasing and >= 0 *)
Definition ops_wf (ops : list op) : Prop := ops_sorted ops 0.

(* ---------------- facts about positions and delta_acc ---------------- *)

Lemma cb_spec a b : comes_before a b = true <-> (fst a < fst b \/ (fst a = fst b /\ snd a < snd b)).
Proof. unfold comes_before. lia. Qed.

Lemma cb_false a b : comes_before a b = false <-> ~ (fst a < fst b \/ (fst a = fst b /\ snd a < snd b)).
Proof. unfold comes_before. lia. Qed.

Lemma cb_trans a b c : comes_before a b = true -> comes_before b c = true -> comes_before a c = true.
Proof. rewrite !cb_spec. lia. Qed.

Lemma sorted_sh_tail a r : sorted_sh (a :: r) -> sorted_sh r.
Proof. destruct r as [|b r]; cbn; [trivial|]. intros [_ H]. exact H. Qed.

Lemma sorted_sh_all a r : sorted_sh (a :: r) ->
  Forall (fun b => comes_before (sh_before a) (sh_before b) = true) r.
Proof.
  revert a. induction r as [|b r IH]; intros a H; [constructor|].
  destruct H as [H1 H2]. constructor; [exact H1|].
  specialize (IH b H2). eapply Forall_impl; [|exact IH].
  intros c Hc. cbv beta in Hc. eapply cb_trans; eassumption.
Qed.

Lemma sorted_sh_app_r a b : sorted_sh (a ++ b) -> sorted_sh b.
Proof.
  induction a as [|x a IH]; [trivial|]. intro H. apply IH. eapply sorted_sh_tail. exact H.
Qed.

Lemma sorted_sh_app_l a b : sorted_sh (a ++ b) -> sorted_sh a.
Proof.
  induction a as [|x a IH]; [cbn; trivial|]. intro H.
  destruct a as [|y a]; [cbn; trivial|].
  cbn [app] in *. destruct H as [H1 H2]. split; [exact H1|]. apply IH. exact H2.
Qed.

Lemma delta_acc_app acc a b l c :
  delta_acc acc (a ++ b) l c = delta_acc (delta_acc acc a l c) b l c.
Proof. revert acc. induction a as [|x a IH]; intro acc; [reflexivity|]. cbn [app delta_acc]. apply IH. Qed.

Lemma delta_acc_none acc b l c :
  Forall (fun s => applies s l c = false) b -> delta_acc acc b l c = acc.
Proof.
  revert acc. induction b as [|x b IH]; intros acc H; [reflexivity|].
  inversion H as [|? ? Hx Hb]; subst. cbn [delta_acc]. rewrite Hx. apply IH. exact Hb.
Qed.

(* shifts whose Before is not before (line, gc), and everything after them in a
   sorted list, do not apply at (line, gc) *)
Lemma rest_not_applies rest line gc :
  sorted_sh rest ->
  match rest with [] => True | s1 :: _ => comes_before (sh_before s1) (line, gc) = false end ->
  Forall (fun s => applies s line gc = false) rest.
Proof.
  destruct rest as [|s1 r]; [constructor|]. intros Hs H1.
  pose proof (sorted_sh_all _ _ Hs) as Hall.
  constructor.
  - unfold applies. rewrite H1. reflexivity.
  - eapply Forall_impl; [|exact Hall]. intros s Hlt. cbv beta in Hlt.
    unfold applies. apply andb_false_iff. left.
    apply cb_false. apply cb_false in H1. apply cb_spec in Hlt. cbn [fst snd] in *. lia.
Qed.

(* crossed shifts (all before (line, gc)) seen from a later line: none applies *)
Lemma popped_later_line popped line gc acc l' gc' :
  Forall (fun s => comes_before (sh_before s) (line, gc) = true) popped -> line < l' ->
  delta_acc acc popped l' gc' = acc.
Proof.
  intros H Hl. apply delta_acc_none. eapply Forall_impl; [|exact H].
  intros s Hs. cbv beta in Hs. apply cb_spec in Hs. cbn [fst snd] in Hs.
  unfold applies. apply andb_false_iff. right. lia.
Qed.

(* crossed shifts seen from the same line, at or after gc: the last one decides *)
Lemma popped_same_line : forall popped line gc acc gc' d,
  popped <> [] -> sorted_sh popped ->
  Forall (fun s => comes_before (sh_before s) (line, gc) = true) popped -> gc <= gc' ->
  delta_acc acc popped line gc' =
  if fst (sh_before (last popped d)) =? line then sh_delta (last popped d) else acc.
Proof.
  induction popped as [|a t IH]; intros line gc acc gc' d Hne Hs Hall Hg; [congruence|].
  inversion Hall as [|? ? Ha Ht]; subst.
  assert (Happ : applies a line gc' = (fst (sh_before a) =? line)).
  { unfold applies. apply cb_spec in Ha. cbn [fst snd] in Ha.
    replace (comes_before (sh_before a) (line, gc')) with true; [reflexivity|].
    symmetry. apply cb_spec. cbn [fst snd]. lia. }
  cbn [delta_acc]. rewrite Happ.
  destruct t as [|b t].
  - cbn [delta_acc last]. reflexivity.
  - rewrite (IH line gc _ gc' d) by (try discriminate; try assumption; eapply sorted_sh_tail; exact Hs).
    change (last (a :: b :: t) d) with (last (b :: t) d).
    destruct (fst (sh_before (last (b :: t) d)) =? line) eqn:E; [reflexivity|].
    (* the last crossed shift is on an earlier line, hence so is a *)
    assert (Hin : In (last (b :: t) d) (b :: t)).
    { clear. generalize b. induction t as [|c t IHt]; intro b0; [left; reflexivity|].
      change (last (b0 :: c :: t) d) with (last (c :: t) d). right. apply IHt. }
    pose proof (sorted_sh_all _ _ Hs) as Hlt. rewrite Forall_forall in Hlt, Ht.
    specialize (Hlt _ Hin). specialize (Ht _ Hin). cbv beta in Hlt, Ht.
    apply cb_spec in Hlt, Ht, Ha. cbn [fst snd] in *.
    destruct (fst (sh_before a) =? line) eqn:E2; [lia|reflexivity].
Qed.

(* ---------------- the crossing loop ---------------- *)

Lemma last_cons_default {A} (a : A) l d : last (a :: l) d = last l a.
Proof.
  revert a d. induction l as [|b l IH]; intros a d; [reflexivity|].
  change (last (a :: b :: l) d) with (last (b :: l) d).
  rewrite (IH b d), (IH b a). reflexivity.
Qed.

Lemma cross_spec gen : forall rest s0 fuel crossed,
  (length rest < fuel)%nat ->
  exists popped rest',
    rest = popped ++ rest' /\
    Forall (fun s => comes_before (sh_before s) gen = true) popped /\
    match rest' with [] => True | s1 :: _ => comes_before (sh_before s1) gen = false end /\
    cross fuel (s0 :: rest) gen crossed =
      (last popped s0 :: rest', crossed || match popped with [] => false | _ => true end).
Proof.
  induction rest as [|s1 r IH]; intros s0 fuel crossed Hf.
  - exists [], []. destruct fuel as [|f]; [cbn in Hf; lia|].
    cbn. rewrite orb_false_r. repeat split; constructor.
  - destruct fuel as [|f]; [cbn in Hf; lia|]. cbn [cross].
    change (fst s1) with (sh_before s1).
    destruct (comes_before (sh_before s1) gen) eqn:E.
    + destruct (IH s1 f true) as (popped & rest' & Hr & Hall & Hhd & Hc); [cbn in Hf; lia|].
      exists (s1 :: popped), rest'. rewrite Hc, Hr. rewrite last_cons_default.
      rewrite orb_true_r. cbn [orb]. repeat split; try assumption.
      constructor; assumption.
    + exists [], (s1 :: r). cbn [app last]. rewrite orb_false_r. repeat split; try assumption. constructor.
Qed.

(* ---------------- the event-level loop computes shift_ops ---------------- *)

(* loop invariant: for every position at or after the current one, the shifts
   already passed contribute exactly [pd] on the current line and 0 on later lines *)
Definition Inv (sh rest : list shift) (line c pd : Z) : Prop :=
  forall l' gc', ((l' = line /\ c <= gc') \/ line < l') ->
    delta_at sh l' gc' = delta_acc (if l' =? line then pd else 0) rest l' gc'.

Lemma fin_ops_spec sh : forall ops line c pd s0 rest,
  sorted_sh rest -> Forall same_line rest -> ops_sorted ops c -> Inv sh rest line c pd ->
  fin_ops ops line pd (s0 :: rest) = Some (shift_ops sh ops line).
Proof.
  induction ops as [|o ops IH]; intros line c pd s0 rest Hs Hsl Ho HI; [reflexivity|].
  destruct o as [|gc si ol oc nm|gc]; cbn [fin_ops shift_ops ops_sorted] in *.
  - (* newline *)
    rewrite (IH (line + 1) 0 0 s0 rest Hs Hsl Ho); [reflexivity|].
    intros l' gc' Hpos. rewrite (HI l' gc') by lia.
    replace (l' =? line) with false by lia. destruct (l' =? line + 1); reflexivity.
  - (* mapping *)
    destruct Ho as [Hc Ho].
    destruct (cross_spec (line, gc) rest s0 (length (s0 :: rest)) false) as
      (popped & rest' & Hr & Hall & Hhd & Hcross); [cbn [length]; lia|].
    rewrite Hcross. cbn [orb].
    assert (Hs' : sorted_sh rest') by (rewrite Hr in Hs; eapply sorted_sh_app_r; exact Hs).
    assert (Hsp : sorted_sh popped) by (rewrite Hr in Hs; eapply sorted_sh_app_l; exact Hs).
    assert (Hsl' : Forall same_line rest').
    { rewrite Hr in Hsl. apply Forall_app in Hsl. apply Hsl. }
    (* delta at this mapping *)
    assert (Hhere : forall gc', gc <= gc' ->
              delta_at sh line gc' = delta_acc (delta_acc pd popped line gc') rest' line gc').
    { intros gc' Hg. rewrite (HI line gc') by lia. rewrite Z.eqb_refl, Hr, delta_acc_app. reflexivity. }
    assert (Hlater : forall l' gc', line < l' -> delta_at sh l' gc' = delta_acc 0 rest' l' gc').
    { intros l' gc' Hl. rewrite (HI l' gc') by lia. replace (l' =? line) with false by lia.
      rewrite Hr, delta_acc_app, (popped_later_line popped line gc) by assumption. reflexivity. }
    assert (Hnow : delta_at sh line gc = delta_acc pd popped line gc).
    { rewrite Hhere by lia. apply delta_acc_none. apply rest_not_applies; assumption. }
    destruct popped as [|p1 pt].
    + (* no boundary crossed *)
      cbn [negb last]. cbn [delta_acc] in Hnow. rewrite Hnow.
      rewrite (IH line gc pd s0 rest' Hs' Hsl' Ho); [reflexivity|].
      intros l' gc' [[-> Hg]|Hl].
      * rewrite Hhere by lia. rewrite Z.eqb_refl. reflexivity.
      * rewrite Hlater by lia. replace (l' =? line) with false by lia. reflexivity.
    + (* crossed: the last crossed shift decides *)
      cbn [negb].
      set (s := last (p1 :: pt) s0) in *.
      assert (Hin : In s (p1 :: pt)).
      { subst s. clear. generalize p1. induction pt as [|c t IHt]; intro b0; [left; reflexivity|].
        change (last (b0 :: c :: t) s0) with (last (c :: t) s0). right. apply IHt. }
      assert (Hsame : same_line s).
      { rewrite Hr in Hsl. apply Forall_app in Hsl. destruct Hsl as [Hsl1 _].
        rewrite Forall_forall in Hsl1. apply Hsl1, Hin. }
      unfold same_line in Hsame. change (fst (snd s)) with (fst (sh_after s)).
      change (fst (fst s)) with (fst (sh_before s)).
      assert (Hpop : forall acc gc', gc <= gc' ->
                delta_acc acc (p1 :: pt) line gc' =
                if fst (sh_before s) =? line then sh_delta s else acc).
      { intros acc gc' Hg. subst s.
        apply (popped_same_line (p1 :: pt) line gc acc gc' s0); try assumption. discriminate. }
      rewrite Hpop in Hnow by lia.
      rewrite <- Hsame.
      destruct (fst (sh_before s) =? line) eqn:E; cbn [negb].
      * rewrite Z.eqb_refl. cbn [negb]. cbv zeta.
        change (snd (snd s) - snd (fst s)) with (sh_delta s). rewrite Hnow.
        rewrite (IH line gc (sh_delta s) s rest' Hs' Hsl' Ho); [reflexivity|].
        intros l' gc' [[-> Hg]|Hl].
        -- rewrite Hhere by lia. rewrite Hpop by lia. rewrite Z.eqb_refl. reflexivity.
        -- rewrite Hlater by lia. replace (l' =? line) with false by lia. reflexivity.
      * rewrite Hnow.
        rewrite (IH line gc pd s rest' Hs' Hsl' Ho); [reflexivity|].
        intros l' gc' [[-> Hg]|Hl].
        -- rewrite Hhere by lia. rewrite Hpop by lia. rewrite Z.eqb_refl. reflexivity.
        -- rewrite Hlater by lia. replace (l' =? line) with false by lia. reflexivity.
  - (* mapping without original position: same argument *)
    destruct Ho as [Hc Ho].
    destruct (cross_spec (line, gc) rest s0 (length (s0 :: rest)) false) as
      (popped & rest' & Hr & Hall & Hhd & Hcross); [cbn [length]; lia|].
    rewrite Hcross. cbn [orb].
    assert (Hs' : sorted_sh rest') by (rewrite Hr in Hs; eapply sorted_sh_app_r; exact Hs).
    assert (Hsp : sorted_sh popped) by (rewrite Hr in Hs; eapply sorted_sh_app_l; exact Hs).
    assert (Hsl' : Forall same_line rest').
    { rewrite Hr in Hsl. apply Forall_app in Hsl. apply Hsl. }
    (* delta at this mapping *)
    assert (Hhere : forall gc', gc <= gc' ->
              delta_at sh line gc' = delta_acc (delta_acc pd popped line gc') rest' line gc').
    { intros gc' Hg. rewrite (HI line gc') by lia. rewrite Z.eqb_refl, Hr, delta_acc_app. reflexivity. }
    assert (Hlater : forall l' gc', line < l' -> delta_at sh l' gc' = delta_acc 0 rest' l' gc').
    { intros l' gc' Hl. rewrite (HI l' gc') by lia. replace (l' =? line) with false by lia.
      rewrite Hr, delta_acc_app, (popped_later_line popped line gc) by assumption. reflexivity. }
    assert (Hnow : delta_at sh line gc = delta_acc pd popped line gc).
    { rewrite Hhere by lia. apply delta_acc_none. apply rest_not_applies; assumption. }
    destruct popped as [|p1 pt].
    + (* no boundary crossed *)
      cbn [negb last]. cbn [delta_acc] in Hnow. rewrite Hnow.
      rewrite (IH line gc pd s0 rest' Hs' Hsl' Ho); [reflexivity|].
      intros l' gc' [[-> Hg]|Hl].
      * rewrite Hhere by lia. rewrite Z.eqb_refl. reflexivity.
      * rewrite Hlater by lia. replace (l' =? line) with false by lia. reflexivity.
    + (* crossed: the last crossed shift decides *)
      cbn [negb].
      set (s := last (p1 :: pt) s0) in *.
      assert (Hin : In s (p1 :: pt)).
      { subst s. clear. generalize p1. induction pt as [|c t IHt]; intro b0; [left; reflexivity|].
        change (last (b0 :: c :: t) s0) with (last (c :: t) s0). right. apply IHt. }
      assert (Hsame : same_line s).
      { rewrite Hr in Hsl. apply Forall_app in Hsl. destruct Hsl as [Hsl1 _].
        rewrite Forall_forall in Hsl1. apply Hsl1, Hin. }
      unfold same_line in Hsame. change (fst (snd s)) with (fst (sh_after s)).
      change (fst (fst s)) with (fst (sh_before s)).
      assert (Hpop : forall acc gc', gc <= gc' ->
                delta_acc acc (p1 :: pt) line gc' =
                if fst (sh_before s) =? line then sh_delta s else acc).
      { intros acc gc' Hg. subst s.
        apply (popped_same_line (p1 :: pt) line gc acc gc' s0); try assumption. discriminate. }
      rewrite Hpop in Hnow by lia.
      rewrite <- Hsame.
      destruct (fst (sh_before s) =? line) eqn:E; cbn [negb].
      * rewrite Z.eqb_refl. cbn [negb]. cbv zeta.
        change (snd (snd s) - snd (fst s)) with (sh_delta s). rewrite Hnow.
        rewrite (IH line gc (sh_delta s) s rest' Hs' Hsl' Ho); [reflexivity|].
        intros l' gc' [[-> Hg]|Hl].
        -- rewrite Hhere by lia. rewrite Hpop by lia. rewrite Z.eqb_refl. reflexivity.
        -- rewrite Hlater by lia. replace (l' =? line) with false by lia. reflexivity.
      * rewrite Hnow.
        rewrite (IH line gc pd s rest' Hs' Hsl' Ho); [reflexivity|].
        intros l' gc' [[-> Hg]|Hl].
        -- rewrite Hhere by lia. rewrite Hpop by lia. rewrite Z.eqb_refl. reflexivity.
        -- rewrite Hlater by lia. replace (l' =? line) with false by lia. reflexivity.
Qed.

(* ---------------- main theorems ---------------- *)

Lemma emit_bytes_ebytes ops : emit_bytes ops = ebytes ops 0 state0.
Proof. reflexivity. Qed.

Lemma shift_ops_id sh : (forall l c, delta_at sh l c = 0) ->
  forall ops line, shift_ops sh ops line = ops.
Proof.
  intros H. induction ops as [|[|gc si ol oc nm|gc] ops IH]; intro line; cbn [shift_ops].
  - reflexivity.
  - rewrite IH. reflexivity.
  - rewrite H, Z.add_0_r, IH. reflexivity.
  - rewrite H, Z.add_0_r, IH. reflexivity.
Qed.

(* Remark on the "placeholder" side condition of the linker.  The statement
   below needs NO hypothesis relating mappings to placeholders: whatever the
   positions of the mappings, Finalize moves the mapping at (line, col) by
   delta_at, i.e. by After.col - Before.col of the last shift on that line whose
   Before is STRICTLY before (line, col).  The weakest side condition is [True].
   Where a side condition matters is the meaning of delta_at for the final text:
   for a position strictly inside a placeholder no column of the final text is
   "right", and a mapping located exactly at Before (the character just after a
   substituted path) is NOT moved by that substitution's delta, because the Go
   code tests shifts[1].Before.ComesBefore(generated) strictly. *)
Theorem finalize_shift : forall sh ops,
  shifts_wf sh -> ops_wf ops ->
  Finalize sh (emit_bytes ops) = Some (emit_bytes (shift_ops sh ops 0)).
Proof.
  intros sh ops Hwf Hops. destruct sh as [|s0 rest]; [contradiction|].
  destruct Hwf as (-> & Hsl & Hs).
  destruct rest as [|s1 rest].
  - (* the single-shift fast path *)
    cbn [Finalize]. rewrite shift_ops_id; [reflexivity|].
    intros l c. unfold delta_at. cbn [delta_acc]. unfold sh_delta. cbn [fst snd].
    destruct (applies _ l c); reflexivity.
  - unfold Finalize. rewrite !emit_bytes_ebytes.
    change (0, 0) with (0, gcol state0) at 3.
    rewrite (fin_loop_ops ops _ [] [] 0 0 _ state0 state0).
    + rewrite (fin_ops_spec (((0, 0), (0, 0)) :: s1 :: rest) ops 0 0 0 _ (s1 :: rest)).
      * reflexivity.
      * eapply sorted_sh_tail. exact Hs.
      * inversion Hsl; assumption.
      * exact Hops.
      * intros l' gc' _. unfold delta_at. cbn [delta_acc].
        change (sh_delta (0, 0, (0, 0))) with 0.
        destruct (applies (0, 0, (0, 0)) l' gc'), (l' =? 0); reflexivity.
    + lia.
    + unfold agree. cbn. repeat split; reflexivity.
Qed.

(* the declarative reading on decoded mappings *)
Definition shift_abs (sh : list shift) (a : abs) : abs :=
  mkAbs (a_gline a) (a_gcol a + delta_at sh (a_gline a) (a_gcol a)) (a_src a) (a_name a).

Lemma abs_of_shift_ops sh : forall ops line,
  abs_of (shift_ops sh ops line) line = map (shift_abs sh) (abs_of ops line).
Proof.
  induction ops as [|[|gc si ol oc nm|gc] ops IH]; intro line; cbn [shift_ops abs_of map].
  - reflexivity.
  - apply IH.
  - rewrite IH. reflexivity.
  - rewrite IH. reflexivity.
Qed.

Corollary finalize_decodes : forall sh ops,
  shifts_wf sh -> ops_wf ops ->
  exists result,
    Finalize sh (emit_bytes ops) = Some result /\
    spec_decode result = Some (abs_of (shift_ops sh ops 0) 0).
Proof.
  intros sh ops Hwf Hops. eexists. split; [apply finalize_shift; assumption|].
  apply mappings_roundtrip_all.
Qed.

(* every decoded mapping of the input reappears with its generated column moved
   by delta_at and everything else unchanged *)
Corollary finalize_decodes_map : forall sh ops,
  shifts_wf sh -> ops_wf ops ->
  exists result,
    Finalize sh (emit_bytes ops) = Some result /\
    spec_decode (emit_bytes ops) = Some (abs_of ops 0) /\
    spec_decode result = Some (map (shift_abs sh) (abs_of ops 0)).
Proof.
  intros sh ops Hwf Hops. destruct (finalize_decodes sh ops Hwf Hops) as (res & H1 & H2).
  exists res. split; [exact H1|]. split; [apply mappings_roundtrip_all|].
  rewrite H2, abs_of_shift_ops. reflexivity.
Qed.

(* ---------------- the inclusive reading and its side condition ---------------- *)

(* Before is the position of the character that FOLLOWS the placeholder, After
   the position of the same character in the final text.  So for the final text
   the delta of a shift applies to every position AT or after Before
   (inclusive), whereas Finalize (delta_at) uses ComesBefore, i.e. strictly
   after.  The two readings agree except for a mapping located exactly at a
   Before position; under that side condition Finalize is also right for the
   inclusive reading, and without it it is not ([finalize_inclusive_refuted]). *)
Definition applies_le (s : shift) (line col : Z) : bool :=
  negb (comes_before (line, col) (sh_before s)) && (fst (sh_before s) =? line).

Fixpoint delta_acc_le (acc : Z) (sh : list shift) (line col : Z) : Z :=
  match sh with
  | [] => acc
  | s :: r => delta_acc_le (if applies_le s line col then sh_delta s else acc) r line col
  end.

Definition delta_at_le (sh : list shift) (line col : Z) : Z := delta_acc_le 0 sh line col.

Fixpoint shift_ops_le (sh : list shift) (ops : list op) (line : Z) : list op :=
  match ops with
  | [] => []
  | ONewline :: r => ONewline :: shift_ops_le sh r (line + 1)
  | OMap gc si ol oc nm :: r => OMap (gc + delta_at_le sh line gc) si ol oc nm :: shift_ops_le sh r line
  | ONull gc :: r => ONull (gc + delta_at_le sh line gc) :: shift_ops_le sh r line
  end.

(* no mapping sits exactly at the Before position of a substitution (the first,
   dummy shift ((0,0),(0,0)) is not a substitution) *)
Fixpoint side_condition_from (sh : list shift) (ops : list op) (line : Z) : Prop :=
  match ops with
  | [] => True
  | ONewline :: r => side_condition_from sh r (line + 1)
  | OMap gc _ _ _ _ :: r =>
    (forall s, In s (tl sh) -> sh_before s <> (line, gc)) /\ side_condition_from sh r line
  | ONull gc :: r =>
    (forall s, In s (tl sh) -> sh_before s <> (line, gc)) /\ side_condition_from sh r line
  end.

Definition side_condition (sh : list shift) (ops : list op) : Prop := side_condition_from sh ops 0.

Lemma applies_le_eq s line col : sh_before s <> (line, col) -> applies_le s line col = applies s line col.
Proof.
  destruct s as [[bl bc] a]. unfold applies_le, applies, comes_before, sh_before. cbn [fst snd].
  intro H. assert (H' : bl <> line \/ bc <> col).
  { destruct (Z.eq_dec bl line) as [->|]; [|left; assumption].
    destruct (Z.eq_dec bc col) as [->|]; [|right; assumption]. congruence. }
  lia.
Qed.

Lemma delta_acc_le_eq : forall sh acc line col,
  (forall s, In s sh -> sh_before s <> (line, col)) ->
  delta_acc_le acc sh line col = delta_acc acc sh line col.
Proof.
  induction sh as [|s r IH]; intros acc line col H; [reflexivity|].
  cbn [delta_acc_le delta_acc]. rewrite applies_le_eq by (apply H; left; reflexivity).
  apply IH. intros s' Hs'. apply H. right. exact Hs'.
Qed.

Lemma shift_ops_le_eq s0 rest : sh_delta s0 = 0 -> forall ops line,
  side_condition_from (s0 :: rest) ops line ->
  shift_ops_le (s0 :: rest) ops line = shift_ops (s0 :: rest) ops line.
Proof.
  intros H0. induction ops as [|[|gc si ol oc nm|gc] ops IH]; intros line Hsc;
    cbn [shift_ops_le shift_ops side_condition_from] in *.
  - reflexivity.
  - rewrite IH by exact Hsc. reflexivity.
  - destruct Hsc as [Hh Hsc]. rewrite IH by exact Hsc. f_equal. f_equal. f_equal.
    unfold delta_at_le, delta_at. cbn [delta_acc_le delta_acc]. rewrite H0.
    rewrite delta_acc_le_eq by exact Hh.
    destruct (applies_le s0 line gc), (applies s0 line gc); reflexivity.
  - destruct Hsc as [Hh Hsc]. rewrite IH by exact Hsc. f_equal. f_equal. f_equal.
    unfold delta_at_le, delta_at. cbn [delta_acc_le delta_acc]. rewrite H0.
    rewrite delta_acc_le_eq by exact Hh.
    destruct (applies_le s0 line gc), (applies s0 line gc); reflexivity.
Qed.

Theorem finalize_shift_inclusive : forall sh ops,
  shifts_wf sh -> ops_wf ops -> side_condition sh ops ->
  Finalize sh (emit_bytes ops) = Some (emit_bytes (shift_ops_le sh ops 0)).
Proof.
  intros sh ops Hwf Hops Hsc. rewrite (finalize_shift sh ops Hwf Hops).
  destruct sh as [|s0 rest]; [contradiction|]. destruct Hwf as (-> & _ & _).
  rewrite shift_ops_le_eq; [reflexivity|reflexivity|exact Hsc].
Qed.

(* Without the side condition the inclusive statement is false of the model: a
   mapping exactly at Before (column 30, the character after the substituted
   path) stays at column 30 although that character moved to column 20. *)
Theorem finalize_inclusive_refuted : exists sh ops,
  shifts_wf sh /\ ops_wf ops /\
  Finalize sh (emit_bytes ops) <> Some (emit_bytes (shift_ops_le sh ops 0)) /\
  option_map spec_decode (Finalize sh (emit_bytes ops)) =
    Some (Some [mkAbs 0 30 (Some (0, 0, 0)) None]) /\
  abs_of (shift_ops_le sh ops 0) 0 = [mkAbs 0 20 (Some (0, 0, 0)) None].
Proof.
  exists [((0, 0), (0, 0)); ((0, 30), (0, 20))], [OMap 30 0 0 0 None].
  split; [|split; [|split; [|split]]].
  - split; [reflexivity|]. split; [repeat constructor|cbn; repeat split].
  - cbn. lia.
  - vm_compute. discriminate.
  - vm_compute. reflexivity.
  - vm_compute. reflexivity.
Qed.

(* ---------------- the hypotheses are satisfiable ---------------- *)

(* two substitutions on line 0 (the text after the first moves from column 30
   to 20, the text after the second from 45 to 47) and one on line 3 (8 to 3);
   mappings before, at, between and after the boundaries, and lines without
   any substitution *)
Definition ex_shifts : list shift :=
  [((0, 0), (0, 0)); ((0, 30), (0, 20)); ((0, 45), (0, 47)); ((3, 8), (3, 3))].

Definition ex_ops : list op :=
  [OMap 0 0 0 0 None; OMap 10 0 0 4 (Some 3); OMap 30 0 0 9 None; OMap 31 0 0 9 None;
   OMap 50 0 1 9 None; ONewline; OMap 5 0 2 0 None; ONewline; ONewline;
   OMap 2 0 2 0 None; OMap 9 0 2 0 (Some 1); OMap 19 0 2 0 (Some 1)].

Example ex_hyps : shifts_wf ex_shifts /\ ops_wf ex_ops.
Proof.
  split.
  - unfold shifts_wf, ex_shifts. split; [reflexivity|]. split.
    + repeat constructor.
    + cbn. repeat split.
  - unfold ops_wf, ex_ops. cbn. lia.
Qed.

(* ... and the side condition of the inclusive form, once the mapping that sits
   exactly at the boundary (0,30) is removed *)
Definition ex_ops_sc : list op :=
  [OMap 0 0 0 0 None; OMap 10 0 0 4 (Some 3); OMap 31 0 0 9 None;
   OMap 50 0 1 9 None; ONewline; OMap 5 0 2 0 None; ONewline; ONewline;
   OMap 2 0 2 0 None; OMap 9 0 2 0 (Some 1); OMap 19 0 2 0 (Some 1)].

Example ex_hyps_sc : shifts_wf ex_shifts /\ ops_wf ex_ops_sc /\ side_condition ex_shifts ex_ops_sc.
Proof.
  split; [apply ex_hyps|]. split; [unfold ops_wf, ex_ops_sc; cbn; lia|].
  unfold side_condition, ex_ops_sc, ex_shifts. cbn [side_condition_from tl].
  repeat split; intros s [<-|[<-|[<-|[]]]]; cbn; congruence.
Qed.

Example ex_shifted :
  shift_ops ex_shifts ex_ops 0 =
  [OMap 0 0 0 0 None; OMap 10 0 0 4 (Some 3); OMap 30 0 0 9 None; OMap 21 0 0 9 None;
   OMap 52 0 1 9 None; ONewline; OMap 5 0 2 0 None; ONewline; ONewline;
   OMap 2 0 2 0 None; OMap 4 0 2 0 (Some 1); OMap 14 0 2 0 (Some 1)].
Proof. vm_compute. reflexivity. Qed.

Example ex_finalize :
  Finalize ex_shifts (emit_bytes ex_ops) = Some (emit_bytes (shift_ops ex_shifts ex_ops 0)).
Proof. apply finalize_shift; apply ex_hyps. Qed.

(* the same by evaluation of the model, independently of the theorem *)
Example ex_finalize_eval :
  option_map spec_decode (Finalize ex_shifts (emit_bytes ex_ops)) =
  Some (Some (map (shift_abs ex_shifts) (abs_of ex_ops 0))).
Proof. vm_compute. reflexivity. Qed.

Print Assumptions finalize_shift.
Print Assumptions finalize_decodes_map.
Print Assumptions finalize_shift_inclusive.
Print Assumptions finalize_inclusive_refuted.
