(* C07 model, part 3: SourceMapPieces.Finalize (the mappings part; prefix and
   suffix are copied verbatim around it). *)
From V Require Import Common.Base C07.Vlq.

Definition lc := (Z * Z)%type.                 (* LineColumnOffset: lines, columns *)
Definition comes_before (a b : lc) : bool :=
  (fst a <? fst b) || ((fst a =? fst b) && (snd a <? snd b)).

Definition shift := (lc * lc)%type.            (* Before, After *)

(* for len(shifts) > 1 && shifts[1].Before.ComesBefore(generated) *)
Fixpoint cross (fuel : nat) (shifts : list shift) (gen : lc) (crossed : bool) : list shift * bool :=
  match fuel with
  | O => (shifts, crossed)
  | S f =>
    match shifts with
    | s0 :: ((s1 :: _) as tl) =>
      if comes_before (fst s1) gen then cross f tl gen true else (shifts, crossed)
    | _ => (shifts, crossed)
    end
  end.

Definition consumed (before after : bytes) : bytes :=
  firstn (length before - length after) before.

Definition skip_fields (r1 : bytes) : option bytes :=
  match r1 with
  | [] => Some []
  | _ =>
    match DecodeVLQ r1 with None => None | Some (_, r2) =>
    match DecodeVLQ r2 with None => None | Some (_, r3) =>
    match DecodeVLQ r3 with None => None | Some (_, r4) =>
    match r4 with
    | [] => Some []
    | _ => match DecodeVLQ r4 with None => None | Some (_, r5) => Some r5 end
    end end end end
  end.

Fixpoint fin_loop (fuel : nat) (rest run out : bytes) (gen : lc) (prevDelta : Z)
                  (shifts : list shift) : option bytes :=
  match fuel with
  | O => None
  | S f =>
    match rest with
    | [] => Some (out ++ run)
    | c :: r =>
      if c =? SEMI then fin_loop f r (run ++ [SEMI]) out (fst gen + 1, 0) 0 shifts
      else
        match DecodeVLQ rest with None => None | Some (d, r1) =>
        let gen' := (fst gen, snd gen + d) in
        match skip_fields r1 with None => None | Some r5 =>
        let r6 := match r5 with x :: t => if x =? COMMA then t else r5 | [] => r5 end in
        let '(shifts', crossed) := cross (length shifts) shifts gen' false in
        let whole := consumed rest r6 in
        if negb crossed then fin_loop f r6 (run ++ whole) out gen' prevDelta shifts'
        else match shifts' with
        | [] => None
        | sh :: _ =>
          if negb (fst (snd sh) =? fst gen') then fin_loop f r6 (run ++ whole) out gen' prevDelta shifts'
          else if negb (fst (fst sh) =? fst (snd sh)) then None  (* panic *)
          else
            let delta := snd (snd sh) - snd (fst sh) in
            fin_loop f r6 (consumed r1 r6)
                     (out ++ run ++ encodeVLQ (d + delta - prevDelta)) gen' delta shifts'
        end
        end end
    end
  end.

Definition Finalize (shifts : list shift) (mappings : bytes) : option bytes :=
  match shifts with
  | [_] => Some mappings
  | _ => fin_loop (S (length mappings)) mappings [] [] (0, 0) 0 shifts
  end.
