(* C07: GenerateLineOffsetTables + the AddSourceMapping lookup compute exactly
   the UTF-16 (line, column) of every rune boundary of the text.
   Proof by a forward invariant over gen_loop kept in lockstep with spec_linecol. *)
From V Require Import Common.Base Common.Utf8 C07.Vlq C07.Shift C07.LineCol C07.LineColAux.

(* ------------------------------------------------------------------ *)
(* 3. one step of the generator                                        *)
(* ------------------------------------------------------------------ *)

(* start of the current line as the Go loop sees it at rune offset i *)
Definition cs (s : gst) (i : Z) : Z := if g_col s =? 0 then i else g_lineoff s.

(* the column formula of the lookup *)
Definition colf (cols : option (list Z)) (first d : Z) : option Z :=
  match cols with
  | Some l => if first <=? d then nth_error l (Z.to_nat (d - first)) else Some d
  | None => Some d
  end.

(* first half of gen_step: start / extend the non-ASCII column table *)
Definition prep (s : gst) (i c : Z) : option (list Z) * Z * Z :=
  let lineoff := cs s i in
  let '(cols0, first0, coloff0) :=
    match g_cols s with
    | None => if 127 <? c then (Some [], i - lineoff, i - lineoff)
              else (None, g_first s, g_coloff s)
    | Some l => (Some l, g_first s, g_coloff s)
    end in
  let '(cols1, coloff1) :=
    match cols0 with
    | Some l => let '(l', co) := fill_cols l coloff0 (i - lineoff) (g_col s) in (Some l', co)
    | None => (None, coloff0)
    end in
  (cols1, first0, coloff1).

Lemma gen_step_eq : forall s i c b,
  gen_step s i c b =
  let '(cols1, first0, coloff1) := prep s i c in
  if is_newline c then
    if (c =? 13) && b
    then mkGst cols1 first0 (cs s i) coloff1 (g_col s + 1) (g_out s)
    else mkGst None 0 (cs s i) 0 0 (mkLot (cs s i) first0 cols1 :: g_out s)
  else mkGst cols1 first0 (cs s i) coloff1 (g_col s + u16w c) (g_out s).
Proof.
  intros s i c b. unfold gen_step, prep, cs.
  destruct (g_cols s) as [l|]; [|destruct (127 <? c)];
    try destruct (fill_cols _ _ _ _); reflexivity.
Qed.

Definition Inv0 (s : gst) (i : Z) : Prop :=
  0 <= g_col s /\ cs s i <= i /\
  Forall (fun t => l_start t < cs s i) (g_out s) /\
  match g_cols s with
  | None => g_col s = i - cs s i
  | Some l => 0 < g_col s /\ g_first s <= g_coloff s /\
              Z.of_nat (length l) = g_coloff s - g_first s /\
              g_coloff s <= i - cs s i
  end.

Lemma nth_error_app_repeat : forall (l : list Z) x k idx,
  (length l <= idx < length l + k)%nat ->
  nth_error (l ++ repeat x k) idx = Some x.
Proof.
  intros l x k idx H. rewrite nth_error_app2 by lia.
  apply nth_error_repeat. lia.
Qed.

Lemma prep_spec : forall s i c cols1 first0 coloff1,
  Inv0 s i -> prep s i c = (cols1, first0, coloff1) ->
  (forall d C, d < i - cs s i ->
     colf (g_cols s) (g_first s) d = Some C -> colf cols1 first0 d = Some C) /\
  colf cols1 first0 (i - cs s i) = Some (g_col s) /\
  match cols1 with
  | None => g_col s = i - cs s i /\ c <= 127
  | Some l' => first0 <= coloff1 /\ Z.of_nat (length l') = coloff1 - first0 /\
               coloff1 = i - cs s i + 1
  end.
Proof.
  intros s i c cols1 first0 coloff1 (Hcol & Hcs & _ & Hm) Hp.
  unfold prep in Hp. set (lo := cs s i) in *.
  destruct (g_cols s) as [l|] eqn:Eg.
  - destruct Hm as (Hpos & Hfc & Hlen & Hco).
    unfold fill_cols in Hp.
    destruct (g_coloff s <=? i - lo) eqn:Efill; [|lia].
    inversion Hp; subst cols1 first0 coloff1; clear Hp.
    split; [|split].
    + intros d C Hd Hc. unfold colf in *.
      destruct (g_first s <=? d) eqn:Ed; [|assumption].
      assert (Hi : (Z.to_nat (d - g_first s) < length l)%nat)
        by (apply nth_error_Some; congruence).
      rewrite nth_error_app1 by assumption. assumption.
    + unfold colf. destruct (g_first s <=? i - lo) eqn:Ed; [|lia].
      apply nth_error_app_repeat. lia.
    + rewrite app_length, repeat_length. lia.
  - destruct (127 <? c) eqn:Ec.
    + unfold fill_cols in Hp.
      destruct (i - lo <=? i - lo) eqn:Efill; [|lia].
      inversion Hp; subst cols1 first0 coloff1; clear Hp.
      split; [|split].
      * intros d C Hd Hc. unfold colf in *.
        destruct (i - lo <=? d) eqn:Ed; [lia|assumption].
      * unfold colf. destruct (i - lo <=? i - lo) eqn:Ed; [|lia].
        replace (i - lo - (i - lo)) with 0 by lia.
        replace (i - lo - (i - lo) + 1) with 1 by lia. reflexivity.
      * cbn [app length]. rewrite repeat_length. lia.
    + inversion Hp; subst cols1 first0 coloff1; clear Hp.
      split; [|split].
      * intros d C Hd Hc. assumption.
      * unfold colf. f_equal. lia.
      * lia.
Qed.

(* what the (partial) state already answers for offset o: line L, column C *)
Definition Ans (s : gst) (i o L C : Z) : Prop :=
  (exists pre t post,
      rev (g_out s) = pre ++ t :: post /\ L = Z.of_nat (length pre) /\
      Forall (fun t' => l_start t' <= o) pre /\ l_start t <= o /\
      Forall (fun t' => o < l_start t') post /\ o < cs s i /\
      colf (l_cols t) (l_first t) (o - l_start t) = Some C)
  \/ (L = Z.of_nat (length (g_out s)) /\ cs s i <= o < i /\
      colf (g_cols s) (g_first s) (o - cs s i) = Some C).

Section Step.
  Variables (s : gst) (i c : Z) (w : nat) (cols1 : option (list Z)) (first0 coloff1 : Z).
  Hypothesis HI : Inv0 s i.
  Hypothesis Hp : prep s i c = (cols1, first0, coloff1).
  Hypothesis Hw1 : (1 <= w)%nat.
  Hypothesis Hw2 : c <= 127 -> w = 1%nat.

  Let i1 := i + Z.of_nat w.

  Lemma step_cont : forall dl, 1 <= dl -> (c <= 127 -> dl = 1) ->
    let s1 := mkGst cols1 first0 (cs s i) coloff1 (g_col s + dl) (g_out s) in
    Inv0 s1 i1 /\
    (forall o L C, Ans s i o L C -> Ans s1 i1 o L C) /\
    Ans s1 i1 i (Z.of_nat (length (g_out s))) (g_col s).
  Proof.
    intros dl Hd1 Hd2 s1.
    destruct (prep_spec _ _ _ _ _ _ HI Hp) as (Hstab & Hnew & Hshape).
    destruct HI as (Hcol & Hcs & Hall & Hm).
    assert (Ecs : cs s1 i1 = cs s i).
    { unfold cs at 1. subst s1. cbn [g_col g_lineoff].
      destruct (g_col s + dl =? 0) eqn:E; [lia|reflexivity]. }
    split; [|split].
    - unfold Inv0. rewrite Ecs. subst s1 i1. cbn [g_col g_out g_cols g_first g_coloff].
      repeat split; try lia; try assumption.
      destruct cols1 as [l'|]; lia.
    - intros o L C [(pre & t & post & H1 & H2 & H3 & H4 & H5 & H6 & H7) | (H1 & H2 & H3)].
      + left. exists pre, t, post. rewrite Ecs. subst s1. cbn [g_out].
        repeat split; assumption.
      + right. rewrite Ecs. subst s1 i1. cbn [g_out g_cols g_first].
        repeat split; try lia. apply Hstab; [lia|assumption].
    - right. rewrite Ecs. subst s1 i1. cbn [g_out g_cols g_first].
      repeat split; try lia. assumption.
  Qed.

  Let s2 := mkGst None 0 (cs s i) 0 0 (mkLot (cs s i) first0 cols1 :: g_out s).

  Lemma cs_s2 : cs s2 i1 = i1.
  Proof. reflexivity. Qed.

  Lemma cur_to_past : forall o C,
    cs s i <= o <= i -> colf cols1 first0 (o - cs s i) = Some C ->
    Ans s2 i1 o (Z.of_nat (length (g_out s))) C.
  Proof.
    intros o C Ho Hc. destruct HI as (Hcol & Hcs & Hall & Hm).
    left. exists (rev (g_out s)), (mkLot (cs s i) first0 cols1), [].
    rewrite cs_s2. subst s2 i1. cbn [g_out rev l_start l_cols l_first].
    rewrite rev_length. repeat split; try lia; try assumption; try constructor.
    apply Forall_forall. intros t Ht. apply in_rev in Ht.
    rewrite Forall_forall in Hall. specialize (Hall _ Ht). lia.
  Qed.

  Lemma step_nl :
    Inv0 s2 i1 /\
    (forall o L C, Ans s i o L C -> Ans s2 i1 o L C) /\
    Ans s2 i1 i (Z.of_nat (length (g_out s))) (g_col s).
  Proof.
    destruct (prep_spec _ _ _ _ _ _ HI Hp) as (Hstab & Hnew & Hshape).
    pose proof HI as (Hcol & Hcs & Hall & Hm).
    split; [|split].
    - unfold Inv0. rewrite cs_s2. subst s2 i1. cbn [g_col g_out g_cols g_first g_coloff].
      repeat split; try lia.
      constructor; [cbn [l_start]; lia|].
      eapply Forall_impl; [|exact Hall]. cbn beta. intros; lia.
    - intros o L C [(pre & t & post & H1 & H2 & H3 & H4 & H5 & H6 & H7) | (H1 & H2 & H3)].
      + left. exists pre, t, (post ++ [mkLot (cs s i) first0 cols1]).
        rewrite cs_s2. subst s2 i1. cbn [g_out rev]. rewrite H1.
        rewrite <- app_assoc. cbn [app].
        repeat split; try assumption; try lia.
        apply Forall_app. split; [assumption|].
        constructor; [cbn [l_start]; lia|constructor].
      + subst L. apply cur_to_past; [lia|]. apply Hstab; [lia|assumption].
    - apply cur_to_past; [lia|assumption].
  Qed.
End Step.

(* the (line, column) transition of the specification for one rune *)
Definition sstep (line col c : Z) (b : bool) : Z * Z :=
  if is_newline c then
    if (c =? 13) && b then (line, col + 1) else (line + 1, 0)
  else (line, col + u16w c).

Lemma u16w_facts : forall c, 1 <= u16w c /\ (c <= 127 -> u16w c = 1).
Proof. intro c. unfold u16w. destruct (c <=? 65535) eqn:E; lia. Qed.

Lemma gen_step_all : forall s i c b w,
  Inv0 s i -> (1 <= w)%nat -> (c <= 127 -> w = 1%nat) ->
  let s1 := gen_step s i c b in
  let i1 := i + Z.of_nat w in
  Inv0 s1 i1 /\
  (forall o L C, Ans s i o L C -> Ans s1 i1 o L C) /\
  Ans s1 i1 i (Z.of_nat (length (g_out s))) (g_col s) /\
  Z.of_nat (length (g_out s1)) = fst (sstep (Z.of_nat (length (g_out s))) (g_col s) c b) /\
  g_col s1 = snd (sstep (Z.of_nat (length (g_out s))) (g_col s) c b).
Proof.
  intros s i c b w HI Hw1 Hw2 s1 i1. subst s1 i1.
  rewrite gen_step_eq. unfold sstep.
  destruct (prep s i c) as [[cols1 first0] coloff1] eqn:Hp.
  destruct (u16w_facts c) as (Hu1 & Hu2).
  destruct (is_newline c) eqn:En; [destruct ((c =? 13) && b) eqn:Ecr|].
  - destruct (step_cont s i c w cols1 first0 coloff1 HI Hp Hw1 Hw2 1) as (A & B & C);
      [lia|lia|].
    split; [exact A|]. split; [exact B|]. split; [exact C|]. split; reflexivity.
  - destruct (step_nl s i c w cols1 first0 coloff1 HI Hp Hw1 Hw2) as (A & B & C).
    split; [exact A|]. split; [exact B|]. split; [exact C|].
    split; [|reflexivity]. cbn [g_out length fst]. lia.
  - destruct (step_cont s i c w cols1 first0 coloff1 HI Hp Hw1 Hw2 (u16w c)) as (A & B & C);
      [lia|assumption|].
    split; [exact A|]. split; [exact B|]. split; [exact C|]. split; reflexivity.
Qed.

(* ------------------------------------------------------------------ *)
(* 4. the loop                                                         *)
(* ------------------------------------------------------------------ *)

Definition next_lf (rest' : bytes) : bool :=
  match rest' with b :: _ => b =? 10 | [] => false end.

Lemma advance_cons : forall i c w r rest line col,
  advance_runes ((i, c, w) :: r) rest line col =
  advance_runes r (skipn w rest)
    (fst (sstep line col c (next_lf (skipn w rest))))
    (snd (sstep line col c (next_lf (skipn w rest)))).
Proof.
  intros. cbn [advance_runes]. unfold sstep, next_lf.
  destruct (is_newline c); [destruct ((c =? 13) && _)|]; reflexivity.
Qed.

Lemma spec_cons : forall i c w r rest o line col,
  spec_linecol ((i, c, w) :: r) rest o line col =
  if o <=? i then (line, col) else
  spec_linecol r (skipn w rest) o
    (fst (sstep line col c (next_lf (skipn w rest))))
    (snd (sstep line col c (next_lf (skipn w rest)))).
Proof.
  intros. cbn [spec_linecol]. unfold sstep, next_lf.
  destruct (o <=? i); [reflexivity|].
  destruct (is_newline c); [destruct ((c =? 13) && _)|]; reflexivity.
Qed.

Lemma gen_loop_cons : forall i c w r rest s,
  gen_loop ((i, c, w) :: r) rest s =
  gen_loop r (skipn w rest) (gen_step s i c (next_lf (skipn w rest))).
Proof. reflexivity. Qed.

Lemma loop_inv : forall rs rest s i,
  wf_runes rs rest i -> Inv0 s i ->
  let sf := gen_loop rs rest s in
  let n := i + Z.of_nat (length rest) in
  Inv0 sf n /\
  (Z.of_nat (length (g_out sf)), g_col sf) =
    advance_runes rs rest (Z.of_nat (length (g_out s))) (g_col s) /\
  (forall o L C, Ans s i o L C -> Ans sf n o L C) /\
  (forall o, In o (map roff rs) ->
     Ans sf n o
       (fst (spec_linecol rs rest o (Z.of_nat (length (g_out s))) (g_col s)))
       (snd (spec_linecol rs rest o (Z.of_nat (length (g_out s))) (g_col s)))).
Proof.
  induction rs as [|[[j c] w] r IH]; intros rest s i Hwf HI.
  - cbn [wf_runes] in Hwf. subst rest. cbn [gen_loop length advance_runes map In].
    rewrite Z.add_0_r. cbv zeta.
    split; [exact HI|]. split; [reflexivity|]. split; [auto|]. intros o [].
  - cbn [wf_runes] in Hwf. destruct Hwf as (-> & Hw1 & Hw2 & Hw3 & Hwf).
    rewrite gen_loop_cons. set (b := next_lf (skipn w rest)).
    destruct (gen_step_all s i c b w HI Hw1 Hw3) as (A & B & C & D & E).
    set (s1 := gen_step s i c b) in *.
    specialize (IH (skipn w rest) s1 (i + Z.of_nat w) Hwf A).
    assert (Hn : i + Z.of_nat w + Z.of_nat (length (skipn w rest)) =
                 i + Z.of_nat (length rest)) by (rewrite skipn_length; lia).
    rewrite Hn in IH. cbv zeta in IH. destruct IH as (A' & B' & C' & D').
    cbv zeta. split; [assumption|]. split; [|split].
    + rewrite advance_cons. fold b. rewrite <- D, <- E. assumption.
    + intros o L C0 Ha. apply C', B. assumption.
    + intros o Hin. rewrite spec_cons. fold b.
      cbn [map In roff fst] in Hin. destruct Hin as [<- | Hin].
      * destruct (i <=? i) eqn:Ei; [|lia]. cbn [fst snd]. apply C'. assumption.
      * pose proof (wf_runes_offsets _ _ _ _ Hwf Hin) as Ho.
        destruct (o <=? i) eqn:Ei; [lia|].
        rewrite <- D, <- E. apply D'. assumption.
Qed.

(* ------------------------------------------------------------------ *)
(* 5. assembling                                                       *)
(* ------------------------------------------------------------------ *)

Definition gst0 : gst := mkGst None 0 0 0 0 [].

(* the last table is what a virtual LF at offset [length text] would push *)
Lemma generate_eq : forall text,
  GenerateLineOffsetTables text =
  rev (g_out (gen_step (gen_loop (runes text) text gst0) (Z.of_nat (length text)) 10 false)).
Proof.
  intro text. unfold GenerateLineOffsetTables. fold gst0.
  set (s := gen_loop (runes text) text gst0).
  set (n := Z.of_nat (length text)).
  unfold gen_step.
  destruct (g_cols s) as [l|]; [|reflexivity].
  destruct (fill_cols _ _ _ _); reflexivity.
Qed.

Lemma past_lookup : forall ts pre t post o C,
  ts = pre ++ t :: post ->
  Forall (fun t' => l_start t' <= o) pre -> l_start t <= o ->
  Forall (fun t' => o < l_start t') post ->
  colf (l_cols t) (l_first t) (o - l_start t) = Some C ->
  lookup ts o = Some (Z.of_nat (length pre), C).
Proof.
  intros ts pre t post o C Hts Hpre Ht Hpost Hc.
  assert (Hts' : ts = (pre ++ [t]) ++ post) by (rewrite <- app_assoc; exact Hts).
  unfold lookup. rewrite Hts' at 1 2 3.
  rewrite line_search_count.
  2:{ apply Forall_app. split; [assumption|]. constructor; [assumption|constructor]. }
  2:{ assumption. }
  rewrite app_length. cbn [length]. replace (length pre + 1)%nat with (S (length pre)) by lia.
  assert (Hn : nth_error ts (length pre) = Some t).
  { rewrite Hts. rewrite nth_error_app2 by lia. rewrite Nat.sub_diag. reflexivity. }
  rewrite Hn. unfold colf in Hc.
  destruct (l_cols t) as [cs0|]; [|congruence].
  destruct (l_first t <=? o - l_start t); [|congruence].
  rewrite Hc. reflexivity.
Qed.

Definition boundary (text : bytes) (off : Z) : Prop :=
  off = Z.of_nat (length text) \/ In off (map (fun r => fst (fst r)) (runes text)).

Theorem lineoffset_is_spec : forall text off,
  boundary text off ->
  lookup (GenerateLineOffsetTables text) off = Some (linecol_utf16 text off).
Proof.
  intros text off Hb. rewrite generate_eq.
  set (n := Z.of_nat (length text)).
  assert (HI0 : Inv0 gst0 0).
  { unfold Inv0, gst0, cs. cbn. repeat split; try lia. constructor. }
  destruct (loop_inv (runes text) text gst0 0 (runes_wf text) HI0) as (A & B & C & D).
  cbv zeta in A, B, C, D. rewrite Z.add_0_l in A, C, D. fold n in A, C, D.
  set (sf := gen_loop (runes text) text gst0) in *.
  destruct (gen_step_all sf n 10 false 1 A) as (A' & B' & C' & D' & E'); [lia|lia|].
  set (sF := gen_step sf n 10 false) in *.
  assert (Hans : Ans sF (n + Z.of_nat 1) off
                   (fst (linecol_utf16 text off)) (snd (linecol_utf16 text off))).
  { destruct Hb as [Hb | Hb].
    - subst off. unfold linecol_utf16.
      pose proof (spec_at_end (runes text) text 0 0 0 (runes_wf text)) as Hs.
      rewrite Z.add_0_l in Hs. rewrite Hs.
      change (advance_runes (runes text) text 0 0) with
        (advance_runes (runes text) text (Z.of_nat (length (g_out gst0))) (g_col gst0)).
      rewrite <- B. cbn [fst snd]. exact C'.
    - apply B'. exact (D off Hb). }
  assert (Hc0 : g_col sF = 0) by (rewrite E'; reflexivity).
  destruct Hans as [(pre & t & post & H1 & H2 & H3 & H4 & H5 & H6 & H7) | (H1 & H2 & H3)].
  - rewrite (past_lookup _ pre t post off _ H1 H3 H4 H5 H7). rewrite <- H2.
    destruct (linecol_utf16 text off); reflexivity.
  - unfold cs in H2. rewrite Hc0 in H2. cbn in H2. lia.
Qed.

(* hypotheses are satisfiable: "a é CR LF b", offset of LF (inside CRLF) and end of text *)
Example boundary_ex1 : boundary [97; 195; 169; 13; 10; 98] 4.
Proof. right. vm_compute. auto 10. Qed.
Example boundary_ex2 : boundary [97; 195; 169; 13; 10; 98] 6.
Proof. left. reflexivity. Qed.
Example lineoffset_ex :
  lookup (GenerateLineOffsetTables [97; 195; 169; 13; 10; 98]) 4 = Some (0, 3) /\
  lookup (GenerateLineOffsetTables [97; 195; 169; 13; 10; 98]) 6 = Some (1, 1).
Proof. split; vm_compute; reflexivity. Qed.

(* ------------------------------------------------------------------ *)
(* 6. corollaries: no index panic, columns >= 0, line < number of tables *)
(* ------------------------------------------------------------------ *)

Lemma spec_linecol_nonneg : forall rs rest off line col,
  0 <= line -> 0 <= col ->
  0 <= fst (spec_linecol rs rest off line col) /\
  0 <= snd (spec_linecol rs rest off line col).
Proof.
  induction rs as [|[[i c] w] r IH]; intros rest off line col Hl Hc.
  - cbn [spec_linecol fst snd]. lia.
  - cbn [spec_linecol]. destruct (u16w_facts c) as (Hu & _).
    destruct (off <=? i); [cbn [fst snd]; lia|].
    destruct (is_newline c); [destruct ((c =? 13) && _)|]; apply IH; lia.
Qed.

Lemma lookup_line_lt : forall ts off L C,
  lookup ts off = Some (L, C) -> 0 <= L < Z.of_nat (length ts).
Proof.
  intros ts off L C H. unfold lookup in H.
  destruct (line_search _ _ _ _ _) as [|line]; [discriminate|].
  destruct (nth_error ts line) as [t|] eqn:En; [|discriminate].
  assert (Hlt : (line < length ts)%nat) by (apply nth_error_Some; congruence).
  destruct (l_cols t) as [cs0|].
  - destruct (l_first t <=? off - l_start t).
    + destruct (nth_error cs0 _); inversion H; subst; lia.
    + inversion H; subst; lia.
  - inversion H; subst; lia.
Qed.

Theorem lookup_no_panic : forall text off,
  boundary text off -> lookup (GenerateLineOffsetTables text) off <> None.
Proof. intros text off Hb. rewrite (lineoffset_is_spec text off Hb). discriminate. Qed.

Theorem lookup_bounds : forall text off L C,
  boundary text off ->
  lookup (GenerateLineOffsetTables text) off = Some (L, C) ->
  0 <= C /\ 0 <= L < Z.of_nat (length (GenerateLineOffsetTables text)).
Proof.
  intros text off L C Hb H. split; [|eapply lookup_line_lt; exact H].
  rewrite (lineoffset_is_spec text off Hb) in H. inversion H as [H1].
  unfold linecol_utf16 in H1.
  destruct (spec_linecol_nonneg (runes text) text off 0 0) as (_ & Hc); [lia|lia|].
  rewrite H1 in Hc. exact Hc.
Qed.

Example lookup_bounds_ex :
  exists L C, lookup (GenerateLineOffsetTables [97; 195; 169; 13; 10; 98]) 4 = Some (L, C).
Proof. exists 0, 3. vm_compute. reflexivity. Qed.

Print Assumptions lookup_bounds.
Print Assumptions lineoffset_is_spec.
