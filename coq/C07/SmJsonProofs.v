(* sourcemap_json_wellformed_and_faithful: the text of SmJson.v is accepted by the
   RFC 8259 parser of coq/C19/JsonSpec.v and parses to the object one expects:
   version 3, sources, [sourceRoot], [sourcesContent = the files' texts],
   mappings = the given mappings string, names.  Uses C19's parse_render_all
   (any text written as a layout tree parses to the tree's value) and
   json_quote_roundtrip (inside it). *)
From V Require Import Common.Base C01.Utf C01.Quote C19.Json C19.JsonSpec C19.JsonProofs C19.Layout C19.LayoutProofs
  C07.SmJson.

Definition W : bytes := [10; 32; 32].
Definition SP : bytes := [32].

Definition elems (l : list bytes) : list (bytes * lj) :=
  match l with
  | [] => []
  | x :: r => ([], LS (SQ x)) :: map (fun y => (SP, LS (SQ y))) r
  end.

Definition sm_members (sources : list bytes) (root : option bytes) (contents : option (list bytes))
                      (mappings : bytes) (names : list bytes) : list (bytes * ls * bytes * lj) :=
  [(W, SR k_version, SP, LNum 3); (W, SR k_sources, SP, LArr (elems sources) [])]
  ++ (match root with Some r => [(W, SR k_sourceRoot, SP, LS (SQ r))] | None => [] end)
  ++ (match contents with Some cs => [(W, SR k_sourcesContent, SP, LArr (elems cs) [])] | None => [] end)
  ++ [(W, SR k_mappings, SP, LS (SR mappings)); (W, SR k_names, SP, LArr (elems names) [])].

Definition sm_lj sources root contents mappings names : lj :=
  LObj (sm_members sources root contents mappings names) [10].

Definition no_rq : Z -> Z -> bytes := fun _ _ => [].

Lemma join_cs_commas ascii : forall l,
  join_cs (map (quote_for_json ascii) l) =
  commas (map (fun e => fst e ++ render ascii no_rq (snd e)) (elems l)).
Proof.
  destruct l as [|x r]; [reflexivity|]. cbn [elems map].
  revert x. induction r as [|y r IH]; intro x; [cbn; rewrite ?app_nil_r; reflexivity|].
  cbn [map join_cs commas fst snd render render_ls app].
  specialize (IH y). cbn [map join_cs commas fst snd render render_ls app] in IH.
  destruct r as [|z r].
  - cbn [map join_cs commas fst snd render render_ls app SP]. reflexivity.
  - cbn [map] in *. rewrite IH. reflexivity.
Qed.

Lemma text_is_render ascii sources root contents mappings names :
  sourcemap_text ascii sources root contents mappings names =
  render ascii no_rq (sm_lj sources root contents mappings names) ++ [10].
Proof.
  unfold sourcemap_text, sm_lj, sm_members, member_head.
  destruct root as [r|], contents as [cs|];
    cbn [render render_ls map commas app fst snd W SP];
    rewrite <- !join_cs_commas; change (dec 3) with [51];
    repeat (rewrite <- !app_assoc; cbn [app]); reflexivity.
Qed.

(* ---------------- strings that stand for themselves ---------------- *)

(* printable ASCII other than the quotation mark and the backslash *)
Definition safe_char (c : Z) : Prop := 32 <= c <= 126 /\ c <> 34 /\ c <> 92.

Lemma quote_body_safe : forall s, Forall safe_char s -> quote_body (length s) false s = s.
Proof.
  induction s as [|c t IH]; intro H; [reflexivity|].
  inversion H as [|? ? (Hc & H1 & H2) Ht]; subst.
  cbn [length quote_body]. unfold quote_step. cbn [DecodeWTF8Rune].
  replace (c <? 128) with true by lia.
  unfold can_print, is_invalid_byte.
  replace (c <=? 126) with true by lia. replace (32 <=? c) with true by lia.
  replace (c =? 92) with false by lia. replace (c =? 34) with false by lia.
  replace (c =? 65533) with false by lia. cbn [negb andb Z.to_nat].
  change (Pos.to_nat 1) with 1%nat. cbn [firstn skipn app].
  rewrite (IH Ht). reflexivity.
Qed.

Lemma safe_raw_ok s : Forall safe_char s -> raw_ok s.
Proof.
  intro H. split; [|apply quote_body_safe, H].
  unfold bytes_ok. eapply Forall_impl; [|exact H]. intros c (Hc & _). lia.
Qed.

Lemma units_safe : forall s, Forall safe_char s -> units s = s.
Proof.
  unfold units. induction s as [|c t IH]; intro H; [reflexivity|].
  inversion H as [|? ? (Hc & H1 & H2) Ht]; subst.
  cbn [length str_units DecodeWTF8Rune]. replace (c <? 128) with true by lia.
  cbn [Z.to_nat]. change (Pos.to_nat 1) with 1%nat. cbn [skipn]. rewrite (IH Ht).
  unfold rune_units. replace (c <=? 65535) with true by lia. reflexivity.
Qed.

(* ---------------- the theorem ---------------- *)

Definition jstrs (l : list bytes) : jv := JArr (map (fun s => JStr (units s)) l).

(* the JSON value the text stands for *)
Definition sm_jv (sources : list bytes) (root : option bytes) (contents : option (list bytes))
                 (mappings : bytes) (names : list bytes) : jv :=
  JObj ([(units k_version, JNum [51]); (units k_sources, jstrs sources)]
        ++ (match root with Some r => [(units k_sourceRoot, JStr (units r))] | None => [] end)
        ++ (match contents with Some cs => [(units k_sourcesContent, jstrs cs)] | None => [] end)
        ++ [(units k_mappings, JStr mappings); (units k_names, jstrs names)]).

Lemma key_raw_ok : raw_ok k_version /\ raw_ok k_sources /\ raw_ok k_sourceRoot /\ raw_ok k_sourcesContent /\
                   raw_ok k_mappings /\ raw_ok k_names.
Proof. repeat split; try (repeat constructor; lia); vm_compute; reflexivity. Qed.

Lemma elems_ok (l : list bytes) : Forall bytes_ok l -> lj_ok (fun _ _ => False) (LArr (elems l) []).
Proof.
  intro H. cbn [lj_ok]. split; [reflexivity|].
  destruct l as [|x r]; [exact I|]. inversion H as [|? ? Hx Hr]; subst. cbn [elems].
  split; [split; [reflexivity|exact Hx]|]. clear H Hx.
  induction Hr as [|y r Hy _ IH]; [exact I|]. cbn [map]. split; [split; [reflexivity|exact Hy]|exact IH].
Qed.

Lemma erase_elems ru (l : list bytes) :
  JArr (map (fun e : bytes * lj => erase ru (snd e)) (elems l)) = jstrs l.
Proof.
  unfold jstrs. f_equal. destruct l as [|x r]; [reflexivity|]. cbn [elems map snd erase ls_units].
  f_equal. rewrite map_map. reflexivity.
Qed.

Theorem sm_json_all : forall ascii sources root contents mappings names,
  Forall bytes_ok sources ->
  (forall r, root = Some r -> bytes_ok r) ->
  (forall cs, contents = Some cs -> Forall bytes_ok cs) ->
  Forall safe_char mappings -> Forall bytes_ok names ->
  parse_json (sourcemap_text ascii sources root contents mappings names) =
  Some (sm_jv sources root contents mappings names).
Proof.
  intros ascii sources root contents mappings names Hs Hr Hc Hm Hn.
  rewrite text_is_render.
  destruct key_raw_ok as (K1 & K2 & K3 & K4 & K5 & K6).
  assert (Hrq : sf_reads (fun _ _ => False) (fun _ _ => []) no_rq) by (intros k i []).
  rewrite (parse_render_all ascii (fun _ _ => False) (fun _ _ => []) no_rq _ [10] Hrq); [| |reflexivity].
  - f_equal. unfold sm_lj, sm_jv, sm_members. cbn [erase].
    rewrite !map_app. cbn [map ls_units erase].
    rewrite !erase_elems. change (dec 3) with [51]. rewrite (units_safe mappings Hm).
    destruct root, contents; cbn [map ls_units erase app]; rewrite ?erase_elems; reflexivity.
  - unfold sm_lj, sm_members.
    pose proof (elems_ok sources Hs) as E1. pose proof (elems_ok names Hn) as E2.
    pose proof (safe_raw_ok mappings Hm) as E3.
    destruct K1, K2, K3, K4, K5, K6, E3.
    destruct root as [r|], contents as [cs|]; cbn [lj_ok app];
      repeat split; try assumption; try reflexivity; try (unfold num_ok; lia);
      try (apply (Hr r eq_refl)); try (apply elems_ok, (Hc cs eq_refl)); try (apply E1); try (apply E2).
Qed.

(* the assembly as the linker runs it: one (source, contents) item per "sources" entry *)
Definition sourcemap_text_items (ascii : bool) (items : list (bytes * bytes)) (root : option bytes)
                                (exclude_content : bool) (mappings : bytes) (names : list bytes) : bytes :=
  sourcemap_text ascii (map fst items) root (if exclude_content then None else Some (map snd items)) mappings names.
