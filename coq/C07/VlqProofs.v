From V Require Import Common.Base C07.Vlq C07.SpecMap.

Lemma b64_sweep :
  forallb (fun n => option_eqb Z.eqb (b64_index (b64_char (Z.of_nat n))) (Some (Z.of_nat n)))
          (seq 0 64) = true.
Proof. vm_compute. reflexivity. Qed.

Lemma b64_index_char d : 0 <= d < 64 -> b64_index (b64_char d) = Some d.
Proof.
  intros Hd. pose proof b64_sweep as H. rewrite forallb_forall in H.
  specialize (H (Z.to_nat d)). rewrite Z2Nat.id in H by lia.
  assert (Hin : In (Z.to_nat d) (seq 0 64)) by (apply in_seq; lia).
  specialize (H Hin). destruct (b64_index (b64_char d)) as [x|]; simpl in H; [|discriminate].
  apply Z.eqb_eq in H. congruence.
Qed.

Lemma index_of_none c l i : ~ In c l -> index_of c l i = None.
Proof.
  revert i; induction l as [|x l IH]; intros i Hn; simpl; [reflexivity|].
  destruct (Z.eqb_spec x c) as [->|Hne]; [exfalso; apply Hn; left; reflexivity|].
  apply IH. intro Hin; apply Hn; right; exact Hin.
Qed.

Lemma digit_sweep :
  forallb (fun n => option_eqb Z.eqb (b64_index (Z.of_nat n)) (spec_digit (Z.of_nat n)))
          (seq 0 128) = true.
Proof. vm_compute. reflexivity. Qed.

(* the table of the code is the RFC 4648 alphabet *)
Lemma b64_index_is_spec c : b64_index c = spec_digit c.
Proof.
  destruct (Z_lt_dec c 0) as [Hneg|Hnn]; [|destruct (Z_lt_dec c 128) as [Hlt|Hge]].
  - unfold b64_index. rewrite index_of_none.
    + unfold spec_digit.
      repeat match goal with |- context [if ?b then _ else _] => destruct b eqn:? end; try reflexivity; lia.
    + unfold base64. simpl. intuition lia.
  - pose proof digit_sweep as H. rewrite forallb_forall in H.
    specialize (H (Z.to_nat c)). rewrite Z2Nat.id in H by lia.
    assert (Hin : In (Z.to_nat c) (seq 0 128)) by (apply in_seq; lia).
    specialize (H Hin).
    destruct (b64_index c) as [x|], (spec_digit c) as [y|]; simpl in H; try discriminate; try reflexivity.
    apply Z.eqb_eq in H; congruence.
  - unfold b64_index. rewrite index_of_none.
    + unfold spec_digit.
      repeat match goal with |- context [if ?b then _ else _] => destruct b eqn:? end; try reflexivity; lia.
    + unfold base64. simpl. intuition lia.
Qed.

Lemma b64_index_range c d : b64_index c = Some d -> 0 <= d < 64.
Proof.
  rewrite b64_index_is_spec. unfold spec_digit.
  repeat match goal with |- context [if ?b then _ else _] => destruct b eqn:? end;
    intro H; inversion H; subst; lia.
Qed.

Lemma pow5 fuel : 2 ^ (5 * Z.of_nat (S fuel)) = 32 * 2 ^ (5 * Z.of_nat fuel).
Proof.
  replace (5 * Z.of_nat (S fuel)) with (5 + 5 * Z.of_nat fuel) by lia.
  rewrite Z.pow_add_r by lia. reflexivity.
Qed.

Lemma dec_enc_loop : forall fuel vlq shift acc rest,
  (0 < fuel)%nat -> 0 <= vlq < 2 ^ (5 * Z.of_nat fuel) -> 0 <= shift ->
  dec_loop (enc_loop fuel vlq ++ rest) shift acc = Some (acc + vlq * 2 ^ shift, rest).
Proof.
  induction fuel as [|f IH]; intros vlq shift acc rest Hf Hv Hs; [lia|].
  cbn [enc_loop]. rewrite pow5 in Hv.
  assert (Hd : 0 <= vlq mod 32 < 32) by (apply Z.mod_pos_bound; lia).
  destruct (Z.eqb_spec (vlq / 32) 0) as [Hz|Hnz].
  - cbn [app dec_loop]. rewrite b64_index_char by lia.
    replace (vlq mod 32 <? 32) with true by lia.
    rewrite Z.mod_mod by lia.
    replace (vlq mod 32) with vlq by lia. reflexivity.
  - cbn [app dec_loop]. rewrite b64_index_char by lia.
    replace (vlq mod 32 + 32 <? 32) with false by lia.
    replace ((vlq mod 32 + 32) mod 32) with (vlq mod 32) by lia.
    assert (Hq : 0 <= vlq / 32 < 2 ^ (5 * Z.of_nat f)) by lia.
    assert (Hfpos : (0 < f)%nat).
    { destruct f; [|lia]. simpl in Hq. lia. }
    rewrite IH by (try assumption; lia).
    f_equal. f_equal.
    rewrite Z.pow_add_r by lia. change (2 ^ 5) with 32.
    pose proof (Z.div_mod vlq 32 ltac:(lia)) as Hdm. nia.
Qed.

Lemma log2_fuel vlq : 0 <= vlq -> vlq < 2 ^ (5 * Z.of_nat (S (Z.to_nat (Z.log2 vlq)))).
Proof.
  intro H. destruct (Z.eq_dec vlq 0) as [->|Hne].
  - simpl. lia.
  - assert (Hpos : 0 < vlq) by lia.
    pose proof (Z.log2_spec vlq Hpos) as [_ Hub].
    pose proof (Z.log2_nonneg vlq) as Hl.
    eapply Z.lt_le_trans; [exact Hub|].
    apply Z.pow_le_mono_r; lia.
Qed.

Lemma from_to_vlq v : from_vlq (to_vlq v) = v.
Proof.
  unfold from_vlq, to_vlq. destruct (Z.ltb_spec v 0).
  - replace (Z.odd (2 * - v + 1)) with true.
    + lia.
    + symmetry. replace (2 * - v + 1) with (1 + 2 * - v) by lia.
      rewrite Z.odd_add_mul_2. reflexivity.
  - replace (Z.odd (2 * v)) with false.
    + lia.
    + symmetry. rewrite Z.odd_mul. reflexivity.
Qed.

Lemma to_vlq_nonneg v : 0 <= to_vlq v.
Proof. unfold to_vlq. destruct (Z.ltb_spec v 0); lia. Qed.

(* Round trip for every integer: the decoder applied to the encoding followed
   by arbitrary further bytes returns the value and exactly the further bytes. *)
Lemma vlq_roundtrip_all v rest : DecodeVLQ (encodeVLQ v ++ rest) = Some (v, rest).
Proof.
  unfold DecodeVLQ, encodeVLQ.
  rewrite dec_enc_loop; try lia.
  - rewrite Z.pow_0_r, Z.mul_1_r, Z.add_0_l, from_to_vlq. reflexivity.
  - split; [apply to_vlq_nonneg | apply log2_fuel, to_vlq_nonneg].
Qed.

(* the encoding is never empty and its bytes are base64 digits; the last one
   has no continuation bit, all others have it *)
Lemma enc_loop_nonempty fuel vlq : (0 < fuel)%nat -> enc_loop fuel vlq <> [].
Proof. destruct fuel; [lia|]. intros _. cbn [enc_loop]. destruct (_ =? 0); discriminate. Qed.

Lemma encodeVLQ_nonempty v : encodeVLQ v <> [].
Proof. unfold encodeVLQ. apply enc_loop_nonempty. lia. Qed.

(* number of digits: a value with |v| < 2^62 needs at most 13 digits, so the
   shift in Go's 64-bit decoder never reaches 64 *)
Lemma enc_loop_length fuel vlq : (length (enc_loop fuel vlq) <= fuel)%nat.
Proof.
  revert vlq; induction fuel as [|f IH]; intro vlq; cbn [enc_loop]; [simpl; lia|].
  destruct (_ =? 0); simpl; [lia|]. specialize (IH (vlq / 32)). lia.
Qed.

Lemma enc_loop_length_sharp : forall n fuel vlq,
  (0 < n)%nat -> 0 <= vlq < 2 ^ (5 * Z.of_nat n) -> (length (enc_loop fuel vlq) <= n)%nat.
Proof.
  induction n as [|n IH]; intros fuel vlq Hn Hv; [lia|].
  destruct fuel as [|f]; cbn [enc_loop]; [simpl; lia|].
  rewrite pow5 in Hv.
  destruct (Z.eqb_spec (vlq / 32) 0) as [Hz|Hnz]; [simpl; lia|].
  cbn [length]. apply le_n_S.
  assert (Hq : 0 <= vlq / 32 < 2 ^ (5 * Z.of_nat n)) by lia.
  apply IH; [|exact Hq].
  destruct n; [simpl in Hq; lia | lia].
Qed.

Lemma encodeVLQ_length_bound v : - 2 ^ 62 < v < 2 ^ 62 -> (length (encodeVLQ v) <= 13)%nat.
Proof.
  intro Hv. unfold encodeVLQ.
  apply enc_loop_length_sharp; [lia|].
  assert (E : 2 ^ (5 * Z.of_nat 13) = 4 * 2 ^ 63) by reflexivity. rewrite E.
  assert (E2 : 2 ^ 63 = 2 * 2 ^ 62) by reflexivity. rewrite E2.
  remember (2 ^ 62) as P in *. clear HeqP E E2. unfold to_vlq. destruct (Z.ltb_spec v 0); lia.
Qed.
