(* builder_composes: the ChunkBuilder with an input source map [ms] (sorted by
   generated position) emits, for every recorded AddSourceMapping call, the
   mapping  (generated position of the output so far) |-> the target of
   [spec_find ms (linecol_utf16 text loc)]  (source index, original line and
   column of the LAST input mapping at or before that position on that line),
   and nothing when there is none; the name is the input mapping's name when it
   has one, else the caller's; no cover mappings. *)
From V Require Import Common.Base Common.Utf8 C07.Vlq C07.SpecMap C07.Mappings C07.LineCol C07.Builder
  C07.VlqProofs C07.MappingsProofs C07.JoinProofs C07.BuilderProofs C07.LineColAux C07.LineColProofs
  C07.SpecBuilder C07.BuilderExact C07.FindProofs C07.BuilderIn.

(* ---------------- specification ---------------- *)

Definition in_name (inames : list Z) (m : mapping) (name : Z) : Z :=
  match m_name m with Some i => nth (Z.to_nat i) inames 0 | None => name end.

Definition sp_event_in (text : bytes) (ms : list mapping) (inames : list Z) (w : sw) (loc name : Z) (delta : bytes) : sw * list op :=
  let newlen := w_len w + Z.of_nat (length (w_pend w)) + Z.of_nat (length delta) in
  if (loc =? w_ploc w) && ((w_plen w =? newlen) || (w_pname w =? name))
  then (mkSw (w_line w) (w_col w) (w_pend w ++ delta) (w_len w) (w_ploc w) (w_plen w) (w_pname w)
             (w_names w) (w_last w) (w_has w), [])
  else
    let t := w_pend w ++ delta in
    let lc := adv (w_line w, w_col w) t in
    let k := Z.to_nat (fst lc - w_line w) in
    let orig := linecol_utf16 text loc in
    match spec_find ms (fst orig) (snd orig) with
    | None =>
      (mkSw (fst lc) (snd lc) [] (w_len w + Z.of_nat (length t)) loc newlen name (w_names w) (w_last w) true,
       repeat ONewline k)
    | Some m =>
      let ni := name_index (w_names w) (in_name inames m name) in
      (mkSw (fst lc) (snd lc) [] (w_len w + Z.of_nat (length t)) loc newlen name (fst ni)
            (Some (m_oline m, m_ocol m)) true,
       repeat ONewline k ++ [OMap (snd lc) (m_src m) (m_oline m) (m_ocol m) (snd ni)])
    end.

Fixpoint sp_run_in (text : bytes) (ms : list mapping) (inames : list Z) (w : sw) (evs : list (Z * Z * bytes)) : sw * list op :=
  match evs with
  | [] => (w, [])
  | (loc, name, delta) :: r =>
    let w1 := sp_event_in text ms inames w loc name delta in
    let w2 := sp_run_in text ms inames (fst w1) r in
    (fst w2, snd w1 ++ snd w2)
  end.

Definition builder_in_spec (text : bytes) (ms : list mapping) (inames : list Z) (evs : list (Z * Z * bytes)) (fin : bytes)
  : list op * list Z * Z :=
  let r := sp_run_in text ms inames sw0 evs in
  let lc := adv (w_line (fst r), w_col (fst r)) (w_pend (fst r) ++ fin) in
  (snd r ++ repeat ONewline (Z.to_nat (fst lc - w_line (fst r))), w_names (fst r), snd lc).

(* every name index of the input map is inside its Names array (else Go panics) *)
Definition names_in_range (ms : list mapping) (inames : list Z) : Prop :=
  Forall (fun m => match m_name m with Some i => (Z.to_nat i < length inames)%nat | None => True end) ms.

(* ---------------- proof ---------------- *)

Lemma breaks_nil : forall k has, breaks_ops k [] has = repeat ONewline k.
Proof. induction k as [|k IH]; intro has; [reflexivity|]. cbn [breaks_ops repeat]. destruct has; cbn [app]; rewrite IH; reflexivity. Qed.

Lemma spec_find_In ms line col m : spec_find ms line col = Some m -> In m ms.
Proof.
  unfold spec_find. destruct (rev (filter _ ms)) as [|x l] eqn:E; [discriminate|].
  destruct (m_gline x =? line); [|discriminate]. intro H. inversion H; subst x.
  assert (Hin : In m (rev (filter (fun m0 => mapping_le_pos m0 line col) ms))) by (rewrite E; left; reflexivity).
  apply in_rev in Hin. apply filter_In in Hin. apply Hin.
Qed.

(* appendMapping without input map at the current position: name lookup + raw append *)
Lemma rel0_append_named cover b w ops name si ol oc :
  Rel0 cover b w ops -> gcol (b_prev b) <= b_gencol b -> (cover = true -> si = 0) ->
  Rel0 cover (append_named b name (mkState (gline (b_prev b)) (b_gencol b) si ol oc 0 false))
       (mkSw (w_line w) (w_col w) (w_pend w) (w_len w) (w_ploc w) (w_plen w) (w_pname w)
             (fst (name_index (w_names w) name)) (Some (ol, oc)) (w_has w))
       (ops ++ [OMap (b_gencol b) si ol oc (snd (name_index (w_names w) name))]).
Proof.
  intros R Hle Hsi.
  assert (Hn : w_names w = b_names b) by exact (eq_sym (r_names _ _ _ _ R)).
  unfold name_index, append_named. rewrite Hn.
  pose proof (name_pos_eq name (b_names b) 0) as Hp.
  destruct (name =? 0) eqn:En.
  - cbn [fst snd].
    destruct (rel0_append_raw_si cover b w ops (b_gencol b) si ol oc None R Hle (Z.le_refl _) Hsi) as (A & _ & _).
    cbv zeta in A. unfold nm_id, nm_has, set_last in A. rewrite Hn in A. exact A.
  - destruct (index_of_name name (b_names b) 0) as [idx|] eqn:Eidx; rewrite Hp; cbn [fst snd].
    + destruct (rel0_append_raw_si cover b w ops (b_gencol b) si ol oc (Some idx) R Hle (Z.le_refl _) Hsi) as (A & _ & _).
      cbv zeta in A. unfold nm_id, nm_has, set_last in A. rewrite Hn in A. exact A.
    + set (b' := mkBst (b_map b) (b_names b ++ [name]) (b_prev b) (b_gencol b) (b_prevlen b) (b_len b)
                       (b_prevloc b) (b_prevname b) (b_firstname b) (b_hasprev b) (b_linestart b) (b_cover b) (b_pending b)).
      set (w' := mkSw (w_line w) (w_col w) (w_pend w) (w_len w) (w_ploc w) (w_plen w) (w_pname w)
                      (b_names b ++ [name]) (w_last w) (w_has w)).
      assert (R' : Rel0 cover b' w' ops).
      { destruct R as [He Hs Hec Hle' Hnn Hfno Hline Hcol Hpend Hlen Hploc Hplen Hpname Hnames Hcov Hsidx Hlast].
        constructor; cbn [b' w' b_map b_prev b_gencol b_firstname b_pending b_len b_prevloc b_prevlen b_prevname b_names b_cover b_hasprev
                          w_line w_col w_pend w_len w_ploc w_plen w_pname w_names w_last]; try assumption; reflexivity. }
      destruct (rel0_append_raw_si cover b' w' ops (b_gencol b) si ol oc (Some (Z.of_nat (length (b_names b)))) R' Hle (Z.le_refl _) Hsi) as (A & _ & _).
      cbv zeta in A. unfold nm_id, nm_has, set_last in A. exact A.
Qed.

Section EventIn.
Variable text : bytes.
Variable ms : list mapping.
Variable inames : list Z.
Hypothesis Hsorted : sorted_maps ms.
Hypothesis Hrange : names_in_range ms inames.

Lemma rel_event_in b w ops loc name delta :
  Rel false b w ops -> boundary text loc ->
  exists b', AddSourceMappingG (Some (ms, inames)) (GenerateLineOffsetTables text) b loc name delta = Some b' /\
             Rel false b' (fst (sp_event_in text ms inames w loc name delta))
                 (ops ++ snd (sp_event_in text ms inames w loc name delta)).
Proof.
  intros H Hb. unfold AddSourceMappingG, sp_event_in.
  pose proof H as (H0 & Hls & Hz).
  set (newlen := w_len w + Z.of_nat (length (w_pend w)) + Z.of_nat (length delta)).
  assert (Hnl : b_len b + Z.of_nat (length (b_pending b)) + Z.of_nat (length delta) = newlen).
  { subst newlen. rewrite (r_len _ _ _ _ H0), (r_pend _ _ _ _ H0). reflexivity. }
  rewrite Hnl, (r_ploc _ _ _ _ H0), (r_plen _ _ _ _ H0), (r_pname _ _ _ _ H0).
  destruct ((loc =? w_ploc w) && ((w_plen w =? newlen) || (w_pname w =? name))) eqn:Edup.
  - eexists. split; [reflexivity|]. cbn [fst snd]. rewrite app_nil_r.
    destruct H0 as [He Hs Hec Hle Hnn Hfno Hline Hcol Hpend Hlen Hploc Hplen Hpname Hnames Hcov Hsidx Hlast].
    split; [|split; assumption].
    constructor; cbn [b_map b_prev b_gencol b_firstname b_pending b_len b_prevloc b_prevlen b_prevname b_names b_cover b_hasprev
                      w_line w_col w_pend w_len w_ploc w_plen w_pname w_names w_last]; try assumption; try reflexivity.
    rewrite Hpend. reflexivity.
  - rewrite (lineoffset_is_spec text loc Hb).
    destruct (linecol_utf16 text loc) as [ol oc] eqn:Eorig. cbn [fst snd].
    set (b0 := mkBst (b_map b) (b_names b) (b_prev b) (b_gencol b) newlen (b_len b) loc name
                     (b_firstname b) (b_hasprev b) (b_linestart b) (b_cover b) (b_pending b)).
    set (w0 := mkSw (w_line w) (w_col w) (w_pend w) (w_len w) loc newlen name (w_names w) (w_last w) (w_has w)).
    assert (R0 : Rel false b0 w0 ops).
    { destruct H0 as [He Hs Hec Hle Hnn Hfno Hline Hcol Hpend Hlen Hploc Hplen Hpname Hnames Hcov Hsidx Hlast].
      split; [|split; assumption].
      constructor; cbn [b0 w0 b_map b_prev b_gencol b_firstname b_pending b_len b_prevloc b_prevlen b_prevname b_names b_cover b_hasprev
                        w_line w_col w_pend w_len w_ploc w_plen w_pname w_names w_last]; try assumption; reflexivity. }
    pose proof (rel_update_gen false b0 w0 ops delta R0) as R1. cbv zeta in R1.
    cbn [w0 w_line w_col w_pend w_last w_has cover_op] in R1. rewrite breaks_nil in R1.
    set (lc := adv (w_line w, w_col w) (w_pend w ++ delta)) in *.
    set (k := Z.to_nat (fst lc - w_line w)) in *.
    set (b1 := update_gen b0 delta) in *.
    set (w1 := w_scan w0 delta) in *.
    set (ops1 := ops ++ repeat ONewline k) in *.
    destruct R1 as (R1 & _ & _).
    assert (Hcov1 : b_cover b1 = false) by apply (r_cover _ _ _ _ R1).
    rewrite Hcov1. cbn [andb].
    assert (Hg1 : b_gencol b1 = snd lc) by (rewrite (r_col _ _ _ _ R1); reflexivity).
    pose proof (r_le _ _ _ _ R1) as Hle1.
    unfold append_mapping_g. cbn [oline ocol].
    rewrite (find_is_spec ms ol oc Hsorted).
    destruct (spec_find ms ol oc) as [m|] eqn:Ef.
    + (* remapped *)
      assert (Hname : match m_name m with
                      | Some i => nth_error inames (Z.to_nat i) = Some (in_name inames m name)
                      | None => True end).
      { unfold in_name. destruct (m_name m) as [i|] eqn:Em; [|exact I].
        unfold names_in_range in Hrange. rewrite Forall_forall in Hrange.
        specialize (Hrange m (spec_find_In _ _ _ _ Ef)). rewrite Em in Hrange.
        apply nth_error_nth'. exact Hrange. }
      assert (Hres : forall nm', nm' = in_name inames m name ->
        Rel false
          (let b3 := append_named b1 nm' (mkState (gline (b_prev b1)) (b_gencol b1) (m_src m) (m_oline m) (m_ocol m) 0 false) in
           mkBst (b_map b3) (b_names b3) (b_prev b3) (b_gencol b3) (b_prevlen b3) (b_len b3) (b_prevloc b3)
                 (b_prevname b3) (b_firstname b3) (b_hasprev b3) true (b_cover b3) (b_pending b3))
          (mkSw (fst lc) (snd lc) [] (w_len w + Z.of_nat (length (w_pend w ++ delta))) loc newlen name
                (fst (name_index (w_names w) (in_name inames m name))) (Some (m_oline m, m_ocol m)) true)
          (ops ++ repeat ONewline k ++ [OMap (snd lc) (m_src m) (m_oline m) (m_ocol m) (snd (name_index (w_names w) (in_name inames m name)))])).
      { intros nm' ->.
        pose proof (rel0_append_named false b1 w1 ops1 (in_name inames m name) (m_src m) (m_oline m) (m_ocol m) R1 Hle1
                      ltac:(discriminate)) as A.
        refine (Rel_eq _ _ _ _ _ _ (rel_set_linestart _ _ _ _ A) _ _).
        - subst w1 w0. unfold w_scan. reflexivity.
        - subst ops1. rewrite Hg1, <- app_assoc. reflexivity. }
      destruct (m_name m) as [i|] eqn:Em.
      * rewrite Hname. eexists. split; [reflexivity|]. apply Hres. reflexivity.
      * eexists. split; [reflexivity|]. apply Hres. unfold in_name. rewrite Em. reflexivity.
    + (* no input mapping: dropped *)
      eexists. split; [reflexivity|].
      refine (Rel_eq _ _ _ _ _ _ (rel_set_linestart _ _ _ _ R1) _ _).
      * subst w1 w0. unfold w_scan. reflexivity.
      * reflexivity.
Qed.

Lemma rel_run_in : forall evs b w ops,
  Rel false b w ops -> Forall (fun e => boundary text (fst (fst e))) evs ->
  exists b', run_builder_g (Some (ms, inames)) (GenerateLineOffsetTables text) b evs = Some b' /\
             Rel false b' (fst (sp_run_in text ms inames w evs)) (ops ++ snd (sp_run_in text ms inames w evs)).
Proof.
  induction evs as [|[[loc name] delta] evs IH]; intros b w ops H Hall.
  - exists b. split; [reflexivity|]. cbn [sp_run_in fst snd]. rewrite app_nil_r. exact H.
  - inversion Hall as [|e l Hb Hall']; subst. cbn [fst] in Hb.
    destruct (rel_event_in b w ops loc name delta H Hb) as (b1 & E1 & R1).
    destruct (IH b1 _ _ R1 Hall') as (b' & E' & R').
    exists b'. cbn [run_builder_g]. rewrite E1. split; [exact E'|].
    cbn [sp_run_in fst snd]. rewrite app_assoc. exact R'.
Qed.

Theorem builder_composes_all : forall evs fin,
  Forall (fun e => boundary text (fst (fst e))) evs ->
  exists b, run_builder_g (Some (ms, inames)) (GenerateLineOffsetTables text) (bst0_g (Some (ms, inames))) evs = Some b /\
    let '(data, fno, names, endst, fcol, _) := GenerateChunk b fin in
    let '(ops, snames, scol) := builder_in_spec text ms inames evs fin in
    data = emit_bytes ops /\
    spec_decode data = Some (abs_of ops 0) /\
    fno = option_map Z.of_nat (first_name_off ops 0 state0 0) /\
    names = snames /\ fcol = scol /\
    endst = snd (emit ops 0 state0) /\
    sorted_ops ops 0 /\ end_col ops 0 <= fcol.
Proof.
  intros evs fin Hall.
  destruct (rel_run_in evs _ _ _ (Rel_init false) Hall) as (b & Erun & R).
  exists b. split; [exact Erun|].
  cbn [app] in R.
  unfold GenerateChunk, builder_in_spec.
  set (r := sp_run_in text ms inames sw0 evs) in *.
  pose proof (rel_update_gen false b (fst r) (snd r) fin R) as (R' & _ & _). cbv zeta in R'.
  cbn [cover_op] in R'. rewrite breaks_nil in R'.
  cbn [fst snd].
  destruct R' as [He Hs Hec Hle Hnn Hfno Hline Hcol Hpend Hlen Hploc Hplen Hpname Hnames Hcov Hsidx Hlast].
  set (ops := snd r ++ repeat ONewline _) in *.
  assert (Hdata : b_map (update_gen b fin) = emit_bytes ops) by (unfold emit_bytes; rewrite He; reflexivity).
  repeat split.
  - exact Hdata.
  - rewrite Hdata. apply mappings_roundtrip_all.
  - exact Hfno.
  - exact Hnames.
  - exact Hcol.
  - rewrite He. reflexivity.
  - exact Hs.
  - rewrite Hec. exact Hle.
Qed.
End EventIn.

(* ---------------- relation to the list of builder_mappings_exact ---------------- *)

(* remapping of an event list through an input map: every mapping's original
   position is looked up with spec_find; no target = dropped; names aside *)
Fixpoint remap_ops (ms : list mapping) (ops : list op) : list op :=
  match ops with
  | [] => []
  | ONewline :: r => ONewline :: remap_ops ms r
  | OMap gc si ol oc nm :: r =>
    match spec_find ms ol oc with
    | Some m => OMap gc (m_src m) (m_oline m) (m_ocol m) None :: remap_ops ms r
    | None => remap_ops ms r
    end
  | ONull _ :: r => remap_ops ms r      (* nothing to remap: dropped (the builder never emits one) *)
  end.

Fixpoint strip_names (ops : list op) : list op :=
  match ops with
  | [] => []
  | ONewline :: r => ONewline :: strip_names r
  | OMap gc si ol oc _ :: r => OMap gc si ol oc None :: strip_names r
  | ONull gc :: r => ONull gc :: strip_names r
  end.

Lemma remap_ops_app ms a b : remap_ops ms (a ++ b) = remap_ops ms a ++ remap_ops ms b.
Proof.
  induction a as [|[|gc si ol oc nm|gc] a IH]; cbn [app remap_ops]; [reflexivity|rewrite IH; reflexivity| |exact IH].
  destruct (spec_find ms ol oc); rewrite IH; reflexivity.
Qed.
Lemma strip_names_app a b : strip_names (a ++ b) = strip_names a ++ strip_names b.
Proof. induction a as [|[|gc si ol oc nm|gc] a IH]; cbn [app strip_names]; rewrite ?IH; reflexivity. Qed.
Lemma remap_newlines ms k : remap_ops ms (repeat ONewline k) = repeat ONewline k.
Proof. induction k as [|k IH]; cbn [repeat remap_ops]; rewrite ?IH; reflexivity. Qed.
Lemma strip_newlines k : strip_names (repeat ONewline k) = repeat ONewline k.
Proof. induction k as [|k IH]; cbn [repeat strip_names]; rewrite ?IH; reflexivity. Qed.

(* the two specification walks agree on everything but names and last position *)
Definition sim (w w' : sw) : Prop :=
  w_line w = w_line w' /\ w_col w = w_col w' /\ w_pend w = w_pend w' /\ w_len w = w_len w' /\
  w_ploc w = w_ploc w' /\ w_plen w = w_plen w' /\ w_pname w = w_pname w'.

Lemma sim_event text ms inames w w' loc name delta :
  sim w w' ->
  sim (fst (sp_event text false w loc name delta)) (fst (sp_event_in text ms inames w' loc name delta)) /\
  strip_names (snd (sp_event_in text ms inames w' loc name delta)) =
  remap_ops ms (snd (sp_event text false w loc name delta)).
Proof.
  intros (E1 & E2 & E3 & E4 & E5 & E6 & E7).
  unfold sp_event, sp_event_in. rewrite <- E1, <- E2, <- E3, <- E4, <- E5, <- E6, <- E7.
  destruct ((loc =? w_ploc w) && _).
  - cbn [fst snd]. split; [|reflexivity]. unfold sim. cbn. repeat split; congruence.
  - cbn [cover_op]. rewrite breaks_nil.
    set (lc := adv (w_line w, w_col w) (w_pend w ++ delta)).
    set (orig := linecol_utf16 text loc).
    assert (Hif : forall (c : bool), (if c then @nil op else []) = []) by (intros []; reflexivity).
    rewrite Hif. cbn [app].
    destruct (spec_find ms (fst orig) (snd orig)) as [m|] eqn:Ef; cbn [fst snd].
    + split; [unfold sim; cbn; repeat split; reflexivity|].
      rewrite strip_names_app, remap_ops_app, strip_newlines, remap_newlines. cbn [strip_names remap_ops].
      rewrite Ef. reflexivity.
    + split; [unfold sim; cbn; repeat split; reflexivity|].
      rewrite remap_ops_app, strip_newlines, remap_newlines. cbn [remap_ops]. rewrite Ef, app_nil_r. reflexivity.
Qed.

Lemma sim_run text ms inames : forall evs w w',
  sim w w' ->
  sim (fst (sp_run text false w evs)) (fst (sp_run_in text ms inames w' evs)) /\
  strip_names (snd (sp_run_in text ms inames w' evs)) = remap_ops ms (snd (sp_run text false w evs)).
Proof.
  induction evs as [|[[loc name] delta] evs IH]; intros w w' Hs.
  - cbn. split; [exact Hs|reflexivity].
  - cbn [sp_run sp_run_in fst snd].
    destruct (sim_event text ms inames w w' loc name delta Hs) as (S1 & O1).
    destruct (IH _ _ S1) as (S2 & O2).
    split; [exact S2|]. rewrite strip_names_app, remap_ops_app, O1, O2. reflexivity.
Qed.

(* the positions of the composed chunk are the positions of the chunk of
   builder_mappings_exact (cover off), remapped through spec_find *)
Theorem composes_remaps_all : forall text ms inames evs fin,
  strip_names (fst (fst (builder_in_spec text ms inames evs fin))) =
  remap_ops ms (builder_spec_ops text false evs fin).
Proof.
  intros. unfold builder_in_spec, builder_spec_ops, builder_spec, sp_final. cbn [fst snd].
  destruct (sim_run text ms inames evs sw0 sw0) as ((E1 & E2 & E3 & _) & O).
  { unfold sim. repeat split. }
  rewrite strip_names_app, remap_ops_app, O. cbn [cover_op]. rewrite breaks_nil, strip_newlines, remap_newlines.
  rewrite <- E1, <- E2, <- E3. reflexivity.
Qed.

(* the same on decoded mappings *)
Definition remap_abs (ms : list mapping) (a : abs) : list abs :=
  match a_src a with
  | Some (_, l, c) =>
    match spec_find ms l c with
    | Some m => [mkAbs (a_gline a) (a_gcol a) (Some (m_src m, m_oline m, m_ocol m)) None]
    | None => []
    end
  | None => []
  end.

Definition strip_abs (a : abs) : abs := mkAbs (a_gline a) (a_gcol a) (a_src a) None.

Lemma abs_of_remap ms : forall ops l, abs_of (remap_ops ms ops) l = flat_map (remap_abs ms) (abs_of ops l).
Proof.
  induction ops as [|[|gc si ol oc nm|gc] r IH]; intro l; cbn [remap_ops abs_of flat_map].
  - reflexivity.
  - apply IH.
  - unfold remap_abs at 1. cbn [a_src a_gline a_gcol]. destruct (spec_find ms ol oc); cbn [abs_of app]; rewrite IH; reflexivity.
  - unfold remap_abs at 1. cbn [a_src app]. apply IH.
Qed.

Lemma abs_of_strip : forall ops l, abs_of (strip_names ops) l = map strip_abs (abs_of ops l).
Proof.
  induction ops as [|[|gc si ol oc nm|gc] r IH]; intro l; cbn [strip_names abs_of map]; rewrite ?IH; reflexivity.
Qed.

Theorem composes_remaps_abs : forall text ms inames evs fin,
  map strip_abs (abs_of (fst (fst (builder_in_spec text ms inames evs fin))) 0) =
  flat_map (remap_abs ms) (abs_of (builder_spec_ops text false evs fin) 0).
Proof.
  intros. rewrite <- abs_of_strip, composes_remaps_all. apply abs_of_remap.
Qed.
