(* join_all_decodes with null entries: the list the linker joins is a list of
   compiled files with mappings interleaved with "null entries" (a file whose
   chunk has no mappings, after a file that has some): a null entry writes one
   mapping without original position at the place where the previous file's
   text ended.  After a null entry on a line the linker's prevEndState column
   and prevColumnOffset are both too large by the same amount ([drift]); the
   deltas it writes are nevertheless the right ones, which is what the
   invariant below carries. *)
From V Require Import Common.Base C07.Vlq C07.SpecMap C07.Mappings C07.VlqProofs C07.MappingsProofs
  C07.JoinProofs C07.Shift C07.LineCol C07.JoinAll C07.JoinAllProofs.

Inductive jitem :=
| JFile (f : jfile)
| JNull (src : Z).          (* isNullEntry: generatedOffset is the zero value *)

Definition res_of_item (it : jitem) : jres :=
  match it with
  | JFile f => res_of f
  | JNull src => mkJres [] None 0 state0 0 false (0, 0) src true
  end.

Definition item_ok (it : jitem) : Prop := match it with JFile f => file_ok f | JNull _ => True end.

(* all events of the joined map; [pco] = the column where the previous text ended *)
Fixpoint joined_ops_i (tbl : list (Z * Z)) (items : list jitem) (pco total : Z) : list op :=
  match items with
  | [] => []
  | JFile f :: r =>
    let sc := start_col f pco in
    repeat ONewline (Z.to_nat (fst (f_off f)))
      ++ rebase sc (src_of tbl f) total true (f_ops f)
      ++ joined_ops_i tbl r (f_fcol f + (if nlines (f_ops f) =? 0 then sc else 0)) (total + f_nn f)
  | JNull _ :: r => ONull pco :: joined_ops_i tbl r pco total
  end.

(* ---------------- a uniform column drift does not change the bytes ---------------- *)

Definition drifted (p : state) (d : Z) : state :=
  mkState (gline p) (gcol p + d) (sidx p) (oline p) (ocol p) (oname p) (has_name p).

Lemma ebytes_drift ds dn d : forall ops lb p dc (fl : bool),
  ebytes (rebase (dc + d) ds dn fl ops) lb (drifted p (if fl then d else 0)) =
  ebytes (rebase dc ds dn fl ops) lb p.
Proof.
  induction ops as [|[|gc si ol oc [n|]|gc] r IH]; intros lb p dc fl; cbn [rebase].
  - reflexivity.
  - rewrite !ebytes_newline. f_equal.
    rewrite <- (IH SEMI (nl_state p) dc false). cbn [drifted].
    apply ebytes_irrel; unfold drifted, nl_state; cbn; try reflexivity; lia.
  - rewrite !ebytes_map_some.
    assert (E : seg4 lb (drifted p (if fl then d else 0)) (if fl then gc + (dc + d) else gc) (si + ds) ol oc
                = seg4 lb p (if fl then gc + dc else gc) (si + ds) ol oc).
    { unfold seg4, drifted. cbn [gcol sidx oline ocol].
      replace ((if fl then gc + (dc + d) else gc) - (gcol p + (if fl then d else 0))) with ((if fl then gc + dc else gc) - gcol p) by (destruct fl; lia).
      reflexivity. }
    rewrite E. cbn [drifted oname]. f_equal. f_equal.
    rewrite <- (IH _ (mkState (gline p) (if fl then gc + dc else gc) (si + ds) ol oc (n + dn) true) dc fl).
    apply ebytes_irrel; unfold drifted; cbn; try reflexivity; destruct fl; lia.
  - rewrite !ebytes_map_none.
    assert (E : seg4 lb (drifted p (if fl then d else 0)) (if fl then gc + (dc + d) else gc) (si + ds) ol oc
                = seg4 lb p (if fl then gc + dc else gc) (si + ds) ol oc).
    { unfold seg4, drifted. cbn [gcol sidx oline ocol].
      replace ((if fl then gc + (dc + d) else gc) - (gcol p + (if fl then d else 0))) with ((if fl then gc + dc else gc) - gcol p) by (destruct fl; lia).
      reflexivity. }
    rewrite E. f_equal.
    rewrite <- (IH _ (mkState (gline p) (if fl then gc + dc else gc) (si + ds) ol oc (oname p) false) dc fl).
    apply ebytes_irrel; unfold drifted; cbn; try reflexivity; destruct fl; lia.
  - rewrite !ebytes_null, !null_seg_eq.
    assert (E : (if fl then gc + (dc + d) else gc) - gcol (drifted p (if fl then d else 0))
                = (if fl then gc + dc else gc) - gcol p).
    { unfold drifted. cbn [gcol]. destruct fl; lia. }
    rewrite E. f_equal.
    rewrite <- (IH _ (null_state p (if fl then gc + dc else gc)) dc fl).
    apply ebytes_irrel; unfold drifted, null_state; cbn; try reflexivity; destruct fl; lia.
Qed.

(* ---------------- the state after a file's events (from join_one_ok) ---------------- *)

Lemma file_end_state pre ops L sc srcs total Qn k gc si ol oc nm rest :
  ops = repeat ONewline k ++ OMap gc si ol oc nm :: rest ->
  Qn = oname (st_after pre state0) ->
  let X := repeat ONewline L ++ rebase sc srcs total true ops in
  let e := st_after ops state0 in
  agree5
     (mkState (gline e) (gcol e + (if gline e =? 0 then sc else 0)) (sidx e + srcs) (oline e) (ocol e)
              (match option_map Z.of_nat (first_name_off ops 0 state0 0) with
               | Some _ => oname e + total | None => Qn end) (has_name e))
     (st_after (pre ++ X) state0).
Proof.
  intros Hops HQ X e.
  set (P := st_after pre state0) in *.
  assert (Hgl : gline e = nlines ops) by (subst e; rewrite st_after_gline; reflexivity).
  subst X. rewrite !st_after_app. fold P. rewrite st_after_newlines.
  set (PL := nl_iter L P).
  pose proof (first_name_off_named ops 0 state0 0) as Hnamed.
  rewrite Hgl. subst e.
  rewrite Hops in *. rewrite nlines_app, nlines_repeat.
  rewrite rebase_newlines, !st_after_app, !st_after_newlines.
  set (fl0 := match k with O => true | S _ => false end).
  cbn [rebase st_after nlines].
  set (p1 := snd (next_state (nl_iter k state0) gc si ol oc nm)).
  set (P1 := snd (next_state (nl_iter k PL) (if fl0 then gc + sc else gc) (si + srcs) ol oc
                             (match nm with Some n => Some (n + total) | None => None end))).
  assert (HR : rel4 sc srcs P1 p1 fl0).
  { subst P1 p1. unfold next_state, rel4. destruct nm; cbn; destruct fl0; repeat split; lia. }
  destruct (st_after_rebase sc srcs total rest p1 P1 fl0 HR) as ((B1 & B2 & B3 & B4) & B5).
  set (e := st_after rest p1) in *. set (E := st_after (rebase sc srcs total fl0 rest) P1) in *.
  pose proof (nlines_nonneg rest) as Hnn.
  assert (Hfl : (Z.of_nat k + nlines rest =? 0) = fl0 && (nlines rest =? 0)).
  { subst fl0. destruct k; cbn [andb]; lia. }
  rewrite Hfl.
  assert (Hnm : ops_named (repeat ONewline k ++ OMap gc si ol oc nm :: rest) =
                match nm with Some _ => true | None => ops_named rest end).
  { clear. induction k as [|k IH]; [destruct nm; reflexivity|]. cbn [repeat app ops_named]. exact IH. }
  rewrite Hnm in Hnamed.
  unfold agree5. cbn [gcol sidx oline ocol oname].
  split; [lia|]. split; [lia|]. split; [lia|]. split; [lia|].
  destruct (first_name_off _ 0 state0 0) as [x|]; cbn [option_map].
  - destruct nm as [n|].
    + destruct (ops_named rest); [lia|]. destruct B5 as (B5 & B6). rewrite B5, B6. subst P1 p1. cbn. lia.
    + rewrite Hnamed in B5. lia.
  - destruct nm as [n|]; [discriminate|]. rewrite Hnamed in B5. destruct B5 as (B5 & _). rewrite B5.
    subst P1. unfold next_state. cbn [snd oname].
    destruct (nl_iter_fields k PL) as (_ & _ & _ & C4 & _). rewrite C4.
    subst PL. destruct (nl_iter_fields L P) as (_ & _ & _ & D4 & _). rewrite D4.
    exact HQ.
Qed.

(* ---------------- one step of the loop, with drift ---------------- *)

Definition drift5 (d : Z) (a P : state) : Prop :=
  gcol a = gcol P + d /\ sidx a = sidx P /\ oline a = oline P /\ ocol a = ocol P /\ oname a = oname P.

Section Loop.
Variable jl0 : Z.
Variable tbl : list (Z * Z).

Lemma join_file_drift s f pre T d :
  file_ok f -> tbl_find (f_src f) tbl <> None ->
  js_out s = ebytes pre jl0 state0 -> drift5 d (js_prev s) (st_after pre state0) -> js_pco s = T + d ->
  let X := repeat ONewline (Z.to_nat (fst (f_off f)))
             ++ rebase (start_col f T) (src_of tbl f) (js_total s) true (f_ops f) in
  exists s' d', join_one jl0 tbl s (res_of f) = Some s' /\
    js_out s' = ebytes (pre ++ X) jl0 state0 /\
    drift5 d' (js_prev s') (st_after (pre ++ X) state0) /\
    js_pco s' = f_fcol f + (if nlines (f_ops f) =? 0 then start_col f T else 0) + d' /\
    js_total s' = js_total s + f_nn f.
Proof.
  intros ((k & gc & si & ol & oc & nm & rest & Hops) & Hoff) Htbl Hout Hag Hpco X.
  unfold join_one. cbn [res_of j_src j_null j_ignore j_off j_data j_fno j_end j_fcol j_nnames].
  unfold src_of in X. destruct (tbl_find (f_src f) tbl) as [srcs|] eqn:Et; [|congruence].
  set (start := mkState (fst (f_off f)) (snd (f_off f) + (if fst (f_off f) =? 0 then js_pco s else 0)) srcs 0 0 (js_total s) false).
  set (jl := last (js_out s) jl0).
  pose proof (join_bytes_all k gc si ol oc nm rest jl (js_prev s) start eq_refl eq_refl eq_refl Hoff) as HJ.
  cbv zeta in HJ. rewrite <- Hops in HJ.
  change (ebytes (f_ops f) 0 state0) with (emit_bytes (f_ops f)) in HJ.
  rewrite HJ. clear HJ.
  cbn [gline gcol sidx oname start] in *.
  set (dd := if fst (f_off f) =? 0 then d else 0).
  set (sc := start_col f T) in *.
  assert (Hsc : snd (f_off f) + (if fst (f_off f) =? 0 then js_pco s else 0) = sc + dd).
  { subst sc dd. unfold start_col. rewrite Hpco. destruct (fst (f_off f) =? 0); lia. }
  rewrite Hsc.
  set (P := st_after pre state0) in *.
  set (L := Z.to_nat (fst (f_off f))) in *.
  set (ops := f_ops f) in *.
  destruct Hag as (A1 & A2 & A3 & A4 & A5).
  (* the bytes *)
  assert (HX : ebytes (repeat ONewline L ++ rebase (sc + dd) srcs (js_total s) true ops) jl (js_prev s) = ebytes X jl P).
  { subst X. destruct (Z.eqb_spec (fst (f_off f)) 0) as [E0|E0].
    - assert (HL : L = 0%nat) by (subst L; rewrite E0; reflexivity). rewrite HL. cbn [repeat app].
      subst dd. rewrite <- (ebytes_drift srcs (js_total s) d ops jl P sc true).
      apply ebytes_irrel; unfold drifted; cbn; assumption.
    - subst dd. rewrite Z.add_0_r. rewrite !ebytes_newlines. f_equal.
      destruct (nl_iter_fields L (js_prev s)) as (B1 & B2 & B3 & B4 & B5).
      destruct (nl_iter_fields L P) as (C1 & C2 & C3 & C4 & C5).
      apply ebytes_irrel; try congruence.
      rewrite B5, C5. destruct L eqn:EL; [subst L; lia|reflexivity]. }
  rewrite HX.
  assert (Hjl : jl = snd (fst (emit pre jl0 state0))).
  { subst jl. rewrite Hout. unfold ebytes. symmetry. apply emit_last. }
  assert (Hbytes : js_out s ++ ebytes X jl P = ebytes (pre ++ X) jl0 state0).
  { unfold ebytes at 2. rewrite emit_app.
    pose proof (emit_state pre jl0 state0) as Hst.
    destruct (emit pre jl0 state0) as [[b0 l0] s0] eqn:E0. cbn [fst snd] in *.
    rewrite Hout. unfold ebytes at 1. rewrite E0. cbn [fst]. subst l0 s0.
    fold P. unfold ebytes. destruct (emit X jl P) as [[bb lbb] sb]. reflexivity. }
  rewrite emit_state.
  pose proof (file_end_state pre ops L sc srcs (js_total s) (oname (js_prev s)) k gc si ol oc nm rest Hops A5) as Hstate.
  cbv zeta in Hstate. fold X in Hstate.
  set (e := st_after ops state0) in *.
  assert (Hgl : gline e = nlines ops) by (subst e; rewrite st_after_gline; reflexivity).
  destruct Hstate as (S1 & S2 & S3 & S4 & S5). cbn [gcol sidx oline ocol oname] in S1, S2, S3, S4, S5.
  assert (Hgs : gcol start = sc + dd) by (subst start; cbn [gcol]; exact Hsc).
  eexists. exists (if nlines ops =? 0 then dd else 0). split; [reflexivity|].
  unfold join_finish. cbn [gline gcol sidx oline ocol oname has_name].
  rewrite Hgl in *.
  destruct (nlines ops =? 0) eqn:Enl; cbn [js_out js_prev js_pco js_total];
    (split; [exact Hbytes|]); (split; [|split; [try lia|reflexivity]]);
    unfold drift5; cbn [gcol sidx oline ocol oname]; repeat split; try (assumption || lia).
Qed.
End Loop.

(* AppendSourceMapChunk on the null chunk "A" *)
Lemma append_null jl prev c srcs total :
  AppendSourceMapChunk jl prev (mkState 0 c srcs 0 0 total false) (mkChunk [65] None) =
  Some ((if sepb jl then [COMMA] else []) ++ encodeVLQ (c - gcol prev)).
Proof.
  unfold AppendSourceMapChunk, sepb, appendMapping.
  cbn -[encodeVLQ Z.sub Z.add].
  rewrite Z.add_0_r, !app_nil_r. reflexivity.
Qed.

Section Loop2.
Variable jl0 : Z.
Variable tbl : list (Z * Z).

Lemma join_null_drift s src pre T d :
  js_out s = ebytes pre jl0 state0 -> drift5 d (js_prev s) (st_after pre state0) -> js_pco s = T + d ->
  exists s' d', join_one jl0 tbl s (res_of_item (JNull src)) = Some s' /\
    js_out s' = ebytes (pre ++ [ONull T]) jl0 state0 /\
    drift5 d' (js_prev s') (st_after (pre ++ [ONull T]) state0) /\
    js_pco s' = T + d' /\ js_total s' = js_total s.
Proof.
  intros Hout (A1 & A2 & A3 & A4 & A5) Hpco.
  unfold join_one. cbn [res_of_item j_src j_null j_ignore j_off j_data j_fno j_end j_fcol j_nnames fst snd].
  set (srcs := match tbl_find src tbl with Some i => Some i | None => Some 0 end).
  assert (Hs : exists i, srcs = Some i) by (subst srcs; destruct (tbl_find src tbl); eexists; reflexivity).
  clearbody srcs. destruct Hs as (i & ->).
  change (0 =? 0) with true. cbv iota.
  rewrite append_null.
  set (P := st_after pre state0) in *.
  set (jl := last (js_out s) jl0).
  assert (Hseg : (if sepb jl then [COMMA] else []) ++ encodeVLQ (0 + js_pco s - gcol (js_prev s)) = null_seg jl P T).
  { rewrite null_seg_eq. f_equal. f_equal. lia. }
  rewrite Hseg.
  assert (Hjl : jl = snd (fst (emit pre jl0 state0))).
  { subst jl. rewrite Hout. unfold ebytes. symmetry. apply emit_last. }
  assert (Hbytes : js_out s ++ null_seg jl P T = ebytes (pre ++ [ONull T]) jl0 state0).
  { unfold ebytes at 1. rewrite emit_app.
    pose proof (emit_state pre jl0 state0) as Hst.
    destruct (emit pre jl0 state0) as [[b0 l0] s0] eqn:E0. cbn [fst snd] in *.
    rewrite Hout. unfold ebytes. rewrite E0. cbn [fst emit]. subst l0 s0. fold P.
    rewrite app_nil_r. reflexivity. }
  eexists. exists (T + 2 * d). split; [reflexivity|].
  unfold join_finish. cbn [gline gcol sidx oline ocol oname has_name]. change (0 =? 0) with true. cbv iota.
  cbn [js_out js_prev js_pco js_total].
  split; [exact Hbytes|]. split; [|split; [lia|reflexivity]].
  rewrite st_after_app. fold P. cbn [st_after]. unfold drift5, null_state. cbn [gcol sidx oline ocol oname].
  repeat split; try assumption; lia.
Qed.

(* the n-item statement, bytes *)
Lemma join_loop_bytes_i : forall items s pre T d,
  Forall item_ok items ->
  (forall f, In (JFile f) items -> tbl_find (f_src f) tbl <> None) ->
  js_out s = ebytes pre jl0 state0 -> drift5 d (js_prev s) (st_after pre state0) -> js_pco s = T + d ->
  exists s', join_loop jl0 tbl s (map res_of_item items) = Some s' /\
    js_out s' = ebytes (pre ++ joined_ops_i tbl items T (js_total s)) jl0 state0.
Proof.
  induction items as [|it items IH]; intros s pre T d Hok Htbl Hout Hag Hpco.
  - exists s. split; [reflexivity|]. cbn [joined_ops_i]. rewrite app_nil_r. exact Hout.
  - inversion Hok as [|it' l Hit Hok']; subst.
    destruct it as [f|src].
    + destruct (join_file_drift jl0 tbl s f pre T d Hit (Htbl f (or_introl eq_refl)) Hout Hag Hpco)
        as (s1 & d1 & E1 & O1 & A1 & P1 & T1).
      cbv zeta in O1, A1.
      destruct (IH s1 _ _ d1 Hok' (fun g Hg => Htbl g (or_intror Hg)) O1 A1 P1) as (s' & E' & O').
      exists s'. cbn [map join_loop res_of_item]. rewrite E1. split; [exact E'|].
      rewrite O'. cbn [joined_ops_i]. rewrite T1. rewrite <- !app_assoc. reflexivity.
    + destruct (join_null_drift s src pre T d Hout Hag Hpco) as (s1 & d1 & E1 & O1 & A1 & P1 & T1).
      destruct (IH s1 _ _ d1 Hok' (fun g Hg => Htbl g (or_intror Hg)) O1 A1 P1) as (s' & E' & O').
      exists s'. cbn [map join_loop]. rewrite E1. split; [exact E'|].
      rewrite O'. cbn [joined_ops_i]. rewrite T1. rewrite <- !app_assoc. reflexivity.
Qed.
End Loop2.

(* ---------------- the declarative reading ---------------- *)

(* a null entry: one mapping without original position where the previous text ended *)
Fixpoint joined_abs_i (tbl : list (Z * Z)) (items : list jitem) (pos : Z * Z) (total : Z) : list abs :=
  match items with
  | [] => []
  | JFile f :: r =>
    let start := pos_add pos (f_off f) in
    map (move_abs (fst start) (snd start) (src_of tbl f) total) (abs_of (f_ops f) 0)
      ++ joined_abs_i tbl r (pos_add start (nlines (f_ops f), f_fcol f)) (total + f_nn f)
  | JNull _ :: r => mkAbs (fst pos) (snd pos) None None :: joined_abs_i tbl r pos total
  end.

Lemma abs_of_joined_i tbl : forall items line pco total,
  Forall item_ok items ->
  abs_of (joined_ops_i tbl items pco total) line = joined_abs_i tbl items (line, pco) total.
Proof.
  induction items as [|[f|src] items IH]; intros line pco total Hall; [reflexivity| |];
    inversion Hall as [|it l Hf Hall']; subst; cbn [joined_ops_i joined_abs_i].
  - destruct Hf as [_ Hf].
    rewrite abs_of_app, abs_of_newlines, nlines_repeat. cbn [app].
    rewrite abs_of_app, nlines_rebase.
    rewrite Z2Nat.id by exact Hf.
    assert (Hstart : pos_add (line, pco) (f_off f) = (line + fst (f_off f), start_col f pco)).
    { unfold pos_add, start_col. cbn [fst snd]. destruct (Z.eqb_spec (fst (f_off f)) 0) as [E|E].
      - rewrite E. f_equal; lia.
      - f_equal. lia. }
    rewrite Hstart. cbn [fst snd].
    rewrite <- (Z.add_0_r (line + fst (f_off f))) at 1.
    rewrite (abs_of_rebase _ _ _ _ (f_ops f) 0 true (Z.le_refl 0) eq_refl).
    f_equal. rewrite IH by exact Hall'. f_equal.
    unfold pos_add. cbn [fst snd]. destruct (nlines (f_ops f) =? 0) eqn:E; f_equal; lia.
  - cbn [abs_of fst snd]. f_equal. apply IH. exact Hall'.
Qed.

(* For every list of compiled files (builder-produced chunks with a mapping, any
   offsets with a non-negative line count, any source indices) interleaved with
   null entries, the loop of generateSourceMapForChunk does not panic and the
   mappings it writes denote exactly: every file's mappings at the place of the
   file's text, and for every null entry one mapping without original position
   at the place where the previous file's text ended. *)
Theorem join_all_decodes_items : forall items,
  Forall item_ok items ->
  let tbl := assign_sources (map res_of_item items) [] 0 in
  exists m, join_all (map res_of_item items) = Some m /\
            m = emit_bytes (joined_ops_i tbl items 0 0) /\
            spec_decode m = Some (joined_abs_i tbl items (0, 0) 0).
Proof.
  intros items Hok tbl. unfold join_all. fold tbl.
  assert (Htbl : forall f, In (JFile f) items -> tbl_find (f_src f) tbl <> None).
  { intros f Hin. subst tbl.
    apply (assign_complete (map res_of_item items) [] 0 (res_of f)); [|reflexivity].
    change (res_of f) with (res_of_item (JFile f)). apply in_map, Hin. }
  destruct (join_loop_bytes_i QUOTE tbl items jst0 [] 0 0 Hok Htbl eq_refl) as (s & E & O).
  { unfold drift5. cbn. repeat split. }
  { reflexivity. }
  rewrite E. eexists. split; [reflexivity|].
  cbn [app js_total jst0] in O.
  assert (Hm : js_out s = emit_bytes (joined_ops_i tbl items 0 0)).
  { rewrite O. unfold emit_bytes. apply ebytes_lb. reflexivity. }
  split; [exact Hm|]. rewrite Hm, mappings_roundtrip_all. f_equal.
  apply abs_of_joined_i. exact Hok.
Qed.
