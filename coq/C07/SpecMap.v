(* C07 specification: the meaning of a source-map v3 "mappings" string,
   written from the Source Map Revision 3 proposal, independently of esbuild's
   code: lines separated by ';', segments by ',', each segment 1, 4 or 5
   base64-VLQ fields, every field relative to the previous occurrence of the
   same field, the generated column being reset at every line.
   The decoder is a single left-to-right pass (a fold) so that
   decode (a ++ b) = continue (decode a) b holds by construction. *)
From V Require Import Common.Base.

(* RFC 4648 base64 alphabet, by ranges (not by table) *)
Definition spec_digit (c : Z) : option Z :=
  if (65 <=? c) && (c <=? 90) then Some (c - 65)
  else if (97 <=? c) && (c <=? 122) then Some (c - 97 + 26)
  else if (48 <=? c) && (c <=? 57) then Some (c - 48 + 52)
  else if c =? 43 then Some 62
  else if c =? 47 then Some 63
  else None.

(* absolute mapping: generated line/column, optional (source, line, column), optional name *)
Record abs := mkAbs {
  a_gline : Z; a_gcol : Z; a_src : option (Z * Z * Z); a_name : option Z
}.

Record dst := mkDst {
  d_line : Z; d_col : Z; d_src : Z; d_oline : Z; d_ocol : Z; d_name : Z;
  d_fields : list Z;      (* fields of the current segment, most recent first *)
  d_acc : Z; d_shift : Z; d_mid : bool;   (* partially read VLQ *)
  d_out : list abs;       (* most recent first *)
  d_err : bool
}.

Definition dst0 : dst := mkDst 0 0 0 0 0 0 [] 0 0 false [] false.

Definition set_err (s : dst) : dst :=
  mkDst (d_line s) (d_col s) (d_src s) (d_oline s) (d_ocol s) (d_name s)
        (d_fields s) (d_acc s) (d_shift s) (d_mid s) (d_out s) true.

Definition finish_segment (s : dst) : dst :=
  if d_mid s then set_err s else
  match rev (d_fields s) with
  | [] => s
  | [a] =>
    let col := d_col s + a in
    mkDst (d_line s) col (d_src s) (d_oline s) (d_ocol s) (d_name s) [] 0 0 false
          (mkAbs (d_line s) col None None :: d_out s) (d_err s)
  | [a; b; c; d] =>
    let col := d_col s + a in let src := d_src s + b in
    let ol := d_oline s + c in let oc := d_ocol s + d in
    mkDst (d_line s) col src ol oc (d_name s) [] 0 0 false
          (mkAbs (d_line s) col (Some (src, ol, oc)) None :: d_out s) (d_err s)
  | [a; b; c; d; e] =>
    let col := d_col s + a in let src := d_src s + b in
    let ol := d_oline s + c in let oc := d_ocol s + d in
    let nm := d_name s + e in
    mkDst (d_line s) col src ol oc nm [] 0 0 false
          (mkAbs (d_line s) col (Some (src, ol, oc)) (Some nm) :: d_out s) (d_err s)
  | _ => set_err s
  end.

Definition signed_of (vlq : Z) : Z := if Z.even vlq then vlq / 2 else - (vlq / 2).

Definition spec_step (s : dst) (c : Z) : dst :=
  if c =? 59 then
    let s' := finish_segment s in
    mkDst (d_line s' + 1) 0 (d_src s') (d_oline s') (d_ocol s') (d_name s')
          [] 0 0 false (d_out s') (d_err s')
  else if c =? 44 then finish_segment s
  else match spec_digit c with
  | None => set_err s
  | Some d =>
    let acc := d_acc s + (d mod 32) * 2 ^ (d_shift s) in
    if d <? 32 then
      mkDst (d_line s) (d_col s) (d_src s) (d_oline s) (d_ocol s) (d_name s)
            (signed_of acc :: d_fields s) 0 0 false (d_out s) (d_err s)
    else
      mkDst (d_line s) (d_col s) (d_src s) (d_oline s) (d_ocol s) (d_name s)
            (d_fields s) acc (d_shift s + 5) true (d_out s) (d_err s)
  end.

Definition spec_run (s : dst) (l : bytes) : dst := fold_left spec_step l s.

Definition spec_decode (l : bytes) : option (list abs) :=
  let s := finish_segment (spec_run dst0 l) in
  if d_err s then None else Some (rev (d_out s)).

(* Well-formedness demanded by the property: sorted by generated position *)
Definition abs_pos_le (a b : abs) : bool :=
  (a_gline a <? a_gline b) || ((a_gline a =? a_gline b) && (a_gcol a <=? a_gcol b)).

Fixpoint sorted_abs (l : list abs) : bool :=
  match l with
  | a :: ((b :: _) as r) => abs_pos_le a b && sorted_abs r
  | _ => true
  end.
