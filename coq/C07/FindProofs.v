From V Require Import Common.Base C07.Vlq.

(* Specification of a source-map lookup (Mozilla source-map semantics used by
   esbuild): the last mapping whose generated position is <= the query, and
   only if it is on the queried line. *)
Definition spec_find (ms : list mapping) (line col : Z) : option mapping :=
  match rev (filter (fun m => mapping_le_pos m line col) ms) with
  | m :: _ => if m_gline m =? line then Some m else None
  | [] => None
  end.

Definition pos_le (a b : mapping) : Prop :=
  m_gline a < m_gline b \/ (m_gline a = m_gline b /\ m_gcol a <= m_gcol b).

Fixpoint sorted_maps (l : list mapping) : Prop :=
  match l with
  | a :: ((b :: _) as r) => pos_le a b /\ sorted_maps r
  | _ => True
  end.

Lemma le_pos_mono a b line col :
  pos_le a b -> mapping_le_pos b line col = true -> mapping_le_pos a line col = true.
Proof. unfold pos_le, mapping_le_pos. intros H Hb. lia. Qed.

Lemma sorted_tail a l : sorted_maps (a :: l) -> sorted_maps l.
Proof. destruct l; simpl; tauto. Qed.

Lemma sorted_all_false a l line col :
  sorted_maps (a :: l) -> mapping_le_pos a line col = false ->
  forallb (fun m => negb (mapping_le_pos m line col)) (a :: l) = true.
Proof.
  revert a. induction l as [|b l IH]; intros a Hs Ha; simpl.
  - rewrite Ha. reflexivity.
  - rewrite Ha. simpl. destruct Hs as [Hab Hs].
    assert (Hb : mapping_le_pos b line col = false).
    { destruct (mapping_le_pos b line col) eqn:E; [|reflexivity].
      rewrite (le_pos_mono a b line col Hab E) in Ha. discriminate. }
    apply (IH b Hs Hb).
Qed.

Lemma sorted_split ms line col : sorted_maps ms ->
  exists a b, ms = a ++ b /\
    forallb (fun m => mapping_le_pos m line col) a = true /\
    forallb (fun m => negb (mapping_le_pos m line col)) b = true.
Proof.
  induction ms as [|m ms IH]; intro Hs.
  - exists [], []. repeat split.
  - destruct (mapping_le_pos m line col) eqn:E.
    + destruct (IH (sorted_tail _ _ Hs)) as (a & b & -> & Ha & Hb).
      exists (m :: a), b. simpl. rewrite E, Ha. repeat split. exact Hb.
    + exists [], (m :: ms). split; [reflexivity|]. split; [reflexivity|].
      apply sorted_all_false; assumption.
Qed.

Lemma nth_error_app_l {A} (a b : list A) i : (i < length a)%nat -> nth_error (a ++ b) i = nth_error a i.
Proof. intro H. apply nth_error_app1. exact H. Qed.

Lemma forallb_nth {A} (P : A -> bool) l i x :
  forallb P l = true -> nth_error l i = Some x -> P x = true.
Proof.
  intros H Hn. rewrite forallb_forall in H. apply H. eapply nth_error_In. exact Hn.
Qed.

Lemma find_loop_spec line col a b : 
  forallb (fun m => mapping_le_pos m line col) a = true ->
  forallb (fun m => negb (mapping_le_pos m line col)) b = true ->
  forall fuel index count,
    (count <= fuel)%nat -> (index <= length a)%nat -> (length a <= index + count)%nat ->
    (index + count <= length (a ++ b))%nat ->
    find_loop fuel (a ++ b) index count line col = length a.
Proof.
  intros Ha Hb. induction fuel as [|f IH]; intros index count Hf Hi Hc Hl.
  - simpl. lia.
  - cbn [find_loop]. destruct count as [|c]; [lia|].
    set (step := Nat.div (S c) 2).
    assert (Hstep : (step <= c)%nat).
    { subst step. pose proof (Nat.div_lt (S c) 2 ltac:(lia) ltac:(lia)). lia. }
    assert (Hlt : (index + step < length (a ++ b))%nat) by lia.
    destruct (nth_error (a ++ b) (index + step)) as [m|] eqn:En.
    2:{ apply nth_error_None in En. lia. }
    destruct (mapping_le_pos m line col) eqn:Em.
    + (* element satisfies: it must lie in a *)
      assert (Hin : (index + step < length a)%nat).
      { destruct (Nat.lt_ge_cases (index + step) (length a)) as [|Hge]; [assumption|].
        rewrite nth_error_app2 in En by exact Hge.
        pose proof (forallb_nth _ _ _ _ Hb En) as Hn. simpl in Hn. rewrite Em in Hn. discriminate. }
      apply IH; lia.
    + assert (Hin : (length a <= index + step)%nat).
      { destruct (Nat.lt_ge_cases (index + step) (length a)) as [Hlt'|]; [|assumption].
        rewrite nth_error_app1 in En by exact Hlt'.
        pose proof (forallb_nth _ _ _ _ Ha En) as Hn. simpl in Hn. rewrite Em in Hn. discriminate. }
      apply IH; lia.
Qed.

Lemma filter_all_true {A} (P : A -> bool) l : forallb P l = true -> filter P l = l.
Proof.
  induction l as [|x l IH]; simpl; [reflexivity|].
  intro H. apply andb_true_iff in H as [Hx Hl]. rewrite Hx, IH by exact Hl. reflexivity.
Qed.

Lemma filter_all_false {A} (P : A -> bool) l : forallb (fun x => negb (P x)) l = true -> filter P l = [].
Proof.
  induction l as [|x l IH]; simpl; [reflexivity|].
  intro H. apply andb_true_iff in H as [Hx Hl]. destruct (P x); [discriminate|]. apply IH, Hl.
Qed.

Lemma rev_head_nth {A} (a : list A) k : length a = S k ->
  match rev a with x :: _ => nth_error a k = Some x | [] => False end.
Proof.
  intro H. destruct a as [|y a] using rev_ind; [discriminate|].
  rewrite rev_app_distr. simpl. rewrite app_length in H. simpl in H.
  rewrite nth_error_app2 by lia. replace (k - length a)%nat with 0%nat by lia. reflexivity.
Qed.

Lemma find_is_spec ms line col : sorted_maps ms -> Find ms line col = spec_find ms line col.
Proof.
  intro Hs. destruct (sorted_split ms line col Hs) as (a & b & -> & Ha & Hb).
  unfold Find, spec_find.
  rewrite (find_loop_spec line col a b Ha Hb); try lia.
  2:{ rewrite app_length. lia. }
  rewrite filter_app, (filter_all_true _ a Ha), (filter_all_false _ b Hb), app_nil_r.
  destruct (length a) as [|k] eqn:El.
  - destruct a; [reflexivity|discriminate].
  - pose proof (rev_head_nth a k El) as H.
    destruct (rev a) as [|x r]; [contradiction|].
    rewrite nth_error_app1 by lia. rewrite H. reflexivity.
Qed.
