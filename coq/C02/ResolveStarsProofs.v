(* resolve_is_spec_partial: for every finite graph in the boolean scope [star_scope] the linker's
   import verdict (classification, ResolvedExports, import matching) is ECMA-262 ResolveExport's. *)
From V Require Import Common.Base C02.Graph C02.SpecESM C02.Wrap C02.Resolve C02.ResolveSpec C02.ResolveDen
  C02.SpecDenProofs C02.StarHitsProofs C02.StarDenProofs C02.ResolveChainProofs C02.LinkDenProofs C02.ScanEsmProofs.

Fixpoint nodupz (l : list Z) : bool :=
  match l with [] => true | x :: r => negb (existsb (Z.eqb x) r) && nodupz r end.

Lemma nodupz_NoDup l : nodupz l = true -> NoDup l.
Proof.
  induction l as [|x r IH]; intros H; [constructor|]. cbn in H. apply andb_true_iff in H as [H1 H2].
  constructor; [|apply IH; exact H2]. intro Hin. apply negb_true_iff in H1.
  assert (existsb (Z.eqb x) r = true) by (apply existsb_exists; exists x; split; [exact Hin|apply Z.eqb_refl]). congruence.
Qed.

(* boolean side conditions *)
Definition unique_aliases_b (g : graph) : bool := forallb (fun m => nodupz (map fst (m_exports m))) g.
Definition exports_ref_free (g : graph) : bool :=
  forallb (fun m => forallb (fun p => negb (Nat.eqb (snd p) (m_exports_ref m))) (m_exports m)) g.
(* every indirect export entry resolves (InitializeEnvironment would otherwise throw) *)
Definition indirect_link (g : graph) (rk : list nat) : bool :=
  forallb (fun s => forallb (fun p => match entry_of (getm g s) (snd p) with
                                      | XIndirect u n => match den g rk u n with [] => false | _ => true end
                                      | _ => true end) (m_exports (getm g s)))
          (seq 0 (length g)).

(* scope of resolve_is_spec_partial: plain ES modules; named imports target files with an export
   statement (excludes refuted shape C); rank certificate for export stars and indirect exports
   (excludes refuted shape B, the re-export cycle); distinct export aliases per file; the
   exports object is not an export; every indirect export resolves *)
Definition star_scope (g : graph) (rk : list nat) : bool :=
  esm_graph g && plain_modules g && named_targets_export g && ranked_all g rk
  && unique_aliases_b g && exports_ref_free g && indirect_link g rk.

Section Final.
  Variable g : graph.
  Variable rk : list nat.
  Hypothesis Hscope : star_scope g rk = true.

  Lemma scope_split :
    esm_graph g = true /\ plain_modules g = true /\ named_targets_export g = true /\ ranked_all g rk = true /\
    unique_aliases_b g = true /\ exports_ref_free g = true /\ indirect_link g rk = true.
  Proof. unfold star_scope in Hscope. repeat (apply andb_true_iff in Hscope as [Hscope ?]). auto 10. Qed.

  Lemma Hunique : forall i, aliases_unique (getm g i).
  Proof.
    intros i. destruct scope_split as [_ [_ [_ [_ [H _]]]]]. unfold unique_aliases_b in H.
    pose proof (getm_forallb _ g i H eq_refl) as Hi. cbn beta in Hi. apply nodupz_NoDup. exact Hi.
  Qed.

  Lemma Hnoref : forall m p, In p (m_exports (getm g m)) -> snd p <> m_exports_ref (getm g m).
  Proof.
    intros m p Hp. destruct scope_split as [_ [_ [_ [_ [_ [H _]]]]]]. unfold exports_ref_free in H.
    pose proof (getm_forallb _ g m H eq_refl) as Hm. cbn beta in Hm. rewrite forallb_forall in Hm.
    specialize (Hm p Hp). apply negb_true_iff in Hm. apply Nat.eqb_neq. exact Hm.
  Qed.

  Lemma Hlink : forall m a ref u n,
    find_export a (m_exports (getm g m)) = Some ref -> entry_of (getm g m) ref = XIndirect u n -> den g rk u n <> [].
  Proof.
    intros m a ref u n Hf He. destruct scope_split as [_ [_ [_ [_ [_ [_ H]]]]]]. unfold indirect_link in H.
    assert (Hm : (m < length g)%nat).
    { destruct (Nat.lt_ge_cases m (length g)) as [Hl|Hg]; [exact Hl|]. unfold getm in Hf. rewrite nth_overflow in Hf by exact Hg. discriminate. }
    rewrite forallb_forall in H. specialize (H m). rewrite in_seq in H. specialize (H ltac:(lia)).
    rewrite forallb_forall in H. specialize (H (a, ref) (find_export_In _ _ _ Hf)). cbn [snd] in H. rewrite He in H.
    destruct (den g rk u n); [discriminate|discriminate].
  Qed.

  Lemma stars_agree kinds s ref ni r ev R :
    (forall i, (i < length g)%nat -> kinds i = EESM) -> (forall i, ekind_eqb (kinds i) ECJS = false) ->
    import_of g (s, ref) = Some ni ->
    match_import g kinds (resolved_of g kinds) true (s, ref) = Some (r, ev) ->
    spec_import g s ni = Some R ->
    mres_verdict r ev = resolution_verdict g R.
  Proof.
    intros HkE HkC Hi Hm Hsp.
    destruct scope_split as [_ [Hplain [Hnamed [Hrk _]]]].
    destruct (import_of_In' g _ _ Hi) as [Hin _]. cbn [fst] in Hin.
    destruct (plain' g Hplain s) as [_ [_ [_ [Htg _]]]]. destruct (Htg ni Hin) as [o [Ho Holt]].
    unfold spec_import in Hsp. pose proof Ho as Ho'. unfold import_target in Ho'.
    destruct (nth_error (m_records (getm g s)) (ni_record ni)) as [rc|]; [|discriminate].
    rewrite Ho' in Hsp. unfold match_import in Hm.
    destruct (ni_is_star ni) eqn:Es.
    - inversion Hsp; subst R.
      rewrite (star_step_gen g kinds HkE Hplain _ (s, ref) ni o [] res0 [] [] Hi Es Ho Holt eq_refl) in Hm.
      inversion Hm; subst. reflexivity.
    - unfold spec_resolve_export in Hsp.
      destruct (spec_resolve (resolve_fuel g) g o (ni_alias ni) []) as [[R0 rs']|] eqn:E; [|discriminate].
      inversion Hsp; subst R0. rewrite (spec_resolve_is_den g rk Hrk _ _ _ _ _ E).
      assert (Hcyc : cyc_ge g rk [] (S (rank_of rk o))) by (intros c []).
      pose proof (main_all g rk kinds Hrk HkE HkC Hplain Hnamed Hunique Hnoref Hlink _ (s, ref) ni o [] res0 [] [] r ev Hi Es Ho Hcyc Hm) as Hp.
      destruct Hp as [[Hnil [Hr He]]|[Hne [He [rp [N [Hr HS]]]]]].
      + rewrite Hnil. subst r. cbn [classify_cands resolution_verdict]. unfold mres_verdict, check. cbn [existsb mr_kind res0].
        unfold has_nomatch in He. rewrite He. reflexivity.
      + subst ev. cbn [app] in Hr. subst r.
        assert (Hok : forall y, In y (den g rk o (ni_alias ni)) -> cand_ok g y) by (intros y Hy; eapply (den_ok g rk Hnoref); eauto).
        pose proof (Sum_check g _ _ _ Hok HS) as Hel.
        destruct (Elem_classify g _ _ Hok Hel) as [[-> ->]|[y [L [-> ->]]]].
        * reflexivity.
        * unfold mres_verdict, normal_of. cbn. destruct y as [m b]. destruct b; reflexivity.
  Qed.

  Lemma stars_link_agree order s ni v1 v2 :
    import_of g (s, ni_ref ni) = Some ni ->
    link_verdict g order s ni = Some v1 -> spec_verdict g s ni = Some v2 -> v1 = v2.
  Proof.
    intros Hi Hl Hsp. destruct scope_split as [Hesm _]. unfold link_verdict in Hl.
    destruct (scan_steps12 true true g order) as [st|] eqn:Esc; [|discriminate].
    set (kinds := fun i => fst (cget st i)) in *.
    destruct (match_import g kinds (resolved_of g kinds) true (s, ni_ref ni)) as [[r ev]|] eqn:Em; [|discriminate].
    inversion Hl; subst v1. unfold spec_verdict in Hsp.
    destruct (spec_import g s ni) as [R|] eqn:ER; [|discriminate]. inversion Hsp; subst v2.
    eapply (stars_agree kinds); eauto.
    - intros i Hlt. unfold kinds. eapply scan_esm_kinds; eauto.
    - intros i. unfold kinds. rewrite (scan_esm_id g Hesm _ _ _ _ Esc).
      destruct (Nat.lt_ge_cases i (length g)) as [Hi2|Hi2]; [rewrite (cget_init g Hesm i Hi2)|rewrite (cget_init_out g i Hi2)]; reflexivity.
  Qed.
End Final.
