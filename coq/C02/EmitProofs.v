(* The entry point's exported names in the three output formats. *)
From V Require Import Common.Base C02.Emit.

Lemma fold_reexport_sync names_of second : forall dyn e,
  fold_left (xstep names_of) (map (fun s => XReExport s second) dyn) (mkX e (Some e) None [])
  = (if second
     then mkX (fold_left (fun acc s => copy_props acc (names_of s)) dyn e)
              (Some (fold_left (fun acc s => copy_props acc (names_of s)) dyn e)) None []
     else mkX (fold_left (fun acc s => copy_props acc (names_of s)) dyn e) (Some e) None []).
Proof.
  induction dyn as [|s dyn IH]; intros e; cbn [map fold_left xstep x_exports x_module x_returned x_clause option_map].
  - destruct second; reflexivity.
  - destruct second.
    + rewrite (IH (copy_props e (names_of s))). reflexivity.
    + (* module.exports stays at the snapshot *)
      clear IH. revert e. induction dyn as [|t dyn IH2]; intros e; cbn [map fold_left xstep x_exports x_module x_returned x_clause].
      * reflexivity.
      * specialize (IH2 e). 
        assert (H : forall l e0 m, fold_left (xstep names_of) (map (fun s0 => XReExport s0 false) l) (mkX e0 m None [])
                  = mkX (fold_left (fun acc s0 => copy_props acc (names_of s0)) l e0) m None []).
        { induction l as [|u l IHl]; intros e0 m; cbn [map fold_left xstep x_exports x_module x_returned x_clause]; [reflexivity|apply IHl]. }
        rewrite H. reflexivity.
Qed.

Lemma fold_reexport_plain names_of second : forall dyn e,
  x_exports (fold_left (xstep names_of) (map (fun s => XReExport s second) dyn) (mkX e None None []))
  = fold_left (fun acc s => copy_props acc (names_of s)) dyn e
  /\ x_module (fold_left (xstep names_of) (map (fun s => XReExport s second) dyn) (mkX e None None [])) = None
  /\ x_returned (fold_left (xstep names_of) (map (fun s => XReExport s second) dyn) (mkX e None None [])) = None
  /\ x_clause (fold_left (xstep names_of) (map (fun s => XReExport s second) dyn) (mkX e None None [])) = [].
Proof.
  induction dyn as [|s dyn IH]; intros e; cbn [map fold_left xstep x_exports x_module x_returned x_clause option_map].
  - auto.
  - destruct second; cbn [option_map]; apply IH.
Qed.

Definition final_exports (names_of : nat -> list Z) (aliases : list Z) (dyn : list nat) : list Z :=
  fold_left (fun acc s => copy_props acc (names_of s)) dyn (copy_all aliases []).

Lemma copy_all_nil_nil : copy_all [] [] = [].
Proof. reflexivity. Qed.

(* a requirer of the cjs bundle sees the statically exported names and every name re-exported at run time *)
Lemma cjs_names names_of aliases dyn :
  exported_names names_of FCjs true aliases dyn = final_exports names_of aliases dyn.
Proof.
  unfold exported_names, run_entry, entry_stmts, force_exports, is_cjs, final_exports.
  cbn [andb]. rewrite app_nil_r.
  destruct aliases as [|a l].
  - cbn [app]. cbn [fold_left xstep x_exports x_module x_returned x_clause].
    rewrite fold_reexport_sync. reflexivity.
  - cbn [app]. cbn [fold_left xstep x_exports x_module x_returned x_clause].
    rewrite fold_reexport_sync. reflexivity.
Qed.

Lemma iife_names names_of aliases dyn :
  exported_names names_of (FIife true) true aliases dyn = final_exports names_of aliases dyn.
Proof.
  unfold exported_names, run_entry, entry_stmts, force_exports, is_cjs, final_exports.
  cbn [andb].
  destruct aliases as [|a l]; cbn [app fold_left xstep x_exports x_module x_returned x_clause].
  - rewrite fold_left_app. cbn [fold_left xstep external_names x_returned].
    destruct (fold_reexport_plain names_of false dyn []) as [E0 _]. rewrite E0. reflexivity.
  - rewrite fold_left_app. cbn [fold_left xstep external_names x_returned].
    destruct (fold_reexport_plain names_of false dyn (copy_all (a :: l) [])) as [E1 _]. rewrite E1. reflexivity.
Qed.

Lemma esm_names names_of aliases dyn :
  exported_names names_of FEsm true aliases dyn = aliases.
Proof.
  unfold exported_names, run_entry, entry_stmts, force_exports, is_cjs.
  cbn [andb].
  destruct aliases as [|a l]; cbn [app fold_left xstep x_exports x_module x_returned x_clause].
  - rewrite app_nil_r. cbn [external_names]. apply (fold_reexport_plain names_of false dyn []).
  - rewrite fold_left_app. cbn [fold_left xstep external_names x_clause]. reflexivity.
Qed.

Lemma memz_In a l : memz a l = true <-> In a l.
Proof.
  unfold memz. rewrite existsb_exists. split.
  - intros [x [Hx He]]. apply Z.eqb_eq in He. subst. exact Hx.
  - intros H. exists a. split; [exact H|apply Z.eqb_refl].
Qed.

Lemma copy_all_nodup : forall ns acc, (forall x, In x ns -> ~ In x acc) -> NoDup ns -> copy_all ns acc = acc ++ ns.
Proof.
  unfold copy_all. induction ns as [|k ns IH]; intros acc Hd Hn; cbn [fold_left]; [rewrite app_nil_r; reflexivity|].
  inversion Hn; subst.
  destruct (memz k acc) eqn:E.
  - apply memz_In in E. exfalso. apply (Hd k); [left; reflexivity|exact E].
  - rewrite IH; auto.
    + rewrite <- app_assoc. reflexivity.
    + intros x Hx Hin. apply in_app_or in Hin as [Hin|[<-|[]]]; [apply (Hd x); [right; exact Hx|exact Hin]|contradiction].
Qed.

Lemma copy_props_incl to from : incl to (copy_props to from).
Proof.
  unfold copy_props. revert to. induction from as [|k from IH]; intros to; cbn [fold_left]; [apply incl_refl|].
  destruct ((k =? 0) || memz k to); [apply IH|].
  eapply incl_tran; [|apply IH]. apply incl_appl, incl_refl.
Qed.

Lemma copy_props_has to from k : In k from -> k <> 0 -> In k (copy_props to from).
Proof.
  unfold copy_props. revert to. induction from as [|j from IH]; intros to Hin Hk; [contradiction|].
  cbn [fold_left]. destruct Hin as [->|Hin].
  - replace (k =? 0) with false by lia. cbn [orb]. destruct (memz k to) eqn:E.
    + apply memz_In in E. apply (copy_props_incl to from). exact E.
    + apply (copy_props_incl (to ++ [k]) from). apply in_or_app. right. left. reflexivity.
  - apply IH; assumption.
Qed.

Lemma final_exports_dynamic names_of aliases : forall dyn d k,
  In d dyn -> In k (names_of d) -> k <> 0 -> In k (final_exports names_of aliases dyn).
Proof.
  unfold final_exports. intros dyn. generalize (copy_all aliases []).
  induction dyn as [|s dyn IH]; intros e d k Hd Hk Hk0; [contradiction|].
  cbn [fold_left]. destruct Hd as [->|Hd].
  - assert (Hin : In k (copy_props e (names_of d))) by (apply copy_props_has; assumption).
    clear -Hin. revert Hin. generalize (copy_props e (names_of d)). clear e. induction dyn as [|t dyn IH]; intros e2 Hin; [exact Hin|].
    cbn [fold_left]. apply IH. apply copy_props_incl. exact Hin.
  - eapply IH; eauto.
Qed.

Lemma final_exports_static names_of aliases dyn k : In k aliases -> In k (final_exports names_of aliases dyn).
Proof.
  unfold final_exports. intros Hk.
  assert (H0 : In k (copy_all aliases [])).
  { unfold copy_all. assert (H : forall ns acc, In k ns \/ In k acc ->
              In k (fold_left (fun acc0 k0 => if memz k0 acc0 then acc0 else acc0 ++ [k0]) ns acc)).
    { induction ns as [|j ns IH]; intros acc [H|H]; cbn [fold_left]; try contradiction; auto.
      - destruct H as [->|H].
        + destruct (memz k acc) eqn:E; apply IH; right; [apply memz_In; exact E|apply in_or_app; right; left; reflexivity].
        + apply IH. left. exact H.
      - apply IH. right. destruct (memz j acc); [exact H|apply in_or_app; left; exact H]. }
    apply H. left. exact Hk. }
  revert H0. generalize (copy_all aliases []). induction dyn as [|t dyn IH]; intros e Hin; [exact Hin|].
  cbn [fold_left]. apply IH. apply copy_props_incl. exact Hin.
Qed.

Lemma node_mode_iff typed form : to_esm_node_mode typed form = true <-> typed = true.
Proof. unfold to_esm_node_mode. tauto. Qed.

Lemma typed_default_native form marker : to_esm_default (to_esm_node_mode true form) marker = native_default.
Proof. reflexivity. Qed.

Lemma untyped_marker_default form : to_esm_default (to_esm_node_mode false form) true <> native_default.
Proof. cbn. discriminate. Qed.
