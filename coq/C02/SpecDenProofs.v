(* ECMA-262 ResolveExport (with its shared resolve set) computes, on graphs whose re-export
   relation is acyclic, the set-free denotation: revisiting a (module, name) pair is harmless. *)
From V Require Import Common.Base C02.Graph C02.SpecESM C02.Wrap C02.Resolve C02.ResolveSpec C02.ResolveDen.

Section SpecDen.
  Variable g : graph.
  Variable rk : list nat.
  Hypothesis Hrk : ranked_all g rk = true.
  Let rank := rank_of rk.

  Lemma ranked_mod s : (s < length g)%nat ->
    (rank s < length g)%nat /\ forall t, In t (reexport_targets (getm g s)) -> (rank t < rank s)%nat.
  Proof.
    intros Hs. unfold ranked_all in Hrk. rewrite forallb_forall in Hrk.
    specialize (Hrk s). rewrite in_seq in Hrk. specialize (Hrk ltac:(lia)).
    apply andb_true_iff in Hrk as [H1 H2]. split; [apply Nat.ltb_lt; exact H1|].
    intros t Ht. rewrite forallb_forall in H2. apply Nat.ltb_lt. apply H2. exact Ht.
  Qed.

  Lemma in_range_of_targets s t : In t (reexport_targets (getm g s)) -> (s < length g)%nat.
  Proof.
    intros H. destruct (Nat.lt_ge_cases s (length g)) as [Hl|Hg]; [exact Hl|].
    unfold getm in H. rewrite nth_overflow in H by exact Hg. contradiction.
  Qed.

  Lemma star_edge s t : In t (star_targets (getm g s)) -> (rank t < rank s)%nat.
  Proof.
    intros H. assert (Hin : In t (reexport_targets (getm g s))) by (unfold reexport_targets; apply in_or_app; left; exact H).
    apply (ranked_mod s (in_range_of_targets _ _ Hin)). exact Hin.
  Qed.

  Lemma find_export_In name l ref : find_export name l = Some ref -> In (name, ref) l.
  Proof.
    induction l as [|[b r] l IH]; cbn; [discriminate|].
    destruct (b =? name) eqn:E; [intros H; inversion H; subst; apply Z.eqb_eq in E; subst; left; reflexivity|right; auto].
  Qed.

  Lemma indirect_edge s name ref t n :
    find_export name (m_exports (getm g s)) = Some ref -> entry_of (getm g s) ref = XIndirect t n ->
    (rank t < rank s)%nat.
  Proof.
    intros Hf He.
    assert (Hin : In t (reexport_targets (getm g s))).
    { unfold reexport_targets. apply in_or_app. right. apply in_flat_map. exists (name, ref).
      split; [apply find_export_In; exact Hf|]. cbn [snd]. rewrite He. left. reflexivity. }
    apply (ranked_mod s (in_range_of_targets _ _ Hin)). exact Hin.
  Qed.

  Lemma cands_fuel : forall k k' m name, (rank m < k)%nat -> (rank m < k')%nat -> cands k g m name = cands k' g m name.
  Proof.
    induction k as [|k IH]; intros k' m name H1 H2; [lia|]. destruct k' as [|k']; [lia|].
    cbn [cands]. destruct (find_export name (m_exports (getm g m))) as [ref|] eqn:Ef.
    - destruct (entry_of (getm g m) ref) as [r|t n|t|] eqn:Ee; try reflexivity.
      pose proof (indirect_edge _ _ _ _ _ Ef Ee). apply IH; lia.
    - destruct (name =? 0); [reflexivity|].
      assert (H : forall l, (forall t, In t l -> In t (star_targets (getm g m))) ->
                 flat_map (fun t => cands k g t name) l = flat_map (fun t => cands k' g t name) l).
      { induction l as [|t l IHl]; intros Hl; [reflexivity|]. cbn [flat_map]. rewrite IHl by (intros; apply Hl; right; assumption).
        pose proof (star_edge m t (Hl t (or_introl eq_refl))). rewrite (IH k' t name) by lia. reflexivity. }
      apply H. auto.
  Qed.

  Notation D := (den g rk).

  Lemma den_unfold m name :
    D m name =
    match find_export name (m_exports (getm g m)) with
    | Some ref =>
      match entry_of (getm g m) ref with
      | XLocal r => [(m, BName r)]
      | XIndirectAll t => [(t, BNamespace)]
      | XIndirect t n => D t n
      | XBroken => []
      end
    | None => if name =? 0 then [] else flat_map (fun t => D t name) (star_targets (getm g m))
    end.
  Proof.
    unfold den at 1. fold rank. cbn [cands].
    destruct (find_export name (m_exports (getm g m))) as [ref|] eqn:Ef.
    - destruct (entry_of (getm g m) ref) as [r|t n|t|] eqn:Ee; try reflexivity.
      pose proof (indirect_edge _ _ _ _ _ Ef Ee). unfold den. fold rank. apply cands_fuel; lia.
    - destruct (name =? 0); [reflexivity|].
      assert (H : forall l, (forall t, In t l -> In t (star_targets (getm g m))) ->
                 flat_map (fun t => cands (rank m) g t name) l = flat_map (fun t => D t name) l).
      { induction l as [|t l IHl]; intros Hl; [reflexivity|]. cbn [flat_map]. rewrite IHl by (intros; apply Hl; right; assumption).
        pose proof (star_edge m t (Hl t (or_introl eq_refl))). unfold den. fold rank. rewrite (cands_fuel (rank m) (S (rank t)) t name) by lia. reflexivity. }
      apply H. auto.
  Qed.

  Definition setR (R : resolution) : list cand := match R with RBinding m b => [(m, b)] | _ => [] end.
  Definition CK (rs : list (nat * Z)) (b : nat) : list cand :=
    flat_map (fun p => D (fst p) (snd p)) (filter (fun p => Nat.leb (rank (fst p)) b) rs).

  Lemma CK_In rs b p x : In p rs -> (rank (fst p) <= b)%nat -> In x (D (fst p) (snd p)) -> In x (CK rs b).
  Proof.
    intros Hp Hr Hx. unfold CK. apply in_flat_map. exists p. split; [|exact Hx].
    apply filter_In. split; [exact Hp|apply Nat.leb_le; exact Hr].
  Qed.

  Lemma CK_elim rs b x : In x (CK rs b) -> exists p, In p rs /\ (rank (fst p) <= b)%nat /\ In x (D (fst p) (snd p)).
  Proof.
    unfold CK. intros H. apply in_flat_map in H as [p [Hp Hx]]. apply filter_In in Hp as [Hp Hr].
    exists p. repeat split; auto. apply Nat.leb_le. exact Hr.
  Qed.

  (* what a call establishes *)
  Definition post (m : nat) (name : Z) (rs : list (nat * Z)) (R : resolution) (rs' : list (nat * Z)) : Prop :=
    incl rs rs' /\
    match R with
    | RAmbiguous => exists x y, x <> y /\ In x (D m name ++ CK rs (rank m)) /\ In y (D m name ++ CK rs (rank m))
    | _ => incl (setR R) (D m name) /\ incl (D m name) (setR R ++ CK rs (rank m)) /\
           (forall p, In p rs' -> In p rs \/ ((rank (fst p) <= rank m)%nat /\
                                              incl (D (fst p) (snd p)) (setR R ++ CK rs (rank m))))
    end.

  (* the loop over the star export entries (step 9), as a named function *)
  Fixpoint stars_loop (f : nat) (name : Z) (l : list nat) (star_res : resolution) (rs : list (nat * Z))
    : option (resolution * list (nat * Z)) :=
    match l with
    | [] => Some (star_res, rs)
    | t :: rest =>
      match spec_resolve f g t name rs with
      | None => None
      | Some (RAmbiguous, rs') => Some (RAmbiguous, rs')
      | Some (RNull, rs') => stars_loop f name rest star_res rs'
      | Some (RBinding rm rb, rs') =>
        match star_res with
        | RBinding sm sb =>
          if Nat.eqb rm sm && binding_eqb rb sb then stars_loop f name rest star_res rs'
          else Some (RAmbiguous, rs')
        | _ => stars_loop f name rest (RBinding rm rb) rs'
        end
      end
    end.

  Lemma spec_resolve_unfold f m name rs :
    spec_resolve (S f) g m name rs =
    if rs_mem m name rs then Some (RNull, rs) else
    let rs1 := rs ++ [(m, name)] in
    match find_export name (m_exports (getm g m)) with
    | Some ref =>
      match entry_of (getm g m) ref with
      | XLocal r => Some (RBinding m (BName r), rs1)
      | XIndirectAll t => Some (RBinding t BNamespace, rs1)
      | XIndirect t n => spec_resolve f g t n rs1
      | XBroken => Some (RNull, rs1)
      end
    | None => if name =? 0 then Some (RNull, rs1) else stars_loop f name (star_targets (getm g m)) RNull rs1
    end.
  Proof.
    cbn [spec_resolve]. destruct (rs_mem m name rs); [reflexivity|].
    destruct (find_export name (m_exports (getm g m))); [reflexivity|].
    destruct (name =? 0); [reflexivity|].
    generalize (star_targets (getm g m)) RNull (rs ++ [(m, name)]).
    induction l as [|t rest IH]; intros sr rs0; [reflexivity|].
    cbn [stars_loop]. destruct (spec_resolve f g t name rs0) as [[[| |rm rb] rs']|]; try reflexivity.
    - apply IH.
    - destruct sr; try apply IH. destruct (Nat.eqb rm m0 && binding_eqb rb b); [apply IH|reflexivity].
  Qed.

  Lemma binding_eqb_eq a b : binding_eqb a b = true <-> a = b.
  Proof.
    destruct a, b; cbn; split; intros H; try discriminate; try reflexivity.
    - apply Nat.eqb_eq in H. subst. reflexivity.
    - inversion H. apply Nat.eqb_refl.
  Qed.

  Lemma CK_child rs rsi m name t sr :
    (rank t < rank m)%nat ->
    (forall p, In p rsi -> p = (m, name) \/ In p rs \/
               ((rank (fst p) < rank m)%nat /\ incl (D (fst p) (snd p)) (setR sr ++ CK rs (rank m)))) ->
    incl (CK rsi (rank t)) (setR sr ++ CK rs (rank m)).
  Proof.
    intros Ht Hinv x Hx. apply CK_elim in Hx as [p [Hp [Hr Hxp]]].
    destruct (Hinv p Hp) as [->|[Hin|[_ Hc]]].
    - cbn [fst] in Hr. lia.
    - apply in_or_app. right. eapply CK_In; eauto. lia.
    - apply Hc. exact Hxp.
  Qed.

  Lemma covers_mono sr sr' X rs b : incl (setR sr) (setR sr') -> incl X (setR sr ++ CK rs b) -> incl X (setR sr' ++ CK rs b).
  Proof. intros H1 H2 x Hx. apply H2 in Hx. apply in_app_or in Hx as [Hx|Hx]; apply in_or_app; [left; apply H1|right]; exact Hx. Qed.

  Section Loop.
    Variable f : nat.
    Hypothesis IH : forall m name rs R rs', spec_resolve f g m name rs = Some (R, rs') -> post m name rs R rs'.
    Variables (m : nat) (name : Z) (rs : list (nat * Z)).
    Let B := rank m.
    Let Dm := D m name.

    Definition rs_inv (sr : resolution) (rsi : list (nat * Z)) : Prop :=
      forall p, In p rsi -> p = (m, name) \/ In p rs \/
                ((rank (fst p) < rank m)%nat /\ incl (D (fst p) (snd p)) (setR sr ++ CK rs B)).

    Lemma rs_inv_mono sr sr' rsi : incl (setR sr) (setR sr') -> rs_inv sr rsi -> rs_inv sr' rsi.
    Proof.
      intros H Hi p Hp. destruct (Hi p Hp) as [H1|[H1|[H1 H2]]]; auto. right. right. split; [exact H1|].
      apply (covers_mono sr sr' _ rs B H H2).
    Qed.

    Lemma loop_post : forall l sr rsi acc R rs',
      (forall t, In t l -> In t (star_targets (getm g m))) ->
      (forall t, In t l -> incl (D t name) Dm) ->
      stars_loop f name l sr rsi = Some (R, rs') ->
      sr <> RAmbiguous -> incl (setR sr) Dm -> incl acc (setR sr ++ CK rs B) -> rs_inv sr rsi ->
      incl rsi rs' /\
      match R with
      | RAmbiguous => exists x y, x <> y /\ In x (Dm ++ CK rs B) /\ In y (Dm ++ CK rs B)
      | _ => incl (setR R) Dm /\ incl (acc ++ flat_map (fun t => D t name) l) (setR R ++ CK rs B) /\ rs_inv R rs'
      end.
    Proof.
      induction l as [|t rest IHl]; intros sr rsi acc R rs' Hl HlD Hloop Hsr HsrD Hacc Hinv.
      - cbn [stars_loop] in Hloop. inversion Hloop; subst. split; [apply incl_refl|].
        destruct R; try contradiction; (split; [exact HsrD|split; [cbn [flat_map]; rewrite app_nil_r; exact Hacc|exact Hinv]]).
      - cbn [stars_loop] in Hloop.
        destruct (spec_resolve f g t name rsi) as [[Rt rst]|] eqn:Et; [|discriminate].
        pose proof (IH _ _ _ _ _ Et) as [Hi1 Hpost].
        assert (Hrt : (rank t < rank m)%nat) by (apply star_edge; apply Hl; left; reflexivity).
        pose proof (CK_child rs rsi m name t sr Hrt Hinv) as HKC.
        assert (HDt : incl (D t name) Dm) by (apply HlD; left; reflexivity).
        (* the resolve-set invariant after the call, for any sr' above sr that covers the call's result *)
        assert (Hinv' : forall sr', incl (setR sr) (setR sr') -> incl (setR Rt) (setR sr') -> Rt <> RAmbiguous ->
                   rs_inv sr' rst).
        { intros sr' Hm1 Hm2 Hna p Hp.
          assert (Hc : In p rsi \/ ((rank (fst p) <= rank t)%nat /\ incl (D (fst p) (snd p)) (setR Rt ++ CK rsi (rank t)))).
          { destruct Rt; try contradiction; destruct Hpost as [_ [_ H3]]; apply H3; exact Hp. }
          destruct Hc as [Hc|[Hr Hc]].
          - apply (rs_inv_mono sr sr' rsi Hm1 Hinv). exact Hc.
          - right. right. split; [lia|]. intros x Hx. apply Hc in Hx. apply in_app_or in Hx as [Hx|Hx].
            + apply in_or_app. left. apply Hm2. exact Hx.
            + apply HKC in Hx. apply in_app_or in Hx as [Hx|Hx]; apply in_or_app; [left; apply Hm1|right]; exact Hx. }
        (* D t name is covered once the call's result is *)
        assert (Hcov : forall sr', incl (setR sr) (setR sr') -> incl (setR Rt) (setR sr') -> Rt <> RAmbiguous ->
                   incl (acc ++ D t name) (setR sr' ++ CK rs B)).
        { intros sr' Hm1 Hm2 Hna x Hx. apply in_app_or in Hx as [Hx|Hx].
          - apply (covers_mono sr sr' acc rs B Hm1 Hacc). exact Hx.
          - assert (Hc : incl (D t name) (setR Rt ++ CK rsi (rank t))) by (destruct Rt; try contradiction; apply Hpost).
            apply Hc in Hx. apply in_app_or in Hx as [Hx|Hx].
            + apply in_or_app. left. apply Hm2. exact Hx.
            + apply HKC in Hx. apply in_app_or in Hx as [Hx|Hx]; apply in_or_app; [left; apply Hm1|right]; exact Hx. }
        assert (Hrest1 : forall t0, In t0 rest -> In t0 (star_targets (getm g m))) by (intros; apply Hl; right; assumption).
        assert (Hrest2 : forall t0, In t0 rest -> incl (D t0 name) Dm) by (intros; apply HlD; right; assumption).
        destruct Rt as [| |rm rb].
        + (* null *)
          destruct (IHl sr rst (acc ++ D t name) R rs' Hrest1 Hrest2 Hloop Hsr HsrD) as [Hi Hres].
          * apply Hcov; [apply incl_refl|intros x []|discriminate].
          * apply Hinv'; [apply incl_refl|intros x []|discriminate].
          * split; [eapply incl_tran; eauto|]. cbn [flat_map]. rewrite app_assoc. exact Hres.
        + (* ambiguous below *)
          inversion Hloop; subst R rs'. split; [exact Hi1|].
          destruct Hpost as [x [y [Hxy [Hx Hy]]]]. exists x, y. split; [exact Hxy|].
          assert (Hmv : forall z, In z (D t name ++ CK rsi (rank t)) -> In z (Dm ++ CK rs B)).
          { intros z Hz. apply in_app_or in Hz as [Hz|Hz]; [apply in_or_app; left; apply HDt; exact Hz|].
            apply HKC in Hz. apply in_app_or in Hz as [Hz|Hz]; apply in_or_app; [left; apply HsrD|right]; exact Hz. }
          split; apply Hmv; assumption.
        + (* a binding *)
          assert (Hy : In (rm, rb) Dm).
          { destruct Hpost as [H1 _]. apply HDt. apply H1. left. reflexivity. }
          destruct sr as [| |sm sb]; try contradiction.
          * destruct (IHl (RBinding rm rb) rst (acc ++ D t name) R rs' Hrest1 Hrest2 Hloop) as [Hi Hres].
            -- discriminate.
            -- intros x [<-|[]]. exact Hy.
            -- apply Hcov; [intros x []|apply incl_refl|discriminate].
            -- apply Hinv'; [intros x []|apply incl_refl|discriminate].
            -- split; [eapply incl_tran; eauto|]. cbn [flat_map]. rewrite app_assoc. exact Hres.
          * destruct (Nat.eqb rm sm && binding_eqb rb sb) eqn:Eq.
            -- apply andb_true_iff in Eq as [E1 E2]. apply Nat.eqb_eq in E1. apply binding_eqb_eq in E2. subst rm rb.
               destruct (IHl (RBinding sm sb) rst (acc ++ D t name) R rs' Hrest1 Hrest2 Hloop Hsr HsrD) as [Hi Hres].
               ++ apply Hcov; [apply incl_refl|apply incl_refl|discriminate].
               ++ apply Hinv'; [apply incl_refl|apply incl_refl|discriminate].
               ++ split; [eapply incl_tran; eauto|]. cbn [flat_map]. rewrite app_assoc. exact Hres.
            -- inversion Hloop; subst R rs'. split; [exact Hi1|].
               exists (sm, sb), (rm, rb). split.
               ++ intros Heq. inversion Heq; subst. rewrite Nat.eqb_refl in Eq. cbn [andb] in Eq.
                  assert (binding_eqb rb rb = true) by (apply binding_eqb_eq; reflexivity). congruence.
               ++ split; apply in_or_app; left; [apply HsrD; left; reflexivity|exact Hy].
    Qed.
  End Loop.

  Lemma rs_mem_In m name rs : rs_mem m name rs = true -> In (m, name) rs.
  Proof.
    unfold rs_mem. rewrite existsb_exists. intros [[a b] [Hp He]]. cbn [fst snd] in He.
    apply andb_true_iff in He as [E1 E2]. apply Nat.eqb_eq in E1. apply Z.eqb_eq in E2. subst. exact Hp.
  Qed.

  Lemma spec_post f : forall m name rs R rs', spec_resolve f g m name rs = Some (R, rs') -> post m name rs R rs'.
  Proof.
    induction f as [|f IH]; intros m name rs R rs' H; [discriminate|].
    rewrite spec_resolve_unfold in H.
    destruct (rs_mem m name rs) eqn:Emem.
    { inversion H; subst R rs'. apply rs_mem_In in Emem.
      split; [apply incl_refl|]. split; [intros x []|]. split; [|auto].
      intros x Hx. cbn [setR app]. eapply (CK_In rs (rank m) (m, name)); eauto. }
    cbn zeta in H. pose proof (den_unfold m name) as Hd.
    (* results that do not recurse: the candidate list is [cs] = setR R *)
    assert (Hleaf : forall R0, D m name = setR R0 -> R0 <> RAmbiguous -> post m name rs R0 (rs ++ [(m, name)])).
    { intros R0 HD Hna. split; [apply incl_appl, incl_refl|].
      assert (Hb : incl (setR R0) (D m name) /\ incl (D m name) (setR R0 ++ CK rs (rank m)) /\
                   (forall p, In p (rs ++ [(m, name)]) -> In p rs \/ ((rank (fst p) <= rank m)%nat /\
                                              incl (D (fst p) (snd p)) (setR R0 ++ CK rs (rank m))))).
      { rewrite HD. split; [apply incl_refl|]. split; [apply incl_appl, incl_refl|].
        intros p Hp. apply in_app_or in Hp as [Hp|[<-|[]]]; [left; exact Hp|right]. cbn [fst snd]. split; [lia|].
        rewrite HD. apply incl_appl, incl_refl. }
      destruct R0; try contradiction; exact Hb. }
    destruct (find_export name (m_exports (getm g m))) as [ref|] eqn:Ef.
    - destruct (entry_of (getm g m) ref) as [r|t n|t|] eqn:Ee.
      + inversion H; subst R rs'. apply Hleaf; [exact Hd|discriminate].
      + (* indirect: the same candidates as (t, n) *)
        pose proof (indirect_edge _ _ _ _ _ Ef Ee) as Hrt.
        destruct (IH _ _ _ _ _ H) as [Hi1 Hp].
        assert (HK : incl (CK (rs ++ [(m, name)]) (rank t)) (CK rs (rank m))).
        { intros x Hx. apply CK_elim in Hx as [p [Hpin [Hr Hxp]]].
          apply in_app_or in Hpin as [Hpin|[<-|[]]]; [eapply CK_In; eauto; lia|cbn [fst] in Hr; lia]. }
        assert (HKa : forall X S0, incl X (S0 ++ CK (rs ++ [(m, name)]) (rank t)) -> incl X (S0 ++ CK rs (rank m))).
        { intros X S0 HX x Hx. apply HX in Hx. apply in_app_or in Hx as [Hx|Hx]; apply in_or_app; [left|right; apply HK]; exact Hx. }
        split; [eapply incl_tran; [apply incl_appl, incl_refl|exact Hi1]|].
        rewrite Hd.
        assert (Hb : forall R0, R0 = R -> R0 <> RAmbiguous ->
                  incl (setR R0) (D t n) /\ incl (D t n) (setR R0 ++ CK (rs ++ [(m, name)]) (rank t)) /\
                  (forall p, In p rs' -> In p (rs ++ [(m, name)]) \/ ((rank (fst p) <= rank t)%nat /\
                        incl (D (fst p) (snd p)) (setR R0 ++ CK (rs ++ [(m, name)]) (rank t)))) ->
                  incl (setR R0) (D t n) /\ incl (D t n) (setR R0 ++ CK rs (rank m)) /\
                  (forall p, In p rs' -> In p rs \/ ((rank (fst p) <= rank m)%nat /\
                        incl (D (fst p) (snd p)) (setR R0 ++ CK rs (rank m))))).
        { intros R0 _ _ [H1 [H2 H3]]. split; [exact H1|]. split; [apply HKa; exact H2|].
          intros p Hpin. destruct (H3 p Hpin) as [Ho|[Hr Hc]].
          - apply in_app_or in Ho as [Ho|[<-|[]]]; [left; exact Ho|right]. cbn [fst snd]. split; [lia|]. rewrite Hd. apply HKa. exact H2.
          - right. split; [lia|]. apply HKa. exact Hc. }
        destruct R as [| |rm rb].
        * apply (Hb RNull eq_refl); [discriminate|exact Hp].
        * destruct Hp as [x [y [Hxy [Hx Hy]]]]. exists x, y. split; [exact Hxy|].
          split; [apply (HKa [x] (D t n)); [intros z [<-|[]]; exact Hx|left; reflexivity]
                 |apply (HKa [y] (D t n)); [intros z [<-|[]]; exact Hy|left; reflexivity]].
        * apply (Hb (RBinding rm rb) eq_refl); [discriminate|exact Hp].
      + inversion H; subst R rs'. apply Hleaf; [exact Hd|discriminate].
      + inversion H; subst R rs'. apply Hleaf; [exact Hd|discriminate].
    - destruct (name =? 0) eqn:E0.
      + inversion H; subst R rs'. apply Hleaf; [exact Hd|discriminate].
      + (* the star export entries *)
        destruct (loop_post f IH m name rs (star_targets (getm g m)) RNull (rs ++ [(m, name)]) [] R rs') as [Hi Hres]; auto.
        * intros t Ht x Hx. rewrite Hd. apply in_flat_map. exists t. split; assumption.
        * discriminate.
        * intros x [].
        * intros x [].
        * intros p Hp. apply in_app_or in Hp as [Hp|[<-|[]]]; [right; left; exact Hp|left; reflexivity].
        * split; [eapply incl_tran; [apply incl_appl, incl_refl|exact Hi]|].
          assert (Hfin : forall Rf, rs_inv m name rs Rf rs' -> incl (D m name) (setR Rf ++ CK rs (rank m)) ->
                    (forall p, In p rs' -> In p rs \/ ((rank (fst p) <= rank m)%nat /\
                                 incl (D (fst p) (snd p)) (setR Rf ++ CK rs (rank m))))).
          { intros Rf Hinv Hcov p Hp. destruct (Hinv p Hp) as [Heq|[Ho|[Hr Hc]]].
            - subst p. right. cbn [fst snd]. split; [lia|exact Hcov].
            - left. exact Ho.
            - right. split; [lia|exact Hc]. }
          destruct R as [| |rm rb].
          -- destruct Hres as [H1 [H2 H3]]. cbn [app] in H2. rewrite <- Hd in H2.
             split; [exact H1|]. split; [exact H2|apply Hfin; assumption].
          -- exact Hres.
          -- destruct Hres as [H1 [H2 H3]]. cbn [app] in H2. rewrite <- Hd in H2.
             split; [exact H1|]. split; [exact H2|apply Hfin; assumption].
  Qed.

  Lemma forallb_cand_all x l : (forall y, In y l -> y = x) -> forallb (cand_eqb x) l = true.
  Proof.
    intros H. apply forallb_forall. intros y Hy. rewrite (H y Hy). unfold cand_eqb.
    rewrite Nat.eqb_refl. apply binding_eqb_eq. reflexivity.
  Qed.

  Lemma cand_eqb_eq a b : cand_eqb a b = true -> a = b.
  Proof.
    destruct a as [a1 a2], b as [b1 b2]. unfold cand_eqb. cbn [fst snd]. intros H.
    apply andb_true_iff in H as [H1 H2]. apply Nat.eqb_eq in H1. apply binding_eqb_eq in H2. subst. reflexivity.
  Qed.

  (* ResolveExport(exportName) with an empty resolve set computes the denotation *)
  Lemma spec_resolve_is_den f m name R rs' :
    spec_resolve f g m name [] = Some (R, rs') -> R = classify_cands (D m name).
  Proof.
    intros H. destruct (spec_post _ _ _ _ _ _ H) as [_ Hp].
    assert (HK : forall X S0, incl X (S0 ++ CK [] (rank m)) -> incl X S0).
    { intros X S0 HX x Hx. apply HX in Hx. apply in_app_or in Hx as [Hx|[]]. exact Hx. }
    destruct R as [| |rm rb].
    - destruct Hp as [_ [H2 _]]. apply HK in H2. destruct (D m name) as [|c l]; [reflexivity|]. destruct (H2 c (or_introl eq_refl)).
    - destruct Hp as [x [y [Hxy [Hx Hy]]]].
      apply in_app_or in Hx as [Hx|[]]. apply in_app_or in Hy as [Hy|[]].
      destruct (D m name) as [|c l]; [contradiction|]. cbn [classify_cands].
      destruct (forallb (cand_eqb c) l) eqn:E; [|reflexivity]. exfalso.
      rewrite forallb_forall in E.
      assert (Hall : forall z, In z (c :: l) -> z = c).
      { intros z [<-|Hz]; [reflexivity|]. symmetry. apply cand_eqb_eq. apply E. exact Hz. }
      apply Hxy. rewrite (Hall x Hx), (Hall y Hy). reflexivity.
    - destruct Hp as [H1 [H2 _]]. apply HK in H2. cbn [setR] in *.
      destruct (D m name) as [|c l] eqn:ED; [destruct (H1 (rm, rb) (or_introl eq_refl))|].
      cbn [classify_cands].
      assert (Hall : forall z, In z (c :: l) -> z = (rm, rb)).
      { intros z Hz. destruct (H2 z Hz) as [<-|[]]. reflexivity. }
      rewrite (Hall c (or_introl eq_refl)). rewrite forallb_cand_all; [reflexivity|].
      intros y Hy. apply Hall. right. exact Hy.
  Qed.
End SpecDen.
