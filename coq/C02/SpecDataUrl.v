(* C02 specification: what a data: URL denotes, written from the WHATWG URL
   standard (basic URL parser: input preprocessing, scheme, opaque path state,
   fragment) and the Fetch standard ("data: URL processor"), independent of
   esbuild's encoder.  Works on the UTF-8 bytes of the URL string. *)
From V Require Import Common.Base.

Definition c0_or_space (b : Z) : bool := b <=? 32.
Definition tab_or_newline (b : Z) : bool := (b =? 9) || (b =? 10) || (b =? 13).

Fixpoint drop_leading (l : bytes) : bytes :=
  match l with
  | c :: r => if c0_or_space c then drop_leading r else l
  | [] => []
  end.
(* URL parser step: remove leading and trailing C0 control or space *)
Definition strip_c0_space (l : bytes) : bytes := rev (drop_leading (rev (drop_leading l))).
(* URL parser step: remove all ASCII tab or newline *)
Definition remove_tab_newline (l : bytes) : bytes := filter (fun c => negb (tab_or_newline c)) l.

Fixpoint starts_with (p l : bytes) : option bytes :=
  match p, l with
  | [], _ => Some l
  | a :: p', b :: l' => if a =? b then starts_with p' l' else None
  | _ :: _, [] => None
  end.

(* fragment state: everything from the first '#' belongs to the fragment *)
Fixpoint cut_fragment (l : bytes) : bytes :=
  match l with
  | [] => []
  | c :: r => if c =? 35 then [] else c :: cut_fragment r
  end.

Definition spec_hex (d : Z) : Z := if d <? 10 then 48 + d else 55 + d.
(* opaque path state: UTF-8 percent-encode with the C0 control percent-encode set
   (C0 controls and everything above U+007E) *)
Definition c0_encode (l : bytes) : bytes :=
  flat_map (fun c => if (c <? 32) || (126 <? c) then [37; spec_hex (c / 16); spec_hex (c mod 16)] else [c]) l.

Fixpoint split_comma (l : bytes) : option (bytes * bytes) :=
  match l with
  | [] => None
  | c :: r => if c =? 44 then Some ([], r)
              else match split_comma r with Some (a, b) => Some (c :: a, b) | None => None end
  end.

Definition hex_val (c : Z) : option Z :=
  if (48 <=? c) && (c <=? 57) then Some (c - 48)
  else if (65 <=? c) && (c <=? 70) then Some (c - 55)
  else if (97 <=? c) && (c <=? 102) then Some (c - 87)
  else None.

(* URL standard "percent-decode" of a byte sequence *)
Fixpoint percent_decode (l : bytes) : bytes :=
  match l with
  | [] => []
  | c :: r =>
    if c =? 37 then
      match r with
      | h1 :: ((h2 :: r2) as r1) =>
        match hex_val h1, hex_val h2 with
        | Some a, Some b => (16 * a + b) :: percent_decode r2
        | _, _ => c :: percent_decode r
        end
      | _ => c :: percent_decode r
      end
    else c :: percent_decode r
  end.

Definition base64_suffix : bytes := [59; 98; 97; 115; 101; 54; 52].   (* ";base64" *)
Definition ends_with_base64 (mime : bytes) : option bytes :=
  match starts_with (rev base64_suffix) (rev mime) with
  | Some r => Some (rev r)
  | None => None
  end.

(* Returns (MIME type text, base64 flag, body).  With the flag set the body
   is still base64 text (forgiving-base64 decoding is left to the caller).
   Simplifications, stated: the scheme is matched in lower case only and the
   base64 marker must be exactly ";base64" without inner spaces. *)
Definition whatwg_data_url_body (url : bytes) : option (bytes * bool * bytes) :=
  let s := remove_tab_newline (strip_c0_space url) in
  match starts_with [100; 97; 116; 97; 58] s with
  | None => None
  | Some rest =>
    match split_comma (c0_encode (cut_fragment rest)) with
    | None => None
    | Some (mime, body) =>
      let body := percent_decode body in
      match ends_with_base64 mime with
      | Some m => Some (m, true, body)
      | None => Some (mime, false, body)
      end
    end
  end.
