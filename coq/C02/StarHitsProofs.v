(* Per-alias characterisation of addExportsForExportStar: what ResolvedExports records for one
   export alias is the fold of the list of "hits" (star-exported files that export the alias,
   in traversal order, not shadowed by a file on the stack). *)
From V Require Import Common.Base C02.Graph C02.SpecESM C02.Wrap C02.Resolve C02.ResolveSpec C02.ResolveDen.

Definition hit := (nat * nat)%type.    (* file, ref of its export entry *)

Definition apply_hit (a : Z) (cur : option edata) (h : hit) : option edata :=
  match cur with
  | None => Some (mkEd a (fst h) (snd h) [])
  | Some e => if negb (Nat.eqb (ed_src e) (fst h))
              then Some (mkEd a (ed_src e) (ed_ref e) (ed_ambs e ++ [h]))
              else Some e
  end.
Definition fold_hits (a : Z) (cur : option edata) (l : list hit) : option edata := fold_left (apply_hit a) l cur.

Section Hits.
  Variable g : graph.

  Definition shadowed (a : Z) (stack : list nat) : bool := existsb (fun q => has_export (getm g q) a) stack.

  Definition own_hit (a : Z) (stack' : list nat) (t : nat) : list hit :=
    if (a =? 0) || shadowed a stack' then [] else
    match find_export a (m_exports (getm g t)) with Some ref => [(t, ref)] | None => [] end.

  Fixpoint hits (f : nat) (a : Z) (s : nat) (stack : list nat) : list hit :=
    match f with
    | O => []
    | S f' =>
      if memn s stack then [] else
      let stack' := stack ++ [s] in
      flat_map (fun i =>
        match record_of (getm g s) i with
        | None => []
        | Some r => match r_target r with
                    | None => []
                    | Some t => own_hit a stack' t ++ hits f' a t stack'
                    end
        end) (m_stars (getm g s))
    end.

  (* ---- lookups in the ResolvedExports list ---- *)
  Lemma lookup_app a res e :
    ed_lookup a (res ++ [e]) = match ed_lookup a res with Some x => Some x | None => if ed_alias e =? a then Some e else None end.
  Proof. induction res as [|x res IH]; cbn [app ed_lookup]; [reflexivity|]. destruct (ed_alias x =? a); [reflexivity|exact IH]. Qed.

  Lemma lookup_update_same a e' res :
    ed_alias e' = a -> ed_lookup a (ed_update a e' res) = match ed_lookup a res with Some _ => Some e' | None => None end.
  Proof.
    intros He. induction res as [|x res IH]; cbn [ed_update ed_lookup]; [reflexivity|].
    destruct (ed_alias x =? a) eqn:E; cbn [ed_lookup].
    - rewrite He, Z.eqb_refl. reflexivity.
    - rewrite E. exact IH.
  Qed.

  Lemma lookup_update_other a b e' res :
    ed_alias e' = a -> a <> b -> ed_lookup b (ed_update a e' res) = ed_lookup b res.
  Proof.
    intros He Hab. induction res as [|x res IH]; cbn [ed_update ed_lookup]; [reflexivity|].
    destruct (ed_alias x =? a) eqn:E; cbn [ed_lookup].
    - apply Z.eqb_eq in E. rewrite He. replace (a =? b) with false by lia. replace (ed_alias x =? b) with false by lia. reflexivity.
    - destruct (ed_alias x =? b); [reflexivity|exact IH].
  Qed.

  Lemma existsb_has_export_shadowed a stack : existsb (fun q => has_export (getm g q) a) stack = shadowed a stack.
  Proof. reflexivity. Qed.

  (* one NamedExports entry of the star-exported file *)
  Lemma look_add_one_other a stack t res p :
    fst p <> a -> ed_lookup a (add_one g stack t res p) = ed_lookup a res.
  Proof.
    destruct p as [b ref]. cbn [fst]. intros Hb. unfold add_one.
    destruct (b =? 0); [reflexivity|].
    destruct (existsb (fun q => has_export (getm g q) b) stack); [reflexivity|].
    destruct (ed_lookup b res) as [e|] eqn:El.
    - destruct (negb (Nat.eqb (ed_src e) t)); [|reflexivity].
      apply lookup_update_other; [reflexivity|exact Hb].
    - rewrite lookup_app. destruct (ed_lookup a res); [reflexivity|]. cbn [ed_alias].
      replace (b =? a) with false by lia. reflexivity.
  Qed.

  Lemma look_add_one_same a stack t res ref :
    (forall e, ed_lookup a res = Some e -> ed_alias e = a) ->
    ed_lookup a (add_one g stack t res (a, ref)) =
    if (a =? 0) || shadowed a stack then ed_lookup a res else apply_hit a (ed_lookup a res) (t, ref).
  Proof.
    intros Hal. unfold add_one. destruct (a =? 0); [reflexivity|]. cbn [orb]. fold (shadowed a stack).
    destruct (shadowed a stack); [reflexivity|].
    destruct (ed_lookup a res) as [e|] eqn:El; cbn [apply_hit fst snd].
    - destruct (negb (Nat.eqb (ed_src e) t)); [|exact El].
      rewrite lookup_update_same by reflexivity. rewrite El. reflexivity.
    - rewrite lookup_app, El. cbn [ed_alias]. rewrite Z.eqb_refl. reflexivity.
  Qed.

  Definition aliases_unique (m : module) : Prop := NoDup (map fst (m_exports m)).

  Lemma look_alias_inv a res : (forall e, In e res -> True) -> forall e, ed_lookup a res = Some e -> ed_alias e = a.
  Proof.
    intros _. induction res as [|x res IH]; cbn [ed_lookup]; intros e H; [discriminate|].
    destruct (ed_alias x =? a) eqn:E; [inversion H; subst; apply Z.eqb_eq; exact E|apply IH; exact H].
  Qed.

  (* the whole NamedExports list of the star-exported file t *)
  Lemma look_fold_add_one a stack t : forall exps res,
    NoDup (map fst exps) ->
    ed_lookup a (fold_left (add_one g stack t) exps res) =
    match find_export a exps with
    | Some ref => if (a =? 0) || shadowed a stack then ed_lookup a res else apply_hit a (ed_lookup a res) (t, ref)
    | None => ed_lookup a res
    end.
  Proof.
    induction exps as [|[b ref] exps IH]; intros res Hnd; cbn [fold_left find_export]; [reflexivity|].
    inversion Hnd as [|? ? Hnotin Hnd']; subst. rewrite IH by exact Hnd'.
    destruct (b =? a) eqn:E.
    - apply Z.eqb_eq in E. subst b.
      assert (Hn : find_export a exps = None).
      { clear -Hnotin. induction exps as [|[c r] exps IH]; [reflexivity|]. cbn [find_export].
        destruct (c =? a) eqn:E; [apply Z.eqb_eq in E; subst; exfalso; apply Hnotin; left; reflexivity|].
        apply IH. intro H. apply Hnotin. right. exact H. }
      rewrite Hn. apply look_add_one_same. apply look_alias_inv. auto.
    - rewrite look_add_one_other by (cbn [fst]; lia). reflexivity.
  Qed.

  Lemma fold_hits_app a cur l1 l2 : fold_hits a cur (l1 ++ l2) = fold_hits a (fold_hits a cur l1) l2.
  Proof. unfold fold_hits. apply fold_left_app. Qed.

  Lemma own_hit_fold a stack' t cur :
    fold_hits a cur (own_hit a stack' t) =
    match find_export a (m_exports (getm g t)) with
    | Some ref => if (a =? 0) || shadowed a stack' then cur else apply_hit a cur (t, ref)
    | None => cur
    end.
  Proof.
    unfold own_hit. destruct ((a =? 0) || shadowed a stack'); [destruct (find_export a (m_exports (getm g t))); reflexivity|].
    destruct (find_export a (m_exports (getm g t))); reflexivity.
  Qed.

  Variable kinds : nat -> ekind.
  Hypothesis Hkinds : forall i, ekind_eqb (kinds i) ECJS = false.
  Hypothesis Hunique : forall i, aliases_unique (getm g i).

  Lemma add_stars_look a : forall f res s stack res',
    add_stars f g kinds res s stack = Some res' ->
    ed_lookup a res' = fold_hits a (ed_lookup a res) (hits f a s stack).
  Proof.
    induction f as [|f IH]; intros res s stack res' H; [discriminate|].
    cbn [add_stars hits] in *. destruct (memn s stack); [inversion H; reflexivity|].
    revert res res' H. generalize (m_stars (getm g s)).
    induction l as [|i l IHl]; intros res res' H; cbn [fold_left flat_map] in *.
    - inversion H; reflexivity.
    - rewrite fold_hits_app.
      destruct (record_of (getm g s) i) as [r|].
      + destruct (r_target r) as [t|].
        * rewrite Hkinds in H.
          destruct (add_stars f g kinds (fold_left (add_one g (stack ++ [s]) t) (m_exports (getm g t)) res) t (stack ++ [s])) as [res1|] eqn:E1.
          -- rewrite (IHl _ _ H). f_equal. rewrite (IH _ _ _ _ E1). rewrite fold_hits_app. f_equal.
             rewrite look_fold_add_one by apply Hunique. rewrite own_hit_fold. reflexivity.
          -- exfalso. clear -H. induction l as [|j l IHl]; cbn [fold_left] in H; [discriminate|]. apply IHl. exact H.
        * rewrite (IHl _ _ H). reflexivity.
      + rewrite (IHl _ _ H). reflexivity.
  Qed.
End Hits.
