(* The bundle order of a static ES module graph is the ECMA-262 evaluation
   order: simulation between Order.visit and SpecESM.inner_eval. *)
From V Require Import Common.Base C02.Graph C02.Order C02.SpecESM C02.OrderProofs.

Definition nz (x : nat) : bool := negb (Nat.eqb x 0).

Definition st_of (l : list (nat * mstatus)) (y : nat) : mstatus :=
  match assoc y l with Some s => s | None => Linked end.

Lemma status_of_st_of e y : status_of e y = st_of (e_status e) y.
Proof. reflexivity. Qed.

Lemma st_of_cons x v l y : st_of ((x, v) :: l) y = if Nat.eqb y x then v else st_of l y.
Proof. unfold st_of. cbn [assoc]. destruct (Nat.eqb y x); reflexivity. Qed.

Lemma pop_until_status m : forall stack st stk' st',
  (forall x, In x stack -> st_of st x <> Linked) ->
  pop_until m stack st = (stk', st') ->
  (forall y, st_of st' y <> Linked <-> st_of st y <> Linked) /\ incl stk' stack.
Proof.
  induction stack as [|x r IH]; intros st stk' st' Hs H; cbn [pop_until] in H.
  - inversion H; subst. split; [tauto|apply incl_refl].
  - assert (Hstep : forall y, st_of ((x, Evaluated) :: st) y <> Linked <-> st_of st y <> Linked).
    { intros y. rewrite st_of_cons. destruct (Nat.eqb y x) eqn:E.
      - apply Nat.eqb_eq in E; subst. split; [intros _; apply Hs; left; reflexivity|intros _; discriminate].
      - tauto. }
    destruct (Nat.eqb x m).
    + inversion H; subst. split; [exact Hstep|apply incl_tl, incl_refl].
    + apply IH in H.
      * destruct H as [Ha Hb]. split; [intros y; rewrite Ha; apply Hstep|apply incl_tl; exact Hb].
      * intros z Hz. apply Hstep. apply Hs. right. exact Hz.
Qed.

Section Sim.
  Variable g : graph.
  Variable emit : nat -> bool.
  Let succs := fun s => stmt_targets (getm g s).
  Let n := length g.
  Hypothesis Hsuccs : forall s t, In t (succs s) -> t <> 0%nat /\ (t < n)%nat.
  Hypothesis Hemit : forall s, s <> 0%nat -> (s < n)%nat -> emit s = true.

  Definition R (st : dstate) (es : estate * nat) : Prop :=
    (forall m, m <> 0%nat -> (memn m (fst st) = true <-> status_of (fst es) m <> Linked)) /\
    filter nz (snd st) = e_log (fst es) /\
    (forall x, In x (e_stack (fst es)) -> status_of (fst es) x <> Linked).

  Definition agree (a : option dstate) (b : option (estate * nat)) : Prop :=
    match a, b with
    | Some st, Some es => R st es
    | None, None => True
    | _, _ => False
    end.

  (* the loop body of step 11 *)
  Definition spec_step (f : nat) (m : nat) (acc : option (estate * nat)) (req : nat) : option (estate * nat) :=
    match acc with
    | None => None
    | Some (e', idx') =>
      match inner_eval f g req (e', idx') with
      | None => None
      | Some (e'', idx'') =>
        match status_of e'' req with
        | Evaluating => Some (set_anc e'' m (Nat.min (anc_of e'' m) (anc_of e'' req)), idx'')
        | _ => Some (e'', idx'')
        end
      end
    end.

  Lemma spec_fold_none f m l : fold_left (spec_step f m) l None = None.
  Proof. induction l; cbn; auto. Qed.

  Lemma R_set_anc st e idx m a : R st (e, idx) -> R st (set_anc e m a, idx).
  Proof. intros H. exact H. Qed.

  Lemma dedup_seen_fold f m
    (IH : forall s st es, s <> 0%nat -> (s < n)%nat -> R st es ->
            agree (visit succs emit (S f) s st) (inner_eval (S f) g s es)) :
    forall l seen st es,
      R st es ->
      (forall x, In x seen -> memn x (fst st) = true) ->
      (forall x, In x l -> x <> 0%nat /\ (x < n)%nat) ->
      agree (vfold (visit succs emit (S f)) l (Some st))
            (fold_left (spec_step (S f) m) (dedup l seen) (Some es)).
  Proof.
    induction l as [|x l IHl]; intros seen st es HR Hseen Hl.
    - cbn. exact HR.
    - rewrite vfold_cons. cbn [dedup]. destruct (memn x seen) eqn:Ex.
      + rewrite visit_visited by (apply Hseen; apply memn_In; exact Ex).
        apply IHl; auto. intros y Hy. apply Hl. right. exact Hy.
      + cbn [fold_left]. destruct es as [e idx]. cbn [spec_step].
        destruct (Hl x (or_introl eq_refl)) as [Hx0 Hxn].
        pose proof (IH x st (e, idx) Hx0 Hxn HR) as Hag.
        destruct (visit succs emit (S f) x st) as [st1|] eqn:Ev;
          destruct (inner_eval (S f) g x (e, idx)) as [[e1 idx1]|] eqn:Ei; cbn in Hag; try contradiction.
        * assert (HR1 : R st1 (match status_of e1 x with
                               | Evaluating => (set_anc e1 m (Nat.min (anc_of e1 m) (anc_of e1 x)), idx1)
                               | _ => (e1, idx1) end)).
          { destruct (status_of e1 x); auto. }
          destruct (visit_Inv succs emit _ _ _ _ Ev) as [[Hincl _] Hin].
          replace (match status_of e1 x with
                   | Evaluating => Some (set_anc e1 m (Nat.min (anc_of e1 m) (anc_of e1 x)), idx1)
                   | _ => Some (e1, idx1) end)
            with (Some (match status_of e1 x with
                        | Evaluating => (set_anc e1 m (Nat.min (anc_of e1 m) (anc_of e1 x)), idx1)
                        | _ => (e1, idx1) end)) by (destruct (status_of e1 x); reflexivity).
          apply IHl; auto.
          -- intros y [<-|Hy]; [apply memn_In; exact Hin|].
             apply memn_In. apply Hincl. apply memn_In. apply Hseen. exact Hy.
          -- intros y Hy. apply Hl. right. exact Hy.
        * rewrite vfold_none, spec_fold_none. exact I.
  Qed.

  Lemma dedup_nonempty x l : dedup (x :: l) [] <> [].
  Proof. cbn. discriminate. Qed.

  Lemma sim : forall fuel s st es, s <> 0%nat -> (s < n)%nat -> R st es ->
    agree (visit succs emit fuel s st) (inner_eval fuel g s es).
  Proof.
    induction fuel as [|f IH]; intros s st [e idx] Hs0 Hsn HR; [exact I|].
    cbn [visit inner_eval].
    destruct HR as [Hvis [Hlog Hstack]]. cbn [fst snd] in *.
    destruct (memn s (fst st)) eqn:Em.
    - assert (Hnl : status_of e s <> Linked) by (apply Hvis; auto).
      destruct (status_of e s); [congruence| |];
        (unfold agree, R; cbn [fst snd]; split; [exact Hvis|split; [exact Hlog|exact Hstack]]).
    - assert (Hl : status_of e s = Linked).
      { destruct (status_of e s) eqn:Es; auto; exfalso;
          assert (memn s (fst st) = true) by (apply Hvis; [auto|rewrite Es; discriminate]); congruence. }
      rewrite Hl.
      set (e1 := mkE ((s, Evaluating) :: e_status e) ((s, (idx, idx)) :: e_dfs e) (s :: e_stack e) (e_log e)).
      assert (HR1 : R (s :: fst st, snd st) (e1, S idx)).
      { split; [|split].
        - intros m Hm. cbn [fst]. rewrite status_of_st_of. unfold e1. cbn [e_status memn].
          rewrite st_of_cons. rewrite (Nat.eqb_sym m s). destruct (Nat.eqb s m) eqn:E; cbn [orb].
          + split; [discriminate|reflexivity].
          + rewrite Nat.eqb_sym in E. rewrite <- status_of_st_of. apply Hvis. exact Hm.
        - exact Hlog.
        - intros x Hx. cbn [fst] in *. rewrite status_of_st_of. unfold e1 in *. cbn [e_status e_stack] in *.
          rewrite st_of_cons. destruct (Nat.eqb x s) eqn:E; [discriminate|].
          destruct Hx as [->|Hx]; [rewrite Nat.eqb_refl in E; discriminate|]. apply Hstack. exact Hx. }
      fold (spec_step f s).
      change (fold_left (spec_step f s) (requested g s) (Some (e1, S idx)))
        with (fold_left (spec_step f s) (dedup (succs s) []) (Some (e1, S idx))).
      assert (Hag : agree (vfold (visit succs emit f) (succs s) (Some (s :: fst st, snd st)))
                          (fold_left (spec_step f s) (dedup (succs s) []) (Some (e1, S idx)))).
      { destruct f as [|f'].
        - destruct (succs s) as [|x l] eqn:El; [exact HR1|].
          rewrite vfold_cons. cbn [visit]. rewrite vfold_none.
          cbn [dedup memn fold_left spec_step inner_eval]. rewrite spec_fold_none. exact I.
        - apply dedup_seen_fold;
            [exact IH | exact HR1 | intros x [] | intros x Hx; apply (Hsuccs s); exact Hx]. }
      destruct (vfold (visit succs emit f) (succs s) (Some (s :: fst st, snd st))) as [st1|];
        destruct (fold_left (spec_step f s) (dedup (succs s) []) (Some (e1, S idx))) as [[e2 idx2]|];
        cbn in Hag; try contradiction; [|exact I].
      destruct Hag as [Hvis2 [Hlog2 Hstack2]]. cbn [fst snd] in *.
      rewrite (Hemit s Hs0 Hsn).
      set (e3 := mkE (e_status e2) (e_dfs e2) (e_stack e2) (e_log e2 ++ [s])).
      assert (HR3 : R (fst st1, snd st1 ++ [s]) (e3, idx2)).
      { split; [exact Hvis2|split; [|exact Hstack2]]. cbn [fst snd e3 e_log].
        rewrite filter_app, Hlog2. cbn [filter]. unfold nz at 1.
        destruct (Nat.eqb s 0) eqn:E; [apply Nat.eqb_eq in E; contradiction|reflexivity]. }
      destruct (Nat.eqb (anc_of e3 s) (dfs_of e3 s)); [|exact HR3].
      destruct (pop_until s (e_stack e3) (e_status e3)) as [stk sts] eqn:Ep.
      destruct HR3 as [Hv3 [Hl3 Hs3]]. cbn [fst snd] in *.
      destruct (pop_until_status s _ _ _ _ Hs3 Ep) as [Hiff Hinc].
      split; [|split]; cbn [fst snd e_log e_status e_stack].
      + intros m Hm. rewrite status_of_st_of. cbn [e_status]. rewrite Hiff. apply Hv3. exact Hm.
      + exact Hl3.
      + intros x Hx. rewrite status_of_st_of. cbn [e_status]. rewrite Hiff. apply Hs3. apply Hinc. exact Hx.
  Qed.
End Sim.

Lemma vfold_ext v v' l : (forall s st, v s st = v' s st) -> forall acc, vfold v l acc = vfold v' l acc.
Proof.
  intros H. induction l as [|x l IH]; intros acc; [reflexivity|].
  cbn. destruct acc as [st|]; [rewrite H|]; apply IH.
Qed.

Lemma visit_ext succs succs' emit fuel :
  (forall s, succs s = succs' s) ->
  forall s st, visit succs emit fuel s st = visit succs' emit fuel s st.
Proof.
  intros H. induction fuel as [|f IH]; intros s st; [reflexivity|].
  cbn [visit]. rewrite H. rewrite (vfold_ext _ _ _ IH). reflexivity.
Qed.

Lemma vfold_visited succs emit f : forall l st,
  (forall x, In x l -> In x (fst st)) -> vfold (visit succs emit (S f)) l (Some st) = Some st.
Proof.
  induction l as [|x l IH]; intros st H; [reflexivity|].
  rewrite vfold_cons, visit_visited by (apply memn_In; apply H; left; reflexivity).
  apply IH. intros y Hy. apply H. right. exact Hy.
Qed.

Lemma order_is_esm_all g keys e rest l :
  let n := length g in
  (forall s t, In t (stmt_targets (getm g s)) -> t <> 0%nat /\ (t < n)%nat) ->
  stmt_targets (getm g 0) = [] ->
  (forall s, followed g s = stmt_targets (getm g s)) ->
  (forall s, s <> 0%nat -> (s < n)%nat -> in_chunk g s = true) ->
  e <> 0%nat -> (e < n)%nat ->
  chunk_sorted keys = e :: rest ->
  (forall x, In x rest -> reach (followed g) e x) ->
  bundle_order g keys = Some l ->
  spec_eval_order g e = Some (filter nz l).
Proof.
  intros n Hwf H0 Hfol Hlive He0 Hen Hsorted Hrest Hb.
  unfold bundle_order, visit_all in Hb. rewrite Hsorted in Hb.
  set (succs := fun s => stmt_targets (getm g s)) in *.
  rewrite (vfold_ext _ (visit succs (in_chunk g) (S (length g)))) in Hb
    by (intros s st; apply visit_ext; exact Hfol).
  rewrite vfold_cons in Hb.
  assert (Hv0 : visit succs (in_chunk g) (S (length g)) 0 ([], []) =
                Some ([0%nat], if in_chunk g 0 then [0%nat] else [])).
  { cbn [visit memn fst snd]. assert (Hs0 : succs 0%nat = []) by exact H0. rewrite Hs0. cbn. reflexivity. }
  rewrite Hv0 in Hb. rewrite vfold_cons in Hb.
  set (st0 := ([0%nat], if in_chunk g 0 then [0%nat] else [])) in *.
  assert (HR0 : R st0 (mkE [] [] [] [], 0%nat)).
  { split; [|split].
    - intros m Hm. cbn. destruct m; [contradiction|]. cbn. split; [discriminate|intros H; exfalso; apply H; reflexivity].
    - cbn. destruct (in_chunk g 0); reflexivity.
    - intros x []. }
  pose proof (sim g (in_chunk g) Hwf Hlive (S (length g)) e st0 _ He0 Hen HR0) as Hag.
  fold succs in Hag.
  destruct (visit succs (in_chunk g) (S (length g)) e st0) as [st1|] eqn:Ev.
  2:{ rewrite vfold_none in Hb. discriminate. }
  unfold spec_eval_order. fold n in Hag |- *.
  destruct (inner_eval (S n) g e (mkE [] [] [] [], 0%nat)) as [[e1 i1]|]; cbn in Hag; [|contradiction].
  destruct Hag as [_ [Hlog _]]. cbn [fst snd] in Hlog.
  (* the remaining roots were already visited *)
  destruct (visit_Inv succs (in_chunk g) _ _ _ _ Ev) as [[Hincl [nw [_ [_ [_ D1]]]]] Hin].
  assert (Hclosed : forall y, In y (fst st1) -> incl (succs y) (fst st1)).
  { intros y Hy. destruct (in_dec Nat.eq_dec y (fst st0)) as [Hy0|Hy0].
    - cbn in Hy0. destruct Hy0 as [<-|[]]. unfold succs. rewrite H0. intros z [].
    - apply (D1 y Hy Hy0). }
  assert (Hreach : forall a b, reach succs a b -> In a (fst st1) -> In b (fst st1)).
  { intros a b Hp. induction Hp as [x|x y z Hy Hp IH]; intros Hx; [exact Hx|].
    apply IH. apply (Hclosed x Hx). exact Hy. }
  assert (Hreach_ext : forall a b, reach (followed g) a b -> reach succs a b).
  { intros a b Hp. induction Hp as [x|x y z Hy Hp IH]; [constructor|].
    eapply reach_step; [|exact IH]. unfold succs. rewrite <- Hfol. exact Hy. }
  rewrite vfold_visited in Hb.
  - inversion Hb; subst. rewrite Hlog. reflexivity.
  - intros x Hx. eapply Hreach; [apply Hreach_ext, Hrest, Hx|exact Hin].
Qed.

(* the same with the sort's precondition instead of its result: the entry point is the only
   file at distance 0 and every file of the chunk is reachable from it *)
Lemma order_is_esm_keys g keys e t0 l :
  (forall s t, In t (stmt_targets (getm g s)) -> t <> 0%nat /\ (t < length g)%nat) ->
  stmt_targets (getm g 0) = [] ->
  (forall s, followed g s = stmt_targets (getm g s)) ->
  (forall s, s <> 0%nat -> (s < length g)%nat -> in_chunk g s = true) ->
  e <> 0%nat -> (e < length g)%nat ->
  In (0, t0, e) keys -> (forall k, In k keys -> k = (0, t0, e) \/ 0 < kdist k) ->
  (forall k, In k keys -> reach (followed g) e (snd k)) ->
  bundle_order g keys = Some l ->
  spec_eval_order g e = Some (filter nz l).
Proof.
  intros Hwf H0 Hfol Hlive He0 Hen Hin Hall Hreach Hb.
  destruct (entry_sorts_first_all keys e t0 Hin Hall) as [rest Hs].
  eapply order_is_esm_all; eauto.
  intros x Hx.
  assert (Hx2 : In x (chunk_sorted keys)) by (rewrite Hs; right; exact Hx).
  unfold chunk_sorted in Hx2. apply in_map_iff in Hx2 as [k [Hk Hks]]. subst x.
  apply Hreach. apply sort_keys_In. exact Hks.
Qed.
