(* C02 property theorems. This file contains only statements closed by
   [exact lemma] and Print Assumptions. *)
From V Require Import Common.Base C02.Graph C02.Order C02.SpecESM C02.Wrap C02.Resolve C02.ResolveSpec
  C02.DataUrl C02.SpecDataUrl C02.OrderProofs C02.OrderEsmProofs C02.ResolveProofs C02.WrapProofs C02.DataUrlProofs C02.ClassifyProofs C02.Emit C02.EmitProofs C02.ResolveChainProofs C02.ScanEsmProofs C02.ResolveDen C02.SpecDenProofs C02.StarHitsProofs C02.StarDenProofs C02.LinkDenProofs C02.ResolveStarsProofs C02.EvalOrder C02.EvalOrderProofs C02.WrapMinProofs C02.WrapGraph C02.WrapExactProofs C02.Interop C02.InteropProofs C02.ResolveCycleProofs.
From Coq Require Import Permutation.

(* every file of the chunk is emitted at most once ("every module body runs at most once") *)
Theorem order_nodup : forall g keys l, bundle_order g keys = Some l -> NoDup l.
Proof. intros g keys l H. exact (proj1 (visit_all_spec _ _ _ _ _ H)). Qed.
Print Assumptions order_nodup.

(* the emitted files are exactly the files of the chunk that are reachable
   from the runtime file or a file of the chunk along followed import records *)
Theorem order_complete : forall g keys l, bundle_order g keys = Some l ->
  forall x, In x l <->
    (in_chunk g x = true /\ exists r, In r (0%nat :: chunk_sorted keys) /\ reach (followed g) r x).
Proof. intros g keys l H. exact (proj2 (visit_all_spec _ _ _ _ _ H)). Qed.
Print Assumptions order_complete.

(* findReachableFiles: every file reachable from the runtime file or an entry point, exactly once *)
Theorem reachable_files_exact : forall g entries l, reach_order g entries = Some l ->
  NoDup l /\ forall x, In x l <-> exists r, In r (0%nat :: entries) /\ reach (reach_succs g) r x.
Proof.
  intros g entries l H. destruct (visit_all_spec _ _ _ _ _ H) as [Hn Hi]. split; [exact Hn|].
  intros x. rewrite Hi. split; [intros [_ Hr]; exact Hr|intros Hr; split; [reflexivity|exact Hr]].
Qed.
Print Assumptions reachable_files_exact.

(* single entry, static ES module graph: the order of module bodies in the
   bundle is the ECMA-262 InnerModuleEvaluation order (the runtime file,
   index 0, is not a module of the user's graph) *)
Theorem order_is_esm : forall g keys e rest l,
  (forall s t, In t (stmt_targets (getm g s)) -> t <> 0%nat /\ (t < length g)%nat) ->
  stmt_targets (getm g 0) = [] ->
  (forall s, followed g s = stmt_targets (getm g s)) ->
  (forall s, s <> 0%nat -> (s < length g)%nat -> in_chunk g s = true) ->
  e <> 0%nat -> (e < length g)%nat ->
  chunk_sorted keys = e :: rest ->
  (forall x, In x rest -> reach (followed g) e x) ->
  bundle_order g keys = Some l ->
  spec_eval_order g e = Some (filter nz l).
Proof. exact order_is_esm_all. Qed.
Print Assumptions order_is_esm.

(* "the linker binds every import of a static ES module graph to the binding
   ECMA-262 ResolveExport denotes" is false of the faithful model *)
Theorem resolve_is_spec_refuted : ~ resolve_is_spec_statement.
Proof. exact statement_refuted. Qed.
Print Assumptions resolve_is_spec_refuted.

(* former witness A, one binding under two export names along two export-star paths: repaired
   by fix a7bd0a8 (the name location is no longer part of the all-results-equal test); the
   linker now gives ResolveExport's binding *)
Theorem resolve_alias_two_names_agrees :
  all_esm witness_alias = true /\ single_alias witness_alias = false /\
  link_verdict witness_alias (seq 0 6) 1 (imp 1 1 0) = Some (VFound 5 0) /\
  spec_verdict witness_alias 1 (imp 1 1 0) = Some (VFound 5 0).
Proof. exact alias_witness_agrees. Qed.
Print Assumptions resolve_alias_two_names_agrees.

(* witness B: a re-export running back into the file that star-exports it *)
Theorem resolve_is_spec_refuted_cycle :
  all_esm witness_cycle = true /\ single_alias witness_cycle = true /\
  link_verdict witness_cycle (seq 0 5) 1 (imp 1 1 0) = Some VAmbiguous /\
  spec_verdict witness_cycle 1 (imp 1 1 0) = Some (VFound 3 0).
Proof. exact refuted_cycle. Qed.
Print Assumptions resolve_is_spec_refuted_cycle.

(* witness C: a named import from an ES module that has no export statement is accepted
   (binding undefined, warning only); ECMA-262: the import does not resolve (SyntaxError) *)
Theorem resolve_is_spec_refuted_exportless :
  all_esm witness_exportless = true /\ single_alias witness_exportless = true /\
  indirect_acyclic witness_exportless = true /\ named_targets_export witness_exportless = false /\
  link_verdict witness_exportless (seq 0 4) 1 (imp 1 3 0) = Some VOther /\
  spec_verdict witness_exportless 1 (imp 1 3 0) = Some VNull.
Proof. exact refuted_exportless. Qed.
Print Assumptions resolve_is_spec_refuted_exportless.

(* partial, bounded-exhaustive (finite domains, by computation): outside the
   refuted re-export-cycle shape the linker's verdict (found binding / not found /
   ambiguous) equals ResolveExport's for every import of
   all 18000 graphs of three files over one export name (each name absent, local or
   re-exported from any file; export stars to any subset of the files in either order for two
   of the files).  Unlike resolve_is_spec_partial below this domain contains CYCLES of export
   stars (only cycles through an indirect export are excluded). *)
Theorem resolve_is_spec_partial_bounded3 : forall fs, In fs domain1 ->
  let g := graph_of [1; 2; 3]%nat [1] fs in
  indirect_acyclic g = true ->
  forall ni, In ni (m_imports (getm g (S (length fs)))) -> agrees g (seq 0 (length g)) (S (length fs)) ni = true.
Proof. exact (bounded_domain _ _ _ domain1_ok). Qed.
Print Assumptions resolve_is_spec_partial_bounded3.


(* after scanImportsAndExports steps 1-2 wrapping is closed under imports:
   every file imported (by any import record) by a wrapped file is wrapped;
   the runtime file (index 0) is never wrapped *)
Theorem wrap_closed : forall g keep_esm fmt order st,
  scan_steps12 fmt keep_esm g order = Some st ->
  forall s, In s order -> s <> 0%nat -> (s < length g)%nat -> wrapped st s ->
  forall t, In t (all_targets (getm g s)) -> t <> 0%nat -> (t < length g)%nat -> wrapped st t.
Proof. exact wrap_closed_all. Qed.
Print Assumptions wrap_closed.

(* the percent-escaped data URL written for a file (dataurl loader) denotes,
   under the WHATWG URL parser and data: URL processor, exactly the file's
   bytes: every MIME type of printable characters and every byte string the
   encoder accepts (valid UTF-8) *)
Theorem dataurl_roundtrip : forall mime text url,
  mime_ok mime -> Forall byte_ok text -> encode_percent mime text = Some url ->
  whatwg_data_url_body url = Some (mime, false, text).
Proof. exact percent_roundtrip_all. Qed.
Print Assumptions dataurl_roundtrip.

(* step 1 of scanImportsAndExports mutates the exports kind and wrap of the
   IMPORTED file while it iterates over the files: the resulting assignment is
   the same for every visiting order *)
Theorem classify_confluent : forall fmt g order1 order2,
  Permutation order1 order2 -> classify fmt g order1 = classify fmt g order2.
Proof. exact classify_confluent_all. Qed.
Print Assumptions classify_confluent.

(* entry-point exports, ES-module entry with an export statement: a requirer of the cjs
   bundle and the global name of the iife bundle see exactly the same names, for every
   export table and every sequence of export stars evaluated at run time *)
Theorem exports_cjs_eq_iife : forall names_of aliases dyn,
  exported_names names_of FCjs true aliases dyn = exported_names names_of (FIife true) true aliases dyn.
Proof. intros. rewrite cjs_names, iife_names. reflexivity. Qed.
Print Assumptions exports_cjs_eq_iife.

(* ... and these contain every statically exported name and every name (except "default")
   that an export star provides at run time (the third argument of __reExport) *)
Theorem exports_cjs_complete : forall names_of aliases dyn k,
  (In k aliases \/ exists d, In d dyn /\ In k (names_of d) /\ k <> 0) ->
  In k (exported_names names_of FCjs true aliases dyn).
Proof.
  intros names_of aliases dyn k H. rewrite cjs_names. destruct H as [H|[d [Hd [Hk H0]]]].
  - apply final_exports_static. exact H.
  - eapply final_exports_dynamic; eauto.
Qed.
Print Assumptions exports_cjs_complete.

(* full statement: "the exported names are the same in the three formats for every entry
   export table".  False of the faithful model when an export star is evaluated at run time:
   an ES module cannot declare names that only exist at run time *)
Theorem exports_three_formats_same_refuted : exists names_of aliases dyn,
  exported_names names_of FEsm true aliases dyn <> exported_names names_of FCjs true aliases dyn.
Proof. exists (fun _ => [7]), [1], [0%nat]. vm_compute. discriminate. Qed.
Print Assumptions exports_three_formats_same_refuted.

(* partial: without run-time export stars the three formats export exactly the table *)
Theorem exports_three_formats_same_partial : forall names_of aliases,
  NoDup aliases ->
  exported_names names_of FEsm true aliases [] = aliases /\
  exported_names names_of FCjs true aliases [] = aliases /\
  exported_names names_of (FIife true) true aliases [] = aliases.
Proof.
  intros names_of aliases Hn. rewrite esm_names, cjs_names, iife_names. unfold final_exports. cbn [fold_left].
  rewrite copy_all_nodup by (auto; intros x _ []). auto.
Qed.
Print Assumptions exports_three_formats_same_partial.

(* Unbounded, for graphs WITHOUT export stars: for every finite graph of ES modules (any size,
   any depth of "export {a as b} from" / re-exported imports / "export * as ns") that meets the
   boolean side condition [chain_scope g rk] - no export star, plain import records, every
   named import targets a file with an export statement (excludes refuted shape C), and the rank
   certificate [rk] decreases along every indirect export (excludes refuted shape B) - the
   linker's verdict for an import (classification steps 1-2, ResolvedExports, import matching:
   binding found / no matching export) is the one ECMA-262 ResolveExport gives.  [esm_graph]:
   every file is an ES module whose records are import statements resolved inside the graph.
   Full statement (resolve_is_spec_partial for graphs WITH export stars, side condition
   single_alias && ranked && named_targets_export): still only proved on the bounded domains above. *)
Theorem resolve_is_spec_partial_starfree : forall g rk order s ni v1 v2,
  esm_graph g = true -> chain_scope g rk = true ->
  import_of g (s, ni_ref ni) = Some ni ->
  link_verdict g order s ni = Some v1 -> spec_verdict g s ni = Some v2 -> v1 = v2.
Proof. exact starfree_link_agree. Qed.
Print Assumptions resolve_is_spec_partial_starfree.

(* chunkOrderArray sort: with one entry point at distance 0 and every other file of the chunk
   at a positive distance, the sorted list starts with the entry point *)
Theorem entry_sorts_first : forall keys e t0,
  In (0, t0, e) keys -> (forall k, In k keys -> k = (0, t0, e) \/ 0 < kdist k) ->
  exists rest, chunk_sorted keys = e :: rest.
Proof. exact entry_sorts_first_all. Qed.
Print Assumptions entry_sorts_first.

(* order_is_esm stated on the sort's input (distances) instead of its result *)
Theorem order_is_esm_by_distance : forall g keys e t0 l,
  (forall s t, In t (stmt_targets (getm g s)) -> t <> 0%nat /\ (t < length g)%nat) ->
  stmt_targets (getm g 0) = [] ->
  (forall s, followed g s = stmt_targets (getm g s)) ->
  (forall s, s <> 0%nat -> (s < length g)%nat -> in_chunk g s = true) ->
  e <> 0%nat -> (e < length g)%nat ->
  In (0, t0, e) keys -> (forall k, In k keys -> k = (0, t0, e) \/ 0 < kdist k) ->
  (forall k, In k keys -> reach (followed g) e (snd k)) ->
  bundle_order g keys = Some l ->
  spec_eval_order g e = Some (filter nz l).
Proof. exact order_is_esm_keys. Qed.
Print Assumptions order_is_esm_by_distance.

(* ECMA-262 ResolveExport with its shared, mutated resolve set: on every graph whose re-export
   relation (export stars and indirect exports) is acyclic - rank certificate [rk] - the result
   is the set-free denotation: no candidate -> null, one candidate binding -> that binding,
   two different candidates -> ambiguous.  In particular returning null for a (module, name)
   pair that an earlier branch already visited never changes the answer. *)
Theorem resolve_set_revisit_harmless : forall g rk m name R,
  ranked_all g rk = true ->
  spec_resolve_export g m name = Some R -> R = classify_cands (den g rk m name).
Proof.
  intros g rk m name R Hr H. unfold spec_resolve_export in H.
  destruct (spec_resolve (resolve_fuel g) g m name []) as [[R0 rs']|] eqn:E; [|discriminate].
  inversion H; subst. exact (spec_resolve_is_den g rk Hr _ _ _ _ _ E).
Qed.
Print Assumptions resolve_set_revisit_harmless.

(* addExportsForExportStar, per export alias, on every ranked graph: ResolvedExports[a] of a file
   that does not export [a] itself is the fold (first hit = the export, later hits from another
   file = PotentiallyAmbiguousExportStarRefs) of the list of hits of the star traversal, and the
   hits denote exactly the candidate bindings of the set-free denotation - the same list
   ECMA-262 ResolveExport classifies (resolve_set_revisit_harmless).
   Still missing for resolve_is_spec_partial with export stars: matchImportWithExport's
   all-results-equal test over these hits = classify_cands (mloop over main hit + ambiguous refs). *)
Theorem resolved_exports_star_characterisation : forall g rk kinds o a,
  ranked_all g rk = true ->
  (forall i, ekind_eqb (kinds i) ECJS = false) ->
  (forall i, aliases_unique (getm g i)) ->
  m_lazy (getm g o) = false -> a <> 0 -> find_export a (m_exports (getm g o)) = None ->
  ed_lookup a (resolved_of g kinds o) = fold_hits a None (hits g (S (length g)) a o []) /\
  flat_map (hit_cands g rk) (hits g (S (length g)) a o []) = den g rk o a.
Proof.
  intros g rk kinds o a Hr Hk Hu Hl Ha Hf. split.
  - rewrite (resolved_look g rk Hr kinds Hk Hu o a Hl), Hf. reflexivity.
  - exact (star_hits_den g rk Hr kinds Hk Hu o a Ha Hf).
Qed.
Print Assumptions resolved_exports_star_characterisation.

(* the interop flag of __toESM is decided by the importing file alone: node mode iff the
   importer is ESM-typed, for import statements and for import() alike *)
Theorem to_esm_node_mode_iff_esm_typed_importer : forall typed form,
  to_esm_node_mode typed form = true <-> typed = true.
Proof. exact node_mode_iff. Qed.
Print Assumptions to_esm_node_mode_iff_esm_typed_importer.

(* hence from an ESM-typed importer the default export of a CommonJS file is module.exports,
   as in node, with or without the __esModule marker and for every import form *)
Theorem esm_typed_default_is_module_exports : forall form marker,
  to_esm_default (to_esm_node_mode true form) marker = native_default.
Proof. exact typed_default_native. Qed.
Print Assumptions esm_typed_default_is_module_exports.

(* full statement "default is module.exports for every importer": false of the faithful model
   (deliberate Babel interop for importers that are not ESM-typed; known finding C02-G) *)
Theorem default_is_module_exports_refuted : exists typed form marker,
  to_esm_default (to_esm_node_mode typed form) marker <> native_default.
Proof. exists false, IFDynamic, true. exact (untyped_marker_default IFDynamic). Qed.
Print Assumptions default_is_module_exports_refuted.

(* resolve_is_spec_partial: for ALL finite graphs in the boolean scope [star_scope g rk] - ES modules
   with plain import records; named imports target files with an export statement (excludes
   refuted shape C); a rank certificate [rk] for the re-export relation of export stars and
   indirect exports (excludes refuted shape B, the re-export cycle, and with it cycles of export
   stars); distinct export aliases per file; every indirect export entry resolves - the verdict
   of the linker (scanImportsAndExports steps 1-2, ResolvedExports with export stars, shadowing and
   potentially ambiguous refs, matchImportWithExport with its all-results-equal test) for an
   import is the one ECMA-262 ResolveExport gives: the same binding, "no matching export", or
   "ambiguous".  Unbounded in the number of files, names, star levels and diamonds.
   Not covered: graphs with cycles of export stars (bounded domain above), CommonJS files. *)
Theorem resolve_is_spec_partial : forall g rk order s ni v1 v2,
  star_scope g rk = true ->
  import_of g (s, ni_ref ni) = Some ni ->
  link_verdict g order s ni = Some v1 -> spec_verdict g s ni = Some v2 -> v1 = v2.
Proof. intros g rk order s ni v1 v2 Hs. exact (stars_link_agree g rk Hs order s ni v1 v2). Qed.
Print Assumptions resolve_is_spec_partial.

(* mixed ESM / CommonJS graphs with lazy wrappers: for every graph whose wrap assignment is
   consistent (every required or dynamically imported file is wrapped, and every file imported by
   a wrapped file is wrapped - wrap_closed) the sequence of module-body start/end events of the
   bundle (non-wrapped files in place, wrapped files at the first call of their __esm / __commonJS
   wrapper, import() served in request order) equals native loading (InnerModuleEvaluation for ES
   modules, require() as call-time evaluation with a module cache, import() in request order) *)
Theorem mixed_order_is_native : forall g entry,
  wrap_consistent g = true -> bundle_trace g entry = native_trace g entry.
Proof. intros g entry H. exact (bundle_is_native g H entry). Qed.
Print Assumptions mixed_order_is_native.

(* EncodeStringAsShortestDataURL (dataurl loader, CSS url()): whichever of the two forms is chosen -
   percent-escaped or base64 - the URL denotes exactly the file's bytes under the WHATWG processor.
   The base64 codec itself is trusted: it appears as section variables with its round trip and its
   output alphabet as hypotheses *)
Theorem dataurl_shortest_roundtrip : forall (b64enc : bytes -> bytes) (b64dec : bytes -> option bytes),
  (forall t, Forall byte_ok t -> b64dec (b64enc t) = Some t) ->
  (forall t, Forall byte_ok t -> Forall b64_char (b64enc t)) ->
  forall mime text, mime_ok mime -> Forall byte_ok text ->
  data_url_value b64dec (encode_shortest b64enc mime text) = Some text.
Proof. exact shortest_roundtrip_all. Qed.
Print Assumptions dataurl_shortest_roundtrip.

(* wrap minimality, the converse of wrap_closed: after scanImportsAndExports steps 1-2 a file is
   wrapped only if its exports kind is CommonJS, or it is the target of a require() / import() record
   of a reachable file, or it is imported by a wrapped file *)
Theorem wrap_minimal : forall g order keep_esm fmt st,
  scan_steps12 fmt keep_esm g order = Some st ->
  forall s, wrapped st s ->
    kind_of st s = ECJS \/ req_dyn g order s \/ exists p, wrapped st p /\ In s (all_targets (getm g p)).
Proof. exact wrap_minimal_all. Qed.
Print Assumptions wrap_minimal.

(* both directions together: for a reachable file of the graph other than the runtime and other
   than an entry point of a cjs-format build (whose CommonJS body is the bundle's top level),
   being wrapped is exactly: CommonJS, or required / dynamically imported by a reachable file, or
   imported by a reachable wrapped file.  [targets_ok]: the reachable files import only reachable
   files of the graph and never the runtime (checked on every real case) *)
Theorem wrap_exact : forall g order keep_esm fmt st,
  scan_steps12 fmt keep_esm g order = Some st -> targets_ok g order = true ->
  forall s, In s order -> s <> 0%nat -> (s < length g)%nat ->
    (m_entry (getm g s) = false \/ fmt = true) ->
    (wrapped st s <->
     kind_of st s = ECJS \/ req_dyn g order s \/
     exists p, In p order /\ p <> 0%nat /\ (p < length g)%nat /\ wrapped st p /\ In s (all_targets (getm g p))).
Proof. exact wrap_exact_all. Qed.
Print Assumptions wrap_exact.

(* mixed_order_is_native without its hypothesis, for the graphs classified by the model: the wrap
   flags computed by steps 1-2 are consistent, so the bundle's evaluation order is the native one *)
Theorem wrap_consistent_of_classified : forall g order keep_esm fmt st,
  scan_steps12 fmt keep_esm g order = Some st -> targets_ok g order = true ->
  wrap_consistent (egraph_of g order st) = true.
Proof. exact consistent_of_scan. Qed.
Print Assumptions wrap_consistent_of_classified.

Theorem classified_mixed_order_is_native : forall g order keep_esm fmt st,
  scan_steps12 fmt keep_esm g order = Some st -> targets_ok g order = true ->
  forall entry, bundle_trace (egraph_of g order st) entry = native_trace (egraph_of g order st) entry.
Proof. exact classified_order_is_native. Qed.
Print Assumptions classified_mixed_order_is_native.

(* the CommonJS side of binding resolution.  matchImportWithExport on an import whose record
   targets a file with exports kind CommonJS answers with a namespace alias: the identifier becomes
   the property access ns.alias on the import record's namespace symbol, no error is reported *)
Theorem cjs_import_is_namespace_alias : forall g kinds resolved keep_esm t ni n,
  import_of g t = Some ni -> ni_ns ni = Some n ->
  advance g kinds resolved t ni = ICommonJS ->
  match_import g kinds resolved keep_esm t
  = Some (mkRes MNamespace (ni_alias ni) (Some (fst t, n)) 0 0 0, []).
Proof. exact cjs_import_namespace_alias. Qed.
Print Assumptions cjs_import_is_namespace_alias.

(* the value of that property access on __toESM(require_x(), isNodeMode) is the value node gives
   the import - "default" is module.exports, any other name the own key of module.exports - for every
   interop shape of [interop_domain]: an ESM-typed importer (node mode), or a target without the
   __esModule marker, or a name other than "default" *)
Theorem interop_value_is_native_partial : forall typed form c name,
  interop_domain typed c name = true -> bundle_get typed form c name = native_get c name.
Proof. exact bundle_get_native. Qed.
Print Assumptions interop_value_is_native_partial.

(* the two together, from the graph to the value: for an import (default, named, or a property of
   a namespace import) from a file classified CommonJS that uses exports / module *)
Theorem cjs_import_value_is_native_partial : forall g kinds resolved keep_esm t ni n r o res ev typed form c,
  import_of g t = Some ni -> ni_ns ni = Some n ->
  record_of (getm g (fst t)) (ni_record ni) = Some r -> r_target r = Some o ->
  kinds o = ECJS -> (m_uses_exports (getm g o) = true \/ m_uses_module (getm g o) = true) ->
  match_import g kinds resolved keep_esm t = Some (res, ev) ->
  interop_domain typed c (ni_alias ni) = true ->
  ev = [] /\ mr_kind res = MNamespace /\ mr_ns res = Some (fst t, n) /\
  import_value res typed form c = Some (native_get c (ni_alias ni)).
Proof. exact cjs_import_value_all. Qed.
Print Assumptions cjs_import_value_is_native_partial.

(* without the domain the statement is false of the faithful model: "default" of a CommonJS file
   carrying the __esModule marker, imported with import() by a file that is not ESM-typed, is
   exports.default in the bundle and module.exports in node (known finding C02-G, replayed on the
   real bundler on every run) *)
Theorem interop_value_is_native_refuted : exists typed form c name,
  bundle_get typed form c name <> native_get c name.
Proof. exact bundle_get_refuted_ex. Qed.
Print Assumptions interop_value_is_native_refuted.

(* export-star cycles beyond the three-file domain, still by computation: for every import of all
   65536 graphs of four files over one export name (absent or local in each file; three of the
   files star-export any subset of the four files, so the domain contains every cycle of export
   stars of length one, two and three with chords and with diamonds onto the cycle) the linker's
   verdict equals ResolveExport's.  A proof for cycles of export stars of arbitrary length remains
   open: resolve_is_spec_partial needs the rank certificate a cycle does not have *)
Theorem resolve_is_spec_partial_bounded4 : forall fs, In fs domain3 ->
  let g := graph_of [1; 2; 3; 4]%nat [1] fs in
  forall ni, In ni (m_imports (getm g (S (length fs)))) -> agrees g (seq 0 (length g)) (S (length fs)) ni = true.
Proof. exact bounded4_all. Qed.
Print Assumptions resolve_is_spec_partial_bounded4.
