(* C02 model: file orders.

   - reach_order  mirrors internal/bundler/bundler.go findReachableFiles
     (depth-first post-order over every import record with a valid source
     index, runtime file 0 first, then the entry points);
   - chunk_sorted mirrors the sort at the top of
     internal/linker/linker.go findImportedPartsInJSOrder (key: distance from
     entry point, tie broken by the stable source index; chunkOrderArray.Less);
   - bundle_order mirrors the [visit] closure of findImportedPartsInJSOrder
     for a chunk without code splitting: a file is visited once, its parts are
     walked in order, for every import record index of a part the target is
     visited when the record is an import statement or the part is live in
     this chunk, and the file is appended after its dependencies when it is in
     the chunk (= live).
   Recursion is on fuel; exhaustion gives None.  Executable definitions only. *)
From V Require Import Common.Base C02.Graph.

Definition dstate := (list nat * list nat)%type.   (* visited, output *)

Definition vfold (v : nat -> dstate -> option dstate) (l : list nat) (acc : option dstate) : option dstate :=
  fold_left (fun acc t => match acc with Some st => v t st | None => None end) l acc.

Section DFS.
  Variable succs : nat -> list nat.
  Variable emit : nat -> bool.

  Fixpoint visit (fuel : nat) (s : nat) (st : dstate) : option dstate :=
    match fuel with
    | O => None
    | S f =>
      if memn s (fst st) then Some st else
      match vfold (visit f) (succs s) (Some (s :: fst st, snd st)) with
      | Some st' => Some (fst st', if emit s then snd st' ++ [s] else snd st')
      | None => None
      end
    end.

  Definition visit_all (fuel : nat) (roots : list nat) : option (list nat) :=
    match vfold (visit fuel) roots (Some ([], [])) with
    | Some st => Some (snd st)
    | None => None
    end.
End DFS.

(* ---- findReachableFiles ---- *)
Definition reach_succs (g : graph) (s : nat) : list nat := all_targets (getm g s).
Definition reach_order (g : graph) (entries : list nat) : option (list nat) :=
  visit_all (reach_succs g) (fun _ => true) (S (length g)) (0%nat :: entries).

(* ---- findImportedPartsInJSOrder ---- *)
Definition part_targets (m : module) (p : list nat * bool) : list nat :=
  flat_map (fun i =>
    match record_of m i with
    | Some r =>
      match r_target r with
      | Some t => if ikind_eqb (r_kind r) KStmt || (m_live m && snd p) then [t] else []
      | None => []
      end
    | None => []
    end) (fst p).

Definition followed (g : graph) (s : nat) : list nat :=
  let m := getm g s in flat_map (part_targets m) (m_parts m).

Definition in_chunk (g : graph) (s : nat) : bool := m_live (getm g s).

(* sort keys: (distance, tieBreaker, sourceIndex) *)
Definition okey := (Z * Z * nat)%type.
Definition key_less (a b : okey) : bool :=
  let '(da, ta, _) := a in let '(db, tb, _) := b in
  (da <? db) || ((da =? db) && (ta <? tb)).
Fixpoint insert_key (k : okey) (l : list okey) : list okey :=
  match l with
  | [] => [k]
  | h :: r => if key_less h k then h :: insert_key k r else k :: l
  end.
Definition sort_keys (l : list okey) : list okey := fold_right insert_key [] l.
Definition chunk_sorted (keys : list okey) : list nat := map snd (sort_keys keys).

Definition bundle_order (g : graph) (keys : list okey) : option (list nat) :=
  visit_all (followed g) (in_chunk g) (S (length g)) (0%nat :: chunk_sorted keys).
