(* Unbounded equivalence of the linker's import matching with ECMA-262
   ResolveExport for graphs WITHOUT export stars: named exports, indirect
   exports (export {a as b} from, re-exported imports, export * as ns) of any
   depth, graphs of any size. *)
From V Require Import Common.Base C02.Graph C02.SpecESM C02.Wrap C02.Resolve C02.ResolveSpec.

Lemma getm_forallb (f : module -> bool) g i :
  forallb f g = true -> f empty_module = true -> f (getm g i) = true.
Proof.
  intros H He. unfold getm. destruct (nth_in_or_default i g empty_module) as [Hin|Hd].
  - rewrite forallb_forall in H. apply H. exact Hin.
  - rewrite Hd. exact He.
Qed.

Lemma find_import_imp ref l : find_import ref l = find_imp ref l.
Proof. induction l as [|i l IH]; cbn; [reflexivity|]. rewrite IH. reflexivity. Qed.

Lemma pair_eqb_eq a b : pair_eqb a b = true <-> a = b.
Proof.
  destruct a as [a1 a2], b as [b1 b2]. unfold pair_eqb. cbn [fst snd].
  rewrite andb_true_iff, !Nat.eqb_eq. split; [intros [-> ->]; reflexivity|intros H; inversion H; auto].
Qed.

Lemma existsb_pair t cyc : existsb (pair_eqb t) cyc = true -> In t cyc.
Proof.
  rewrite existsb_exists. intros [x [Hx He]]. apply pair_eqb_eq in He. subst. exact Hx.
Qed.

Lemma lookup_map_exports a o l :
  ed_lookup a (map (fun p : Z * nat => mkEd (fst p) o (snd p) []) l)
  = option_map (fun r => mkEd a o r []) (find_export a l).
Proof.
  induction l as [|[b r] l IH]; cbn [map ed_lookup find_export ed_alias fst snd]; [reflexivity|].
  destruct (b =? a) eqn:E; [apply Z.eqb_eq in E; subst; reflexivity|exact IH].
Qed.

Definition bref (g : graph) (m : nat) (b : binding) : nat :=
  match b with BName r => r | BNamespace => m_exports_ref (getm g m) end.

Definition has_nomatch (ev : list event) : bool := existsb (fun e => snd (fst e) =? 3) ev.

Section Chain.
  Variable g : graph.
  Variable rk : list nat.
  Variable kinds : nat -> ekind.
  Hypothesis Hscope : chain_scope g rk = true.
  Hypothesis Hkinds : forall i, (i < length g)%nat -> kinds i = EESM.
  Let resolved := resolved_of g kinds.

  Lemma scope_parts :
    star_free g = true /\ plain_modules g = true /\ named_targets_export g = true /\ ranked_indirect g rk = true.
  Proof. unfold chain_scope in Hscope. repeat (apply andb_true_iff in Hscope as [Hscope ?]). auto. Qed.

  Lemma stars_nil o : m_stars (getm g o) = [].
  Proof.
    destruct scope_parts as [H _].
    pose proof (getm_forallb _ g o H eq_refl) as Ho. cbn beta in Ho. destruct (m_stars (getm g o)); [reflexivity|discriminate].
  Qed.

  Lemma plain o :
    m_lazy (getm g o) = false /\ m_is_ts (getm g o) = false /\
    (forall ni, In ni (m_imports (getm g o)) -> ni_generated ni = false) /\
    (forall ni, In ni (m_imports (getm g o)) -> exists t, import_target (getm g o) ni = Some t /\ (t < length g)%nat) /\
    (forall ni, In ni (m_imports (getm g o)) -> ni_ref ni <> m_exports_ref (getm g o)).
  Proof.
    destruct scope_parts as [_ [H _]].
    pose proof (getm_forallb _ g o H eq_refl) as Ho. cbn beta in Ho.
    repeat (apply andb_true_iff in Ho as [Ho ?]).
    repeat split.
    - destruct (m_lazy (getm g o)); [discriminate|reflexivity].
    - destruct (m_is_ts (getm g o)); [discriminate|reflexivity].
    - intros ni Hin. rewrite forallb_forall in H2. specialize (H2 ni Hin). destruct (ni_generated ni); [discriminate|reflexivity].
    - intros ni Hin. rewrite forallb_forall in H1. specialize (H1 ni Hin).
      destruct (import_target (getm g o) ni) as [t|]; [|discriminate]. exists t. split; [reflexivity|apply Nat.ltb_lt; exact H1].
    - intros ni Hin Heq. apply negb_true_iff in H0.
      assert (existsb (fun ni0 => Nat.eqb (ni_ref ni0) (m_exports_ref (getm g o))) (m_imports (getm g o)) = true).
      { apply existsb_exists. exists ni. split; [exact Hin|apply Nat.eqb_eq; exact Heq]. }
      congruence.
  Qed.

  Lemma find_imp_In ref l ni : find_imp ref l = Some ni -> In ni l /\ ni_ref ni = ref.
  Proof.
    induction l as [|i l IH]; cbn; [discriminate|].
    destruct (Nat.eqb (ni_ref i) ref) eqn:E.
    - intros H; inversion H; subst. split; [left; reflexivity|apply Nat.eqb_eq; exact E].
    - intros H. destruct (IH H). split; [right|]; assumption.
  Qed.

  Lemma import_of_In t ni : import_of g t = Some ni -> In ni (m_imports (getm g (fst t))) /\ ni_ref ni = snd t.
  Proof. unfold import_of. rewrite find_import_imp. apply find_imp_In. Qed.

  Lemma resolved_plain o :
    resolved o = map (fun p : Z * nat => mkEd (fst p) o (snd p) []) (m_exports (getm g o)).
  Proof.
    unfold resolved, resolved_of, resolved_exports. rewrite stars_nil. unfold resolved0.
    destruct (plain o) as [Hl _]. rewrite Hl. cbn [andb]. rewrite app_nil_r. reflexivity.
  Qed.

  Lemma named_target_kw o ni t :
    In ni (m_imports (getm g o)) -> ni_is_star ni = false -> import_target (getm g o) ni = Some t ->
    ni_alias ni = 0 \/ m_export_kw (getm g t) = true.
  Proof.
    intros Hin Hs Ht. destruct scope_parts as [_ [_ [H _]]].
    pose proof (getm_forallb _ g o H eq_refl) as Ho. cbn beta in Ho.
    rewrite forallb_forall in Ho. specialize (Ho ni Hin). rewrite Hs in Ho. cbn [orb] in Ho.
    destruct (ni_alias ni =? 0) eqn:E; [left; lia|right].
    cbn [orb] in Ho. unfold import_target in Ht.
    destruct (nth_error (m_records (getm g o)) (ni_record ni)) as [r|]; [|discriminate].
    rewrite Ht in Ho. exact Ho.
  Qed.

  Lemma indirect_rank o a ref ni2 u :
    (o < length g)%nat ->
    find_export a (m_exports (getm g o)) = Some ref -> find_imp ref (m_imports (getm g o)) = Some ni2 ->
    ni_is_star ni2 = false -> import_target (getm g o) ni2 = Some u ->
    (rank_of rk u < rank_of rk o)%nat.
  Proof.
    intros Hlen Hf Hi Hs Ht. destruct scope_parts as [_ [_ [_ H]]].
    unfold ranked_indirect in H. rewrite forallb_forall in H.
    specialize (H o). rewrite in_seq in H. specialize (H ltac:(lia)).
    rewrite forallb_forall in H. apply Nat.ltb_lt. apply H.
    unfold indirect_edges. apply in_flat_map.
    assert (Hin : In (a, ref) (m_exports (getm g o))).
    { clear -Hf. induction (m_exports (getm g o)) as [|[b r] l IH]; cbn in Hf; [discriminate|].
      destruct (b =? a) eqn:E; [inversion Hf; subst; apply Z.eqb_eq in E; subst; left; reflexivity|right; auto]. }
    exists (a, ref). split; [exact Hin|]. cbn [snd]. rewrite Hi, Hs, Ht. left. reflexivity.
  Qed.

  Lemma exports_in_range o a ref : find_export a (m_exports (getm g o)) = Some ref -> (o < length g)%nat.
  Proof.
    intros H. destruct (Nat.lt_ge_cases o (length g)) as [Hl|Hg]; [exact Hl|].
    unfold getm in H. rewrite nth_overflow in H by exact Hg. discriminate.
  Qed.

  (* one iteration on a namespace import: import * as ns / export * as ns *)
  Lemma star_step f t ni u cyc res ev :
    import_of g t = Some ni -> ni_is_star ni = true -> import_target (getm g (fst t)) ni = Some u ->
    (u < length g)%nat ->
    existsb (pair_eqb t) cyc = false ->
    mloop g kinds resolved true (S f) t cyc res [] ev
    = Some (mkRes MNormal (-1) None u (m_exports_ref (getm g u)) 0, ev).
  Proof.
    intros Hi Hs Ht Hu Hc. cbn [mloop]. rewrite Hc, Hi.
    unfold advance, record_of. unfold import_target in Ht.
    destruct (nth_error (m_records (getm g (fst t))) (ni_record ni)) as [r|]; [|discriminate].
    rewrite Ht, Hs. cbn [negb andb]. rewrite (Hkinds u Hu). cbn [ekind_eqb].
    cbn [fold_left].
    assert (Hn : is_import g (u, m_exports_ref (getm g u)) = false).
    { unfold is_import. destruct (import_of g (u, m_exports_ref (getm g u))) as [n2|] eqn:E; [|reflexivity].
      apply import_of_In in E as [Hin Hr]. cbn [fst snd] in *. destruct (plain u) as [_ [_ [_ [_ Hx]]]].
      exfalso. apply (Hx n2 Hin Hr). }
    rewrite Hn. reflexivity.
  Qed.

  Definition concl (res : mres) (ev : list event) (r : mres) (ev' : list event) (R : resolution) : Prop :=
    match R with
    | RNull => (mr_kind r = MNormal \/ r = res) /\ has_nomatch ev' = true
    | RBinding m b => (exists L, r = mkRes MNormal (-1) None m (bref g m b) L) /\ ev' = ev
    | RAmbiguous => False
    end.

  Definition cyc_ok (cyc : list tracker) (o : nat) : Prop :=
    forall c, In c cyc -> exists nc oc, import_of g c = Some nc /\ ni_is_star nc = false /\
      import_target (getm g (fst c)) nc = Some oc /\ (rank_of rk oc > rank_of rk o)%nat.

  Lemma chain f1 : forall t ni o cyc res ev r ev' f2 rs R rs',
    import_of g t = Some ni -> ni_is_star ni = false -> import_target (getm g (fst t)) ni = Some o ->
    cyc_ok cyc o ->
    mloop g kinds resolved true f1 t cyc res [] ev = Some (r, ev') ->
    (forall p, In p rs -> (rank_of rk (fst p) > rank_of rk o)%nat) ->
    spec_resolve f2 g o (ni_alias ni) rs = Some (R, rs') ->
    concl res ev r ev' R.
  Proof.
    induction f1 as [|f1 IH]; intros t ni o cyc res ev r ev' f2 rs R rs' Hi Hs Ht Hcyc Hm Hrs Hsp; [discriminate|].
    destruct f2 as [|f2]; [discriminate|].
    (* the cycle detector does not fire *)
    assert (Hc : existsb (pair_eqb t) cyc = false).
    { destruct (existsb (pair_eqb t) cyc) eqn:E; [|reflexivity]. apply existsb_pair in E.
      destruct (Hcyc t E) as [nc [oc [H1 [_ [H3 H4]]]]]. rewrite Hi in H1. inversion H1; subst nc.
      rewrite Ht in H3. inversion H3; subst. lia. }
    (* the resolve set does not fire *)
    assert (Hr : rs_mem o (ni_alias ni) rs = false).
    { destruct (rs_mem o (ni_alias ni) rs) eqn:E; [|reflexivity]. unfold rs_mem in E.
      apply existsb_exists in E as [p [Hp He]]. apply andb_true_iff in He as [He _]. apply Nat.eqb_eq in He.
      specialize (Hrs p Hp). rewrite <- He in Hrs. lia. }
    destruct (import_of_In _ _ Hi) as [Hin Href].
    assert (Holt : (o < length g)%nat).
    { destruct (plain (fst t)) as [_ [_ [_ [Htg0 _]]]]. destruct (Htg0 ni Hin) as [o' [Ho' Hlt]].
      rewrite Ht in Ho'. inversion Ho'; subst. exact Hlt. }
    cbn [mloop] in Hm. rewrite Hc, Hi in Hm.
    cbn [spec_resolve] in Hsp. rewrite Hr in Hsp.
    (* advanceImportTracker *)
    unfold advance, record_of in Hm. pose proof Ht as Ht'. unfold import_target in Ht'.
    destruct (nth_error (m_records (getm g (fst t))) (ni_record ni)) as [rc|] eqn:Erc; [|discriminate].
    rewrite Ht', Hs in Hm. cbn [negb andb] in Hm.
    assert (Hkw : (negb (m_lazy (getm g o)) && negb (m_export_kw (getm g o)) && negb (ni_alias ni =? 0)
                   && negb (m_uses_exports (getm g o)) && negb (m_uses_module (getm g o))) = false).
    { destruct (named_target_kw _ _ _ Hin Hs Ht) as [H0|Hk].
      - rewrite H0. cbn. rewrite !andb_false_r. reflexivity.
      - rewrite Hk. cbn. rewrite !andb_false_r. reflexivity. }
    rewrite Hkw in Hm. rewrite (Hkinds o Holt) in Hm. cbn [ekind_eqb] in Hm.
    fold resolved in Hm. rewrite resolved_plain, lookup_map_exports in Hm.
    destruct (find_export (ni_alias ni) (m_exports (getm g o))) as [ref'|] eqn:Ef; cbn [option_map] in Hm.
    - (* the imported file exports the name *)
      cbn [ed_src ed_ref ed_alias ed_ambs fold_left] in Hm.
      unfold entry_of in Hsp.
      unfold is_import, import_of in Hm. cbn [fst snd] in Hm. rewrite find_import_imp in Hm.
      destruct (find_imp ref' (m_imports (getm g o))) as [ni2|] eqn:E2.
      + (* an indirect export *)
        destruct (find_imp_In _ _ _ E2) as [Hin2 Href2].
        destruct (plain o) as [_ [_ [_ [Htg _]]]]. destruct (Htg ni2 Hin2) as [u [Hu Hult]].
        pose proof Hu as Hu'. unfold import_target in Hu'.
        destruct (nth_error (m_records (getm g o)) (ni_record ni2)) as [rc2|]; [|discriminate].
        rewrite Hu' in Hsp.
        assert (Hi2 : import_of g (o, ref') = Some ni2).
        { unfold import_of. cbn [fst snd]. rewrite find_import_imp. exact E2. }
        destruct (ni_is_star ni2) eqn:Es2.
        * (* export * as ns *)
          inversion Hsp; subst R rs'. destruct f1 as [|f1']; [discriminate|].
          rewrite (star_step f1' (o, ref') ni2 u) in Hm; auto.
          -- inversion Hm; subst. split; [eexists; reflexivity|reflexivity].
          -- rewrite existsb_app. cbn [existsb].
             assert (pair_eqb (o, ref') t = false).
             { destruct (pair_eqb (o, ref') t) eqn:E; [|reflexivity]. apply pair_eqb_eq in E. subst t.
               rewrite Hi2 in Hi. inversion Hi; subst. congruence. }
             rewrite H, orb_false_r. destruct (existsb (pair_eqb (o, ref')) cyc) eqn:E; [exfalso|exact E].
             apply existsb_pair in E. destruct (Hcyc _ E) as [nc [oc [H1 [H2 _]]]].
             rewrite Hi2 in H1. inversion H1; subst. congruence.
        * (* export {n as a} from u *)
          assert (Hrank : (rank_of rk u < rank_of rk o)%nat).
          { eapply indirect_rank; eauto. }
          assert (Hconcl : concl (mkRes MNormal (-1) None o ref' (ni_alias ni + 1)) ev r ev' R).
          { eapply (IH (o, ref') ni2 u (cyc ++ [t])); eauto.
            - intros c Hc2. apply in_app_or in Hc2 as [Hc2|[<-|[]]].
              + destruct (Hcyc c Hc2) as [nc [oc [H1 [H2 [H3 H4]]]]]. exists nc, oc. repeat split; auto. lia.
              + exists ni, o. repeat split; auto.
            - intros p Hp. apply in_app_or in Hp as [Hp|[<-|[]]]; [specialize (Hrs p Hp); lia|cbn [fst]; lia]. }
          destruct R as [| |m b]; cbn [concl] in *.
          -- destruct Hconcl as [[Hk|Hk] He]; (split; [left|exact He]); [exact Hk|rewrite Hk; reflexivity].
          -- exact Hconcl.
          -- exact Hconcl.
      + (* a local binding *)
        inversion Hsp; subst R rs'. unfold finish in Hm. cbn [existsb] in Hm. inversion Hm; subst.
        split; [eexists; reflexivity|reflexivity].
    - (* no export of that name *)
      cbn [ekind_eqb] in Hm.
      destruct (plain (fst t)) as [_ [Hts [Hgen _]]]. rewrite Hts in Hm. cbn [andb] in Hm.
      rewrite (Hgen ni Hin) in Hm. unfold finish in Hm. cbn [existsb] in Hm. inversion Hm; subst r ev'.
      assert (HR : R = RNull).
      { destruct (ni_alias ni =? 0); [inversion Hsp; reflexivity|].
        unfold star_targets in Hsp. rewrite stars_nil in Hsp. cbn [flat_map] in Hsp. inversion Hsp; reflexivity. }
      subst R. split; [right; reflexivity|].
      unfold has_nomatch. rewrite existsb_app. cbn. rewrite orb_true_r. reflexivity.
  Qed.

  Lemma starfree_agree s ref ni r ev R :
    import_of g (s, ref) = Some ni ->
    match_import g kinds resolved true (s, ref) = Some (r, ev) ->
    spec_import g s ni = Some R ->
    mres_verdict r ev = resolution_verdict g R.
  Proof.
    intros Hi Hm Hsp. destruct (import_of_In _ _ Hi) as [Hin _]. cbn [fst] in Hin.
    destruct (plain s) as [_ [_ [_ [Htg _]]]]. destruct (Htg ni Hin) as [o [Ho Holt]].
    unfold spec_import in Hsp. pose proof Ho as Ho'. unfold import_target in Ho'.
    destruct (nth_error (m_records (getm g s)) (ni_record ni)) as [rc|]; [|discriminate].
    rewrite Ho' in Hsp. unfold match_import in Hm.
    destruct (ni_is_star ni) eqn:Es.
    - inversion Hsp; subst R. rewrite (star_step _ (s, ref) ni o) in Hm; auto.
      inversion Hm; subst. reflexivity.
    - unfold spec_resolve_export in Hsp.
      destruct (spec_resolve (resolve_fuel g) g o (ni_alias ni) []) as [[R0 rs']|] eqn:E; [|discriminate].
      inversion Hsp; subst R0.
      assert (Hc : concl res0 [] r ev R).
      { eapply (chain _ (s, ref) ni o []); eauto.
        - intros c [].
        - intros p []. }
      destruct R as [| |m b]; cbn [concl] in Hc.
      + destruct Hc as [[Hk|Hk] He]; unfold mres_verdict, has_nomatch in *; [rewrite Hk|subst r; cbn [mr_kind res0]]; rewrite He; reflexivity.
      + contradiction.
      + destruct Hc as [[L ->] ->]. unfold mres_verdict. cbn. destruct b; reflexivity.
  Qed.
End Chain.
