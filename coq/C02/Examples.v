(* Non-vacuity: concrete graphs meeting the hypotheses of the C02 theorems. *)
From V Require Import Common.Base C02.Graph C02.Order C02.SpecESM C02.Wrap C02.Resolve C02.ResolveSpec
  C02.DataUrl C02.SpecDataUrl C02.OrderProofs C02.OrderEsmProofs C02.ResolveProofs C02.WrapProofs C02.DataUrlProofs C02.Emit C02.EmitProofs C02.ResolveChainProofs C02.ResolveDen C02.SpecDenProofs C02.StarHitsProofs C02.StarDenProofs C02.LinkDenProofs C02.ResolveStarsProofs C02.EvalOrder C02.EvalOrderProofs C02.WrapMinProofs C02.WrapGraph C02.WrapExactProofs C02.Interop C02.InteropProofs C02.ResolveCycleProofs.

(* diamond with a back edge: 1 -> 2,3 ; 2 -> 4 ; 3 -> 4 ; 4 -> 1 (cycle); file 0 is the runtime *)
Definition ex_graph : graph :=
  [ mkMod [] [] [] [] [] EESM false false false true false false 0 true [];
    esm_mod [rec_to 2; rec_to 3; rec_to 2] [] [] [] true;
    esm_mod [rec_to 4] [] [] [] false;
    esm_mod [rec_to 4] [] [] [] false;
    esm_mod [rec_to 1] [] [] [] false ].
Definition ex_keys : list okey := [(1, 3, 2%nat); (0, 4, 1%nat); (2, 1, 4%nat); (1, 2, 3%nat)].

Example ex_bundle_order : bundle_order ex_graph ex_keys = Some [0; 4; 2; 3; 1]%nat.
Proof. vm_compute. reflexivity. Qed.
Example ex_spec_order : spec_eval_order ex_graph 1 = Some [4; 2; 3; 1]%nat.
Proof. vm_compute. reflexivity. Qed.
Example ex_sorted : chunk_sorted ex_keys = [1; 3; 2; 4]%nat.
Proof. vm_compute. reflexivity. Qed.
Example ex_reach_order : reach_order ex_graph [1%nat] = Some [0; 4; 2; 3; 1]%nat.
Proof. vm_compute. reflexivity. Qed.

(* the hypotheses of order_is_esm hold for ex_graph *)
Example ex_follow : forall s, followed ex_graph s = stmt_targets (getm ex_graph s).
Proof. intros s. do 5 (destruct s as [|s]; [vm_compute; reflexivity|]). destruct s; reflexivity. Qed.
Example ex_wf : forall s t, In t (stmt_targets (getm ex_graph s)) -> t <> 0%nat /\ (t < length ex_graph)%nat.
Proof.
  intros s t. do 5 (destruct s as [|s]; [cbn; intros H; repeat (destruct H as [<-|H]; [split; [discriminate|lia]|]); contradiction|]).
  destruct s; cbn; contradiction.
Qed.
Example ex_live : forall s, s <> 0%nat -> (s < length ex_graph)%nat -> in_chunk ex_graph s = true.
Proof. intros s H0 Hl. cbn in Hl. do 5 (destruct s as [|s]; [try contradiction; reflexivity|]). lia. Qed.

(* export resolution: found / ambiguous / not found / star shadowing, both sides *)
Definition ex_star : graph :=
  [ empty_module;
    esm_mod [rec_to 2; rec_to 2; rec_to 2] [imp 1 1 0; imp 2 2 1; imp 3 3 2] [] [] true;   (* import {x,y,z} from 2 *)
    esm_mod [rec_to 3; rec_to 4] [] [(3, 0%nat)] [0; 1]%nat false;    (* export z (local); export * from 3, 4 *)
    esm_mod [] [] [(1, 0%nat); (2, 1%nat); (3, 2%nat)] [] false;      (* x y z *)
    esm_mod [] [] [(1, 0%nat)] [] false ].                           (* x *)
Example ex_star_verdicts :
  map (link_verdict ex_star (seq 0 5) 1) (m_imports (getm ex_star 1))
  = [Some VAmbiguous; Some (VFound 3 1); Some (VFound 2 0)]
  /\ map (spec_verdict ex_star 1) (m_imports (getm ex_star 1))
  = [Some VAmbiguous; Some (VFound 3 1); Some (VFound 2 0)].
Proof. vm_compute. split; reflexivity. Qed.

(* how many graphs of the bounded domains satisfy the hypotheses of the partial theorems *)
Example ex_domain1_in_scope :
  Z.of_nat (length (filter (fun fs => let g := graph_of [1;2;3]%nat [1] fs in indirect_acyclic g) domain1)) = 3856.
Proof. vm_compute. reflexivity. Qed.

(* wrapping: 1 requires 2 (ES module), 2 imports 3, 3 imports 4: all of 2,3,4 end up wrapped *)
Definition ex_wrap : graph :=
  [ empty_module;
    mkMod [mkRec (Some 2%nat) KRequire false false] [] [] [] [] ECJS false true false false false true 9 true [];
    esm_mod [rec_to 3] [] [] [] false;
    esm_mod [rec_to 4] [] [] [] false;
    esm_mod [] [] [] [] false ].
Example ex_wrap_result :
  option_map (map snd) (scan_steps12 true true ex_wrap [0; 4; 3; 2; 1]%nat)
  = Some [WNone; WCJS; WESM; WESM; WESM].
Proof. vm_compute. reflexivity. Qed.

(* data URLs: tab, '#', a literal "%41" (escaped), "%4" at the end (not escaped), trailing spaces, 2- and 4-byte characters *)
Definition ex_mime : bytes := [116; 101; 120; 116; 47; 112; 108; 97; 105; 110].   (* text/plain *)
Definition ex_text : bytes := [97; 9; 35; 37; 52; 49; 32; 195; 169; 240; 159; 152; 128; 37; 52; 32; 32].
Example ex_mime_ok : mime_ok ex_mime.
Proof. split; [repeat constructor; lia|reflexivity]. Qed.
Example ex_text_ok : Forall byte_ok ex_text.
Proof. repeat constructor; lia. Qed.
Example ex_encode : encode_percent ex_mime ex_text =
  Some ([100; 97; 116; 97; 58] ++ ex_mime ++ [44; 97; 37; 48; 57; 37; 50; 51; 37; 50; 53; 52; 49; 32; 195; 169; 240; 159; 152; 128; 37; 52; 37; 50; 48; 37; 50; 48]).
Proof. vm_compute. reflexivity. Qed.
Example ex_invalid_utf8 : encode_percent ex_mime [97; 255] = None.
Proof. vm_compute. reflexivity. Qed.

(* classification: the two visiting orders give the same non-trivial assignment *)
Example ex_classify_orders :
  classify true ex_wrap [0; 1; 2; 3; 4]%nat = classify true ex_wrap [4; 3; 2; 1; 0]%nat
  /\ map snd (classify true ex_wrap [0; 1; 2; 3; 4]%nat) = [WNone; WCJS; WESM; WNone; WNone].
Proof. vm_compute. split; reflexivity. Qed.

(* entry exports: table {own, fromMid}, one run-time export star providing {default, fromLeaf, own} *)
Example ex_emit :
  let names_of := fun _ : nat => [0; 5; 1] in
  exported_names names_of FCjs true [1; 2] [0%nat] = [1; 2; 5] /\
  exported_names names_of (FIife true) true [1; 2] [0%nat] = [1; 2; 5] /\
  exported_names names_of FEsm true [1; 2] [0%nat] = [1; 2] /\
  entry_stmts FCjs true [1; 2] [0%nat] = [XExport [1; 2]; XAssignModuleExports; XReExport 0 true].
Proof. vm_compute. repeat split. Qed.

(* star-free chain: e imports {x, ns, q} from a; a re-exports x from b as x, b re-exports y from c as x,
   c defines y; a also has "export * as ns from c" and nothing named q *)
Definition ex_chain : graph :=
  [ esm_mod [] [] [] [] false;
    esm_mod [rec_to 2; rec_to 2; rec_to 2] [imp 1 1 0; imp 2 5 1; imp 3 6 2] [] [] true;
    esm_mod [rec_to 3; rec_to 4] [imp 7 1 0; mkImp 8 0 true 1 None false true] [(1, 7%nat); (5, 8%nat)] [] false;
    esm_mod [rec_to 4] [imp 7 2 0] [(1, 7%nat)] [] false;
    esm_mod [] [] [(2, 0%nat)] [] false ].
Definition ex_chain_rank : list nat := [0; 9; 3; 2; 1]%nat.
Example ex_chain_scope : chain_scope ex_chain ex_chain_rank = true /\ esm_graph ex_chain = true.
Proof. vm_compute. split; reflexivity. Qed.
Example ex_chain_verdicts :
  map (link_verdict ex_chain (seq 0 5) 1) (m_imports (getm ex_chain 1))
  = [Some (VFound 4 0); Some (VFound 4 99); Some VNull]
  /\ map (spec_verdict ex_chain 1) (m_imports (getm ex_chain 1))
  = [Some (VFound 4 0); Some (VFound 4 99); Some VNull].
Proof. vm_compute. split; reflexivity. Qed.

(* entry_sorts_first: the keys of ex_graph meet the hypotheses *)
Example ex_keys_entry : In (0, 4, 1%nat) ex_keys /\ (forall k, In k ex_keys -> k = (0, 4, 1%nat) \/ 0 < kdist k).
Proof.
  split; [right; left; reflexivity|].
  intros k [<-|[<-|[<-|[<-|[]]]]]; cbn; auto; right; lia.
Qed.

(* ranked graph with a diamond of export stars (the second visit of file 4 hits the resolve set)
   and a conflict: 1 stars 2 and 3; 2 and 3 star 4; 4 defines x; 3 also defines y, 2 re-exports 4's x as y *)
Definition ex_den : graph :=
  [ esm_mod [] [] [] [] false;
    esm_mod [rec_to 2; rec_to 3] [] [] [0; 1]%nat true;
    esm_mod [rec_to 4; rec_to 4] [imp 7 1 1] [(2, 7%nat)] [0%nat] false;
    esm_mod [rec_to 4] [] [(2, 0%nat)] [0%nat] false;
    esm_mod [] [] [(1, 0%nat)] [] false ].
Definition ex_den_rank : list nat := [0; 3; 2; 2; 1]%nat.
Example ex_den_ranked : ranked_all ex_den ex_den_rank = true.
Proof. vm_compute. reflexivity. Qed.
Example ex_den_values :
  spec_resolve_export ex_den 1 1 = Some (RBinding 4 (BName 0)) /\
  classify_cands (den ex_den ex_den_rank 1 1) = RBinding 4 (BName 0) /\
  den ex_den ex_den_rank 1 1 = [(4%nat, BName 0); (4%nat, BName 0)] /\
  spec_resolve_export ex_den 1 2 = Some RAmbiguous /\
  classify_cands (den ex_den ex_den_rank 1 2) = RAmbiguous.
Proof. vm_compute. repeat split. Qed.

(* the hits of ex_den: file 1 and alias y (2): file 2 (indirect, ref 7) then file 3 (local, ref 0) *)
Example ex_den_hits :
  hits ex_den 6 2 1 [] = [(2%nat, 7%nat); (3%nat, 0%nat)] /\
  option_map (fun e => (ed_src e, ed_ref e, ed_ambs e)) (ed_lookup 2 (resolved_of ex_den (fun _ => EESM) 1))
    = Some (2%nat, 7%nat, [(3%nat, 0%nat)]) /\
  (forall i, aliases_unique (getm ex_den i)).
Proof.
  split; [vm_compute; reflexivity|]. split; [vm_compute; reflexivity|].
  intros i. do 5 (destruct i as [|i]; [unfold aliases_unique; cbn; repeat constructor; cbn; intuition lia|]).
  unfold aliases_unique. destruct i; cbn; constructor.
Qed.

Example ex_toesm : to_esm_default (to_esm_node_mode true IFDynamic) true = ModuleExports
  /\ to_esm_default (to_esm_node_mode false IFDynamic) true = ExportsDefault
  /\ to_esm_default (to_esm_node_mode false IFDynamic) false = ModuleExports.
Proof. repeat split. Qed.

(* resolve_is_spec_partial: ex_den plus an importer of x, y and a missing name z from file 1
   (diamond of export stars, a conflict, an indirect export below a star) is in scope *)
Definition ex_stars : graph :=
  ex_den ++ [esm_mod [rec_to 1; rec_to 1; rec_to 1] [imp 20 1 0; imp 21 2 1; imp 22 3 2] [] [] false].
Definition ex_stars_rank : list nat := [0; 3; 2; 2; 1; 4]%nat.
Example ex_stars_scope : star_scope ex_stars ex_stars_rank = true.
Proof. vm_compute. reflexivity. Qed.
Example ex_stars_verdicts :
  map (link_verdict ex_stars (seq 0 6) 5) (m_imports (getm ex_stars 5))
  = [Some (VFound 4 0); Some VAmbiguous; Some VNull]
  /\ map (spec_verdict ex_stars 5) (m_imports (getm ex_stars 5))
  = [Some (VFound 4 0); Some VAmbiguous; Some VNull].
Proof. vm_compute. split; reflexivity. Qed.

(* mixed graph: ES entry 0 imports CommonJS 1 then ES module 2 and requests import(3);
   1 requires CommonJS 4 and 1 again (cycle through 4); 3 (ES, wrapped: dynamically imported) imports 2?
   no: 3 imports wrapped 5 *)
Definition ex_mixed : egraph :=
  [ mkEmod true false [1; 2]%nat [] [3%nat] false;
    mkEmod false false [] [4%nat] [] true;
    mkEmod true false [] [] [] false;
    mkEmod true false [5%nat] [] [] true;
    mkEmod false false [] [1%nat] [] true;
    mkEmod true false [] [] [] true ].
Example ex_mixed_consistent : wrap_consistent ex_mixed = true.
Proof. vm_compute. reflexivity. Qed.
Example ex_mixed_trace :
  native_trace ex_mixed 0 = Some [EvStart 1; EvStart 4; EvEnd 4; EvEnd 1; EvStart 2; EvEnd 2; EvStart 0; EvEnd 0; EvStart 5; EvEnd 5; EvStart 3; EvEnd 3]
  /\ bundle_trace ex_mixed 0 = native_trace ex_mixed 0.
Proof. vm_compute. split; reflexivity. Qed.
(* without closure the bundle model really differs: wrapped 3 importing a non-wrapped file *)
Example ex_mixed_needs_closure :
  let g := [mkEmod true false [] [] [1%nat] false; mkEmod true false [2%nat] [] [] true; mkEmod true false [] [] [] false] in
  wrap_consistent g = false /\ bundle_trace g 0 <> native_trace g 0.
Proof. vm_compute. split; [reflexivity|discriminate]. Qed.

(* dataurl_shortest_roundtrip: its codec hypotheses are satisfiable (a two-letters-per-byte codec) *)
Definition toy_enc (t : bytes) : bytes := flat_map (fun b => [65 + b / 16; 65 + b mod 16]) t.
Fixpoint toy_dec (fuel : nat) (l : bytes) : option bytes :=
  match fuel, l with
  | _, [] => Some []
  | S f, a :: b :: r => option_map (cons ((a - 65) * 16 + (b - 65))) (toy_dec f r)
  | _, _ => None
  end.
Example toy_codec_ok :
  (forall t, Forall byte_ok t -> toy_dec (S (length (toy_enc t))) (toy_enc t) = Some t) /\
  (forall t, Forall byte_ok t -> Forall b64_char (toy_enc t)).
Proof.
  split.
  - intros t Ht.
    assert (H : forall f, (length (toy_enc t) < f)%nat -> toy_dec f (toy_enc t) = Some t).
    { induction Ht as [|b t Hb Ht IH]; intros f Hf; [destruct f; reflexivity|].
      cbn [toy_enc flat_map app] in *. destruct f as [|f]; [cbn in Hf; lia|]. cbn [toy_dec].
      fold (toy_enc t) in *. cbn [length] in Hf. rewrite IH by lia. cbn [option_map]. f_equal. f_equal.
      unfold byte_ok in Hb. replace (65 + b / 16 - 65) with (b / 16) by lia. replace (65 + b mod 16 - 65) with (b mod 16) by lia.
      rewrite Z.mul_comm. symmetry. apply Z.div_mod. lia. }
    apply H. lia.
  - intros t Ht. induction Ht as [|b t Hb Ht IH]; [constructor|]. cbn [toy_enc flat_map app]. unfold byte_ok in Hb.
    assert (0 <= b / 16 < 16) by (split; [apply Z.div_pos; lia|apply Z.div_lt_upper_bound; lia]).
    assert (0 <= b mod 16 < 16) by (apply Z.mod_pos_bound; lia).
    constructor; [unfold b64_char; lia|]. constructor; [unfold b64_char; lia|exact IH].
Qed.

(* wrap_minimal / wrap_exact / classified_mixed_order_is_native on ex_wrap: the side condition holds,
   file 2 is wrapped because it is required, 3 and 4 because a wrapped file imports them; the derived
   evaluation-order graph carries the model's wrap flags and its two traces coincide *)
Definition ex_wrap_order : list nat := [0; 4; 3; 2; 1]%nat.
Example ex_wrap_targets_ok : targets_ok ex_wrap ex_wrap_order = true.
Proof. vm_compute. reflexivity. Qed.
Example ex_wrap_reasons :
  req_dyn ex_wrap ex_wrap_order 2 /\ In 3%nat (all_targets (getm ex_wrap 2)) /\ In 4%nat (all_targets (getm ex_wrap 3)).
Proof.
  split; [|split; cbn; auto].
  exists 1%nat, (mkRec (Some 2%nat) KRequire false false). cbn. auto 10.
Qed.
Example ex_wrap_egraph :
  option_map (fun st => map e_wrapped (egraph_of ex_wrap ex_wrap_order st)) (scan_steps12 true true ex_wrap ex_wrap_order)
  = Some [false; true; true; true; true]
  /\ option_map (fun st => bundle_trace (egraph_of ex_wrap ex_wrap_order st) 1) (scan_steps12 true true ex_wrap ex_wrap_order)
     = Some (Some [EvStart 1; EvStart 4; EvEnd 4; EvStart 3; EvEnd 3; EvStart 2; EvEnd 2; EvEnd 1]).
Proof. vm_compute. split; reflexivity. Qed.

(* imports from a CommonJS file: file 1 (ESM-typed) has `import d, {x} from "./2"`, file 2 is
   CommonJS and uses exports.  Both imports become namespace aliases on the record's namespace symbol
   (ref 7); their values are module.exports and the own key x, as in node; the Babel-interop witness
   (C02-G) lies outside interop_domain *)
Definition ex_interop : graph :=
  [ empty_module;
    mkMod [mkRec (Some 2%nat) KStmt false true] [] [mkImp 5 0 false 0 (Some 7%nat) false false; mkImp 6 1 false 0 (Some 7%nat) false false]
          [] [] EESM false false false false false true 9 true [];
    mkMod [] [] [] [] [] ECJS false true false false false false 9 true [] ].
Definition ex_interop_kinds (i : nat) : ekind := match i with 2%nat => ECJS | _ => EESM end.
Example ex_interop_match :
  match_import ex_interop ex_interop_kinds (fun _ => []) true (1%nat, 5%nat)
  = Some (mkRes MNamespace 0 (Some (1%nat, 7%nat)) 0 0 0, [])
  /\ match_import ex_interop ex_interop_kinds (fun _ => []) true (1%nat, 6%nat)
  = Some (mkRes MNamespace 1 (Some (1%nat, 7%nat)) 0 0 0, []).
Proof. vm_compute. split; reflexivity. Qed.
Example ex_interop_values :
  let c := mkCjs true [1; 0] in
  interop_domain true c 0 = true /\ bundle_get true (IFStatement true) c 0 = VModuleExports
  /\ bundle_get true (IFStatement false) c 1 = VKey 1 /\ bundle_get true IFDynamic c 2 = VUndefined
  /\ interop_domain false c 0 = false /\ bundle_get false IFDynamic c 0 = VKey 0.
Proof. vm_compute. repeat split; reflexivity. Qed.

(* a member of domain3 (resolve_is_spec_partial_bounded4): the 3-cycle of export stars 1 -> 2 -> 3 -> 1,
   file 3 also star-exports 4; x is local in 2 and in 4.  Asked for x, files 1 and 2 answer with 2's
   binding (a local export shadows the stars), file 3 is ambiguous (2's through the cycle, 4's directly),
   in the linker and in ResolveExport alike *)
Definition ex_cycle3 : list module :=
  [ mk_file 1 [(1, XNone)] [2%nat]; mk_file 2 [(1, XLoc)] [3%nat]; mk_file 3 [(1, XNone)] [1; 4]%nat; mk_file 4 [(1, XLoc)] [] ].
Example ex_cycle3_verdicts :
  let g := graph_of [1; 2; 3; 4]%nat [1] ex_cycle3 in
  map (fun ni => (link_verdict g (seq 0 (length g)) 5 ni, spec_verdict g 5 ni)) (m_imports (getm g 5))
  = [(Some (VFound 2 1), Some (VFound 2 1)); (Some (VFound 2 1), Some (VFound 2 1));
     (Some VAmbiguous, Some VAmbiguous); (Some (VFound 4 1), Some (VFound 4 1))].
Proof. vm_compute. reflexivity. Qed.
