(* The bundle's evaluation order of a mixed ESM / CommonJS graph with lazy wrappers equals native
   loading, given what the linker guarantees about wrapping (wrap_consistent). *)
From V Require Import Common.Base C02.Graph C02.EvalOrder.

Lemma ofold_ext f1 f2 l : (forall t, In t l -> forall st, f1 t st = f2 t st) -> forall st, ofold f1 l st = ofold f2 l st.
Proof.
  unfold ofold. induction l as [|t l IH]; intros H st; [reflexivity|]. cbn [fold_left].
  rewrite (H t (or_introl eq_refl)). destruct (f2 t st) as [st'|].
  - apply IH. intros t0 Ht0. apply H. right. exact Ht0.
  - clear. induction l; cbn; auto.
Qed.

Lemma body_events_ext g s i1 i2 st : (forall x, i1 x = i2 x) -> body_events g s i1 st = body_events g s i2 st.
Proof. intros H. unfold body_events. rewrite H. reflexivity. Qed.

Section Mixed.
  Variable g : egraph.
  Hypothesis Hc : wrap_consistent g = true.

  Lemma consistent s :
    (forall t, In t (e_requires (gete g s) ++ e_dyn (gete g s)) -> e_wrapped (gete g t) = true) /\
    (e_wrapped (gete g s) = true -> forall t, In t (e_static (gete g s)) -> e_wrapped (gete g t) = true).
  Proof.
    destruct (Nat.lt_ge_cases s (length g)) as [Hs|Hs].
    - assert (Hin : In (gete g s) g) by (unfold gete; apply nth_In; exact Hs).
      unfold wrap_consistent in Hc. rewrite forallb_forall in Hc. specialize (Hc _ Hin).
      apply andb_true_iff in Hc as [H1 H2]. split.
      + intros t Ht. rewrite forallb_forall in H1. apply H1. exact Ht.
      + intros Hw t Ht. rewrite Hw in H2. cbn [negb orb] in H2. rewrite forallb_forall in H2. apply H2. exact Ht.
    - unfold gete at 1 2 3 4. rewrite nth_overflow by exact Hs. cbn. split; [intros t []|intros H; discriminate].
  Qed.

  Lemma run_is_load f : forall iw s st, (iw = true -> e_wrapped (gete g s) = true) -> b_run f g iw s st = n_load f g s st.
  Proof.
    induction f as [|f IH]; intros iw s st Hw; [reflexivity|]. cbn [b_run n_load].
    assert (H0 : iw && negb (e_wrapped (gete g s)) = false).
    { destruct iw; [rewrite Hw by reflexivity|]; reflexivity. }
    rewrite H0. destruct (memn s (xs_started st)); [reflexivity|].
    destruct (consistent s) as [Hreq Hst].
    rewrite (ofold_ext (b_run f g (e_wrapped (gete g s))) (n_load f g) (e_static (gete g s))).
    - destruct (ofold (n_load f g) (e_static (gete g s)) _) as [st1|]; [|reflexivity].
      apply body_events_ext. intros x. apply ofold_ext. intros t Ht st'. apply IH. intros _.
      apply Hreq. apply in_or_app. left. exact Ht.
    - intros t Ht st'. apply IH. intros Hwr. apply Hst; assumption.
  Qed.

  Definition q_ok (st : xstate) : Prop := forall t, In t (xs_queue st) -> e_wrapped (gete g t) = true.

  Lemma ofold_q_ok (f : nat -> xstate -> option xstate) l :
    (forall t st st', f t st = Some st' -> q_ok st -> q_ok st') ->
    forall st st', ofold f l st = Some st' -> q_ok st -> q_ok st'.
  Proof.
    intros Hf. unfold ofold. induction l as [|t l IH]; intros st st' H Hq; cbn [fold_left] in H.
    - inversion H; subst. exact Hq.
    - destruct (f t st) as [st1|] eqn:E.
      + eapply IH; eauto.
      + exfalso. clear -H. induction l; cbn in H; [discriminate|auto].
  Qed.

  Lemma load_q_ok f : forall s st st', n_load f g s st = Some st' -> q_ok st -> q_ok st'.
  Proof.
    induction f as [|f IH]; intros s st st' H Hq; [discriminate|]. cbn [n_load] in H.
    destruct (memn s (xs_started st)); [inversion H; subst; exact Hq|].
    destruct (ofold (n_load f g) (e_static (gete g s)) _) as [st1|] eqn:E1; [|discriminate].
    assert (Hq1 : q_ok st1) by (eapply (ofold_q_ok (n_load f g)); eauto).
    unfold body_events in H.
    destruct (ofold (n_load f g) (e_requires (gete g s)) _) as [st2|] eqn:E2; [|discriminate].
    inversion H; subst st'. clear H.
    assert (Hq2 : q_ok st2).
    { eapply (ofold_q_ok (n_load f g)); eauto. intros t Ht. apply Hq1. destruct (e_silent (gete g s)); exact Ht. }
    intros t Ht. cbn [xs_queue] in Ht. apply in_app_or in Ht as [Ht|Ht]; [apply Hq2; exact Ht|].
    destruct (consistent s) as [Hreq _]. apply Hreq. apply in_or_app. right. exact Ht.
  Qed.

  Lemma drain_same fl k : forall st, q_ok st ->
    drain k (b_run fl g true) st = drain k (n_load fl g) st.
  Proof.
    induction k as [|k IH]; intros st Hq; [reflexivity|]. cbn [drain].
    destruct (xs_queue st) as [|t rest] eqn:Eq; [reflexivity|].
    rewrite run_is_load by (intros _; apply Hq; rewrite Eq; left; reflexivity).
    destruct (n_load fl g t _) as [st'|] eqn:E; [|reflexivity].
    apply IH. eapply load_q_ok; eauto. intros t0 Ht0. apply Hq. rewrite Eq. right. exact Ht0.
  Qed.

  Lemma bundle_is_native entry : bundle_trace g entry = native_trace g entry.
  Proof.
    unfold bundle_trace, native_trace. rewrite run_is_load by discriminate.
    destruct (n_load (efuel g) g entry _) as [st|] eqn:E; [|reflexivity].
    rewrite drain_same; [reflexivity|]. eapply load_q_ok; eauto. intros t [].
  Qed.
End Mixed.
