(* C02: the evaluation-order graph (EvalOrder.egraph) of a linker graph classified by the model.

   Ties the two models: the import records of Graph.module give the edges (import statements,
   require() calls, import() expressions), the state computed by Wrap.scan_steps12 gives the wrap
   flags.  The runtime file (index 0) and files that are not reachable from the entry points have no
   observable body and are left blank.  Executable definitions only. *)
From V Require Import Common.Base C02.Graph C02.Wrap C02.EvalOrder.

Definition kind_targets (k : ikind) (m : module) : list nat :=
  flat_map (fun r => match r_target r with
                     | Some t => if ikind_eqb (r_kind r) k then [t] else []
                     | None => []
                     end) (m_records m).

Definition emod_of (g : graph) (order : list nat) (st : cstate) (i : nat) : emod :=
  if Nat.eqb i 0 || negb (memn i order) then empty_emod else
  let m := getm g i in
  mkEmod (negb (ekind_eqb (m_kind m) ECJS)) (m_lazy m)
         (kind_targets KStmt m) (kind_targets KRequire m) (kind_targets KDynamic m)
         (negb (wkind_eqb (snd (cget st i)) WNone)).

Definition egraph_of (g : graph) (order : list nat) (st : cstate) : egraph :=
  map (emod_of g order st) (seq 0 (length g)).

(* the reachable files only import files of the graph, reachable themselves, never the runtime;
   the runtime imports nothing *)
Definition targets_ok (g : graph) (order : list nat) : bool :=
  match all_targets (getm g 0) with [] => true | _ => false end &&
  forallb (fun p => forallb (fun t => negb (Nat.eqb t 0) && Nat.ltb t (length g) && memn t order)
                            (all_targets (getm g p))) order.
