(* Lemmas about the depth-first orders of Order.v: every file reachable from
   the roots is emitted exactly once, nothing else is. *)
From V Require Import Common.Base C02.Graph C02.Order.

Lemma NoDup_app_intro {A} (l1 l2 : list A) :
  NoDup l1 -> NoDup l2 -> (forall x, In x l1 -> In x l2 -> False) -> NoDup (l1 ++ l2).
Proof.
  induction l1 as [|a l1 IH]; intros H1 H2 Hd; cbn; [exact H2|].
  inversion H1; subst. constructor.
  - intro Hin. apply in_app_or in Hin as [Hin|Hin]; [contradiction|]. eapply Hd; [left; reflexivity|exact Hin].
  - apply IH; auto. intros x Hx1 Hx2. eapply Hd; [right; exact Hx1|exact Hx2].
Qed.

Section DFSProofs.
  Variable succs : nat -> list nat.
  Variable emit : nat -> bool.

  Inductive reach : nat -> nat -> Prop :=
  | reach_refl x : reach x x
  | reach_step x y z : In y (succs x) -> reach y z -> reach x z.

  Lemma visit_visited fuel s st :
    memn s (fst st) = true -> visit succs emit (S fuel) s st = Some st.
  Proof. intros H. cbn [visit]. rewrite H. reflexivity. Qed.

  Definition Inv (srcs : list nat) (st st' : dstate) : Prop :=
    incl (fst st) (fst st') /\
    exists new, snd st' = snd st ++ new /\ NoDup new /\
      (forall x, In x new -> ~ In x (fst st) /\ In x (fst st') /\ emit x = true) /\
      (forall x, In x (fst st') -> ~ In x (fst st) ->
         incl (succs x) (fst st') /\ (emit x = true -> In x new) /\ exists r, In r srcs /\ reach r x).

  Lemma Inv_refl srcs st : Inv srcs st st.
  Proof.
    split; [apply incl_refl|]. exists []. rewrite app_nil_r.
    repeat split; try constructor; intros; try contradiction.
  Qed.

  Lemma Inv_trans A B st st1 st2 : Inv A st st1 -> Inv B st1 st2 -> Inv (A ++ B) st st2.
  Proof.
    intros [I1 [n1 [E1 [N1 [C1 D1]]]]] [I2 [n2 [E2 [N2 [C2 D2]]]]].
    split; [eapply incl_tran; eauto|].
    exists (n1 ++ n2). split; [rewrite E2, E1, app_assoc; reflexivity|].
    split.
    { apply NoDup_app_intro; auto. intros x Hx1 Hx2.
      destruct (C1 x Hx1) as [_ [Hin _]]. destruct (C2 x Hx2) as [Hnot _]. contradiction. }
    split.
    - intros x Hx. apply in_app_or in Hx as [Hx|Hx].
      + destruct (C1 x Hx) as [Ha [Hb Hc]]. auto.
      + destruct (C2 x Hx) as [Ha [Hb Hc]]. split; [|auto]. intro Hin. apply Ha. apply I1. exact Hin.
    - intros x Hx Hnot.
      destruct (in_dec Nat.eq_dec x (fst st1)) as [Hin|Hnin].
      + destruct (D1 x Hin Hnot) as [Ha [Hb [r [Hr Hp]]]].
        split; [eapply incl_tran; eauto|]. split; [intro He; apply in_or_app; left; auto|].
        exists r. split; [apply in_or_app; left; auto|auto].
      + destruct (D2 x Hx Hnin) as [Ha [Hb [r [Hr Hp]]]].
        split; [auto|]. split; [intro He; apply in_or_app; right; auto|].
        exists r. split; [apply in_or_app; right; auto|auto].
  Qed.

  Lemma vfold_none v l : vfold v l None = None.
  Proof. induction l as [|x l IH]; cbn; auto. Qed.

  Lemma vfold_cons v x l st : vfold v (x :: l) (Some st) = vfold v l (v x st).
  Proof. reflexivity. Qed.

  Lemma vfold_Inv (v : nat -> dstate -> option dstate) :
    (forall s st st', v s st = Some st' -> Inv [s] st st' /\ In s (fst st')) ->
    forall l st st', vfold v l (Some st) = Some st' ->
      Inv l st st' /\ (forall t, In t l -> In t (fst st')).
  Proof.
    intros Hv l. induction l as [|x l IH]; intros st st' H.
    - cbn in H. inversion H; subst. split; [apply Inv_refl|intros t []].
    - rewrite vfold_cons in H. destruct (v x st) as [st1|] eqn:E1.
      2:{ rewrite vfold_none in H. discriminate. }
      destruct (Hv _ _ _ E1) as [I1 Hx]. destruct (IH _ _ H) as [I2 Hl].
      split.
      + change (x :: l) with ([x] ++ l). eapply Inv_trans; eauto.
      + intros t [<-|Ht]; [|auto]. destruct I2 as [Hincl _]. apply Hincl. exact Hx.
  Qed.

  Lemma visit_Inv fuel : forall s st st',
    visit succs emit fuel s st = Some st' -> Inv [s] st st' /\ In s (fst st').
  Proof.
    induction fuel as [|f IH]; intros s st st' H; [discriminate|].
    cbn [visit] in H. destruct (memn s (fst st)) eqn:Em.
    - inversion H; subst. split; [apply Inv_refl|]. apply memn_In. exact Em.
    - destruct (vfold (visit succs emit f) (succs s) (Some (s :: fst st, snd st))) as [st1|] eqn:Ef; [|discriminate].
      inversion H; subst; clear H.
      destruct (vfold_Inv _ IH _ _ _ Ef) as [[I1 [n1 [E1 [N1 [C1 D1]]]]] Hall].
      cbn [fst snd] in *.
      assert (Hs : ~ In s (fst st)). { intro Hin. apply memn_In in Hin. congruence. }
      assert (Hs1 : In s (fst st1)). { apply I1. left. reflexivity. }
      split; [|exact Hs1].
      split. { intros x Hx. apply I1. right. exact Hx. }
      exists (n1 ++ if emit s then [s] else []).
      split. { rewrite E1. destruct (emit s); [rewrite app_assoc|rewrite app_nil_r]; reflexivity. }
      split.
      { apply NoDup_app_intro; auto.
        - destruct (emit s); constructor; [intros []|constructor].
        - intros x Hx1 Hx2. destruct (emit s); [|contradiction]. destruct Hx2 as [<-|[]].
          destruct (C1 _ Hx1) as [Hn _]. apply Hn. left. reflexivity. }
      split.
      + intros x Hx. apply in_app_or in Hx as [Hx|Hx].
        * destruct (C1 x Hx) as [Ha [Hb Hc]]. split; [|auto]. intro Hin. apply Ha. right. exact Hin.
        * destruct (emit s) eqn:Ee; [|contradiction]. destruct Hx as [<-|[]]. auto.
      + intros x Hx Hnot. destruct (Nat.eq_dec x s) as [->|Hne].
        * split; [intros t Ht; apply Hall; exact Ht|].
          split. { intro He. apply in_or_app. right. rewrite He. left. reflexivity. }
          exists s. split; [left; reflexivity|constructor].
        * assert (Hn2 : ~ In x (s :: fst st)). { intros [Heq|Hin]; [congruence|contradiction]. }
          destruct (D1 x Hx Hn2) as [Ha [Hb [r [Hr Hp]]]].
          split; [exact Ha|]. split. { intro He. apply in_or_app. left. auto. }
          exists s. split; [left; reflexivity|]. eapply reach_step; eauto.
  Qed.

  (* every emitted file is emitted once; the emitted files are exactly the
     emitting files reachable from a root *)
  Lemma visit_all_spec fuel roots out :
    visit_all succs emit fuel roots = Some out ->
    NoDup out /\
    forall x, In x out <-> (emit x = true /\ exists r, In r roots /\ reach r x).
  Proof.
    unfold visit_all. intros H.
    destruct (vfold (visit succs emit fuel) roots (Some ([], []))) as [st|] eqn:E; [|discriminate].
    inversion H; subst; clear H.
    destruct (vfold_Inv _ (visit_Inv fuel) _ _ _ E) as [[I1 [n [E1 [N1 [C1 D1]]]]] Hall].
    cbn [fst snd app] in *. rewrite E1.
    split; [exact N1|].
    assert (Hclosed : forall r x, reach r x -> In r (fst st) -> In x (fst st)).
    { intros r x Hp. induction Hp as [x|x y z Hy Hp IH]; intros Hin; [exact Hin|].
      apply IH. destruct (D1 x Hin (fun f => f)) as [Hs _]. apply Hs. exact Hy. }
    intros x. split.
    - intros Hx. destruct (C1 x Hx) as [_ [Hin He]]. split; [exact He|].
      destruct (D1 x Hin (fun f => f)) as [_ [_ Hr]]. exact Hr.
    - intros [He [r [Hr Hp]]].
      assert (Hin : In x (fst st)). { eapply Hclosed; eauto. }
      destruct (D1 x Hin (fun f => f)) as [_ [Hn _]]. auto.
  Qed.
End DFSProofs.

(* ---- the sort of findImportedPartsInJSOrder puts the entry point first ---- *)
Lemma insert_key_In k l x : In x (insert_key k l) -> x = k \/ In x l.
Proof.
  induction l as [|h r IH]; cbn [insert_key]; intros H.
  - destruct H as [<-|[]]. left. reflexivity.
  - destruct (key_less h k).
    + destruct H as [<-|H]; [right; left; reflexivity|]. destruct (IH H) as [->|Hr]; [left; reflexivity|right; right; exact Hr].
    + destruct H as [<-|H]; [left; reflexivity|right; exact H].
Qed.

Lemma sort_keys_In l x : In x (sort_keys l) -> In x l.
Proof.
  induction l as [|k l IH]; cbn [sort_keys fold_right]; intros H; [exact H|].
  apply insert_key_In in H as [->|H]; [left; reflexivity|right; apply IH; exact H].
Qed.

Definition kdist (k : okey) : Z := fst (fst k).

Lemma sort_head_zero l :
  (exists k, In k l /\ kdist k = 0) -> (forall k, In k l -> 0 <= kdist k) ->
  exists h r, sort_keys l = h :: r /\ kdist h = 0.
Proof.
  induction l as [|k l IH]; intros [k0 [Hin H0]] Hnn; [contradiction|].
  cbn [sort_keys fold_right]. fold (sort_keys l).
  destruct (sort_keys l) as [|h r] eqn:Es.
  - cbn [insert_key]. exists k, []. split; [reflexivity|].
    destruct Hin as [->|Hin]; [exact H0|]. exfalso.
    destruct l as [|k1 l1]; [contradiction|]. cbn [sort_keys fold_right] in Es.
    destruct (fold_right insert_key [] l1); cbn [insert_key] in Es; [discriminate|]. destruct (key_less o k1); discriminate.
  - cbn [insert_key]. destruct k as [[dk tk] ik], h as [[dh th] ih]. cbn [key_less].
    assert (Hh : In (dh, th, ih) (k0 :: l) \/ True) by (right; exact I).
    assert (Hhl : In (dh, th, ih) l) by (apply sort_keys_In; rewrite Es; left; reflexivity).
    pose proof (Hnn _ (or_intror Hhl)) as Hdh. pose proof (Hnn _ (or_introl eq_refl)) as Hdk. unfold kdist in *. cbn [fst] in *.
    destruct ((dh <? dk) || ((dh =? dk) && (th <? tk))) eqn:E.
    + exists (dh, th, ih), (insert_key (dk, tk, ik) r). split; [reflexivity|]. cbn [fst].
      destruct Hin as [<-|Hin].
      * cbn [fst] in H0. subst dk. lia.
      * destruct (IH (ex_intro _ k0 (conj Hin H0)) (fun k Hk => Hnn k (or_intror Hk))) as [h' [r' [E' H']]].
        inversion E'; subst. exact H'.
    + exists (dk, tk, ik), ((dh, th, ih) :: r). split; [reflexivity|]. cbn [fst].
      destruct Hin as [<-|Hin]; [exact H0|].
      destruct (IH (ex_intro _ k0 (conj Hin H0)) (fun k Hk => Hnn k (or_intror Hk))) as [h' [r' [E' H']]].
      inversion E'; subst. cbn [fst] in H'. subst dh. lia.
Qed.

(* with a single entry point (distance 0, every other file of the chunk at a positive distance)
   the sorted list starts with the entry point *)
Lemma entry_sorts_first_all keys e t0 :
  In (0, t0, e) keys -> (forall k, In k keys -> k = (0, t0, e) \/ 0 < kdist k) ->
  exists rest, chunk_sorted keys = e :: rest.
Proof.
  intros Hin Hall.
  destruct (sort_head_zero keys) as [h [r [Es H0]]].
  - exists (0, t0, e). split; [exact Hin|reflexivity].
  - intros k Hk. destruct (Hall k Hk) as [->|H]; [cbn; lia|lia].
  - assert (Hh : In h keys) by (apply sort_keys_In; rewrite Es; left; reflexivity).
    destruct (Hall h Hh) as [->|H]; [|lia].
    unfold chunk_sorted. rewrite Es. cbn [map snd]. eexists. reflexivity.
Qed.
