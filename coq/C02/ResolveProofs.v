(* Export resolution: the linker's matching versus ECMA-262 ResolveExport.
   The full statement "for every static ES module graph the linker binds an
   import to the binding ResolveExport denotes" is FALSE of the faithful
   model: two witnesses (both replayed on the real code by the harness).
   What is proved instead is the equivalence on two bounded-exhaustive
   domains, outside the two refuted shapes. *)
From V Require Import Common.Base C02.Graph C02.SpecESM C02.Wrap C02.Resolve C02.ResolveSpec.

Definition resolve_is_spec_statement : Prop :=
  forall g s ni, all_esm g = true -> In ni (m_imports (getm g s)) ->
    agrees g (seq 0 (length g)) s ni = true.

Lemma refuted_by (g : graph) (s : nat) (ni : nimport) :
  all_esm g = true -> In ni (m_imports (getm g s)) -> agrees g (seq 0 (length g)) s ni = false ->
  ~ resolve_is_spec_statement.
Proof. intros Ha Hi Hf H. rewrite (H g s ni Ha Hi) in Hf. discriminate. Qed.

(* former witness A (one binding exported under two names, re-exported to one name along two
   export-star paths): since fix a7bd0a8 the linker agrees with ResolveExport on it *)
Lemma alias_witness_agrees :
  all_esm witness_alias = true /\ single_alias witness_alias = false /\
  link_verdict witness_alias (seq 0 6) 1 (imp 1 1 0) = Some (VFound 5 0) /\
  spec_verdict witness_alias 1 (imp 1 1 0) = Some (VFound 5 0).
Proof. vm_compute. repeat split. Qed.

(* witness B: a re-export that runs back into the file that star-exports it *)
Lemma refuted_cycle :
  all_esm witness_cycle = true /\ single_alias witness_cycle = true /\
  link_verdict witness_cycle (seq 0 5) 1 (imp 1 1 0) = Some VAmbiguous /\
  spec_verdict witness_cycle 1 (imp 1 1 0) = Some (VFound 3 0).
Proof. vm_compute. repeat split. Qed.

(* witness C: named import from an ES module without any export statement *)
Lemma refuted_exportless :
  all_esm witness_exportless = true /\ single_alias witness_exportless = true /\
  indirect_acyclic witness_exportless = true /\ named_targets_export witness_exportless = false /\
  link_verdict witness_exportless (seq 0 4) 1 (imp 1 3 0) = Some VOther /\
  spec_verdict witness_exportless 1 (imp 1 3 0) = Some VNull.
Proof. vm_compute. repeat split. Qed.

Lemma statement_refuted : ~ resolve_is_spec_statement.
Proof.
  apply (refuted_by witness_cycle 1 (imp 1 1 0)); vm_compute; auto.
Qed.

Definition graph_of (files : list nat) (names : list Z) (fs : list module) : graph :=
  empty_module :: fs ++ [importer files names].

Lemma bounded_domain (files : list nat) (names : list Z) (dom : list (list module)) :
  forallb (graph_ok files names) dom = true ->
  forall fs, In fs dom ->
    let g := graph_of files names fs in
    indirect_acyclic g = true ->
    forall ni, In ni (m_imports (getm g (S (length fs)))) -> agrees g (seq 0 (length g)) (S (length fs)) ni = true.
Proof.
  intros Hall fs Hin g Hi ni Hni.
  rewrite forallb_forall in Hall. specialize (Hall fs Hin). unfold graph_ok in Hall.
  fold (graph_of files names fs) in Hall. fold g in Hall.
  rewrite Hi in Hall. cbn [negb orb] in Hall.
  rewrite forallb_forall in Hall. apply Hall. exact Hni.
Qed.

Lemma domain1_ok : forallb (graph_ok [1; 2; 3]%nat [1]) domain1 = true.
Proof. vm_compute. reflexivity. Qed.

Lemma domains_size : Z.of_nat (length domain1) = 18000.
Proof. vm_compute. reflexivity. Qed.
