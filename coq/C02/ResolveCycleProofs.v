(* C02: export resolution on graphs with CYCLES of export stars of length up to three, by
   computation over a finite domain (the unbounded theorem resolve_is_spec_partial needs a rank
   certificate, which a cycle of export stars does not have). *)
From V Require Import Common.Base C02.Graph C02.Resolve C02.SpecESM C02.ResolveSpec C02.ResolveProofs.

(* star-only options: a name is absent or a local binding *)
Definition file_variants_loc (self : nat) (names : list Z) (star_sets : list (list nat)) : list module :=
  flat_map (fun opts => map (mk_file self opts) star_sets) (opt_lists names [XNone; XLoc]).

(* domain 3: four files, one name, absent or local in each file; files 1, 2 and 3 star-export any
   subset of {1,2,3,4} (self loops, 2-cycles, 3-cycles, chords, diamonds onto the cycle), file 4
   star-exports nothing *)
Definition stars4 : list (list nat) := sublists [1; 2; 3; 4]%nat.
Definition domain3 : list (list module) :=
  products [file_variants_loc 1 [1] stars4; file_variants_loc 2 [1] stars4;
            file_variants_loc 3 [1] stars4; file_variants_loc 4 [1] [[]]].

Lemma domain3_size : Z.of_nat (length domain3) = 65536.
Proof. vm_compute. reflexivity. Qed.
(* no exclusion at all in this domain: without indirect exports the refuted re-export-cycle shape
   cannot occur *)
Definition graph_agrees (files : list nat) (names : list Z) (fs : list module) : bool :=
  let g := graph_of files names fs in
  forallb (agrees g (seq 0 (length g)) (S (length fs))) (m_imports (getm g (S (length fs)))).

Lemma domain3_ok : forallb (graph_agrees [1; 2; 3; 4]%nat [1]) domain3 = true.
Proof. vm_compute. reflexivity. Qed.

Lemma bounded4_all fs : In fs domain3 ->
  let g := graph_of [1; 2; 3; 4]%nat [1] fs in
  forall ni, In ni (m_imports (getm g (S (length fs)))) -> agrees g (seq 0 (length g)) (S (length fs)) ni = true.
Proof.
  intros Hin g ni Hni. assert (H := domain3_ok). rewrite forallb_forall in H. specialize (H fs Hin).
  unfold graph_agrees in H. fold g in H. rewrite forallb_forall in H. exact (H ni Hni).
Qed.
