(* Checkers evaluated by the correspondence run.  A case carries the linker's
   input graph (dumped from the real ASTs by the verif hook) and the state the
   real linker computed; each checker recomputes with the model (or evaluates
   the ECMA-262 specification side) and returns the indices of the cases that
   disagree. *)
From V Require Import Common.Base C02.Graph C02.Order C02.SpecESM C02.Wrap C02.Resolve C02.DataUrl C02.SpecDataUrl C02.Emit C02.ResolveSpec C02.EvalOrder C02.WrapGraph C02.Interop.

Fixpoint mism_from {A} (f : A -> bool) (l : list A) (i : nat) : list nat :=
  match l with
  | [] => []
  | x :: r => if f x then mism_from f r (S i) else i :: mism_from f r (S i)
  end.
Definition mismatches {A} (f : A -> bool) (l : list A) : list nat := mism_from f l 0.

(* ---- compact constructors used by the generated cases (all numbers are Z) ---- *)
Definition zn (z : Z) : nat := Z.to_nat z.
Definition zopt (z : Z) : option nat := if z <? 0 then None else Some (Z.to_nat z).
Definition zkind (z : Z) : ikind :=
  if z =? 1 then KStmt else if z =? 2 then KRequire else if z =? 3 then KDynamic else KOther.
Definition zek (z : Z) : ekind :=
  if z =? 1 then ECJS else if z =? 2 then EESM else if z =? 3 then EDyn else ENone.
Definition zwk (z : Z) : wkind := if z =? 1 then WCJS else if z =? 2 then WESM else WNone.
Definition ek_z (k : ekind) : Z := match k with ENone => 0 | ECJS => 1 | EESM => 2 | EDyn => 3 end.
Definition wk_z (w : wkind) : Z := match w with WNone => 0 | WCJS => 1 | WESM => 2 end.

Definition R (t k : Z) (star def : bool) : irecord := mkRec (zopt t) (zkind k) star def.
Definition I (ref alias : Z) (isstar : bool) (rec ns : Z) (gen exported : bool) : nimport :=
  mkImp (zn ref) alias isstar (zn rec) (zopt ns) gen exported.
Definition M (records : list irecord) (parts : list (list Z * bool)) (imports : list nimport)
           (exports : list (Z * Z)) (stars : list Z) (kind : Z)
           (lazy uses_exports uses_module export_kw is_ts entry : bool) (exports_ref : Z) (live : bool)
           (lazy_exports : list (Z * Z)) : module :=
  mkMod records (map (fun p => (map zn (fst p), snd p)) parts) imports
        (map (fun p => (fst p, zn (snd p))) exports) (map zn stars) (zek kind)
        lazy uses_exports uses_module export_kw is_ts entry (zn exports_ref) live
        (map (fun p => (fst p, zn (snd p))) lazy_exports).
Definition E : module := empty_module.
(* tuple builders: applications elaborate much faster than nested pair notations *)
Definition T3 (a b c : Z) : Z * Z * Z := (a, b, c).
Definition IO (a b c d e f g : Z) : Z * Z * Z * Z * Z * Z * Z := (a, b, c, d, e, f, g).
Definition RX (alias src ref : Z) (ambs : list (Z * Z)) : Z * Z * Z * list (Z * Z) := (alias, src, ref, ambs).
Definition P2 (a b : Z) : Z * Z := (a, b).
Definition PT (idx : list Z) (live : bool) : list Z * bool := (idx, live).
Definition FR (f : Z) (l : list (Z * Z * Z * list (Z * Z))) := (f, l).
Definition FI (f : Z) (l : list (Z * Z * Z * Z * Z * Z * Z)) := (f, l).

Record obs := mkObs {
  o_fmt_wraps : bool;                       (* output format IIFE or ESM *)
  o_keep_esm : bool;                        (* output format ESM *)
  o_entries : list Z;
  o_reach : list Z;                         (* c.graph.ReachableFiles *)
  o_kinds : list (Z * Z * Z);               (* file, ExportsKind, Wrap after step 2 *)
  o_resolved : list (Z * list (Z * Z * Z * list (Z * Z)));   (* file, [alias, src, ref, ambs] *)
  o_imports : list (Z * list (Z * Z * Z * Z * Z * Z * Z));   (* file, [ref, bound src|-1, bound ref, ns src|-1, ns ref, ns alias, missing] *)
  o_events : list (Z * Z * Z);              (* file, code, alias *)
  o_errors : bool;
  o_keys : list (Z * Z * Z);                (* distance, stable index, file: live JS files of the chunk *)
  o_chunk : list Z                          (* filesInChunkInOrder *)
}.

Definition case := (graph * obs)%type.

Definition optlist_eqb (a : option (list nat)) (b : list Z) : bool :=
  match a with Some l => list_eqb Nat.eqb l (map zn b) | None => false end.

(* findReachableFiles *)
Definition reach_ok (c : case) : bool :=
  let '(g, o) := c in optlist_eqb (reach_order g (map zn (o_entries o))) (o_reach o).
Definition check_reach := mismatches reach_ok.

Definition model_kinds (c : case) : option cstate :=
  let '(g, o) := c in scan_steps12 (o_fmt_wraps o) (o_keep_esm o) g (map zn (o_reach o)).

(* scanImportsAndExports steps 1-2 *)
Definition classify_ok (c : case) : bool :=
  match model_kinds c with
  | None => false
  | Some st =>
    forallb (fun p => let '(f, k, w) := p in
               let '(mk, mw) := cget st (zn f) in (ek_z mk =? k) && (wk_z mw =? w)) (o_kinds (snd c))
    (* the side condition of wrap_exact / classified_mixed_order_is_native holds on every real graph *)
    && targets_ok (fst c) (map zn (o_reach (snd c)))
  end.
Definition check_classify := mismatches classify_ok.

Definition kinds_fun (st : cstate) : nat -> ekind := fun i => fst (cget st i).

Definition amb_eqb (a : list (nat * nat)) (b : list (Z * Z)) : bool :=
  list_eqb pair_eqb a (map (fun y => (zn (fst y), zn (snd y))) b).

Definition resolved_file_ok (g : graph) (kinds : nat -> ekind) (p : Z * list (Z * Z * Z * list (Z * Z))) : bool :=
  let '(f, l) := p in
  match resolved_exports g kinds (zn f) with
  | None => false
  | Some res =>
    Nat.eqb (length res) (length l) &&
    forallb (fun q => let '(alias, src, ref, ambs) := q in
               match ed_lookup alias res with
               | Some e => Nat.eqb (ed_src e) (zn src) && Nat.eqb (ed_ref e) (zn ref) && amb_eqb (ed_ambs e) ambs
               | None => false
               end) l
  end.

(* scanImportsAndExports step 3 *)
Definition resolved_ok (c : case) : bool :=
  match model_kinds c with
  | None => false
  | Some st => forallb (resolved_file_ok (fst c) (kinds_fun st)) (o_resolved (snd c))
  end.
Definition check_resolved := mismatches resolved_ok.

(* the same function the theorems of Properties.v are about *)
Definition model_resolved (g : graph) (kinds : nat -> ekind) : nat -> list edata := resolved_of g kinds.

(* [gen]: the import item was generated by the parser from a property access on a
   namespace import; its symbol carries a NamespaceAlias from parsing on, so only the
   binding is an output of the linker *)
Definition import_obs_ok (gen : bool) (r : mres) (q : Z * Z * Z * Z * Z * Z * Z) : bool :=
  let '(ref, bsrc, bref, nsrc, nref, nalias, missing) := q in
  let bound := match mr_kind r with MNormal | MNormalNS => true | _ => false end in
  let ns := match mr_kind r with MNamespace | MNormalNS => true | _ => false end in
  (if bound then (Z.of_nat (mr_src r) =? bsrc) && (Z.of_nat (mr_ref r) =? bref) else bsrc =? -1)
  && (if gen then true else if ns then match mr_ns r with
                 | Some (s, n) => (Z.of_nat s =? nsrc) && (Z.of_nat n =? nref) && (mr_alias r =? nalias)
                 | None => false end
      else nsrc =? -1).

Definition ev_eqb (a b : Z * Z * Z) : bool :=
  let '(x, y, z) := a in let '(x', y', z') := b in (x =? x') && (y =? y') && (z =? z').
Definition ev_z (e : event) : Z * Z * Z := let '(f, c, a) := e in (Z.of_nat f, c, a).
Definition ev_subset (a b : list (Z * Z * Z)) : bool := forallb (fun x => existsb (ev_eqb x) b) a.

(* scanImportsAndExports step 4: bindings per import and the error events of the whole graph *)
Definition match_ok (c : case) : bool :=
  let '(g, o) := c in
  match model_kinds c with
  | None => false
  | Some st =>
    let kinds := kinds_fun st in
    let res := model_resolved g kinds in
    let r := fold_left (fun acc p =>
               match acc with
               | None => None
               | Some (ok, evs) =>
                 match match_imports_for_file g kinds res (o_keep_esm o) (zn (fst p)) with
                 | None => None
                 | Some (rs, ev) =>
                   let ok' := Nat.eqb (length rs) (length (snd p)) &&
                              forallb (fun q => let '(ref, _, _, _, _, _, _) := q in
                                         match find (fun x => Nat.eqb (fst x) (zn ref)) rs with
                                         | Some (_, r) =>
                                           import_obs_ok (match find_imp (zn ref) (m_imports (getm g (zn (fst p)))) with
                                                          | Some ni => ni_generated ni | None => false end) r q
                                         | None => false end) (snd p) in
                   Some (ok && ok', evs ++ map ev_z ev)
                 end
               end) (o_imports o) (Some (true, [])) in
    match r with
    | None => false
    | Some (ok, evs) => ok && ev_subset evs (o_events o) && ev_subset (o_events o) evs
    end
  end.
Definition check_match := mismatches match_ok.

(* findImportedPartsInJSOrder *)
Definition order_ok (c : case) : bool :=
  let '(g, o) := c in
  if o_errors o then true else
  optlist_eqb (bundle_order g (map (fun k => let '(d, t, f) := k in (d, t, zn f)) (o_keys o))) (o_chunk o).
Definition check_order := mismatches order_ok.

(* ---- specification side (the property's predicate on the real linker state) ---- *)
(* in scope of ECMA-262: every reachable file except the runtime is an ES
   module reached by import statements only *)
Definition esm_static (c : case) : bool :=
  let '(g, o) := c in
  forallb (fun f => (f =? 0) ||
             let m := getm g (zn f) in
             forallb (fun r => ikind_eqb (r_kind r) KStmt && match r_target r with Some _ => true | None => false end) (m_records m)
             && m_live m && negb (m_lazy m))      (* JSON/text files are not Source Text Module Records *)
          (o_reach o)
  && forallb (fun p => let '(f, k, w) := p in (f =? 0) || ((k =? 2) || (k =? 0)) && (w =? 0)) (o_kinds o).

Definition single_entry (o : obs) : option nat := match o_entries o with [e] => Some (zn e) | _ => None end.

(* module bodies appear in the bundle in ECMA-262 evaluation order *)
Definition spec_order_ok (c : case) : bool :=
  let '(g, o) := c in
  if o_errors o || negb (esm_static c) then true else
  match single_entry o with
  | None => true
  | Some e => optlist_eqb (spec_eval_order g e) (filter (fun f => negb (f =? 0)) (o_chunk o))
  end.
Definition check_spec_order := mismatches spec_order_ok.

(* every import is bound to the binding ResolveExport denotes; unresolvable
   and ambiguous imports are build errors *)
Definition spec_import_ok (g : graph) (o : obs) (f : Z) (q : Z * Z * Z * Z * Z * Z * Z) : bool :=
  let '(ref, bsrc, bref, nsrc, nref, nalias, missing) := q in
  match find_imp (zn ref) (m_imports (getm g (zn f))) with
  | None => false
  | Some ni =>
    if ni_generated ni then true else
    match spec_import g (zn f) ni with
    | None => false
    | Some (RBinding m (BName r)) => (Z.of_nat m =? bsrc) && (Z.of_nat r =? bref)
    | Some (RBinding m BNamespace) => (Z.of_nat m =? bsrc) && (Z.of_nat (m_exports_ref (getm g m)) =? bref)
    | Some RNull => existsb (fun e => let '(ef, code, al) := e in (code =? 3) || (code =? 1)) (o_events o)
    | Some RAmbiguous => existsb (ev_eqb (f, 2, ni_alias ni)) (o_events o)
    end
  end.
Definition spec_resolve_ok (c : case) : bool :=
  let '(g, o) := c in
  if negb (esm_static c) then true else
  forallb (fun p => forallb (spec_import_ok g o (fst p)) (snd p)) (o_imports o).
Definition check_spec_resolve := mismatches spec_resolve_ok.

(* ---- data URLs ---- *)
(* (mime, text, Go percent-escaped URL or [] with ok=false, ok) *)
Definition durl_ok (c : bytes * bytes * bytes * bool) : bool :=
  let '(mime, text, url, ok) := c in
  match encode_percent mime text with
  | Some u => ok && zlist_eqb u url
  | None => negb ok
  end.
Definition check_durl := mismatches durl_ok.

(* the URL the real encoder produced decodes, under the WHATWG processor, to the text *)
Definition durl_spec_ok (c : bytes * bytes * bytes * bool) : bool :=
  let '(mime, text, url, ok) := c in
  if ok then match whatwg_data_url_body url with
             | Some (m, false, body) => zlist_eqb m mime && zlist_eqb body text
             | _ => false
             end
  else true.
Definition check_durl_spec := mismatches durl_spec_ok.

(* ---- entry-point export statements of the real bundle (text of linker.Link's output) ---- *)
Inductive ostmt := OX (names : list Z) | OA | OR (second : bool) | ORet | OC (names : list Z).
Definition emit_case := (Z * bool * list Z * Z * list ostmt)%type.   (* format 0 esm 1 cjs 2 iife(+global), export keyword, aliases, #run-time stars, observed *)

Definition ostmt_of (s : xstmt) : ostmt :=
  match s with
  | XExport ns => OX ns
  | XAssignModuleExports => OA
  | XReExport _ b => OR b
  | XReturnToCJS => ORet
  | XExportClause ns => OC ns
  end.
Definition ostmt_eqb (a b : ostmt) : bool :=
  match a, b with
  | OX x, OX y | OC x, OC y => zlist_eqb x y
  | OA, OA | ORet, ORet => true
  | OR x, OR y => Bool.eqb x y
  | _, _ => false
  end.
Definition is_clause (s : ostmt) : bool := match s with OC _ => true | _ => false end.

(* esm format: whether the internal exports object exists depends on tree shaking, only the
   export clause is compared; cjs and iife: the whole statement sequence *)
Definition emit_ok (c : emit_case) : bool :=
  let '(fz, kw, aliases, ndyn, obs) := c in
  let f := if fz =? 1 then FCjs else if fz =? 2 then FIife true else FEsm in
  let model := map ostmt_of (entry_stmts f kw aliases (seq 0 (Z.to_nat ndyn))) in
  if fz =? 0 then list_eqb ostmt_eqb (filter is_clause model) obs
  else list_eqb ostmt_eqb model obs.
Definition check_emit := mismatches emit_ok.

(* ---- __toESM calls of the real bundle: (importer is ESM-typed, inside an import() , ", 1" printed) ---- *)
Definition toesm_ok (c : bool * bool * bool) : bool :=
  let '(typed, dynamic, has1) := c in
  Bool.eqb (to_esm_node_mode typed (if dynamic then IFDynamic else IFStatement true)) has1.
Definition check_toesm := mismatches toesm_ok.

(* ---- evaluation order of mixed graphs: the probe logs of the native run and of the bundle ---- *)
Definition EM (esm silent : bool) (static requires dyn : list Z) (wrapped : bool) : emod :=
  mkEmod esm silent (map zn static) (map zn requires) (map zn dyn) wrapped.
Definition ev_code (e : eevent) : Z * Z := match e with EvStart m => (0, Z.of_nat m) | EvEnd m => (1, Z.of_nat m) end.
Definition trace_eqb (a : option (list eevent)) (b : list (Z * Z)) : bool :=
  match a with
  | Some l => list_eqb (fun x y => (fst x =? fst y) && (snd x =? snd y)) (map ev_code l) b
  | None => false
  end.
(* the graph the model derives from the import records and its own wrap flags, against the abstract
   graph of the generator carrying the real wrap kinds (e_esm plays no part in either trace) *)
Definition nlist_eqb (a b : list nat) : bool := list_eqb Nat.eqb a b.
Definition emod_agrees (a b : emod) : bool :=
  Bool.eqb (e_silent a) (e_silent b) && nlist_eqb (e_static a) (e_static b) && nlist_eqb (e_requires a) (e_requires b)
  && nlist_eqb (e_dyn a) (e_dyn b) && Bool.eqb (e_wrapped a) (e_wrapped b).
Definition derived_graph_ok (lc : case) (eg : egraph) : bool :=
  let '(g, o) := lc in
  let order := map zn (o_reach o) in
  match model_kinds lc with
  | None => false
  | Some st => targets_ok g order && list_eqb emod_agrees (egraph_of g order st) eg
  end.
(* (link case, whether module paths determine source indices, graph with the real wrap kinds, entry,
   start/end events of the native run, of the bundle) *)
Definition evalorder_ok (c : case * bool * egraph * Z * list (Z * Z) * list (Z * Z)) : bool :=
  let '(lc, cmp, g, entry, nat_obs, bun_obs) := c in
  trace_eqb (native_trace g (zn entry)) nat_obs && trace_eqb (bundle_trace g (zn entry)) bun_obs
  && wrap_consistent g && (negb cmp || derived_graph_ok lc g).
Definition check_evalorder := mismatches evalorder_ok.

(* ---- imports from CommonJS files: (importer ESM-typed, import(), target has the __esModule marker,
   target has an own "default" key, name 0 default / 1 x / 2 y (absent), class observed natively,
   class observed in the bundle); classes: 0 module.exports, 1 the "default" key's value,
   2 another key's value, 3 undefined ---- *)
Definition ival_code (v : ival) : Z :=
  match v with VModuleExports => 0 | VKey k => if k =? 0 then 1 else 2 | VUndefined => 3 end.
Definition interop_ok (c : bool * bool * bool * bool * Z * Z * Z) : bool :=
  let '(typed, dynamic, marker, has_default, name, nat_obs, bun_obs) := c in
  let m := mkCjs marker (if has_default then [1; 0] else [1]) in
  let form := if dynamic then IFDynamic else IFStatement (name =? 0) in
  (ival_code (native_get m name) =? nat_obs) && (ival_code (bundle_get typed form m name) =? bun_obs)
  && interop_domain typed m name.
Definition check_interop := mismatches interop_ok.
