(* C02: evaluation order of mixed module graphs.

   Specification side (native loading, node/ECMA-262): an ES module is evaluated by
   InnerModuleEvaluation - its requested modules first, in order, each once; a requested CommonJS
   module is loaded (its body run) at that point of the traversal; require(t) inside a CommonJS body
   loads t at call time, once (module cache); import(t) loads t later, in request order, after the
   current synchronous evaluation has finished.

   Model side (the bundle esbuild emits): a file that is not wrapped executes in place, its import
   statements first, in order - an imported wrapped file through a call of its wrapper
   (init_x() / require_x()), an imported non-wrapped file in place, once; a wrapped file's code
   (internal/runtime __esm / __commonJS) runs at the first call of its wrapper: for __esm the wrapper
   calls of its own import statements, then the body; require(t) and import(t) call t's wrapper.
   A wrapper is never generated for a file that is not wrapped, so such an edge from wrapped code
   is simply not followed (that this never matters is the content of the theorem: wrap_closed).

   Module bodies are abstracted to: start event; the require() calls in order (CommonJS); end event;
   the import() requests of the body are queued.  Executable definitions only. *)
From V Require Import Common.Base C02.Graph.

Record emod := mkEmod {
  e_esm : bool;               (* ES module (else CommonJS / JSON) *)
  e_silent : bool;            (* no observable body (JSON and other data files) *)
  e_static : list nat;        (* requested modules of an ES module, in source order *)
  e_requires : list nat;      (* require() calls of a CommonJS body, in order *)
  e_dyn : list nat;           (* import() requests of the body, in order *)
  e_wrapped : bool            (* Meta.Wrap <> WrapNone in the bundle *)
}.
Definition egraph := list emod.
Definition empty_emod : emod := mkEmod false true [] [] [] false.
Definition gete (g : egraph) (i : nat) : emod := nth i g empty_emod.

Inductive eevent := EvStart (m : nat) | EvEnd (m : nat).

Record xstate := mkXS { xs_started : list nat; xs_trace : list eevent; xs_queue : list nat }.

Definition body_events (g : egraph) (s : nat) (inner : xstate -> option xstate) (st : xstate) : option xstate :=
  let m := gete g s in
  let st1 := if e_silent m then st else mkXS (xs_started st) (xs_trace st ++ [EvStart s]) (xs_queue st) in
  match inner st1 with
  | None => None
  | Some st2 =>
    Some (mkXS (xs_started st2) (if e_silent m then xs_trace st2 else xs_trace st2 ++ [EvEnd s]) (xs_queue st2 ++ e_dyn m))
  end.

Definition ofold (f : nat -> xstate -> option xstate) (l : list nat) (st : xstate) : option xstate :=
  fold_left (fun acc t => match acc with Some s => f t s | None => None end) l (Some st).

(* ---- native loading ---- *)
Fixpoint n_load (fuel : nat) (g : egraph) (s : nat) (st : xstate) : option xstate :=
  match fuel with
  | O => None
  | S f =>
    if memn s (xs_started st) then Some st else
    let st0 := mkXS (s :: xs_started st) (xs_trace st) (xs_queue st) in
    let m := gete g s in
    match ofold (n_load f g) (e_static m) st0 with
    | None => None
    | Some st1 => body_events g s (ofold (n_load f g) (e_requires m)) st1
    end
  end.

(* ---- the bundle ---- *)
Fixpoint b_run (fuel : nat) (g : egraph) (in_wrapper : bool) (s : nat) (st : xstate) : option xstate :=
  match fuel with
  | O => None
  | S f =>
    (* from wrapped code only wrappers can be called *)
    if in_wrapper && negb (e_wrapped (gete g s)) then Some st else
    if memn s (xs_started st) then Some st else
    let st0 := mkXS (s :: xs_started st) (xs_trace st) (xs_queue st) in
    let m := gete g s in
    let w := e_wrapped m in
    match ofold (b_run f g w) (e_static m) st0 with
    | None => None
    | Some st1 => body_events g s (ofold (b_run f g true) (e_requires m)) st1    (* require_t() *)
    end
  end.

(* the import() requests are served in order; each may queue more *)
Fixpoint drain (fuel : nat) (load : nat -> xstate -> option xstate) (st : xstate) : option xstate :=
  match fuel with
  | O => None
  | S f =>
    match xs_queue st with
    | [] => Some st
    | t :: rest =>
      match load t (mkXS (xs_started st) (xs_trace st) rest) with
      | None => None
      | Some st' => drain f load st'
      end
    end
  end.

Definition total_dyn (g : egraph) : nat := fold_right (fun m n => (length (e_dyn m) + n)%nat) 0%nat g.
Definition efuel (g : egraph) : nat := S (length g).

Definition native_trace (g : egraph) (entry : nat) : option (list eevent) :=
  match n_load (efuel g) g entry (mkXS [] [] []) with
  | None => None
  | Some st => match drain (S (total_dyn g)) (n_load (efuel g) g) st with Some st' => Some (xs_trace st') | None => None end
  end.

Definition bundle_trace (g : egraph) (entry : nat) : option (list eevent) :=
  match b_run (efuel g) g false entry (mkXS [] [] []) with
  | None => None
  | Some st => match drain (S (total_dyn g)) (b_run (efuel g) g true) st with Some st' => Some (xs_trace st') | None => None end
  end.

(* what the linker guarantees (wrap_closed; classification of required / dynamically imported files) *)
Definition wrap_consistent (g : egraph) : bool :=
  forallb (fun m =>
    forallb (fun t => e_wrapped (gete g t)) (e_requires m ++ e_dyn m)
    && (negb (e_wrapped m) || forallb (fun t => e_wrapped (gete g t)) (e_static m))) g.
