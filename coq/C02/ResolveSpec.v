(* Comparison of the linker's import matching (Resolve.v, composed with the
   classification of Wrap.v) with ECMA-262 ResolveExport (SpecESM.v):
   verdict functions, the refutation witnesses and the bounded-exhaustive
   domain.  Executable definitions only. *)
From V Require Import Common.Base C02.Graph C02.SpecESM C02.Wrap C02.Resolve.

Inductive verdict := VFound (m r : nat) | VNull | VAmbiguous | VOther.

Definition verdict_eqb (a b : verdict) : bool :=
  match a, b with
  | VFound m r, VFound m' r' => Nat.eqb m m' && Nat.eqb r r'
  | VNull, VNull | VAmbiguous, VAmbiguous | VOther, VOther => true
  | _, _ => false
  end.

(* the verdict a matchImportResult and the logged errors amount to *)
Definition mres_verdict (r : mres) (ev : list event) : verdict :=
  match mr_kind r with
  | MCycle => VNull
  | MAmbiguous => VAmbiguous
  | MNormal => if existsb (fun e => snd (fst e) =? 3) ev then VNull else VFound (mr_src r) (mr_ref r)
  | MIgnore => if existsb (fun e => snd (fst e) =? 3) ev then VNull else VOther
  | _ => VOther
  end.

(* ResolvedExports of every file (scanImportsAndExports step 3) *)
Definition resolved_of (g : graph) (kinds : nat -> ekind) : nat -> list edata :=
  fun i => match resolved_exports g kinds i with Some l => l | None => [] end.

(* what the linker decides for the named import [ni] of file [s] (ESM output format) *)
Definition link_verdict (g : graph) (order : list nat) (s : nat) (ni : nimport) : option verdict :=
  match scan_steps12 true true g order with
  | None => None
  | Some st =>
    let kinds := fun i => fst (cget st i) in
    match match_import g kinds (resolved_of g kinds) true (s, ni_ref ni) with
    | None => None
    | Some (r, ev) => Some (mres_verdict r ev)
    end
  end.

(* what ECMA-262 says the import entry denotes *)
Definition resolution_verdict (g : graph) (R : resolution) : verdict :=
  match R with
  | RNull => VNull
  | RAmbiguous => VAmbiguous
  | RBinding m (BName r) => VFound m r
  | RBinding m BNamespace => VFound m (m_exports_ref (getm g m))
  end.
Definition spec_verdict (g : graph) (s : nat) (ni : nimport) : option verdict :=
  option_map (resolution_verdict g) (spec_import g s ni).

Definition agrees (g : graph) (order : list nat) (s : nat) (ni : nimport) : bool :=
  match link_verdict g order s ni, spec_verdict g s ni with
  | Some a, Some b => verdict_eqb a b
  | _, _ => false
  end.

(* in scope: every file except the runtime (index 0) is an ES module and every record an import statement *)
Definition all_esm (g : graph) : bool :=
  forallb (fun m => ekind_eqb (m_kind m) EESM
                    && forallb (fun r => ikind_eqb (r_kind r) KStmt) (m_records m)) (tl g).

(* ---- shapes on which the linker and ECMA-262 disagree(d) ---- *)
(* (A, repaired by a7bd0a8) no file exports one binding under two names *)
Fixpoint nodupb (l : list nat) : bool :=
  match l with [] => true | x :: r => negb (memn x r) && nodupb r end.
Definition single_alias (g : graph) : bool := forallb (fun m => nodupb (map snd (m_exports m))) g.

(* (B) no indirect export lies on a cycle of the re-export relation
   (export * from / export {..} from edges) *)
Definition reexport_targets (m : module) : list nat :=
  star_targets m ++
  flat_map (fun p => match entry_of m (snd p) with
                     | XIndirect t _ | XIndirectAll t => [t]
                     | _ => [] end) (m_exports m).
Definition indirect_targets (m : module) : list nat :=
  flat_map (fun p => match entry_of m (snd p) with XIndirect t _ => [t] | _ => [] end) (m_exports m).

Fixpoint reaches (fuel : nat) (g : graph) (from to : nat) : bool :=
  match fuel with
  | O => false
  | S f => Nat.eqb from to || existsb (fun t => reaches f g t to) (reexport_targets (getm g from))
  end.
Definition indirect_acyclic (g : graph) : bool :=
  forallb (fun s => forallb (fun t => negb (reaches (length g) g t s)) (indirect_targets (getm g s)))
          (seq 0 (length g)).

(* ---- witnesses (dumped from the real linker by the harness, empty parts removed) ---- *)
Definition rec_to (t : nat) : irecord := mkRec (Some t) KStmt false false.
Definition esm_mod (recs : list irecord) (imps : list nimport) (exps : list (Z * nat)) (stars : list nat) (entry : bool) : module :=
  mkMod recs (map (fun i => ([i], true)) (seq 0 (length recs))) imps exps stars EESM
        false false false true false entry 99 true [].
Definition imp (ref : nat) (alias : Z) (rec : nat) : nimport := mkImp ref alias false rec None false false.

(* A: b exports v under the names p (2) and q (3); a1 and a2 re-export them as x (1); m stars both *)
Definition witness_alias : graph :=
  [ empty_module;
    esm_mod [rec_to 2] [imp 1 1 0] [] [] true;                       (* e:  import {x} from m *)
    esm_mod [rec_to 3; rec_to 4] [] [] [0; 1]%nat false;             (* m:  export * from a1; export * from a2 *)
    esm_mod [rec_to 5] [imp 7 2 0] [(1, 7%nat)] [] false;            (* a1: export {p as x} from b *)
    esm_mod [rec_to 5] [imp 7 3 0] [(1, 7%nat)] [] false;            (* a2: export {q as x} from b *)
    esm_mod [] [] [(2, 0%nat); (3, 0%nat); (4, 0%nat)] [] false ].   (* b:  export {v as p, v as q, v} *)

(* B: m0 stars m3 (which defines x) and m1; m1 re-exports x from m0 *)
Definition witness_cycle : graph :=
  [ empty_module;
    esm_mod [rec_to 2] [imp 1 1 0] [] [] true;                       (* e:  import {x} from m0 *)
    esm_mod [rec_to 3; rec_to 4] [] [] [0; 1]%nat false;             (* m0: export * from m3; export * from m1 *)
    esm_mod [] [] [(1, 0%nat)] [] false;                             (* m3: export var x *)
    esm_mod [rec_to 2] [imp 7 1 0] [(1, 7%nat)] [] false ].          (* m1: export {x} from m0 *)

(* C: a named import from an ES module that has import statements but no export statement
   (known finding C02-C: the linker treats the file as possibly CommonJS and only warns) *)
Definition witness_exportless : graph :=
  [ empty_module;
    esm_mod [rec_to 2] [imp 1 3 0] [] [] true;                       (* e:  import {z} from m5 *)
    mkMod [rec_to 3] [([0%nat], true)] [imp 1 2 0] [] [] EESM
          false false false false false false 99 true [];            (* m5: import {w} from x  (no exports) *)
    esm_mod [] [] [(2, 0%nat)] [] false ].                           (* x:  export var w *)

(* every named import (not a namespace, not "default") targets a file with an export statement *)
Definition named_targets_export (g : graph) : bool :=
  forallb (fun m =>
    forallb (fun ni =>
      ni_is_star ni || (ni_alias ni =? 0) ||
      match nth_error (m_records m) (ni_record ni) with
      | Some r => match r_target r with Some t => m_export_kw (getm g t) | None => true end
      | None => true
      end) (m_imports m)) g.

(* ---- scope of the unbounded theorem for graphs without export stars ---- *)
Definition import_target (m : module) (ni : nimport) : option nat :=
  match nth_error (m_records m) (ni_record ni) with Some r => r_target r | None => None end.

Definition star_free (g : graph) : bool := forallb (fun m => match m_stars m with [] => true | _ => false end) g.
Definition plain_modules (g : graph) : bool :=
  forallb (fun m => negb (m_lazy m) && negb (m_is_ts m)
                    && forallb (fun ni => negb (ni_generated ni)) (m_imports m)
                    && forallb (fun ni => match import_target m ni with Some t => Nat.ltb t (length g) | None => false end) (m_imports m)
                    && negb (existsb (fun ni => Nat.eqb (ni_ref ni) (m_exports_ref m)) (m_imports m))) g.

(* rank certificate: every indirect export points to a file of strictly smaller rank
   (no cycle of "export {a as b} from" / re-exported imports: refuted shape B) *)
Definition rank_of (rk : list nat) (i : nat) : nat := nth i rk 0%nat.
Definition indirect_edges (m : module) : list nat :=
  flat_map (fun p => match find_imp (snd p) (m_imports m) with
                     | Some ni => if ni_is_star ni then [] else
                                  match import_target m ni with Some t => [t] | None => [] end
                     | None => [] end) (m_exports m).
Definition ranked_indirect (g : graph) (rk : list nat) : bool :=
  forallb (fun s => forallb (fun t => Nat.ltb (rank_of rk t) (rank_of rk s)) (indirect_edges (getm g s)))
          (seq 0 (length g)).

(* every file (the runtime file 0 included) is an ES module whose import records are import
   statements resolved to files of the graph: steps 1-2 of scanImportsAndExports then change nothing *)
Definition esm_graph (g : graph) : bool :=
  forallb (fun m => ekind_eqb (m_kind m) EESM
                    && forallb (fun r => ikind_eqb (r_kind r) KStmt
                                         && match r_target r with Some t => Nat.ltb t (length g) | None => false end)
                               (m_records m)) g.

Definition chain_scope (g : graph) (rk : list nat) : bool :=
  star_free g && plain_modules g && named_targets_export g && ranked_indirect g rk.

(* ---- bounded-exhaustive domain ---- *)
(* per file and export name: nothing, a local binding, or an indirect export of a name of some file *)
Inductive xopt := XNone | XLoc | XInd (t : nat) (name : Z).

(* build file number [self] from its export options for the names 1.. and its star list *)
Definition mk_file (self : nat) (opts : list (Z * xopt)) (stars : list nat) : module :=
  let inds := flat_map (fun p => match snd p with XInd t nm => [(fst p, t, nm)] | _ => [] end) opts in
  (* records: one per indirect export, then one per star *)
  let recs := map (fun q => rec_to (snd (fst q))) inds ++ map rec_to stars in
  let imps := map (fun iq => mkImp (10 + fst iq) (snd (snd iq)) false (fst iq) None false true)
                  (combine (seq 0 (length inds)) inds) in
  let exps_ind := map (fun iq => (fst (fst (snd iq)), (10 + fst iq)%nat)) (combine (seq 0 (length inds)) inds) in
  let exps_loc := flat_map (fun p => match snd p with XLoc => [(fst p, Z.to_nat (fst p))] | _ => [] end) opts in
  esm_mod recs imps (exps_loc ++ exps_ind) (seq (length inds) (length stars)) false.

(* the importer asks every file for every name *)
Definition importer (files : list nat) (names : list Z) : module :=
  let qs := flat_map (fun f => map (fun nm => (f, nm)) names) files in
  esm_mod (map (fun q => rec_to (fst q)) qs)
          (map (fun iq => imp (20 + fst iq) (snd (snd iq)) (fst iq)) (combine (seq 0 (length qs)) qs))
          [] [] true.

Fixpoint sublists (l : list nat) : list (list nat) :=
  match l with
  | [] => [[]]
  | x :: r => let s := sublists r in s ++ map (cons x) s
  end.

Definition xopts (files : list nat) (names : list Z) : list xopt :=
  XNone :: XLoc :: flat_map (fun t => map (XInd t) names) files.

Fixpoint opt_lists (names : list Z) (choices : list xopt) : list (list (Z * xopt)) :=
  match names with
  | [] => [[]]
  | nm :: r => flat_map (fun c => map (cons (nm, c)) (opt_lists r choices)) choices
  end.

Definition file_variants (self : nat) (files : list nat) (names : list Z) (star_sets : list (list nat)) : list module :=
  flat_map (fun opts => map (mk_file self opts) star_sets) (opt_lists names (xopts files names)).

Fixpoint products (vs : list (list module)) : list (list module) :=
  match vs with
  | [] => [[]]
  | v :: r => flat_map (fun m => map (cons m) (products r)) v
  end.

Definition graph_ok (files : list nat) (names : list Z) (fs : list module) : bool :=
  let g := empty_module :: fs ++ [importer files names] in
  let s := S (length fs) in
  negb (indirect_acyclic g) ||
  forallb (agrees g (seq 0 (length g)) s) (m_imports (getm g s)).

(* domain 1: three files, one name; files 1 and 2 may star-export any subset of {1,2,3}
   (in both orders), file 3 star-exports nothing *)
Definition stars3 : list (list nat) := sublists [1; 2; 3]%nat ++ [[2; 1]; [3; 1]; [3; 2]; [3; 2; 1]]%nat.
Definition domain1 : list (list module) :=
  products [file_variants 1 [1; 2; 3]%nat [1] stars3; file_variants 2 [1; 2; 3]%nat [1] stars3;
            file_variants 3 [1; 2; 3]%nat [1] [[]]].

(* domain 2: two files, two names (renaming re-exports), any star subset of {1,2} in both orders *)
Definition stars2 : list (list nat) := sublists [1; 2]%nat ++ [[2; 1]]%nat.
Definition domain2 : list (list module) :=
  products [file_variants 1 [1; 2]%nat [1; 2] stars2; file_variants 2 [1; 2]%nat [1; 2] stars2].
