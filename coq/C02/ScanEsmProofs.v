(* On a graph of ES modules whose records are import statements resolved inside the graph,
   scanImportsAndExports steps 1-2 leave every exports kind and wrap as they were. *)
From V Require Import Common.Base C02.Graph C02.Wrap C02.WrapProofs C02.ClassifyProofs C02.SpecESM C02.Resolve C02.ResolveSpec C02.ResolveChainProofs.

Section ScanEsm.
  Variable g : graph.
  Hypothesis Hesm : esm_graph g = true.

  Lemma esm_mod_facts i : (i < length g)%nat ->
    m_kind (getm g i) = EESM /\
    forall r, In r (m_records (getm g i)) -> r_kind r = KStmt /\ exists t, r_target r = Some t /\ (t < length g)%nat.
  Proof.
    intros Hi. unfold esm_graph in Hesm. rewrite forallb_forall in Hesm.
    assert (Hin : In (getm g i) g) by (unfold getm; apply nth_In; exact Hi).
    specialize (Hesm _ Hin). apply andb_true_iff in Hesm as [Hk Hr]. split.
    - destruct (m_kind (getm g i)); try discriminate. reflexivity.
    - intros r Hrin. rewrite forallb_forall in Hr. specialize (Hr r Hrin). apply andb_true_iff in Hr as [Hk1 Ht].
      split; [destruct (r_kind r); try discriminate; reflexivity|].
      destruct (r_target r) as [t|]; [|discriminate]. exists t. split; [reflexivity|apply Nat.ltb_lt; exact Ht].
  Qed.

  Lemma records_out i : (length g <= i)%nat -> m_records (getm g i) = [] /\ m_stars (getm g i) = [].
  Proof. intros H. unfold getm. rewrite nth_overflow by exact H. split; reflexivity. Qed.

  Lemma cget_init i : (i < length g)%nat -> cget (init_state g) i = (EESM, WNone).
  Proof.
    intros Hi. unfold cget, init_state.
    rewrite (nth_indep (map (fun m => (m_kind m, WNone)) g) (ENone, WNone) ((fun m => (m_kind m, WNone)) empty_module))
      by (rewrite map_length; exact Hi).
    rewrite (map_nth (fun m => (m_kind m, WNone)) g empty_module i). fold (getm g i).
    destruct (esm_mod_facts i Hi) as [Hk _]. rewrite Hk. reflexivity.
  Qed.

  Lemma cget_init_out i : (length g <= i)%nat -> cget (init_state g) i = (ENone, WNone).
  Proof. intros Hi. unfold cget. apply nth_overflow. unfold init_state. rewrite map_length. exact Hi. Qed.

  Lemma classify_record_id r : r_kind r = KStmt -> (exists t, r_target r = Some t /\ (t < length g)%nat) ->
    classify_record g (init_state g) r = init_state g.
  Proof.
    intros Hk [t [Ht Hlt]]. unfold classify_record. rewrite Ht, (cget_init t Hlt), Hk. cbn. rewrite andb_false_r. reflexivity.
  Qed.

  Lemma classify_file_id fmt s : classify_file fmt g (init_state g) s = init_state g.
  Proof.
    unfold classify_file.
    assert (H : fold_left (classify_record g) (m_records (getm g s)) (init_state g) = init_state g).
    { destruct (Nat.lt_ge_cases s (length g)) as [Hs|Hs].
      - destruct (esm_mod_facts s Hs) as [_ Hr]. induction (m_records (getm g s)) as [|r l IH]; [reflexivity|].
        cbn [fold_left]. destruct (Hr r (or_introl eq_refl)) as [Hk Ht]. rewrite classify_record_id by assumption.
        apply IH. intros r' Hr'. apply Hr. right. exact Hr'.
      - destruct (records_out s Hs) as [-> _]. reflexivity. }
    rewrite H. destruct (Nat.lt_ge_cases s (length g)) as [Hs|Hs].
    - rewrite (cget_init s Hs). reflexivity.
    - rewrite (cget_init_out s Hs). reflexivity.
  Qed.

  Lemma classify_id fmt order : classify fmt g order = init_state g.
  Proof.
    unfold classify. induction order as [|s order IH]; [reflexivity|].
    cbn [fold_left]. rewrite classify_file_id. exact IH.
  Qed.

  (* hasDynamicExportsDueToExportStar finds nothing dynamic *)
  Lemma dyn_star_none keep fuel : forall s vis r,
    dyn_star fuel keep g s (init_state g) vis = Some r -> exists vis', r = (false, init_state g, vis').
  Proof.
    induction fuel as [|f IH]; intros s vis r H; [discriminate|].
    cbn [dyn_star] in H.
    destruct (Nat.lt_ge_cases s (length g)) as [Hs|Hs].
    - rewrite (cget_init s Hs) in H. cbn [ekind_eqb orb] in H.
      destruct (memn s vis); [inversion H; eauto|].
      destruct (esm_mod_facts s Hs) as [_ Hr].
      assert (Hloop : forall stars vis0 r0,
                 dyn_loop (dyn_star f keep g) keep (getm g s) s stars (init_state g) vis0 = Some r0 ->
                 exists vis', r0 = (false, init_state g, vis')).
      { induction stars as [|i rest IHl]; intros vis0 r0 H0; cbn [dyn_loop] in H0; [inversion H0; eauto|].
        unfold record_of in H0. destruct (nth_error (m_records (getm g s)) i) as [rc|] eqn:En; [|eapply IHl; eauto].
        destruct (Hr rc (nth_error_In _ _ En)) as [_ [t [Ht Hlt]]]. rewrite Ht in H0.
        destruct (Nat.eqb t s); [eapply IHl; eauto|].
        destruct (dyn_star f keep g t (init_state g) vis0) as [r1|] eqn:Ed; [|discriminate].
        destruct (IH _ _ _ Ed) as [vis1 ->]. eapply IHl; eauto. }
      eapply Hloop; eauto.
    - rewrite (cget_init_out s Hs) in H. cbn [ekind_eqb orb] in H.
      destruct (memn s vis); [inversion H; eauto|].
      destruct (records_out s Hs) as [_ Hst]. rewrite Hst in H. cbn [dyn_loop] in H. inversion H; eauto.
  Qed.

  Lemma wrap_file_id fuel keep did s ws' :
    wrap_file fuel keep g (Some (init_state g, did)) s = Some ws' -> ws' = (init_state g, did).
  Proof.
    unfold wrap_file. cbn [fst snd].
    assert (Hw : wkind_eqb (snd (cget (init_state g) s)) WNone = true).
    { destruct (Nat.lt_ge_cases s (length g)) as [Hs|Hs]; [rewrite (cget_init s Hs)|rewrite (cget_init_out s Hs)]; reflexivity. }
    rewrite Hw. intros H.
    assert (H2 : forall st2, match m_stars (getm g s) with
                   | [] => Some (init_state g)
                   | _ :: _ => match dyn_star fuel keep g s (init_state g) [] with
                               | Some (_, st', _) => Some st' | None => None end
                   end = Some st2 -> st2 = init_state g).
    { intros st2 E. destruct (m_stars (getm g s)); [inversion E; reflexivity|].
      destruct (dyn_star fuel keep g s (init_state g) []) as [r|] eqn:Ed; [|discriminate].
      destruct (dyn_star_none _ _ _ _ _ Ed) as [vis' ->]. inversion E; reflexivity. }
    destruct (match m_stars (getm g s) with
              | [] => Some (init_state g)
              | _ :: _ => match dyn_star fuel keep g s (init_state g) [] with
                          | Some (_, st', _) => Some st' | None => None end
              end) as [st2|] eqn:E2; [|discriminate].
    rewrite (H2 st2 eq_refl) in H.
    clear -H Hesm. revert H. generalize (all_targets (getm g s)). intros l.
    assert (Hf : forall l0 acc, acc = Some (init_state g, did) \/ acc = None ->
               fold_left (fun acc0 t => match acc0 with
                            | None => None
                            | Some ws'0 => if ekind_eqb (fst (cget (fst ws'0) t)) ECJS then wrap_deps fuel g t ws'0 else Some ws'0
                            end) l0 acc = acc).
    { induction l0 as [|t l0 IH]; intros acc Hacc; [reflexivity|]. cbn [fold_left].
      destruct Hacc as [->| ->].
      - cbn [fst]. assert (Hk : ekind_eqb (fst (cget (init_state g) t)) ECJS = false).
        { destruct (Nat.lt_ge_cases t (length g)) as [Ht|Ht]; [rewrite (cget_init t Ht)|rewrite (cget_init_out t Ht)]; reflexivity. }
        rewrite Hk. apply IH. left. reflexivity.
      - apply IH. right. reflexivity. }
    rewrite Hf by (left; reflexivity). intros H. inversion H. reflexivity.
  Qed.

  Lemma scan_esm_id fmt keep order st :
    scan_steps12 fmt keep g order = Some st -> st = init_state g.
  Proof.
    unfold scan_steps12. rewrite classify_id.
    assert (H : forall l acc, acc = Some (init_state g, []) \/ acc = None ->
              forall r, fold_left (wrap_file (S (length g)) keep g) l acc = Some r -> r = (init_state g, [])).
    { induction l as [|s l IH]; intros acc Hacc r Hr; cbn [fold_left] in Hr.
      - destruct Hacc as [->| ->]; [inversion Hr; reflexivity|discriminate].
      - destruct Hacc as [->| ->].
        + destruct (wrap_file (S (length g)) keep g (Some (init_state g, [])) s) as [ws1|] eqn:E.
          * rewrite (wrap_file_id _ _ _ _ _ E) in Hr. eapply IH; [left; reflexivity|exact Hr].
          * eapply IH; [right; reflexivity|exact Hr].
        + eapply IH; [right; reflexivity|exact Hr]. }
    destruct (fold_left (wrap_file (S (length g)) keep g) order (Some (init_state g, []))) as [[st' did]|] eqn:E; [|discriminate].
    intros Hs. inversion Hs; subst. specialize (H order _ (or_introl eq_refl) _ E). inversion H. reflexivity.
  Qed.

  Lemma scan_esm_kinds fmt keep order st i :
    scan_steps12 fmt keep g order = Some st -> (i < length g)%nat -> fst (cget st i) = EESM.
  Proof. intros H Hi. rewrite (scan_esm_id _ _ _ _ H), (cget_init i Hi). reflexivity. Qed.
End ScanEsm.

Lemma starfree_link_agree g rk order s ni v1 v2 :
  esm_graph g = true -> chain_scope g rk = true ->
  import_of g (s, ni_ref ni) = Some ni ->
  link_verdict g order s ni = Some v1 -> spec_verdict g s ni = Some v2 -> v1 = v2.
Proof.
  intros He Hs Hi Hl Hsp. unfold link_verdict in Hl.
  destruct (scan_steps12 true true g order) as [st|] eqn:Esc; [|discriminate].
  set (kinds := fun i => fst (cget st i)) in *.
  destruct (match_import g kinds (resolved_of g kinds) true (s, ni_ref ni)) as [[r ev]|] eqn:Em; [|discriminate].
  inversion Hl; subst v1. unfold spec_verdict in Hsp.
  destruct (spec_import g s ni) as [R|] eqn:ER; [|discriminate]. inversion Hsp; subst v2.
  eapply (starfree_agree g rk kinds Hs); eauto.
  intros i Hlt. unfold kinds. eapply scan_esm_kinds; eauto.
Qed.
