(* C02 model: how an ES-module entry point's exports reach the outside in the
   three output formats.

   Mirrors internal/linker/linker.go
   - createExportsForFile: "__export(exports, {alias: () => ...})" over
     SortedAndFilteredExportAliases and, for a cjs-format entry with
     ForceIncludeExportsForEntryPoint, "module.exports = __toCommonJS(exports)"
     (both in the namespace-export part, which runs first);
   - scanImportsAndExports step 6 / convertStmtsForChunk: an "export *" whose
     target has dynamic exports (CommonJS or ESM with dynamic fallback) becomes
     "__reExport(exports, source[, module.exports])", the third argument being
     present exactly for a cjs-format entry point;
   - generateEntryPointTailJS: "return __toCommonJS(exports)" (iife with a
     global name), "export { ... }" (esm);
   and internal/runtime/runtime.go __export / __reExport / __copyProps /
   __toCommonJS as operations on name sets (property VALUES are getters onto
   the same bindings in every format and are not modelled).
   Executable definitions only. *)
From V Require Import Common.Base.

Inductive oformat := FEsm | FCjs | FIife (global_name : bool).

Inductive xstmt :=
| XExport (names : list Z)              (* __export(exports, { names }) *)
| XAssignModuleExports                  (* module.exports = __toCommonJS(exports) *)
| XReExport (src : nat) (second : bool) (* __reExport(exports, src[, module.exports]) *)
| XReturnToCJS                          (* return __toCommonJS(exports) *)
| XExportClause (names : list Z).       (* export { names } *)

Definition is_cjs (f : oformat) : bool := match f with FCjs => true | _ => false end.

(* ForceIncludeExportsForEntryPoint (Link): export keyword present and cjs, or iife with a global name *)
Definition force_exports (f : oformat) (export_kw : bool) : bool :=
  export_kw && match f with FCjs => true | FIife g => g | FEsm => false end.

(* statements that decide the entry's external exports, in execution order:
   [aliases] = SortedAndFilteredExportAliases, [dyn] = the export-star records evaluated at run time *)
Definition entry_stmts (f : oformat) (export_kw : bool) (aliases : list Z) (dyn : list nat) : list xstmt :=
  (match aliases with [] => [] | _ => [XExport aliases] end)
  ++ (if force_exports f export_kw && is_cjs f then [XAssignModuleExports] else [])
  ++ map (fun s => XReExport s (is_cjs f)) dyn
  ++ match f with
     | FIife _ => if force_exports f export_kw then [XReturnToCJS] else []
     | FEsm => match aliases with [] => [] | _ => [XExportClause aliases] end
     | FCjs => []
     end.

(* ---- run-time meaning on name sets ---- *)
Record xstate := mkX {
  x_exports : list Z;                   (* own property names of the internal exports object *)
  x_module : option (list Z);           (* names of module.exports once assigned *)
  x_returned : option (list Z);         (* names of the object the iife returns *)
  x_clause : list Z                     (* names of the ES export clause *)
}.

Definition memz (a : Z) (l : list Z) : bool := existsb (Z.eqb a) l.

(* __copyProps(to, from, "default"): every own name of from except "default" (0) that to lacks *)
Definition copy_props (to from : list Z) : list Z :=
  fold_left (fun acc k => if (k =? 0) || memz k acc then acc else acc ++ [k]) from to.

(* __export(target, all): defines every name of the table *)
Definition copy_all (ns to : list Z) : list Z := fold_left (fun acc k => if memz k acc then acc else acc ++ [k]) ns to.

Definition xstep (names_of : nat -> list Z) (st : xstate) (s : xstmt) : xstate :=
  match s with
  | XExport ns => mkX (copy_all ns (x_exports st)) (x_module st) (x_returned st) (x_clause st)
  | XAssignModuleExports => mkX (x_exports st) (Some (x_exports st)) (x_returned st) (x_clause st)
  | XReExport src second =>
    mkX (copy_props (x_exports st) (names_of src))
        (if second then option_map (fun m => copy_props m (names_of src)) (x_module st) else x_module st)
        (x_returned st) (x_clause st)
  | XReturnToCJS => mkX (x_exports st) (x_module st) (Some (x_exports st)) (x_clause st)
  | XExportClause ns => mkX (x_exports st) (x_module st) (x_returned st) ns
  end.

Definition run_entry (names_of : nat -> list Z) (l : list xstmt) : xstate :=
  fold_left (xstep names_of) l (mkX [] None None []).

(* what the outside sees: an importer of the esm bundle, a requirer of the cjs bundle, the global name of the iife *)
Definition external_names (f : oformat) (st : xstate) : list Z :=
  match f with
  | FEsm => x_clause st
  | FCjs => match x_module st with Some m => m | None => [] end
  | FIife _ => match x_returned st with Some m => m | None => [] end
  end.

Definition exported_names (names_of : nat -> list Z) (f : oformat) (export_kw : bool) (aliases : list Z) (dyn : list nat) : list Z :=
  external_names f (run_entry names_of (entry_stmts f export_kw aliases dyn)).

(* ---- the interop flag of __toESM ---- *)
(* js_printer.printRequireOrImportExpr prints "__toESM(require_x(), 1)" (isNodeMode) exactly when the
   importing file is ESM-typed (p.moduleType.IsESM(): .mjs/.mts or package.json "type": "module"),
   whatever the form of the import (import statement with or without default / namespace, import()) *)
Inductive import_form := IFStatement (star_or_default : bool) | IFDynamic.
Definition to_esm_node_mode (importer_esm_typed : bool) (form : import_form) : bool := importer_esm_typed.

(* runtime.go __toESM: what "default" of the namespace is, for a CommonJS module with or without
   the __esModule marker *)
Inductive default_value := ModuleExports | ExportsDefault.
Definition to_esm_default (node_mode has_marker : bool) : default_value :=
  if node_mode || negb has_marker then ModuleExports else ExportsDefault.
(* node: the default export of a CommonJS module is always module.exports *)
Definition native_default : default_value := ModuleExports.
