(* The hits that addExportsForExportStar collects for an alias denote exactly the candidate
   bindings of the set-free denotation, and ResolvedExports is their fold. *)
From V Require Import Common.Base C02.Graph C02.SpecESM C02.Wrap C02.Resolve C02.ResolveSpec C02.ResolveDen
  C02.SpecDenProofs C02.StarHitsProofs C02.ResolveChainProofs.

Section StarDen.
  Variable g : graph.
  Variable rk : list nat.
  Hypothesis Hrk : ranked_all g rk = true.
  Let rank := rank_of rk.
  Variable kinds : nat -> ekind.
  Hypothesis Hkinds : forall i, ekind_eqb (kinds i) ECJS = false.
  Hypothesis Hunique : forall i, aliases_unique (getm g i).
  Notation D := (den g rk).

  Definition entry_cands (t ref : nat) : list cand :=
    match entry_of (getm g t) ref with
    | XLocal r => [(t, BName r)]
    | XIndirectAll u => [(u, BNamespace)]
    | XIndirect u n => D u n
    | XBroken => []
    end.
  Definition hit_cands (h : hit) : list cand := entry_cands (fst h) (snd h).

  Lemma has_export_find m a : has_export m a = match find_export a (m_exports m) with Some _ => true | None => false end.
  Proof.
    unfold has_export. induction (m_exports m) as [|[b r] l IH]; cbn [existsb find_export fst]; [reflexivity|].
    destruct (b =? a); [reflexivity|exact IH].
  Qed.

  Lemma shadowed_app a s1 s2 : shadowed g a (s1 ++ s2) = shadowed g a s1 || shadowed g a s2.
  Proof. unfold shadowed. apply existsb_app. Qed.

  Lemma hits_shadowed a : forall f s stack, shadowed g a (stack ++ [s]) = true -> hits g f a s stack = [].
  Proof.
    induction f as [|f IH]; intros s stack Hsh; [reflexivity|]. cbn [hits]. destruct (memn s stack); [reflexivity|].
    induction (m_stars (getm g s)) as [|i l IHl]; [reflexivity|]. cbn [flat_map]. rewrite IHl, app_nil_r.
    destruct (record_of (getm g s) i) as [r|]; [|reflexivity]. destruct (r_target r) as [t|]; [|reflexivity].
    unfold own_hit. rewrite Hsh, orb_true_r. cbn [app]. apply IH. rewrite shadowed_app, Hsh. reflexivity.
  Qed.

  Lemma star_targets_cons m i l :
    flat_map (fun i0 => match nth_error (m_records m) i0 with
                        | Some r => match r_target r with Some t => [t] | None => [] end
                        | None => [] end) (i :: l)
    = (match nth_error (m_records m) i with
       | Some r => match r_target r with Some t => [t] | None => [] end
       | None => [] end) ++
      flat_map (fun i0 => match nth_error (m_records m) i0 with
                          | Some r => match r_target r with Some t => [t] | None => [] end
                          | None => [] end) l.
  Proof. reflexivity. Qed.

  Lemma hits_den a : a <> 0 -> forall f s stack,
    (rank s < f)%nat -> shadowed g a (stack ++ [s]) = false -> (forall q, In q stack -> (rank q > rank s)%nat) ->
    flat_map hit_cands (hits g f a s stack) = flat_map (fun t => D t a) (star_targets (getm g s)).
  Proof.
    intros Ha. induction f as [|f IH]; intros s stack Hf Hsh Hst; [lia|].
    cbn [hits].
    assert (Hm : memn s stack = false).
    { destruct (memn s stack) eqn:E; [|reflexivity]. apply memn_In in E. specialize (Hst s E). lia. }
    rewrite Hm.
    assert (Hedge : forall t, In t (star_targets (getm g s)) -> (rank t < rank s)%nat) by (apply (star_edge g rk Hrk)).
    unfold star_targets in *. revert Hedge.
    induction (m_stars (getm g s)) as [|i l IHl]; intros Hedge; [reflexivity|].
    rewrite star_targets_cons. cbn [flat_map]. rewrite !flat_map_app.
    rewrite IHl by (intros t Ht; apply Hedge; rewrite star_targets_cons; apply in_or_app; right; exact Ht).
    f_equal. unfold record_of.
    destruct (nth_error (m_records (getm g s)) i) as [r|] eqn:En; [|reflexivity].
    destruct (r_target r) as [t|] eqn:Et; [|reflexivity].
    cbn [flat_map]. rewrite app_nil_r, flat_map_app.
    assert (Hrt : (rank t < rank s)%nat).
    { apply Hedge. rewrite star_targets_cons, En, Et. left. reflexivity. }
    rewrite (den_unfold g rk Hrk t a).
    unfold own_hit. replace (a =? 0) with false by lia. rewrite Hsh. cbn [orb].
    destruct (find_export a (m_exports (getm g t))) as [ref|] eqn:Ef.
    - rewrite hits_shadowed.
      + cbn [flat_map]. rewrite !app_nil_r. reflexivity.
      + rewrite shadowed_app. unfold shadowed at 2. cbn [existsb]. rewrite has_export_find, Ef. cbn. apply orb_true_r.
    - replace (a =? 0) with false by lia. cbn [flat_map app].
      apply IH.
      + unfold rank in *. lia.
      + rewrite shadowed_app, Hsh. unfold shadowed. cbn [existsb]. rewrite has_export_find, Ef. reflexivity.
      + intros q Hq. apply in_app_or in Hq as [Hq|[<-|[]]]; [specialize (Hst q Hq); lia|lia].
  Qed.

  Lemma add_stars_some : forall f res s stack,
    (rank s < f)%nat -> (forall q, In q stack -> (rank q > rank s)%nat) ->
    exists res', add_stars f g kinds res s stack = Some res'.
  Proof.
    induction f as [|f IH]; intros res s stack Hf Hst; [lia|].
    cbn [add_stars]. destruct (memn s stack); [eauto|].
    assert (Hedge : forall t, In t (star_targets (getm g s)) -> (rank t < rank s)%nat) by (apply (star_edge g rk Hrk)).
    unfold star_targets in Hedge. revert res Hedge.
    induction (m_stars (getm g s)) as [|i l IHl]; intros res Hedge; [cbn; eauto|].
    cbn [fold_left]. unfold record_of.
    destruct (nth_error (m_records (getm g s)) i) as [r|] eqn:En.
    - destruct (r_target r) as [t|] eqn:Et.
      + rewrite Hkinds.
        assert (Hrt : (rank t < rank s)%nat).
        { apply Hedge. rewrite star_targets_cons, En, Et. left. reflexivity. }
        destruct (IH (fold_left (add_one g (stack ++ [s]) t) (m_exports (getm g t)) res) t (stack ++ [s])) as [res1 E1].
        * unfold rank in *. lia.
        * intros q Hq. apply in_app_or in Hq as [Hq|[<-|[]]]; [specialize (Hst q Hq); lia|lia].
        * rewrite E1. apply IHl. intros t0 Ht0. apply Hedge. rewrite star_targets_cons. apply in_or_app. right. exact Ht0.
      + apply IHl. intros t0 Ht0. apply Hedge. rewrite star_targets_cons, En, Et. exact Ht0.
    - apply IHl. intros t0 Ht0. apply Hedge. rewrite star_targets_cons, En. exact Ht0.
  Qed.

  (* ResolvedExports[alias] of file o *)
  Lemma resolved_look o a :
    m_lazy (getm g o) = false ->
    ed_lookup a (resolved_of g kinds o) =
    match find_export a (m_exports (getm g o)) with
    | Some ref => Some (mkEd a o ref [])
    | None => fold_hits a None (hits g (S (length g)) a o [])
    end.
  Proof.
    intros Hlazy. unfold resolved_of, resolved_exports.
    assert (H0 : ed_lookup a (resolved0 g kinds o) = option_map (fun r => mkEd a o r []) (find_export a (m_exports (getm g o)))).
    { unfold resolved0. rewrite Hlazy. cbn [andb]. rewrite app_nil_r. apply lookup_map_exports. }
    destruct (m_stars (getm g o)) as [|i0 l0] eqn:Es.
    - rewrite H0. cbn [hits]. rewrite Es. cbn [flat_map memn]. destruct (find_export a (m_exports (getm g o))); reflexivity.
    - destruct (Nat.lt_ge_cases o (length g)) as [Ho|Ho].
      2:{ unfold getm in Es. rewrite nth_overflow in Es by exact Ho. discriminate. }
      destruct (ranked_mod g rk Hrk o Ho) as [Hr _].
      destruct (add_stars_some (S (length g)) (resolved0 g kinds o) o []) as [res' E].
      + unfold rank in *. lia.
      + intros q [].
      + rewrite E. rewrite (add_stars_look g kinds Hkinds Hunique a _ _ _ _ _ E), H0.
        destruct (find_export a (m_exports (getm g o))) as [ref|] eqn:Ef; cbn [option_map]; [|reflexivity].
        rewrite hits_shadowed; [reflexivity|].
        unfold shadowed. cbn [app existsb]. rewrite has_export_find, Ef. reflexivity.
  Qed.

  (* the hits recorded for a star-provided alias denote exactly the candidates of the denotation *)
  Lemma star_hits_den o a :
    a <> 0 -> find_export a (m_exports (getm g o)) = None ->
    flat_map hit_cands (hits g (S (length g)) a o []) = D o a.
  Proof.
    intros Ha Hf. rewrite (den_unfold g rk Hrk o a), Hf. replace (a =? 0) with false by lia.
    destruct (Nat.lt_ge_cases o (length g)) as [Ho|Ho].
    - destruct (ranked_mod g rk Hrk o Ho) as [Hr _]. apply hits_den.
      + exact Ha.
      + unfold rank. apply Nat.lt_lt_succ_r. exact Hr.
      + unfold shadowed. cbn [app existsb]. rewrite has_export_find, Hf. reflexivity.
      + intros q [].
    - cbn [hits memn]. unfold star_targets, getm. rewrite nth_overflow by exact Ho. reflexivity.
  Qed.
End StarDen.
