(* C02 specification, written from ECMA-262 (2023) 16.2.1, independent of
   esbuild's code.

   Evaluation order (16.2.1.5.3.1 InnerModuleEvaluation, modules without
   top-level await, no evaluation errors): the Cyclic Module Record fields
   [[Status]], [[DFSIndex]], [[DFSAncestorIndex]], the stack and the index are
   kept as in the standard; ExecuteModule appends the module to the log.
   [[RequestedModules]] is the list of distinct module requests in source
   order (ModuleRequests removes duplicates).

   Export resolution (16.2.1.6.2 GetExportedNames, 16.2.1.6.3 ResolveExport)
   over Source Text Module Records given by their [[LocalExportEntries]],
   [[IndirectExportEntries]] and [[StarExportEntries]]. *)
From V Require Import Common.Base C02.Graph.

(* ---------- evaluation order ---------- *)
Inductive mstatus := Linked | Evaluating | Evaluated.

Record estate := mkE {
  e_status : list (nat * mstatus);     (* association list, default Linked *)
  e_dfs : list (nat * (nat * nat));    (* [[DFSIndex]], [[DFSAncestorIndex]] *)
  e_stack : list nat;
  e_log : list nat                     (* ExecuteModule calls, in order *)
}.

Fixpoint assoc {A} (k : nat) (l : list (nat * A)) : option A :=
  match l with
  | [] => None
  | (k', v) :: r => if Nat.eqb k k' then Some v else assoc k r
  end.

Definition status_of (e : estate) (m : nat) : mstatus :=
  match assoc m (e_status e) with Some s => s | None => Linked end.
Definition anc_of (e : estate) (m : nat) : nat :=
  match assoc m (e_dfs e) with Some (_, a) => a | None => 0%nat end.
Definition dfs_of (e : estate) (m : nat) : nat :=
  match assoc m (e_dfs e) with Some (d, _) => d | None => 0%nat end.
Definition set_status (e : estate) (m : nat) (s : mstatus) : estate :=
  mkE ((m, s) :: e_status e) (e_dfs e) (e_stack e) (e_log e).
Definition set_anc (e : estate) (m : nat) (a : nat) : estate :=
  mkE (e_status e) ((m, (dfs_of e m, a)) :: e_dfs e) (e_stack e) (e_log e).

(* [[RequestedModules]]: distinct requests in source order *)
Fixpoint dedup (l : list nat) (seen : list nat) : list nat :=
  match l with
  | [] => []
  | x :: r => if memn x seen then dedup r seen else x :: dedup r (x :: seen)
  end.
Definition requested (g : graph) (m : nat) : list nat := dedup (stmt_targets (getm g m)) [].

(* step 16: pop the stack down to and including [m], marking evaluated *)
Fixpoint pop_until (m : nat) (stack : list nat) (st : list (nat * mstatus)) : list nat * list (nat * mstatus) :=
  match stack with
  | [] => ([], st)
  | x :: r => if Nat.eqb x m then (r, (x, Evaluated) :: st) else pop_until m r ((x, Evaluated) :: st)
  end.

Fixpoint inner_eval (fuel : nat) (g : graph) (m : nat) (es : estate * nat) : option (estate * nat) :=
  match fuel with
  | O => None
  | S f =>
    let '(e, index) := es in
    match status_of e m with
    | Evaluated => Some es                       (* step 2 *)
    | Evaluating => Some es                      (* step 3 *)
    | Linked =>
      (* steps 5-10 *)
      let e1 := mkE ((m, Evaluating) :: e_status e) ((m, (index, index)) :: e_dfs e) (m :: e_stack e) (e_log e) in
      (* step 11 *)
      let r := fold_left (fun acc req =>
                 match acc with
                 | None => None
                 | Some (e', idx') =>
                   match inner_eval f g req (e', idx') with
                   | None => None
                   | Some (e'', idx'') =>
                     (* 11.d.iv: if required is still evaluating, lower the ancestor index *)
                     match status_of e'' req with
                     | Evaluating => Some (set_anc e'' m (Nat.min (anc_of e'' m) (anc_of e'' req)), idx'')
                     | _ => Some (e'', idx'')
                     end
                   end
                 end) (requested g m) (Some (e1, S index)) in
      match r with
      | None => None
      | Some (e2, idx2) =>
        (* step 13: ExecuteModule *)
        let e3 := mkE (e_status e2) (e_dfs e2) (e_stack e2) (e_log e2 ++ [m]) in
        (* step 16 *)
        if Nat.eqb (anc_of e3 m) (dfs_of e3 m) then
          let '(stk, sts) := pop_until m (e_stack e3) (e_status e3) in
          Some (mkE sts (e_dfs e3) stk (e_log e3), idx2)
        else Some (e3, idx2)
      end
    end
  end.

(* Evaluate() of the entry module: the sequence of module bodies executed *)
Definition spec_eval_order (g : graph) (entry : nat) : option (list nat) :=
  match inner_eval (S (length g)) g entry (mkE [] [] [] [], 0%nat) with
  | Some (e, _) => Some (e_log e)
  | None => None
  end.

(* ---------- export resolution ---------- *)
(* Source Text Module Record fields read off the syntax-level module record:
   an export alias whose local name is an imported binding is an indirect
   export entry (16.2.1.6 ParseModule step 10.a.ii.2-3); an imported namespace
   that is re-exported ("export * as ns from") resolves to the namespace of
   the requested module. *)
Inductive binding := BName (ref : nat) | BNamespace.
Inductive resolution := RNull | RAmbiguous | RBinding (m : nat) (b : binding).

Definition binding_eqb (a b : binding) : bool :=
  match a, b with
  | BName x, BName y => Nat.eqb x y
  | BNamespace, BNamespace => true
  | _, _ => false
  end.

Inductive export_entry :=
| XLocal (ref : nat)
| XIndirect (target : nat) (import_name : Z)
| XIndirectAll (target : nat)          (* export * as ns from *)
| XBroken.                             (* the module request did not resolve to a module of the graph *)

Fixpoint find_imp (ref : nat) (l : list nimport) : option nimport :=
  match l with
  | [] => None
  | i :: r => if Nat.eqb (ni_ref i) ref then Some i else find_imp ref r
  end.

Definition entry_of (m : module) (ref : nat) : export_entry :=
  match find_imp ref (m_imports m) with
  | None => XLocal ref
  | Some ni =>
    match nth_error (m_records m) (ni_record ni) with
    | Some r => match r_target r with
                | Some t => if ni_is_star ni then XIndirectAll t else XIndirect t (ni_alias ni)
                | None => XBroken
                end
    | None => XBroken
    end
  end.

Fixpoint find_export (name : Z) (l : list (Z * nat)) : option nat :=
  match l with
  | [] => None
  | (a, r) :: rest => if a =? name then Some r else find_export name rest
  end.

Definition star_targets (m : module) : list nat :=
  flat_map (fun i => match nth_error (m_records m) i with
                     | Some r => match r_target r with Some t => [t] | None => [] end
                     | None => [] end) (m_stars m).

Definition rs_mem (m : nat) (name : Z) (rs : list (nat * Z)) : bool :=
  existsb (fun p => Nat.eqb (fst p) m && (snd p =? name)) rs.

(* ResolveExport(exportName, resolveSet); the resolve set is threaded because
   the standard mutates one shared List *)
Fixpoint spec_resolve (fuel : nat) (g : graph) (m : nat) (name : Z) (rs : list (nat * Z))
  : option (resolution * list (nat * Z)) :=
  match fuel with
  | O => None
  | S f =>
    if rs_mem m name rs then Some (RNull, rs) else            (* step 3: circular import request *)
    let rs1 := rs ++ [(m, name)] in                           (* step 4 *)
    let md := getm g m in
    match find_export name (m_exports md) with
    | Some ref =>
      match entry_of md ref with
      | XLocal r => Some (RBinding m (BName r), rs1)          (* step 5 *)
      | XIndirectAll t => Some (RBinding t BNamespace, rs1)   (* step 6.a.iii *)
      | XIndirect t n => spec_resolve f g t n rs1             (* step 6.a.iv *)
      | XBroken => Some (RNull, rs1)
      end
    | None =>
      if name =? 0 then Some (RNull, rs1) else                (* step 7: "default" is never star-exported *)
      (fix stars (l : list nat) (star_res : resolution) (rs : list (nat * Z)) : option (resolution * list (nat * Z)) :=
         match l with
         | [] => Some (star_res, rs)                          (* step 10 *)
         | t :: rest =>
           match spec_resolve f g t name rs with
           | None => None
           | Some (RAmbiguous, rs') => Some (RAmbiguous, rs')  (* step 9.c *)
           | Some (RNull, rs') => stars rest star_res rs'
           | Some (RBinding rm rb, rs') =>
             match star_res with
             | RBinding sm sb =>
               if Nat.eqb rm sm && binding_eqb rb sb then stars rest star_res rs'
               else Some (RAmbiguous, rs')                    (* step 9.d.ii *)
             | _ => stars rest (RBinding rm rb) rs'
             end
           end
         end) (star_targets md) RNull rs1
    end
  end.

Definition total_exports (g : graph) : nat :=
  fold_right (fun m n => (length (m_exports m) + length (m_imports m) + n)%nat) 0%nat g.

(* enough for every (module, name) pair that can enter the resolve set *)
Definition resolve_fuel (g : graph) : nat := S (S (length g * S (total_exports g))).

Definition spec_resolve_export (g : graph) (m : nat) (name : Z) : option resolution :=
  match spec_resolve (resolve_fuel g) g m name [] with
  | Some (r, _) => Some r
  | None => None
  end.

(* GetExportedNames(exportStarSet) *)
Fixpoint spec_exported_names (fuel : nat) (g : graph) (m : nat) (ess : list nat) : option (list Z * list nat) :=
  match fuel with
  | O => None
  | S f =>
    if memn m ess then Some ([], ess) else                    (* step 3 *)
    let ess1 := ess ++ [m] in
    let md := getm g m in
    let own := map fst (m_exports md) in                      (* steps 6-7 *)
    (fix stars (l : list nat) (names : list Z) (ess : list nat) : option (list Z * list nat) :=
       match l with
       | [] => Some (names, ess)
       | t :: rest =>
         match spec_exported_names f g t ess with
         | None => None
         | Some (sn, ess') =>
           let add := fold_left (fun acc n =>
                        if (n =? 0) || existsb (Z.eqb n) acc then acc else acc ++ [n]) sn names in
           stars rest add ess'
         end
       end) (star_targets md) own ess1
  end.

(* the binding an import entry of module [m] denotes: 16.2.1.6.4 InitializeEnvironment step 7 *)
Definition spec_import (g : graph) (m : nat) (ni : nimport) : option resolution :=
  match nth_error (m_records (getm g m)) (ni_record ni) with
  | Some r =>
    match r_target r with
    | Some t => if ni_is_star ni then Some (RBinding t BNamespace) else spec_resolve_export g t (ni_alias ni)
    | None => Some RNull
    end
  | None => Some RNull
  end.
