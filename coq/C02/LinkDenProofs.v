(* matchImportWithExport over export-star hits: the all-results-equal test amounts to
   classifying the candidate denotation.  Together with SpecDenProofs and StarDenProofs this
   gives the unbounded equivalence with ECMA-262 ResolveExport on ranked graphs. *)
From V Require Import Common.Base C02.Graph C02.SpecESM C02.Wrap C02.Resolve C02.ResolveSpec C02.ResolveDen
  C02.SpecDenProofs C02.StarHitsProofs C02.StarDenProofs C02.ResolveChainProofs.

Definition amb0 : mres := mkRes MAmbiguous (-1) None 0 0 0.
Definition check (A : list mres) (r : mres) : mres := if existsb (fun a => negb (mres_eqb a r)) A then amb0 else r.

Lemma finish_check res A ev : finish res A ev = (check A res, ev).
Proof. unfold finish, check. destruct (existsb (fun a => negb (mres_eqb a res)) A); reflexivity. Qed.

Definition normal_of (g : graph) (y : cand) (L : Z) : mres :=
  mkRes MNormal (-1) None (fst y) (bref g (fst y) (snd y)) L.

(* a result summarises a list of candidates *)
Definition Elem (g : graph) (r : mres) (C : list cand) : Prop :=
  (r = amb0 /\ exists y1 y2, In y1 C /\ In y2 C /\ y1 <> y2) \/
  (exists y L, r = normal_of g y L /\ In y C /\ forall y', In y' C -> y' = y).

Definition Sum (g : graph) (C : list cand) (rp : mres) (N : list mres) : Prop :=
  (exists y L, rp = normal_of g y L /\ In y C) /\
  (forall r, In r N -> exists C', incl C' C /\ Elem g r C') /\
  (forall y, In y C -> (exists L, rp = normal_of g y L) \/ exists r C', In r N /\ In y C' /\ incl C' C /\ Elem g r C').

Section Inj.
  Variable g : graph.
  (* no export entry names the exports object itself *)
  Hypothesis Hnoref : forall m p, In p (m_exports (getm g m)) -> snd p <> m_exports_ref (getm g m).

  (* candidates that can occur: a BName candidate is a ref of an export entry of its file *)
  Definition cand_ok (y : cand) : Prop :=
    match snd y with BName r => r <> m_exports_ref (getm g (fst y)) | BNamespace => True end.

  Lemma normal_eqb y y' L L' : cand_ok y -> cand_ok y' ->
    mres_eqb (normal_of g y L) (normal_of g y' L') = true -> y = y'.
  Proof.
    destruct y as [m b], y' as [m' b']. unfold cand_ok, normal_of, mres_eqb. cbn [fst snd mr_kind mr_alias mr_ns mr_src mr_ref mkind_eqb option_eqb].
    intros H1 H2 H. repeat (apply andb_true_iff in H as [H ?]).
    apply Nat.eqb_eq in H3. apply Nat.eqb_eq in H0. subst m'.
    destruct b as [r|], b' as [r'|]; cbn [bref] in *; try congruence.
  Qed.

  Lemma normal_eqb_refl y L L' : mres_eqb (normal_of g y L) (normal_of g y L') = true.
  Proof. unfold normal_of, mres_eqb. cbn. rewrite !Nat.eqb_refl. reflexivity. Qed.

  Lemma amb0_not_normal y L : mres_eqb amb0 (normal_of g y L) = false.
  Proof. reflexivity. Qed.
  Lemma normal_not_amb0 y L : mres_eqb (normal_of g y L) amb0 = false.
  Proof. reflexivity. Qed.

  Lemma Sum_check C rp N : (forall y, In y C -> cand_ok y) -> Sum g C rp N -> Elem g (check N rp) C.
  Proof.
    intros Hok [[y0 [L0 [Hrp Hy0]]] [HN Hcov]]. unfold check.
    destruct (existsb (fun a => negb (mres_eqb a rp)) N) eqn:E.
    - left. split; [reflexivity|]. apply existsb_exists in E as [r [Hr Hne]]. apply negb_true_iff in Hne.
      destruct (HN r Hr) as [C' [Hinc [[-> [y1 [y2 [H1 [H2 H12]]]]]|[y [L [-> [Hy Hall]]]]]]].
      + exists y1, y2. auto.
      + exists y, y0. split; [apply Hinc; exact Hy|]. split; [exact Hy0|].
        intro Heq. subst y. rewrite Hrp, normal_eqb_refl in Hne. discriminate.
    - right. exists y0, L0. split; [exact Hrp|]. split; [exact Hy0|].
      intros y' Hy'. destruct (Hcov y' Hy') as [[L Hrp']|[r [C' [Hr [Hy'C [Hinc He]]]]]].
      + rewrite Hrp in Hrp'. apply (normal_eqb y' y0 L L0); auto. rewrite Hrp'. apply normal_eqb_refl.
      + assert (Heq : mres_eqb r rp = true).
        { destruct (mres_eqb r rp) eqn:E2; [reflexivity|]. exfalso.
          assert (existsb (fun a => negb (mres_eqb a rp)) N = true) by (apply existsb_exists; exists r; rewrite E2; auto). congruence. }
        destruct He as [[-> _]|[y [L [-> [Hy Hall]]]]].
        * rewrite Hrp, amb0_not_normal in Heq. discriminate.
        * rewrite Hrp in Heq. rewrite (Hall y' Hy'C). apply (normal_eqb y y0 L L0); auto.
  Qed.

  Lemma Elem_classify r C : (forall y, In y C -> cand_ok y) -> Elem g r C ->
    (r = amb0 /\ classify_cands C = RAmbiguous) \/ (exists y L, r = normal_of g y L /\ classify_cands C = RBinding (fst y) (snd y)).
  Proof.
    intros _ [[-> [y1 [y2 [H1 [H2 H12]]]]]|[y [L [-> [Hy Hall]]]]].
    - left. split; [reflexivity|]. destruct C as [|c l]; [contradiction|]. cbn [classify_cands].
      destruct (forallb (cand_eqb c) l) eqn:E; [|reflexivity]. exfalso. rewrite forallb_forall in E.
      assert (Ha : forall z, In z (c :: l) -> z = c).
      { intros z [<-|Hz]; [reflexivity|]. symmetry. apply cand_eqb_eq. apply E. exact Hz. }
      apply H12. rewrite (Ha y1 H1), (Ha y2 H2). reflexivity.
    - right. exists y, L. split; [reflexivity|]. destruct C as [|c l]; [contradiction|]. cbn [classify_cands].
      rewrite (Hall c (or_introl eq_refl)). rewrite forallb_cand_all; [reflexivity|]. intros z Hz. apply Hall. right. exact Hz.
  Qed.
End Inj.

Section Link.
  Variable g : graph.
  Variable rk : list nat.
  Variable kinds : nat -> ekind.
  Hypothesis Hrk : ranked_all g rk = true.
  Hypothesis HkindsE : forall i, (i < length g)%nat -> kinds i = EESM.
  Hypothesis HkindsC : forall i, ekind_eqb (kinds i) ECJS = false.
  Hypothesis Hplain : plain_modules g = true.
  Hypothesis Hnamed : named_targets_export g = true.
  Hypothesis Hunique : forall i, aliases_unique (getm g i).
  Hypothesis Hnoref : forall m p, In p (m_exports (getm g m)) -> snd p <> m_exports_ref (getm g m).
  Hypothesis Hlink : forall m a ref u n,
    find_export a (m_exports (getm g m)) = Some ref -> entry_of (getm g m) ref = XIndirect u n -> den g rk u n <> [].
  Let rank := rank_of rk.
  Let resolved := resolved_of g kinds.
  Notation D := (den g rk).
  Notation HC := (hit_cands g rk).

  Lemma plain' o :
    m_lazy (getm g o) = false /\ m_is_ts (getm g o) = false /\
    (forall ni, In ni (m_imports (getm g o)) -> ni_generated ni = false) /\
    (forall ni, In ni (m_imports (getm g o)) -> exists t, import_target (getm g o) ni = Some t /\ (t < length g)%nat) /\
    (forall ni, In ni (m_imports (getm g o)) -> ni_ref ni <> m_exports_ref (getm g o)).
  Proof.
    pose proof Hplain as Hp. unfold plain_modules in Hp.
    pose proof (getm_forallb _ g o Hp eq_refl) as Ho. cbn beta in Ho.
    apply andb_true_iff in Ho as [Ho He]. apply andb_true_iff in Ho as [Ho Hd].
    apply andb_true_iff in Ho as [Ho Hc]. apply andb_true_iff in Ho as [Ha Hb].
    repeat split.
    - destruct (m_lazy (getm g o)); [discriminate|reflexivity].
    - destruct (m_is_ts (getm g o)); [discriminate|reflexivity].
    - intros ni Hin. rewrite forallb_forall in Hc. specialize (Hc ni Hin). destruct (ni_generated ni); [discriminate|reflexivity].
    - intros ni Hin. rewrite forallb_forall in Hd. specialize (Hd ni Hin).
      destruct (import_target (getm g o) ni) as [t|]; [|discriminate]. exists t. split; [reflexivity|apply Nat.ltb_lt; exact Hd].
    - intros ni Hin Heq. apply negb_true_iff in He.
      assert (existsb (fun ni0 => Nat.eqb (ni_ref ni0) (m_exports_ref (getm g o))) (m_imports (getm g o)) = true).
      { apply existsb_exists. exists ni. split; [exact Hin|apply Nat.eqb_eq; exact Heq]. }
      congruence.
  Qed.

  Lemma named_kw' o ni t :
    In ni (m_imports (getm g o)) -> ni_is_star ni = false -> import_target (getm g o) ni = Some t ->
    ni_alias ni = 0 \/ m_export_kw (getm g t) = true.
  Proof.
    intros Hin Hs Ht.
    pose proof Hnamed as Hp. unfold named_targets_export in Hp.
    pose proof (getm_forallb _ g o Hp eq_refl) as Ho. cbn beta in Ho.
    rewrite forallb_forall in Ho. specialize (Ho ni Hin). rewrite Hs in Ho. cbn [orb] in Ho.
    destruct (ni_alias ni =? 0) eqn:E; [left; lia|right].
    cbn [orb] in Ho. unfold import_target in Ht.
    destruct (nth_error (m_records (getm g o)) (ni_record ni)) as [r|]; [|discriminate].
    rewrite Ht in Ho. exact Ho.
  Qed.

  Lemma import_of_In' t ni : import_of g t = Some ni -> In ni (m_imports (getm g (fst t))) /\ ni_ref ni = snd t.
  Proof.
    unfold import_of. rewrite find_import_imp. generalize (m_imports (getm g (fst t))).
    induction l as [|i l IH]; cbn; [discriminate|].
    destruct (Nat.eqb (ni_ref i) (snd t)) eqn:E.
    - intros H; inversion H; subst. split; [left; reflexivity|apply Nat.eqb_eq; exact E].
    - intros H. destruct (IH H). split; [right|]; assumption.
  Qed.

  (* every candidate of the denotation is well formed *)
  Lemma cands_ok : forall k m name y, In y (cands k g m name) -> cand_ok g y.
  Proof.
    induction k as [|k IH]; intros m name y Hy; [contradiction|]. cbn [cands] in Hy.
    destruct (find_export name (m_exports (getm g m))) as [ref|] eqn:Ef.
    - unfold entry_of in Hy. destruct (find_imp ref (m_imports (getm g m))) as [ni|] eqn:Ei.
      + destruct (nth_error (m_records (getm g m)) (ni_record ni)) as [r|]; [|contradiction].
        destruct (r_target r) as [t|]; [|contradiction]. destruct (ni_is_star ni).
        * destruct Hy as [<-|[]]. exact I.
        * eapply IH; eauto.
      + destruct Hy as [<-|[]]. unfold cand_ok. cbn [fst snd].
        apply (Hnoref m (name, ref)). apply find_export_In. exact Ef.
    - destruct (name =? 0); [contradiction|]. apply in_flat_map in Hy as [t [_ Hy]]. eapply IH; eauto.
  Qed.

  Lemma den_ok m name y : In y (D m name) -> cand_ok g y.
  Proof. apply cands_ok. Qed.

  (* hits: the hit of a file is its export entry for the alias; files of hits have smaller rank *)
  Lemma hits_facts a : forall f s stack h, In h (hits g f a s stack) ->
    find_export a (m_exports (getm g (fst h))) = Some (snd h) /\ (rank (fst h) < rank s)%nat.
  Proof.
    induction f as [|f IH]; intros s stack h Hh; [contradiction|]. cbn [hits] in Hh.
    destruct (memn s stack); [contradiction|].
    apply in_flat_map in Hh as [i [Hi Hh]]. unfold record_of in Hh.
    destruct (nth_error (m_records (getm g s)) i) as [r|] eqn:En; [|contradiction].
    destruct (r_target r) as [t|] eqn:Et; [|contradiction].
    assert (Hrt : (rank t < rank s)%nat).
    { apply (star_edge g rk Hrk). unfold star_targets. apply in_flat_map. exists i. split; [exact Hi|]. rewrite En, Et. left. reflexivity. }
    apply in_app_or in Hh as [Hh|Hh].
    - unfold own_hit in Hh. destruct ((a =? 0) || shadowed g a (stack ++ [s])); [contradiction|].
      destruct (find_export a (m_exports (getm g t))) as [ref|] eqn:Ef; [|contradiction].
      destruct Hh as [<-|[]]. cbn [fst snd]. split; [exact Ef|exact Hrt].
    - destruct (IH _ _ _ Hh) as [H1 H2]. split; [exact H1|]. unfold rank in *. lia.
  Qed.

  Lemma fold_hits_some a s r : forall rest A,
    fold_hits a (Some (mkEd a s r A)) rest = Some (mkEd a s r (A ++ filter (fun h => negb (Nat.eqb s (fst h))) rest)).
  Proof.
    induction rest as [|h rest IH]; intros A; [cbn; rewrite app_nil_r; reflexivity|].
    unfold fold_hits in *. cbn [fold_left apply_hit ed_src ed_ref ed_ambs filter].
    destruct (negb (Nat.eqb s (fst h))).
    - rewrite IH. rewrite <- app_assoc. reflexivity.
    - apply IH.
  Qed.

  (* shape of a successful lookup in ResolvedExports *)
  Lemma lookup_shape o a e :
    ed_lookup a (resolved o) = Some e ->
    exists h1 arefs, e = mkEd a (fst h1) (snd h1) arefs /\
      find_export a (m_exports (getm g (fst h1))) = Some (snd h1) /\
      (fst h1 = o \/ (rank (fst h1) < rank o)%nat) /\
      (forall h, In h arefs -> find_export a (m_exports (getm g (fst h))) = Some (snd h) /\ (rank (fst h) < rank o)%nat) /\
      (forall y, In y (D o a) <-> In y (HC h1 ++ flat_map HC arefs)).
  Proof.
    intros Hl. unfold resolved in Hl. destruct (plain' o) as [Hlazy _].
    rewrite (resolved_look g rk Hrk kinds HkindsC Hunique o a Hlazy) in Hl.
    destruct (find_export a (m_exports (getm g o))) as [ref|] eqn:Ef.
    - inversion Hl; subst e. exists (o, ref), []. cbn [fst snd flat_map]. repeat split; auto; try contradiction.
      + intros Hy. rewrite app_nil_r. unfold hit_cands, entry_cands. cbn [fst snd].
        rewrite (den_unfold g rk Hrk o a), Ef in Hy. exact Hy.
      + intros Hy. rewrite app_nil_r in Hy. unfold hit_cands, entry_cands in Hy. cbn [fst snd] in Hy.
        rewrite (den_unfold g rk Hrk o a), Ef. exact Hy.
    - destruct (Z.eq_dec a 0) as [->|Ha].
      { (* "default" is never provided by a star *)
        exfalso. assert (Hn : forall f s st, hits g f 0 s st = []).
        { induction f as [|f IHf]; intros s st; [reflexivity|]. cbn [hits]. destruct (memn s st); [reflexivity|].
          induction (m_stars (getm g s)) as [|i l IHl]; [reflexivity|]. cbn [flat_map]. rewrite IHl, app_nil_r.
          destruct (record_of (getm g s) i) as [r|]; [|reflexivity]. destruct (r_target r); [|reflexivity].
          unfold own_hit. cbn [Z.eqb orb app]. apply IHf. }
        rewrite Hn in Hl. discriminate. }
      pose proof (star_hits_den g rk Hrk kinds HkindsC Hunique o a Ha Ef) as Hden.
      destruct (hits g (S (length g)) a o []) as [|h1 rest] eqn:Eh; [discriminate|].
      unfold fold_hits in Hl. cbn [fold_left apply_hit] in Hl. fold (fold_hits a (Some (mkEd a (fst h1) (snd h1) [])) rest) in Hl.
      rewrite fold_hits_some in Hl. cbn [app] in Hl. inversion Hl; subst e.
      assert (Hfacts : forall h, In h (h1 :: rest) -> find_export a (m_exports (getm g (fst h))) = Some (snd h) /\ (rank (fst h) < rank o)%nat).
      { intros h Hh. apply (hits_facts a (S (length g)) o [] h). rewrite Eh. exact Hh. }
      exists h1, (filter (fun h => negb (Nat.eqb (fst h1) (fst h))) rest).
      split; [reflexivity|]. split; [apply Hfacts; left; reflexivity|].
      split; [right; apply Hfacts; left; reflexivity|].
      split. { intros h Hh. apply filter_In in Hh as [Hh _]. apply Hfacts. right. exact Hh. }
      intros y. rewrite <- Hden. cbn [flat_map]. split; intros Hy.
      + apply in_app_or in Hy as [Hy|Hy]; [apply in_or_app; left; exact Hy|].
        apply in_flat_map in Hy as [h [Hh Hy]].
        destruct (Nat.eqb (fst h1) (fst h)) eqn:E.
        * (* same file as the first hit: the same hit *)
          apply Nat.eqb_eq in E. apply in_or_app. left.
          destruct (Hfacts h (or_intror Hh)) as [F1 _]. destruct (Hfacts h1 (or_introl eq_refl)) as [F2 _].
          rewrite <- E in F1. rewrite F1 in F2. inversion F2 as [F3].
          assert (h = h1) by (destruct h, h1; cbn [fst snd] in *; subst; reflexivity). subst h. exact Hy.
        * apply in_or_app. right. apply in_flat_map. exists h. split; [|exact Hy].
          apply filter_In. split; [exact Hh|rewrite E; reflexivity].
      + apply in_app_or in Hy as [Hy|Hy]; [apply in_or_app; left; exact Hy|].
        apply in_flat_map in Hy as [h [Hh Hy]]. apply filter_In in Hh as [Hh _].
        apply in_or_app. right. apply in_flat_map. exists h. split; assumption.
  Qed.

  Lemma lookup_none o a : ed_lookup a (resolved o) = None -> D o a = [].
  Proof.
    intros Hl. unfold resolved in Hl. destruct (plain' o) as [Hlazy _].
    rewrite (resolved_look g rk Hrk kinds HkindsC Hunique o a Hlazy) in Hl.
    destruct (find_export a (m_exports (getm g o))) as [ref|] eqn:Ef; [discriminate|].
    destruct (Z.eq_dec a 0) as [->|Ha].
    { rewrite (den_unfold g rk Hrk o 0), Ef. reflexivity. }
    pose proof (star_hits_den g rk Hrk kinds HkindsC Hunique o a Ha Ef) as Hden.
    destruct (hits g (S (length g)) a o []) as [|h1 rest].
    - cbn [flat_map] in Hden. symmetry. exact Hden.
    - unfold fold_hits in Hl. cbn [fold_left apply_hit] in Hl. fold (fold_hits a (Some (mkEd a (fst h1) (snd h1) [])) rest) in Hl.
      rewrite fold_hits_some in Hl. discriminate.
  Qed.

  (* ---- the tracker loop ---- *)
  Definition cyc_ge (cyc : list tracker) (b : nat) : Prop :=
    forall c, In c cyc -> exists nc oc, import_of g c = Some nc /\ ni_is_star nc = false /\
      import_target (getm g (fst c)) nc = Some oc /\ (rank oc >= b)%nat.

  Lemma cyc_ge_mono cyc b b' : (b' <= b)%nat -> cyc_ge cyc b -> cyc_ge cyc b'.
  Proof. intros Hb H c Hc. destruct (H c Hc) as [nc [oc [H1 [H2 [H3 H4]]]]]. exists nc, oc. repeat split; auto. lia. Qed.

  Lemma not_in_cyc t ni o cyc :
    import_of g t = Some ni -> import_target (getm g (fst t)) ni = Some o -> cyc_ge cyc (S (rank o)) ->
    existsb (pair_eqb t) cyc = false.
  Proof.
    intros Hi Ht Hc. destruct (existsb (pair_eqb t) cyc) eqn:E; [|reflexivity]. apply existsb_pair in E.
    destruct (Hc t E) as [nc [oc [H1 [_ [H3 H4]]]]]. rewrite Hi in H1. inversion H1; subst nc.
    rewrite Ht in H3. inversion H3; subst. lia.
  Qed.

  Lemma star_not_in_cyc t ni cyc b :
    import_of g t = Some ni -> ni_is_star ni = true -> cyc_ge cyc b -> existsb (pair_eqb t) cyc = false.
  Proof.
    intros Hi Hs Hc. destruct (existsb (pair_eqb t) cyc) eqn:E; [|reflexivity]. apply existsb_pair in E.
    destruct (Hc t E) as [nc [oc [H1 [H2 _]]]]. rewrite Hi in H1. inversion H1; subst nc. congruence.
  Qed.

  Lemma is_import_false u : is_import g (u, m_exports_ref (getm g u)) = false.
  Proof.
    unfold is_import. destruct (import_of g (u, m_exports_ref (getm g u))) as [n2|] eqn:E; [|reflexivity].
    apply import_of_In' in E as [Hin Hr]. cbn [fst snd] in *. destruct (plain' u) as [_ [_ [_ [_ Hx]]]].
    exfalso. apply (Hx n2 Hin Hr).
  Qed.

  (* one iteration on a namespace import, with any accumulated ambiguous results *)
  Lemma star_step_gen f t ni u cyc res X ev :
    import_of g t = Some ni -> ni_is_star ni = true -> import_target (getm g (fst t)) ni = Some u ->
    (u < length g)%nat -> existsb (pair_eqb t) cyc = false ->
    mloop g kinds resolved true (S f) t cyc res X ev
    = Some (check X (normal_of g (u, BNamespace) 0), ev).
  Proof.
    intros Hi Hs Ht Hu Hc. cbn [mloop]. rewrite Hc, Hi.
    unfold advance, record_of. unfold import_target in Ht.
    destruct (nth_error (m_records (getm g (fst t))) (ni_record ni)) as [r|]; [|discriminate].
    rewrite Ht, Hs. cbn [negb andb]. rewrite (HkindsE u Hu). cbn [ekind_eqb].
    cbn [fold_left]. rewrite is_import_false, finish_check. reflexivity.
  Qed.

  Definition amb_step (f : nat) (cyc' : list tracker) (loc : Z) (acc : option (list mres * list event)) (a : nat * nat)
    : option (list mres * list event) :=
    match acc with
    | None => None
    | Some (ambs, ev) =>
      if is_import g a then
        match mloop g kinds resolved true f a cyc' res0 [] ev with
        | None => None
        | Some (ar, ev') => Some (ambs ++ [ar], ev')
        end
      else Some (ambs ++ [mkRes MNormal (-1) None (fst a) (snd a) loc], ev)
    end.

  Lemma amb_fold_none f cyc' loc l : fold_left (amb_step f cyc' loc) l None = None.
  Proof. induction l; cbn; auto. Qed.

  (* what one call establishes (ni: the tracker's import, a its alias, o its target) *)
  Definition main_post (o : nat) (a : Z) (res : mres) (X : list mres) (ev : list event) (r : mres) (ev' : list event) : Prop :=
    (D o a = [] /\ r = check X res /\ has_nomatch ev' = true) \/
    (D o a <> [] /\ ev' = ev /\ exists rp N, r = check (X ++ N) rp /\ Sum g (D o a) rp N).

  Definition main_stmt (f : nat) : Prop :=
    forall t ni o cyc res X ev r ev',
      import_of g t = Some ni -> ni_is_star ni = false -> import_target (getm g (fst t)) ni = Some o ->
      cyc_ge cyc (S (rank o)) ->
      mloop g kinds resolved true f t cyc res X ev = Some (r, ev') ->
      main_post o (ni_alias ni) res X ev r ev'.

  (* the value of a hit as seen by following it *)
  Lemma hit_entry a h :
    find_export a (m_exports (getm g (fst h))) = Some (snd h) ->
    (is_import g h = false /\ HC h = [(fst h, BName (snd h))]) \/
    (exists nj u, import_of g h = Some nj /\ import_target (getm g (fst h)) nj = Some u /\ (u < length g)%nat /\
        ((ni_is_star nj = true /\ HC h = [(u, BNamespace)]) \/
         (ni_is_star nj = false /\ HC h = D u (ni_alias nj) /\ D u (ni_alias nj) <> [] /\ (rank u < rank (fst h))%nat))).
  Proof.
    intros Hf. unfold is_import, hit_cands, entry_cands. destruct h as [tj refj]. cbn [fst snd] in *.
    unfold import_of. cbn [fst snd]. rewrite find_import_imp. unfold entry_of.
    destruct (find_imp refj (m_imports (getm g tj))) as [nj|] eqn:Ei.
    - right. assert (Hin : In nj (m_imports (getm g tj))).
      { clear -Ei. induction (m_imports (getm g tj)) as [|i l IH]; cbn in Ei; [discriminate|].
        destruct (Nat.eqb (ni_ref i) refj); [inversion Ei; left; reflexivity|right; auto]. }
      destruct (plain' tj) as [_ [_ [_ [Htg _]]]]. destruct (Htg nj Hin) as [u [Hu Hult]].
      exists nj, u. split; [reflexivity|]. split; [exact Hu|]. split; [exact Hult|].
      pose proof Hu as Hu'. unfold import_target in Hu'.
      destruct (nth_error (m_records (getm g tj)) (ni_record nj)) as [rc|]; [|discriminate]. rewrite Hu'.
      destruct (ni_is_star nj) eqn:Es; [left; auto|right].
      split; [reflexivity|]. split; [reflexivity|].
      assert (He : entry_of (getm g tj) refj = XIndirect u (ni_alias nj)).
      { unfold entry_of. rewrite Ei. unfold import_target in Hu. destruct (nth_error (m_records (getm g tj)) (ni_record nj)); [|discriminate]. rewrite Hu, Es. reflexivity. }
      split; [eapply Hlink; eauto|]. eapply (indirect_edge g rk Hrk); eauto.
    - left. auto.
  Qed.

  Lemma hit_cands_ok a h y :
    find_export a (m_exports (getm g (fst h))) = Some (snd h) -> In y (HC h) -> cand_ok g y.
  Proof.
    intros Hf. unfold hit_cands, entry_cands. destruct (entry_of (getm g (fst h)) (snd h)) as [r|u n|u|] eqn:Ee; intros Hy.
    - destruct Hy as [<-|[]]. unfold cand_ok. cbn [fst snd]. unfold entry_of in Ee.
      destruct (find_imp (snd h) (m_imports (getm g (fst h)))) as [ni|].
      + destruct (nth_error (m_records (getm g (fst h))) (ni_record ni)) as [rc|]; [|discriminate].
        destruct (r_target rc); [|discriminate]. destruct (ni_is_star ni); discriminate.
      + inversion Ee; subst. apply (Hnoref (fst h) (a, snd h)). apply find_export_In. exact Hf.
    - eapply den_ok; eauto.
    - destruct Hy as [<-|[]]. exact I.
    - contradiction.
  Qed.

  Lemma check_nil r : check [] r = r.
  Proof. reflexivity. Qed.

  Lemma amb_fold f (IHf : main_stmt f) a o cyc' loc :
    cyc_ge cyc' (rank o) -> forall arefs Y ev0 Y' ev1,
    (forall h, In h arefs -> find_export a (m_exports (getm g (fst h))) = Some (snd h) /\ (rank (fst h) < rank o)%nat) ->
    fold_left (amb_step f cyc' loc) arefs (Some (Y, ev0)) = Some (Y', ev1) ->
    ev1 = ev0 /\ exists N1, Y' = Y ++ N1 /\
      (forall r, In r N1 -> exists h, In h arefs /\ Elem g r (HC h)) /\
      (forall h, In h arefs -> exists r, In r N1 /\ Elem g r (HC h)).
  Proof.
    intros Hcyc. induction arefs as [|h arefs IH]; intros Y ev0 Y' ev1 Hfacts Hfold.
    - cbn in Hfold. inversion Hfold; subst. split; [reflexivity|]. exists []. rewrite app_nil_r.
      repeat split; intros; contradiction.
    - cbn [fold_left] in Hfold.
      destruct (Hfacts h (or_introl eq_refl)) as [Hf Hr].
      assert (Hone : exists ar, amb_step f cyc' loc (Some (Y, ev0)) h = Some (Y ++ [ar], ev0) /\ Elem g ar (HC h)).
      { destruct (amb_step f cyc' loc (Some (Y, ev0)) h) as [[Y1 e1]|] eqn:Es; [|rewrite amb_fold_none in Hfold; discriminate].
        unfold amb_step in Es.
        destruct (hit_entry a h Hf) as [[Hni Hc]|[nj [u [Hi [Hu [Hult Hcase]]]]]].
        - rewrite Hni in Es. inversion Es; subst. eexists. split; [reflexivity|].
          right. exists (fst h, BName (snd h)), loc. rewrite Hc. split; [reflexivity|]. split; [left; reflexivity|].
          intros y' [<-|[]]. reflexivity.
        - assert (His : is_import g h = true) by (unfold is_import; rewrite Hi; reflexivity).
          rewrite His in Es.
          destruct (mloop g kinds resolved true f h cyc' res0 [] ev0) as [[ar e']|] eqn:Em; [|discriminate].
          inversion Es; subst Y1 e1. destruct Hcase as [[Hs Hc]|[Hs [Hc [Hne Hru]]]].
          + destruct f as [|f']; [discriminate|].
            rewrite (star_step_gen f' h nj u cyc' res0 [] ev0 Hi Hs Hu Hult (star_not_in_cyc h nj cyc' _ Hi Hs Hcyc)) in Em.
            inversion Em; subst. eexists. split; [reflexivity|]. rewrite check_nil.
            right. exists (u, BNamespace), 0. rewrite Hc. split; [reflexivity|]. split; [left; reflexivity|].
            intros y' [<-|[]]. reflexivity.
          + assert (Hcg : cyc_ge cyc' (S (rank u))) by (eapply cyc_ge_mono; [|exact Hcyc]; lia).
            destruct (IHf h nj u cyc' res0 [] ev0 ar e' Hi Hs Hu Hcg Em) as [[Hnil _]|[_ [He [rp [N [Har HS]]]]]]; [contradiction|].
            subst e'. eexists. split; [reflexivity|]. rewrite Hc. subst ar. cbn [app].
            apply Sum_check; [intros y Hy; eapply den_ok; eauto|exact HS]. }
      destruct Hone as [ar [Hs1 He1]]. rewrite Hs1 in Hfold.
      destruct (IH (Y ++ [ar]) ev0 Y' ev1 (fun h0 Hh0 => Hfacts h0 (or_intror Hh0)) Hfold) as [Hev [N1 [HY [HA HB]]]].
      split; [exact Hev|]. exists (ar :: N1). split; [rewrite HY, <- app_assoc; reflexivity|]. split.
      + intros r [<-|Hr1]; [exists h; split; [left; reflexivity|exact He1]|].
        destruct (HA r Hr1) as [h0 [Hh0 He0]]. exists h0. split; [right; exact Hh0|exact He0].
      + intros h0 [<-|Hh0]; [exists ar; split; [left; reflexivity|exact He1]|].
        destruct (HB h0 Hh0) as [r [Hr1 He0]]. exists r. split; [right; exact Hr1|exact He0].
  Qed.

  Lemma main_all : forall f, main_stmt f.
  Proof.
    induction f as [|f IHf]; intros t ni o cyc res X ev r ev' Hi Hs Ht Hcyc Hm; [discriminate|].
    set (a := ni_alias ni) in *.
    destruct (import_of_In' _ _ Hi) as [Hin Href].
    assert (Holt : (o < length g)%nat).
    { destruct (plain' (fst t)) as [_ [_ [_ [Htg0 _]]]]. destruct (Htg0 ni Hin) as [o' [Ho' Hlt]].
      rewrite Ht in Ho'. inversion Ho'; subst. exact Hlt. }
    assert (Hcyc' : cyc_ge (cyc ++ [t]) (rank o)).
    { intros c Hc. apply in_app_or in Hc as [Hc|[<-|[]]].
      - destruct (Hcyc c Hc) as [nc [oc [H1 [H2 [H3 H4]]]]]. exists nc, oc. repeat split; auto. lia.
      - exists ni, o. repeat split; auto. }
    cbn [mloop] in Hm. rewrite (not_in_cyc t ni o cyc Hi Ht Hcyc), Hi in Hm.
    unfold advance, record_of in Hm. pose proof Ht as Ht'. unfold import_target in Ht'.
    destruct (nth_error (m_records (getm g (fst t))) (ni_record ni)) as [rc|] eqn:Erc; [|discriminate].
    rewrite Ht', Hs in Hm. cbn [negb andb] in Hm.
    assert (Hkw : (negb (m_lazy (getm g o)) && negb (m_export_kw (getm g o)) && negb (ni_alias ni =? 0)
                   && negb (m_uses_exports (getm g o)) && negb (m_uses_module (getm g o))) = false).
    { destruct (named_kw' _ _ _ Hin Hs Ht) as [H0|Hk].
      - rewrite H0. cbn. rewrite !andb_false_r. reflexivity.
      - rewrite Hk. cbn. rewrite !andb_false_r. reflexivity. }
    rewrite Hkw in Hm. rewrite (HkindsE o Holt) in Hm. cbn [ekind_eqb] in Hm.
    fold resolved in Hm. fold a in Hm.
    destruct (ed_lookup a (resolved o)) as [e|] eqn:El.
    - (* found in ResolvedExports *)
      destruct (lookup_shape o a e El) as [h1 [arefs [-> [Hf1 [Hr1 [Hfacts Hiff]]]]]].
      cbn [ed_src ed_ref ed_alias ed_ambs] in Hm.
      change (fold_left _ arefs (Some (X, ev))) with (fold_left (amb_step f (cyc ++ [t]) (a + 1)) arefs (Some (X, ev))) in Hm.
      destruct (fold_left (amb_step f (cyc ++ [t]) (a + 1)) arefs (Some (X, ev))) as [[Y' ev1]|] eqn:Efold; [|discriminate].
      destruct (amb_fold f IHf a o (cyc ++ [t]) (a + 1) Hcyc' arefs X ev Y' ev1 Hfacts Efold) as [-> [N1 [-> [HA HB]]]].
      assert (HD : forall y, In y (HC h1) -> In y (D o a)) by (intros y Hy; apply Hiff; apply in_or_app; left; exact Hy).
      assert (HDa : forall h y, In h arefs -> In y (HC h) -> In y (D o a)).
      { intros h y Hh Hy. apply Hiff. apply in_or_app. right. apply in_flat_map. exists h. split; assumption. }
      (* the summary assembled from the main hit's summary and the ambiguous refs *)
      assert (Hasm : forall rp N2, Sum g (HC h1) rp N2 -> Sum g (D o a) rp (N1 ++ N2)).
      { intros rp N2 [[y0 [L0 [Hrp Hy0]]] [HN Hcov]]. split; [exists y0, L0; split; [exact Hrp|apply HD; exact Hy0]|]. split.
        - intros r0 Hr0. apply in_app_or in Hr0 as [Hr0|Hr0].
          + destruct (HA r0 Hr0) as [h [Hh He]]. exists (HC h). split; [intros y Hy; eapply HDa; eauto|exact He].
          + destruct (HN r0 Hr0) as [C' [Hinc He]]. exists C'. split; [intros y Hy; apply HD, Hinc; exact Hy|exact He].
        - intros y Hy. apply Hiff in Hy. apply in_app_or in Hy as [Hy|Hy].
          + destruct (Hcov y Hy) as [Hl|[r0 [C' [Hr0 [HyC [Hinc He]]]]]]; [left; exact Hl|right].
            exists r0, C'. split; [apply in_or_app; right; exact Hr0|]. split; [exact HyC|]. split; [intros z Hz; apply HD, Hinc; exact Hz|exact He].
          + apply in_flat_map in Hy as [h [Hh Hyh]]. destruct (HB h Hh) as [r0 [Hr0 He]]. right.
            exists r0, (HC h). split; [apply in_or_app; left; exact Hr0|]. split; [exact Hyh|]. split; [intros z Hz; eapply HDa; eauto|exact He]. }
      assert (Hsingle : forall y L, HC h1 = [y] -> Sum g (HC h1) (normal_of g y L) []).
      { intros y L Hc. rewrite Hc. split; [exists y, L; split; [reflexivity|left; reflexivity]|]. split; [intros r0 []|].
        intros y' [<-|[]]. left. exists L. reflexivity. }
      assert (Hne : D o a <> []).
      { destruct (hit_entry a h1 Hf1) as [[_ Hc]|[nj [u [_ [_ [_ [[_ Hc]|[_ [Hc [Hn _]]]]]]]]]].
        - intro Hnil. assert (In (fst h1, BName (snd h1)) (D o a)) by (apply HD; rewrite Hc; left; reflexivity). rewrite Hnil in H. contradiction.
        - intro Hnil. assert (In (u, BNamespace) (D o a)) by (apply HD; rewrite Hc; left; reflexivity). rewrite Hnil in H. contradiction.
        - intro Hnil. destruct (D u (ni_alias nj)) as [|c l] eqn:Ed; [contradiction|].
          assert (In c (D o a)) by (apply HD; rewrite Hc; left; reflexivity). rewrite Hnil in H. contradiction. }
      right. split; [exact Hne|].
      assert (Ht1 : (fst h1, snd h1) = h1) by (destruct h1; reflexivity). rewrite Ht1 in Hm.
      destruct (hit_entry a h1 Hf1) as [[Hni Hc]|[nj [u [Hi1 [Hu [Hult Hcase]]]]]].
      + (* a local binding *)
        rewrite Hni in Hm. rewrite finish_check in Hm. inversion Hm; subst r ev'. split; [reflexivity|].
        exists (normal_of g (fst h1, BName (snd h1)) (a + 1)), N1. split; [reflexivity|].
        rewrite <- (app_nil_r N1). apply Hasm. apply Hsingle. exact Hc.
      + assert (His : is_import g h1 = true) by (unfold is_import; rewrite Hi1; reflexivity).
        rewrite His in Hm. destruct Hcase as [[Hst Hc]|[Hst [Hc [Hnn Hru]]]].
        * (* export * as ns *)
          destruct f as [|f']; [discriminate|].
          rewrite (star_step_gen f' h1 nj u (cyc ++ [t]) _ (X ++ N1) ev Hi1 Hst Hu Hult
                     (star_not_in_cyc h1 nj (cyc ++ [t]) _ Hi1 Hst Hcyc')) in Hm.
          inversion Hm; subst r ev'. split; [reflexivity|].
          exists (normal_of g (u, BNamespace) 0), N1. split; [reflexivity|].
          rewrite <- (app_nil_r N1). apply Hasm. apply Hsingle. exact Hc.
        * (* an indirect export: the loop continues *)
          assert (Hcg : cyc_ge (cyc ++ [t]) (S (rank u))).
          { eapply cyc_ge_mono; [|exact Hcyc']. destruct Hr1 as [Heq|Hlt]; [rewrite Heq in Hru; lia|lia]. }
          destruct (IHf h1 nj u (cyc ++ [t]) _ (X ++ N1) ev r ev' Hi1 Hst Hu Hcg Hm) as [[Hnil _]|[_ [He [rp [N2 [Hr HS]]]]]]; [contradiction|].
          split; [exact He|]. exists rp, (N1 ++ N2). split; [rewrite Hr, app_assoc; reflexivity|].
          apply Hasm. rewrite Hc. exact HS.
    - (* no matching export *)
      cbn [ekind_eqb] in Hm.
      destruct (plain' (fst t)) as [_ [Hts [Hgen _]]]. rewrite Hts in Hm. cbn [andb] in Hm.
      rewrite (Hgen ni Hin) in Hm. rewrite finish_check in Hm. inversion Hm; subst r ev'.
      left. split; [apply lookup_none; exact El|]. split; [reflexivity|].
      unfold has_nomatch. rewrite existsb_app. cbn. rewrite orb_true_r. reflexivity.
  Qed.
End Link.
