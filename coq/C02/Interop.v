(* C02 model: the CommonJS side of binding resolution.

   An import of a name from a file whose exports kind is CommonJS is not bound to a symbol of that
   file: matchImportWithExport answers with a namespace alias (linker.go matchImportNamespace /
   ImportData.NamespaceAlias), and the printer writes the identifier as the property access
   ns.alias, where ns is the import record's namespace symbol, bound to
   __toESM(require_x(), isNodeMode) (import statements, js_printer printRequireOrImportExpr) or to
   the value of import() which goes through the same __toESM call.

   Specification side: node's loading of CommonJS from an ES module (and import() from anywhere):
   the namespace has "default" = module.exports and one export per own key that cjs-module-lexer
   detects (all the keys in this domain, where they are plain exports.k = v assignments).

   Values are abstracted to where they come from.  Alias 0 is "default" (Harness name table).
   Executable definitions only. *)
From V Require Import Common.Base C02.Graph C02.Resolve C02.Emit.

(* a CommonJS module as far as interop goes *)
Record cjsmod := mkCjs {
  c_marker : bool;              (* module.exports.__esModule is truthy *)
  c_keys : list Z               (* the own keys of module.exports (aliases; 0 = "default") *)
}.

Inductive ival :=
| VModuleExports                (* the module.exports object itself *)
| VKey (k : Z)                  (* the value stored under that own key of module.exports *)
| VUndefined.

Definition own_key (c : cjsmod) (k : Z) : ival := if memz k (c_keys c) then VKey k else VUndefined.

(* ---- node ---- *)
Definition native_get (c : cjsmod) (name : Z) : ival :=
  if name =? 0 then VModuleExports else own_key c name.

(* ---- the bundle: runtime.go __toESM(mod, isNodeMode) followed by a property access ----
   "default" is defined as mod when isNodeMode || !mod.__esModule; every own key of mod that the
   target does not have yet is copied (__copyProps) *)
Definition to_esm_get (node_mode : bool) (c : cjsmod) (name : Z) : ival :=
  if name =? 0 then
    match to_esm_default node_mode (c_marker c) with
    | ModuleExports => VModuleExports
    | ExportsDefault => own_key c 0
    end
  else own_key c name.

(* the importing file is ESM-typed or not; import statement or import() *)
Definition bundle_get (importer_esm_typed : bool) (form : import_form) (c : cjsmod) (name : Z) : ival :=
  to_esm_get (to_esm_node_mode importer_esm_typed form) c name.

(* what an identifier bound by matchImportWithExport to a namespace alias evaluates to *)
Definition import_value (res : mres) (importer_esm_typed : bool) (form : import_form) (c : cjsmod) : option ival :=
  match mr_kind res, mr_ns res with
  | MNamespace, Some _ => Some (bundle_get importer_esm_typed form c (mr_alias res))
  | _, _ => None
  end.

(* the shapes for which the two agree: everything but "default" of a module carrying the
   __esModule marker seen from an importer that is not ESM-typed (Babel interop) *)
Definition interop_domain (importer_esm_typed : bool) (c : cjsmod) (name : Z) : bool :=
  importer_esm_typed || negb (c_marker c) || negb (name =? 0).
