(* C02 model: module classification and wrapping.

   Mirrors internal/linker/linker.go scanImportsAndExports step 1 (which
   modules must be CommonJS / wrapped) and step 2 (recursivelyWrapDependencies
   and hasDynamicExportsDueToExportStar), for builds without code splitting.
   The state is the per-file pair (AST.ExportsKind, Meta.Wrap) plus the
   DidWrapDependencies flags.  Executable definitions only. *)
From V Require Import Common.Base C02.Graph.

Definition cstate := list (ekind * wkind).

Definition cget (st : cstate) (i : nat) : ekind * wkind := nth i st (ENone, WNone).
Fixpoint cset (st : cstate) (i : nat) (v : ekind * wkind) : cstate :=
  match st, i with
  | [], _ => []
  | _ :: r, O => v :: r
  | x :: r, S j => x :: cset r j v
  end.

Definition init_state (g : graph) : cstate := map (fun m => (m_kind m, WNone)) g.

(* the effect of one import record on the imported file (step 1, switch record.Kind) *)
Definition classify_record (g : graph) (st : cstate) (r : irecord) : cstate :=
  match r_target r with
  | None => st
  | Some t =>
    let '(k, w) := cget st t in
    match r_kind r with
    | KStmt =>
      if (r_star r || r_default r) && ekind_eqb k ENone && negb (m_lazy (getm g t))
      then cset st t (ECJS, WCJS) else st
    | KRequire | KDynamic =>
      if ekind_eqb k EESM then cset st t (k, WESM) else cset st t (ECJS, WCJS)
    | KOther => st
    end
  end.

(* fmt_wraps_entry: output format is IIFE or ESM *)
Definition classify_file (fmt_wraps_entry : bool) (g : graph) (st : cstate) (s : nat) : cstate :=
  let m := getm g s in
  let st1 := fold_left (classify_record g) (m_records m) st in
  let '(k, w) := cget st1 s in
  if ekind_eqb k ECJS && (negb (m_entry m) || fmt_wraps_entry) then cset st1 s (k, WCJS) else st1.

Definition classify (fmt_wraps_entry : bool) (g : graph) (order : list nat) : cstate :=
  fold_left (classify_file fmt_wraps_entry g) order (init_state g).

(* ---- step 2 ---- *)
Definition wstate := (cstate * list nat)%type.    (* kinds/wraps, DidWrapDependencies *)

Fixpoint wrap_deps (fuel : nat) (g : graph) (s : nat) (ws : wstate) : option wstate :=
  match fuel with
  | O => None
  | S f =>
    let '(st, did) := ws in
    if memn s did then Some ws else
    let did1 := s :: did in
    if Nat.eqb s 0 then Some (st, did1) else          (* never wrap the runtime file *)
    let '(k, w) := cget st s in
    let st1 := if wkind_eqb w WNone then cset st s (k, if ekind_eqb k ECJS then WCJS else WESM) else st in
    fold_left (fun acc t => match acc with Some ws' => wrap_deps f g t ws' | None => None end)
              (all_targets (getm g s)) (Some (st1, did1))
  end.

(* hasDynamicExportsDueToExportStar: returns (result, state, visited).  The
   loop over the export-star records takes the recursive call as a parameter. *)
Definition dyn_result := (bool * cstate * list nat)%type.

Fixpoint dyn_loop (rec : nat -> cstate -> list nat -> option dyn_result) (keep_esm : bool)
                  (m : module) (s : nat) (stars : list nat) (st : cstate) (vis : list nat) : option dyn_result :=
  match stars with
  | [] => Some (false, st, vis)
  | i :: rest =>
    match record_of m i with
    | None => dyn_loop rec keep_esm m s rest st vis
    | Some r =>
      match r_target r with
      | None =>
        if negb (m_entry m) || negb keep_esm
        then Some (true, cset st s (EDyn, snd (cget st s)), vis)
        else dyn_loop rec keep_esm m s rest st vis
      | Some t =>
        if Nat.eqb t s then dyn_loop rec keep_esm m s rest st vis else
        match rec t st vis with
        | None => None
        | Some (true, st', vis') => Some (true, cset st' s (EDyn, snd (cget st' s)), vis')
        | Some (false, st', vis') => dyn_loop rec keep_esm m s rest st' vis'
        end
      end
    end
  end.

Fixpoint dyn_star (fuel : nat) (keep_esm : bool) (g : graph) (s : nat) (st : cstate) (vis : list nat)
  : option dyn_result :=
  match fuel with
  | O => None
  | S f =>
    let '(k, w) := cget st s in
    if ekind_eqb k ECJS || ekind_eqb k EDyn then Some (true, st, vis) else
    if memn s vis then Some (false, st, vis) else
    dyn_loop (dyn_star f keep_esm g) keep_esm (getm g s) s (m_stars (getm g s)) st (s :: vis)
  end.

Definition wrap_file (fuel : nat) (keep_esm : bool) (g : graph) (acc : option wstate) (s : nat) : option wstate :=
  match acc with
  | None => None
  | Some ws =>
    let m := getm g s in
    let ws1 := if wkind_eqb (snd (cget (fst ws) s)) WNone then Some ws else wrap_deps fuel g s ws in
    match ws1 with
    | None => None
    | Some (st1, did1) =>
      let r2 := match m_stars m with
                | [] => Some st1
                | _ => match dyn_star fuel keep_esm g s st1 [] with Some (_, st', _) => Some st' | None => None end
                end in
      match r2 with
      | None => None
      | Some st2 =>
        fold_left (fun acc t =>
                     match acc with
                     | None => None
                     | Some ws' => if ekind_eqb (fst (cget (fst ws') t)) ECJS then wrap_deps fuel g t ws' else Some ws'
                     end) (all_targets m) (Some (st2, did1))
      end
    end
  end.

Definition scan_steps12 (fmt_wraps_entry keep_esm : bool) (g : graph) (order : list nat) : option cstate :=
  match fold_left (wrap_file (S (length g)) keep_esm g) order (Some (classify fmt_wraps_entry g order, [])) with
  | Some (st, _) => Some st
  | None => None
  end.
