(* C02: imports from CommonJS files - the linker's answer is a namespace alias, and the value of the
   property access on __toESM(require_x(), isNodeMode) is the value node gives the import. *)
From V Require Import Common.Base C02.Graph C02.Resolve C02.Emit C02.Interop.

(* matchImportWithExport on an import whose target has exports kind CommonJS *)
Lemma cjs_import_namespace_alias g kinds resolved keep_esm t ni n :
  import_of g t = Some ni -> ni_ns ni = Some n ->
  advance g kinds resolved t ni = ICommonJS ->
  match_import g kinds resolved keep_esm t
  = Some (mkRes MNamespace (ni_alias ni) (Some (fst t, n)) 0 0 0, []).
Proof.
  intros Hi Hn Ha. unfold match_import. cbn [mloop existsb]. rewrite Hi, Ha, Hn. reflexivity.
Qed.

Lemma advance_cjs g kinds resolved t ni r o :
  record_of (getm g (fst t)) (ni_record ni) = Some r -> r_target r = Some o ->
  kinds o = ECJS -> (m_uses_exports (getm g o) = true \/ m_uses_module (getm g o) = true) ->
  advance g kinds resolved t ni = ICommonJS.
Proof.
  intros Hr Ht Hk Hu. unfold advance. rewrite Hr, Ht, Hk.
  replace (negb (ni_is_star ni) && negb (m_lazy (getm g o)) && negb (m_export_kw (getm g o)) &&
           negb (ni_alias ni =? 0) && negb (m_uses_exports (getm g o)) && negb (m_uses_module (getm g o))) with false.
  - reflexivity.
  - destruct Hu as [Hu|Hu]; rewrite Hu; cbn; rewrite ?andb_false_r; reflexivity.
Qed.

Lemma bundle_get_native typed form c name :
  interop_domain typed c name = true -> bundle_get typed form c name = native_get c name.
Proof.
  unfold interop_domain, bundle_get, to_esm_get, native_get, to_esm_node_mode, to_esm_default.
  intros H. destruct (name =? 0) eqn:En; [|reflexivity].
  destruct typed; [reflexivity|]. destruct (c_marker c); [discriminate|reflexivity].
Qed.

(* the whole path: graph -> matchImportWithExport -> printed property access -> value *)
Theorem cjs_import_value_all g kinds resolved keep_esm t ni n r o res ev typed form c :
  import_of g t = Some ni -> ni_ns ni = Some n ->
  record_of (getm g (fst t)) (ni_record ni) = Some r -> r_target r = Some o ->
  kinds o = ECJS -> (m_uses_exports (getm g o) = true \/ m_uses_module (getm g o) = true) ->
  match_import g kinds resolved keep_esm t = Some (res, ev) ->
  interop_domain typed c (ni_alias ni) = true ->
  ev = [] /\ mr_kind res = MNamespace /\ mr_ns res = Some (fst t, n) /\
  import_value res typed form c = Some (native_get c (ni_alias ni)).
Proof.
  intros Hi Hn Hr Ht Hk Hu Hm Hd.
  rewrite (cjs_import_namespace_alias g kinds resolved keep_esm t ni n Hi Hn
             (advance_cjs g kinds resolved t ni r o Hr Ht Hk Hu)) in Hm.
  inversion Hm; subst. repeat split. unfold import_value. cbn [mr_kind mr_ns mr_alias].
  f_equal. apply bundle_get_native. exact Hd.
Qed.

(* outside the domain the statement is false: finding C02-G *)
Definition witness_babel : cjsmod := mkCjs true [0; 1].
Lemma bundle_get_refuted :
  bundle_get false IFDynamic witness_babel 0 = VKey 0 /\ native_get witness_babel 0 = VModuleExports.
Proof. split; reflexivity. Qed.

Lemma bundle_get_refuted_ex : exists typed form c name, bundle_get typed form c name <> native_get c name.
Proof. exists false, IFDynamic, witness_babel, 0. cbn. discriminate. Qed.
