(* The percent-escaped data URL body written by
   EncodeStringAsPercentEscapedDataURL decodes, under the WHATWG processing
   (opaque-path percent-encoding followed by percent-decoding), to the text. *)
From V Require Import Common.Base C02.DataUrl C02.SpecDataUrl.

Definition byte_ok (b : Z) : Prop := 0 <= b < 256.

Lemma hex_same d : spec_hex d = hex_digit d.
Proof. reflexivity. Qed.

Lemma hex_val_digit d : 0 <= d < 16 -> hex_val (hex_digit d) = Some d.
Proof.
  intros H.
  assert (E : d = 0 \/ d = 1 \/ d = 2 \/ d = 3 \/ d = 4 \/ d = 5 \/ d = 6 \/ d = 7 \/ d = 8 \/ d = 9 \/
              d = 10 \/ d = 11 \/ d = 12 \/ d = 13 \/ d = 14 \/ d = 15) by lia.
  repeat (destruct E as [->|E]; [reflexivity|]). subst. reflexivity.
Qed.

Lemma hex_digit_not_pct d : 0 <= d < 16 -> hex_digit d <> 37 /\ 32 <= hex_digit d <= 126.
Proof. intros H. unfold hex_digit. destruct (d <? 10) eqn:E; lia. Qed.

Definition hex2 (X : bytes) : bool :=
  match X with h1 :: h2 :: _ => is_hex h1 && is_hex h2 | _ => false end.

Lemma is_hex_val c : is_hex c = true <-> exists v, hex_val c = Some v.
Proof.
  unfold is_hex, hex_val.
  destruct ((48 <=? c) && (c <=? 57)) eqn:A; [split; [eauto|reflexivity]|].
  destruct ((65 <=? c) && (c <=? 70)) eqn:B.
  - rewrite orb_true_r. split; [eauto|reflexivity].
  - destruct ((97 <=? c) && (c <=? 102)) eqn:C; cbn.
    + split; [eauto|reflexivity].
    + split; [discriminate|intros [v Hv]; discriminate].
Qed.

Lemma decode_escape c X : byte_ok c -> percent_decode (escape c ++ X) = c :: percent_decode X.
Proof.
  intros H. unfold escape. cbn [app percent_decode]. rewrite Z.eqb_refl.
  rewrite !hex_val_digit.
  - f_equal. symmetry. apply Z.div_mod. lia.
  - unfold byte_ok in H. split; [apply Z.mod_pos_bound; lia|apply Z.mod_pos_bound; lia].
  - unfold byte_ok in H. split; [apply Z.div_pos; lia|apply Z.div_lt_upper_bound; lia].
Qed.

Lemma decode_plain c X : c <> 37 -> percent_decode (c :: X) = c :: percent_decode X.
Proof. intros H. cbn [percent_decode]. destruct (c =? 37) eqn:E; [lia|reflexivity]. Qed.

Lemma decode_pct_literal X : hex2 X = false -> percent_decode (37 :: X) = 37 :: percent_decode X.
Proof.
  intros H. cbn [percent_decode]. replace (37 =? 37) with true by reflexivity.
  destruct X as [|h1 [|h2 r]]; try reflexivity.
  cbn [hex2] in H.
  destruct (hex_val h1) as [a|] eqn:E1; [|reflexivity].
  destruct (hex_val h2) as [b|] eqn:E2; [|reflexivity].
  assert (is_hex h1 = true) by (apply is_hex_val; eauto).
  assert (is_hex h2 = true) by (apply is_hex_val; eauto).
  rewrite H0, H1 in H. discriminate.
Qed.

Lemma c0_escape c o : byte_ok c -> c0_encode (escape c ++ o) = escape c ++ c0_encode o.
Proof.
  intros H. unfold escape, c0_encode. cbn [app flat_map].
  destruct (hex_digit_not_pct (c / 16)) as [_ A]; [unfold byte_ok in H; lia|].
  destruct (hex_digit_not_pct (c mod 16)) as [_ B]; [unfold byte_ok in H; lia|].
  replace ((37 <? 32) || (126 <? 37)) with false by reflexivity.
  replace ((hex_digit (c / 16) <? 32) || (126 <? hex_digit (c / 16))) with false by lia.
  replace ((hex_digit (c mod 16) <? 32) || (126 <? hex_digit (c mod 16))) with false by lia.
  reflexivity.
Qed.

Lemma c0_cons c o :
  c0_encode (c :: o) = (if (c <? 32) || (126 <? c) then escape c else [c]) ++ c0_encode o.
Proof. unfold c0_encode, escape. cbn [flat_map]. destruct ((c <? 32) || (126 <? c)); reflexivity. Qed.

Lemma c0_high m o : Forall (fun b => 128 <= b) m -> c0_encode (m ++ o) = flat_map escape m ++ c0_encode o.
Proof.
  induction m as [|b m IH]; intros H; [reflexivity|].
  inversion H; subst. cbn [app flat_map]. rewrite c0_cons, IH by assumption.
  replace ((b <? 32) || (126 <? b)) with true by lia. rewrite app_assoc. reflexivity.
Qed.

Lemma decode_escaped_run m X : Forall byte_ok m -> percent_decode (flat_map escape m ++ X) = m ++ percent_decode X.
Proof.
  induction m as [|b m IH]; intros H; [reflexivity|].
  inversion H; subst. cbn [flat_map]. rewrite <- app_assoc, decode_escape, IH by assumption. reflexivity.
Qed.

(* ---- utf8.DecodeRuneInString: shape of a successful decode ---- *)
Lemma drw_cases c rest w :
  decode_rune_width (c :: rest) = Some w ->
  (w = 1%nat /\ c < 128) \/
  ((2 <= w)%nat /\ (w <= length (c :: rest))%nat /\ Forall (fun b => 128 <= b) (firstn w (c :: rest))).
Proof.
  unfold decode_rune_width, is_cont.
  destruct (c <? 128) eqn:E0; [intros H; inversion H; left; split; [reflexivity|lia]|].
  destruct ((194 <=? c) && (c <=? 223)) eqn:E1.
  { destruct rest as [|b1 r]; [discriminate|].
    destruct ((128 <=? b1) && (b1 <=? 191)) eqn:C1; [|discriminate].
    intros H; inversion H; subst. right. split; [lia|]. split; [cbn; lia|].
    cbn [firstn]. repeat constructor; lia. }
  destruct ((224 <=? c) && (c <=? 239)) eqn:E2.
  { destruct rest as [|b1 [|b2 r]]; try discriminate.
    destruct (((if c =? 224 then 160 else 128) <=? b1) && (b1 <=? (if c =? 237 then 159 else 191)) &&
              ((128 <=? b2) && (b2 <=? 191))) eqn:C; [|discriminate].
    intros H; inversion H; subst. right. split; [lia|]. split; [cbn; lia|].
    cbn [firstn]. destruct (c =? 224), (c =? 237); repeat constructor; lia. }
  destruct ((240 <=? c) && (c <=? 244)) eqn:E3; [|discriminate].
  destruct rest as [|b1 [|b2 [|b3 r]]]; try discriminate.
  destruct (((if c =? 240 then 144 else 128) <=? b1) && (b1 <=? (if c =? 244 then 143 else 191)) &&
            ((128 <=? b2) && (b2 <=? 191)) && ((128 <=? b3) && (b3 <=? 191))) eqn:C; [|discriminate].
  intros H; inversion H; subst. right. split; [lia|]. split; [cbn; lia|].
  cbn [firstn]. destruct (c =? 240), (c =? 244); repeat constructor; lia.
Qed.

(* one step of the encoder loop *)
Lemma pbody_step fuel c rest i n ts out :
  pbody (S fuel) (c :: rest) i n ts = Some out ->
  exists w out', pbody fuel (skipn w (c :: rest)) (i + Z.of_nat w) n ts = Some out' /\
    ((w = 1%nat /\ c < 128 /\ must_escape c rest i n ts = true /\ out = escape c ++ out') \/
     (w = 1%nat /\ c < 128 /\ must_escape c rest i n ts = false /\ out = c :: out') \/
     ((2 <= w)%nat /\ (w <= length (c :: rest))%nat /\ Forall (fun b => 128 <= b) (firstn w (c :: rest)) /\
      out = firstn w (c :: rest) ++ out')).
Proof.
  cbn [pbody]. destruct (decode_rune_width (c :: rest)) as [w|] eqn:Ew; [|discriminate].
  destruct (pbody fuel (skipn w (c :: rest)) (i + Z.of_nat w) n ts) as [out'|] eqn:Er; [|discriminate].
  intros H. exists w, out'. split; [exact Er|].
  destruct (drw_cases _ _ _ Ew) as [[-> Hc]|[Hw [Hl Hf]]].
  - cbn [Nat.eqb andb] in H. destruct (must_escape c rest i n ts) eqn:Em; inversion H; subst;
      [left; auto|right; left; auto].
  - destruct w as [|[|w]]; try lia. cbn [Nat.eqb andb] in H.
    destruct (ts <=? i); [discriminate|]. inversion H; subst. right. right. auto.
Qed.

(* if the re-encoded output starts with two hex digits, they are two raw text bytes *)
Lemma head_hex fuel l i n ts out :
  pbody fuel l i n ts = Some out -> Forall byte_ok l ->
  hex2 (c0_encode out) = true ->
  (2 <= length l)%nat /\ is_hex (nth 0 l 0) = true /\ is_hex (nth 1 l 0) = true.
Proof.
  intros H Hok Hh.
  destruct fuel as [|f]; [discriminate|].
  destruct l as [|c1 rest]; [cbn in H; inversion H; subst; discriminate|].
  inversion Hok as [|? ? Hc1 Hrest]; subst.
  destruct (pbody_step _ _ _ _ _ _ _ H) as [w [out' [Hr Hcase]]].
  destruct Hcase as [[-> [Hlt [Hm ->]]]|[[-> [Hlt [Hm ->]]]|[Hw [Hl [Hf ->]]]]].
  - rewrite c0_escape in Hh by assumption. discriminate.
  - rewrite c0_cons in Hh. destruct ((c1 <? 32) || (126 <? c1)) eqn:Er1; [discriminate|].
    cbn [app] in Hh. cbn [skipn] in Hr.
    destruct f as [|f']; [discriminate|].
    destruct rest as [|c2 rest2]; [cbn in Hr; inversion Hr; subst; discriminate|].
    inversion Hrest as [|? ? Hc2 Hrest2]; subst.
    destruct (pbody_step _ _ _ _ _ _ _ Hr) as [w2 [out2 [Hr2 Hcase2]]].
    destruct Hcase2 as [[-> [Hlt2 [Hm2 ->]]]|[[-> [Hlt2 [Hm2 ->]]]|[Hw2 [Hl2 [Hf2 ->]]]]].
    + rewrite c0_escape in Hh by assumption. cbn in Hh. rewrite andb_false_r in Hh. discriminate.
    + rewrite c0_cons in Hh. destruct ((c2 <? 32) || (126 <? c2)) eqn:Er2.
      * cbn in Hh. rewrite andb_false_r in Hh. discriminate.
      * cbn [app hex2] in Hh. apply andb_true_iff in Hh as [Ha Hb].
        split; [cbn; lia|]. split; assumption.
    + destruct w2 as [|w2]; [lia|]. cbn [firstn] in Hh, Hf2. inversion Hf2; subst.
      cbn [app] in Hh. rewrite c0_cons in Hh. replace ((c2 <? 32) || (126 <? c2)) with true in Hh by lia.
      cbn in Hh. rewrite andb_false_r in Hh. discriminate.
  - destruct w as [|w]; [lia|]. cbn [firstn] in Hh, Hf. inversion Hf; subst.
    cbn [app] in Hh. rewrite c0_cons in Hh. replace ((c1 <? 32) || (126 <? c1)) with true in Hh by lia.
    discriminate.
Qed.

Lemma body_decode fuel : forall l i n ts out,
  pbody fuel l i n ts = Some out -> i + Z.of_nat (length l) = n -> Forall byte_ok l ->
  percent_decode (c0_encode out) = l.
Proof.
  induction fuel as [|f IH]; intros l i n ts out H Hn Hok; [discriminate|].
  destruct l as [|c rest]; [cbn in H; inversion H; reflexivity|].
  pose proof (Forall_inv Hok) as Hc. pose proof (Forall_inv_tail Hok) as Hrest.
  destruct (pbody_step _ _ _ _ _ _ _ H) as [w [out' [Hr Hcase]]].
  destruct Hcase as [[-> [Hlt [Hm ->]]]|[[-> [Hlt [Hm ->]]]|[Hw [Hl [Hf ->]]]]].
  - cbn [skipn] in Hr. rewrite c0_escape, decode_escape by assumption.
    f_equal. eapply IH; eauto. cbn [length] in Hn. lia.
  - cbn [skipn] in Hr.
    assert (Hrec : percent_decode (c0_encode out') = rest).
    { eapply IH; eauto. cbn [length] in Hn. lia. }
    rewrite c0_cons. destruct ((c <? 32) || (126 <? c)) eqn:Er.
    + rewrite decode_escape by assumption. f_equal. exact Hrec.
    + cbn [app]. destruct (Z.eq_dec c 37) as [->|Hne].
      * rewrite decode_pct_literal; [f_equal; exact Hrec|].
        destruct (hex2 (c0_encode out')) eqn:Eh; [|reflexivity]. exfalso.
        destruct (head_hex _ _ _ _ _ _ Hr Hrest Eh) as [Hlen [Ha Hb]].
        unfold must_escape in Hm. rewrite Ha, Hb in Hm. cbn [length] in Hn.
        assert (Hlt2 : (i + 2 <? n) = true) by lia.
        rewrite Hlt2, Z.eqb_refl in Hm. cbn [andb] in Hm. rewrite orb_true_r in Hm. discriminate.
      * rewrite decode_plain by assumption. f_equal. exact Hrec.
  - rewrite c0_high by assumption. rewrite decode_escaped_run.
    + rewrite (IH _ _ _ _ _ Hr).
      * apply firstn_skipn.
      * rewrite skipn_length. lia.
      * clear -Hok. revert Hok. generalize (c :: rest). intros l0 Hok. revert w.
        induction Hok as [|x l0 Hx Hl IHl]; intros w; destruct w; cbn; auto.
    + clear -Hok. revert Hok. generalize (c :: rest). intros l0 Hok. revert w.
      induction Hok as [|x l0 Hx Hl IHl]; intros w; destruct w; cbn; auto.
Qed.

(* the escaped body, once the URL parser has percent-encoded what it must and
   the data: URL processor has percent-decoded, is the text: every byte string
   the encoder accepts *)
Lemma percent_body_roundtrip text body :
  Forall byte_ok text -> percent_body text = Some body -> percent_decode (c0_encode body) = text.
Proof.
  intros Hok H. unfold percent_body in H. eapply body_decode; eauto.
Qed.

(* ---- the whole URL ---- *)
Definition clean (b : Z) : Prop := b <> 9 /\ b <> 10 /\ b <> 13 /\ b <> 35.

Lemma hex_digit_clean d : 0 <= d < 16 -> clean (hex_digit d) /\ 32 < hex_digit d.
Proof. intros H. unfold clean, hex_digit. destruct (d <? 10) eqn:E; lia. Qed.

Lemma body_clean fuel : forall l i n ts out,
  pbody fuel l i n ts = Some out -> Forall byte_ok l -> Forall clean out.
Proof.
  induction fuel as [|f IH]; intros l i n ts out H Hok; [discriminate|].
  destruct l as [|c rest]; [cbn in H; inversion H; constructor|].
  pose proof (Forall_inv Hok) as Hc. pose proof (Forall_inv_tail Hok) as Hrest.
  destruct (pbody_step _ _ _ _ _ _ _ H) as [w [out' [Hr Hcase]]].
  assert (Hsk : Forall byte_ok (skipn w (c :: rest))).
  { clear -Hok. revert Hok. generalize (c :: rest). intros l0 Hok. revert w.
    induction Hok as [|x l0 Hx Hl IHl]; intros w; destruct w; cbn; auto. }
  pose proof (IH _ _ _ _ _ Hr Hsk) as Hout'.
  destruct Hcase as [[-> [Hlt [Hm ->]]]|[[-> [Hlt [Hm ->]]]|[Hw [Hl [Hf ->]]]]].
  - unfold escape. unfold byte_ok in Hc.
    destruct (hex_digit_clean (c / 16)) as [A _]; [split; [apply Z.div_pos; lia|apply Z.div_lt_upper_bound; lia]|].
    destruct (hex_digit_clean (c mod 16)) as [B _]; [apply Z.mod_pos_bound; lia|].
    cbn [app]. constructor; [unfold clean; lia|]. constructor; [exact A|]. constructor; [exact B|exact Hout'].
  - constructor; [|exact Hout']. unfold must_escape in Hm. unfold clean.
    repeat (apply orb_false_iff in Hm as [Hm ?]). lia.
  - apply Forall_app. split; [|exact Hout'].
    eapply Forall_impl; [|exact Hf]. intros b Hb. unfold clean. cbn in Hb. lia.
Qed.

Lemma trailing_len_nonneg l : 0 <= trailing_len l.
Proof. induction l as [|c r IH]; cbn [trailing_len]; [lia|]. destruct ((32 <? c) || (c =? 9) || (c =? 10) || (c =? 13)); lia. Qed.

Lemma last_char_raw pre c :
  must_escape c [] (Z.of_nat (length pre)) (Z.of_nat (length (pre ++ [c]))) (trailing_start (pre ++ [c])) = false ->
  32 < c.
Proof.
  unfold must_escape, trailing_start. rewrite rev_app_distr. cbn [rev app trailing_len].
  rewrite app_length. cbn [length]. intros H.
  repeat (apply orb_false_iff in H as [H ?]).
  pose proof (trailing_len_nonneg (rev pre)).
  destruct ((32 <? c) || (c =? 9) || (c =? 10) || (c =? 13)) eqn:E; [|lia].
  lia.
Qed.

Lemma last_app_nonempty {A} (a b : list A) d : b <> [] -> last (a ++ b) d = last b d.
Proof.
  intros Hb. induction a as [|x a IH]; [reflexivity|].
  cbn [app]. assert (Hne : a ++ b <> []) by (destruct a; [exact Hb|discriminate]).
  rewrite <- IH. destruct (a ++ b); [contradiction|reflexivity].
Qed.

Lemma pbody_nonempty fuel c rest i n ts out : pbody fuel (c :: rest) i n ts = Some out -> out <> [].
Proof.
  destruct fuel; [discriminate|]. intros H.
  destruct (pbody_step _ _ _ _ _ _ _ H) as [w [out' [Hr Hcase]]].
  destruct Hcase as [[-> [Hlt [Hm ->]]]|[[-> [Hlt [Hm ->]]]|[Hw [Hl [Hf ->]]]]]; try discriminate.
  destruct w; [lia|]. discriminate.
Qed.

Lemma body_last fuel : forall l pre out,
  pbody fuel l (Z.of_nat (length pre)) (Z.of_nat (length (pre ++ l))) (trailing_start (pre ++ l)) = Some out ->
  Forall byte_ok l -> out <> [] -> 32 < last out 0.
Proof.
  induction fuel as [|f IH]; intros l pre out H Hok Hne; [discriminate|].
  destruct l as [|c rest]; [cbn in H; inversion H; subst; contradiction|].
  pose proof (Forall_inv Hok) as Hc. pose proof (Forall_inv_tail Hok) as Hrest.
  destruct (pbody_step _ _ _ _ _ _ _ H) as [w [out' [Hr Hcase]]].
  assert (Hsk : Forall byte_ok (skipn w (c :: rest))).
  { clear -Hok. revert Hok. generalize (c :: rest). intros l0 Hok. revert w.
    induction Hok as [|x l0 Hx Hl IHl]; intros w; destruct w; cbn; auto. }
  assert (Hrec : out' <> [] -> 32 < last out' 0).
  { intros Hne'. apply (IH (skipn w (c :: rest)) (pre ++ firstn w (c :: rest)) out'); auto.
    rewrite <- app_assoc, firstn_skipn.
    replace (Z.of_nat (length (pre ++ firstn w (c :: rest)))) with (Z.of_nat (length pre) + Z.of_nat w); [exact Hr|].
    rewrite app_length, firstn_length.
    destruct Hcase as [[-> _]|[[-> _]|[_ [Hl _]]]]; cbn [length] in *; lia. }
  destruct Hcase as [[-> [Hlt [Hm ->]]]|[[-> [Hlt [Hm ->]]]|[Hw [Hl [Hf ->]]]]].
  - destruct out' as [|o out'].
    + unfold escape. cbn. unfold byte_ok in Hc.
      destruct (hex_digit_clean (c mod 16)) as [_ B]; [apply Z.mod_pos_bound; lia|]. exact B.
    + rewrite last_app_nonempty by discriminate. apply Hrec. discriminate.
  - destruct out' as [|o out'].
    + cbn [skipn] in Hr. destruct rest as [|c2 rest2].
      * cbn [last]. eapply last_char_raw. exact Hm.
      * exfalso. eapply pbody_nonempty; eauto.
    + change (c :: o :: out') with ([c] ++ o :: out'). rewrite last_app_nonempty by discriminate.
      apply Hrec. discriminate.
  - destruct out' as [|o out'].
    + rewrite app_nil_r.
      assert (Hne2 : firstn w (c :: rest) <> []) by (destruct w; [lia|discriminate]).
      destruct (exists_last Hne2) as [l' [x Hx]]. rewrite Hx in *.
      rewrite last_last. apply Forall_app in Hf as [_ Hf]. inversion Hf; subst. lia.
    + rewrite last_app_nonempty by discriminate. apply Hrec. discriminate.
Qed.

Definition mime_ok (mime : bytes) : Prop :=
  Forall (fun b => 32 < b <= 126 /\ b <> 44 /\ b <> 35 /\ b <> 37) mime /\ ends_with_base64 mime = None.

Lemma drop_leading_id c l : 32 < c -> drop_leading (c :: l) = c :: l.
Proof. intros H. cbn. unfold c0_or_space. replace (c <=? 32) with false by lia. reflexivity. Qed.

Lemma strip_id c l x : 32 < c -> 32 < x -> strip_c0_space (c :: l ++ [x]) = c :: l ++ [x].
Proof.
  intros Hc Hx. unfold strip_c0_space. rewrite drop_leading_id by assumption.
  change (c :: l ++ [x]) with ((c :: l) ++ [x]). rewrite rev_app_distr. cbn [rev app].
  rewrite drop_leading_id by assumption.
  change (x :: rev l ++ [c]) with ([x] ++ (rev l ++ [c])).
  rewrite rev_app_distr, rev_app_distr, rev_involutive. reflexivity.
Qed.

Lemma filter_id {A} (f : A -> bool) l : Forall (fun x => f x = true) l -> filter f l = l.
Proof. induction 1 as [|x l Hx Hl IH]; cbn; [reflexivity|]. rewrite Hx, IH. reflexivity. Qed.

Lemma cut_fragment_id l : Forall (fun b => b <> 35) l -> cut_fragment l = l.
Proof.
  induction 1 as [|x l Hx Hl IH]; cbn; [reflexivity|].
  replace (x =? 35) with false by lia. rewrite IH. reflexivity.
Qed.

Lemma c0_encode_app a b : c0_encode (a ++ b) = c0_encode a ++ c0_encode b.
Proof. unfold c0_encode. apply flat_map_app. Qed.

Lemma c0_encode_printable l : Forall (fun b => 32 <= b <= 126) l -> c0_encode l = l.
Proof.
  induction 1 as [|x l Hx Hl IH]; [reflexivity|].
  rewrite c0_cons, IH. replace ((x <? 32) || (126 <? x)) with false by lia. reflexivity.
Qed.

Lemma split_comma_app a b : Forall (fun x => x <> 44) a -> split_comma (a ++ 44 :: b) = Some (a, b).
Proof.
  induction 1 as [|x a Hx Ha IH]; cbn.
  - reflexivity.
  - replace (x =? 44) with false by lia. rewrite IH. reflexivity.
Qed.

Lemma percent_roundtrip_all mime text url :
  mime_ok mime -> Forall byte_ok text -> encode_percent mime text = Some url ->
  whatwg_data_url_body url = Some (mime, false, text).
Proof.
  intros [Hm Hb64] Hok He. unfold encode_percent in He.
  destruct (percent_body text) as [body|] eqn:Eb; [|discriminate]. inversion He; subst url; clear He.
  pose proof (percent_body_roundtrip _ _ Hok Eb) as Hdec.
  unfold percent_body in Eb.
  pose proof (body_clean _ _ _ _ _ _ Eb Hok) as Hclean.
  assert (Hlast : body <> [] -> 32 < last body 0).
  { intros Hne. apply (body_last (S (length text)) text [] body); auto. }
  unfold whatwg_data_url_body.
  change (100 :: 97 :: 116 :: 97 :: 58 :: mime ++ 44 :: body) with (data_prefix ++ mime ++ [44] ++ body).
  (* the URL as first byte :: middle ++ [last byte] *)
  assert (Hshape : exists mid x, data_prefix ++ mime ++ [44] ++ body = 100 :: mid ++ [x] /\ 32 < x).
  { destruct body as [|b0 body'] eqn:Ebody.
    - exists ([97; 116; 97; 58] ++ mime), 44. split; [|lia].
      unfold data_prefix. cbn [app]. reflexivity.
    - destruct (@exists_last _ (b0 :: body') ltac:(discriminate)) as [b' [x Hx]].
      exists ([97; 116; 97; 58] ++ mime ++ [44] ++ b'), x. split.
      + rewrite Hx. unfold data_prefix. cbn [app]. do 5 f_equal. rewrite <- app_assoc. reflexivity.
      + specialize (Hlast ltac:(discriminate)). rewrite Hx, last_last in Hlast. exact Hlast. }
  destruct Hshape as [mid [x [Hshape Hx]]].
  rewrite Hshape, strip_id by lia. rewrite <- Hshape. clear Hshape mid x Hx.
  unfold remove_tab_newline. rewrite filter_id.
  2:{ unfold data_prefix. apply Forall_app. split; [repeat constructor|].
      apply Forall_app. split.
      - eapply Forall_impl; [|exact Hm]. intros b Hb. cbn beta in Hb. unfold tab_or_newline.
        replace (b =? 9) with false by lia. replace (b =? 10) with false by lia.
        replace (b =? 13) with false by lia. reflexivity.
      - apply Forall_app. split; [repeat constructor|].
        eapply Forall_impl; [|exact Hclean]. intros b Hb. cbn beta in Hb. unfold clean in Hb. unfold tab_or_newline.
        replace (b =? 9) with false by lia. replace (b =? 10) with false by lia.
        replace (b =? 13) with false by lia. reflexivity. }
  unfold data_prefix. cbn [app starts_with]. rewrite !Z.eqb_refl.
  rewrite cut_fragment_id.
  2:{ apply Forall_app. split.
      - eapply Forall_impl; [|exact Hm]. intros b Hb. cbn beta in Hb. lia.
      - constructor; [lia|]. eapply Forall_impl; [|exact Hclean]. intros b Hb. cbn beta in Hb. unfold clean in Hb. lia. }
  rewrite c0_encode_app, c0_encode_printable.
  2:{ eapply Forall_impl; [|exact Hm]. intros b Hb. cbn beta in Hb. lia. }
  rewrite c0_cons. replace ((44 <? 32) || (126 <? 44)) with false by reflexivity. cbn [app].
  rewrite split_comma_app.
  2:{ eapply Forall_impl; [|exact Hm]. intros b Hb. cbn beta in Hb. lia. }
  rewrite Hdec, Hb64. reflexivity.
Qed.

(* ---- the base64 branch of EncodeStringAsShortestDataURL (the codec itself is trusted) ---- *)
Definition b64_char (c : Z) : Prop :=
  (65 <= c <= 90) \/ (97 <= c <= 122) \/ (48 <= c <= 57) \/ c = 43 \/ c = 47 \/ c = 61.

Lemma percent_decode_no_pct l : Forall (fun c => c <> 37) l -> percent_decode l = l.
Proof.
  induction 1 as [|c l Hc Hl IH]; [reflexivity|]. cbn [percent_decode].
  replace (c =? 37) with false by lia. rewrite IH. reflexivity.
Qed.

Lemma starts_with_app p l : starts_with p (p ++ l) = Some l.
Proof. induction p as [|a p IH]; cbn; [reflexivity|]. rewrite Z.eqb_refl. exact IH. Qed.

Lemma ends_with_base64_app mime : ends_with_base64 (mime ++ base64_suffix) = Some mime.
Proof.
  unfold ends_with_base64. rewrite rev_app_distr, starts_with_app, rev_involutive. reflexivity.
Qed.

Section Base64.
  Variable b64enc : bytes -> bytes.
  Variable b64dec : bytes -> option bytes.
  Hypothesis b64_roundtrip : forall t, Forall byte_ok t -> b64dec (b64enc t) = Some t.
  Hypothesis b64_alphabet : forall t, Forall byte_ok t -> Forall b64_char (b64enc t).

  (* the bytes a data: URL denotes *)
  Definition data_url_value (url : bytes) : option bytes :=
    match whatwg_data_url_body url with
    | Some (_, true, body) => b64dec body
    | Some (_, false, body) => Some body
    | None => None
    end.

  Lemma base64_url_value mime text :
    mime_ok mime -> Forall byte_ok text ->
    data_url_value (data_prefix ++ mime ++ base64_marker ++ [44] ++ b64enc text) = Some text.
  Proof.
    intros [Hm _] Hbytes. unfold data_url_value, whatwg_data_url_body.
    pose proof (b64_alphabet text Hbytes) as Ha.
    set (B := b64enc text) in *.
    (* shape: first byte :: middle ++ [last byte], last byte > 32 *)
    assert (Hshape : exists mid x, data_prefix ++ mime ++ base64_marker ++ [44] ++ B = 100 :: mid ++ [x] /\ 32 < x).
    { destruct B as [|b0 B'] eqn:EB.
      - exists ([97; 116; 97; 58] ++ mime ++ base64_marker), 44. split; [|lia].
        unfold data_prefix. cbn [app]. rewrite <- !app_assoc. reflexivity.
      - destruct (@exists_last _ (b0 :: B') ltac:(discriminate)) as [b' [x Hx]].
        exists ([97; 116; 97; 58] ++ mime ++ base64_marker ++ [44] ++ b'), x. split.
        + rewrite Hx. unfold data_prefix. cbn [app]. do 5 f_equal. rewrite <- !app_assoc. reflexivity.
        + rewrite Hx in Ha. apply Forall_app in Ha as [_ Ha]. inversion Ha; subst. unfold b64_char in *. lia. }
    destruct Hshape as [mid [x [Hshape Hx]]].
    rewrite Hshape, strip_id by lia. rewrite <- Hshape. clear Hshape mid x Hx.
    assert (Hmk : Forall (fun b => 32 < b <= 126 /\ b <> 44 /\ b <> 35 /\ b <> 37) base64_marker) by (repeat constructor; lia).
    assert (Hb : Forall (fun b => 32 < b <= 126 /\ b <> 44 /\ b <> 35 /\ b <> 37) B).
    { eapply Forall_impl; [|exact Ha]. intros b Hbc. unfold b64_char in Hbc. lia. }
    unfold remove_tab_newline. rewrite filter_id.
    2:{ unfold data_prefix. apply Forall_app. split; [repeat constructor|].
        assert (Hg : forall l, Forall (fun b => 32 < b <= 126 /\ b <> 44 /\ b <> 35 /\ b <> 37) l ->
                     Forall (fun c => negb (tab_or_newline c) = true) l).
        { intros l Hl. eapply Forall_impl; [|exact Hl]. intros b Hbb. cbn beta in Hbb. unfold tab_or_newline.
          replace (b =? 9) with false by lia. replace (b =? 10) with false by lia. replace (b =? 13) with false by lia. reflexivity. }
        apply Forall_app. split; [apply Hg; exact Hm|]. apply Forall_app. split; [apply Hg; exact Hmk|].
        apply Forall_app. split; [repeat constructor|apply Hg; exact Hb]. }
    unfold data_prefix. cbn [app starts_with]. rewrite !Z.eqb_refl.
    rewrite (app_assoc mime base64_marker).
    rewrite cut_fragment_id.
    2:{ apply Forall_app. split.
        - apply Forall_app. split; eapply Forall_impl; try exact Hm; try exact Hmk; intros b Hbb; cbn beta in Hbb; lia.
        - constructor; [lia|]. eapply Forall_impl; [|exact Hb]. intros b Hbb. cbn beta in Hbb. lia. }
    rewrite c0_encode_app, c0_encode_printable.
    2:{ apply Forall_app. split; eapply Forall_impl; try exact Hm; try exact Hmk; intros b Hbb; cbn beta in Hbb; lia. }
    rewrite c0_cons. replace ((44 <? 32) || (126 <? 44)) with false by reflexivity. cbn [app].
    rewrite split_comma_app.
    2:{ apply Forall_app. split; eapply Forall_impl; try exact Hm; try exact Hmk; intros b Hbb; cbn beta in Hbb; lia. }
    rewrite c0_encode_printable by (eapply Forall_impl; [|exact Hb]; intros b Hbb; cbn beta in Hbb; lia).
    rewrite percent_decode_no_pct by (eapply Forall_impl; [|exact Hb]; intros b Hbb; cbn beta in Hbb; lia).
    change base64_marker with base64_suffix. rewrite ends_with_base64_app. apply b64_roundtrip. exact Hbytes.
  Qed.

  (* EncodeStringAsShortestDataURL: whichever form is chosen denotes the text *)
  Lemma shortest_roundtrip_all mime text :
    mime_ok mime -> Forall byte_ok text -> data_url_value (encode_shortest b64enc mime text) = Some text.
  Proof.
    intros Hm Hok. unfold encode_shortest.
    destruct (encode_percent mime text) as [p|] eqn:Ep.
    - destruct (Nat.ltb (length p) (length (data_prefix ++ mime ++ base64_marker ++ [44] ++ b64enc text))).
      + unfold data_url_value. rewrite (percent_roundtrip_all _ _ _ Hm Hok Ep). reflexivity.
      + apply base64_url_value; assumption.
    - apply base64_url_value; assumption.
  Qed.
End Base64.
