(* Wrapping is closed under imports: after scanImportsAndExports steps 1-2,
   every file imported by a wrapped file is wrapped (runtime file excepted). *)
From V Require Import Common.Base C02.Graph C02.Wrap.

Definition wrap_of (st : cstate) (x : nat) : wkind := snd (cget st x).
Definition wrapped (st : cstate) (x : nat) : Prop := wrap_of st x <> WNone.

Lemma length_cset st i v : length (cset st i v) = length st.
Proof. revert i. induction st as [|a st IH]; intros [|i]; cbn; auto. Qed.

Lemma cget_cset_same st i v : (i < length st)%nat -> cget (cset st i v) i = v.
Proof.
  revert i. induction st as [|a st IH]; intros [|i] H; cbn in *; try lia; auto.
  unfold cget in *. cbn. apply IH. lia.
Qed.

Lemma cget_cset_other st i j v : i <> j -> cget (cset st i v) j = cget st j.
Proof.
  revert i j. induction st as [|a st IH]; intros [|i] [|j] H; cbn; auto; try congruence.
  unfold cget in *. cbn. apply IH. congruence.
Qed.

Lemma wkind_eqb_none w : wkind_eqb w WNone = true <-> w = WNone.
Proof. destruct w; cbn; split; intros; congruence. Qed.

Section WrapDeps.
  Variable g : graph.

  Definition WInv (ws ws' : wstate) : Prop :=
    length (fst ws') = length (fst ws) /\
    incl (snd ws) (snd ws') /\
    (forall x, wrapped (fst ws) x -> wrapped (fst ws') x) /\
    (forall x, wrapped (fst ws') x -> wrapped (fst ws) x \/ In x (snd ws')) /\
    (forall x, In x (snd ws') -> ~ In x (snd ws) -> x <> 0%nat -> (x < length (fst ws))%nat ->
       wrapped (fst ws') x /\ incl (all_targets (getm g x)) (snd ws')).

  Lemma WInv_refl ws : WInv ws ws.
  Proof. repeat split; auto using incl_refl; intros; contradiction. Qed.

  Lemma WInv_trans a b c : WInv a b -> WInv b c -> WInv a c.
  Proof.
    intros [L1 [I1 [M1 [N1 D1]]]] [L2 [I2 [M2 [N2 D2]]]].
    split; [congruence|]. split; [eapply incl_tran; eauto|]. split; [auto|]. split.
    - intros x Hx. destruct (N2 x Hx) as [Hb|Hd]; [|right; exact Hd].
      destruct (N1 x Hb) as [Ha|Hd]; [left; exact Ha|right; apply I2; exact Hd].
    - intros x Hx Hnot H0 Hlen.
      destruct (in_dec Nat.eq_dec x (snd b)) as [Hin|Hnin].
      + destruct (D1 x Hin Hnot H0 Hlen) as [Hw Ht]. split; [apply M2; exact Hw|eapply incl_tran; eauto].
      + apply D2; auto. rewrite L1. exact Hlen.
  Qed.

  Definition wstep (f : nat) (acc : option wstate) (t : nat) : option wstate :=
    match acc with Some ws' => wrap_deps f g t ws' | None => None end.
  Definition wfold (f : nat) (l : list nat) (acc : option wstate) : option wstate := fold_left (wstep f) l acc.

  Lemma wfold_none f l : wfold f l None = None.
  Proof. unfold wfold. induction l; cbn; auto. Qed.

  Lemma wfold_cons f x l ws : wfold f (x :: l) (Some ws) = wfold f l (wrap_deps f g x ws).
  Proof. reflexivity. Qed.

  Lemma wfold_WInv f
    (IH : forall s ws ws', wrap_deps f g s ws = Some ws' -> WInv ws ws' /\ In s (snd ws')) :
    forall l ws ws', wfold f l (Some ws) = Some ws' -> WInv ws ws' /\ incl l (snd ws').
  Proof.
    induction l as [|x l IHl]; intros ws ws' H.
    - cbn in H. inversion H; subst. split; [apply WInv_refl|intros y []].
    - rewrite wfold_cons in H.
      destruct (wrap_deps f g x ws) as [ws1|] eqn:E; [|rewrite wfold_none in H; discriminate].
      destruct (IH _ _ _ E) as [I1 Hx]. destruct (IHl _ _ H) as [I2 Hl].
      split; [eapply WInv_trans; eauto|].
      intros y [<-|Hy]; [|auto]. destruct I2 as [_ [Hincl _]]. apply Hincl. exact Hx.
  Qed.

  Lemma wrap_deps_WInv fuel : forall s ws ws',
    wrap_deps fuel g s ws = Some ws' -> WInv ws ws' /\ In s (snd ws').
  Proof.
    induction fuel as [|f IH]; intros s [st did] ws' H; [discriminate|].
    cbn [wrap_deps] in H. destruct (memn s did) eqn:Em.
    { inversion H; subst. split; [apply WInv_refl|]. apply memn_In. exact Em. }
    assert (Hnd : ~ In s did) by (intro Hi; apply memn_In in Hi; congruence).
    destruct (Nat.eqb s 0) eqn:E0.
    { inversion H; subst. apply Nat.eqb_eq in E0. subst s. split; [|left; reflexivity].
      split; [reflexivity|]. split; [apply incl_tl, incl_refl|]. split; [auto|]. split; [auto|].
      cbn [fst snd]. intros x [<-|Hx] Hn Hx0 _; [congruence|contradiction]. }
    apply Nat.eqb_neq in E0.
    destruct (cget st s) as [k w] eqn:Ec.
    set (st1 := if wkind_eqb w WNone then cset st s (k, if ekind_eqb k ECJS then WCJS else WESM) else st) in *.
    change (wfold f (all_targets (getm g s)) (Some (st1, s :: did)) = Some ws') in H.
    destruct (wfold_WInv f IH _ _ _ H) as [[L2 [I2 [M2 [N2 D2]]]] Hall]. cbn [fst snd] in *.
    assert (L1 : length st1 = length st).
    { unfold st1. destruct (wkind_eqb w WNone); [apply length_cset|reflexivity]. }
    assert (M1 : forall x, wrapped st x -> wrapped st1 x).
    { intros x Hx. unfold st1. destruct (wkind_eqb w WNone) eqn:Ew; [|exact Hx].
      apply wkind_eqb_none in Ew. subst w.
      destruct (Nat.eq_dec s x) as [<-|Hne].
      - exfalso. apply Hx. unfold wrap_of. rewrite Ec. reflexivity.
      - unfold wrapped, wrap_of. rewrite cget_cset_other by exact Hne. exact Hx. }
    assert (N1 : forall x, wrapped st1 x -> wrapped st x \/ x = s).
    { intros x Hx. destruct (Nat.eq_dec s x) as [<-|Hne]; [right; reflexivity|left].
      unfold st1 in Hx. destruct (wkind_eqb w WNone); [|exact Hx].
      unfold wrapped, wrap_of in *. rewrite cget_cset_other in Hx by exact Hne. exact Hx. }
    assert (W1 : (s < length st)%nat -> wrapped st1 s).
    { intros Hlen. unfold st1. destruct (wkind_eqb w WNone) eqn:Ew.
      - unfold wrapped, wrap_of. rewrite cget_cset_same by exact Hlen. cbn. destruct (ekind_eqb k ECJS); discriminate.
      - unfold wrapped, wrap_of. rewrite Ec. cbn. intro Hw. subst w. discriminate. }
    split.
    - unfold WInv. cbn [fst snd].
      split; [congruence|]. split; [intros x Hx; apply I2; right; exact Hx|].
      split; [intros x Hx; apply M2, M1, Hx|]. split.
      + intros x Hx. destruct (N2 x Hx) as [Hb|Hd]; [|right; exact Hd].
        destruct (N1 x Hb) as [Ha|Heq]; [left; exact Ha|subst x; right; apply I2; left; reflexivity].
      + intros x Hx Hnot Hx0 Hlen. destruct (Nat.eq_dec x s) as [->|Hne].
        * split; [apply M2, W1, Hlen|exact Hall].
        * apply D2; auto; [intros [Heq|Hin]; [congruence|contradiction]|rewrite L1; exact Hlen].
    - apply I2. left. reflexivity.
  Qed.
End WrapDeps.

(* dyn_star never changes a wrap kind *)
Lemma wraps_cset_kind st s k : map snd (cset st s (k, snd (cget st s))) = map snd st.
Proof.
  revert s. induction st as [|a st IH]; intros [|s]; cbn; auto.
  unfold cget in *. cbn. f_equal. apply IH.
Qed.

Lemma dyn_loop_wraps rec keep_esm m s :
  (forall t st vis b st' vis', rec t st vis = Some (b, st', vis') -> map snd st' = map snd st) ->
  forall stars st vis b st' vis',
    dyn_loop rec keep_esm m s stars st vis = Some (b, st', vis') -> map snd st' = map snd st.
Proof.
  intros Hrec. induction stars as [|i rest IH]; intros st vis b st' vis' H; cbn [dyn_loop] in H.
  - inversion H; reflexivity.
  - destruct (record_of m i) as [r|]; [|eapply IH; eauto].
    destruct (r_target r) as [t|].
    + destruct (Nat.eqb t s); [eapply IH; eauto|].
      destruct (rec t st vis) as [[[b1 st1] vis1]|] eqn:Er; [|discriminate].
      pose proof (Hrec _ _ _ _ _ _ Er) as H1.
      destruct b1.
      * inversion H; subst. rewrite wraps_cset_kind. exact H1.
      * rewrite <- H1. eapply IH; eauto.
    + destruct (negb (m_entry m) || negb keep_esm).
      * inversion H; subst. apply wraps_cset_kind.
      * eapply IH; eauto.
Qed.

Lemma dyn_star_wraps keep_esm g fuel : forall s st vis b st' vis',
  dyn_star fuel keep_esm g s st vis = Some (b, st', vis') -> map snd st' = map snd st.
Proof.
  induction fuel as [|f IH]; intros s st vis b st' vis' H; [discriminate|].
  cbn [dyn_star] in H. destruct (cget st s) as [k w].
  destruct (ekind_eqb k ECJS || ekind_eqb k EDyn); [inversion H; reflexivity|].
  destruct (memn s vis); [inversion H; reflexivity|].
  eapply dyn_loop_wraps; eauto.
Qed.

Lemma wrap_of_map st st' x : map snd st' = map snd st -> wrap_of st' x = wrap_of st x.
Proof.
  intros H. unfold wrap_of, cget.
  change (snd (nth x st' (ENone, WNone))) with (snd (nth x st' (ENone, WNone))).
  rewrite <- (map_nth snd st' (ENone, WNone) x), <- (map_nth snd st (ENone, WNone) x), H. reflexivity.
Qed.


Lemma length_classify_record g st r : length (classify_record g st r) = length st.
Proof.
  unfold classify_record. destruct (r_target r) as [t|]; [|reflexivity].
  destruct (cget st t) as [k w]. destruct (r_kind r).
  - destruct ((r_star r || r_default r) && ekind_eqb k ENone && negb (m_lazy (getm g t))); [apply length_cset|reflexivity].
  - destruct (ekind_eqb k EESM); apply length_cset.
  - destruct (ekind_eqb k EESM); apply length_cset.
  - reflexivity.
Qed.

Lemma length_classify fmt g order : length (classify fmt g order) = length g.
Proof.
  unfold classify.
  assert (H : forall l st, length (fold_left (classify_file fmt g) l st) = length st).
  { induction l as [|s l IH]; intros st; [reflexivity|]. cbn [fold_left]. rewrite IH.
    unfold classify_file.
    assert (H1 : forall rs st0, length (fold_left (classify_record g) rs st0) = length st0).
    { induction rs as [|r rs IHr]; intros st0; [reflexivity|]. cbn [fold_left]. rewrite IHr. apply length_classify_record. }
    destruct (cget (fold_left (classify_record g) (m_records (getm g s)) st) s) as [k w].
    destruct (ekind_eqb k ECJS && (negb (m_entry (getm g s)) || fmt)); [rewrite length_cset|]; apply H1. }
  rewrite H. unfold init_state. apply map_length.
Qed.

Section Closed.
  Variable g : graph.
  Variable keep_esm : bool.
  Let fuel := S (length g).

  (* invariant of the step-2 loop: the DidWrapDependencies set is wrapped and
     closed under imports; [seen] are the files the loop has processed *)
  Definition G (n : nat) (seen : list nat) (ws : wstate) : Prop :=
    length (fst ws) = n /\
    (forall x, In x (snd ws) -> x <> 0%nat -> (x < n)%nat ->
       wrapped (fst ws) x /\ incl (all_targets (getm g x)) (snd ws)) /\
    (forall x, In x seen -> wrapped (fst ws) x -> In x (snd ws)).

  Lemma G_WInv n seen ws ws' : G n seen ws -> WInv g ws ws' -> G n seen ws'.
  Proof.
    intros [L [C S]] [L2 [I2 [M2 [N2 D2]]]]. split; [congruence|]. split.
    - intros x Hx H0 Hlen. destruct (in_dec Nat.eq_dec x (snd ws)) as [Hin|Hnin].
      + destruct (C x Hin H0 Hlen) as [Hw Ht]. split; [apply M2; exact Hw|eapply incl_tran; eauto].
      + apply D2; auto. rewrite L. exact Hlen.
    - intros x Hx Hw. destruct (N2 x Hw) as [Hb|Hd]; [apply I2, S; auto|exact Hd].
  Qed.

  Lemma G_wraps n seen st st' did : G n seen (st, did) -> map snd st' = map snd st -> G n seen (st', did).
  Proof.
    intros [L [C S]] H. cbn [fst snd] in *.
    assert (Hw : forall x, wrapped st' x <-> wrapped st x).
    { intros x. unfold wrapped. rewrite (wrap_of_map _ _ x H). tauto. }
    split; [|split]; cbn [fst snd].
    - rewrite <- L. rewrite <- (map_length snd st'), <- (map_length snd st), H. reflexivity.
    - intros x Hx H0 Hlen. destruct (C x Hx H0 Hlen) as [Ha Hb]. split; [apply Hw; exact Ha|exact Hb].
    - intros x Hx Hwx. apply S; [exact Hx|apply Hw; exact Hwx].
  Qed.

  Definition cond_step (acc : option wstate) (t : nat) : option wstate :=
    match acc with
    | None => None
    | Some ws' => if ekind_eqb (fst (cget (fst ws') t)) ECJS then wrap_deps fuel g t ws' else Some ws'
    end.

  Lemma cond_fold_none l : fold_left cond_step l None = None.
  Proof. induction l; cbn; auto. Qed.

  Lemma cond_fold_G n seen : forall l ws ws',
    fold_left cond_step l (Some ws) = Some ws' -> G n seen ws -> G n seen ws'.
  Proof.
    induction l as [|t l IH]; intros ws ws' H HG; [inversion H; subst; exact HG|].
    cbn [fold_left cond_step] in H.
    destruct (ekind_eqb (fst (cget (fst ws) t)) ECJS).
    - destruct (wrap_deps fuel g t ws) as [ws1|] eqn:E; [|rewrite cond_fold_none in H; discriminate].
      eapply IH; eauto. eapply G_WInv; eauto. eapply wrap_deps_WInv; eauto.
    - eapply IH; eauto.
  Qed.

  Lemma wrap_file_G n seen ws s ws' :
    G n seen ws -> wrap_file fuel keep_esm g (Some ws) s = Some ws' -> G n (s :: seen) ws'.
  Proof.
    intros HG H. unfold wrap_file in H.
    assert (H1 : exists ws1,
               (if wkind_eqb (snd (cget (fst ws) s)) WNone then Some ws else wrap_deps fuel g s ws) = Some ws1 /\
               G n (s :: seen) ws1).
    { destruct (wkind_eqb (snd (cget (fst ws) s)) WNone) eqn:Ew.
      - exists ws. split; [reflexivity|]. destruct HG as [L [C S]]. split; [exact L|]. split; [exact C|].
        intros x [<-|Hx] Hw; [|auto]. exfalso. apply Hw. apply wkind_eqb_none. exact Ew.
      - destruct (wrap_deps fuel g s ws) as [ws1|] eqn:E; [|discriminate].
        exists ws1. split; [reflexivity|].
        destruct (wrap_deps_WInv g _ _ _ _ E) as [HW Hin].
        destruct (G_WInv _ _ _ _ HG HW) as [L [C S]]. split; [exact L|]. split; [exact C|].
        intros x [<-|Hx] Hw; [exact Hin|auto]. }
    destruct H1 as [[st1 did1] [E1 HG1]]. rewrite E1 in H.
    set (r2 := match m_stars (getm g s) with
               | [] => Some st1
               | _ :: _ => match dyn_star fuel keep_esm g s st1 [] with Some (_, st', _) => Some st' | None => None end
               end) in *.
    destruct r2 as [st2|] eqn:E2; [|discriminate].
    assert (Hw2 : map snd st2 = map snd st1).
    { unfold r2 in E2. destruct (m_stars (getm g s)); [inversion E2; reflexivity|].
      destruct (dyn_star fuel keep_esm g s st1 []) as [[[b st'] vis']|] eqn:Ed; [|discriminate].
      inversion E2; subst. eapply dyn_star_wraps; eauto. }
    eapply (cond_fold_G n (s :: seen)); [exact H|]. eapply G_wraps; eauto.
  Qed.

  Lemma wrap_fold_none l : fold_left (wrap_file fuel keep_esm g) l None = None.
  Proof. induction l; cbn; auto. Qed.

  Lemma wrap_fold_G n : forall order seen ws ws',
    fold_left (wrap_file fuel keep_esm g) order (Some ws) = Some ws' -> G n seen ws -> G n (rev order ++ seen) ws'.
  Proof.
    induction order as [|s order IH]; intros seen ws ws' H HG; [inversion H; subst; exact HG|].
    cbn [fold_left] in H.
    destruct (wrap_file fuel keep_esm g (Some ws) s) as [ws1|] eqn:E; [|rewrite wrap_fold_none in H; discriminate].
    cbn [rev]. rewrite <- app_assoc. cbn [app]. eapply IH; eauto. eapply wrap_file_G; eauto.
  Qed.

  Lemma wrap_closed_all fmt order st :
    scan_steps12 fmt keep_esm g order = Some st ->
    forall s, In s order -> s <> 0%nat -> (s < length g)%nat -> wrapped st s ->
    forall t, In t (all_targets (getm g s)) -> t <> 0%nat -> (t < length g)%nat -> wrapped st t.
  Proof.
    unfold scan_steps12. fold fuel. intros H s Hs Hs0 Hsl Hw t Ht Ht0 Htl.
    destruct (fold_left (wrap_file fuel keep_esm g) order (Some (classify fmt g order, []))) as [[st' did]|] eqn:E; [|discriminate].
    inversion H; subst st'; clear H.
    assert (HG0 : G (length g) [] (classify fmt g order, [])).
    { split; [apply length_classify|]. split; [intros x []|intros x []]. }
    destruct (wrap_fold_G _ _ _ _ _ E HG0) as [L [C S]]. cbn [fst snd] in *.
    assert (Hin : In s did). { apply S; [apply in_or_app; left; apply in_rev; rewrite rev_involutive; exact Hs|exact Hw]. }
    destruct (C s Hin Hs0 Hsl) as [_ Hts].
    destruct (C t (Hts t Ht) Ht0 Htl) as [Hwt _]. exact Hwt.
  Qed.
End Closed.
