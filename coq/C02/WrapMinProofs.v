(* Wrap minimality: after scanImportsAndExports steps 1-2 a file is wrapped only if it is
   CommonJS, is the target of a require() / import() record, or is imported by a wrapped file. *)
From V Require Import Common.Base C02.Graph C02.Wrap C02.WrapProofs C02.ClassifyProofs.

Definition kind_of (st : cstate) (x : nat) : ekind := fst (cget st x).

Section Min.
  Variable g : graph.
  Variable order : list nat.
  (* the importing wrapped file of the third reason satisfies Q; Q is closed under imports *)
  Variable Q : nat -> Prop.
  Hypothesis HQ : forall p t, Q p -> In t (all_targets (getm g p)) -> Q t.
  Hypothesis HQo : forall p, In p order -> Q p.

  Definition req_dyn (s : nat) : Prop :=
    exists p r, In p order /\ In r (m_records (getm g p)) /\ r_target r = Some s /\
                (r_kind r = KRequire \/ r_kind r = KDynamic).

  Definition Reason (st : cstate) (s : nat) : Prop :=
    kind_of st s = ECJS \/ req_dyn s \/ exists p, Q p /\ wrapped st p /\ In s (all_targets (getm g p)).
  Definition Inv (st : cstate) : Prop := forall s, wrapped st s -> Reason st s.
  Definition Ext (st st' : cstate) : Prop :=
    length st' = length st /\ (forall x, wrapped st x -> wrapped st' x) /\
    (forall x, kind_of st x = ECJS -> kind_of st' x = ECJS) /\
    (forall x, kind_of st' x = ECJS -> kind_of st x = ECJS \/ wrapped st' x).

  Lemma Ext_refl st : Ext st st.
  Proof. repeat split; auto. Qed.
  Lemma Ext_trans a b c : Ext a b -> Ext b c -> Ext a c.
  Proof.
    intros [L1 [W1 [K1 J1]]] [L2 [W2 [K2 J2]]]. repeat split; [congruence|auto|auto|].
    intros x Hx. destruct (J2 x Hx) as [Hb|Hw]; [|right; exact Hw].
    destruct (J1 x Hb) as [Ha|Hw]; [left; exact Ha|right; auto].
  Qed.
  Lemma Reason_mono st st' s : Ext st st' -> Reason st s -> Reason st' s.
  Proof.
    intros [_ [W [K _]]] [H|[H|[p [Hq [Hp Hs]]]]]; [left; auto|right; left; exact H|right; right; exists p; auto].
  Qed.

  (* setting one cell *)
  Lemma set_cell st t k w :
    w <> WNone -> (kind_of st t = ECJS -> k = ECJS) ->
    Ext st (cset st t (k, w)) /\
    (forall x, wrapped (cset st t (k, w)) x -> wrapped st x \/ (x = t /\ (t < length st)%nat /\ kind_of (cset st t (k, w)) t = k)).
  Proof.
    intros Hw Hk. split.
    - split; [apply length_cset|]. split; [|split].
      + intros x Hx. destruct (Nat.eq_dec t x) as [->|Hne].
        * destruct (Nat.lt_ge_cases x (length st)) as [Hl|Hg].
          -- unfold wrapped, wrap_of. rewrite cget_cset_same by exact Hl. exact Hw.
          -- rewrite cset_out by exact Hg. exact Hx.
        * unfold wrapped, wrap_of. rewrite cget_cset_other by exact Hne. exact Hx.
      + intros x Hx. destruct (Nat.eq_dec t x) as [->|Hne].
        * destruct (Nat.lt_ge_cases x (length st)) as [Hl|Hg].
          -- unfold kind_of. rewrite cget_cset_same by exact Hl. apply Hk. exact Hx.
          -- rewrite cset_out by exact Hg. exact Hx.
        * unfold kind_of. rewrite cget_cset_other by exact Hne. exact Hx.
      + intros x Hx. destruct (Nat.eq_dec t x) as [->|Hne].
        * destruct (Nat.lt_ge_cases x (length st)) as [Hl|Hg].
          -- right. unfold wrapped, wrap_of. rewrite cget_cset_same by exact Hl. exact Hw.
          -- rewrite cset_out in Hx by exact Hg. left. exact Hx.
        * left. unfold kind_of in *. rewrite cget_cset_other in Hx by exact Hne. exact Hx.
    - intros x Hx. destruct (Nat.eq_dec t x) as [->|Hne].
      + destruct (Nat.lt_ge_cases x (length st)) as [Hl|Hg].
        * right. split; [reflexivity|]. split; [exact Hl|]. unfold kind_of. rewrite cget_cset_same by exact Hl. reflexivity.
        * rewrite cset_out in Hx by exact Hg. left. exact Hx.
      + left. unfold wrapped, wrap_of in *. rewrite cget_cset_other in Hx by exact Hne. exact Hx.
  Qed.

  (* a state change that keeps Ext and only wraps cells with a reason keeps the invariant *)
  Lemma Inv_step st st' :
    Inv st -> Ext st st' -> (forall x, wrapped st' x -> wrapped st x \/ Reason st' x) -> Inv st'.
  Proof.
    intros Hi He Hn x Hx. destruct (Hn x Hx) as [Ho|Hr]; [|exact Hr]. eapply Reason_mono; eauto.
  Qed.

  (* ---- step 1 ---- *)
  Lemma classify_record_inv p r st :
    In p order -> In r (m_records (getm g p)) -> Inv st ->
    Inv (classify_record g st r) /\ Ext st (classify_record g st r).
  Proof.
    intros Hp Hr Hi. unfold classify_record. destruct (r_target r) as [t|] eqn:Et; [|split; [exact Hi|apply Ext_refl]].
    destruct (cget st t) as [k w] eqn:Ec.
    assert (Hk : kind_of st t = k) by (unfold kind_of; rewrite Ec; reflexivity).
    destruct (r_kind r) eqn:Ek.
    - destruct ((r_star r || r_default r) && ekind_eqb k ENone && negb (m_lazy (getm g t))); [|split; [exact Hi|apply Ext_refl]].
      destruct (set_cell st t ECJS WCJS ltac:(discriminate) ltac:(auto)) as [He Hn].
      split; [|exact He]. eapply Inv_step; eauto. intros x Hx. destruct (Hn x Hx) as [Ho|[-> [_ Hkk]]]; [left; exact Ho|right; left; exact Hkk].
    - assert (Hrd : req_dyn t) by (exists p, r; auto).
      destruct (ekind_eqb k EESM) eqn:Ee.
      + destruct (set_cell st t k WESM ltac:(discriminate) ltac:(intros H; rewrite Hk in H; exact H)) as [He Hn].
        split; [|exact He]. eapply Inv_step; eauto. intros x Hx. destruct (Hn x Hx) as [Ho|[-> _]]; [left; exact Ho|right; right; left; exact Hrd].
      + destruct (set_cell st t ECJS WCJS ltac:(discriminate) ltac:(auto)) as [He Hn].
        split; [|exact He]. eapply Inv_step; eauto. intros x Hx. destruct (Hn x Hx) as [Ho|[-> _]]; [left; exact Ho|right; right; left; exact Hrd].
    - assert (Hrd : req_dyn t) by (exists p, r; auto).
      destruct (ekind_eqb k EESM) eqn:Ee.
      + destruct (set_cell st t k WESM ltac:(discriminate) ltac:(intros H; rewrite Hk in H; exact H)) as [He Hn].
        split; [|exact He]. eapply Inv_step; eauto. intros x Hx. destruct (Hn x Hx) as [Ho|[-> _]]; [left; exact Ho|right; right; left; exact Hrd].
      + destruct (set_cell st t ECJS WCJS ltac:(discriminate) ltac:(auto)) as [He Hn].
        split; [|exact He]. eapply Inv_step; eauto. intros x Hx. destruct (Hn x Hx) as [Ho|[-> _]]; [left; exact Ho|right; right; left; exact Hrd].
    - split; [exact Hi|apply Ext_refl].
  Qed.

  (* what step 1 establishes for good, per record and per file *)
  Definition Preq (r : irecord) (st : cstate) : Prop :=
    forall t, r_target r = Some t -> (r_kind r = KRequire \/ r_kind r = KDynamic) -> (t < length st)%nat -> wrapped st t.
  Definition Pfile (fmt : bool) (p : nat) (st : cstate) : Prop :=
    (forall r, In r (m_records (getm g p)) -> Preq r st) /\
    ((m_entry (getm g p) = false \/ fmt = true) -> m_kind (getm g p) = ECJS -> (p < length st)%nat -> wrapped st p).
  Definition I0 (st : cstate) : Prop := Inv st /\ Ext (init_state g) st.

  Lemma Preq_mono r st st' : Ext st st' -> Preq r st -> Preq r st'.
  Proof. intros [L [W _]] H t Ht Hk Hl. apply W. apply H; auto. rewrite <- L. exact Hl. Qed.
  Lemma Pfile_mono fmt p st st' : Ext st st' -> Pfile fmt p st -> Pfile fmt p st'.
  Proof.
    intros He [H1 H2]. split.
    - intros r Hr. eapply Preq_mono; eauto.
    - intros Ha Hb Hl. destruct He as [L [W _]]. apply W. apply H2; auto. rewrite <- L. exact Hl.
  Qed.

  Lemma fold_mono (A : Type) (f : cstate -> A -> cstate) (I : cstate -> Prop) (P : A -> cstate -> Prop) (D : A -> Prop) :
    (forall st x, D x -> I st -> I (f st x) /\ Ext st (f st x) /\ P x (f st x)) ->
    (forall x st st', Ext st st' -> P x st -> P x st') ->
    forall l st, (forall x, In x l -> D x) -> I st ->
      I (fold_left f l st) /\ Ext st (fold_left f l st) /\ forall x, In x l -> P x (fold_left f l st).
  Proof.
    intros Hstep Hmono. induction l as [|a l IH]; intros st Hl Hi; cbn [fold_left].
    - split; [exact Hi|]. split; [apply Ext_refl|intros x []].
    - destruct (Hstep st a (Hl a (or_introl eq_refl)) Hi) as [Hi1 [He1 Hp1]].
      destruct (IH (f st a) (fun x Hx => Hl x (or_intror Hx)) Hi1) as [Hi2 [He2 Hp2]].
      split; [exact Hi2|]. split; [eapply Ext_trans; eauto|].
      intros x [<-|Hx]; [eapply Hmono; eauto|auto].
  Qed.

  Lemma classify_record_req r st : Preq r (classify_record g st r).
  Proof.
    intros t Ht Hk Hl. rewrite length_classify_record in Hl. unfold classify_record. rewrite Ht.
    destruct (cget st t) as [k w].
    destruct Hk as [Hk|Hk]; rewrite Hk; destruct (ekind_eqb k EESM);
      unfold wrapped, wrap_of; rewrite cget_cset_same by exact Hl; cbn; discriminate.
  Qed.

  Lemma I0_step st st' : I0 st -> Inv st' -> Ext st st' -> I0 st'.
  Proof. intros [_ He0] Hi He. split; [exact Hi|eapply Ext_trans; eauto]. Qed.

  Lemma classify_file_inv fmt p st : In p order -> I0 st ->
    I0 (classify_file fmt g st p) /\ Ext st (classify_file fmt g st p) /\ Pfile fmt p (classify_file fmt g st p).
  Proof.
    intros Hp Hi. unfold classify_file.
    destruct (fold_mono irecord (classify_record g) I0 Preq (fun r => In r (m_records (getm g p)))) with (l := m_records (getm g p)) (st := st)
      as [Hi1 [He1 Hp1]].
    { intros st0 r Hr Hi0. destruct (classify_record_inv p r st0 Hp Hr (proj1 Hi0)) as [Ha Hb].
      split; [eapply I0_step; eauto|]. split; [exact Hb|apply classify_record_req]. }
    { intros r st0 st1. apply Preq_mono. }
    { auto. }
    { exact Hi. }
    set (st1 := fold_left (classify_record g) (m_records (getm g p)) st) in *.
    destruct (cget st1 p) as [k w] eqn:Ec.
    assert (Hk : kind_of st1 p = k) by (unfold kind_of; rewrite Ec; reflexivity).
    destruct (ekind_eqb k ECJS && (negb (m_entry (getm g p)) || fmt)) eqn:Eb.
    - apply andb_true_iff in Eb as [Eb _]. destruct k; try discriminate.
      destruct (set_cell st1 p ECJS WCJS ltac:(discriminate) ltac:(auto)) as [He Hn].
      assert (Hi2 : Inv (cset st1 p (ECJS, WCJS))).
      { eapply Inv_step; [exact (proj1 Hi1)|exact He|].
        intros x Hx. destruct (Hn x Hx) as [Ho|[-> [_ Hkk]]]; [left; exact Ho|right; left; exact Hkk]. }
      split; [eapply I0_step; eauto|]. split; [eapply Ext_trans; eauto|]. split.
      + intros r Hr. eapply Preq_mono; [exact He|auto].
      + intros _ _ Hl. rewrite length_cset in Hl. unfold wrapped, wrap_of. rewrite cget_cset_same by exact Hl. cbn. discriminate.
    - split; [exact Hi1|]. split; [exact He1|]. split; [exact Hp1|].
      intros Ha Hb Hl. exfalso.
      (* the file's kind is still CommonJS, so the branch would have been taken *)
      assert (Hk0 : kind_of st1 p = ECJS).
      { destruct Hi1 as [_ [L0 [_ [K0 _]]]]. apply K0. unfold kind_of, cget, init_state.
        unfold init_state in L0. rewrite map_length in L0.
        rewrite (nth_indep _ _ ((fun m => (m_kind m, WNone)) empty_module)) by (rewrite map_length; lia).
        rewrite (map_nth (fun m => (m_kind m, WNone))). cbn. exact Hb. }
      rewrite Hk in Hk0. rewrite Hk0 in Eb. cbn in Eb.
      destruct Ha as [Ha|Ha]; [rewrite Ha in Eb; cbn in Eb|rewrite Ha, orb_true_r in Eb]; discriminate.
  Qed.

  Lemma classify_inv fmt : forall l, (forall p, In p l -> In p order) -> forall st, I0 st ->
    I0 (fold_left (classify_file fmt g) l st) /\ Ext st (fold_left (classify_file fmt g) l st) /\
    forall p, In p l -> Pfile fmt p (fold_left (classify_file fmt g) l st).
  Proof.
    intros l Hl st Hi.
    apply (fold_mono nat (classify_file fmt g) I0 (Pfile fmt) (fun p => In p order)); auto.
    - intros st0 p Hp Hi0. apply classify_file_inv; auto.
    - intros p st0 st1. apply Pfile_mono.
  Qed.

  Lemma init_inv : Inv (init_state g).
  Proof.
    intros s Hs. exfalso. apply Hs. unfold wrap_of, cget, init_state.
    destruct (Nat.lt_ge_cases s (length g)) as [Hl|Hg].
    - rewrite (nth_indep _ _ ((fun m => (m_kind m, WNone)) empty_module)) by (rewrite map_length; exact Hl).
      rewrite (map_nth (fun m => (m_kind m, WNone))). reflexivity.
    - rewrite nth_overflow by (rewrite map_length; exact Hg). reflexivity.
  Qed.

  (* ---- step 2 ---- *)
  Definition Pre (st : cstate) (s : nat) : Prop :=
    Q s /\ (wrapped st s \/ kind_of st s = ECJS \/ exists p, Q p /\ wrapped st p /\ In s (all_targets (getm g p))).

  Lemma wrap_deps_inv f : forall s ws ws',
    wrap_deps f g s ws = Some ws' -> length (fst ws) = length g -> Inv (fst ws) -> Pre (fst ws) s ->
    Inv (fst ws') /\ Ext (fst ws) (fst ws').
  Proof.
    induction f as [|f IH]; intros s [st did] ws' H Hlen Hi [Hqs Hpre]; [discriminate|]. cbn [fst] in *.
    cbn [wrap_deps] in H. destruct (memn s did); [inversion H; subst; split; [exact Hi|apply Ext_refl]|].
    destruct (Nat.eqb s 0); [inversion H; subst; split; [exact Hi|apply Ext_refl]|].
    destruct (cget st s) as [k w] eqn:Ec.
    assert (Hk : kind_of st s = k) by (unfold kind_of; rewrite Ec; reflexivity).
    set (st1 := if wkind_eqb w WNone then cset st s (k, if ekind_eqb k ECJS then WCJS else WESM) else st) in *.
    assert (H1 : Inv st1 /\ Ext st st1).
    { unfold st1. destruct (wkind_eqb w WNone); [|split; [exact Hi|apply Ext_refl]].
      assert (Hw : (if ekind_eqb k ECJS then WCJS else WESM) <> WNone) by (destruct (ekind_eqb k ECJS); discriminate).
      destruct (set_cell st s k _ Hw ltac:(intros Hc; rewrite Hk in Hc; exact Hc)) as [He Hn].
      split; [|exact He]. eapply Inv_step; eauto.
      intros x Hx. destruct (Hn x Hx) as [Ho|[-> _]]; [left; exact Ho|right].
      destruct Hpre as [Hp|[Hp|[p [Hq [Hp Hs]]]]].
      - eapply Reason_mono; [exact He|apply Hi; exact Hp].
      - left. destruct He as [_ [_ [K _]]]. apply K. exact Hp.
      - right. right. exists p. split; [exact Hq|]. split; [|exact Hs]. destruct He as [_ [W _]]. apply W. exact Hp. }
    destruct H1 as [Hi1 He1].
    (* s is wrapped in st1 when it is a file of the graph *)
    assert (Hs1 : (s < length st)%nat -> wrapped st1 s).
    { intros Hl. unfold st1. destruct (wkind_eqb w WNone) eqn:Ew.
      - unfold wrapped, wrap_of. rewrite cget_cset_same by exact Hl. cbn. destruct (ekind_eqb k ECJS); discriminate.
      - unfold wrapped, wrap_of. rewrite Ec. cbn. intro Hc. subst w. discriminate. }
    assert (Hfold : forall l ws0, (forall t, In t l -> In t (all_targets (getm g s))) ->
              Inv (fst ws0) -> Ext st1 (fst ws0) ->
              fold_left (fun acc t => match acc with Some ws1 => wrap_deps f g t ws1 | None => None end) l (Some ws0) = Some ws' ->
              Inv (fst ws') /\ Ext st1 (fst ws')).
    { induction l as [|t l IHl]; intros ws0 Hl Hi0 He0 Hf; cbn [fold_left] in Hf.
      - inversion Hf; subst. split; assumption.
      - destruct (wrap_deps f g t ws0) as [ws2|] eqn:E2.
        + assert (Hpre2 : Pre (fst ws0) t).
          { split; [apply (HQ s); [exact Hqs|apply Hl; left; reflexivity]|].
            right. right. exists s. split; [exact Hqs|]. split; [|apply Hl; left; reflexivity].
            destruct He0 as [_ [W _]]. apply W. apply Hs1.
            destruct (Nat.lt_ge_cases s (length st)) as [Hl2|Hg]; [exact Hl2|].
            exfalso. assert (Hin : In t (all_targets (getm g s))) by (apply Hl; left; reflexivity).
            (* the state has one cell per file *)
            unfold getm in Hin. rewrite nth_overflow in Hin by (rewrite <- Hlen; exact Hg). exact Hin. }
          assert (Hlen0 : length (fst ws0) = length g).
          { destruct He0 as [L0 _]. destruct He1 as [L1 _]. congruence. }
          destruct (IH t ws0 ws2 E2 Hlen0 Hi0 Hpre2) as [Hi2 He2].
          apply (IHl ws2); [intros t0 Ht0; apply Hl; right; exact Ht0|exact Hi2|eapply Ext_trans; eauto|exact Hf].
        + exfalso. clear -Hf. induction l; cbn in Hf; [discriminate|auto]. }
    destruct (Hfold (all_targets (getm g s)) (st1, s :: did) (fun t Ht => Ht) Hi1 (Ext_refl st1) H) as [Hi' He'].
    split; [exact Hi'|eapply Ext_trans; eauto].
  Qed.

  (* ---- hasDynamicExportsDueToExportStar: wraps unchanged, the CommonJS kinds unchanged ---- *)
  Definition KEq (st st' : cstate) : Prop :=
    length st' = length st /\ (forall x, wrap_of st' x = wrap_of st x) /\
    (forall x, kind_of st' x = ECJS <-> kind_of st x = ECJS).
  Lemma KEq_refl st : KEq st st.
  Proof. repeat split; auto. Qed.
  Lemma KEq_trans a b c : KEq a b -> KEq b c -> KEq a c.
  Proof.
    intros [L1 [W1 K1]] [L2 [W2 K2]]. split; [congruence|]. split.
    - intros x. rewrite W2. apply W1.
    - intros x. rewrite K2. apply K1.
  Qed.
  Lemma KEq_dyn st s : kind_of st s <> ECJS -> KEq st (cset st s (EDyn, snd (cget st s))).
  Proof.
    intros Hk. split; [apply length_cset|]. split.
    - intros x. apply wrap_of_map. apply wraps_cset_kind.
    - intros x. destruct (Nat.eq_dec s x) as [->|Hne].
      + destruct (Nat.lt_ge_cases x (length st)) as [Hl|Hg].
        * unfold kind_of at 1. rewrite cget_cset_same by exact Hl. cbn. split; [discriminate|intros H; contradiction].
        * rewrite cset_out by exact Hg. tauto.
      + unfold kind_of. rewrite cget_cset_other by exact Hne. tauto.
  Qed.

  Lemma dyn_loop_keq rec keep_esm m s :
    (forall t st vis b st' vis', rec t st vis = Some (b, st', vis') -> KEq st st') ->
    forall stars st vis b st' vis', kind_of st s <> ECJS ->
      dyn_loop rec keep_esm m s stars st vis = Some (b, st', vis') -> KEq st st'.
  Proof.
    intros Hrec. induction stars as [|i rest IH]; intros st vis b st' vis' Hk H; cbn [dyn_loop] in H.
    - inversion H; subst. apply KEq_refl.
    - destruct (record_of m i) as [r|]; [|eapply IH; eauto].
      destruct (r_target r) as [t|].
      + destruct (Nat.eqb t s); [eapply IH; eauto|].
        destruct (rec t st vis) as [[[b1 st1] vis1]|] eqn:Er; [|discriminate].
        pose proof (Hrec _ _ _ _ _ _ Er) as H1.
        assert (Hk1 : kind_of st1 s <> ECJS). { intro Hc. apply Hk. destruct H1 as [_ [_ K]]. apply K. exact Hc. }
        destruct b1.
        * inversion H; subst. eapply KEq_trans; [exact H1|]. apply KEq_dyn. exact Hk1.
        * eapply KEq_trans; [exact H1|]. eapply IH; eauto.
      + destruct (negb (m_entry m) || negb keep_esm).
        * inversion H; subst. apply KEq_dyn. exact Hk.
        * eapply IH; eauto.
  Qed.

  Lemma dyn_star_keq keep_esm fuel : forall s st vis b st' vis',
    dyn_star fuel keep_esm g s st vis = Some (b, st', vis') -> KEq st st'.
  Proof.
    induction fuel as [|f IH]; intros s st vis b st' vis' H; [discriminate|].
    cbn [dyn_star] in H. destruct (cget st s) as [k w] eqn:Ec.
    destruct (ekind_eqb k ECJS || ekind_eqb k EDyn) eqn:Ek; [inversion H; subst; apply KEq_refl|].
    destruct (memn s vis); [inversion H; subst; apply KEq_refl|].
    eapply dyn_loop_keq; [exact IH| |exact H].
    unfold kind_of. rewrite Ec. cbn. intro Hc. subst k. discriminate.
  Qed.

  Lemma KEq_Ext st st' : KEq st st' -> Ext st st'.
  Proof.
    intros [L [W K]]. split; [exact L|]. split; [|split].
    - intros x Hx. unfold wrapped. rewrite W. exact Hx.
    - intros x Hx. apply K. exact Hx.
    - intros x Hx. left. apply K. exact Hx.
  Qed.
  Lemma KEq_Inv st st' : KEq st st' -> Inv st -> Inv st'.
  Proof.
    intros HK Hi x Hx. eapply Reason_mono; [apply KEq_Ext; exact HK|]. apply Hi.
    destruct HK as [_ [W _]]. unfold wrapped in *. rewrite <- W. exact Hx.
  Qed.

  (* ---- the step-2 loop ---- *)
  Variable keep_esm : bool.
  Let fuel := S (length g).

  Lemma cond_fold_inv : forall l ws ws',
    (forall t, In t l -> Q t) ->
    fold_left (cond_step g) l (Some ws) = Some ws' -> length (fst ws) = length g -> Inv (fst ws) ->
    Inv (fst ws') /\ Ext (fst ws) (fst ws').
  Proof.
    induction l as [|t l IH]; intros ws ws' Hql H Hlen Hi; [inversion H; subst; split; [assumption|apply Ext_refl]|].
    cbn [fold_left cond_step] in H. fold fuel in H.
    destruct (ekind_eqb (fst (cget (fst ws) t)) ECJS) eqn:Ek.
    - destruct (wrap_deps fuel g t ws) as [ws1|] eqn:E; [|rewrite cond_fold_none in H; discriminate].
      assert (Hpre : Pre (fst ws) t).
      { split; [apply Hql; left; reflexivity|].
        right. left. unfold kind_of. destruct (fst (cget (fst ws) t)); try discriminate. reflexivity. }
      destruct (wrap_deps_inv _ _ _ _ E Hlen Hi Hpre) as [Hi1 He1].
      destruct (IH ws1 ws' (fun t0 Ht0 => Hql t0 (or_intror Ht0)) H) as [Hi2 He2]; [destruct He1 as [L1 _]; congruence|exact Hi1|].
      split; [exact Hi2|eapply Ext_trans; eauto].
    - eapply IH; eauto. intros t0 Ht0. apply Hql. right. exact Ht0.
  Qed.

  Lemma wrap_file_inv ws s ws' : Q s ->
    wrap_file fuel keep_esm g (Some ws) s = Some ws' -> length (fst ws) = length g -> Inv (fst ws) ->
    Inv (fst ws') /\ Ext (fst ws) (fst ws').
  Proof.
    intros Hqs H Hlen Hi. unfold wrap_file in H.
    assert (H1 : exists ws1,
               (if wkind_eqb (snd (cget (fst ws) s)) WNone then Some ws else wrap_deps fuel g s ws) = Some ws1 /\
               Inv (fst ws1) /\ Ext (fst ws) (fst ws1)).
    { destruct (wkind_eqb (snd (cget (fst ws) s)) WNone) eqn:Ew.
      - exists ws. split; [reflexivity|]. split; [exact Hi|apply Ext_refl].
      - destruct (wrap_deps fuel g s ws) as [ws1|] eqn:E; [|discriminate].
        exists ws1. split; [reflexivity|].
        assert (Hpre : Pre (fst ws) s).
        { split; [exact Hqs|]. left. unfold wrapped, wrap_of. intro Hc. rewrite Hc in Ew. discriminate. }
        exact (wrap_deps_inv _ _ _ _ E Hlen Hi Hpre). }
    destruct H1 as [[st1 did1] [E1 [Hi1 He1]]]. rewrite E1 in H. cbn [fst] in *.
    set (r2 := match m_stars (getm g s) with
               | [] => Some st1
               | _ :: _ => match dyn_star fuel keep_esm g s st1 [] with Some (_, st', _) => Some st' | None => None end
               end) in *.
    destruct r2 as [st2|] eqn:E2; [|discriminate].
    assert (HK : KEq st1 st2).
    { unfold r2 in E2. destruct (m_stars (getm g s)); [inversion E2; subst; apply KEq_refl|].
      destruct (dyn_star fuel keep_esm g s st1 []) as [[[b st'] vis']|] eqn:Ed; [|discriminate].
      inversion E2; subst. eapply dyn_star_keq; eauto. }
    destruct (cond_fold_inv _ _ _ (fun t Ht => HQ s t Hqs Ht) H) as [Hi3 He3]; cbn [fst].
    - destruct HK as [L _]. destruct He1 as [L1 _]. congruence.
    - eapply KEq_Inv; eauto.
    - split; [exact Hi3|]. eapply Ext_trans; [exact He1|]. eapply Ext_trans; [apply KEq_Ext; exact HK|exact He3].
  Qed.

  Lemma wrap_fold_inv : forall l ws ws', (forall s, In s l -> Q s) ->
    fold_left (wrap_file fuel keep_esm g) l (Some ws) = Some ws' -> length (fst ws) = length g -> Inv (fst ws) ->
    Inv (fst ws') /\ Ext (fst ws) (fst ws').
  Proof.
    induction l as [|s l IH]; intros ws ws' Hql H Hlen Hi; [inversion H; subst; split; [exact Hi|apply Ext_refl]|].
    cbn [fold_left] in H.
    destruct (wrap_file fuel keep_esm g (Some ws) s) as [ws1|] eqn:E; [|unfold fuel in H; rewrite wrap_fold_none in H; discriminate].
    destruct (wrap_file_inv _ _ _ (Hql s (or_introl eq_refl)) E Hlen Hi) as [Hi1 He1].
    destruct (IH ws1 ws' (fun s0 Hs0 => Hql s0 (or_intror Hs0)) H) as [Hi2 He2]; [destruct He1 as [L1 _]; congruence|exact Hi1|].
    split; [exact Hi2|eapply Ext_trans; eauto].
  Qed.

  (* everything the two steps establish *)
  Lemma scan_facts fmt st :
    scan_steps12 fmt keep_esm g order = Some st ->
    Inv st /\ Ext (init_state g) st /\ forall p, In p order -> Pfile fmt p st.
  Proof.
    unfold scan_steps12. fold fuel. intros H.
    destruct (fold_left (wrap_file fuel keep_esm g) order (Some (classify fmt g order, []))) as [[st' did]|] eqn:E; [|discriminate].
    inversion H; subst st'; clear H.
    destruct (classify_inv fmt order (fun p Hp => Hp) (init_state g)) as [[Hi1 He1] [_ Hp1]].
    { split; [apply init_inv|apply Ext_refl]. }
    fold (classify fmt g order) in *.
    destruct (wrap_fold_inv _ _ _ HQo E) as [Hi2 He2]; cbn [fst] in *; [apply length_classify|exact Hi1|].
    split; [exact Hi2|]. split; [eapply Ext_trans; eauto|].
    intros p Hp. eapply Pfile_mono; [exact He2|auto].
  Qed.

  Theorem wrap_minimal_Q fmt st :
    scan_steps12 fmt keep_esm g order = Some st ->
    forall s, wrapped st s ->
      kind_of st s = ECJS \/ req_dyn s \/ exists p, Q p /\ wrapped st p /\ In s (all_targets (getm g p)).
  Proof. intros H. exact (proj1 (scan_facts fmt st H)). Qed.

  Lemma length_scan fmt st : scan_steps12 fmt keep_esm g order = Some st -> length st = length g.
  Proof.
    intros H. destruct (scan_facts fmt st H) as [_ [[L _] _]]. rewrite L. unfold init_state. apply map_length.
  Qed.

  (* the other direction, for the files of the graph: targets of require()/import() are wrapped,
     CommonJS files are wrapped (an entry point of a cjs-format build excepted) *)
  Theorem wrap_required_Q fmt st :
    scan_steps12 fmt keep_esm g order = Some st ->
    forall s, (s < length g)%nat -> req_dyn s -> wrapped st s.
  Proof.
    intros H s Hl [p [r [Hp [Hr [Ht Hk]]]]].
    destruct (scan_facts fmt st H) as [_ [_ HP]]. destruct (HP p Hp) as [H1 _].
    apply (H1 r Hr s Ht Hk). rewrite (length_scan fmt st H). exact Hl.
  Qed.

  Theorem wrap_cjs_Q fmt st :
    scan_steps12 fmt keep_esm g order = Some st ->
    forall s, In s order -> (s < length g)%nat -> (m_entry (getm g s) = false \/ fmt = true) ->
      kind_of st s = ECJS -> wrapped st s.
  Proof.
    intros H s Hs Hl Hf Hk.
    destruct (scan_facts fmt st H) as [_ [[_ [_ [_ J]]] HP]].
    destruct (J s Hk) as [H0|Hw]; [|exact Hw].
    destruct (HP s Hs) as [_ H2]. apply H2; [exact Hf| |rewrite (length_scan fmt st H); exact Hl].
    unfold kind_of, cget, init_state in H0.
    rewrite (nth_indep _ _ ((fun m => (m_kind m, WNone)) empty_module)) in H0 by (rewrite map_length; exact Hl).
    rewrite (map_nth (fun m => (m_kind m, WNone))) in H0. exact H0.
  Qed.
End Min.

(* the instance without a side condition *)
Theorem wrap_minimal_all g order keep_esm fmt st :
  scan_steps12 fmt keep_esm g order = Some st ->
  forall s, wrapped st s ->
    kind_of st s = ECJS \/ req_dyn g order s \/ exists p, wrapped st p /\ In s (all_targets (getm g p)).
Proof.
  intros H s Hs.
  destruct (wrap_minimal_Q g order (fun _ => True) (fun _ _ _ _ => I) (fun _ _ => I) keep_esm fmt st H s Hs)
    as [Ha|[Hb|[p [_ Hp]]]]; [left; exact Ha|right; left; exact Hb|right; right; exists p; exact Hp].
Qed.

Theorem wrap_required_all g order keep_esm fmt st :
  scan_steps12 fmt keep_esm g order = Some st ->
  forall s, (s < length g)%nat -> req_dyn g order s -> wrapped st s.
Proof. exact (wrap_required_Q g order (fun _ => True) (fun _ _ _ _ => I) (fun _ _ => I) keep_esm fmt st). Qed.

Theorem wrap_cjs_all g order keep_esm fmt st :
  scan_steps12 fmt keep_esm g order = Some st ->
  forall s, In s order -> (s < length g)%nat -> (m_entry (getm g s) = false \/ fmt = true) ->
    kind_of st s = ECJS -> wrapped st s.
Proof. exact (wrap_cjs_Q g order (fun _ => True) (fun _ _ _ _ => I) (fun _ _ => I) keep_esm fmt st). Qed.

Lemma wrapped_in_range st x : wrapped st x -> (x < length st)%nat.
Proof.
  intros H. destruct (Nat.lt_ge_cases x (length st)) as [Hl|Hg]; [exact Hl|].
  exfalso. apply H. unfold wrap_of, cget. rewrite nth_overflow by exact Hg. reflexivity.
Qed.
