(* C02 model: the linker's view of a module graph.

   Mirrors the data read by internal/linker/linker.go (scanImportsAndExports,
   addExportsForExportStar, matchImportWithExport, advanceImportTracker,
   recursivelyWrapDependencies, findImportedPartsInJSOrder) and by
   internal/bundler/bundler.go findReachableFiles:
   js_ast.AST.ImportRecords / NamedImports / NamedExports /
   ExportStarImportRecords / ExportsKind / Parts[i].ImportRecordIndices,
   graph.LinkerFile.IsLive / DistanceFromEntryPoint, StableSourceIndices.
   Export aliases are numbered (0 = "default"); symbol refs are the inner
   index of the ref in its file.  Executable definitions only. *)
From V Require Import Common.Base.

Inductive ikind := KStmt | KRequire | KDynamic | KOther.
Inductive ekind := ENone | ECJS | EESM | EDyn.   (* ExportsNone / CommonJS / ESM / ESMWithDynamicFallback *)
Inductive wkind := WNone | WCJS | WESM.

Record irecord := mkRec {
  r_target : option nat;      (* SourceIndex, None = external/invalid *)
  r_kind : ikind;
  r_star : bool;              (* ast.ContainsImportStar *)
  r_default : bool            (* ast.ContainsDefaultAlias *)
}.

Record nimport := mkImp {
  ni_ref : nat;
  ni_alias : Z;
  ni_is_star : bool;          (* AliasIsStar *)
  ni_record : nat;            (* ImportRecordIndex *)
  ni_ns : option nat;         (* NamespaceRef (inner index), None = InvalidRef *)
  ni_generated : bool;        (* ImportItemStatus == ImportItemGenerated *)
  ni_exported : bool
}.

Record module := mkMod {
  m_records : list irecord;
  m_parts : list (list nat * bool);   (* ImportRecordIndices of each part, part.IsLive *)
  m_imports : list nimport;           (* NamedImports, sorted by ref *)
  m_exports : list (Z * nat);         (* NamedExports: alias -> ref *)
  m_stars : list nat;                 (* ExportStarImportRecords *)
  m_kind : ekind;
  m_lazy : bool;                      (* HasLazyExport *)
  m_uses_exports : bool;
  m_uses_module : bool;
  m_export_kw : bool;                 (* ExportKeyword.Len > 0 *)
  m_is_ts : bool;
  m_entry : bool;                     (* IsEntryPoint *)
  m_exports_ref : nat;
  m_live : bool;                      (* LinkerFile.IsLive (tree shaking result) *)
  m_lazy_exports : list (Z * nat)     (* exports generateCodeForLazyExport creates for a lazy (JSON/text/...) file
                                         when it is not CommonJS: alias -> generated ref *)
}.

Definition graph := list module.

Definition empty_module : module :=
  mkMod [] [] [] [] [] ENone false false false false false false 0 false [].

Definition getm (g : graph) (i : nat) : module := nth i g empty_module.

Definition ikind_eqb (a b : ikind) : bool :=
  match a, b with KStmt, KStmt | KRequire, KRequire | KDynamic, KDynamic | KOther, KOther => true | _, _ => false end.
Definition ekind_eqb (a b : ekind) : bool :=
  match a, b with ENone, ENone | ECJS, ECJS | EESM, EESM | EDyn, EDyn => true | _, _ => false end.
Definition wkind_eqb (a b : wkind) : bool :=
  match a, b with WNone, WNone | WCJS, WCJS | WESM, WESM => true | _, _ => false end.

Fixpoint memn (x : nat) (l : list nat) : bool :=
  match l with [] => false | y :: r => Nat.eqb x y || memn x r end.

Lemma memn_In x l : memn x l = true <-> In x l.
Proof.
  induction l as [|y r IH]; simpl.
  - split; [discriminate | tauto].
  - rewrite orb_true_iff, IH, Nat.eqb_eq. split; intros [H|H]; auto.
Qed.

Definition record_of (m : module) (i : nat) : option irecord := nth_error (m_records m) i.

(* targets of all import records that resolved to a file, in record order *)
Definition all_targets (m : module) : list nat :=
  flat_map (fun r => match r_target r with Some t => [t] | None => [] end) (m_records m).

(* requested modules of an ES module in source order = targets of its
   import/export-from statements *)
Definition stmt_targets (m : module) : list nat :=
  flat_map (fun r => match r_target r, r_kind r with Some t, KStmt => [t] | _, _ => [] end) (m_records m).
