(* C02: the wrap flags computed by the model satisfy wrap_consistent, so the evaluation-order theorem
   applies to every graph classified by the model without a hypothesis about wrapping. *)
From V Require Import Common.Base C02.Graph C02.Wrap C02.WrapProofs C02.WrapMinProofs
                      C02.EvalOrder C02.EvalOrderProofs C02.WrapGraph.

Lemma kind_targets_In k m t :
  In t (kind_targets k m) <-> exists r, In r (m_records m) /\ r_target r = Some t /\ r_kind r = k.
Proof.
  unfold kind_targets. rewrite in_flat_map. split.
  - intros [r [Hr Ht]]. exists r. split; [exact Hr|].
    destruct (r_target r) as [t0|]; [|destruct Ht].
    destruct (ikind_eqb (r_kind r) k) eqn:E; [|destruct Ht].
    destruct Ht as [<-|[]]. split; [reflexivity|]. destruct (r_kind r), k; try discriminate; reflexivity.
  - intros [r [Hr [Ht Hk]]]. exists r. split; [exact Hr|]. rewrite Ht, Hk.
    destruct k; cbn; auto.
Qed.

Lemma kind_targets_all k m t : In t (kind_targets k m) -> In t (all_targets m).
Proof.
  rewrite kind_targets_In. intros [r [Hr [Ht _]]]. unfold all_targets. rewrite in_flat_map.
  exists r. split; [exact Hr|]. rewrite Ht. left. reflexivity.
Qed.

Lemma gete_egraph_of g order st t : (t < length g)%nat -> gete (egraph_of g order st) t = emod_of g order st t.
Proof.
  intros Hl. unfold gete, egraph_of.
  rewrite (nth_indep _ _ (emod_of g order st 0%nat)) by (rewrite map_length, seq_length; exact Hl).
  rewrite map_nth, seq_nth by exact Hl. reflexivity.
Qed.

Section Consistent.
  Variable g : graph.
  Variable order : list nat.
  Variable keep_esm fmt : bool.
  Variable st : cstate.
  Hypothesis Hscan : scan_steps12 fmt keep_esm g order = Some st.
  Hypothesis Hok : targets_ok g order = true.

  Lemma target_facts p t : In p order -> In t (all_targets (getm g p)) ->
    t <> 0%nat /\ (t < length g)%nat /\ In t order.
  Proof.
    intros Hp Ht. unfold targets_ok in Hok. apply andb_true_iff in Hok as [_ Hall].
    rewrite forallb_forall in Hall. specialize (Hall p Hp).
    rewrite forallb_forall in Hall. specialize (Hall t Ht).
    apply andb_true_iff in Hall as [Hab Hc]. apply andb_true_iff in Hab as [Ha Hb].
    split; [intro Hc0; subst; discriminate|]. split; [apply Nat.ltb_lt; exact Hb|apply memn_In; exact Hc].
  Qed.

  Lemma wrapped_flag t : t <> 0%nat -> (t < length g)%nat -> In t order -> wrapped st t ->
    e_wrapped (gete (egraph_of g order st) t) = true.
  Proof.
    intros H0 Hl Ho Hw. rewrite gete_egraph_of by exact Hl. unfold emod_of.
    destruct (Nat.eqb_spec t 0); [contradiction|]. apply memn_In in Ho. rewrite Ho. cbn.
    unfold wrapped, wrap_of in Hw. destruct (snd (cget st t)); [contradiction|reflexivity|reflexivity].
  Qed.

  Lemma consistent_of_scan : wrap_consistent (egraph_of g order st) = true.
  Proof.
    unfold wrap_consistent. apply forallb_forall. intros m Hm.
    unfold egraph_of in Hm. apply in_map_iff in Hm as [i [<- Hi]]. apply in_seq in Hi as [_ Hi]. cbn in Hi.
    unfold emod_of at 1 2 3 4. destruct (Nat.eqb i 0 || negb (memn i order)) eqn:Eb; [reflexivity|].
    apply orb_false_iff in Eb as [E0 Em]. apply Nat.eqb_neq in E0.
    apply negb_false_iff in Em. apply memn_In in Em. cbn [e_requires e_dyn e_static e_wrapped].
    apply andb_true_iff. split.
    - apply forallb_forall. intros t Ht. apply in_app_or in Ht.
      assert (Hk : exists r, In r (m_records (getm g i)) /\ r_target r = Some t /\ (r_kind r = KRequire \/ r_kind r = KDynamic)).
      { destruct Ht as [Ht|Ht]; apply kind_targets_In in Ht as [r [Hr [Hrt Hrk]]]; exists r; auto. }
      assert (Hall : In t (all_targets (getm g i))) by (destruct Ht as [Ht|Ht]; eapply kind_targets_all; eauto).
      destruct (target_facts i t Em Hall) as [Ht0 [Htl Hto]].
      apply wrapped_flag; auto.
      destruct Hk as [r [Hr [Hrt Hrk]]].
      apply (wrap_required_all g order keep_esm fmt st Hscan t Htl). exists i, r. auto.
    - destruct (wkind_eqb (snd (cget st i)) WNone) eqn:Ew; [reflexivity|]. cbn.
      apply forallb_forall. intros t Ht. apply kind_targets_all in Ht.
      destruct (target_facts i t Em Ht) as [Ht0 [Htl Hto]].
      apply wrapped_flag; auto.
      apply (wrap_closed_all g keep_esm fmt order st Hscan i Em E0 Hi); auto.
      unfold wrapped, wrap_of. intro Hc. rewrite Hc in Ew. discriminate.
  Qed.

  Lemma runtime_no_targets t : ~ In t (all_targets (getm g 0)).
  Proof.
    unfold targets_ok in Hok. apply andb_true_iff in Hok as [H0 _].
    destruct (all_targets (getm g 0)); [intros []|discriminate].
  Qed.

  Lemma wrap_exact_all s : In s order -> s <> 0%nat -> (s < length g)%nat ->
    (m_entry (getm g s) = false \/ fmt = true) ->
    (wrapped st s <->
     kind_of st s = ECJS \/ req_dyn g order s \/
     exists p, In p order /\ p <> 0%nat /\ (p < length g)%nat /\ wrapped st p /\ In s (all_targets (getm g p))).
  Proof.
    intros Hs H0 Hl Hf. split.
    - intros Hw.
      destruct (wrap_minimal_Q g order (fun p => In p order)
                  (fun p t Hp Ht => proj2 (proj2 (target_facts p t Hp Ht))) (fun p Hp => Hp)
                  keep_esm fmt st Hscan s Hw) as [Ha|[Hb|[p [Hp [Hwp Hsp]]]]];
        [left; exact Ha|right; left; exact Hb|].
      right. right. exists p. split; [exact Hp|]. split.
      + intro Hc. subst p. exact (runtime_no_targets s Hsp).
      + split; [|split; assumption]. rewrite <- (length_scan g order (fun _ => True) (fun _ _ _ _ => I) (fun _ _ => I) keep_esm fmt st Hscan).
        apply wrapped_in_range. exact Hwp.
    - intros [Ha|[Hb|[p [Hp [Hp0 [Hpl [Hwp Hsp]]]]]]].
      + eapply wrap_cjs_all; eauto.
      + eapply wrap_required_all; eauto.
      + eapply wrap_closed_all; eauto.
  Qed.

  Lemma classified_order_is_native entry :
    bundle_trace (egraph_of g order st) entry = native_trace (egraph_of g order st) entry.
  Proof. apply bundle_is_native. exact consistent_of_scan. Qed.
End Consistent.
