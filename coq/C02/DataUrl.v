(* C02 model: internal/helpers/dataurl.go
   EncodeStringAsPercentEscapedDataURL, EncodeStringAsShortestDataURL, isHex,
   and the part of unicode/utf8.DecodeRuneInString the encoder depends on
   (is the next rune valid, and how many bytes wide).  Bytes are Z in [0,256).
   Executable definitions only. *)
From V Require Import Common.Base.

Definition is_cont (b : Z) : bool := (128 <=? b) && (b <=? 191).

(* None = (RuneError, 1) on invalid input *)
Definition decode_rune_width (l : bytes) : option nat :=
  match l with
  | [] => None
  | b0 :: r =>
    if b0 <? 128 then Some 1%nat
    else if (194 <=? b0) && (b0 <=? 223) then
      match r with b1 :: _ => if is_cont b1 then Some 2%nat else None | _ => None end
    else if (224 <=? b0) && (b0 <=? 239) then
      match r with
      | b1 :: b2 :: _ =>
        let lo := if b0 =? 224 then 160 else 128 in
        let hi := if b0 =? 237 then 159 else 191 in
        if (lo <=? b1) && (b1 <=? hi) && is_cont b2 then Some 3%nat else None
      | _ => None
      end
    else if (240 <=? b0) && (b0 <=? 244) then
      match r with
      | b1 :: b2 :: b3 :: _ =>
        let lo := if b0 =? 240 then 144 else 128 in
        let hi := if b0 =? 244 then 143 else 191 in
        if (lo <=? b1) && (b1 <=? hi) && is_cont b2 && is_cont b3 then Some 4%nat else None
      | _ => None
      end
    else None
  end.

Definition is_hex (c : Z) : bool :=
  ((48 <=? c) && (c <=? 57)) || ((97 <=? c) && (c <=? 102)) || ((65 <=? c) && (c <=? 70)).

(* "0123456789ABCDEF"[d] *)
Definition hex_digit (d : Z) : Z := if d <? 10 then 48 + d else 55 + d.

(* the backwards scan for trailing characters that need to be escaped *)
Fixpoint trailing_len (rev_text : bytes) : Z :=
  match rev_text with
  | [] => 0
  | c :: r => if (32 <? c) || (c =? 9) || (c =? 10) || (c =? 13) then 0 else 1 + trailing_len r
  end.
Definition trailing_start (text : bytes) : Z := Z.of_nat (length text) - trailing_len (rev text).

Definition escape (c : Z) : bytes := [37; hex_digit (c / 16); hex_digit (c mod 16)].

Definition must_escape (c : Z) (rest : bytes) (i n ts : Z) : bool :=
  (c =? 9) || (c =? 10) || (c =? 13) || (c =? 35) || (ts <=? i)
  || ((c =? 37) && (i + 2 <? n) && is_hex (nth 0 rest 0) && is_hex (nth 1 rest 0)).

Fixpoint pbody (fuel : nat) (l : bytes) (i n ts : Z) : option bytes :=
  match fuel with
  | O => None
  | S f =>
    match l with
    | [] => Some []
    | c :: rest =>
      match decode_rune_width l with
      | None => None                                  (* invalid UTF-8 cannot be encoded *)
      | Some w =>
        match pbody f (skipn w l) (i + Z.of_nat w) n ts with
        | None => None
        | Some out =>
          if Nat.eqb w 1 && must_escape c rest i n ts then Some (escape c ++ out)
          else if Nat.eqb w 1 then Some (c :: out)
          else if ts <=? i then None                  (* unreachable: hex[c>>4] would be out of range *)
          else Some (firstn w l ++ out)
        end
      end
    end
  end.

Definition percent_body (text : bytes) : option bytes :=
  pbody (S (length text)) text 0 (Z.of_nat (length text)) (trailing_start text).

Definition data_prefix : bytes := [100; 97; 116; 97; 58].          (* "data:" *)
Definition base64_marker : bytes := [59; 98; 97; 115; 101; 54; 52]. (* ";base64" *)

Definition encode_percent (mime text : bytes) : option bytes :=
  match percent_body text with
  | Some b => Some (data_prefix ++ mime ++ [44] ++ b)
  | None => None
  end.

Definition encode_shortest (b64 : bytes -> bytes) (mime text : bytes) : bytes :=
  let url := data_prefix ++ mime ++ base64_marker ++ [44] ++ b64 text in
  match encode_percent mime text with
  | Some p => if (length p <? length url)%nat then p else url
  | None => url
  end.
