(* scanImportsAndExports step 1 is confluent: the exports-kind / wrap
   assignment it computes does not depend on the order in which the files are
   visited (the loop mutates the IMPORTED file while iterating). *)
From Coq Require Import Permutation.
From V Require Import Common.Base C02.Graph C02.Wrap C02.WrapProofs.

Inductive cellop := FStmt (fires : bool) | FReq | FSelf (cond : bool) | FId.

Definition cellf (o : cellop) (c : ekind * wkind) : ekind * wkind :=
  let '(k, w) := c in
  match o with
  | FStmt fires => if fires && ekind_eqb k ENone then (ECJS, WCJS) else c
  | FReq => if ekind_eqb k EESM then (k, WESM) else (ECJS, WCJS)
  | FSelf cond => if ekind_eqb k ECJS && cond then (k, WCJS) else c
  | FId => c
  end.

Definition apply_op (st : cstate) (o : nat * cellop) : cstate := cset st (fst o) (cellf (snd o) (cget st (fst o))).

Lemma cellf_comm a b c : cellf a (cellf b c) = cellf b (cellf a c).
Proof.
  destruct c as [k w].
  destruct a as [fa| |ca|], b as [fb| |cb|]; try destruct fa; try destruct fb; try destruct ca; try destruct cb;
    destruct k, w; reflexivity.
Qed.

Lemma cset_cget_id st i : cset st i (cget st i) = st.
Proof.
  revert i. induction st as [|a st IH]; intros [|i]; cbn; auto.
  unfold cget in *. cbn. f_equal. apply IH.
Qed.

Lemma cset_cset_same st i v v' : cset (cset st i v) i v' = cset st i v'.
Proof. revert i. induction st as [|a st IH]; intros [|i]; cbn; auto. f_equal. apply IH. Qed.

Lemma cset_cset_other st i j v v' : i <> j -> cset (cset st i v) j v' = cset (cset st j v') i v.
Proof.
  revert i j. induction st as [|a st IH]; intros [|i] [|j] H; cbn; auto; try congruence.
  f_equal. apply IH. congruence.
Qed.

Lemma cset_out st i v : (length st <= i)%nat -> cset st i v = st.
Proof. revert i. induction st as [|a st IH]; intros [|i] H; cbn in *; auto; try lia. f_equal. apply IH. lia. Qed.

Lemma apply_op_comm st a b : apply_op (apply_op st a) b = apply_op (apply_op st b) a.
Proof.
  destruct a as [i fa], b as [j fb]. unfold apply_op. cbn [fst snd].
  destruct (Nat.eq_dec i j) as [->|Hne].
  - destruct (Nat.lt_ge_cases j (length st)) as [Hlt|Hge].
    + rewrite !cget_cset_same by exact Hlt. rewrite !cset_cset_same. f_equal. apply cellf_comm.
    + rewrite !cset_out by (rewrite ?length_cset; exact Hge). reflexivity.
  - rewrite (cget_cset_other _ i j) by exact Hne.
    rewrite (cget_cset_other _ j i) by congruence.
    apply cset_cset_other. exact Hne.
Qed.

Lemma fold_perm {A B} (step : A -> B -> A) :
  (forall st a b, step (step st a) b = step (step st b) a) ->
  forall l1 l2, Permutation l1 l2 -> forall st, fold_left step l1 st = fold_left step l2 st.
Proof.
  intros Hc l1 l2 Hp. induction Hp as [|x l1 l2 Hp IH|x y l|l1 l2 l3 H1 IH1 H2 IH2]; intros st; cbn.
  - reflexivity.
  - apply IH.
  - rewrite Hc. reflexivity.
  - rewrite IH1. apply IH2.
Qed.

Section Ops.
  Variable fmt : bool.
  Variable g : graph.

  Definition op_of_record (r : irecord) : nat * cellop :=
    match r_target r with
    | None => (0%nat, FId)
    | Some t =>
      (t, match r_kind r with
          | KStmt => FStmt ((r_star r || r_default r) && negb (m_lazy (getm g t)))
          | KRequire | KDynamic => FReq
          | KOther => FId
          end)
    end.

  Definition ops_of_file (s : nat) : list (nat * cellop) :=
    map op_of_record (m_records (getm g s)) ++ [(s, FSelf (negb (m_entry (getm g s)) || fmt))].

  Lemma classify_record_op st r : classify_record g st r = apply_op st (op_of_record r).
  Proof.
    unfold classify_record, op_of_record, apply_op. destruct (r_target r) as [t|]; cbn [fst snd].
    - destruct (cget st t) as [k w] eqn:Ec. destruct (r_kind r); cbn [cellf].
      + destruct (r_star r || r_default r), (ekind_eqb k ENone), (m_lazy (getm g t)); cbn [andb negb];
          try reflexivity; rewrite <- Ec; symmetry; apply cset_cget_id.
      + destruct (ekind_eqb k EESM); reflexivity.
      + destruct (ekind_eqb k EESM); reflexivity.
      + rewrite <- Ec. symmetry. apply cset_cget_id.
    - destruct (cget st 0) as [k w] eqn:Ec. cbn [cellf]. rewrite <- Ec. symmetry. apply cset_cget_id.
  Qed.

  Lemma classify_file_ops st s : classify_file fmt g st s = fold_left apply_op (ops_of_file s) st.
  Proof.
    unfold classify_file, ops_of_file. rewrite fold_left_app. cbn [fold_left].
    assert (H : forall rs st0, fold_left (classify_record g) rs st0 = fold_left apply_op (map op_of_record rs) st0).
    { induction rs as [|r rs IH]; intros st0; [reflexivity|]. cbn [fold_left map]. rewrite classify_record_op. apply IH. }
    rewrite H. set (st1 := fold_left apply_op (map op_of_record (m_records (getm g s))) st).
    unfold apply_op. cbn [fst snd]. destruct (cget st1 s) as [k w] eqn:Ec. cbn [cellf].
    destruct (ekind_eqb k ECJS && (negb (m_entry (getm g s)) || fmt)); [reflexivity|].
    rewrite <- Ec. symmetry. apply cset_cget_id.
  Qed.

  Lemma classify_ops order : classify fmt g order = fold_left apply_op (flat_map ops_of_file order) (init_state g).
  Proof.
    unfold classify. generalize (init_state g). induction order as [|s order IH]; intros st; [reflexivity|].
    cbn [fold_left flat_map]. rewrite fold_left_app, IH, classify_file_ops. reflexivity.
  Qed.

  Lemma classify_confluent_all order1 order2 :
    Permutation order1 order2 -> classify fmt g order1 = classify fmt g order2.
  Proof.
    intros Hp. rewrite !classify_ops. apply fold_perm; [apply apply_op_comm|].
    apply Permutation_flat_map. exact Hp.
  Qed.
End Ops.
