(* C02 model: export resolution and import matching.

   Mirrors internal/linker/linker.go:
   - resolved_exports : CloneLinkerGraph's initial ResolvedExports (one entry
     per NamedExports alias) extended by addExportsForExportStar
     (scanImportsAndExports step 3), with the source-index stack used both as
     cycle guard and for the shadowing rule, and the
     PotentiallyAmbiguousExportStarRefs lists;
   - advance : advanceImportTracker;
   - mloop   : matchImportWithExport (the tracker loop, the cycle detector,
     the recursive tracing of potentially ambiguous refs with the detector
     saved and restored, and the final all-results-equal test, which compares
     matchImportResult structs except for nameLoc);
   - match_imports_for_file : matchImportsWithExportsForFile (step 4).
   A source location of an export alias inside its file is represented by
   alias+1 (distinct aliases of a file have distinct locations; 0 = no loc).
   Executable definitions only. *)
From V Require Import Common.Base C02.Graph.

Record edata := mkEd {
  ed_alias : Z;
  ed_src : nat;
  ed_ref : nat;
  ed_ambs : list (nat * nat)     (* PotentiallyAmbiguousExportStarRefs: (source, ref) *)
}.

Fixpoint ed_lookup (a : Z) (l : list edata) : option edata :=
  match l with
  | [] => None
  | e :: r => if ed_alias e =? a then Some e else ed_lookup a r
  end.

Fixpoint ed_update (a : Z) (e' : edata) (l : list edata) : list edata :=
  match l with
  | [] => []
  | e :: r => if ed_alias e =? a then e' :: r else e :: ed_update a e' r
  end.

Definition has_export (m : module) (a : Z) : bool := existsb (fun p => fst p =? a) (m_exports m).

(* CloneLinkerGraph's entries plus, for a lazy-export file that is not
   CommonJS, the exports generateCodeForLazyExport adds in step 3 *)
Definition resolved0 (g : graph) (kinds : nat -> ekind) (s : nat) : list edata :=
  let m := getm g s in
  map (fun p => mkEd (fst p) s (snd p) [])
      (m_exports m ++ if m_lazy m && negb (ekind_eqb (kinds s) ECJS) then m_lazy_exports m else []).

(* the "nextExport" loop body for one (alias, ref) of the star-exported file t *)
Definition add_one (g : graph) (stack : list nat) (t : nat) (res : list edata) (p : Z * nat) : list edata :=
  let '(alias, ref) := p in
  if alias =? 0 then res else                                            (* "default" is ignored *)
  if existsb (fun q => has_export (getm g q) alias) stack then res else  (* shadowed by a file on the stack *)
  match ed_lookup alias res with
  | None => res ++ [mkEd alias t ref []]
  | Some e =>
    if negb (Nat.eqb (ed_src e) t)
    then ed_update alias (mkEd alias (ed_src e) (ed_ref e) (ed_ambs e ++ [(t, ref)])) res
    else res
  end.

Fixpoint add_stars (fuel : nat) (g : graph) (kinds : nat -> ekind) (res : list edata) (s : nat) (stack : list nat)
  : option (list edata) :=
  match fuel with
  | O => None
  | S f =>
    if memn s stack then Some res else
    let stack' := stack ++ [s] in
    let m := getm g s in
    fold_left (fun acc i =>
      match acc with
      | None => None
      | Some res =>
        match record_of m i with
        | None => Some res
        | Some r =>
          match r_target r with
          | None => Some res                                   (* resolved at run time *)
          | Some t =>
            if ekind_eqb (kinds t) ECJS then Some res else      (* export star from CommonJS is ignored *)
            let res1 := fold_left (add_one g stack' t) (m_exports (getm g t)) res in
            add_stars f g kinds res1 t stack'
          end
        end
      end) (m_stars m) (Some res)
  end.

Definition resolved_exports (g : graph) (kinds : nat -> ekind) (s : nat) : option (list edata) :=
  match m_stars (getm g s) with
  | [] => Some (resolved0 g kinds s)
  | _ => add_stars (S (length g)) g kinds (resolved0 g kinds s) s []
  end.

(* ---- advanceImportTracker ---- *)
Definition tracker := (nat * nat)%type.   (* sourceIndex, importRef *)

Fixpoint find_import (ref : nat) (l : list nimport) : option nimport :=
  match l with
  | [] => None
  | i :: r => if Nat.eqb (ni_ref i) ref then Some i else find_import ref r
  end.
Definition import_of (g : graph) (t : tracker) : option nimport := find_import (snd t) (m_imports (getm g (fst t))).
Definition is_import (g : graph) (t : tracker) : bool := match import_of g t with Some _ => true | None => false end.

Inductive istatus :=
| INoMatch (next : nat)
| IFound (src ref : nat) (loc : Z) (ambs : list (nat * nat))
| ICommonJS | ICommonJSNoExports | IExternal
| IDynFallback (src ref : nat)
| ITSType.

Definition advance (g : graph) (kinds : nat -> ekind) (resolved : nat -> list edata) (t : tracker) (ni : nimport) : istatus :=
  let m := getm g (fst t) in
  match record_of m (ni_record ni) with
  | None => IExternal
  | Some r =>
    match r_target r with
    | None => IExternal
    | Some o =>
      let om := getm g o in
      if negb (ni_is_star ni) && negb (m_lazy om) && negb (m_export_kw om) && negb (ni_alias ni =? 0)
         && negb (m_uses_exports om) && negb (m_uses_module om)
      then ICommonJSNoExports
      else if ekind_eqb (kinds o) ECJS then ICommonJS
      else if ni_is_star ni then IFound o (m_exports_ref om) 0 []
      else match ed_lookup (ni_alias ni) (resolved o) with
           | Some e => IFound (ed_src e) (ed_ref e) (ed_alias e + 1) (ed_ambs e)
           | None =>
             if ekind_eqb (kinds o) EDyn then IDynFallback o (m_exports_ref om)
             else if m_is_ts m && ni_exported ni then ITSType
             else INoMatch o
           end
    end
  end.

(* ---- matchImportWithExport ---- *)
Inductive mkind := MIgnore | MNormal | MNamespace | MNormalNS | MCycle | MTSType | MAmbiguous.
Definition mkind_eqb (a b : mkind) : bool :=
  match a, b with
  | MIgnore, MIgnore | MNormal, MNormal | MNamespace, MNamespace | MNormalNS, MNormalNS
  | MCycle, MCycle | MTSType, MTSType | MAmbiguous, MAmbiguous => true
  | _, _ => false
  end.

Record mres := mkRes {
  mr_kind : mkind;
  mr_alias : Z;                    (* -1 = zero value *)
  mr_ns : option (nat * nat);      (* namespaceRef *)
  mr_src : nat;
  mr_ref : nat;
  mr_loc : Z                       (* nameLoc *)
}.
Definition res0 : mres := mkRes MIgnore (-1) None 0 0 0.
Definition pair_eqb (a b : nat * nat) : bool := Nat.eqb (fst a) (fst b) && Nat.eqb (snd a) (snd b).
(* the comparison of the final all-results-equal test: since fix a7bd0a8 the name location
   (only used for the notes of the error message) is not part of it *)
Definition mres_eqb (a b : mres) : bool :=
  mkind_eqb (mr_kind a) (mr_kind b) && (mr_alias a =? mr_alias b) && option_eqb pair_eqb (mr_ns a) (mr_ns b)
  && Nat.eqb (mr_src a) (mr_src b) && Nat.eqb (mr_ref a) (mr_ref b).

(* error events: (file, code, alias); 1 cycle, 2 ambiguous, 3 no matching export *)
Definition event := (nat * Z * Z)%type.

Definition finish (res : mres) (ambs : list mres) (ev : list event) : mres * list event :=
  if existsb (fun a => negb (mres_eqb a res)) ambs then (mkRes MAmbiguous (-1) None 0 0 0, ev) else (res, ev).

Definition with_ns (res : mres) (ns : nat * nat) (alias : Z) : mres :=
  match mr_kind res with
  | MNormal => mkRes MNormalNS alias (Some ns) (mr_src res) (mr_ref res) (mr_loc res)
  | _ => mkRes MNamespace alias (Some ns) 0 0 0
  end.

Section Match.
  Variable g : graph.
  Variable kinds : nat -> ekind.
  Variable resolved : nat -> list edata.
  Variable keep_esm : bool.          (* OutputFormat.KeepESMImportExportSyntax() *)

  Fixpoint mloop (fuel : nat) (t : tracker) (cyc : list tracker) (res : mres) (ambs : list mres) (ev : list event)
    : option (mres * list event) :=
    match fuel with
    | O => None
    | S f =>
      if existsb (pair_eqb t) cyc then Some (finish (mkRes MCycle (-1) None 0 0 0) ambs ev) else
      let cyc' := cyc ++ [t] in
      match import_of g t with
      | None => None                     (* the tracker always names a NamedImports entry *)
      | Some ni =>
        match advance g kinds resolved t ni with
        | IExternal =>
          if keep_esm then Some (finish res ambs ev)
          else Some (finish (match ni_ns ni with Some n => with_ns res (fst t, n) (ni_alias ni) | None => res end) ambs ev)
        | ICommonJS | ICommonJSNoExports =>
          Some (finish (match ni_ns ni with Some n => with_ns res (fst t, n) (ni_alias ni) | None => res end) ambs ev)
        | IDynFallback s r => Some (finish (with_ns res (s, r) (ni_alias ni)) ambs ev)
        | INoMatch o =>
          Some (finish res ambs (if ni_generated ni then ev else ev ++ [(fst t, 3, ni_alias ni)]))
        | ITSType => Some (finish (mkRes MTSType (-1) None 0 0 0) ambs ev)
        | IFound s r loc arefs =>
          let step := fun (acc : option (list mres * list event)) (a : nat * nat) =>
            match acc with
            | None => None
            | Some (ambs, ev) =>
              if is_import g a then
                match mloop f a cyc' res0 [] ev with
                | None => None
                | Some (ar, ev') => Some (ambs ++ [ar], ev')
                end
              else Some (ambs ++ [mkRes MNormal (-1) None (fst a) (snd a) loc], ev)
            end in
          match fold_left step arefs (Some (ambs, ev)) with
          | None => None
          | Some (ambs', ev') =>
            let res' := mkRes MNormal (-1) None s r loc in
            if is_import g (s, r) then mloop f (s, r) cyc' res' ambs' ev'
            else Some (finish res' ambs' ev')
          end
        end
      end
    end.

  Definition total_imports : nat := fold_right (fun m n => (length (m_imports m) + n)%nat) 0%nat g.

  Definition match_import (t : tracker) : option (mres * list event) :=
    mloop (S (S total_imports)) t [] res0 [] [].

  (* matchImportsWithExportsForFile: results per named import (sorted by ref) and the error events *)
  Definition match_imports_for_file (s : nat) : option (list (nat * mres) * list event) :=
    fold_left (fun acc ni =>
      match acc with
      | None => None
      | Some (rs, evs) =>
        match match_import (s, ni_ref ni) with
        | None => None
        | Some (r, ev) =>
          let ev' := match mr_kind r with
                     | MCycle => ev ++ [(s, 1, ni_alias ni)]
                     | MAmbiguous => if ni_generated ni then ev else ev ++ [(s, 2, ni_alias ni)]
                     | _ => ev
                     end in
          Some (rs ++ [(ni_ref ni, r)], evs ++ ev')
        end
      end) (m_imports (getm g s)) (Some ([], [])).
End Match.
