(* Set-free denotation of export resolution on graphs whose re-export relation is acyclic:
   the list of candidate bindings a (file, name) pair can denote.  Used as the common
   intermediate between ECMA-262 ResolveExport (resolve set) and the linker (ResolvedExports +
   import matching).  Executable definitions only. *)
From V Require Import Common.Base C02.Graph C02.SpecESM C02.Wrap C02.Resolve C02.ResolveSpec.

Definition cand := (nat * binding)%type.
Definition cand_eqb (a b : cand) : bool := Nat.eqb (fst a) (fst b) && binding_eqb (snd a) (snd b).

Fixpoint cands (k : nat) (g : graph) (m : nat) (name : Z) : list cand :=
  match k with
  | O => []
  | S k' =>
    let md := getm g m in
    match find_export name (m_exports md) with
    | Some ref =>
      match entry_of md ref with
      | XLocal r => [(m, BName r)]
      | XIndirectAll t => [(t, BNamespace)]
      | XIndirect t n => cands k' g t n
      | XBroken => []
      end
    | None => if name =? 0 then [] else flat_map (fun t => cands k' g t name) (star_targets md)
    end
  end.

(* Null: no candidate; a binding: all candidates equal; ambiguous otherwise *)
Definition classify_cands (l : list cand) : resolution :=
  match l with
  | [] => RNull
  | x :: r => if forallb (cand_eqb x) r then RBinding (fst x) (snd x) else RAmbiguous
  end.

(* rank certificate for the whole re-export relation (export stars and indirect exports):
   excludes the refuted cycle shape; ranks are normalised below the number of files *)
Definition ranked_all (g : graph) (rk : list nat) : bool :=
  forallb (fun s => Nat.ltb (rank_of rk s) (length g)
                    && forallb (fun t => Nat.ltb (rank_of rk t) (rank_of rk s)) (reexport_targets (getm g s)))
          (seq 0 (length g)).

Definition den (g : graph) (rk : list nat) (m : nat) (name : Z) : list cand := cands (S (rank_of rk m)) g m name.
