(* Lemmas about the compat model (bit algebra, table membership, monotonicity). *)
From V Require Import Common.Base C14.Compat.

(* ---------- features and bits ---------- *)

Definition feature_of_index (i : Z) : option feature :=
  find (fun f => feature_index f =? i) all_features.

Lemma feature_of_index_left f : feature_of_index (feature_index f) = Some f.
Proof. destruct f; vm_compute; reflexivity. Qed.

Lemma feature_index_inj a b : feature_index a = feature_index b -> a = b.
Proof.
  intro H. pose proof (feature_of_index_left a) as Ha. rewrite H in Ha.
  rewrite feature_of_index_left in Ha. congruence.
Qed.

Lemma feature_index_range f : 0 <= feature_index f < 64.
Proof. destruct f; vm_compute; split; congruence. Qed.

Lemma feature_eqb_eq a b : feature_eqb a b = true <-> a = b.
Proof.
  unfold feature_eqb. rewrite Z.eqb_eq. split; [apply feature_index_inj | congruence].
Qed.

Lemma feature_eqb_refl a : feature_eqb a a = true.
Proof. apply feature_eqb_eq; reflexivity. Qed.

Lemma all_features_complete f : In f all_features.
Proof. destruct f; vm_compute; tauto. Qed.

Lemma testbit_shiftl1 i n : 0 <= i -> 0 <= n -> Z.testbit (Z.shiftl 1 i) n = (n =? i).
Proof.
  intros Hi Hn. rewrite Z.shiftl_spec by lia.
  destruct (n =? i) eqn:E.
  - apply Z.eqb_eq in E. subst. rewrite Z.sub_diag. reflexivity.
  - apply Z.eqb_neq in E.
    destruct (Z_lt_ge_dec n i); [apply Z.testbit_neg_r; lia|].
    replace 1 with (2 ^ 0) by reflexivity. apply Z.pow2_bits_false. lia.
Qed.

Lemma land_shiftl1 x i : 0 <= i ->
  Z.land x (Z.shiftl 1 i) = if Z.testbit x i then Z.shiftl 1 i else 0.
Proof.
  intro Hi. apply Z.bits_inj'. intros n Hn.
  rewrite Z.land_spec, testbit_shiftl1 by lia.
  destruct (n =? i) eqn:E.
  - apply Z.eqb_eq in E. subst n. rewrite andb_true_r.
    destruct (Z.testbit x i); [rewrite testbit_shiftl1, Z.eqb_refl by lia; reflexivity | rewrite Z.bits_0; reflexivity].
  - rewrite andb_false_r.
    destruct (Z.testbit x i); [rewrite testbit_shiftl1, E by lia; reflexivity | rewrite Z.bits_0; reflexivity].
Qed.

Lemma Has_shiftl1 x i : 0 <= i -> Has x (Z.shiftl 1 i) = Z.testbit x i.
Proof.
  intro Hi. unfold Has. rewrite land_shiftl1 by assumption.
  destruct (Z.testbit x i); [|reflexivity].
  rewrite Z.shiftl_1_l. assert (0 < 2 ^ i) by (apply Z.pow_pos_nonneg; lia).
  destruct (2 ^ i =? 0) eqn:E; [lia | reflexivity].
Qed.

Lemma has_testbit x f : has x f = Z.testbit x (feature_index f).
Proof. unfold has, bit. apply Has_shiftl1. apply feature_index_range. Qed.

Lemma testbit_bit f g : Z.testbit (bit f) (feature_index g) = feature_eqb g f.
Proof.
  unfold bit, feature_eqb. pose proof (feature_index_range f). pose proof (feature_index_range g).
  apply testbit_shiftl1; lia.
Qed.

Lemma has_bits_of l g : has (bits_of l) g = existsb (feature_eqb g) l.
Proof.
  rewrite has_testbit. induction l as [|f l IH]; cbn [bits_of fold_right existsb].
  - apply Z.bits_0.
  - change (fold_right (fun f acc => Z.lor (bit f) acc) 0 l) with (bits_of l).
    rewrite Z.lor_spec, IH, testbit_bit. reflexivity.
Qed.

Lemma has_bits_of_In l g : has (bits_of l) g = true <-> In g l.
Proof.
  rewrite has_bits_of, existsb_exists. split.
  - intros [x [Hx E]]. apply feature_eqb_eq in E. subst; assumption.
  - intro H. exists g. split; [assumption | apply feature_eqb_refl].
Qed.

Lemma has_lor a b g : has (Z.lor a b) g = has a g || has b g.
Proof. rewrite !has_testbit. apply Z.lor_spec. Qed.

Lemma has_bit f g : has (bit f) g = feature_eqb g f.
Proof. rewrite has_testbit. apply testbit_bit. Qed.

(* ---------- ApplyOverrides ---------- *)

Lemma ApplyOverrides_testbit f o m n :
  Z.testbit (ApplyOverrides f o m) n = if Z.testbit m n then Z.testbit o n else Z.testbit f n.
Proof.
  unfold ApplyOverrides. rewrite Z.lor_spec, Z.ldiff_spec, Z.land_spec.
  destruct (Z.testbit m n), (Z.testbit o n), (Z.testbit f n); reflexivity.
Qed.

Lemma ApplyOverrides_has f o m g :
  has (ApplyOverrides f o m) g = if has m g then has o g else has f g.
Proof. rewrite !has_testbit. apply ApplyOverrides_testbit. Qed.

(* the Go expression on uint64 agrees with the Z expression: staying within 64 bits *)
Lemma high_bits_zero x : 0 <= x < 2 ^ 64 -> forall n, 64 <= n -> Z.testbit x n = false.
Proof.
  intros Hx n Hn. destruct (Z.eq_dec x 0) as [->|Hne]; [apply Z.bits_0|].
  apply Z.bits_above_log2; [lia|]. assert (Z.log2 x < 64) by (apply Z.log2_lt_pow2; lia). lia.
Qed.

Lemma below_2_64 x : 0 <= x -> (forall n, 64 <= n -> Z.testbit x n = false) -> x < 2 ^ 64.
Proof.
  intros Hx H. destruct (Z_lt_ge_dec x (2 ^ 64)) as [|Hge]; [assumption|exfalso].
  assert (0 < x) by lia. assert (64 <= Z.log2 x) by (apply Z.log2_le_pow2; lia).
  pose proof (Z.bit_log2 x ltac:(lia)) as Hb. rewrite H in Hb by lia. discriminate.
Qed.

Lemma ApplyOverrides_range f o m :
  0 <= f < 2 ^ 64 -> 0 <= o < 2 ^ 64 -> 0 <= m < 2 ^ 64 -> 0 <= ApplyOverrides f o m < 2 ^ 64.
Proof.
  intros Hf Ho Hm.
  assert (0 <= ApplyOverrides f o m) as H0.
  { unfold ApplyOverrides. apply Z.lor_nonneg. split; [apply Z.ldiff_nonneg; lia | apply Z.land_nonneg; lia]. }
  split; [assumption|]. apply below_2_64; [assumption|]. intros n Hn.
  rewrite ApplyOverrides_testbit, (high_bits_zero m Hm n Hn). apply high_bits_zero; assumption.
Qed.

(* ---------- validateSupported ---------- *)

Definition vs_step (acc : Z * Z) (kv : feature * bool) : Z * Z :=
  let '(jsFeature, jsMask) := acc in
  (if snd kv then jsFeature else Z.lor jsFeature (bit (fst kv)), Z.lor jsMask (bit (fst kv))).

Lemma validateSupported_fold l acc g :
  has (snd (fold_left vs_step l acc)) g = has (snd acc) g || existsb (fun kv => feature_eqb g (fst kv)) l
  /\ has (fst (fold_left vs_step l acc)) g =
       has (fst acc) g || existsb (fun kv => feature_eqb g (fst kv) && negb (snd kv)) l.
Proof.
  revert acc. induction l as [|[k v] l IH]; intros [a m]; cbn [fold_left existsb].
  - rewrite !orb_false_r. split; reflexivity.
  - destruct (IH (vs_step (a, m) (k, v))) as [IH1 IH2]. rewrite IH1, IH2.
    cbn [vs_step fst snd]. rewrite has_lor, has_bit. split.
    + rewrite orb_assoc. reflexivity.
    + destruct v; cbn [negb]; [rewrite andb_false_r; reflexivity|].
      rewrite has_lor, has_bit, andb_true_r, orb_assoc. reflexivity.
Qed.

Lemma validateSupported_mask l g :
  has (snd (validateSupported l)) g = existsb (fun kv => feature_eqb g (fst kv)) l.
Proof.
  unfold validateSupported. change (fun acc kv => _) with vs_step.
  destruct (validateSupported_fold l (0, 0) g) as [H _]. rewrite H.
  cbn [snd]. rewrite has_testbit, Z.bits_0. reflexivity.
Qed.

Lemma validateSupported_feature l g :
  has (fst (validateSupported l)) g = existsb (fun kv => feature_eqb g (fst kv) && negb (snd kv)) l.
Proof.
  unfold validateSupported. change (fun acc kv => _) with vs_step.
  destruct (validateSupported_fold l (0, 0) g) as [_ H]. rewrite H.
  cbn [fst]. rewrite has_testbit, Z.bits_0. reflexivity.
Qed.

(* ---------- UnsupportedJSFeatures membership ---------- *)

Lemma unsupported_in_spec tbl cs f :
  In f (unsupported_in tbl cs) <->
  exists engs, In (f, engs) tbl /\ f <> FInlineScript /\ feature_unsupported engs cs = true.
Proof.
  unfold unsupported_in. rewrite in_map_iff. split.
  - intros [[f' engs] [E H]]. cbn in E. subst f'. apply filter_In in H as [Hin Hc].
    cbn [fst snd] in Hc. apply andb_true_iff in Hc as [Hn Hu]. exists engs. repeat split; try assumption.
    intro E. subst f. rewrite feature_eqb_refl in Hn. discriminate.
  - intros [engs [Hin [Hne Hu]]]. exists (f, engs). split; [reflexivity|].
    apply filter_In. split; [assumption|]. cbn [fst snd]. rewrite Hu, andb_true_r.
    destruct (feature_eqb f FInlineScript) eqn:E; [apply feature_eqb_eq in E; contradiction | reflexivity].
Qed.

Lemma UnsupportedJSFeatures_has cs f :
  has (UnsupportedJSFeatures cs) f = true <-> In f (unsupported_list cs).
Proof. unfold UnsupportedJSFeatures. apply has_bits_of_In. Qed.

(* ---------- monotonicity in the ES year ---------- *)

Definition ver_nonneg (v : ver) : bool := let '(a, b, c) := v in (0 <=? a) && (0 <=? b) && (0 <=? c).

(* every range of the ES engine has no end and non-negative components *)
Definition es_row_ok (row : feature * list (engine * list vrange)) : bool :=
  match lookup_engine EES (snd row) with
  | None => true
  | Some r => forallb (fun se : vrange => ver_is_zero (snd se) && ver_nonneg (fst se)) r
  end.

Lemma compareVersions_year_mono s y1 y2 :
  ver_nonneg s = true -> y1 <= y2 ->
  compareVersions s (mkSemver [y1] false) <= 0 -> compareVersions s (mkSemver [y2] false) <= 0.
Proof.
  destruct s as [[a b] c]. unfold ver_nonneg, compareVersions, part. cbn [sv_parts sv_pre nth].
  rewrite !andb_false_r. intros Hn Hy.
  apply andb_true_iff in Hn as [Hn Hc]. apply andb_true_iff in Hn as [Ha Hb].
  destruct (a - y1 =? 0) eqn:E1; destruct (a - y2 =? 0) eqn:E2;
    repeat match goal with
           | |- context [if ?c then _ else _] => destruct c eqn:?
           end; lia.
Qed.

Lemma supported_year_mono r y1 y2 :
  forallb (fun se : vrange => ver_is_zero (snd se) && ver_nonneg (fst se)) r = true ->
  y1 <= y2 ->
  isVersionSupported r (mkSemver [y1] false) = true -> isVersionSupported r (mkSemver [y2] false) = true.
Proof.
  intros Hok Hy. induction r as [|[s e] r IH]; cbn [isVersionSupported]; [discriminate|].
  cbn [forallb fst snd] in Hok. apply andb_true_iff in Hok as [H1 Hok].
  apply andb_true_iff in H1 as [Hz Hn]. rewrite Hz. cbn [orb]. rewrite !andb_true_r.
  destruct (compareVersions s (mkSemver [y1] false) <=? 0) eqn:E1.
  - intros _. assert (compareVersions s (mkSemver [y2] false) <= 0) as H2
      by (apply (compareVersions_year_mono s y1 y2); [assumption | assumption | lia]).
    destruct (compareVersions s (mkSemver [y2] false) <=? 0) eqn:E2; [reflexivity | lia].
  - intro H. destruct (compareVersions s (mkSemver [y2] false) <=? 0); [reflexivity | apply IH; assumption].
Qed.

Lemma feature_unsupported_es engs y :
  feature_unsupported engs (es_constraint y) =
  match lookup_engine EES engs with None => true | Some r => negb (isVersionSupported r (mkSemver [y] false)) end.
Proof. unfold feature_unsupported, es_constraint. cbn [existsb fst snd]. apply orb_false_r. Qed.

Lemma es_monotone_tbl tbl y1 y2 f :
  forallb es_row_ok tbl = true -> y1 <= y2 ->
  In f (unsupported_in tbl (es_constraint y2)) -> In f (unsupported_in tbl (es_constraint y1)).
Proof.
  intros Hok Hy. rewrite !unsupported_in_spec. intros [engs [Hin [Hne Hu]]].
  exists engs. repeat split; try assumption.
  rewrite feature_unsupported_es in *.
  rewrite forallb_forall in Hok. specialize (Hok _ Hin). unfold es_row_ok in Hok. cbn [snd] in Hok.
  destruct (lookup_engine EES engs) as [r|]; [|reflexivity].
  destruct (isVersionSupported r (mkSemver [y1] false)) eqn:E1; [|reflexivity].
  rewrite (supported_year_mono r y1 y2 Hok Hy E1) in Hu. discriminate.
Qed.

Lemma jsTable_es_rows_ok : forallb es_row_ok jsTable = true.
Proof. vm_compute. reflexivity. Qed.

Lemma es_monotone_all y1 y2 f :
  y1 <= y2 -> In f (unsupported_list (es_constraint y2)) -> In f (unsupported_list (es_constraint y1)).
Proof. apply es_monotone_tbl. exact jsTable_es_rows_ok. Qed.
