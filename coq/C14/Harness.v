(* Checkers evaluated by the correspondence run: each returns the indices of
   the cases on which the model and the implementation's observed output
   differ (or on which the specification-side predicate disagrees). *)
From V Require Import Common.Base C14.Compat C14.Spec C14.LowerGraph C14.Css C14.Sites.

Fixpoint mism_from {A} (f : A -> bool) (l : list A) (i : nat) : list nat :=
  match l with
  | [] => []
  | x :: r => if f x then mism_from f r (S i) else i :: mism_from f r (S i)
  end.
Definition mismatches {A} (f : A -> bool) (l : list A) : list nat := mism_from f l 0.

(* compat.UnsupportedJSFeatures(constraints) = Go uint64 *)
Definition unsupported_ok (c : list constraint * Z) : bool :=
  let '(cs, go) := c in UnsupportedJSFeatures cs =? go.
Definition check_unsupported := mismatches unsupported_ok.

(* JSFeature.ApplyOverrides *)
Definition overrides_ok (c : Z * Z * Z * Z) : bool :=
  let '(f, o, m, go) := c in ApplyOverrides f o m =? go.
Definition check_overrides := mismatches overrides_ok.

(* validateFeatures + validateSupported + ApplyOverrides + applyOptionDefaults (platform browser) *)
Definition config_ok (c : list constraint * list (feature * bool) * Z * Z * Z) : bool :=
  let '(cs, sup, gu, go, gm) := c in
  let o := configured_unsupported cs sup in
  (o_unsupported o =? gu) && (o_overrides o =? go) && (o_mask o =? gm).
Definition check_config := mismatches config_ok.

(* the Go harness's leak verdict for an ES-year target equals the specification's *)
Definition spec_leaks_ok (c : Z * list feature * list feature) : bool :=
  let '(year, detected, leaks) := c in
  list_eqb feature_eqb (spec_leaks year detected) leaks.
Definition check_spec_leaks := mismatches spec_leaks_ok.

(* lowering graph: (unsupported set as esbuild computed it, features the probe uses,
   did the transform succeed, features the detector saw in the output).
   The model must predict the outcome, and every observed feature that is newer than
   ES2015 or unsupported must be among the features the model says are written. *)
Definition tracked (U : fset) (g : feature) : bool := U g || newer_than 2015 g.
Definition lower_ok (c : list feature * list feature * bool * list feature) : bool :=
  let '(ul, prog, ok, observed) := c in
  let U := fset_of ul in
  match compile U prog, ok with
  | Error, false => true
  | Ok out, true => forallb (fun g => negb (tracked U g) || existsb (feature_eqb g) out) observed
  | _, _ => false
  end.
Definition check_lower := mismatches lower_ok.

(* CSS: compat.UnsupportedCSSFeatures(constraints) = Go uint16 *)
Definition css_unsupported_ok (c : list constraint * Z) : bool :=
  let '(cs, go) := c in UnsupportedCSSFeatures cs =? go.
Definition check_css_unsupported := mismatches css_unsupported_ok.

(* CSS lowering gates: (unsupported set, features the probe uses, features seen in the output):
   every unsupported feature seen in the output is one the model says is written *)
Definition css_lower_ok (c : list css_feature * list css_feature * list css_feature) : bool :=
  let '(ul, prog, observed) := c in
  let U := css_fset_of ul in
  let out := css_compile U prog in
  forallb (fun g => negb (U g) || existsb (css_feature_eqb g) out) observed.
Definition check_css_lower := mismatches css_lower_ok.

(* syntax introduced by esbuild's own rewrites (minifier, generated code): (unsupported set,
   features of the INPUT, features seen in the output).  The model: the input's features go
   through [compile]; every introducing rewrite writes its feature only when supported
   ([rewrite_writes]).  So every unsupported feature seen in the output must be one that
   compile says is written. *)
Definition intro_ok (c : list feature * list feature * list feature) : bool :=
  let '(ul, prog, observed) := c in
  let U := fset_of ul in
  let out := match compile U prog with Ok o => o | Error => [] end
             ++ flat_map (rewrite_writes U) introducing_rewrites in
  forallb (fun g => negb (U g) || existsb (feature_eqb g) out) observed.
Definition check_intro := mismatches intro_ok.
