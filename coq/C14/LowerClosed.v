(* Lemmas about the lowering graph: closure for every unsupported set. *)
From Coq Require Import String.
From V Require Import Common.Base C14.Compat C14.CompatProofs C14.LowerGraph.

Ltac split_in H :=
  repeat match type of H with
         | In _ (_ :: _) => destruct H as [H|H]
         | In _ [] => destruct H
         | _ \/ _ => destruct H as [H|H]
         | False => destruct H
         end.

Ltac case_bits :=
  repeat match goal with
         | H : context [if ?U ?x then _ else _] |- _ => destruct (U x) eqn:?
         | |- context [if ?U ?x then _ else _] => destruct (U x) eqn:?
         end.

(* every feature written by the lowering of f is supported, or is itself lowered
   and strictly lower in rank, or is the array spread of `super(...arguments)`:
   for EVERY unsupported set U, no hypothesis *)
Lemma lowering_closed_gen (U : fset) f g :
  U f = true -> dispose U f = Lowered -> In g (emits U f) ->
  U g = false \/ (dispose U g = Lowered /\ rank g < rank f) \/ (g = FArraySpread /\ f = FClassField).
Proof.
  intros Hf Hd Hin.
  destruct f; cbv [dispose] in Hd; try discriminate Hd;
    cbv [emits emits_syntax helpers_of flat_map helper_feats helper_fuel find_helper runtime_helpers
         String.eqb Ascii.eqb Bool.eqb fst snd helper_own select fold_left forallb negb app let_or_var] in Hin;
    try (exfalso; exact Hin);
    case_bits; try discriminate; cbn [app] in Hin; split_in Hin; subst;
    try (right; left; split; reflexivity);
    try (right; right; split; reflexivity);
    try (destruct (U FAsyncAwait) eqn:?, (U FGenerator) eqn:?; try discriminate);
    first [ left; assumption
          | right; left; split; [cbv [dispose]; case_bits; first [reflexivity | congruence] | vm_compute; reflexivity] ].
Qed.

(* with array spread supported the third case disappears *)
Lemma lowering_closed_l (U : fset) f g :
  base_ok U = true -> U f = true -> dispose U f = Lowered -> In g (emits U f) ->
  U g = false \/ (dispose U g = Lowered /\ rank g < rank f).
Proof.
  unfold base_ok. intros Hb Hf Hd Hin.
  destruct (lowering_closed_gen U f g Hf Hd Hin) as [H|[H|[-> _]]]; [left; exact H | right; exact H |].
  left. destruct (U FArraySpread); [discriminate | reflexivity].
Qed.
