(* Theorems about the regenerated tables: agreement with the ECMA-262 edition
   table, well-formed version ranges, the `supported` pipeline, implied overrides. *)
From Coq Require Import String Ascii.
From V Require Import Common.Base C14.Compat C14.Spec C14.CompatProofs.

(* ---------- the ES column of jsTable against ECMA-262 ---------- *)

Fixpoint lookup_feature (f : feature) (tbl : list (feature * list (engine * list vrange))) :=
  match tbl with
  | [] => None
  | (g, e) :: r => if feature_eqb f g then Some e else lookup_feature f r
  end.

(* the ES year from which the table says f is available (None: no ES entry / not in the table) *)
Definition table_es_year (f : feature) : option Z :=
  match lookup_feature f jsTable with
  | None => None
  | Some engs =>
      match lookup_engine EES engs with
      | Some [((y, 0, 0), (0, 0, 0))] => Some y
      | _ => None
      end
  end.

Definition agrees_with_ecma (f : feature) : bool :=
  match ecma_edition f, table_es_year f with
  | Ed e, Some y => e =? y
  | NotInEcma, None => true
  | NotSyntax, _ => true
  | _, _ => false
  end.

(* the table never claims a syntax feature EARLIER than the standard has it *)
Definition not_earlier_than_ecma (f : feature) : bool :=
  match ecma_edition f, table_es_year f with
  | Ed e, Some y => e <=? y
  | Ed _, None => true
  | NotInEcma, None => true
  | NotInEcma, Some _ => false
  | NotSyntax, _ => true
  end.

Lemma es_years_match_ecma_refuted_l :
  exists f, In f all_features /\ agrees_with_ecma f = false /\ not_earlier_than_ecma f = false.
Proof. exists FDynamicImport. vm_compute. repeat split; auto 30. Qed.

Lemma es_years_match_ecma_partial_l :
  forall f, f <> FDynamicImport -> f <> FImportAttributes -> agrees_with_ecma f = true.
Proof. intros f H1 H2. destruct f; try (vm_compute; reflexivity); contradiction. Qed.

Lemma es_years_not_earlier_partial_l :
  forall f, f <> FDynamicImport -> not_earlier_than_ecma f = true.
Proof. intros f H1. destruct f; try (vm_compute; reflexivity); contradiction. Qed.

(* consequence for every ES year target (all integers): a syntax feature that
   the standard introduced after year y (or never) is in the unsupported set *)
(* per feature: the table has a row, and its ES entry is absent or one open
   range starting at (a,0,0) with a not before the ECMA edition *)
Definition flag_ok (f : feature) : bool :=
  match ecma_edition f with
  | NotSyntax => true
  | Ed e =>
      match lookup_feature f jsTable with
      | None => false
      | Some engs =>
          match lookup_engine EES engs with
          | None => true
          | Some [((a, 0, 0), (0, 0, 0))] => e <=? a
          | Some _ => false
          end
      end
  | NotInEcma =>
      match lookup_feature f jsTable with
      | None => false
      | Some engs => match lookup_engine EES engs with None => true | Some _ => false end
      end
  end.

Lemma lookup_feature_In f tbl engs : lookup_feature f tbl = Some engs -> In (f, engs) tbl.
Proof.
  induction tbl as [|[g e] r IH]; cbn [lookup_feature]; [discriminate|].
  destruct (feature_eqb f g) eqn:E.
  - apply feature_eqb_eq in E. subst g. intro H. inversion H. left; reflexivity.
  - intro H. right. apply IH; assumption.
Qed.

Lemma flag_ok_sound f y :
  flag_ok f = true -> f <> FInlineScript -> newer_than y f = true -> In f (unsupported_list (es_constraint y)).
Proof.
  unfold flag_ok, newer_than. intros Hok Hni Hn.
  destruct (ecma_edition f) as [e| |]; [| |discriminate].
  - destruct (lookup_feature f jsTable) as [engs|] eqn:El; [|discriminate].
    apply unsupported_in_spec. exists engs. split; [apply lookup_feature_In; assumption|]. split; [assumption|].
    rewrite feature_unsupported_es.
    destruct (lookup_engine EES engs) as [r|]; [|reflexivity].
    destruct r as [|[[[a b] c] [[a' b'] c']] r']; [discriminate|].
    destruct b; try discriminate. destruct c; try discriminate. destruct a'; try discriminate.
    destruct b'; try discriminate. destruct c'; try discriminate. destruct r'; [|discriminate].
    cbn [isVersionSupported ver_is_zero]. unfold compareVersions, part. cbn [sv_parts sv_pre nth].
    rewrite !andb_false_r. cbn [Z.eqb orb andb].
    assert (a - y > 0) by lia.
    destruct (a - y =? 0) eqn:E0; [lia|].
    destruct (a - y <=? 0) eqn:E1; [lia|]. rewrite ?E0, ?E1. reflexivity.
  - destruct (lookup_feature f jsTable) as [engs|] eqn:El; [|discriminate].
    apply unsupported_in_spec. exists engs. split; [apply lookup_feature_In; assumption|]. split; [assumption|].
    rewrite feature_unsupported_es.
    destruct (lookup_engine EES engs); [discriminate | reflexivity].
Qed.

Lemma flag_ok_all f : f <> FDynamicImport -> flag_ok f = true.
Proof. intros H1. destruct f; try (vm_compute; reflexivity); contradiction. Qed.

Lemma es_target_flags_newer_l :
  forall f y, f <> FDynamicImport ->
    newer_than y f = true -> In f (unsupported_list (es_constraint y)).
Proof.
  intros f y H1 Hn. apply flag_ok_sound; [apply flag_ok_all; assumption | | assumption].
  intro E. subst f. vm_compute in Hn. discriminate.
Qed.

(* ---------- api.Target constants ---------- *)

Definition target_name_year_ok (p : string * Z) : bool :=
  let '(name, y) := p in
  if String.eqb name "ES5" then y =? 5 else
  match name with
  | String "E"%char (String "S"%char digits) =>
      (* the decimal digits after "ES" are the year *)
      let fix value (s : string) (acc : Z) : option Z :=
        match s with
        | EmptyString => Some acc
        | String c r =>
            let d := Z.of_nat (Ascii.nat_of_ascii c) - 48 in
            if (0 <=? d) && (d <=? 9) then value r (acc * 10 + d) else None
        end in
      match value digits 0 with Some v => v =? y | None => false end
  | _ => false
  end.

Lemma es_targets_named_by_year_l : forallb target_name_year_ok es_targets = true.
Proof. vm_compute. reflexivity. Qed.

(* ---------- StringToJSFeature is a bijection onto the enum ---------- *)

Definition string_table_ok : bool :=
  (length string_to_feature =? length all_features)%nat
  && forallb (fun f => existsb (fun kv => feature_eqb f (snd kv)) string_to_feature) all_features
  && forallb (fun kv => (length (filter (fun kv' => String.eqb (fst kv) (fst kv')) string_to_feature) =? 1)%nat) string_to_feature.

Lemma string_table_bijective_l : string_table_ok = true.
Proof. vm_compute. reflexivity. Qed.

(* ---------- version ranges ---------- *)

Definition ver_lt (a b : ver) : bool :=
  let '(a1, a2, a3) := a in let '(b1, b2, b3) := b in
  (a1 <? b1) || ((a1 =? b1) && ((a2 <? b2) || ((a2 =? b2) && (a3 <? b3)))).
Definition ver_le (a b : ver) : bool := ver_lt a b || (let '(a1, a2, a3) := a in let '(b1, b2, b3) := b in (a1 =? b1) && (a2 =? b2) && (a3 =? b3)).

Definition ver_fits (v : ver) : bool :=
  let '(a, b, c) := v in (0 <=? a) && (a <? 65536) && (0 <=? b) && (b <? 256) && (0 <=? c) && (c <? 256).

(* non-empty; every component fits Go's uint16/uint8; start < end when there is an
   end; ranges ascending and disjoint; only the last range may be open-ended *)
Fixpoint ranges_wf (l : list vrange) : bool :=
  match l with
  | [] => true
  | (s, e) :: r =>
      ver_fits s && ver_fits e && (ver_is_zero e || ver_lt s e)
      && match r with
         | [] => true
         | (s', _) :: _ => negb (ver_is_zero e) && ver_le e s'
         end
      && ranges_wf r
  end.

Definition table_wf : bool :=
  forallb (fun row : feature * list (engine * list vrange) =>
             forallb (fun er : engine * list vrange => negb (match snd er with [] => true | _ => false end) && ranges_wf (snd er)) (snd row)
             && (length (snd row) =? length (nodup Z.eq_dec (map (fun er => engine_index (fst er)) (snd row))))%nat)
          jsTable
  && (length jsTable =? length (nodup Z.eq_dec (map (fun row => feature_index (fst row)) jsTable)))%nat.

Lemma engine_ranges_well_formed_l : table_wf = true.
Proof. vm_compute. reflexivity. Qed.

(* with ascending disjoint ranges, a version is supported iff it lies in one of
   them; for an open-ended last range support is upward closed from its start *)
Definition vle3 (a b : Z * Z * Z) : Prop :=
  let '(a1, a2, a3) := a in let '(b1, b2, b3) := b in
  a1 < b1 \/ (a1 = b1 /\ (a2 < b2 \/ (a2 = b2 /\ a3 <= b3))).

Definition sv3 (v : Z * Z * Z) : semver := let '(a, b, c) := v in mkSemver [a; b; c] false.

Lemma compareVersions_sign s v : compareVersions s (sv3 v) <= 0 <-> vle3 s v.
Proof.
  destruct s as [[a b] c], v as [[x y] z]. unfold compareVersions, sv3, part, vle3. cbn [sv_parts sv_pre nth].
  rewrite !andb_false_r.
  destruct (a - x =? 0) eqn:E0; [destruct (b - y =? 0) eqn:E1|]; try rewrite E0;
    repeat match goal with |- context [if ?c then _ else _] => destruct c eqn:? end; lia.
Qed.

Lemma open_range_upward_closed s v1 v2 :
  vle3 v1 v2 -> isVersionSupported [(s, (0, 0, 0))] (sv3 v1) = true -> isVersionSupported [(s, (0, 0, 0))] (sv3 v2) = true.
Proof.
  intros Hle. cbn [isVersionSupported ver_is_zero]. cbn. rewrite !andb_true_r.
  destruct (compareVersions s (sv3 v1) <=? 0) eqn:E1; [|discriminate]. intros _.
  assert (vle3 s v1) as H1 by (apply compareVersions_sign; lia).
  assert (vle3 s v2) as H2.
  { destruct s as [[a b] c], v1 as [[x y] z], v2 as [[p q] r]. unfold vle3 in *. lia. }
  apply compareVersions_sign in H2.
  destruct (compareVersions s (sv3 v2) <=? 0) eqn:E2; [reflexivity | lia].
Qed.

(* ---------- implied overrides ---------- *)

Lemma fixInvalid_has o a B g :
  has (o_overrides (fixInvalid o (bit a) (bits_of B))) g = has (o_overrides o) g || (has (o_overrides o) a && existsb (feature_eqb g) B)
  /\ has (o_unsupported (fixInvalid o (bit a) (bits_of B))) g = has (o_unsupported o) g || (has (o_overrides o) a && existsb (feature_eqb g) B)
  /\ has (o_mask (fixInvalid o (bit a) (bits_of B))) g = has (o_mask o) g || (has (o_overrides o) a && existsb (feature_eqb g) B).
Proof.
  unfold fixInvalid. change (Has (o_overrides o) (bit a)) with (has (o_overrides o) a).
  destruct (has (o_overrides o) a); cbn [o_overrides o_unsupported o_mask andb].
  - rewrite !has_lor, !has_bits_of. repeat split; reflexivity.
  - rewrite !orb_false_r. repeat split; reflexivity.
Qed.

Definition row_holds (o : opts) (row : feature * list feature) : Prop :=
  has (o_overrides o) (fst row) = true ->
  forall b, In b (snd row) -> has (o_unsupported o) b = true /\ has (o_overrides o) b = true /\ has (o_mask o) b = true.

Definition later_ok (row : feature * list feature) (rest : list (feature * list feature)) : bool :=
  forallb (fun r => negb (existsb (feature_eqb (fst row)) (snd r))
                    || forallb (fun b => existsb (feature_eqb b) (snd r)) (snd row)) rest.

Fixpoint table_closed (tbl : list (feature * list feature)) : bool :=
  match tbl with
  | [] => true
  | row :: rest => later_ok row rest && table_closed rest
  end.

Lemma existsb_feature_In g B : existsb (feature_eqb g) B = true <-> In g B.
Proof.
  rewrite existsb_exists. split.
  - intros [x [Hx E]]. apply feature_eqb_eq in E. subst; assumption.
  - intro H. exists g. split; [assumption | apply feature_eqb_refl].
Qed.

Lemma row_preserved rest : forall o row,
  later_ok row rest = true -> row_holds o row -> row_holds (fixAll_with rest o) row.
Proof.
  induction rest as [|[a B] rest IH]; intros o row Hok Hrow; [exact Hrow|].
  cbn [later_ok forallb] in Hok. apply andb_true_iff in Hok as [H1 Hok].
  unfold fixAll_with. cbn [fold_left]. apply IH; [exact Hok|].
  cbn [fst snd] in *.
  destruct (fixInvalid_has o a B (fst row)) as [Ho _].
  intros Hset b Hb. rewrite Ho in Hset.
  destruct (fixInvalid_has o a B b) as [Hob [Hub Hmb]]. rewrite Hob, Hub, Hmb.
  destruct (has (o_overrides o) (fst row)) eqn:E.
  - destruct (Hrow E b Hb) as [-> [-> ->]]. repeat split; reflexivity.
  - cbn [orb] in Hset. apply andb_true_iff in Hset as [Ha Hin]. rewrite Ha. cbn [andb].
    rewrite Hin in H1. cbn [negb orb] in H1. rewrite forallb_forall in H1. rewrite (H1 b Hb).
    rewrite !orb_true_r. repeat split; reflexivity.
Qed.

Lemma fixAll_with_consistent tbl : table_closed tbl = true ->
  forall o row, In row tbl -> row_holds (fixAll_with tbl o) row.
Proof.
  induction tbl as [|[a B] rest IH]; intros Hc o row Hin; [destruct Hin|].
  cbn [table_closed] in Hc. apply andb_true_iff in Hc as [Hl Hc].
  unfold fixAll_with. cbn [fold_left]. fold (fixAll_with rest (fixInvalid o (bit a) (bits_of B))).
  destruct Hin as [<-|Hin]; [|apply IH; assumption].
  apply row_preserved; [exact Hl|].
  intros Hset b Hb. cbn [fst snd] in *.
  destruct (fixInvalid_has o a B a) as [Ho _]. rewrite Ho in Hset.
  assert (has (o_overrides o) a = true) as Ha by (destruct (has (o_overrides o) a); [reflexivity | cbn in Hset; discriminate]).
  destruct (fixInvalid_has o a B b) as [Hob [Hub Hmb]]. rewrite Hob, Hub, Hmb, Ha.
  apply existsb_feature_In in Hb. rewrite Hb. cbn [andb]. rewrite !orb_true_r. repeat split; reflexivity.
Qed.

Lemma implied_table_closed : table_closed implied_table = true.
Proof. vm_compute. reflexivity. Qed.

Lemma implied_overrides_consistent_l : forall o row, In row implied_table -> row_holds (fixAll o) row.
Proof. apply fixAll_with_consistent. exact implied_table_closed. Qed.

(* the fixer never removes anything and only touches implied features *)
Lemma fixAll_with_monotone tbl : forall o g,
  has (o_unsupported o) g = true -> has (o_unsupported (fixAll_with tbl o)) g = true.
Proof.
  induction tbl as [|[a B] rest IH]; intros o g H; [exact H|].
  unfold fixAll_with. cbn [fold_left]. apply IH. cbn [fst snd].
  destruct (fixInvalid_has o a B g) as [_ [Hu _]]. rewrite Hu, H. reflexivity.
Qed.

(* ---------- the `supported` pipeline: explicit entries win in both directions ---------- *)

Lemma supported_false_wins cs sup g :
  In (g, false) sup -> has (o_unsupported (configured_unsupported cs sup)) g = true.
Proof.
  intro Hin. unfold configured_unsupported.
  destruct (validateSupported sup) as [ov mask] eqn:E.
  apply fixAll_with_monotone. cbn [o_unsupported].
  rewrite ApplyOverrides_has.
  assert (has mask g = true) as ->.
  { change mask with (snd (ov, mask)). rewrite <- E, validateSupported_mask. apply existsb_exists.
    exists (g, false). split; [assumption | apply feature_eqb_refl]. }
  change ov with (fst (ov, mask)). rewrite <- E, validateSupported_feature. apply existsb_exists.
  exists (g, false). split; [assumption|]. cbn. rewrite feature_eqb_refl. reflexivity.
Qed.

Definition implied_targets : list feature := flat_map snd implied_table.

Lemma fixAll_with_untouched tbl : forall o g,
  existsb (feature_eqb g) (flat_map snd tbl) = false ->
  has (o_unsupported (fixAll_with tbl o)) g = has (o_unsupported o) g.
Proof.
  induction tbl as [|[a B] rest IH]; intros o g H; [reflexivity|].
  cbn [flat_map snd] in H. rewrite existsb_app in H. apply orb_false_iff in H as [H1 H2].
  unfold fixAll_with. cbn [fold_left]. fold (fixAll_with rest (fixInvalid o (bit a) (bits_of B))).
  rewrite IH by assumption. cbn [fst snd].
  destruct (fixInvalid_has o a B g) as [_ [Hu _]]. rewrite Hu, H1, andb_false_r, orb_false_r. reflexivity.
Qed.

Lemma supported_true_wins cs sup g :
  (forall b, In (g, b) sup -> b = true) -> In (g, true) sup ->
  existsb (feature_eqb g) implied_targets = false ->
  has (o_unsupported (configured_unsupported cs sup)) g = false.
Proof.
  intros Hall Hin Hni. unfold configured_unsupported.
  destruct (validateSupported sup) as [ov mask] eqn:E.
  unfold fixAll. rewrite fixAll_with_untouched by exact Hni. cbn [o_unsupported].
  rewrite ApplyOverrides_has.
  assert (has mask g = true) as ->.
  { change mask with (snd (ov, mask)). rewrite <- E, validateSupported_mask. apply existsb_exists.
    exists (g, true). split; [assumption | apply feature_eqb_refl]. }
  change ov with (fst (ov, mask)). rewrite <- E, validateSupported_feature.
  destruct (existsb _ sup) eqn:Ex; [|reflexivity].
  apply existsb_exists in Ex as [[k v] [Hk Hv]]. cbn [fst snd] in Hv.
  apply andb_true_iff in Hv as [Hv1 Hv2]. apply feature_eqb_eq in Hv1. subst k.
  rewrite (Hall v Hk) in Hv2. discriminate.
Qed.

(* ---------- exactly which rows deviate from ECMA-262, and how ---------- *)

(* the syntax features whose ES column differs from the standard's edition *)
Definition es_year_deviations : list feature := filter (fun f => negb (agrees_with_ecma f)) all_features.
(* ... those where the table is EARLIER than the standard (newer syntax can pass a lower target) *)
Definition es_year_unsafe_deviations : list feature := filter (fun f => negb (not_earlier_than_ecma f)) all_features.
(* enum entries whose row has no engine at all: unsupported for EVERY non-empty target
   (InlineScript is skipped by the loop and is purely user-specified) *)
Definition features_with_empty_row : list feature :=
  filter (fun f => match lookup_feature f jsTable with Some [] => true | _ => false end) all_features.

Lemma es_year_deviations_exact_l :
  es_year_deviations = [FDynamicImport; FImportAttributes]
  /\ es_year_unsafe_deviations = [FDynamicImport]
  /\ table_es_year FDynamicImport = Some 2015 /\ ecma_edition FDynamicImport = Ed 2020
  /\ table_es_year FImportAttributes = None /\ ecma_edition FImportAttributes = Ed 2025
  /\ features_with_empty_row = [FDecorators; FImportDefer; FImportSource; FInlineScript]
  /\ length jsTable = length all_features.
Proof. vm_compute. repeat split; reflexivity. Qed.

(* for every other feature and every ES year the table's verdict IS the standard's:
   unsupported(ES y) contains f iff f is newer than y *)
Definition row_matches_ecma (row : feature * list (engine * list vrange)) : bool :=
  match ecma_edition (fst row) with
  | Ed e => match lookup_engine EES (snd row) with
            | Some [((a, 0, 0), (0, 0, 0))] => a =? e
            | _ => false
            end
  | NotInEcma => match lookup_engine EES (snd row) with None => true | Some _ => false end
  | NotSyntax => true
  end.

Lemma rows_match_ecma :
  forallb (fun row => existsb (feature_eqb (fst row)) es_year_deviations || row_matches_ecma row) jsTable = true.
Proof. vm_compute. reflexivity. Qed.

Lemma es_year_unsupported_single a y :
  negb (isVersionSupported [((a, 0, 0), (0, 0, 0))] (mkSemver [y] false)) = (y <? a).
Proof.
  cbn [isVersionSupported ver_is_zero]. unfold compareVersions, part. cbn [sv_parts sv_pre nth].
  rewrite !andb_false_r. cbn [Z.eqb orb andb].
  destruct (Z.eq_dec a y) as [->|Hne].
  - rewrite Z.sub_diag. cbn. rewrite Z.ltb_irrefl. reflexivity.
  - assert (a - y =? 0 = false) as H0 by lia. rewrite !H0.
    destruct (a - y <=? 0) eqn:E1; destruct (y <? a) eqn:E2; cbn; try reflexivity; lia.
Qed.

Lemma es_unsupported_iff_newer_l f y :
  In f (map fst jsTable) -> ~ In f es_year_deviations -> ecma_edition f <> NotSyntax ->
  (In f (unsupported_list (es_constraint y)) <-> newer_than y f = true).
Proof.
  intros Hrow Hdev Hsyn.
  assert (Hni : f <> FInlineScript) by (intro; subst f; vm_compute in Hsyn; congruence).
  assert (Hnd : existsb (feature_eqb f) es_year_deviations = false).
  { destruct (existsb (feature_eqb f) es_year_deviations) eqn:E; [|reflexivity].
    exfalso. apply Hdev. apply existsb_feature_In. exact E. }
  assert (Hrows : forall engs, In (f, engs) jsTable -> row_matches_ecma (f, engs) = true).
  { intros engs Hin. pose proof rows_match_ecma as H. rewrite forallb_forall in H. specialize (H _ Hin).
    cbn [fst] in H. rewrite Hnd in H. exact H. }
  unfold unsupported_list. rewrite unsupported_in_spec. unfold newer_than. split.
  - intros [engs [Hin [_ Hu]]]. specialize (Hrows engs Hin). unfold row_matches_ecma in Hrows. cbn [fst snd] in Hrows.
    rewrite feature_unsupported_es in Hu.
    destruct (ecma_edition f) as [e| |]; [|reflexivity|congruence].
    destruct (lookup_engine EES engs) as [r|]; [|discriminate].
    destruct r as [|[[[a b] c] [[a' b'] c']] r']; [discriminate|].
    destruct b; try discriminate. destruct c; try discriminate. destruct a'; try discriminate.
    destruct b'; try discriminate. destruct c'; try discriminate. destruct r'; [|discriminate].
    apply Z.eqb_eq in Hrows. subst a. rewrite es_year_unsupported_single in Hu. exact Hu.
  - intro Hn. apply in_map_iff in Hrow as [[f' engs] [E Hin]]. cbn in E. subst f'.
    exists engs. split; [exact Hin|]. split; [exact Hni|].
    specialize (Hrows engs Hin). unfold row_matches_ecma in Hrows. cbn [fst snd] in Hrows.
    rewrite feature_unsupported_es.
    destruct (ecma_edition f) as [e| |]; [| |congruence].
    + destruct (lookup_engine EES engs) as [r|]; [|discriminate].
      destruct r as [|[[[a b] c] [[a' b'] c']] r']; [discriminate|].
      destruct b; try discriminate. destruct c; try discriminate. destruct a'; try discriminate.
      destruct b'; try discriminate. destruct c'; try discriminate. destruct r'; [|discriminate].
      apply Z.eqb_eq in Hrows. subst a. rewrite es_year_unsupported_single. exact Hn.
    + destruct (lookup_engine EES engs); [discriminate | reflexivity].
Qed.
