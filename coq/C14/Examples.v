From V Require Import Common.Base C14.Compat C14.Spec C14.CompatProofs.
(* non-vacuity / sanity: concrete values *)
Example es2019_unsupported_has_optional_chain :
  existsb (feature_eqb FOptionalChain) (unsupported_list (es_constraint 2019)) = true
  /\ existsb (feature_eqb FOptionalChain) (unsupported_list (es_constraint 2020)) = false.
Proof. vm_compute. split; reflexivity. Qed.
