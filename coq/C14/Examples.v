From Coq Require Import String.
From V Require Import Common.Base C14.Compat C14.Spec C14.LowerGraph C14.CompatProofs C14.TableProofs C14.Constructs C14.Sites C14.Css C14.CssProofs.
(* non-vacuity / sanity: concrete values meeting the hypotheses of the theorems *)

(* es_monotone: optional chaining is unsupported for ES2019 and supported for ES2020 *)
Example es2019_unsupported_has_optional_chain :
  existsb (feature_eqb FOptionalChain) (unsupported_list (es_constraint 2019)) = true
  /\ existsb (feature_eqb FOptionalChain) (unsupported_list (es_constraint 2020)) = false.
Proof. vm_compute. split; reflexivity. Qed.

(* the unsupported set of ES2015 as a bit set is non-trivial and the ES2024 one is smaller *)
Example es2015_bits_nonzero :
  Nat.ltb (length (unsupported_list (es_constraint 2024))) (length (unsupported_list (es_constraint 2015))) = true
  /\ Nat.ltb 0 (length (unsupported_list (es_constraint 2024))) = true.
Proof. vm_compute. split; reflexivity. Qed.

(* apply_overrides_spec in both directions on a concrete triple *)
Example overrides_both_directions :
  let f := bits_of [FArrow; FClass] in
  let o := bits_of [FBigint] in
  let m := bits_of [FArrow; FBigint] in
  has (ApplyOverrides f o m) FArrow = false /\ has (ApplyOverrides f o m) FBigint = true /\ has (ApplyOverrides f o m) FClass = true.
Proof. vm_compute. repeat split; reflexivity. Qed.

(* implied_overrides_consistent: class:false drags the class features along *)
Example class_false_implies_fields :
  let o := configured_unsupported [] [(FClass, false)] in
  has (o_unsupported o) FClassPrivateField = true /\ has (o_mask o) FClassStaticBlocks = true.
Proof. vm_compute. split; reflexivity. Qed.

(* supported_true_honoured has satisfiable hypotheses *)
Example optional_chain_forced_on :
  has (o_unsupported (configured_unsupported (es_constraint 2015) [(FOptionalChain, true)])) FOptionalChain = false
  /\ existsb (feature_eqb FOptionalChain) implied_targets = false.
Proof. vm_compute. split; reflexivity. Qed.

(* lowering_closed_partial / compile_sound_partial: the ES2015 unsupported set satisfies base_ok,
   decorators + async generators + object rest are lowered to Arrow/Generator/ForOf/let only *)
Example es2015_compile :
  let U := fset_of (unsupported_list (es_constraint 2015)) in
  base_ok U = true /\
  match compile U [FDecorators; FAsyncGenerator; FObjectRestSpread; FUsing; FClassPrivateField] with
  | Ok out => forallb (fun g => negb (U g)) out && Nat.ltb 20 (length out)
  | Error => false
  end = true.
Proof. vm_compute. split; reflexivity. Qed.

(* the guards matter: with for-of unsupported the for-of-free variants are selected *)
Example no_for_of_variant :
  existsb (feature_eqb FForOf) (helper_feats (fset_of []) helper_fuel "__objRest") = true /\
  existsb (feature_eqb FForOf) (helper_feats (fset_of [FForOf]) helper_fuel "__objRest") = false.
Proof. vm_compute. split; reflexivity. Qed.

(* rejected features make the compile fail *)
Example tla_rejected : compile (fset_of [FTopLevelAwait]) [FTopLevelAwait] = Error.
Proof. vm_compute. reflexivity. Qed.

(* jsx_spread_lowered: hypotheses satisfiable for ES2017, and the result is non-trivial *)
Example jsx_spread_es2017 :
  let U := fset_of (unsupported_list (es_constraint 2017)) in
  base_ok U = true /\ U FObjectRestSpread = true /\
  match compile_with U [CJsxElement; CJsxSpread; CKeepNames] [] with
  | Ok out => negb (existsb (feature_eqb FObjectRestSpread) out) && existsb (feature_eqb FArrow) out
  | Error => false
  end = true.
Proof. vm_compute. repeat split; reflexivity. Qed.

(* es_unsupported_iff_newer: optional chaining has a row, is not a deviation, is syntax *)
Example iff_newer_hypotheses :
  existsb (feature_eqb FOptionalChain) (map fst jsTable) = true
  /\ existsb (feature_eqb FOptionalChain) es_year_deviations = false
  /\ newer_than 2019 FOptionalChain = true /\ newer_than 2020 FOptionalChain = false.
Proof. vm_compute. repeat split; reflexivity. Qed.

(* lowering_closed / compile_leaks_exact without base_ok: the refuted corner really is reached *)
Example leaks_exact_corner :
  let U := fset_of [FClassField; FArraySpread; FHashbang] in
  match compile U [FClassField; FHashbang] with
  | Ok out => existsb (feature_eqb FArraySpread) out && existsb (feature_eqb FHashbang) out
              && forallb (fun g => negb (U g) || feature_eqb g FArraySpread || feature_eqb g FHashbang) out
  | Error => false
  end = true.
Proof. vm_compute. reflexivity. Qed.

(* site inventory: non-trivial counts, and a rejected / a lowered / a warned feature *)
Example site_counts :
  has_count FArrow = 13 /\ mark_count FDestructuring = 6 /\ marked_via_markAsyncFn FAsyncAwait = true
  /\ in_mark_cases FBigint MWarning = true /\ in_mark_cases FClass MNotSupportedYet = true
  /\ Nat.ltb 200 (length feature_sites) = true.
Proof. vm_compute. repeat split; reflexivity. Qed.

(* CSS: chrome 87 lacks nesting and :is, chrome 120 has both; es2020 alone changes nothing *)
Example css_chrome_versions :
  existsb (css_feature_eqb CNesting) (css_unsupported_list [(EChrome, sv3 (87, 0, 0))]) = true
  /\ existsb (css_feature_eqb CIsPseudoClass) (css_unsupported_list [(EChrome, sv3 (87, 0, 0))]) = true
  /\ css_unsupported_list [(EChrome, sv3 (120, 0, 0))] = []
  /\ css_unsupported_list [(EES, mkSemver [2020] false); (ENode, mkSemver [12] false)] = []
  /\ vle3 (87, 0, 0) (120, 0, 0).
Proof. vm_compute. repeat split; try reflexivity. left. reflexivity. Qed.

(* CSS lowering: nesting over several parents uses :is() only when :is is supported *)
Example css_nesting_is :
  css_compile (css_fset_of [CNesting]) [CNesting] = [CIsPseudoClass]
  /\ css_compile (css_fset_of [CNesting; CIsPseudoClass]) [CNesting] = []
  /\ css_compile (css_fset_of [CColorFunctions; CHexRGBA]) [CColorFunctions] = [CColorFunctions].
Proof. vm_compute. repeat split; reflexivity. Qed.

(* minify_introduces_only_supported: the null-check rewrite writes ?. only when it is supported *)
Example optional_chain_rewrite :
  let r := ("a != null ? a.b.c : undefined  =>  a?.b.c", "MangleIfExpr", FOptionalChain)%string in
  existsb (fun x => feature_eqb (snd x) FOptionalChain && String.eqb (snd (fst x)) "MangleIfExpr") introducing_rewrites = true
  /\ rewrite_writes (fset_of [FOptionalChain]) r = []
  /\ rewrite_writes (fset_of [FNullishCoalescing]) r = [FOptionalChain]
  /\ count_has_not "MangleIfExpr" FOptionalChain = 1.
Proof. vm_compute. repeat split; reflexivity. Qed.
