(* Theorems about the CSS feature table and lowering gates. *)
From V Require Import Common.Base C14.Compat C14.CompatProofs C14.TableProofs C14.Css.

Lemma css_feature_index_inj a b : css_feature_index a = css_feature_index b -> a = b.
Proof. destruct a, b; cbn; intro H; try reflexivity; discriminate H. Qed.

Lemma css_feature_eqb_eq a b : css_feature_eqb a b = true <-> a = b.
Proof. unfold css_feature_eqb. rewrite Z.eqb_eq. split; [apply css_feature_index_inj | congruence]. Qed.

Lemma css_feature_index_range f : 0 <= css_feature_index f < 16.
Proof. destruct f; vm_compute; split; congruence. Qed.

Lemma css_has_bits_of l g : css_has (css_bits_of l) g = existsb (css_feature_eqb g) l.
Proof.
  unfold css_has, css_bit. pose proof (css_feature_index_range g).
  rewrite Has_shiftl1 by lia. induction l as [|f l IH]; cbn [css_bits_of fold_right existsb].
  - apply Z.bits_0.
  - change (fold_right (fun f acc => Z.lor (css_bit f) acc) 0 l) with (css_bits_of l).
    rewrite Z.lor_spec, IH. f_equal. unfold css_bit, css_feature_eqb.
    pose proof (css_feature_index_range f). apply testbit_shiftl1; lia.
Qed.

Lemma css_unsupported_in_spec tbl cs f :
  In f (css_unsupported_in tbl cs) <->
  exists engs, In (f, engs) tbl /\ f <> CInlineStyle /\ css_feature_unsupported engs cs = true.
Proof.
  unfold css_unsupported_in. rewrite in_map_iff. split.
  - intros [[f' engs] [E H]]. cbn in E. subst f'. apply filter_In in H as [Hin Hc].
    cbn [fst snd] in Hc. apply andb_true_iff in Hc as [Hn Hu]. exists engs. repeat split; try assumption.
    intro E. subst f. vm_compute in Hn. discriminate.
  - intros [engs [Hin [Hne Hu]]]. exists (f, engs). split; [reflexivity|].
    apply filter_In. split; [assumption|]. cbn [fst snd]. rewrite Hu, andb_true_r.
    destruct (css_feature_eqb f CInlineStyle) eqn:E; [apply css_feature_eqb_eq in E; contradiction | reflexivity].
Qed.

(* a target made only of non-browser engines (es2020, node, deno, hermes, rhino) never
   affects CSS: every constraint list *)
Lemma css_non_browser_ignored_l cs :
  forallb (fun c : constraint => negb (is_browser (fst c))) cs = true -> css_unsupported_list cs = [].
Proof.
  intro H. unfold css_unsupported_list, css_unsupported_in.
  assert (Hf : forall engs, css_feature_unsupported engs cs = false).
  { intro engs. unfold css_feature_unsupported. induction cs as [|c cs IH]; [reflexivity|].
    cbn [forallb existsb] in *. apply andb_true_iff in H as [H1 H2].
    destruct (is_browser (fst c)); [discriminate|]. cbn [andb orb]. apply IH; exact H2. }
  induction cssTable as [|row tbl IH]; [reflexivity|].
  cbn [filter map]. rewrite Hf, andb_false_r. exact IH.
Qed.

(* every range list of cssTable is one open range with components that fit uint16/uint8;
   no duplicate engine or feature rows *)
Definition css_table_wf : bool :=
  forallb (fun row : css_feature * list (engine * list vrange) =>
             forallb (fun er : engine * list vrange =>
                        match snd er with
                        | [(s, e)] => ver_is_zero e && ver_fits s
                        | _ => false
                        end && is_browser (fst er)) (snd row)
             && (length (snd row) =? length (nodup Z.eq_dec (map (fun er => engine_index (fst er)) (snd row))))%nat)
          cssTable
  && (length cssTable =? length all_css_features)%nat
  && (length cssTable =? length (nodup Z.eq_dec (map (fun row => css_feature_index (fst row)) cssTable)))%nat.

Lemma css_table_wf_l : css_table_wf = true.
Proof. vm_compute. reflexivity. Qed.

(* monotone in the version of any one engine: a newer browser never unsupports more.
   Every feature, engine and pair of three-part versions *)
Lemma css_single_engine_monotone_l f e v1 v2 :
  vle3 v1 v2 ->
  In f (css_unsupported_list [(e, sv3 v2)]) -> In f (css_unsupported_list [(e, sv3 v1)]).
Proof.
  intros Hle. unfold css_unsupported_list. rewrite !css_unsupported_in_spec.
  intros [engs [Hin [Hne Hu]]]. exists engs. repeat split; try assumption.
  unfold css_feature_unsupported in *. cbn [existsb fst snd] in *. rewrite orb_false_r in *.
  apply andb_true_iff in Hu as [Hb Hu]. rewrite Hb. cbn [andb].
  destruct (lookup_engine e engs) as [r|] eqn:El; [|reflexivity].
  (* r is one open range (table well-formedness) *)
  pose proof css_table_wf_l as Hwf. unfold css_table_wf in Hwf.
  apply andb_true_iff in Hwf as [Hwf _]. apply andb_true_iff in Hwf as [Hwf _].
  rewrite forallb_forall in Hwf. specialize (Hwf _ Hin). cbn [snd] in Hwf.
  apply andb_true_iff in Hwf as [Hrows _]. rewrite forallb_forall in Hrows.
  assert (Hr : exists s, r = [(s, (0, 0, 0))]).
  { clear -El Hrows. induction engs as [|[e' r'] engs IH]; cbn [lookup_engine] in El; [discriminate|].
    destruct (engine_eqb e e').
    - inversion El; subst r'. specialize (Hrows (e', r) (or_introl eq_refl)). cbn [snd fst] in Hrows.
      destruct r as [|[s en] [|x r'']]; try discriminate.
      apply andb_true_iff in Hrows as [Hrows _]. apply andb_true_iff in Hrows as [Hz _].
      destruct en as [[a b] c]. unfold ver_is_zero in Hz.
      apply andb_true_iff in Hz as [Hz Hz3]. apply andb_true_iff in Hz as [Hz1 Hz2].
      apply Z.eqb_eq in Hz1, Hz2, Hz3. subst. exists s. reflexivity.
    - apply IH; [exact El|]. intros x Hx. apply Hrows. right. exact Hx. }
  destruct Hr as [s ->].
  destruct (isVersionSupported [(s, (0, 0, 0))] (sv3 v1)) eqn:E1; [|reflexivity].
  rewrite (open_range_upward_closed s v1 v2 Hle E1) in Hu. discriminate.
Qed.

(* lowering closure for every unsupported set: what a lowering writes is supported, or is
   the color(...) of a wide-gamut declaration that follows its own clipped fallback
   (colours: #rrggbbaa only when hex-rgba is supported; nesting: :is() only when :is is) *)
Lemma css_lowering_closed_l (U : css_fset) f g :
  U f = true -> css_dispose f = CLowered -> In g (css_emits U f) ->
  U g = false \/ (g = CColorFunctions /\ (f = CColorFunctions \/ f = CGradientInterpolation)).
Proof.
  intros Hf Hd Hin. destruct f; cbn [css_emits] in Hin; try (destruct Hin; fail);
    repeat match type of Hin with
           | context [if ?c then _ else _] => destruct c eqn:?
           end; cbn [app] in Hin;
    repeat (destruct Hin as [<-|Hin]); try destruct Hin;
    first [ left; assumption | right; split; [reflexivity | auto] ].
Qed.

(* a compile writes only supported syntax -- except a user-written :is() (only esbuild's own
   generated :is() is gated: the CSS analogue of the hashbang) and the color(...) declaration
   that follows a clipped fallback *)
Lemma css_compile_sound_l (U : css_fset) prog g :
  In g (css_compile U prog) -> U g = true -> g = CIsPseudoClass \/ g = CInlineStyle \/ g = CColorFunctions.
Proof.
  unfold css_compile. intros Hin Hu. apply in_flat_map in Hin as [f [_ Hg]].
  unfold css_residual in Hg. destruct (U f) eqn:Huf.
  - destruct (css_dispose f) eqn:Hd.
    + destruct (css_lowering_closed_l U f g Huf Hd Hg) as [H|[-> _]]; [congruence | auto].
    + destruct Hg as [<-|[]]. destruct f; cbn in Hd; try discriminate. left; reflexivity.
    + destruct Hg as [<-|[]]. destruct f; cbn in Hd; try discriminate. right; left; reflexivity.
  - destruct Hg as [<-|[]]. congruence.
Qed.

Lemma css_compile_refuted_l :
  exists (U : css_fset) prog g, In g (css_compile U prog) /\ U g = true /\ css_dispose g = CGeneratedOnly.
Proof. exists (css_fset_of [CIsPseudoClass]), [CIsPseudoClass], CIsPseudoClass. vm_compute. auto. Qed.

(* StringToCSSFeature is a bijection onto the enum *)
Definition css_string_table_ok : bool :=
  (length string_to_css_feature =? length all_css_features)%nat
  && forallb (fun f => existsb (fun kv => css_feature_eqb f (snd kv)) string_to_css_feature) all_css_features
  && forallb (fun kv => (length (filter (fun kv' => String.eqb (fst kv) (fst kv')) string_to_css_feature) =? 1)%nat) string_to_css_feature.

Lemma css_string_table_ok_l : css_string_table_ok = true.
Proof. vm_compute. reflexivity. Qed.
