(* C14 property theorems. This file contains only statements closed by
   [exact lemma] and Print Assumptions. *)
From Coq Require Import String.
From V Require Import Common.Base C14.Compat C14.Spec C14.LowerGraph C14.CompatProofs C14.TableProofs C14.LowerClosed C14.LowerProofs C14.Constructs C14.Sites C14.SitesProofs C14.Css C14.CssProofs.

(* a newer ES target never makes more features unsupported: every pair of years *)
Theorem es_monotone : forall y1 y2 f, y1 <= y2 ->
  In f (unsupported_list (es_constraint y2)) -> In f (unsupported_list (es_constraint y1)).
Proof. exact es_monotone_all. Qed.
Print Assumptions es_monotone.

(* FULL statement "every syntax feature's ES year in jsTable is its ECMA-262 edition" is
   false of the regenerated table: dynamic import is tabled ES2015 (ECMA: ES2020), in the
   unsafe direction (the table is EARLIER than the standard) *)
Theorem es_years_match_ecma_refuted :
  exists f, In f all_features /\ agrees_with_ecma f = false /\ not_earlier_than_ecma f = false.
Proof. exact es_years_match_ecma_refuted_l. Qed.
Print Assumptions es_years_match_ecma_refuted.

(* ... and holds for every other feature except import attributes (ES2025, no ES entry: safe direction) *)
Theorem es_years_match_ecma_partial :
  forall f, f <> FDynamicImport -> f <> FImportAttributes -> agrees_with_ecma f = true.
Proof. exact es_years_match_ecma_partial_l. Qed.
Print Assumptions es_years_match_ecma_partial.

(* consequence for every ES year (all integers): syntax newer than the target per ECMA-262 is
   in the unsupported set computed by compat.UnsupportedJSFeatures -- dynamic import excepted
   (the one unsafe deviation, see es_year_deviations_exact) *)
Theorem es_target_flags_newer_partial :
  forall f y, f <> FDynamicImport ->
    newer_than y f = true -> In f (unsupported_list (es_constraint y)).
Proof. exact es_target_flags_newer_l. Qed.
Print Assumptions es_target_flags_newer_partial.

(* api.Target constants carry their own year *)
Theorem es_targets_named_by_year : forallb target_name_year_ok es_targets = true.
Proof. exact es_targets_named_by_year_l. Qed.
Print Assumptions es_targets_named_by_year.

(* StringToJSFeature (the keys of `supported`) is a bijection onto the feature enum *)
Theorem supported_keys_bijective : string_table_ok = true.
Proof. exact string_table_bijective_l. Qed.
Print Assumptions supported_keys_bijective.

(* every version range list of jsTable: non-empty, components fit uint16/uint8, start < end,
   ascending and disjoint, only the last may be open; no duplicate engine or feature rows *)
Theorem engine_ranges_well_formed : table_wf = true.
Proof. exact engine_ranges_well_formed_l. Qed.
Print Assumptions engine_ranges_well_formed.

(* an open range is upward closed: every pair of three-part versions *)
Theorem open_range_monotone : forall s v1 v2, vle3 v1 v2 ->
  isVersionSupported [(s, (0, 0, 0))] (sv3 v1) = true -> isVersionSupported [(s, (0, 0, 0))] (sv3 v2) = true.
Proof. exact open_range_upward_closed. Qed.
Print Assumptions open_range_monotone.

(* ApplyOverrides: for every feature the override wins where the mask is set (both
   directions), the table value stays elsewhere; the result stays within 64 bits *)
Theorem apply_overrides_spec : forall features overrides mask g,
  has (ApplyOverrides features overrides mask) g = if has mask g then has overrides g else has features g.
Proof. exact ApplyOverrides_has. Qed.
Print Assumptions apply_overrides_spec.

Theorem apply_overrides_uint64 : forall f o m,
  0 <= f < 2 ^ 64 -> 0 <= o < 2 ^ 64 -> 0 <= m < 2 ^ 64 -> 0 <= ApplyOverrides f o m < 2 ^ 64.
Proof. exact ApplyOverrides_range. Qed.
Print Assumptions apply_overrides_uint64.

(* the whole configuration pipeline honours `supported` in both directions, for every
   constraint map and every override list *)
Theorem supported_false_honoured : forall cs sup g,
  In (g, false) sup -> has (o_unsupported (configured_unsupported cs sup)) g = true.
Proof. exact supported_false_wins. Qed.
Print Assumptions supported_false_honoured.

Theorem supported_true_honoured : forall cs sup g,
  (forall b, In (g, b) sup -> b = true) -> In (g, true) sup ->
  existsb (feature_eqb g) implied_targets = false ->
  has (o_unsupported (configured_unsupported cs sup)) g = false.
Proof. exact supported_true_wins. Qed.
Print Assumptions supported_true_honoured.

(* fixInvalidUnsupportedJSFeatureOverrides: after the call sequence of applyOptionDefaults every
   implication of the table holds of the final options, for every starting state *)
Theorem implied_overrides_consistent : forall o row, In row implied_table -> row_holds (fixAll o) row.
Proof. exact implied_overrides_consistent_l. Qed.
Print Assumptions implied_overrides_consistent.

(* lowering closure, for EVERY unsupported set U that leaves array spread supported *)
Theorem lowering_closed_partial : forall (U : fset) f g,
  base_ok U = true -> U f = true -> dispose U f = Lowered -> In g (emits U f) ->
  U g = false \/ (dispose U g = Lowered /\ rank g < rank f).
Proof. exact lowering_closed_l. Qed.
Print Assumptions lowering_closed_partial.

(* FULL statement (no hypothesis on U) is false of the faithful model: class-field lowering
   writes `super(...arguments)` *)
Theorem lowering_closed_refuted :
  exists (U : fset) f g, U f = true /\ dispose U f = Lowered /\ In g (emits U f) /\ U g = true /\ dispose U g <> Lowered.
Proof. exact lowering_closed_refuted_l. Qed.
Print Assumptions lowering_closed_refuted.

(* iterated lowering ends with supported syntax only *)
Theorem lowering_terminates_clean : forall (U : fset), base_ok U = true ->
  forall n f, U f = true -> dispose U f = Lowered -> rank f < Z.of_nat n ->
  forall g, In g (residual U n f) -> U g = false.
Proof. exact residual_clean. Qed.
Print Assumptions lowering_terminates_clean.

(* a successful compile of any program (list of used features) writes only supported syntax,
   except for what the model passes through silently ... *)
Theorem compile_sound_partial : forall (U : fset) prog out,
  base_ok U = true -> compile U prog = Ok out ->
  forall g, In g out -> U g = false \/ dispose U g = Silent \/ dispose U g = NotSyntax.
Proof. exact compile_sound_l. Qed.
Print Assumptions compile_sound_partial.

(* ... which is exactly hashbang; so the FULL statement "no unsupported syntax in a
   successful output" is false of the faithful model *)
Theorem only_hashbang_silent : forall (U : fset) f, dispose U f = Silent -> f = FHashbang.
Proof. exact only_hashbang_is_silent. Qed.
Print Assumptions only_hashbang_silent.

Theorem compile_sound_refuted :
  exists (U : fset) prog out g, compile U prog = Ok out /\ In g out /\ U g = true.
Proof. exact silent_passthrough_refuted_l. Qed.
Print Assumptions compile_sound_refuted.

(* runtime helpers: whichever variants Source(U) selects, for EVERY U, the text only uses
   features that are supported or that the parser compiling the runtime lowers *)
Theorem runtime_variants_closed : forall (U : fset) n name g,
  In g (helper_feats U n name) -> U g = false \/ dispose U g = Lowered.
Proof. exact runtime_variants_closed_l. Qed.
Print Assumptions runtime_variants_closed.

(* entry points that are not compat features (JSX elements and spreads in every JSX mode,
   keep-names, TypeScript decorators/enums/namespaces): a successful compile writes only
   supported syntax, syntax lowered when the runtime is compiled, or the silent hashbang *)
Theorem compile_with_constructs_sound_partial : forall (U : fset) cs prog out,
  base_ok U = true -> compile_with U cs prog = Ok out ->
  forall g, In g out -> U g = false \/ dispose U g = Lowered \/ dispose U g = Silent \/ dispose U g = NotSyntax.
Proof. exact compile_with_sound_l. Qed.
Print Assumptions compile_with_constructs_sound_partial.

(* <a {...x} />: with object spread unsupported no object spread is written, for every such U *)
Theorem jsx_spread_lowered : forall (U : fset) out,
  base_ok U = true -> U FObjectRestSpread = true -> compile U (construct_features U CJsxSpread) = Ok out ->
  existsb (feature_eqb FObjectRestSpread) out = false.
Proof. exact jsx_spread_lowered_l. Qed.
Print Assumptions jsx_spread_lowered.

(* ---------- deepening round ---------- *)

(* exactly which rows of the ES column differ from ECMA-262, and how: dynamic import is tabled
   ES2015 (standard: ES2020; the only UNSAFE deviation, known finding C14-dynamic-import-es2015,
   upstream forces it in compat-table/src/index.ts); import attributes have no ES entry
   (standard: ES2025; safe direction, esbuild strips the clause); decorators, import defer,
   import source and inline-script have rows without any engine *)
Theorem es_year_deviations_exact :
  es_year_deviations = [FDynamicImport; FImportAttributes]
  /\ es_year_unsafe_deviations = [FDynamicImport]
  /\ table_es_year FDynamicImport = Some 2015 /\ ecma_edition FDynamicImport = Ed 2020
  /\ table_es_year FImportAttributes = None /\ ecma_edition FImportAttributes = Ed 2025
  /\ features_with_empty_row = [FDecorators; FImportDefer; FImportSource; FInlineScript]
  /\ length jsTable = length all_features.
Proof. exact es_year_deviations_exact_l. Qed.
Print Assumptions es_year_deviations_exact.

(* for every other syntax feature and EVERY year the table's verdict is the standard's *)
Theorem es_unsupported_iff_newer : forall f y,
  In f (map fst jsTable) -> ~ In f es_year_deviations -> ecma_edition f <> Spec.NotSyntax ->
  (In f (unsupported_list (es_constraint y)) <-> newer_than y f = true).
Proof. exact es_unsupported_iff_newer_l. Qed.
Print Assumptions es_unsupported_iff_newer.

(* lowering closure with NO hypothesis on U: the third case is exactly the recorded finding *)
Theorem lowering_closed : forall (U : fset) f g,
  U f = true -> dispose U f = Lowered -> In g (emits U f) ->
  U g = false \/ (dispose U g = Lowered /\ rank g < rank f) \/ (g = FArraySpread /\ f = FClassField).
Proof. exact lowering_closed_gen. Qed.
Print Assumptions lowering_closed.

(* compile soundness with NO hypothesis: for every U and every program, the only unsupported
   syntax a successful compile writes is the silent hashbang (the two C14-hashbang findings) and the
   array spread of `super(...arguments)` when class fields are lowered with array spread off
   (finding C14-class-field-lowering-writes-array-spread); non-syntax switches aside *)
Theorem compile_leaks_exact : forall (U : fset) prog out g,
  compile U prog = Ok out -> In g out -> U g = true ->
  g = FHashbang \/ (g = FArraySpread /\ U FClassField = true) \/ dispose U g = NotSyntax.
Proof. exact compile_leaks_exact_l. Qed.
Print Assumptions compile_leaks_exact.

(* feature-gate inventory (translator T9): per feature, the number of markSyntaxFeature sites and
   of Has(...) gates in parser, lowering, printer, linker, helpers, bundler, resolver, runtime is
   the committed one *)
Theorem gate_inventory_matches : list_eqb gates_eqb observed_gates expected_gates = true.
Proof. exact gate_inventory_matches_l. Qed.
Print Assumptions gate_inventory_matches.

(* the features nothing ever consults: a non-syntax switch and hashbang (the finding) *)
Theorem ungated_features_exact :
  filter (fun f => any_count f =? 0) all_features = [FFunctionNameConfigurable; FHashbang].
Proof. exact ungated_features_exact_l. Qed.
Print Assumptions ungated_features_exact.

Theorem lowered_features_gated : forall (U : fset) f, dispose U f = Lowered -> 1 <= has_count f.
Proof. exact lowered_features_gated_l. Qed.
Print Assumptions lowered_features_gated.

Theorem rejected_features_marked : forall (U : fset) f, dispose U f = Rejected ->
  1 <= mark_count f \/ marked_via_markAsyncFn f = true \/ (f = FArbitraryModuleNamespaceNames /\ 1 <= has_count f).
Proof. exact rejected_features_marked_l. Qed.
Print Assumptions rejected_features_marked.

(* markSyntaxFeature's regenerated switch is the model's disposition *)
Theorem mark_switch_warned : forall (U : fset) f, dispose U f = Warned <-> in_mark_cases f MWarning = true.
Proof. exact mark_switch_warned_l. Qed.
Print Assumptions mark_switch_warned.

Theorem mark_switch_errors_rejected : forall f,
  (in_mark_cases f MNotSupportedYet || in_mark_cases f MError) = true -> f <> FImportAttributes ->
  dispose (fun _ => true) f = Rejected.
Proof. exact mark_switch_errors_rejected_l. Qed.
Print Assumptions mark_switch_errors_rejected.

Theorem rejected_has_error_case : forall (U : fset) f, dispose U f = Rejected ->
  (in_mark_cases f MNotSupportedYet || in_mark_cases f MError) = true \/ f = FArbitraryModuleNamespaceNames.
Proof. exact rejected_has_error_case_l. Qed.
Print Assumptions rejected_has_error_case.

(* ---------- CSS side (css_table.go, css_parser lowering gates) ---------- *)

(* a target made only of non-browser engines never affects CSS: every constraint list *)
Theorem css_non_browser_ignored : forall cs,
  forallb (fun c : constraint => negb (is_browser (fst c))) cs = true -> css_unsupported_list cs = [].
Proof. exact css_non_browser_ignored_l. Qed.
Print Assumptions css_non_browser_ignored.

(* cssTable: every entry is one open range of a browser engine with components that fit
   uint16/uint8; one row per feature, no duplicate engines *)
Theorem css_table_well_formed : css_table_wf = true.
Proof. exact css_table_wf_l. Qed.
Print Assumptions css_table_well_formed.

(* a newer version of any one engine never makes more CSS features unsupported *)
Theorem css_single_engine_monotone : forall f e v1 v2, vle3 v1 v2 ->
  In f (css_unsupported_list [(e, sv3 v2)]) -> In f (css_unsupported_list [(e, sv3 v1)]).
Proof. exact css_single_engine_monotone_l. Qed.
Print Assumptions css_single_engine_monotone.

Theorem css_supported_keys_bijective : css_string_table_ok = true.
Proof. exact css_string_table_ok_l. Qed.
Print Assumptions css_supported_keys_bijective.

(* CSS lowering closure for EVERY unsupported set: a lowering writes supported syntax only,
   except the color(...) declaration that follows its own clipped fallback declaration *)
Theorem css_lowering_closed : forall (U : css_fset) f g,
  U f = true -> css_dispose f = CLowered -> In g (css_emits U f) ->
  U g = false \/ (g = CColorFunctions /\ (f = CColorFunctions \/ f = CGradientInterpolation)).
Proof. exact css_lowering_closed_l. Qed.
Print Assumptions css_lowering_closed.

(* the only unsupported CSS syntax in an output: user-written :is() (never rewritten), the
   inline-style switch, and color(...) after a fallback *)
Theorem css_compile_leaks_exact : forall (U : css_fset) prog g,
  In g (css_compile U prog) -> U g = true -> g = CIsPseudoClass \/ g = CInlineStyle \/ g = CColorFunctions.
Proof. exact css_compile_sound_l. Qed.
Print Assumptions css_compile_leaks_exact.

Theorem css_compile_sound_refuted :
  exists (U : css_fset) prog g, In g (css_compile U prog) /\ U g = true /\ css_dispose g = CGeneratedOnly.
Proof. exact css_compile_refuted_l. Qed.
Print Assumptions css_compile_sound_refuted.

(* ---------- syntax introduced by esbuild's own rewrites ---------- *)

(* the regenerated multiset of `!Has(compat.X)` gates (the places where esbuild may WRITE newer
   syntax) is the committed one: a dropped or merged guard breaks this *)
Theorem newer_syntax_gates_exact :
  forallb (fun r : String.string * feature * Z => count_has_not (fst (fst r)) (snd (fst r)) =? snd r) expected_newer_syntax_gates = true
  /\ total_has_not = fold_right (fun (r : String.string * feature * Z) acc => snd r + acc) 0 expected_newer_syntax_gates.
Proof. exact newer_syntax_gates_exact_l. Qed.
Print Assumptions newer_syntax_gates_exact.

(* every feature-introducing rewrite of the minifier / code generators is guarded, in the
   function that performs it, by a `!Has` gate on exactly the feature it writes; so for EVERY
   unsupported set it writes only supported syntax *)
Theorem minify_introduces_only_supported : forall (U : fset) r g,
  In r introducing_rewrites -> In g (rewrite_writes U r) ->
  U g = false /\ 1 <= count_has_not (snd (fst r)) (snd r).
Proof. exact minify_introduces_only_supported_l. Qed.
Print Assumptions minify_introduces_only_supported.
