(* C14 property theorems. This file contains only statements closed by
   [exact lemma] and Print Assumptions. *)
From V Require Import Common.Base C14.Compat C14.Spec C14.CompatProofs.

(* a newer ES target never makes more features unsupported: every pair of years *)
Theorem es_monotone : forall y1 y2 f, y1 <= y2 ->
  In f (unsupported_list (es_constraint y2)) -> In f (unsupported_list (es_constraint y1)).
Proof. exact es_monotone_all. Qed.
Print Assumptions es_monotone.

(* ApplyOverrides: for every feature the override wins where the mask is set (both
   directions), the table value stays elsewhere *)
Theorem apply_overrides_spec : forall features overrides mask g,
  has (ApplyOverrides features overrides mask) g = if has mask g then has overrides g else has features g.
Proof. exact ApplyOverrides_has. Qed.
Print Assumptions apply_overrides_spec.
