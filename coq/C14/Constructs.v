(* C14 model, part 3: source constructs that are not compat features but whose
   translation writes feature syntax or calls runtime helpers (entry points into
   the lowering graph).  Mirrors
     js_parser.go visitExprInOut EJSXElement: the props of createElement()/jsx()/jsxs()/jsxDEV()
       are an object literal; a spread attribute or spread child makes it an object
       spread, passed through lowerObjectSpread in the classic AND the automatic branch;
     keep-names (__name), TypeScript experimental decorators (__decorateClass/__decorateParam),
     TypeScript enums/namespaces (closures, `let`/`var` by selectLocalKind).
   Tied to the code by the JSX / mode probes of the correspondence run (their
   feature lists carry construct_features). *)
From Coq Require Import String.
From V Require Import Common.Base C14.Compat C14.LowerGraph C14.LowerClosed C14.LowerProofs.

Inductive construct :=
  | CJsxElement            (* <a b="c">d</a>: a call, no feature syntax *)
  | CJsxSpread             (* {...x} attribute or child: object spread in the props literal *)
  | CKeepNames
  | CTsExperimentalDecorators
  | CTsEnumOrNamespace.

Definition construct_features (U : fset) (c : construct) : list feature :=
  match c with
  | CJsxSpread => [FObjectRestSpread]
  | CTsEnumOrNamespace => let_or_var U
  | _ => []
  end.

Definition construct_helpers (c : construct) : list string :=
  match c with
  | CKeepNames => ["__name"]
  | CTsExperimentalDecorators => ["__decorateClass"; "__decorateParam"]
  | _ => []
  end%string.

(* features written for a program that uses constructs cs and features prog *)
Definition compile_with (U : fset) (cs : list construct) (prog : list feature) : outcome :=
  match compile U (flat_map (construct_features U) cs ++ prog) with
  | Error => Error
  | Ok out => Ok (out ++ flat_map (fun c => flat_map (helper_feats U helper_fuel) (construct_helpers c)) cs)
  end.

(* every JSX mode, keep-names, TS helpers: the output of a successful compile has only
   supported syntax, syntax the runtime's own compile lowers, or the silent hashbang *)
Lemma compile_with_sound_l (U : fset) cs prog out :
  base_ok U = true -> compile_with U cs prog = Ok out ->
  forall g, In g out -> U g = false \/ dispose U g = Lowered \/ dispose U g = Silent \/ dispose U g = NotSyntax.
Proof.
  intros Hb Hc g Hin. unfold compile_with in Hc.
  destruct (compile U (flat_map (construct_features U) cs ++ prog)) as [|o] eqn:E; [discriminate|].
  assert (out = o ++ flat_map (fun c => flat_map (helper_feats U helper_fuel) (construct_helpers c)) cs) as -> by congruence.
  apply in_app_or in Hin as [Hin|Hin].
  - destruct (compile_sound_l U _ o Hb E g Hin) as [H|[H|H]]; auto.
  - apply in_flat_map in Hin as [c [_ Hin]]. apply in_flat_map in Hin as [h [_ Hin]].
    destruct (runtime_variants_closed_l U _ _ _ Hin) as [H|H]; auto.
Qed.

(* a JSX spread with object spread unsupported is lowered, never emitted *)
Lemma jsx_spread_lowered_l (U : fset) out :
  base_ok U = true -> U FObjectRestSpread = true -> compile U (construct_features U CJsxSpread) = Ok out ->
  existsb (feature_eqb FObjectRestSpread) out = false.
Proof.
  intros Hb Hu Hc. destruct (existsb (feature_eqb FObjectRestSpread) out) eqn:E; [|reflexivity].
  apply existsb_exists in E as [g [Hg Eg]]. unfold feature_eqb in Eg. apply Z.eqb_eq in Eg.
  assert (g = FObjectRestSpread) as -> by (destruct g; vm_compute in Eg; try discriminate; reflexivity).
  destruct (compile_sound_l U _ out Hb Hc _ Hg) as [H|[H|H]]; [congruence | discriminate H | discriminate H].
Qed.
