(* placeholder, replaced below *)
From V Require Import Common.Base C14.Compat.
