(* C14 model, part 2: what esbuild does with a use of feature f when f is
   unsupported, and which syntax the lowered form writes.  Mirrors (abstractly:
   per feature, not per AST) the gates of
     internal/js_parser/js_parser_lower.go   markSyntaxFeature, markAsyncFn, lower* functions
     internal/js_parser/js_parser_lower_class.go
     internal/js_parser/js_parser.go         the Has(...) gates in the visitor and the regexp/template/bigint cases
     internal/js_printer/js_printer.go       printer-level choices
   and the runtime helper variants selected by the guards of
     internal/runtime/runtime.go             (regenerated: V.gen.RuntimeGuardsGen, translator T7)
   which are themselves compiled by the same parser for the same unsupported set
   (bundler.parseRuntime).  Tied to the code by the correspondence run
   (Harness.check_lower).  Definitions only. *)
From Coq Require Import String.
From V Require Import Common.Base C14.Compat.
From V Require Export gen.RuntimeGuardsGen.

(* the unsupported set *)
Definition fset := feature -> bool.

Inductive disposition :=
  | Lowered    (* rewritten into older syntax (possibly with runtime helpers) *)
  | Rejected   (* an error is reported *)
  | Warned     (* a warning is reported; the construct is emptied / turned into a call *)
  | Silent     (* emitted unchanged, no diagnostic *)
  | NotSyntax. (* no syntax of its own: a printer, resolver or semantic switch *)

Definition dispose (U : fset) (f : feature) : disposition :=
  match f with
  | FArrow | FClassField | FClassPrivateAccessor | FClassPrivateBrandCheck | FClassPrivateField
  | FClassPrivateMethod | FClassPrivateStaticAccessor | FClassPrivateStaticField | FClassPrivateStaticMethod
  | FClassStaticBlocks | FClassStaticField | FDecorators | FDynamicImport | FExponentOperator | FExportStarAs
  | FImportAssertions | FImportAttributes | FLogicalAssignment | FNullishCoalescing | FObjectRestSpread
  | FOptionalCatchBinding | FOptionalChain | FRegexpDotAllFlag | FRegexpLookbehindAssertions
  | FRegexpMatchIndices | FRegexpNamedCaptureGroups | FRegexpSetNotation | FRegexpStickyAndUnicodeFlags
  | FRegexpUnicodePropertyEscapes | FTemplateLiteral | FUnicodeEscapes | FUsing => Lowered
  (* markAsyncFn: lowering async functions needs generators *)
  | FAsyncAwait | FAsyncGenerator => if U FGenerator then Rejected else Lowered
  (* for-await is only rejected when neither async functions nor generators exist *)
  | FForAwait => if U FAsyncAwait && U FGenerator then Rejected else Lowered
  | FBigint | FImportMeta => Warned
  | FHashbang => Silent
  | FArbitraryModuleNamespaceNames | FArraySpread | FClass | FConstAndLet | FDefaultArgument | FDestructuring
  | FForOf | FGenerator | FImportDefer | FImportSource | FNestedRestBinding | FNewTarget | FObjectAccessors
  | FObjectExtensions | FRestArgument | FTopLevelAwait => Rejected
  | FFromBase64 | FFunctionNameConfigurable | FFunctionOrClassPropertyAccess | FInlineScript
  | FNodeColonPrefixImport | FNodeColonPrefixRequire | FTypeofExoticObjectIsObject => NotSyntax
  end.

(* generated declarations are `let`/`const` unless those are unsupported (selectLocalKind) *)
Definition let_or_var (U : fset) : list feature := if U FConstAndLet then [] else [FConstAndLet].

(* syntax written directly by the lowering of f *)
Definition emits_syntax (U : fset) (f : feature) : list feature :=
  match f with
  | FAsyncAwait => [FGenerator]
  | FAsyncGenerator => [FGenerator]
  | FForAwait => [FAsyncAwait]
  | FLogicalAssignment => if U FNullishCoalescing then [] else [FNullishCoalescing]
  | FImportMeta => let_or_var U
  | FDynamicImport => if U FArrow then [] else [FArrow]
  (* derived classes get `constructor(...args) { super(...args) }` or `super(...arguments)` *)
  | FClassField => (if U FRestArgument then [] else [FRestArgument]) ++ [FArraySpread]
  | FClassStaticField | FClassStaticBlocks | FClassPrivateStaticField | FClassPrivateStaticMethod
  | FClassPrivateStaticAccessor => let_or_var U
  | FDecorators => let_or_var U
  (* `await using` awaits inside the async function the source already has *)
  | FUsing => let_or_var U
  | _ => []
  end.

(* runtime helpers the lowering of f calls *)
Definition helpers_of (f : feature) : list string :=
  match f with
  | FAsyncAwait => ["__async"]
  | FAsyncGenerator => ["__asyncGenerator"; "__await"; "__yieldStar"]
  | FForAwait => ["__forAwait"]
  | FObjectRestSpread => ["__spreadValues"; "__spreadProps"; "__objRest"; "__restKey"]
  | FExponentOperator => ["__pow"]
  | FDynamicImport => ["__toESM"]
  | FClassField | FClassStaticField => ["__publicField"]
  | FClassPrivateField | FClassPrivateStaticField | FClassPrivateAccessor | FClassPrivateStaticAccessor =>
      ["__privateAdd"; "__privateGet"; "__privateSet"; "__privateWrapper"]
  | FClassPrivateMethod | FClassPrivateStaticMethod => ["__privateAdd"; "__privateMethod"]
  | FClassPrivateBrandCheck => ["__privateIn"]
  | FDecorators => ["__decoratorStart"; "__decorateElement"; "__runInitializers"; "__decoratorMetadata";
                    "__decorateClass"; "__decorateParam"; "__publicField"; "__privateAdd"; "__privateGet"; "__privateSet"]
  | FUsing => ["__using"; "__callDispose"]
  | FTemplateLiteral => ["__template"]
  | _ => []
  end%string.

Fixpoint find_helper (name : string) (l : list rt_helper) : option rt_helper :=
  match l with
  | [] => None
  | h :: r => if String.eqb name (fst (fst h)) then Some h else find_helper name r
  end.

(* the variant of a guard that Source(U) selects *)
Definition select (U : fset) (g : rt_guard) : rt_variant :=
  let '(needs, v1, v2) := g in if forallb (fun x => negb (U x)) needs then v1 else v2.

(* the text of one helper for U: unconditional part plus selected variants *)
Definition helper_own (U : fset) (h : rt_helper) : rt_variant :=
  let '(_, base, guards) := h in
  fold_left (fun acc g => let v := select U g in (fst acc ++ fst v, snd acc ++ snd v)) guards base.

(* syntax features of a helper together with the helpers it refers to *)
Fixpoint helper_feats (U : fset) (fuel : nat) (name : string) : list feature :=
  match fuel with
  | O => []
  | S n =>
      match find_helper name runtime_helpers with
      | None => []
      | Some h => let v := helper_own U h in fst v ++ flat_map (helper_feats U n) (snd v)
      end
  end.

Definition helper_fuel : nat := 6.

Definition emits (U : fset) (f : feature) : list feature :=
  emits_syntax U f ++ flat_map (helper_feats U helper_fuel) (helpers_of f).

Definition rank (f : feature) : Z :=
  match f with
  | FDecorators => 5
  | FUsing | FForAwait | FAsyncGenerator => 4
  | FAsyncAwait | FObjectRestSpread | FClassField | FClassPrivateAccessor | FClassPrivateBrandCheck
  | FClassPrivateField | FClassPrivateMethod | FClassPrivateStaticAccessor | FClassPrivateStaticField
  | FClassPrivateStaticMethod | FClassStaticBlocks | FClassStaticField | FDynamicImport | FTemplateLiteral
  | FExponentOperator => 3
  | FLogicalAssignment => 2
  | FNullishCoalescing | FOptionalChain => 1
  | _ => 0
  end.

(* generated code uses array spread without asking *)
Definition base_ok (U : fset) : bool := negb (U FArraySpread).

(* iterate the lowering: the features whose syntax is finally written for a use of f *)
Fixpoint residual (U : fset) (fuel : nat) (f : feature) : list feature :=
  if U f then
    match dispose U f with
    | Lowered => match fuel with O => [f] | S n => flat_map (residual U n) (emits U f) end
    | Warned => []          (* emptied / turned into a call *)
    | _ => [f]
    end
  else [f].

Definition residual_fuel : nat := 7.

Inductive outcome := Error | Ok (out : list feature).

Definition is_rejected (d : disposition) : bool := match d with Rejected => true | _ => false end.

(* a program is abstracted by the list of features it uses *)
Definition compile (U : fset) (prog : list feature) : outcome :=
  if existsb (fun f => U f && is_rejected (dispose U f)) prog then Error
  else Ok (flat_map (residual U residual_fuel) prog).

Definition fset_of (l : list feature) : fset := fun f => existsb (feature_eqb f) l.
