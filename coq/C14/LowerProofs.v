(* Consequences of the closure lemma; runtime helper variants. *)
From Coq Require Import String.
From V Require Import Common.Base C14.Compat C14.CompatProofs C14.LowerGraph C14.LowerClosed.

Lemma residual_unsupported_not U n f : U f = false -> residual U n f = [f].
Proof. intro H. destruct n; cbn [residual]; rewrite H; reflexivity. Qed.

(* iterating the lowering ends with supported syntax only *)
Lemma residual_clean (U : fset) : base_ok U = true ->
  forall n f, U f = true -> dispose U f = Lowered -> rank f < Z.of_nat n ->
  forall g, In g (residual U n f) -> U g = false.
Proof.
  intros Hb n. induction n as [|n IH]; intros f Hf Hd Hr g Hin.
  - assert (0 <= rank f) by (destruct f; vm_compute; congruence). lia.
  - cbn [residual] in Hin. rewrite Hf, Hd in Hin. apply in_flat_map in Hin as [h [Hh Hg]].
    destruct (lowering_closed_l U f h Hb Hf Hd Hh) as [Hu|[Hl Hrk]].
    + rewrite residual_unsupported_not in Hg by assumption. destruct Hg as [<-|[]]. assumption.
    + destruct (U h) eqn:Huh.
      * apply (IH h Huh Hl); [lia | assumption].
      * rewrite residual_unsupported_not in Hg by assumption. destruct Hg as [<-|[]]. assumption.
Qed.

Lemma residual_nonlowered U n f : U f = true -> dispose U f <> Lowered ->
  residual U n f = match dispose U f with Warned => [] | _ => [f] end.
Proof. intros Hf Hd. destruct n; cbn [residual]; rewrite Hf; destruct (dispose U f); try reflexivity; contradiction. Qed.

Lemma rank_below_fuel f : rank f < Z.of_nat residual_fuel.
Proof. destruct f; vm_compute; reflexivity. Qed.

(* a successful compile writes only supported syntax, except for what is passed
   through silently *)
Lemma compile_sound_l (U : fset) prog out :
  base_ok U = true -> compile U prog = Ok out ->
  forall g, In g out -> U g = false \/ dispose U g = Silent \/ dispose U g = NotSyntax.
Proof.
  intros Hb Hc g Hin. unfold compile in Hc.
  destruct (existsb _ prog) eqn:Ex; [discriminate|].
  assert (out = flat_map (residual U residual_fuel) prog) as -> by congruence. clear Hc.
  apply in_flat_map in Hin as [f [Hf Hg]].
  assert (U f && is_rejected (dispose U f) = false) as Hnr.
  { destruct (U f && is_rejected (dispose U f)) eqn:E; [|reflexivity].
    assert (existsb (fun f => U f && is_rejected (dispose U f)) prog = true)
      by (apply existsb_exists; exists f; split; assumption). congruence. }
  destruct (U f) eqn:Huf.
  - cbn [andb] in Hnr. destruct (dispose U f) eqn:Hd; try discriminate.
    + left. apply (residual_clean U Hb residual_fuel f Huf Hd (rank_below_fuel f) g Hg).
    + rewrite residual_nonlowered in Hg by (try assumption; congruence). rewrite Hd in Hg. destruct Hg.
    + rewrite residual_nonlowered in Hg by (try assumption; congruence). rewrite Hd in Hg. destruct Hg as [<-|[]]. right; left; assumption.
    + rewrite residual_nonlowered in Hg by (try assumption; congruence). rewrite Hd in Hg. destruct Hg as [<-|[]]. right; right; assumption.
  - rewrite residual_unsupported_not in Hg by assumption. destruct Hg as [<-|[]]. left; assumption.
Qed.

(* without the array-spread hypothesis the closure fails: class fields of a
   derived class are lowered to `super(...arguments)` *)
Lemma lowering_closed_refuted_l :
  exists (U : fset) f g, U f = true /\ dispose U f = Lowered /\ In g (emits U f) /\
                         U g = true /\ dispose U g <> Lowered.
Proof.
  exists (fset_of [FClassField; FArraySpread]), FClassField, FArraySpread.
  vm_compute. repeat split; auto; discriminate.
Qed.

(* hashbang is the one feature that goes through without any diagnostic *)
Lemma silent_passthrough_refuted_l :
  exists (U : fset) prog out g, compile U prog = Ok out /\ In g out /\ U g = true.
Proof. exists (fset_of [FHashbang]), [FHashbang], [FHashbang], FHashbang. vm_compute. auto. Qed.

Lemma only_hashbang_is_silent U f : dispose U f = Silent -> f = FHashbang.
Proof. destruct f; cbv [dispose]; case_bits; intro H; try discriminate; reflexivity. Qed.

(* runtime helper variants: whatever Source(U) selects, the features of the text
   are supported or lowered by the parser that compiles the runtime -- for EVERY U
   (no Rejected feature is ever used unguarded, so parseRuntime cannot fail) *)
Definition always_lowered (g : feature) : bool :=
  match g with
  | FArrow | FLogicalAssignment | FNullishCoalescing | FOptionalChain | FTemplateLiteral => true
  | _ => false
  end.

Definition variant_ok (needs : list feature) (v : rt_variant) : bool :=
  forallb (fun g => always_lowered g || existsb (feature_eqb g) needs) (fst v).

Definition helper_table_ok : bool :=
  forallb (fun h : rt_helper =>
             let '(_, base, guards) := h in
             variant_ok [] base
             && forallb (fun g : rt_guard => let '(needs, v1, v2) := g in variant_ok needs v1 && variant_ok [] v2) guards)
          runtime_helpers.

Lemma helper_table_ok_l : helper_table_ok = true.
Proof. vm_compute. reflexivity. Qed.

Lemma always_lowered_dispose U g : always_lowered g = true -> dispose U g = Lowered.
Proof. destruct g; cbn; intro H; try discriminate; reflexivity. Qed.

Lemma variant_ok_sound U needs v :
  variant_ok needs v = true -> forallb (fun x => negb (U x)) needs = true ->
  forall g, In g (fst v) -> U g = false \/ dispose U g = Lowered.
Proof.
  unfold variant_ok. intros Hv Hn g Hg. rewrite forallb_forall in Hv. specialize (Hv g Hg).
  apply orb_true_iff in Hv as [Ha|He].
  - right. apply always_lowered_dispose; assumption.
  - left. apply existsb_exists in He as [x [Hx E]]. apply feature_eqb_eq in E. subst x.
    rewrite forallb_forall in Hn. specialize (Hn g Hx). destruct (U g); [discriminate | reflexivity].
Qed.

Lemma helper_own_ok U h : In h runtime_helpers ->
  forall g, In g (fst (helper_own U h)) -> U g = false \/ dispose U g = Lowered.
Proof.
  intro Hin. pose proof helper_table_ok_l as Hok. unfold helper_table_ok in Hok.
  rewrite forallb_forall in Hok. specialize (Hok h Hin).
  destruct h as [[name base] guards]. apply andb_true_iff in Hok as [Hb Hg].
  unfold helper_own.
  assert (Hgen : forall gs acc,
             forallb (fun g : rt_guard => let '(needs, v1, v2) := g in variant_ok needs v1 && variant_ok [] v2) gs = true ->
             (forall g, In g (fst acc) -> U g = false \/ dispose U g = Lowered) ->
             forall g, In g (fst (fold_left (fun acc g => let v := select U g in (fst acc ++ fst v, snd acc ++ snd v)) gs acc)) ->
                       U g = false \/ dispose U g = Lowered).
  { induction gs as [|[[needs v1] v2] gs IH]; intros acc Hgs Hacc g Hg'; [apply Hacc; exact Hg'|].
    cbn [forallb] in Hgs. apply andb_true_iff in Hgs as [H1 Hgs]. apply andb_true_iff in H1 as [Hv1 Hv2].
    cbn [fold_left] in Hg'. apply (IH _ Hgs) in Hg'; [exact Hg'|].
    intros x Hx. cbn [fst] in Hx. apply in_app_or in Hx as [Hx|Hx]; [apply Hacc; exact Hx|].
    unfold select in Hx. destruct (forallb (fun x => negb (U x)) needs) eqn:En.
    - apply (variant_ok_sound U needs v1 Hv1 En x Hx).
    - apply (variant_ok_sound U [] v2 Hv2 eq_refl x Hx). }
  apply Hgen; [exact Hg|]. intros g Hg'. apply (variant_ok_sound U [] base Hb eq_refl g Hg').
Qed.

Lemma find_helper_In name l h : find_helper name l = Some h -> In h l.
Proof.
  induction l as [|x r IH]; cbn [find_helper]; [discriminate|].
  destruct (String.eqb name (fst (fst x))); [intro E; inversion E; left; reflexivity | intro E; right; apply IH; exact E].
Qed.

Lemma runtime_variants_closed_l U n name g :
  In g (helper_feats U n name) -> U g = false \/ dispose U g = Lowered.
Proof.
  revert name g. induction n as [|n IH]; intros name g Hin; [destruct Hin|].
  cbn [helper_feats] in Hin. destruct (find_helper name runtime_helpers) as [h|] eqn:Ef; [|destruct Hin].
  apply in_app_or in Hin as [Hin|Hin].
  - apply (helper_own_ok U h (find_helper_In _ _ _ Ef) g Hin).
  - apply in_flat_map in Hin as [d [_ Hd]]. apply (IH d g Hd).
Qed.

(* ---------- without any hypothesis on U: exactly what can leak ---------- *)

Lemma residual_leaks (U : fset) :
  forall n f, U f = true -> dispose U f = Lowered -> rank f < Z.of_nat n ->
  forall g, In g (residual U n f) -> U g = false \/ (g = FArraySpread /\ U FClassField = true).
Proof.
  intros n. induction n as [|n IH]; intros f Hf Hd Hr g Hin.
  - assert (0 <= rank f) by (destruct f; vm_compute; congruence). lia.
  - cbn [residual] in Hin. rewrite Hf, Hd in Hin. apply in_flat_map in Hin as [h [Hh Hg]].
    destruct (lowering_closed_gen U f h Hf Hd Hh) as [Hu|[[Hl Hrk]|[-> ->]]].
    + rewrite residual_unsupported_not in Hg by assumption. destruct Hg as [<-|[]]. left; assumption.
    + destruct (U h) eqn:Huh.
      * apply (IH h Huh Hl); [lia | assumption].
      * rewrite residual_unsupported_not in Hg by assumption. destruct Hg as [<-|[]]. left; assumption.
    + destruct (U FArraySpread) eqn:Hsp.
      * rewrite residual_nonlowered in Hg by (try assumption; cbv [dispose]; discriminate).
        cbv [dispose] in Hg. destruct Hg as [<-|[]]. right. split; [reflexivity | exact Hf].
      * rewrite residual_unsupported_not in Hg by assumption. destruct Hg as [<-|[]]. left; assumption.
Qed.

(* the ONLY unsupported syntax a successful compile can write, for EVERY U and every
   program: the silent hashbang, and the array spread of `super(...arguments)` when class
   fields are lowered while array spread is switched off (both recorded findings) *)
Lemma compile_leaks_exact_l (U : fset) prog out g :
  compile U prog = Ok out -> In g out -> U g = true ->
  g = FHashbang \/ (g = FArraySpread /\ U FClassField = true) \/ dispose U g = NotSyntax.
Proof.
  intros Hc Hin Hug. unfold compile in Hc.
  destruct (existsb _ prog) eqn:Ex; [discriminate|].
  assert (out = flat_map (residual U residual_fuel) prog) as -> by congruence. clear Hc.
  apply in_flat_map in Hin as [f [Hf Hg]].
  assert (U f && is_rejected (dispose U f) = false) as Hnr.
  { destruct (U f && is_rejected (dispose U f)) eqn:E; [|reflexivity].
    assert (existsb (fun f => U f && is_rejected (dispose U f)) prog = true)
      by (apply existsb_exists; exists f; split; assumption). congruence. }
  destruct (U f) eqn:Huf.
  - cbn [andb] in Hnr. destruct (dispose U f) eqn:Hd; try discriminate.
    + destruct (residual_leaks U residual_fuel f Huf Hd (rank_below_fuel f) g Hg) as [H|[-> H]]; [congruence|].
      right; left. split; [reflexivity | exact H].
    + rewrite residual_nonlowered in Hg by (try assumption; congruence). rewrite Hd in Hg. destruct Hg.
    + rewrite residual_nonlowered in Hg by (try assumption; congruence). rewrite Hd in Hg. destruct Hg as [<-|[]].
      left. apply (only_hashbang_is_silent U f Hd).
    + rewrite residual_nonlowered in Hg by (try assumption; congruence). rewrite Hd in Hg. destruct Hg as [<-|[]].
      right; right; assumption.
  - rewrite residual_unsupported_not in Hg by assumption. destruct Hg as [<-|[]]. congruence.
Qed.
