(* C14 model, part 1: executable mirror of
     internal/compat/compat.go      compareVersions, isVersionSupported
     internal/compat/js_table.go    JSFeature.Has, JSFeature.ApplyOverrides, UnsupportedJSFeatures
     pkg/api/api_impl.go            validateSupported (the JS half), the ES-target constraint of validateFeatures
     internal/bundler/bundler.go    fixInvalidUnsupportedJSFeatureOverrides and its call sequence in applyOptionDefaults
   over the tables regenerated from source by translator T2 (V.gen.JsTableGen).
   Definitions only.  JSFeature (Go uint64) is a non-negative Z used as a bit set;
   the 64-bit complement `^mask` of Go is written with Z.ldiff. *)
From V Require Import Common.Base.
From V Require Export gen.JsTableGen.

Definition ver := (Z * Z * Z)%type.
Definition vrange := (ver * ver)%type.

(* compat.Semver: Parts and "PreRelease is non-empty" *)
Record semver := mkSemver { sv_parts : list Z; sv_pre : bool }.

Definition part (l : list Z) (i : nat) : Z := nth i l 0.

(* compareVersions(a v, b Semver) int *)
Definition compareVersions (a : ver) (b : semver) : Z :=
  let '(maj, mi, pa) := a in
  let d0 := maj - part (sv_parts b) 0 in
  let d1 := if d0 =? 0 then mi - part (sv_parts b) 1 else d0 in
  let d2 := if d1 =? 0 then pa - part (sv_parts b) 2 else d1 in
  if (d2 =? 0) && sv_pre b then 1 else d2.

Definition ver_is_zero (v : ver) : bool :=
  let '(a, b, c) := v in (a =? 0) && (b =? 0) && (c =? 0).

(* isVersionSupported(ranges, version) *)
Fixpoint isVersionSupported (ranges : list vrange) (version : semver) : bool :=
  match ranges with
  | [] => false
  | (s, e) :: rest =>
      if (compareVersions s version <=? 0) && (ver_is_zero e || (compareVersions e version >? 0))
      then true
      else isVersionSupported rest version
  end.

Definition feature_eqb (a b : feature) : bool := feature_index a =? feature_index b.
Definition engine_eqb (a b : engine) : bool := engine_index a =? engine_index b.

Fixpoint lookup_engine (e : engine) (l : list (engine * list vrange)) : option (list vrange) :=
  match l with
  | [] => None
  | (e', r) :: rest => if engine_eqb e e' then Some r else lookup_engine e rest
  end.

Definition constraint := (engine * semver)%type.

(* the inner loop body: some constraint is not met by this feature's engine map *)
Definition feature_unsupported (engs : list (engine * list vrange)) (cs : list constraint) : bool :=
  existsb (fun c : constraint =>
             match lookup_engine (fst c) engs with
             | None => true
             | Some r => negb (isVersionSupported r (snd c))
             end) cs.

(* UnsupportedJSFeatures as the list of features whose bit is set *)
Definition unsupported_in (tbl : list (feature * list (engine * list vrange))) (cs : list constraint) : list feature :=
  map fst (filter (fun row => negb (feature_eqb (fst row) FInlineScript) && feature_unsupported (snd row) cs) tbl).

Definition unsupported_list (cs : list constraint) : list feature := unsupported_in jsTable cs.

Definition bit (f : feature) : Z := Z.shiftl 1 (feature_index f).
Definition bits_of (l : list feature) : Z := fold_right (fun f acc => Z.lor (bit f) acc) 0 l.

(* compat.UnsupportedJSFeatures(constraints) *)
Definition UnsupportedJSFeatures (cs : list constraint) : Z := bits_of (unsupported_list cs).

(* JSFeature.Has *)
Definition Has (features f : Z) : bool := negb (Z.land features f =? 0).
Definition has (features : Z) (f : feature) : bool := Has features (bit f).

(* JSFeature.ApplyOverrides: (features & ^mask) | (overrides & mask) *)
Definition ApplyOverrides (features overrides mask : Z) : Z :=
  Z.lor (Z.ldiff features mask) (Z.land overrides mask).

(* validateSupported, JS half: a list of (feature, supported?) pairs *)
Definition validateSupported (l : list (feature * bool)) : Z * Z :=
  fold_left (fun (acc : Z * Z) (kv : feature * bool) =>
               let '(jsFeature, jsMask) := acc in
               (if snd kv then jsFeature else Z.lor jsFeature (bit (fst kv)), Z.lor jsMask (bit (fst kv))))
            l (0, 0).

(* config.Options fields touched by the fixer *)
Record opts := mkOpts { o_unsupported : Z; o_overrides : Z; o_mask : Z }.

(* fixInvalidUnsupportedJSFeatureOverrides(options, implies, implied) *)
Definition fixInvalid (o : opts) (implies : Z) (implied : Z) : opts :=
  if Has (o_overrides o) implies
  then mkOpts (Z.lor (o_unsupported o) implied) (Z.lor (o_overrides o) implied) (Z.lor (o_mask o) implied)
  else o.

(* the call sequence of applyOptionDefaults *)
Definition fixAll_with (tbl : list (feature * list feature)) (o : opts) : opts :=
  fold_left (fun o row => fixInvalid o (bit (fst row)) (bits_of (snd row))) tbl o.
Definition fixAll := fixAll_with implied_table.

(* ES language target -> the constraint map built by validateFeatures *)
Definition es_constraint (year : Z) : list constraint := [(EES, mkSemver [year] false)].

(* what api.Transform/Build hand to the parser, for an ES year and a `supported` map
   (platform browser; the InlineScript adjustment for other platforms is separate) *)
Definition configured_unsupported (cs : list constraint) (supported : list (feature * bool)) : opts :=
  let '(ov, mask) := validateSupported supported in
  fixAll (mkOpts (ApplyOverrides (UnsupportedJSFeatures cs) ov mask) ov mask).
