(* Obligations over the regenerated feature-site inventory. *)
From Coq Require Import String.
From V Require Import Common.Base C14.Compat C14.Spec C14.LowerGraph C14.CompatProofs C14.LowerClosed C14.Sites.

(* the per-feature number of gates is the committed inventory *)
Lemma gate_inventory_matches_l : list_eqb gates_eqb observed_gates expected_gates = true.
Proof. vm_compute. reflexivity. Qed.

(* the features that no part of the JavaScript pipeline ever consults *)
Lemma ungated_features_exact_l :
  filter (fun f => any_count f =? 0) all_features = [FFunctionNameConfigurable; FHashbang].
Proof. vm_compute. reflexivity. Qed.

(* every feature the model lowers, for any U, has a Has(...) gate *)
Lemma lowered_features_gated_l (U : fset) f : dispose U f = Lowered -> 1 <= has_count f.
Proof. destruct f; cbv [dispose]; case_bits; intro H; try discriminate H; vm_compute; congruence. Qed.

(* every feature the model rejects, for any U, reaches an error: a markSyntaxFeature site
   (directly, deferred, or through markAsyncFn), or -- arbitrary module namespace names --
   an own error behind a Has(...) gate *)
Lemma rejected_features_marked_l (U : fset) f : dispose U f = Rejected ->
  1 <= mark_count f \/ marked_via_markAsyncFn f = true \/ (f = FArbitraryModuleNamespaceNames /\ 1 <= has_count f).
Proof.
  destruct f; cbv [dispose]; case_bits; intro H; try discriminate H;
    first [ left; vm_compute; congruence
          | right; left; vm_compute; reflexivity
          | right; right; split; [reflexivity | vm_compute; congruence] ].
Qed.

(* markSyntaxFeature's switch IS the model's disposition:
   - a feature is warned about (and continues) iff its case is the warning case;
   - every case that ends in an error is a feature the model rejects when everything it
     could fall back on is unsupported too (import attributes excepted: the static clause is
     dropped, only the arbitrary second argument of import() is an error);
   - every feature the model rejects has an error case, or is arbitrary module namespace names *)
Lemma mark_switch_warned_l (U : fset) f : dispose U f = Warned <-> in_mark_cases f MWarning = true.
Proof.
  split.
  - destruct f; cbv [dispose]; case_bits; intro H; try discriminate H; vm_compute; reflexivity.
  - destruct f; intro H; vm_compute in H; try discriminate H; reflexivity.
Qed.

Lemma mark_switch_errors_rejected_l f :
  (in_mark_cases f MNotSupportedYet || in_mark_cases f MError) = true -> f <> FImportAttributes ->
  dispose (fun _ => true) f = Rejected.
Proof. destruct f; intros H Hn; vm_compute in H; try discriminate H; try reflexivity; contradiction. Qed.

Lemma rejected_has_error_case_l (U : fset) f : dispose U f = Rejected ->
  (in_mark_cases f MNotSupportedYet || in_mark_cases f MError) = true \/ f = FArbitraryModuleNamespaceNames.
Proof.
  destruct f; cbv [dispose]; case_bits; intro H; try discriminate H;
    first [ left; vm_compute; reflexivity | right; reflexivity ].
Qed.

(* a feature without its own case gets the default: an error *)
Lemma mark_default_is_error_l : mark_default = MError.
Proof. reflexivity. Qed.

(* ---------- syntax introduced by esbuild's own rewrites ---------- *)

(* the regenerated multiset of `!Has(compat.X)` gates is the committed one *)
Lemma newer_syntax_gates_exact_l :
  forallb (fun r : string * feature * Z => count_has_not (fst (fst r)) (snd (fst r)) =? snd r) expected_newer_syntax_gates = true
  /\ total_has_not = fold_right (fun (r : string * feature * Z) acc => snd r + acc) 0 expected_newer_syntax_gates.
Proof. vm_compute. split; reflexivity. Qed.

(* every feature-introducing rewrite is guarded by a `!Has` gate on exactly the feature it
   writes, in the function that performs it; and under every unsupported set U it therefore
   writes only supported syntax *)
Lemma minify_rewrites_guarded_l :
  forallb (fun r : string * string * feature => 1 <=? count_has_not (snd (fst r)) (snd r)) introducing_rewrites = true.
Proof. vm_compute. reflexivity. Qed.

Lemma minify_introduces_only_supported_l (U : fset) r g :
  In r introducing_rewrites -> In g (rewrite_writes U r) ->
  U g = false /\ 1 <= count_has_not (snd (fst r)) (snd r).
Proof.
  intros Hr Hg. split.
  - unfold rewrite_writes in Hg. destruct (U (snd r)) eqn:E; [destruct Hg|]. destruct Hg as [<-|[]]. exact E.
  - pose proof minify_rewrites_guarded_l as H. rewrite forallb_forall in H. specialize (H r Hr). lia.
Qed.
