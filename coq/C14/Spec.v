(* C14 specification side: the ECMA-262 edition in which each SYNTAX feature
   of esbuild's feature enum became part of the standard.  Written from the
   standard's edition history (ECMA-262 5.1 ... 16th edition / ES2025), not from
   esbuild's tables:
     5th  (ES5)    accessor properties in object literals
     6th  (ES2015) arrow functions, classes, let/const, default/rest parameters, spread, destructuring,
                   for-of, generators, new.target, object literal extensions, template literals,
                   \u{...} escapes, RegExp y/u flags
     7th  (ES2016) exponentiation operator; BindingRestElement may be a pattern
     8th  (ES2017) async functions
     9th  (ES2018) async generators, for-await-of, object rest/spread, RegExp s flag, lookbehind,
                   named capture groups, \p{...}
     10th (ES2019) optional catch binding
     11th (ES2020) BigInt, import(), export * as ns, import.meta, ??, ?.
     12th (ES2021) logical assignment (and numeric separators)
     13th (ES2022) class fields, private methods/accessors, static blocks, #x in o, top-level await,
                   RegExp d flag, arbitrary module namespace names
     14th (ES2023) hashbang grammar
     15th (ES2024) RegExp v flag
     16th (ES2025) import attributes
   Syntax proposals that are in no ratified edition up to ES2025 (decorators,
   import assertions, import defer, source phase imports, using) are
   [NotInEcma]; enum entries that are not syntax (environment or semantic
   quirks) are [NotSyntax]. *)
From V Require Import Common.Base C14.Compat.

Inductive edition := Ed (year : Z) | NotInEcma | NotSyntax.

Definition ecma_edition (f : feature) : edition :=
  match f with
  | FObjectAccessors => Ed 5
  | FArraySpread | FArrow | FClass | FConstAndLet | FDefaultArgument | FDestructuring | FForOf
  | FGenerator | FNewTarget | FObjectExtensions | FRegexpStickyAndUnicodeFlags | FRestArgument
  | FTemplateLiteral | FUnicodeEscapes => Ed 2015
  | FExponentOperator | FNestedRestBinding => Ed 2016
  | FAsyncAwait => Ed 2017
  | FAsyncGenerator | FForAwait | FObjectRestSpread | FRegexpDotAllFlag | FRegexpLookbehindAssertions
  | FRegexpNamedCaptureGroups | FRegexpUnicodePropertyEscapes => Ed 2018
  | FOptionalCatchBinding => Ed 2019
  | FBigint | FDynamicImport | FExportStarAs | FImportMeta | FNullishCoalescing | FOptionalChain => Ed 2020
  | FLogicalAssignment => Ed 2021
  | FArbitraryModuleNamespaceNames | FClassField | FClassPrivateAccessor | FClassPrivateBrandCheck
  | FClassPrivateField | FClassPrivateMethod | FClassPrivateStaticAccessor | FClassPrivateStaticField
  | FClassPrivateStaticMethod | FClassStaticBlocks | FClassStaticField | FRegexpMatchIndices
  | FTopLevelAwait => Ed 2022
  | FHashbang => Ed 2023
  | FRegexpSetNotation => Ed 2024
  | FImportAttributes => Ed 2025
  | FDecorators | FImportAssertions | FImportDefer | FImportSource | FUsing => NotInEcma
  | FFromBase64 | FFunctionNameConfigurable | FFunctionOrClassPropertyAccess | FInlineScript
  | FNodeColonPrefixImport | FNodeColonPrefixRequire | FTypeofExoticObjectIsObject => NotSyntax
  end.

(* is feature f newer than the language target ES<year>? *)
Definition newer_than (year : Z) (f : feature) : bool :=
  match ecma_edition f with
  | Ed e => year <? e
  | NotInEcma => true
  | NotSyntax => false
  end.

(* the property's predicate on an observed output: none of the features whose
   syntax occurs in it is newer than the target *)
Definition spec_leaks (year : Z) (detected : list feature) : list feature :=
  filter (newer_than year) detected.
