(* C01 specification, independent of esbuild's code: ECMA-262 (2023) 12.9.3
   Numeric Literals, the mathematical value MV of
     DecimalLiteral ::  DecimalIntegerLiteral . DecimalDigits? ExponentPart?
                     |  . DecimalDigits ExponentPart?
                     |  DecimalIntegerLiteral ExponentPart?
     HexIntegerLiteral :: 0x HexDigits
   (no numeric separators, no legacy octal-like forms: a DecimalIntegerLiteral
   is 0 or starts with a non-zero digit), as an exact decimal rational
   m * 10^e represented by the pair (m, e).  Two pairs denote the same real
   number iff [dec_eq].  A literal followed by anything else is rejected. *)
From V Require Import Common.Base.

Definition dig (c : Z) : bool := (48 <=? c) && (c <=? 57).

Fixpoint take_digits (l : bytes) : bytes * bytes :=
  match l with
  | c :: r => if dig c then let '(d, t) := take_digits r in (c :: d, t) else ([], l)
  | [] => ([], [])
  end.

(* MV of DecimalDigits read left to right *)
Fixpoint digits_value (l : bytes) (acc : Z) : Z :=
  match l with
  | [] => acc
  | c :: r => digits_value r (acc * 10 + (c - 48))
  end.

Definition hexdig (c : Z) : option Z :=
  if (48 <=? c) && (c <=? 57) then Some (c - 48)
  else if (97 <=? c) && (c <=? 102) then Some (c - 87)
  else if (65 <=? c) && (c <=? 70) then Some (c - 55)
  else None.
Fixpoint hex_value (l : bytes) (acc : Z) : option Z :=
  match l with
  | [] => Some acc
  | c :: r => match hexdig c with Some d => hex_value r (acc * 16 + d) | None => None end
  end.

Definition int_part_ok (ip : bytes) : bool :=
  match ip with
  | [] => true
  | [_] => true
  | c :: _ => negb (c =? 48)
  end.

(* ExponentPart? then end of input: exponent value *)
Definition exponent_part (l : bytes) : option Z :=
  match l with
  | [] => Some 0
  | c :: r =>
      if (c =? 101) || (c =? 69) then
        let '(neg, r') := match r with
                          | 43 :: t => (false, t)
                          | 45 :: t => (true, t)
                          | _ => (false, r)
                          end in
        let '(ds, t) := take_digits r' in
        match ds, t with
        | _ :: _, [] => Some (if neg then - digits_value ds 0 else digits_value ds 0)
        | _, _ => None
        end
      else None
  end.

(* DecimalLiteral *)
Definition mv_dec (src : bytes) : option (Z * Z) :=
  let '(ip, r) := take_digits src in
  if negb (int_part_ok ip) then None else
  match r with
  | 46 :: r1 =>
      let '(fp, r2) := take_digits r1 in
      match ip, fp with
      | [], [] => None
      | _, _ =>
          match exponent_part r2 with
          | Some e => Some (digits_value (ip ++ fp) 0, e - Z.of_nat (length fp))
          | None => None
          end
      end
  | _ => match ip with
         | [] => None
         | _ => match exponent_part r with Some e => Some (digits_value ip 0, e) | None => None end
         end
  end.

Definition mv (src : bytes) : option (Z * Z) :=
  match src with
  | 48 :: x :: h =>
      if (x =? 120) || (x =? 88) then
        match h with
        | [] => None
        | _ => match hex_value h 0 with Some v => Some (v, 0) | None => None end
        end
      else mv_dec src
  | _ => mv_dec src
  end.

(* m1 * 10^e1 = m2 * 10^e2 over the rationals *)
Definition dec_eq (a b : Z * Z) : Prop :=
  let '(m1, e1) := a in let '(m2, e2) := b in
  let lo := Z.min e1 e2 in
  m1 * 10 ^ (e1 - lo) = m2 * 10 ^ (e2 - lo).
Definition dec_eqb (a b : Z * Z) : bool :=
  let '(m1, e1) := a in let '(m2, e2) := b in
  let lo := Z.min e1 e2 in
  m1 * 10 ^ (e1 - lo) =? m2 * 10 ^ (e2 - lo).

(* exact value of a finite float64 bit pattern (sign ignored) as m * 2^x,
   and the test "the decimal m10 * 10^e10 rounds (to nearest, ties to even) to
   this float", used by the harness-side predicate on concrete cases *)
Definition float_mx (bits : Z) : Z * Z :=
  let e := (bits / 4503599627370496) mod 2048 in
  let m := bits mod 4503599627370496 in
  if e =? 0 then (m, -1074) else (4503599627370496 + m, e - 1075).
