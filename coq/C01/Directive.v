(* C01: directive prologues (ECMA-262 11.2.1).  A cheap end-to-end model of
   what esbuild does to the statements that matter for "is this body strict":
     source statement kinds
       SrcString text paren   an expression statement that is one string literal
                              (text = the literal's source text WITH its quotes),
                              parenthesised or not
       SrcPure                a side-effect-free folded statement the parser drops
                              even without minification (e.g. 'a' + 'b';)
       SrcOther               anything else
     js_parser: a leading run of unparenthesised string statements becomes
       SDirective(cooked value); every other string statement becomes
       SExpr(EString cooked); SrcPure is dropped and ends the prologue
     js_printer: SDirective v and SExpr(EString v) are both printed as a bare
       string literal statement (printQuotedUTF16, no parentheses)
   Specification: the body is strict iff its directive prologue (the leading
   run of unparenthesised string-literal statements) contains a statement whose
   SOURCE TEXT is exactly "use strict" or 'use strict'.
   The model is tied to the real code end to end by the `directive`
   correspondence family (api.Transform + Node decide strictness of input and
   output for generated bodies). *)
From V Require Import Common.Base C01.Utf C01.Quote C01.SpecLiteral.

Inductive sstmt := SrcString (text : list Z) (paren : bool) | SrcPure | SrcOther.
Inductive astmt := ADir (v : list Z) | AStr (v : list Z) | AOther.

Definition cooked (text : list Z) : list Z :=
  match literal_value_cps text with Some v => v | None => [] end.

Fixpoint parse_body (in_prologue : bool) (src : list sstmt) : list astmt :=
  match src with
  | [] => []
  | SrcString t false :: r =>
      if in_prologue then ADir (cooked t) :: parse_body true r else AStr (cooked t) :: parse_body false r
  | SrcString t true :: r => AStr (cooked t) :: parse_body false r
  | SrcPure :: r => parse_body false r
  | SrcOther :: r => AOther :: parse_body false r
  end.

Definition print_stmt (cfg : qcfg) (a : astmt) : sstmt :=
  match a with
  | ADir v => SrcString (print_quoted_cps cfg false true 0 v) false
  | AStr v => SrcString (print_quoted_cps cfg true false 0 v) false
  | AOther => SrcOther
  end.
Definition roundtrip (cfg : qcfg) (src : list sstmt) : list sstmt :=
  map (print_stmt cfg) (parse_body true src).

(* "use strict" / 'use strict' *)
Definition use_strict_chars : list Z := [117; 115; 101; 32; 115; 116; 114; 105; 99; 116].
Definition is_use_strict_text (t : list Z) : bool :=
  zlist_eqb t (34 :: use_strict_chars ++ [34]) || zlist_eqb t (39 :: use_strict_chars ++ [39]).
Fixpoint prologue_strict (src : list sstmt) : bool :=
  match src with
  | SrcString t false :: r => is_use_strict_text t || prologue_strict r
  | _ => false
  end.

(* the property-level statement: transforming a body does not change whether it is strict *)
Definition strict_preserved (cfg : qcfg) (src : list sstmt) : Prop :=
  prologue_strict (roundtrip cfg src) = prologue_strict src.

Definition cfg_default : qcfg := mkQ true true true 0 false true.
(* 'use\x20strict' *)
Definition wit_A : list sstmt := [SrcString [39; 117; 115; 101; 92; 120; 50; 48; 115; 116; 114; 105; 99; 116; 39] false; SrcOther].
(* 'use strict' *)
Definition wit_A2 : list sstmt := [SrcString [39; 117; 115; 101; 92; 117; 48; 48; 50; 48; 115; 116; 114; 105; 99; 116; 39] false; SrcOther].
(* ('use strict') *)
Definition wit_B : list sstmt := [SrcString (39 :: use_strict_chars ++ [39]) true; SrcOther].
(* 'a' + 'b'; 'use strict' *)
Definition wit_C : list sstmt := [SrcPure; SrcString (39 :: use_strict_chars ++ [39]) false; SrcOther].

Lemma strict_preserved_refuted_witnesses :
  ~ strict_preserved cfg_default wit_A /\ ~ strict_preserved cfg_default wit_A2 /\
  ~ strict_preserved cfg_default wit_B /\ ~ strict_preserved cfg_default wit_C.
Proof. unfold strict_preserved. repeat split; vm_compute; discriminate. Qed.

(* and the statement does hold on the ordinary shapes *)
Lemma strict_preserved_examples :
  strict_preserved cfg_default [SrcString (34 :: use_strict_chars ++ [34]) false; SrcOther] /\
  strict_preserved cfg_default [SrcString [39; 120; 39] false; SrcString (39 :: use_strict_chars ++ [39]) false] /\
  strict_preserved cfg_default [SrcOther; SrcString (39 :: use_strict_chars ++ [39]) false] /\
  strict_preserved cfg_default [SrcString [39; 120; 39] true; SrcOther].
Proof. unfold strict_preserved. repeat split; vm_compute; reflexivity. Qed.
