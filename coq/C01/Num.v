(* C01 model: /repo/internal/js_printer/js_printer.go
     printNonNegativeFloat (l.3564) : the `< 1000` integer fast path, the
       rewriting of strconv.FormatFloat(absValue,'g',-1,64)'s text, the hex path,
       the needSpaceBeforeDot flag;
     smallIntToBytes / parseSmallInt (l.3513/3543);
     printNumber (l.484) : sign / NaN / Infinity forms.
   strconv.FormatFloat itself is NOT modelled: its output text is an input of
   the model (trusted: shortest round-tripping decimal).  The float64 is given
   by its IEEE-754 bit pattern, from which the exact integer value (when it is
   one) is computed.  Go byte-slice index manipulation is rendered with list
   splitting functions; strings outside the shape strconv produces on which
   the Go code would index out of range are mapped to arbitrary (total)
   results and excluded from the theorems' domain.  Executable definitions only. *)
From V Require Import Common.Base.

Definition isdig (c : Z) : bool := (48 <=? c) && (c <=? 57).

(* ---- list helpers mirroring bytes.IndexByte / LastIndexByte slicing ---- *)
Fixpoint split_first (c : Z) (l : bytes) : option (bytes * bytes) :=
  match l with
  | [] => None
  | x :: r => if x =? c then Some ([], r)
              else match split_first c r with
                   | Some (a, b) => Some (x :: a, b)
                   | None => None
                   end
  end.
Fixpoint split_last (c : Z) (l : bytes) : option (bytes * bytes) :=
  match l with
  | [] => None
  | x :: r => match split_last c r with
              | Some (a, b) => Some (x :: a, b)
              | None => if x =? c then Some ([], r) else None
              end
  end.
Fixpoint strip0 (l : bytes) : bytes :=
  match l with
  | 48 :: r => strip0 r
  | _ => l
  end.
Fixpoint span0 (l : bytes) : bytes * bytes :=   (* leading '0's, rest *)
  match l with
  | 48 :: r => let '(z, t) := span0 r in (48 :: z, t)
  | _ => ([], l)
  end.
Definition len (l : bytes) : Z := Z.of_nat (length l).

(* smallIntToBytes *)
Fixpoint digits_fuel (fuel : nat) (n : Z) (acc : bytes) : bytes :=
  match fuel with
  | O => acc
  | S f => let acc' := (48 + n mod 10) :: acc in
           if n / 10 =? 0 then acc' else digits_fuel f (n / 10) acc'
  end.
Definition nat_digits (n : Z) : bytes := digits_fuel 64 n [].
Definition smallIntToBytes (n : Z) : bytes :=
  if n <? 0 then 45 :: nat_digits (- n) else nat_digits n.

(* parseSmallInt *)
Fixpoint parse_nat (l : bytes) (acc : Z) : Z :=
  match l with
  | [] => acc
  | c :: r => parse_nat r (acc * 10 + (c - 48))
  end.
Definition parseSmallInt (l : bytes) : Z :=
  match l with
  | 45 :: r => - parse_nat r 0
  | _ => parse_nat l 0
  end.

(* "e+05" => "e5", "e-05" => "e-5" *)
Definition simplify_exponent (result : bytes) : bytes :=
  match split_last 101 result with
  | Some (m, ex) =>
      match ex with
      | 43 :: ex' => m ++ [101] ++ strip0 ex'
      | 45 :: ex' => m ++ [101; 45] ++ strip0 ex'
      | _ => m ++ [101] ++ strip0 ex
      end
  | None => result
  end.

Definition last_is_zero (l : bytes) : bool :=
  match rev l with 48 :: _ => true | _ => false end.

(* the rewriting between FormatFloat and the hex test *)
Definition shorten (mw : bool) (s : bytes) : bytes :=
  let result := simplify_exponent s in
  match split_first 46 result with
  | Some (integer, rest) =>
      if zlist_eqb integer [48] then
        (* dot == 1 && result[0] == '0' *)
        let result1 := if mw then 46 :: rest else result in
        match rest with
        | 48 :: _ =>
            let '(zs, remaining) := span0 rest in
            let exponent := smallIntToBytes (- len rest) in
            if len remaining + 1 + len exponent <? len result1
            then remaining ++ [101] ++ exponent else result1
        | _ => result1
        end
      else
        match split_last 101 rest with
        | Some (fraction, expstr) =>
            let exponent := parseSmallInt expstr - len fraction in
            if (0 <=? exponent) && (exponent <=? 2) then
              (if len integer + len fraction + exponent <=? len result
               then integer ++ fraction ++ repeat 48 (Z.to_nat exponent) else result)
            else
              let ex := smallIntToBytes exponent in
              if len integer + len fraction + 1 + len ex <=? len result
              then integer ++ fraction ++ [101] ++ ex else result
        | None => result
        end
  | None =>
      if last_is_zero result then
        (* i := start of the trailing run of zeros (the loop stops at 0) *)
        let '(zs_rev, rem_rev) := span0 (rev result) in
        let remaining := rev rem_rev in
        let exponent := smallIntToBytes (len zs_rev) in
        if len remaining + 1 + len exponent <? len result
        then remaining ++ [101] ++ exponent else result
      else result
  end.

(* ---- float64 bit pattern -> exact non-negative integer value, if any ---- *)
Definition float_int (bits : Z) : option Z :=
  let e := (bits / 4503599627370496) mod 2048 in
  let m := bits mod 4503599627370496 in
  if e =? 0 then (if m =? 0 then Some 0 else None)
  else if e =? 2047 then None
  else let M := 4503599627370496 + m in
       let x := e - 1075 in
       if 0 <=? x then Some (M * 2 ^ x)
       else if M mod 2 ^ (- x) =? 0 then Some (M / 2 ^ (- x)) else None.

(* strconv.FormatUint(v, 16): lower-case hex without leading zeros *)
Definition hexl (d : Z) : Z := if d <? 10 then 48 + d else 87 + d.
Fixpoint hex_fuel (fuel : nat) (n : Z) (acc : bytes) : bytes :=
  match fuel with
  | O => acc
  | S f => let acc' := hexl (n mod 16) :: acc in
           if n / 16 =? 0 then acc' else hex_fuel f (n / 16) acc'
  end.
Definition to_hex (n : Z) : bytes := hex_fuel 64 n [].

Definition contains_any_dot_e_x (l : bytes) : bool :=
  existsb (fun c => (c =? 46) || (c =? 101) || (c =? 120)) l.

(* printNonNegativeFloat: (bytes printed, needSpaceBeforeDot set to the end).
   bits: the float64 (sign bit clear); s: strconv.FormatFloat(absValue,'g',-1,64) *)
Definition printNonNegativeFloat (mw : bool) (bits : Z) (s : bytes) : bytes * bool :=
  let iv := float_int bits in
  match iv with
  | Some v =>
      if v <? 1000 then (smallIntToBytes v, true)
      else
        let result := shorten mw s in
        let result :=
          if mw && (1000000000000 <=? v) && (v <=? 18446744073709549568) then
            let hex := to_hex v in
            if 2 + len hex <? len result then [48; 120] ++ hex else result
          else result in
        (result, negb (contains_any_dot_e_x result))
  | None =>
      let result := shorten mw s in
      (result, negb (contains_any_dot_e_x result))
  end.

(* ---- printNumber (on a printer whose prevOpEnd/prevRegExpEnd are unset, so
   printSpaceBeforeOperator prints nothing; ASCII prefix) ---- *)
Definition LMultiply : Z := 16.   (* js_ast.LMultiply *)
Definition LPrefix : Z := 18.     (* js_ast.LPrefix *)

Definition ident_continue_ascii (c : Z) : bool :=
  ((48 <=? c) && (c <=? 57)) || ((65 <=? c) && (c <=? 90)) || ((97 <=? c) && (c <=? 122)) || (c =? 95) || (c =? 36).
(* printSpaceBeforeIdentifier *)
Definition space_before_ident (js : bytes) : bytes :=
  match rev js with
  | c :: _ => if ident_continue_ascii c then [32] else []
  | [] => []
  end.

Definition is_nan_bits (bits : Z) : bool :=
  ((bits / 4503599627370496) mod 2048 =? 2047) && negb (bits mod 4503599627370496 =? 0).
Definition is_inf_bits (bits : Z) : bool :=
  ((bits / 4503599627370496) mod 2048 =? 2047) && (bits mod 4503599627370496 =? 0).
Definition sign_bit (bits : Z) : bool := 9223372036854775808 <=? bits.
Definition abs_bits (bits : Z) : Z := bits mod 9223372036854775808.

Definition wrap_parens (w : bool) (b : bytes) : bytes := if w then [40] ++ b ++ [41] else b.

(* bytes appended by printNumber; s = FormatFloat(|value|) *)
Definition print_number (mw ms : bool) (level withNesting : Z) (js : bytes) (bits : Z) (s : bytes) : bytes :=
  if is_nan_bits bits then
    space_before_ident js ++
    (if negb (withNesting =? 0)
     then wrap_parens (LMultiply <=? level) (if mw then [48; 47; 48] else [48; 32; 47; 32; 48])
     else [78; 97; 78])
  else if is_inf_bits bits then
    let neg := sign_bit bits in
    let wrap := ((ms || negb (withNesting =? 0)) && (LMultiply <=? level)) || (neg && (LPrefix <=? level)) in
    let js1 := js ++ (if wrap then [40] else []) in
    (if wrap then [40] else []) ++
    (if neg then [45] else space_before_ident js1) ++
    (if negb ms && (withNesting =? 0) then [73; 110; 102; 105; 110; 105; 116; 121]
     else if mw then [49; 47; 48] else [49; 32; 47; 32; 48]) ++
    (if wrap then [41] else [])
  else
    let body := fst (printNonNegativeFloat mw (abs_bits bits) s) in
    if negb (sign_bit bits) then space_before_ident js ++ body
    else if LPrefix <=? level then [40; 45] ++ body ++ [41]
    else [45] ++ body.
