(* C01 (tie with C13): C13 proves print_parse_roundtrip at tree level up to
   [norm] (the printer prints the comma operator without parentheses, so comma
   trees come back left-nested).  Here: [norm] preserves BEHAVIOUR.

   Part 1 (general): for EVERY compositional semantics of the fragment of C13's
   expression trees that [norm] acts on ([cexpr]; [norm_embed_all] shows C13's
   norm is [cnorm] there) in which `l , r` means "evaluate l, discard its value, evaluate r"
   (the meaning of every other node is an arbitrary function of the meanings
   of its children: this covers short-circuit operators, assignments,
   conditionals, member accesses), [norm e] and [e] have the same meaning.

   Part 2 (instance): a concrete trace semantics - states carry a variable
   store and the list of host-visible events (every identifier read, every
   assignment with its value, every call-like member access); evaluation is
   left to right, with short-circuit && || ??, conditional, simple and
   compound assignment to identifiers, arithmetic on integers and failure
   (an exception) that aborts evaluation keeping the trace so far.  For every
   tree, every store: same value, same final store, same event trace. *)
From V Require Import Common.Base C13.KwSpec C13.Token C13.LexSpec C13.Toks C13.ParseSpec.

(* The fragment of C13's expression trees that [norm] acts on, as a type of its
   own (C13's tree type keeps growing: calls, new, argument lists ...); the
   embedding into C13's trees and the proof that C13's [norm] is [cnorm] on the
   image are at the end of this file. *)
Inductive cexpr :=
 | CId (s : list Z) | CNum (s : list Z) | CRe (b f : list Z)
 | CDot (e : cexpr) (s : list Z) | CUn (o : op) (e : cexpr) | CBin (o : op) (l r : cexpr)
 | CCond (c y n : cexpr) | CIndex (e i : cexpr).
Fixpoint ccomma_app (l r : cexpr) : cexpr :=
  match r with
  | CBin BComma r1 r2 => CBin BComma (ccomma_app l r1) r2
  | _ => CBin BComma l r
  end.
Fixpoint cnorm (e : cexpr) : cexpr :=
  match e with
  | CDot t s => CDot (cnorm t) s
  | CUn o v => CUn o (cnorm v)
  | CBin o l r => if op_eqb o BComma then ccomma_app (cnorm l) (cnorm r) else CBin o (cnorm l) (cnorm r)
  | CCond c y n => CCond (cnorm c) (cnorm y) (cnorm n)
  | CIndex t i => CIndex (cnorm t) (cnorm i)
  | _ => e
  end.

Section General.
  Variables (S V : Type).
  (* a meaning: from a state to failure or a value and a new state *)
  Definition den := S -> option (V * S).
  Definition den_eq (f g : den) : Prop := forall s, f s = g s.

  Variable m_id : list Z -> den.
  Variable m_num : list Z -> den.
  Variable m_re : list Z -> list Z -> den.
  Variable m_dot : den -> list Z -> den.
  Variable m_un : op -> den -> den.
  Variable m_bin : op -> den -> den -> den.       (* every binary operator except comma *)
  Variable m_cond : den -> den -> den -> den.
  Variable m_index : den -> den -> den.
  (* compositionality: a node's meaning depends only on its children's meanings *)
  Hypothesis m_dot_ext : forall f f' s, den_eq f f' -> den_eq (m_dot f s) (m_dot f' s).
  Hypothesis m_un_ext : forall o f f', den_eq f f' -> den_eq (m_un o f) (m_un o f').
  Hypothesis m_bin_ext : forall o f f' g g', den_eq f f' -> den_eq g g' -> den_eq (m_bin o f g) (m_bin o f' g').
  Hypothesis m_cond_ext : forall c c' y y' n n', den_eq c c' -> den_eq y y' -> den_eq n n' ->
    den_eq (m_cond c y n) (m_cond c' y' n').
  Hypothesis m_index_ext : forall f f' g g', den_eq f f' -> den_eq g g' -> den_eq (m_index f g) (m_index f' g').

  (* GetValue (6.2.5.5): turns a Reference into its value (may have effects and
     may fail); applied to a value it is the identity *)
  Variable getvalue : V -> S -> option (V * S).
  Hypothesis getvalue_idem : forall v s w s', getvalue v s = Some (w, s') -> getvalue w s' = Some (w, s').

  Definition bind (f : den) (k : V -> den) : den :=
    fun s => match f s with Some (v, s') => k v s' | None => None end.
  Definition gv (f : den) : den := bind f getvalue.

  (* ECMA-262 13.16.1  Expression : Expression , AssignmentExpression
       1. lref = evaluate Expression; 2. ? GetValue(lref);
       3. rref = evaluate AssignmentExpression; 4. return ? GetValue(rref) *)
  Definition m_comma (l r : den) : den := bind (gv l) (fun _ => gv r).

  Fixpoint meaning (e : cexpr) : den :=
    match e with
    | CId x => m_id x
    | CNum x => m_num x
    | CRe b f => m_re b f
    | CDot t x => m_dot (meaning t) x
    | CUn o v => m_un o (meaning v)
    | CBin o l r => if op_eqb o BComma then m_comma (meaning l) (meaning r) else m_bin o (meaning l) (meaning r)
    | CCond c y n => m_cond (meaning c) (meaning y) (meaning n)
    | CIndex t i => m_index (meaning t) (meaning i)
    end.

  Lemma m_comma_ext l l' r r' : den_eq l l' -> den_eq r r' -> den_eq (m_comma l r) (m_comma l' r').
  Proof.
    intros H1 H2 s. unfold m_comma, gv, bind. rewrite H1. destruct (l' s) as [[v s']|]; [|reflexivity].
    destruct (getvalue v s') as [[w s'']|]; [|reflexivity]. rewrite H2. reflexivity.
  Qed.

  Lemma m_comma_assoc a b c : den_eq (m_comma (m_comma a b) c) (m_comma a (m_comma b c)).
  Proof.
    intros s. unfold m_comma, gv, bind.
    destruct (a s) as [[v s1]|]; [|reflexivity].
    destruct (getvalue v s1) as [[w s2]|]; [|reflexivity].
    destruct (b s2) as [[v2 s3]|]; [|reflexivity].
    destruct (getvalue v2 s3) as [[w2 s4]|] eqn:G; [|reflexivity].
    rewrite (getvalue_idem _ _ _ _ G).
    destruct (c s4) as [[v3 s5]|]; [|reflexivity].
    destruct (getvalue v3 s5) as [[w3 s6]|] eqn:G3; [|reflexivity].
    rewrite (getvalue_idem _ _ _ _ G3). reflexivity.
  Qed.

  Lemma comma_app_meaning : forall r l,
    den_eq (meaning (ccomma_app l r)) (m_comma (meaning l) (meaning r)).
  Proof.
    induction r as [x|x|b f|t IHt x|o v IHv|o r1 IH1 r2 IH2|c IHc y IHy n IHn|t IHt i IHi]; intros l;
      try (intro; reflexivity).
    destruct o; try (intro; reflexivity).
    cbn [ccomma_app meaning op_eqb]. intros st0.
    change (meaning (CBin BComma (ccomma_app l r1) r2) st0) with (m_comma (meaning (ccomma_app l r1)) (meaning r2) st0).
    rewrite (m_comma_ext _ (m_comma (meaning l) (meaning r1)) _ (meaning r2) (IH1 l) (fun _ => eq_refl)).
    rewrite m_comma_assoc. reflexivity.
  Qed.

  Lemma norm_meaning_all : forall e, den_eq (meaning (cnorm e)) (meaning e).
  Proof.
    induction e as [x|x|b f|t IHt x|o v IHv|o l IHl r IHr|c IHc y IHy n IHn|t IHt i IHi];
      try (intro; reflexivity).
    - cbn [cnorm meaning]. apply m_dot_ext. exact IHt.
    - cbn [cnorm meaning]. apply m_un_ext. exact IHv.
    - cbn [cnorm]. destruct (op_eqb o BComma) eqn:E.
      + intros st0. rewrite comma_app_meaning. cbn [meaning]. rewrite E.
        apply m_comma_ext; assumption.
      + cbn [meaning]. rewrite E. apply m_bin_ext; assumption.
    - cbn [cnorm meaning]. apply m_cond_ext; assumption.
    - cbn [cnorm meaning]. apply m_index_ext; assumption.
  Qed.
End General.

(* ---------------- Part 2: a concrete trace semantics ---------------- *)
Definition name := list Z.
Inductive event :=
| Read (x : name) (v : Z) | Write (x : name) (v : Z)
| GetProp (obj : Z) (p : name) | GetIndex (obj i : Z).
Definition store := list (name * Z).
Definition state := (store * list event)%type.
Inductive value := Val (z : Z) | Ref (x : name).

Fixpoint lookup (st : store) (x : name) : Z :=
  match st with
  | [] => 0
  | (y, v) :: r => if zlist_eqb x y then v else lookup r x
  end.
Definition emit (s : state) (e : event) : state := (fst s, snd s ++ [e]).
Definition write (s : state) (x : name) (v : Z) : state := ((x, v) :: fst s, snd s ++ [Write x v]).

Definition getvalue_c (v : value) (s : state) : option (value * state) :=
  match v with
  | Val z => Some (Val z, s)
  | Ref x => let z := lookup (fst s) x in Some (Val z, emit s (Read x z))
  end.
Lemma getvalue_c_idem v s w s' : getvalue_c v s = Some (w, s') -> getvalue_c w s' = Some (w, s').
Proof. destruct v; cbn; intros E; inversion E; subst; reflexivity. Qed.

Notation cden := (den state value).
(* evaluate to a number *)
Definition gz (f : cden) (s : state) : option (Z * state) :=
  match f s with
  | Some (v, s1) => match getvalue_c v s1 with
                    | Some (Val z, s2) => Some (z, s2)
                    | _ => None
                    end
  | None => None
  end.

Fixpoint dec_value (ds : list Z) (acc : Z) : Z :=
  match ds with [] => acc | c :: r => dec_value r (acc * 10 + (c - 48)) end.

Inductive opclass := CAssign | CCompound (a : op) | CLogAssign (k : op) | CShort (k : op) | CArith | CBad.
Definition classify (o : op) : opclass :=
  match o with
  | BAssign => CAssign
  | BAddAssign => CCompound BAdd | BSubAssign => CCompound BSub | BMulAssign => CCompound BMul
  | BDivAssign => CCompound BDiv | BRemAssign => CCompound BRem | BPowAssign => CCompound BPow
  | BShlAssign => CCompound BShl | BShrAssign => CCompound BShr | BUShrAssign => CCompound BUShr
  | BBitOrAssign => CCompound BBitOr | BBitAndAssign => CCompound BBitAnd | BBitXorAssign => CCompound BBitXor
  | BNullishAssign => CLogAssign BNullish | BLogOrAssign => CLogAssign BLogOr | BLogAndAssign => CLogAssign BLogAnd
  | BNullish | BLogOr | BLogAnd => CShort o
  | BAdd | BSub | BMul | BDiv | BRem | BPow | BLt | BLe | BGt | BGe | BIn | BInstanceof
  | BShl | BShr | BUShr | BLooseEq | BLooseNe | BStrictEq | BStrictNe | BBitOr | BBitAnd | BBitXor => CArith
  | _ => CBad
  end.
(* integer stand-ins for the operators; division and remainder by zero fail
   (an exception aborts the evaluation) *)
Definition arith (o : op) (a b : Z) : option Z :=
  match o with
  | BAdd => Some (a + b) | BSub => Some (a - b) | BMul => Some (a * b)
  | BDiv => if b =? 0 then None else Some (a / b)
  | BRem => if b =? 0 then None else Some (a mod b)
  | BPow => Some (a ^ Z.abs b)
  | BLt => Some (if a <? b then 1 else 0) | BLe => Some (if a <=? b then 1 else 0)
  | BGt => Some (if b <? a then 1 else 0) | BGe => Some (if b <=? a then 1 else 0)
  | BLooseEq | BStrictEq => Some (if a =? b then 1 else 0)
  | BLooseNe | BStrictNe => Some (if a =? b then 0 else 1)
  | BBitOr => Some (Z.lor a b) | BBitAnd => Some (Z.land a b) | BBitXor => Some (Z.lxor a b)
  | BShl => Some (a * 2 ^ (Z.abs b mod 32)) | BShr | BUShr => Some (a / 2 ^ (Z.abs b mod 32))
  | _ => Some (a * 31 + b)
  end.
(* does the short-circuit operator stop after its left operand? (0 plays falsy / nullish) *)
Definition stops_short (k : op) (z : Z) : bool :=
  match k with BLogAnd => z =? 0 | BLogOr => negb (z =? 0) | _ => negb (z =? 0) end.

Definition c_id (x : name) : cden := fun s => Some (Ref x, s).          (* a Reference: no event yet *)
Definition c_num (ds : list Z) : cden := fun s => Some (Val (dec_value ds 0), s).
Definition c_re (b f : list Z) : cden := fun s => Some (Val (Z.of_nat (length b)), s).
Definition c_dot (f : cden) (p : name) : cden :=
  fun s => match gz f s with
           | Some (z, s1) => Some (Val (z * 31 + Z.of_nat (length p)), emit s1 (GetProp z p))
           | None => None
           end.
Definition c_index (f g : cden) : cden :=
  fun s => match gz f s with
           | Some (a, s1) => match gz g s1 with
                             | Some (i, s2) => Some (Val (a * 31 + i), emit s2 (GetIndex a i))
                             | None => None
                             end
           | None => None
           end.
Definition c_un (o : op) (f : cden) : cden :=
  fun s =>
    if is_update o then
      match f s with
      | Some (Ref x, s1) =>
          let z := lookup (fst s1) x in
          let z' := match o with UPreInc | UPostInc => z + 1 | _ => z - 1 end in
          let s2 := write (emit s1 (Read x z)) x z' in
          Some (Val (match o with UPreInc | UPreDec => z' | _ => z end), s2)
      | _ => None                                     (* not a simple assignment target *)
      end
    else match o with
         | UDelete => match f s with Some (_, s1) => Some (Val 1, s1) | None => None end
         | UPos | UNeg | UCpl | UNot | UVoid | UTypeof =>
             match gz f s with
             | Some (z, s1) =>
                 Some (Val (match o with UNeg => - z | UCpl => - z - 1 | UNot => (if z =? 0 then 1 else 0)
                                   | UVoid => 0 | UTypeof => 7 | _ => z end), s1)
             | None => None
             end
         | _ => None
         end.
Definition c_bin (o : op) (f g : cden) : cden :=
  fun s =>
    match classify o with
    | CAssign =>
        match f s with
        | Some (Ref x, s1) => match gz g s1 with
                              | Some (z, s2) => Some (Val z, write s2 x z)
                              | None => None
                              end
        | _ => None
        end
    | CCompound a =>
        match f s with
        | Some (Ref x, s1) =>
            let zl := lookup (fst s1) x in
            match gz g (emit s1 (Read x zl)) with
            | Some (zr, s2) => match arith a zl zr with
                               | Some z => Some (Val z, write s2 x z)
                               | None => None
                               end
            | None => None
            end
        | _ => None
        end
    | CLogAssign k =>
        match f s with
        | Some (Ref x, s1) =>
            let zl := lookup (fst s1) x in
            let s1' := emit s1 (Read x zl) in
            if stops_short k zl then Some (Val zl, s1')
            else match gz g s1' with
                 | Some (z, s2) => Some (Val z, write s2 x z)
                 | None => None
                 end
        | _ => None
        end
    | CShort k =>
        match gz f s with
        | Some (zl, s1) => if stops_short k zl then Some (Val zl, s1)
                           else match gz g s1 with Some (z, s2) => Some (Val z, s2) | None => None end
        | None => None
        end
    | CArith =>
        match gz f s with
        | Some (zl, s1) => match gz g s1 with
                           | Some (zr, s2) => match arith o zl zr with Some z => Some (Val z, s2) | None => None end
                           | None => None
                           end
        | None => None
        end
    | CBad => None
    end.
Definition c_cond (c y n : cden) : cden :=
  fun s => match gz c s with
           | Some (z, s1) => match gz (if z =? 0 then n else y) s1 with
                             | Some (r, s2) => Some (Val r, s2)
                             | None => None
                             end
           | None => None
           end.

Lemma gz_ext f f' : den_eq state value f f' -> forall s, gz f s = gz f' s.
Proof. intros H s. unfold gz. rewrite H. reflexivity. Qed.

(* the trace semantics of a tree *)
Definition trace_eval : cexpr -> cden :=
  meaning state value c_id c_num c_re c_dot c_un c_bin c_cond c_index getvalue_c.

Lemma norm_trace_all : forall e s, trace_eval (cnorm e) s = trace_eval e s.
Proof.
  intros e. apply norm_meaning_all.
  - intros f f' p H s. unfold c_dot. rewrite (gz_ext f f' H). reflexivity.
  - intros o f f' H s. unfold c_un. rewrite H, (gz_ext f f' H). reflexivity.
  - intros o f f' g g' Hff Hg s. unfold c_bin.
    destruct (classify o); rewrite ?Hff, ?(gz_ext f f' Hff); try reflexivity.
    + destruct (f' s) as [[[z|x] s1]|]; try reflexivity. rewrite (gz_ext g g' Hg). reflexivity.
    + destruct (f' s) as [[[z|x] s1]|]; try reflexivity. rewrite (gz_ext g g' Hg). reflexivity.
    + destruct (f' s) as [[[z|x] s1]|]; try reflexivity. rewrite (gz_ext g g' Hg). reflexivity.
    + destruct (gz f' s) as [[zl s1]|]; try reflexivity. rewrite (gz_ext g g' Hg). reflexivity.
    + destruct (gz f' s) as [[zl s1]|]; try reflexivity. rewrite (gz_ext g g' Hg). reflexivity.
  - intros c c' y y' n n' Hc Hy Hn s. unfold c_cond. rewrite (gz_ext c c' Hc).
    destruct (gz c' s) as [[z s1]|]; [|reflexivity].
    destruct (z =? 0); [rewrite (gz_ext n n' Hn)|rewrite (gz_ext y y' Hy)]; reflexivity.
  - intros f f' g g' Hff Hg s. unfold c_index. rewrite (gz_ext f f' Hff).
    destruct (gz f' s) as [[a s1]|]; [|reflexivity]. rewrite (gz_ext g g' Hg). reflexivity.
  - exact getvalue_c_idem.
Qed.

(* ---------------- the tie with C13: C13's norm on the fragment IS cnorm ---------------- *)
Fixpoint embed (e : cexpr) : expr :=
  match e with
  | CId s => EId s | CNum s => ENum s | CRe b f => ERe b f
  | CDot t s => EDot (embed t) s
  | CUn o v => EUn o (embed v)
  | CBin o l r => EBin o (embed l) (embed r)
  | CCond c y n => ECond (embed c) (embed y) (embed n)
  | CIndex t i => EIndex (embed t) (embed i)
  end.

Lemma comma_app_embed : forall r l, comma_app (embed l) (embed r) = embed (ccomma_app l r).
Proof.
  induction r as [x|x|b f|t IHt x|o v IHv|o r1 IH1 r2 IH2|c IHc y IHy n IHn|t IHt i IHi]; intros l;
    try reflexivity.
  destruct o; try reflexivity.
  cbn [embed ccomma_app comma_app]. rewrite IH1. reflexivity.
Qed.

Lemma norm_embed_all : forall e, norm (embed e) = embed (cnorm e).
Proof.
  induction e as [x|x|b f|t IHt x|o v IHv|o l IHl r IHr|c IHc y IHy n IHn|t IHt i IHi]; try reflexivity.
  - cbn [embed norm cnorm]. rewrite IHt. reflexivity.
  - cbn [embed norm cnorm]. rewrite IHv. reflexivity.
  - cbn [embed norm cnorm]. rewrite IHl, IHr. destruct (op_eqb o BComma); [apply comma_app_embed|reflexivity].
  - cbn [embed norm cnorm]. rewrite IHc, IHy, IHn. reflexivity.
  - cbn [embed norm cnorm]. rewrite IHt, IHi. reflexivity.
Qed.
