(* C01 lemmas: the printed property key denotes the same key. *)
From V Require Import Common.Base C01.Utf C01.Quote C01.SpecLiteral C01.QuoteProofs C01.Keys.
From V Require Import gen.IdTablesGen.

(* facts about the REGENERATED tables, checked by computation on every run:
   no range touches the surrogate block or leaves 0..U+10FFFF *)
Definition table_ok (tbl : list (Z * Z * Z)) : bool :=
  forallb (fun t => let '(lo, hi, st) := t in (0 <=? lo) && (lo <=? hi) && ((hi <? 55296) || (57343 <? lo)) && (hi <=? 1114111)) tbl.
Lemma id_start_table_ok : table_ok id_start_es5_and_esnext = true.
Proof. vm_compute. reflexivity. Qed.
Lemma id_continue_table_ok : table_ok id_continue_es5_and_esnext = true.
Proof. vm_compute. reflexivity. Qed.

Lemma in_table_range tbl cp : table_ok tbl = true -> in_table tbl cp = true ->
  0 <= cp <= 1114111 /\ is_surrogate cp = false.
Proof.
  unfold table_ok, in_table. intros Hok Hin. apply existsb_exists in Hin as [[[lo hi] st] [Hm Hc]].
  rewrite forallb_forall in Hok. specialize (Hok _ Hm). cbn beta iota in Hok.
  unfold is_surrogate. lia.
Qed.

Definition id_char (cp : Z) : Prop :=
  0 <= cp <= 1114111 /\ is_surrogate cp = false /\ cp <> 92 /\ cp <> 34 /\ cp <> 39 /\ cp <> 96.

Lemma id_start_char cp : is_id_start cp = true -> id_char cp.
Proof.
  unfold is_id_start, ascii_letter, id_char, is_surrogate. intros H.
  destruct ((cp =? 95) || (cp =? 36) || (((97 <=? cp) && (cp <=? 122)) || ((65 <=? cp) && (cp <=? 90)))) eqn:E; [lia|].
  destruct (cp <? 127) eqn:E2; [discriminate|].
  destruct (in_table_range _ _ id_start_table_ok H) as [R1 R2]. unfold is_surrogate in R2. lia.
Qed.
Lemma id_continue_char cp : is_id_continue cp = true -> id_char cp.
Proof.
  unfold is_id_continue, ascii_letter, ascii_digit, id_char, is_surrogate. intros H.
  destruct ((cp =? 95) || (cp =? 36) || ((48 <=? cp) && (cp <=? 57)) || (((97 <=? cp) && (cp <=? 122)) || ((65 <=? cp) && (cp <=? 90)))) eqn:E; [lia|].
  destruct (cp <? 127) eqn:E2; [discriminate|].
  destruct ((cp =? 8204) || (cp =? 8205)) eqn:E3; [lia|].
  destruct (in_table_range _ _ id_continue_table_ok H) as [R1 R2]. unfold is_surrogate in R2. lia.
Qed.
Lemma test_char (b : bool) cp : (if b then is_id_start cp else is_id_continue cp) = true -> id_char cp.
Proof. destruct b; [apply id_start_char|apply id_continue_char]. Qed.

(* an identifier (by esbuild's test) is well-formed UTF-16 without a backslash *)
Lemma ident_rest_wf : forall n text b, (length text <= n)%nat -> all_u16 text ->
  ident_rest b text = true -> wf_utf16 text = true /\ ~ In 92 text.
Proof.
  induction n as [|n IH]; intros text b Hlen Hu H.
  { destruct text; [split; [reflexivity|intros []]|cbn in Hlen; lia]. }
  destruct text as [|r1 rest]; [split; [reflexivity|intros []]|].
  cbn [length] in Hlen. inversion Hu as [|? ? Hc Hu']; subst.
  cbn [ident_rest] in H. cbn [wf_utf16].
  destruct rest as [|r2 rest'].
  - apply test_char in H. destruct H as [_ [Hs [H92 _]]].
    unfold is_surrogate in Hs. unfold is_high, is_low.
    destruct ((55296 <=? r1) && (r1 <=? 56319)) eqn:E1; [lia|].
    split; [rewrite andb_true_r; lia|]. intros [E|[]]. lia.
  - inversion Hu' as [|? ? Hc2 Hu'']; subst.
    destruct (is_high r1) eqn:Hh.
    + destruct (is_low r2) eqn:Hl; cbn [andb] in H.
      * apply andb_true_iff in H as [_ H]. destruct (IH rest' false) as [W N]; [cbn [length] in Hlen; lia|exact Hu''|exact H|].
        split; [exact W|]. unfold is_high in Hh. unfold is_low in Hl. intros [E|[E|E]]; [lia|lia|exact (N E)].
      * apply andb_true_iff in H as [H _]. apply test_char in H. destruct H as [_ [Hs _]].
        unfold is_surrogate in Hs. unfold is_high in Hh. lia.
    + cbn [andb] in H. apply andb_true_iff in H as [H1 H2]. apply test_char in H1. destruct H1 as [_ [Hs [H92 _]]].
      destruct (IH (r2 :: rest') false) as [W N]; [lia|exact Hu'|exact H2|].
      unfold is_surrogate in Hs. unfold is_low. split.
      * apply andb_true_iff; split; [unfold is_high in Hh; lia|exact W].
      * intros [E|E]; [lia|exact (N E)].
Qed.

(* printIdentifierUTF16 does not panic on names canPrintIdentifierUTF16 accepts *)
Lemma ident_cps_some cfg : forall n text, (length text <= n)%nat -> all_u16 text ->
  (negb (ascii_only cfg) || uni_esc cfg || negb (ContainsNonBMPCodePointUTF16 text)) = true ->
  ident_cps cfg text <> None.
Proof.
  induction n as [|n IH]; intros text Hlen Hu H.
  { destruct text; [discriminate|cbn in Hlen; lia]. }
  destruct text as [|c rest]; [discriminate|].
  cbn [length] in Hlen. inversion Hu as [|? ? Hc Hu']; subst.
  cbn [ident_cps]. destruct rest as [|c2 rest'].
  - destruct (ascii_only cfg && (126 <? c)); [|discriminate].
    destruct (c <=? 65535) eqn:E; [discriminate|lia].
  - inversion Hu' as [|? ? Hc2 Hu'']; subst.
    destruct (is_high c && is_low c2) eqn:Ep.
    + (* a pair: only allowed when not (ascii without \u{...}) *)
      assert (Hcfg : (negb (ascii_only cfg) || uni_esc cfg) = true).
      { cbn [ContainsNonBMPCodePointUTF16] in H. rewrite Ep in H. cbn [orb negb] in H.
        rewrite orb_false_r in H. exact H. }
      assert (Hrest : ident_cps cfg rest' <> None).
      { apply (IH rest'); [cbn [length] in Hlen; lia|exact Hu''|]. rewrite Hcfg. reflexivity. }
      destruct (ident_cps cfg rest') as [tl|]; [|congruence].
      destruct (ascii_only cfg) eqn:Ea; cbn [andb].
      * cbn [negb orb] in Hcfg. rewrite Hcfg.
        destruct (126 <? combine_add c c2); [|discriminate].
        destruct (combine_add c c2 <=? 65535); discriminate.
      * discriminate.
    + assert (Hrest : ident_cps cfg (c2 :: rest') <> None).
      { apply (IH (c2 :: rest')); [lia|exact Hu'|].
        cbn [ContainsNonBMPCodePointUTF16] in H. rewrite Ep in H. cbn [orb] in H. exact H. }
      destruct (ident_cps cfg (c2 :: rest')) as [tl|]; [|congruence].
      destruct (ascii_only cfg && (126 <? c)); [|discriminate].
      destruct (c <=? 65535) eqn:E; [discriminate|lia].
Qed.

Lemma EncodeRune_head cp : 0 <= cp -> cp <> 34 -> cp <> 39 -> cp <> 96 ->
  exists b r, EncodeRune cp = b :: r /\ b <> 34 /\ b <> 39 /\ b <> 96.
Proof.
  intros H0 H1 H2 H3. unfold EncodeRune.
  destruct ((cp <? 0) || (MaxRune <? cp) || is_surrogate cp); [eexists; eexists; split; [reflexivity|lia]|].
  unfold encodeWTF8Rune, MaxRune.
  destruct (cp <? 0); [eexists; eexists; split; [reflexivity|lia]|].
  destruct (cp <=? 127) eqn:E1; [eexists; eexists; split; [reflexivity|lia]|].
  destruct (cp <=? 2047) eqn:E2; [eexists; eexists; split; [reflexivity|lia]|].
  destruct (1114111 <? cp); [eexists; eexists; split; [reflexivity|lia]|].
  destruct (cp <=? 65535) eqn:E3; eexists; eexists; (split; [reflexivity|lia]).
Qed.

(* head of what printIdentifierUTF16 prints *)
Lemma ident_cps_head cfg text cps :
  all_u16 text -> IsIdentifierES5AndESNextUTF16 text = true -> ident_cps cfg text = Some cps ->
  exists h tl, cps = h :: tl /\ (h = 92 \/ id_char h).
Proof.
  intros Hu Hid H. destruct text as [|c rest]; [discriminate|].
  cbn [IsIdentifierES5AndESNextUTF16 ident_rest] in Hid. cbn [ident_cps] in H.
  assert (G : forall cp tl out, id_char cp ->
     (if ascii_only cfg && (126 <? cp)
      then (if cp <=? 65535 then Some (esc_u4 cp ++ tl) else if uni_esc cfg then Some (esc_ubrace cp ++ tl) else None)
      else Some (cp :: tl)) = Some out -> exists h tl', out = h :: tl' /\ (h = 92 \/ id_char h)).
  { intros cp tl out Hc E. destruct (ascii_only cfg && (126 <? cp)).
    - destruct (cp <=? 65535).
      + inversion E. eexists; eexists; split; [reflexivity|left; reflexivity].
      + destruct (uni_esc cfg); [|discriminate]. inversion E. eexists; eexists; split; [reflexivity|left; reflexivity].
    - inversion E. eexists; eexists; split; [reflexivity|right; exact Hc]. }
  destruct rest as [|c2 rest'].
  - apply id_start_char in Hid. apply (G c [] cps Hid H).
  - destruct (is_high c && is_low c2).
    + apply andb_true_iff in Hid as [Hid _]. apply id_start_char in Hid.
      destruct (ident_cps cfg rest') as [tl|]; [|discriminate]. apply (G _ tl cps Hid H).
    + apply andb_true_iff in Hid as [Hid _]. apply id_start_char in Hid.
      destruct (ident_cps cfg (c2 :: rest')) as [tl|]; [|discriminate]. apply (G _ tl cps Hid H).
Qed.

Lemma string_key_identity_all cfg pq key :
  all_u16 key -> exists out, print_string_key cfg pq key = Some out /\ key_value out = Some key.
Proof.
  intros Hu. unfold print_string_key.
  destruct (negb pq && can_print_identifier_utf16 cfg key) eqn:E.
  - apply andb_true_iff in E as [_ E]. unfold can_print_identifier_utf16 in E.
    apply andb_true_iff in E as [Hid Hcfg].
    assert (Hne : key <> []) by (intros ->; discriminate).
    assert (Hr : ident_rest true key = true) by (destruct key; [congruence|exact Hid]).
    destruct (ident_rest_wf (length key) key true (le_n _) Hu Hr) as [Hwf Hbs].
    pose proof (ident_cps_some cfg (length key) key (le_n _) Hu Hcfg) as Hs.
    unfold print_identifier_utf16. destruct (ident_cps cfg key) as [cps|] eqn:Ec; [|congruence].
    exists (to_bytes cps). split; [reflexivity|].
    assert (Hv : ident_value (to_bytes cps) = Some key).
    { apply (ident_roundtrip_all cfg key); auto. unfold print_identifier_utf16. rewrite Ec. reflexivity. }
    destruct (ident_cps_head cfg key cps Hu Hid Ec) as [h [tl [-> Hh]]].
    assert (Hb : exists b r, to_bytes (h :: tl) = b :: r /\ b <> 34 /\ b <> 39 /\ b <> 96).
    { unfold to_bytes. cbn [flat_map].
      destruct Hh as [->|[Hr0 [_ [_ [H1 [H2 H3]]]]]].
      - eexists; eexists; split; [reflexivity|lia].
      - destruct (EncodeRune_head h ltac:(lia) H1 H2 H3) as [b [r [Eb Hb]]]. rewrite Eb.
        eexists; eexists; split; [reflexivity|exact Hb]. }
    destruct Hb as [b [r [Eb [B1 [B2 B3]]]]]. rewrite Eb in *. unfold key_value.
    destruct ((b =? 34) || (b =? 39) || (b =? 96)) eqn:Eq; [lia|exact Hv].
  - exists (print_quoted cfg false false [] key). split; [reflexivity|].
    pose proof (quote_roundtrip_all cfg false false [] key Hu) as Hv.
    unfold print_quoted, print_quoted_cps in *. destruct (choose_quote_kind cfg false key) as [k Hk].
    rewrite Hk in *. unfold to_bytes in *. cbn [flat_map] in *.
    assert (Eq : EncodeRune (quote_of k) = [quote_of k]) by (destruct k; reflexivity).
    rewrite Eq in *. cbn [app] in *. unfold key_value.
    replace ((quote_of k =? 34) || (quote_of k =? 39) || (quote_of k =? 96)) with true by (destruct k; reflexivity).
    exact Hv.
Qed.

(* ---------- member names: a.b versus a["b"] ---------- *)
Lemma rune_units_scalar c : scalar c = true -> rune_units c = utf16_units c.
Proof.
  unfold scalar, rune_units, utf16_units. intros H. destruct (c <=? 65535) eqn:E; [reflexivity|].
  rewrite (Z.mod_small ((c - 65536) / 1024) 1024) by lia. reflexivity.
Qed.
Lemma rune_units_all rs : forallb scalar rs = true -> flat_map rune_units rs = flat_map utf16_units rs.
Proof.
  induction rs as [|c r IH]; intros H; [reflexivity|]. cbn [forallb] in H. apply andb_true_iff in H as [H1 H2].
  cbn [flat_map]. rewrite rune_units_scalar, IH by assumption. reflexivity.
Qed.
Lemma rune_units_u16 rs : forallb scalar rs = true -> all_u16 (flat_map rune_units rs).
Proof.
  induction rs as [|c r IH]; intros H; [constructor|]. cbn [forallb] in H. apply andb_true_iff in H as [H1 H2].
  cbn [flat_map]. apply Forall_app. split; [|apply IH; exact H2].
  unfold scalar in H1. unfold rune_units. destruct (c <=? 65535) eqn:E; repeat constructor; lia.
Qed.

Lemma ident_rest_runes_chars b rs : ident_rest_runes b rs = true -> Forall id_char rs.
Proof.
  revert b. induction rs as [|c r IH]; intros b H; [constructor|]. cbn [ident_rest_runes] in H.
  apply andb_true_iff in H as [H1 H2]. constructor; [apply (test_char b); exact H1|apply (IH false); exact H2].
Qed.

Lemma irun_runes rs : Forall id_char rs -> irun INormal rs = Some rs.
Proof.
  induction 1 as [|c r Hc Hr IH]; [reflexivity|]. destruct Hc as [_ [_ [H92 _]]].
  rewrite irun_raw by exact H92. rewrite IH. reflexivity.
Qed.
Lemma id_chars_scalar rs : Forall id_char rs -> forallb scalar rs = true.
Proof.
  induction 1 as [|c r Hc Hr IH]; [reflexivity|]. cbn [forallb]. rewrite IH, andb_true_r.
  destruct Hc as [H0 [Hs _]]. unfold scalar. unfold is_surrogate in Hs. lia.
Qed.

Lemma quote_ident_ok cfg rs : Forall id_char rs ->
  (uni_esc cfg || negb (existsb (fun c => 65535 <? c) rs)) = true ->
  exists cps, quote_ident_cps cfg rs = Some cps /\ forallb scalar cps = true /\ irun INormal cps = Some rs.
Proof.
  induction 1 as [|c r Hc Hr IH]; intros Hcfg; [exists []; auto|].
  assert (Hcfg' : (uni_esc cfg || negb (existsb (fun c => 65535 <? c) r)) = true).
  { cbn [existsb] in Hcfg. destruct (uni_esc cfg); [reflexivity|]. cbn [orb] in *.
    destruct (65535 <? c); [discriminate|exact Hcfg]. }
  destruct (IH Hcfg') as [tl [E1 [E2 E3]]]. cbn [quote_ident_cps]. rewrite E1.
  destruct Hc as [H0 [Hs [H92 _]]]. unfold is_surrogate in Hs.
  destruct ((32 <=? c) && (c <=? 126)) eqn:Ea.
  - exists (c :: tl). split; [reflexivity|]. split.
    + cbn [forallb]. rewrite E2. unfold scalar. lia.
    + rewrite irun_raw by exact H92. rewrite E3. reflexivity.
  - destruct (c <=? 65535) eqn:Eb.
    + exists (esc_u4 c ++ tl). split; [reflexivity|]. split.
      * rewrite forallb_app, E2, andb_true_r. eapply good_scalar. apply (esc_u4_good false false). lia.
      * rewrite irun_esc_u4 by lia. rewrite E3. reflexivity.
    + assert (Hu : uni_esc cfg = true).
      { cbn [existsb] in Hcfg. destruct (uni_esc cfg); [reflexivity|]. cbn [orb] in Hcfg.
        replace (65535 <? c) with true in Hcfg by lia. discriminate. }
      rewrite Hu. exists (esc_ubrace c ++ tl). split; [reflexivity|]. split.
      * rewrite forallb_app, E2, andb_true_r. eapply good_scalar. apply (esc_ubrace_good false false). lia.
      * rewrite irun_esc_ubrace by lia. rewrite E3. reflexivity.
Qed.

Lemma member_name_identity_all cfg ll rs :
  forallb scalar rs = true ->
  exists out, print_dot_name cfg ll rs = Some out /\ member_key out = Some (flat_map rune_units rs).
Proof.
  intros Hsc. unfold print_dot_name.
  destruct (can_print_identifier cfg rs) eqn:Ecan.
  - unfold can_print_identifier in Ecan. apply andb_true_iff in Ecan as [Hid Hcfg].
    assert (Hch : Forall id_char rs).
    { unfold IsIdentifierES5AndESNext in Hid. destruct rs; [discriminate|]. apply (ident_rest_runes_chars true). exact Hid. }
    rewrite (rune_units_all rs Hsc).
    unfold print_identifier_runes. destruct (ascii_only cfg) eqn:Ea.
    + cbn [negb orb] in Hcfg. destruct (quote_ident_ok cfg rs Hch Hcfg) as [cps [Q1 [Q2 Q3]]].
      rewrite Q1. cbn [option_map]. eexists; split; [reflexivity|].
      cbn [member_key]. unfold ident_value. rewrite utf8_roundtrip by exact Q2. rewrite Q3. reflexivity.
    + cbn [option_map]. eexists; split; [reflexivity|].
      cbn [member_key]. unfold ident_value. rewrite utf8_roundtrip by exact Hsc.
      rewrite (irun_runes rs Hch). reflexivity.
  - eexists; split; [reflexivity|].
    cbn [app member_key]. rewrite rev_app_distr. cbn [rev app]. rewrite rev_involutive.
    pose proof (rune_units_u16 rs Hsc) as Hu.
    unfold literal_value. rewrite utf8_roundtrip.
    + apply quoted_cps_value. exact Hu.
    + eapply good_scalar. apply print_quoted_cps_good. exact Hu.
Qed.
