(* C01 lemmas: the raw strings of a printed tagged template are the stored ones. *)
From V Require Import Common.Base C01.Utf C01.Quote C01.SpecLiteral C01.Template C01.Tagged.

Definition units (x : list Z) : list Z := flat_map utf16_units x.

Lemma units_app a b : units (a ++ b) = units a ++ units b.
Proof. unfold units. apply flat_map_app. Qed.

Lemma raw_chunk : forall X s cur w,
  (s = RNormal \/ s = REsc \/ s = RDollar) ->
  ~ In 13 X -> ~ In SUBST X ->
  rrun s (X ++ [96]) cur = Some [w] ->
  w = cur ++ units X /\
  forall rest, rrun s (X ++ SUBST :: rest) cur = option_map (cons w) (rrun RNormal rest []).
Proof.
  induction X as [|c X IH]; intros s cur w Hs Hcr Hsub Hr.
  - cbn [app] in *. cbn [rrun] in Hr. replace (96 =? SUBST) with false in Hr by reflexivity.
    destruct Hs as [->|[->| ->]]; cbn in Hr.
    + inversion Hr; subst. rewrite app_nil_r. split; [rewrite app_nil_r; reflexivity|].
      intros rest. cbn [rrun]. replace (SUBST =? SUBST) with true by reflexivity. reflexivity.
    + discriminate.
    + inversion Hr; subst. rewrite app_nil_r. split; [rewrite app_nil_r; reflexivity|].
      intros rest. cbn [rrun]. replace (SUBST =? SUBST) with true by reflexivity. reflexivity.
  - cbn [app] in *.
    assert (Hc13 : c <> 13) by (intros E; apply Hcr; left; auto).
    assert (HcS : c <> SUBST) by (intros E; apply Hsub; left; auto).
    assert (Hcr' : ~ In 13 X) by (intros E; apply Hcr; right; exact E).
    assert (Hsub' : ~ In SUBST X) by (intros E; apply Hsub; right; exact E).
    cbn [rrun] in Hr. assert (Ec : (c =? SUBST) = false) by lia. rewrite Ec in Hr.
    (* one step: emits the character itself and never enters RCR / RDone usefully *)
    assert (Hstep : (exists s1, rstep s c = Some (utf16_units c, s1) /\ (s1 = RNormal \/ s1 = REsc \/ s1 = RDollar))
                    \/ rstep s c = None \/ rstep s c = Some ([], RDone)).
    { destruct Hs as [->|[->| ->]]; cbn [rstep]; unfold rnormal.
      - destruct (c =? 96) eqn:E1; [right; right; reflexivity|].
        destruct (c =? 92) eqn:E2; [left; exists REsc; split; [apply Z.eqb_eq in E2; subst; reflexivity|auto]|].
        destruct (c =? 13) eqn:E3; [lia|].
        destruct (c =? 36) eqn:E4; [left; exists RDollar; split; [apply Z.eqb_eq in E4; subst; reflexivity|auto]|].
        left; exists RNormal; auto.
      - destruct (c =? 13) eqn:E3; [lia|]. left; exists RNormal; auto.
      - destruct (c =? 123) eqn:E0; [right; left; reflexivity|].
        destruct (c =? 96) eqn:E1; [right; right; reflexivity|].
        destruct (c =? 92) eqn:E2; [left; exists REsc; split; [apply Z.eqb_eq in E2; subst; reflexivity|auto]|].
        destruct (c =? 13) eqn:E3; [lia|].
        destruct (c =? 36) eqn:E4; [left; exists RDollar; split; [apply Z.eqb_eq in E4; subst; reflexivity|auto]|].
        left; exists RNormal; auto. }
    destruct Hstep as [[s1 [Es Hs1]]|[Es|Es]]; rewrite Es in Hr.
    + destruct (IH s1 (cur ++ utf16_units c) w Hs1 Hcr' Hsub' Hr) as [I1 I2]. split.
      * rewrite I1. unfold units. cbn [flat_map]. rewrite app_assoc. reflexivity.
      * intros rest. cbn [rrun]. rewrite Ec, Es. apply I2.
    + discriminate.
    + (* a backtick inside the chunk: nothing may follow RDone *)
      exfalso. destruct (X ++ [96]) as [|d r] eqn:E; [destruct X; discriminate|].
      cbn [rrun] in Hr. destruct (d =? SUBST); cbn in Hr; discriminate.
Qed.

Lemma rrun_acc : forall Y s c1 c2 w, rrun s Y c1 = Some [w] -> exists w', rrun s Y c2 = Some [w'].
Proof.
  induction Y as [|d Y IHY]; intros s c1 c2 w0 H.
  - cbn in *. destruct s; try discriminate. eexists; reflexivity.
  - cbn [rrun] in *. destruct (d =? SUBST).
    + destruct (raccepting s); [|discriminate]. destruct (rrun RNormal Y []) as [l|]; cbn in *; [|discriminate].
      inversion H; subst. eexists; reflexivity.
    + destruct (rstep s d) as [[e s']|]; [|discriminate]. eapply IHY. exact H.
Qed.

Lemma tagged_raw_roundtrip_all head tails :
  lexer_raw head -> Forall lexer_raw tails ->
  raw_value (tagged_cps head tails) = Some (map units (head :: tails)).
Proof.
  intros Hh Ht. unfold raw_value, tagged_cps.
  assert (G : forall tails, Forall lexer_raw tails -> forall X cur,
            lexer_raw X ->
            rrun RNormal (X ++ flat_map (fun t => SUBST :: t) tails ++ [96]) cur = Some ((cur ++ units X) :: map units tails)).
  { clear. induction tails as [|t r IH]; intros Ht X cur [H13 [HS [w Hw]]].
    - cbn [flat_map app map].
      destruct (rrun_acc _ _ _ cur _ Hw) as [w' Hw'].
      assert (Hdummy : True) by exact I.
      destruct (raw_chunk X RNormal cur w' (or_introl eq_refl) H13 HS Hw') as [I1 _]. rewrite Hw', I1. reflexivity.
    - inversion Ht as [|? ? Ht1 Ht2]; subst. cbn [flat_map map]. rewrite <- app_assoc. cbn [app].
      destruct (rrun_acc _ _ _ cur _ Hw) as [w' Hw'].
      destruct (raw_chunk X RNormal cur w' (or_introl eq_refl) H13 HS Hw') as [I1 I2].
      rewrite I2. rewrite (IH Ht2 t [] Ht1). cbn [option_map app]. rewrite I1. reflexivity. }
  rewrite (G tails Ht head [] Hh). reflexivity.
Qed.

(* the bytes printed are the raw strings themselves between the delimiters *)
Lemma print_tagged_render head tails :
  render (tagged_cps head tails) = print_tagged (to_bytes head) (map to_bytes tails)
  \/ In SUBST head \/ Exists (In SUBST) tails.
Proof.
  destruct (in_dec Z.eq_dec SUBST head) as [Hi|Hn]; [right; left; exact Hi|].
  assert (R : forall x, ~ In SUBST x -> render x = to_bytes x).
  { induction x as [|c r IH]; intros H; [reflexivity|].
    unfold render, to_bytes in *. cbn [flat_map]. rewrite IH by (intros E; apply H; right; exact E).
    unfold render_cp. destruct (c =? SUBST) eqn:E; [exfalso; apply H; left; lia|reflexivity]. }
  assert (D : Exists (In SUBST) tails \/ Forall (fun t => ~ In SUBST t) tails).
  { induction tails as [|t r IH]; [right; constructor|].
    destruct (in_dec Z.eq_dec SUBST t); [left; constructor; assumption|].
    destruct IH as [IH|IH]; [left; apply Exists_cons_tl; exact IH|right; constructor; assumption]. }
  destruct D as [D|D]; [right; right; exact D|left].
  assert (RA : forall a b, render (a ++ b) = render a ++ render b) by (intros; unfold render; apply flat_map_app).
  assert (RT : render (flat_map (fun t => SUBST :: t) tails) = flat_map (fun t => subst_bytes ++ t) (map to_bytes tails)).
  { induction D as [|t r Dt Dr IH]; [reflexivity|].
    cbn [flat_map map]. change (SUBST :: t ++ flat_map (fun t0 => SUBST :: t0) r) with ([SUBST] ++ t ++ flat_map (fun t0 => SUBST :: t0) r).
    assert (RS : render (SUBST :: t) = subst_bytes ++ render t) by reflexivity.
    rewrite !RA, RS, IH, (R t Dt). reflexivity. }
  unfold tagged_cps, print_tagged.
  change (96 :: head ++ flat_map (fun t => SUBST :: t) tails ++ [96]) with ([96] ++ head ++ flat_map (fun t => SUBST :: t) tails ++ [96]).
  rewrite !RA, RT, (R head Hn). reflexivity.
Qed.
