(* C01 lemmas about the number printer model. *)
From V Require Import Common.Base C01.Num C01.SpecNumeric.

Definition digs (l : bytes) : Prop := Forall (fun c => 48 <= c <= 57) l.
Definition num (l : bytes) : Z := digits_value l 0.

Lemma dig_true c : 48 <= c <= 57 -> dig c = true.
Proof. unfold dig. lia. Qed.

Lemma dv_acc l : forall acc, digits_value l acc = acc * 10 ^ Z.of_nat (length l) + digits_value l 0.
Proof.
  induction l as [|c r IH]; intros acc; cbn [digits_value length].
  - cbn. lia.
  - rewrite IH. rewrite (IH (0 * 10 + (c - 48))).
    rewrite Nat2Z.inj_succ, Z.pow_succ_r by lia. lia.
Qed.

Lemma dv_app a b acc : digits_value (a ++ b) acc = digits_value b (digits_value a acc).
Proof. revert acc. induction a as [|c r IH]; intros acc; cbn [app digits_value]; [reflexivity|apply IH]. Qed.

Lemma num_app a b : num (a ++ b) = num a * 10 ^ Z.of_nat (length b) + num b.
Proof. unfold num. rewrite dv_app, dv_acc. reflexivity. Qed.

Lemma num_zeros k : num (repeat 48 k) = 0.
Proof. induction k as [|k IH]; [reflexivity|]. unfold num in *. cbn [repeat digits_value]. exact IH. Qed.

Lemma num_nonneg l : digs l -> 0 <= num l.
Proof.
  intros H. unfold num. assert (G : forall acc, 0 <= acc -> 0 <= digits_value l acc).
  { induction H as [|c r Hc Hr IH]; intros acc Ha; cbn [digits_value]; [exact Ha|apply IH; lia]. }
  apply G. lia.
Qed.

Lemma parse_nat_dv l acc : parse_nat l acc = digits_value l acc.
Proof. revert acc. induction l as [|c r IH]; intros acc; cbn; [reflexivity|apply IH]. Qed.

Lemma digs_app a b : digs (a ++ b) <-> digs a /\ digs b.
Proof. unfold digs. apply Forall_app. Qed.

Lemma digs_repeat k : digs (repeat 48 k).
Proof. induction k; constructor; [lia|assumption]. Qed.

(* take_digits on a run of digits followed by a non-digit (or nothing) *)
Definition stops (b : bytes) : Prop := match b with [] => True | c :: _ => dig c = false end.

Lemma take_digits_app a b : digs a -> stops b -> take_digits (a ++ b) = (a, b).
Proof.
  intros Ha Hb. induction Ha as [|c r Hc Hr IH]; cbn [app].
  - destruct b as [|x t]; [reflexivity|]. cbn [take_digits]. cbn in Hb. rewrite Hb. reflexivity.
  - cbn [take_digits]. rewrite dig_true by exact Hc. rewrite IH. reflexivity.
Qed.

Lemma take_digits_all a : digs a -> take_digits a = (a, []).
Proof. intros H. rewrite <- (app_nil_r a) at 1. apply take_digits_app; [exact H|exact I]. Qed.

(* splitting *)
Lemma split_first_app c a b : ~ In c a -> split_first c (a ++ c :: b) = Some (a, b).
Proof.
  induction a as [|x r IH]; intros H; cbn [app split_first].
  - rewrite Z.eqb_refl. reflexivity.
  - destruct (x =? c) eqn:E; [exfalso; apply H; left; lia|].
    rewrite IH; [reflexivity|]. intros Hin; apply H; right; exact Hin.
Qed.
Lemma split_first_none c a : ~ In c a -> split_first c a = None.
Proof.
  induction a as [|x r IH]; intros H; cbn [split_first]; [reflexivity|].
  destruct (x =? c) eqn:E; [exfalso; apply H; left; lia|].
  rewrite IH; [reflexivity|]. intros Hin; apply H; right; exact Hin.
Qed.
Lemma split_last_none c a : ~ In c a -> split_last c a = None.
Proof.
  induction a as [|x r IH]; intros H; cbn [split_last]; [reflexivity|].
  rewrite IH by (intros Hin; apply H; right; exact Hin).
  destruct (x =? c) eqn:E; [exfalso; apply H; left; lia|reflexivity].
Qed.
Lemma split_last_app c a b : ~ In c b -> split_last c (a ++ c :: b) = Some (a, b).
Proof.
  intros H. induction a as [|x r IH]; cbn [app split_last].
  - rewrite (split_last_none c b H). rewrite Z.eqb_refl. reflexivity.
  - rewrite IH. reflexivity.
Qed.

Lemma digs_not_in c l : digs l -> (c < 48 \/ 57 < c) -> ~ In c l.
Proof.
  intros H Hc Hin. unfold digs in H. rewrite Forall_forall in H. specialize (H c Hin). lia.
Qed.

(* leading zeros *)
Lemma span0_spec l : let '(z, t) := span0 l in l = z ++ t /\ z = repeat 48 (length z) /\ (match t with 48 :: _ => False | _ => True end).
Proof.
  induction l as [|c r IH]; cbn [span0].
  - repeat split; reflexivity.
  - destruct (Z.eq_dec c 48) as [->|Hne].
    + destruct (span0 r) as [z t]. destruct IH as [E1 [E2 E3]].
      cbn [app length repeat]. repeat split; [f_equal; exact E1|f_equal; exact E2|exact E3].
    + assert (E : span0 (c :: r) = ([], c :: r)).
      { cbn [span0]. destruct c as [|p|p]; try reflexivity.
        do 6 (destruct p as [p|p|]; try reflexivity). exfalso; apply Hne; reflexivity. }
      cbn [span0] in E. rewrite E. repeat split; try reflexivity.
      destruct c as [|p|p]; try exact I. do 6 (destruct p as [p|p|]; try exact I). apply Hne; reflexivity.
Qed.

Lemma strip0_spec l : exists k, l = repeat 48 k ++ strip0 l /\ (match strip0 l with 48 :: _ => False | _ => True end).
Proof.
  induction l as [|c r IH]; cbn [strip0].
  - exists 0%nat. split; [reflexivity|exact I].
  - destruct (Z.eq_dec c 48) as [->|Hne].
    + destruct IH as [k [E1 E2]]. exists (S k). cbn [repeat app]. split; [f_equal; exact E1|exact E2].
    + assert (E : strip0 (c :: r) = c :: r).
      { cbn [strip0]. destruct c as [|p|p]; try reflexivity.
        do 6 (destruct p as [p|p|]; try reflexivity). exfalso; apply Hne; reflexivity. }
      cbn [strip0] in E. rewrite E. exists 0%nat. split; [reflexivity|].
      destruct c as [|p|p]; try exact I. do 6 (destruct p as [p|p|]; try exact I). apply Hne; reflexivity.
Qed.

Lemma num_lead_zeros k r : num (repeat 48 k ++ r) = num r.
Proof. rewrite num_app, num_zeros. lia. Qed.

(* smallIntToBytes *)
Lemma digits_fuel_spec : forall fuel n acc,
  (0 < fuel)%nat -> 0 <= n < 10 ^ Z.of_nat fuel ->
  exists D, digits_fuel fuel n acc = D ++ acc /\ digs D /\ D <> [] /\ num D = n.
Proof.
  induction fuel as [|f IH]; intros n acc Hf Hn; [lia|].
  cbn [digits_fuel]. destruct (n / 10 =? 0) eqn:E.
  - exists [48 + n mod 10]. repeat split.
    + constructor; [lia|constructor].
    + discriminate.
    + unfold num. cbn [digits_value]. lia.
  - assert (Hf' : (0 < f)%nat).
    { destruct f; [|lia]. cbn in Hn. lia. }
    destruct (IH (n / 10) ((48 + n mod 10) :: acc) Hf') as [D [E1 [E2 [E3 E4]]]].
    { rewrite Nat2Z.inj_succ, Z.pow_succ_r in Hn by lia. lia. }
    exists (D ++ [48 + n mod 10]). repeat split.
    + rewrite E1, <- app_assoc. reflexivity.
    + apply digs_app. split; [exact E2|]. constructor; [lia|constructor].
    + destruct D; discriminate.
    + rewrite num_app, E4. unfold num. cbn [digits_value length]. lia.
Qed.

Lemma nat_digits_spec n : 0 <= n < 10 ^ 64 ->
  digs (nat_digits n) /\ nat_digits n <> [] /\ num (nat_digits n) = n.
Proof.
  intros H. unfold nat_digits.
  destruct (digits_fuel_spec 64 n [] ltac:(lia) H) as [D [E1 [E2 [E3 E4]]]].
  rewrite E1, app_nil_r. auto.
Qed.

Lemma exponent_part_small e : - 10 ^ 64 < e < 10 ^ 64 ->
  exponent_part (101 :: smallIntToBytes e) = Some e.
Proof.
  intros H. unfold smallIntToBytes, exponent_part.
  replace ((101 =? 101) || (101 =? 69)) with true by reflexivity.
  destruct (e <? 0) eqn:E.
  - destruct (nat_digits_spec (- e) ltac:(lia)) as [D1 [D2 D3]].
    cbn beta iota. rewrite (take_digits_all _ D1). destruct (nat_digits (- e)) as [|c r] eqn:En; [congruence|].
    f_equal. fold (num (c :: r)). rewrite D3. lia.
  - destruct (nat_digits_spec e ltac:(lia)) as [D1 [D2 D3]].
    destruct (nat_digits e) as [|c r] eqn:En; [congruence|].
    assert (Hc : 48 <= c <= 57) by (inversion D1; assumption).
    assert (Hm : match c :: r with 43 :: t => (false, t) | 45 :: t => (true, t) | _ => (false, c :: r) end = (false, c :: r)).
    { destruct c as [|p|p]; try reflexivity. do 6 (destruct p as [p|p|]; try reflexivity); lia. }
    rewrite Hm. rewrite (take_digits_all _ D1). f_equal. exact D3.
Qed.

Lemma small_digs e : 0 <= e < 10 ^ 64 -> digs (smallIntToBytes e) /\ smallIntToBytes e <> [].
Proof.
  intros H. unfold smallIntToBytes. replace (e <? 0) with false by lia.
  destruct (nat_digits_spec e H) as [D1 [D2 _]]. auto.
Qed.

(* mv on the shapes that occur *)
Definition exp_tail (t : bytes) : Prop := t = [] \/ exists r, t = 101 :: r.

Lemma exp_tail_stops t : exp_tail t -> stops t.
Proof. intros [->|[r ->]]; [exact I|reflexivity]. Qed.

Lemma mv_dec_int ip t e :
  digs ip -> ip <> [] -> int_part_ok ip = true -> exp_tail t -> exponent_part t = Some e ->
  mv_dec (ip ++ t) = Some (num ip, e).
Proof.
  intros Hd Hne Hok Ht He. unfold mv_dec.
  rewrite (take_digits_app ip t Hd (exp_tail_stops t Ht)). rewrite Hok. cbn [negb].
  destruct ip as [|c r]; [congruence|].
  destruct Ht as [->|[r' ->]]; rewrite He; reflexivity.
Qed.

Lemma mv_dec_frac ip fp t e :
  digs ip -> digs fp -> (ip <> [] \/ fp <> []) -> int_part_ok ip = true -> exp_tail t -> exponent_part t = Some e ->
  mv_dec (ip ++ 46 :: fp ++ t) = Some (num (ip ++ fp), e - Z.of_nat (length fp)).
Proof.
  intros Hd Hf Hne Hok Ht He. unfold mv_dec.
  rewrite (take_digits_app ip (46 :: fp ++ t) Hd eq_refl). rewrite Hok. cbn [negb].
  rewrite (take_digits_app fp t Hf (exp_tail_stops t Ht)). rewrite He.
  destruct ip as [|c r]; [|reflexivity]. destruct fp as [|c r]; [|reflexivity].
  destruct Hne; congruence.
Qed.

Lemma mv_is_dec src :
  (forall x h, src = 48 :: x :: h -> x <> 120 /\ x <> 88) -> mv src = mv_dec src.
Proof.
  intros H. unfold mv. destruct src as [|c [|x h]].
  - reflexivity.
  - destruct c as [|p|p]; try reflexivity. do 6 (destruct p as [p|p|]; try reflexivity).
  - destruct (Z.eq_dec c 48) as [->|Hne].
    + destruct (H x h eq_refl) as [H1 H2].
      destruct ((x =? 120) || (x =? 88)) eqn:E; [lia|reflexivity].
    + destruct c as [|p|p]; try reflexivity.
      do 6 (destruct p as [p|p|]; try reflexivity). congruence.
Qed.

Lemma exponent_part_nil : exponent_part [] = Some 0. Proof. reflexivity. Qed.

(* dec_eq basics *)
Lemma dec_eq_refl a : dec_eq a a.
Proof. destruct a as [m e]. unfold dec_eq. reflexivity. Qed.

Lemma dec_eq_shift m k e : 0 <= k -> dec_eq (m, e + k) (m * 10 ^ k, e).
Proof.
  intros H. unfold dec_eq. replace (Z.min (e + k) e) with e by lia.
  replace (e + k - e) with k by lia. replace (e - e) with 0 by lia. cbn. lia.
Qed.

Definition value_preserved (out s : bytes) : Prop :=
  exists a b, mv out = Some a /\ mv s = Some b /\ dec_eq a b.

Lemma repeat_snoc {A} (x : A) k : repeat x k ++ [x] = x :: repeat x k.
Proof. induction k as [|k IH]; [reflexivity|]. cbn [repeat app]. rewrite IH. reflexivity. Qed.
Lemma rev_repeat' {A} (x : A) k : rev (repeat x k) = repeat x k.
Proof. induction k as [|k IH]; [reflexivity|]. cbn [repeat rev]. rewrite IH. apply repeat_snoc. Qed.

Lemma digs_rev l : digs l -> digs (rev l).
Proof. unfold digs. intros H. apply Forall_rev. exact H. Qed.

Lemma mv_dec_digits_first d t :
  digs d -> d <> [] -> (t = [] \/ exists r, t = 101 :: r \/ t = 46 :: r) ->
  mv (d ++ t) = mv_dec (d ++ t).
Proof.
  intros Hd Hne Ht. apply mv_is_dec. intros x h E.
  destruct d as [|c [|c2 r]]; [congruence| |].
  - cbn [app] in E. destruct Ht as [->|[r [->| ->]]]; inversion E; lia.
  - cbn [app] in E. inversion E; subst. inversion Hd as [|? ? _ Hd']; subst.
    inversion Hd' as [|? ? Hx _]; subst. lia.
Qed.

Lemma mv_plain_int ip : digs ip -> ip <> [] -> int_part_ok ip = true -> mv ip = Some (num ip, 0).
Proof.
  intros Hd Hne Hok. rewrite <- (app_nil_r ip) at 1.
  rewrite mv_dec_digits_first by auto.
  apply mv_dec_int; auto. left; reflexivity.
Qed.

Lemma len_bound (l : bytes) : 0 <= len l. Proof. unfold len. lia. Qed.

Lemma int_part_ok_prefix a k : a <> [] -> int_part_ok (a ++ repeat 48 k) = true -> int_part_ok a = true.
Proof.
  intros Hne H. destruct a as [|c [|c2 r]]; [congruence|reflexivity|].
  cbn [app] in H. exact H.
Qed.

Lemma shorten_int mw ip :
  digs ip -> ip <> [] -> int_part_ok ip = true -> Z.of_nat (length ip) < 10 ^ 64 ->
  value_preserved (shorten mw ip) ip.
Proof.
  intros Hd Hne Hok Hlen.
  assert (Hself : value_preserved ip ip).
  { exists (num ip, 0), (num ip, 0). rewrite mv_plain_int by auto. auto using dec_eq_refl. }
  unfold shorten, simplify_exponent.
  rewrite (split_last_none 101 ip) by (apply digs_not_in; [exact Hd|lia]).
  rewrite (split_first_none 46 ip) by (apply digs_not_in; [exact Hd|lia]).
  destruct (last_is_zero ip); [|exact Hself].
  pose proof (span0_spec (rev ip)) as Hsp. destruct (span0 (rev ip)) as [z t].
  destruct Hsp as [E1 [E2 E3]].
  remember (length z) as k eqn:Ek.
  assert (Eip : ip = rev t ++ repeat 48 k).
  { rewrite <- (rev_involutive ip), E1, rev_app_distr, E2, rev_repeat'. reflexivity. }
  destruct (len (rev t) + 1 + len (smallIntToBytes (len z)) <? len ip) eqn:Ec; [|exact Hself].
  assert (Hk : len z = Z.of_nat k) by (unfold len; rewrite Ek; reflexivity).
  assert (Hkb : 0 <= Z.of_nat k < 10 ^ 64).
  { split; [lia|]. rewrite Eip, app_length, repeat_length in Hlen. lia. }
  assert (Hdt : digs (rev t)).
  { rewrite Eip in Hd. apply digs_app in Hd. tauto. }
  destruct (small_digs (Z.of_nat k) Hkb) as [Hs1 Hs2].
  assert (Hrt : rev t <> []).
  { intros Hnil. rewrite Hnil in *. cbn [app] in Eip.
    destruct k as [|[|k']].
    - cbn in Eip. congruence.
    - rewrite Eip in Ec. unfold len in Ec. cbn [length repeat] in Ec.
      destruct (smallIntToBytes (Z.of_nat (length z))); cbn [length] in Ec; lia.
    - rewrite Eip in Hok. cbn in Hok. discriminate. }
  rewrite Hk.
  exists (num (rev t), Z.of_nat k), (num ip, 0). split; [|split].
  - cbn [app]. rewrite mv_dec_digits_first; [|exact Hdt|exact Hrt|right; eexists; left; reflexivity].
    apply mv_dec_int; [exact Hdt|exact Hrt| |right; eexists; reflexivity|apply exponent_part_small; lia].
    apply (int_part_ok_prefix _ k Hrt). rewrite <- Eip. exact Hok.
  - apply mv_plain_int; auto.
  - rewrite Eip at 1. rewrite num_app, num_zeros, repeat_length.
    replace (num (rev t) * 10 ^ Z.of_nat k + 0) with (num (rev t) * 10 ^ Z.of_nat k) by lia.
    apply (dec_eq_shift (num (rev t)) (Z.of_nat k) 0). lia.
Qed.

(* ---- mantissa with a dot and an exponent: "1.2e+24" => "12e23", "1.5e-07" => "15e-8", "1.2e+01" => "12" ---- *)
Inductive sign := SgNone | SgPlus | SgMinus.
Definition sign_bytes (s : sign) : bytes := match s with SgNone => [] | SgPlus => [43] | SgMinus => [45] end.
Definition sign_val (s : sign) (v : Z) : Z := match s with SgMinus => - v | _ => v end.
Definition norm_sign_bytes (s : sign) : bytes := match s with SgMinus => [45] | _ => [] end.

Lemma first_digit_match (c : Z) (r : bytes) :
  48 <= c <= 57 ->
  match c :: r with 43 :: t => (false, t) | 45 :: t => (true, t) | _ => (false, c :: r) end = (false, c :: r).
Proof.
  intros Hc. destruct c as [|p|p]; try reflexivity. do 6 (destruct p as [p|p|]; try reflexivity); lia.
Qed.

Lemma exponent_part_sign sg ex : digs ex -> ex <> [] ->
  exponent_part (101 :: sign_bytes sg ++ ex) = Some (sign_val sg (num ex)).
Proof.
  intros Hd Hne. unfold exponent_part.
  replace ((101 =? 101) || (101 =? 69)) with true by reflexivity.
  destruct ex as [|c r]; [congruence|].
  assert (Hc : 48 <= c <= 57) by (inversion Hd; assumption).
  destruct sg; cbn [sign_bytes app sign_val].
  - rewrite (first_digit_match c r Hc). rewrite (take_digits_all _ Hd). reflexivity.
  - cbn beta iota. rewrite (take_digits_all _ Hd). reflexivity.
  - cbn beta iota. rewrite (take_digits_all _ Hd). reflexivity.
Qed.

Lemma exponent_part_norm sg ex : digs ex -> ex <> [] ->
  exponent_part (101 :: norm_sign_bytes sg ++ ex) = Some (sign_val sg (num ex)).
Proof.
  intros Hd Hne. destruct sg.
  - apply (exponent_part_sign SgNone ex Hd Hne).
  - apply (exponent_part_sign SgNone ex Hd Hne).
  - apply (exponent_part_sign SgMinus ex Hd Hne).
Qed.

Lemma parseSmallInt_norm sg ex : digs ex -> ex <> [] ->
  parseSmallInt (norm_sign_bytes sg ++ ex) = sign_val sg (num ex).
Proof.
  intros Hd Hne. unfold parseSmallInt.
  destruct ex as [|c r]; [congruence|].
  assert (Hc : 48 <= c <= 57) by (inversion Hd; assumption).
  assert (Hm : match c :: r with 45 :: r0 => - parse_nat r0 0 | _ => parse_nat (c :: r) 0 end = parse_nat (c :: r) 0).
  { destruct c as [|p|p]; try reflexivity. do 6 (destruct p as [p|p|]; try reflexivity); lia. }
  destruct sg; cbn [norm_sign_bytes app sign_val].
  - rewrite Hm. apply parse_nat_dv.
  - rewrite Hm. apply parse_nat_dv.
  - rewrite parse_nat_dv. reflexivity.
Qed.

Lemma sign_not_101 sg ex : digs ex -> ~ In 101 (sign_bytes sg ++ ex).
Proof.
  intros Hd Hin. apply in_app_or in Hin as [Hin|Hin].
  - destruct sg; cbn in Hin; lia.
  - revert Hin. apply digs_not_in; [exact Hd|lia].
Qed.
Lemma nsign_not_101 sg ex : digs ex -> ~ In 101 (norm_sign_bytes sg ++ ex).
Proof.
  intros Hd Hin. apply in_app_or in Hin as [Hin|Hin].
  - destruct sg; cbn in Hin; lia.
  - revert Hin. apply digs_not_in; [exact Hd|lia].
Qed.

Lemma simplify_exponent_form m sg ex :
  digs ex ->
  simplify_exponent (m ++ 101 :: sign_bytes sg ++ ex) = m ++ 101 :: norm_sign_bytes sg ++ strip0 ex.
Proof.
  intros Hd. unfold simplify_exponent.
  rewrite (split_last_app 101 m (sign_bytes sg ++ ex)) by (apply sign_not_101; exact Hd).
  destruct sg; cbn [sign_bytes norm_sign_bytes app]; try reflexivity.
  destruct ex as [|c r]; [reflexivity|].
  assert (Hc : 48 <= c <= 57) by (inversion Hd; assumption).
  destruct c as [|p|p]; try reflexivity. do 6 (destruct p as [p|p|]; try reflexivity); lia.
Qed.

Lemma int_ok_first ip : ip <> [] -> int_part_ok ip = true -> zlist_eqb ip [48] = false ->
  forall t, int_part_ok (ip ++ t) = true.
Proof.
  intros Hne Hok H48 t. destruct ip as [|c [|c2 r]]; [congruence| |exact Hok].
  cbn [app]. destruct t as [|x t']; [reflexivity|].
  cbn [int_part_ok]. cbn in H48. destruct (c =? 48) eqn:E; [discriminate|reflexivity].
Qed.

Lemma shorten_dot_exp mw ip fp sg ex :
  digs ip -> ip <> [] -> int_part_ok ip = true -> zlist_eqb ip [48] = false ->
  digs fp -> digs ex -> num ex <> 0 -> num ex < 10 ^ 60 -> Z.of_nat (length fp) < 10 ^ 60 ->
  let s := ip ++ 46 :: fp ++ 101 :: sign_bytes sg ++ ex in
  value_preserved (shorten mw s) s.
Proof.
  intros Hip Hne Hok H48 Hfp Hex Hnz Hexb Hfpb s.
  destruct (strip0_spec ex) as [j [Ej Es]].
  set (ex' := strip0 ex) in *.
  assert (Hex' : digs ex') by (rewrite Ej in Hex; apply digs_app in Hex; tauto).
  assert (Hnum : num ex = num ex') by (rewrite Ej at 1; apply num_lead_zeros).
  assert (Hne' : ex' <> []) by (intros E; rewrite E in Hnum; cbn in Hnum; congruence).
  assert (Hexne : ex <> []) by (intros E; rewrite E in Hnz; cbn in Hnz; congruence).
  pose proof (num_nonneg ex Hex) as Hnn.
  set (E := sign_val sg (num ex)).
  assert (HEb : - 10 ^ 60 < E < 10 ^ 60) by (unfold E; destruct sg; cbn [sign_val]; lia).
  (* value of the input *)
  assert (Hs : mv s = Some (num (ip ++ fp), E - Z.of_nat (length fp))).
  { unfold s. rewrite mv_dec_digits_first; [|exact Hip|exact Hne|right; eexists; right; reflexivity].
    apply mv_dec_frac; auto. right; eexists; reflexivity. apply exponent_part_sign; auto. }
  (* the simplified text and its value *)
  set (res := ip ++ 46 :: fp ++ 101 :: norm_sign_bytes sg ++ ex').
  assert (Hres : simplify_exponent s = res).
  { unfold s, res. replace (ip ++ 46 :: fp ++ 101 :: sign_bytes sg ++ ex)
      with ((ip ++ 46 :: fp) ++ 101 :: sign_bytes sg ++ ex) by (rewrite <- app_assoc; reflexivity).
    rewrite simplify_exponent_form by exact Hex. rewrite <- app_assoc. reflexivity. }
  assert (Hresv : value_preserved res s).
  { exists (num (ip ++ fp), E - Z.of_nat (length fp)), (num (ip ++ fp), E - Z.of_nat (length fp)).
    split; [|split; [exact Hs|apply dec_eq_refl]].
    unfold res. rewrite mv_dec_digits_first; [|exact Hip|exact Hne|right; eexists; right; reflexivity].
    apply mv_dec_frac; auto. right; eexists; reflexivity.
    unfold E. rewrite Hnum. apply exponent_part_norm; auto. }
  unfold shorten. rewrite Hres. unfold res.
  rewrite (split_first_app 46 ip) by (apply digs_not_in; [exact Hip|lia]).
  rewrite H48.
  rewrite (split_last_app 101 fp) by (apply nsign_not_101; exact Hex').
  rewrite parseSmallInt_norm by auto. rewrite <- Hnum. fold E.
  fold res.
  set (x := E - len fp).
  assert (Hx : x = E - Z.of_nat (length fp)) by reflexivity.
  destruct ((0 <=? x) && (x <=? 2)) eqn:Ex.
  - destruct (len ip + len fp + x <=? len res); [|exact Hresv].
    exists (num (ip ++ fp ++ repeat 48 (Z.to_nat x)), 0), (num (ip ++ fp), E - Z.of_nat (length fp)).
    split; [|split; [exact Hs|]].
    + apply mv_plain_int.
      * apply digs_app; split; [exact Hip|]. apply digs_app; split; [exact Hfp|apply digs_repeat].
      * destruct ip; [congruence|discriminate].
      * apply int_ok_first; auto.
    + rewrite app_assoc, num_app, num_zeros, repeat_length.
      replace (num (ip ++ fp) * 10 ^ Z.of_nat (Z.to_nat x) + 0) with (num (ip ++ fp) * 10 ^ x) by (rewrite Z2Nat.id by lia; lia).
      rewrite <- Hx.
      pose proof (dec_eq_shift (num (ip ++ fp)) x 0 ltac:(lia)) as D.
      unfold dec_eq in *. replace (0 + x) with x in D by lia.
      replace (Z.min (0) x) with 0 by lia. replace (Z.min x 0) with 0 in D by lia. lia.
  - destruct (len ip + len fp + 1 + len (smallIntToBytes x) <=? len res); [|exact Hresv].
    exists (num (ip ++ fp), x), (num (ip ++ fp), E - Z.of_nat (length fp)).
    split; [|split; [exact Hs|rewrite Hx; apply dec_eq_refl]].
    rewrite app_assoc. cbn [app].
    rewrite mv_dec_digits_first.
    + apply mv_dec_int.
      * apply digs_app; split; assumption.
      * destruct ip; [congruence|discriminate].
      * apply int_ok_first; auto.
      * right; eexists; reflexivity.
      * apply exponent_part_small. unfold x, len. lia.
    + apply digs_app; split; assumption.
    + destruct ip; [congruence|discriminate].
    + right; eexists; left; reflexivity.
Qed.

(* ---- the hex path: "0x" ++ FormatUint(v, 16) denotes exactly v ---- *)
Lemma hexdig_hexl d : 0 <= d < 16 -> hexdig (hexl d) = Some d.
Proof.
  intros H. unfold hexl, hexdig. destruct (d <? 10) eqn:E.
  - replace ((48 <=? 48 + d) && (48 + d <=? 57)) with true by lia. f_equal; lia.
  - replace ((48 <=? 87 + d) && (87 + d <=? 57)) with false by lia.
    replace ((97 <=? 87 + d) && (87 + d <=? 102)) with true by lia. f_equal; lia.
Qed.

Lemma hex_value_app x y a :
  hex_value (x ++ y) a = match hex_value x a with Some v => hex_value y v | None => None end.
Proof.
  revert a. induction x as [|c r IH]; intros a; cbn [app hex_value]; [reflexivity|].
  destruct (hexdig c); [apply IH|reflexivity].
Qed.

Lemma hex_fuel_spec : forall fuel n acc,
  (0 < fuel)%nat -> 0 <= n < 16 ^ Z.of_nat fuel ->
  exists D, hex_fuel fuel n acc = D ++ acc /\ D <> [] /\
            forall a, hex_value D a = Some (a * 16 ^ Z.of_nat (length D) + n).
Proof.
  induction fuel as [|f IH]; intros n acc Hf Hn; [lia|].
  cbn [hex_fuel]. destruct (n / 16 =? 0) eqn:E.
  - exists [hexl (n mod 16)]. repeat split; [discriminate|].
    intros a. cbn [hex_value length]. rewrite hexdig_hexl by lia. f_equal. cbn. lia.
  - assert (Hf' : (0 < f)%nat).
    { destruct f; [|lia]. cbn in Hn. lia. }
    destruct (IH (n / 16) (hexl (n mod 16) :: acc) Hf') as [D [E1 [E2 E3]]].
    { rewrite Nat2Z.inj_succ, Z.pow_succ_r in Hn by lia. lia. }
    exists (D ++ [hexl (n mod 16)]). repeat split.
    + rewrite E1, <- app_assoc. reflexivity.
    + destruct D; discriminate.
    + intros a. rewrite hex_value_app, E3. cbn [hex_value]. rewrite hexdig_hexl by lia.
      f_equal. rewrite app_length. cbn [length]. rewrite Nat2Z.inj_add, Z.pow_add_r by lia. cbn. lia.
Qed.

Lemma hex_literal_value v : 0 <= v < 16 ^ 64 -> mv ([48; 120] ++ to_hex v) = Some (v, 0).
Proof.
  intros H. unfold to_hex.
  destruct (hex_fuel_spec 64 v [] ltac:(lia) H) as [D [E1 [E2 E3]]].
  rewrite E1, app_nil_r. cbn [app]. unfold mv.
  replace ((120 =? 120) || (120 =? 88)) with true by reflexivity.
  destruct D as [|c r]; [congruence|]. rewrite E3.
  replace (0 * 16 ^ Z.of_nat (length (c :: r)) + v) with v by lia. reflexivity.
Qed.

(* small-integer fast path: smallIntToBytes v denotes v *)
Lemma digits_fuel_lead : forall fuel n acc,
  (0 < fuel)%nat -> 0 < n < 10 ^ Z.of_nat fuel ->
  exists c D', digits_fuel fuel n acc = c :: D' ++ acc /\ c <> 48.
Proof.
  induction fuel as [|f IH]; intros n acc Hf Hn; [lia|].
  cbn [digits_fuel]. destruct (n / 10 =? 0) eqn:E.
  - exists (48 + n mod 10), []. split; [reflexivity|lia].
  - assert (Hf' : (0 < f)%nat) by (destruct f; [cbn in Hn; lia|lia]).
    destruct (IH (n / 10) ((48 + n mod 10) :: acc) Hf') as [c [D' [E1 E2]]].
    { rewrite Nat2Z.inj_succ, Z.pow_succ_r in Hn by lia. lia. }
    exists c, (D' ++ [48 + n mod 10]). split; [|exact E2].
    rewrite E1, <- app_assoc. reflexivity.
Qed.

Lemma small_int_value v : 0 <= v < 10 ^ 64 -> mv (smallIntToBytes v) = Some (v, 0).
Proof.
  intros H. unfold smallIntToBytes. replace (v <? 0) with false by lia.
  destruct (nat_digits_spec v H) as [D1 [D2 D3]].
  assert (Hok : int_part_ok (nat_digits v) = true).
  { destruct (Z.eq_dec v 0) as [->|Hnz]; [reflexivity|].
    unfold nat_digits. destruct (digits_fuel_lead 64 v [] ltac:(lia) ltac:(lia)) as [c [D' [E1 E2]]].
    rewrite E1. destruct (D' ++ []); [reflexivity|]. cbn [int_part_ok].
    destruct (c =? 48) eqn:E; [lia|reflexivity]. }
  rewrite mv_plain_int; auto. rewrite D3. reflexivity.
Qed.

(* "123.456": no exponent, integer part not "0": unchanged *)
Lemma shorten_dot_plain mw ip fp :
  digs ip -> ip <> [] -> int_part_ok ip = true -> zlist_eqb ip [48] = false -> digs fp ->
  let s := ip ++ 46 :: fp in value_preserved (shorten mw s) s.
Proof.
  intros Hip Hne Hok H48 Hfp s.
  assert (Hn101 : ~ In 101 s).
  { unfold s. intros Hin. apply in_app_or in Hin as [Hin|[Hin|Hin]]; [|lia|].
    - revert Hin. apply digs_not_in; [exact Hip|lia].
    - revert Hin. apply digs_not_in; [exact Hfp|lia]. }
  unfold shorten, simplify_exponent. rewrite (split_last_none 101 s Hn101).
  unfold s. rewrite (split_first_app 46 ip) by (apply digs_not_in; [exact Hip|lia]).
  rewrite H48. rewrite (split_last_none 101 fp) by (apply digs_not_in; [exact Hfp|lia]).
  exists (num (ip ++ fp), 0 - Z.of_nat (length fp)), (num (ip ++ fp), 0 - Z.of_nat (length fp)).
  assert (E : mv (ip ++ 46 :: fp) = Some (num (ip ++ fp), 0 - Z.of_nat (length fp))).
  { rewrite mv_dec_digits_first; [|exact Hip|exact Hne|right; eexists; right; reflexivity].
    rewrite <- (app_nil_r fp) at 1. apply mv_dec_frac; auto. left; reflexivity. }
  split; [exact E|split; [exact E|apply dec_eq_refl]].
Qed.

Lemma float_int_nonneg bits v : 0 <= bits -> float_int bits = Some v -> 0 <= v.
Proof.
  intros Hb. unfold float_int.
  assert (Hm : 0 <= bits mod 4503599627370496) by (apply Z.mod_pos_bound; reflexivity).
  generalize dependent (bits mod 4503599627370496). intros m Hm.
  generalize ((bits / 4503599627370496) mod 2048). intros e.
  clear Hb bits.
  destruct (e =? 0). { destruct (m =? 0); intros E; inversion E; subst. apply Z.le_refl. }
  destruct (e =? 2047); [discriminate|].
  assert (HM : 0 <= 4503599627370496 + m).
  { apply Z.add_nonneg_nonneg; [discriminate|exact Hm]. }
  generalize dependent (4503599627370496 + m). intros M HM.
  destruct (0 <=? e - 1075).
  - intros E; inversion E; subst. apply Z.mul_nonneg_nonneg; [exact HM|]. apply Z.pow_nonneg. discriminate.
  - destruct (M mod 2 ^ (- (e - 1075)) =? 0); [|discriminate]. intros E; inversion E; subst.
    destruct (Z.le_gt_cases (- (e - 1075)) (-1)) as [Hneg|Hpos].
    + rewrite Z.pow_neg_r by lia. rewrite Zdiv_0_r. apply Z.le_refl.
    + apply Z.div_pos; [exact HM|]. apply Z.pow_pos_nonneg; [reflexivity|lia].
Qed.

(* the shapes of FormatFloat's text covered by the value theorem *)
Definition form_int (s : bytes) : Prop :=
  digs s /\ s <> [] /\ int_part_ok s = true /\ Z.of_nat (length s) < 10 ^ 64.
Definition form_dot (s : bytes) : Prop :=
  exists ip fp, s = ip ++ 46 :: fp /\ digs ip /\ ip <> [] /\ int_part_ok ip = true /\
                zlist_eqb ip [48] = false /\ digs fp.
Definition form_dot_exp (s : bytes) : Prop :=
  exists ip fp sg ex, s = ip ++ 46 :: fp ++ 101 :: sign_bytes sg ++ ex /\
    digs ip /\ ip <> [] /\ int_part_ok ip = true /\ zlist_eqb ip [48] = false /\
    digs fp /\ digs ex /\ num ex <> 0 /\ num ex < 10 ^ 60 /\ Z.of_nat (length fp) < 10 ^ 60.

Lemma shorten_value_forms mw s :
  form_int s \/ form_dot s \/ form_dot_exp s -> value_preserved (shorten mw s) s.
Proof.
  intros [[H1 [H2 [H3 H4]]]|[[ip [fp [-> [H1 [H2 [H3 [H4 H5]]]]]]]|[ip [fp [sg [ex [-> [H1 [H2 [H3 [H4 [H5 [H6 [H7 [H8 H9]]]]]]]]]]]]]]].
  - apply shorten_int; auto.
  - apply shorten_dot_plain; auto.
  - apply shorten_dot_exp; auto.
Qed.

Lemma print_float_value mw bits s :
  0 <= bits -> form_int s \/ form_dot s \/ form_dot_exp s ->
  let out := fst (printNonNegativeFloat mw bits s) in
  value_preserved out s \/ exists v, float_int bits = Some v /\ mv out = Some (v, 0).
Proof.
  intros Hb Hf. unfold printNonNegativeFloat.
  destruct (float_int bits) as [v|] eqn:Ev.
  - pose proof (float_int_nonneg bits v Hb Ev) as Hv.
    destruct (v <? 1000) eqn:E1.
    + right. exists v. split; [reflexivity|]. cbn [fst]. apply small_int_value. lia.
    + cbn [fst].
      destruct (mw && (1000000000000 <=? v) && (v <=? 18446744073709549568)) eqn:E2.
      * destruct (2 + len (to_hex v) <? len (shorten mw s)).
        -- right. exists v. split; [reflexivity|]. apply hex_literal_value. lia.
        -- left. apply shorten_value_forms. exact Hf.
      * left. apply shorten_value_forms. exact Hf.
  - cbn [fst]. left. apply shorten_value_forms. exact Hf.
Qed.
