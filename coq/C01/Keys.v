(* C01 model: property keys and member names.
     /repo/internal/js_ast/js_ident.go  IsIdentifierStartES5AndESNext,
        IsIdentifierContinueES5AndESNext, IsIdentifierES5AndESNextUTF16,
        IsIdentifierES5AndESNext (over runes)
     /repo/internal/helpers/utf.go      ContainsNonBMPCodePointUTF16 / ContainsNonBMPCodePoint
     /repo/internal/js_printer/js_printer.go  canPrintIdentifierUTF16 / canPrintIdentifier,
        the string-key branch of printProperty (l.1252: identifier or quoted),
        the name branch of EDot in printExpr (l.2583: ".name" or ["name"]).
   The Unicode tables are REGENERATED from internal/js_ast/unicode.go by the
   translator gen/cmd/t9idtables (V.gen.IdTablesGen).  Executable definitions only. *)
From V Require Import Common.Base C01.Utf C01.Quote.
From V Require Import gen.IdTablesGen.

(* unicode.Is(table, cp) *)
Definition in_table (tbl : list (Z * Z * Z)) (cp : Z) : bool :=
  existsb (fun t => let '(lo, hi, st) := t in (lo <=? cp) && (cp <=? hi) && ((cp - lo) mod st =? 0)) tbl.

Definition ascii_letter (c : Z) : bool := ((97 <=? c) && (c <=? 122)) || ((65 <=? c) && (c <=? 90)).
Definition ascii_digit (c : Z) : bool := (48 <=? c) && (c <=? 57).

Definition is_id_start (cp : Z) : bool :=
  if (cp =? 95) || (cp =? 36) || ascii_letter cp then true
  else if cp <? 127 then false
  else in_table id_start_es5_and_esnext cp.
Definition is_id_continue (cp : Z) : bool :=
  if (cp =? 95) || (cp =? 36) || ascii_digit cp || ascii_letter cp then true
  else if cp <? 127 then false
  else if (cp =? 8204) || (cp =? 8205) then true       (* ZWNJ and ZWJ *)
  else in_table id_continue_es5_and_esnext cp.

(* the loop of IsIdentifierES5AndESNextUTF16 from index i (is_start = (i == 0)) *)
Fixpoint ident_rest (is_start : bool) (text : list Z) {struct text} : bool :=
  match text with
  | [] => true
  | r1 :: rest =>
      let test (cp : Z) := if is_start then is_id_start cp else is_id_continue cp in
      match rest with
      | r2 :: rest' =>
          if is_high r1 && is_low r2 then test (combine_add r1 r2) && ident_rest false rest'
          else test r1 && ident_rest false rest
      | [] => test r1
      end
  end.
Definition IsIdentifierES5AndESNextUTF16 (text : list Z) : bool :=
  match text with [] => false | _ => ident_rest true text end.

Fixpoint ContainsNonBMPCodePointUTF16 (text : list Z) : bool :=
  match text with
  | c :: ((c2 :: _) as rest) => (is_high c && is_low c2) || ContainsNonBMPCodePointUTF16 rest
  | _ => false
  end.

Definition can_print_identifier_utf16 (cfg : qcfg) (name : list Z) : bool :=
  IsIdentifierES5AndESNextUTF16 name &&
  (negb (ascii_only cfg) || uni_esc cfg || negb (ContainsNonBMPCodePointUTF16 name)).

(* printProperty, string key: bytes printed for the key (None = the panic of
   printIdentifierUTF16, shown unreachable in KeysProofs.v) *)
Definition print_string_key (cfg : qcfg) (prefer_quoted : bool) (key : list Z) : option bytes :=
  if negb prefer_quoted && can_print_identifier_utf16 cfg key
  then print_identifier_utf16 cfg key
  else Some (print_quoted cfg false false [] key).

(* over runes (Go strings): IsIdentifierES5AndESNext, canPrintIdentifier, EDot *)
Fixpoint ident_rest_runes (is_start : bool) (rs : list Z) : bool :=
  match rs with
  | [] => true
  | c :: r => (if is_start then is_id_start c else is_id_continue c) && ident_rest_runes false r
  end.
Definition IsIdentifierES5AndESNext (rs : list Z) : bool :=
  match rs with [] => false | _ => ident_rest_runes true rs end.
Definition can_print_identifier (cfg : qcfg) (rs : list Z) : bool :=
  IsIdentifierES5AndESNext rs &&
  (negb (ascii_only cfg) || uni_esc cfg || negb (existsb (fun c => 65535 <? c) rs)).
(* printIdentifier(name): QuoteIdentifier under ASCII, the bytes themselves otherwise *)
Definition print_identifier_runes (cfg : qcfg) (rs : list Z) : option bytes :=
  if ascii_only cfg then option_map to_bytes (quote_ident_cps cfg rs) else Some (to_bytes rs).
(* the member-name part of `target.name`: ".name" or ["name"] *)
Definition print_dot_name (cfg : qcfg) (linelen : Z) (rs : list Z) : option bytes :=
  if can_print_identifier cfg rs
  then option_map (cons 46) (print_identifier_runes cfg rs)
  else Some ([91] ++ to_bytes (print_quoted_cps cfg true false (linelen + 1) (flat_map rune_units rs)) ++ [93]).
