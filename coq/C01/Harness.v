(* Checkers evaluated by the correspondence run: each returns the indices of
   the cases on which the model and the implementation's observed output
   differ (check_x) or on which the specification-side predicate fails on the
   observed output (check_x_spec). *)
From V Require Import Common.Base C01.Utf C01.Quote C01.SpecLiteral.

Fixpoint mism_from {A} (f : A -> bool) (l : list A) (i : nat) : list nat :=
  match l with
  | [] => []
  | x :: r => if f x then mism_from f r (S i) else i :: mism_from f r (S i)
  end.
Definition mismatches {A} (f : A -> bool) (l : list A) : list nat := mism_from f l 0.

Definition value_is (v : option (list Z)) (u : list Z) : bool :=
  match v with Some l => zlist_eqb l u | None => false end.
Definition all_ascii (b : bytes) : bool := forallb (fun x => (0 <=? x) && (x <? 128)) b.

(* printQuotedUTF16: (cfg, allowBacktick, noWrap, prefix, units, Go bytes) *)
Definition quoted_ok (c : qcfg * bool * bool * bytes * list Z * bytes) : bool :=
  let '(cfg, abt, nw, prefix, text, gb) := c in zlist_eqb (print_quoted cfg abt nw prefix text) gb.
Definition check_quoted := mismatches quoted_ok.
Definition quoted_spec_ok (c : qcfg * bool * bool * bytes * list Z * bytes) : bool :=
  let '(cfg, abt, nw, prefix, text, gb) := c in
  value_is (literal_value gb) text && (if ascii_only cfg then all_ascii gb else true).
Definition check_quoted_spec := mismatches quoted_spec_ok.

(* printUnquotedUTF16: (cfg, quote, noWrap, prefix, units, Go bytes) *)
Definition unquoted_ok (c : qcfg * Z * bool * bytes * list Z * bytes) : bool :=
  let '(cfg, q, nw, prefix, text, gb) := c in zlist_eqb (print_unquoted cfg q nw prefix text) gb.
Definition check_unquoted := mismatches unquoted_ok.
Definition unquoted_spec_ok (c : qcfg * Z * bool * bytes * list Z * bytes) : bool :=
  let '(cfg, q, nw, prefix, text, gb) := c in
  value_is (literal_value (q :: gb ++ [q])) text && (if ascii_only cfg then all_ascii gb else true).
Definition check_unquoted_spec := mismatches unquoted_spec_ok.

(* printIdentifierUTF16: (cfg, units, returned normally?, Go bytes) *)
Definition ident_ok (c : qcfg * list Z * bool * bytes) : bool :=
  let '(cfg, name, ok, gb) := c in
  match print_identifier_utf16 cfg name with
  | Some b => ok && zlist_eqb b gb
  | None => negb ok
  end.
Definition check_ident := mismatches ident_ok.
Definition ident_spec_ok (c : qcfg * list Z * bool * bytes) : bool :=
  let '(cfg, name, ok, gb) := c in
  if ok then value_is (ident_value gb) name && (if ascii_only cfg then all_ascii gb else true) else true.
Definition check_ident_spec := mismatches ident_spec_ok.

(* ---- numbers ---- *)
From V Require Import C01.Num C01.SpecNumeric C01.NumProofs C01.NumProofs2.

(* printNonNegativeFloat: (minifyWhitespace, float64 bits, FormatFloat text, Go bytes, Go flag) *)
Definition number_ok (c : bool * Z * bytes * bytes * bool) : bool :=
  let '(mw, bits, s, gb, gflag) := c in
  let '(mb, mflag) := printNonNegativeFloat mw bits s in
  zlist_eqb mb gb && Bool.eqb mflag gflag.
Definition check_number := mismatches number_ok.

(* specification side: the printed text is a NumericLiteral whose MV is the MV
   of FormatFloat's text, or (hex / small integer path) exactly the float's
   integer value; and the flag is set iff the text is a bare run of digits *)
Definition number_spec_ok (c : bool * Z * bytes * bytes * bool) : bool :=
  let '(mw, bits, s, gb, gflag) := c in
  match mv gb, mv s with
  | Some a, Some b =>
      (dec_eqb a b || match float_int bits with Some v => dec_eqb a (v, 0) | None => false end)
      && Bool.eqb gflag (forallb dig gb)
      && float_text_b s       (* the text strconv produced has the shape the value theorem assumes *)
  | _, _ => false
  end.
Definition check_number_spec := mismatches number_spec_ok.

(* printNumber: (mw, minifySyntax, level, withNesting, prefix, bits, FormatFloat |v|, Go bytes) *)
Definition printnumber_ok (c : bool * bool * Z * Z * bytes * Z * bytes * bytes) : bool :=
  let '(mw, ms, level, wn, prefix, bits, s, gb) := c in
  zlist_eqb (print_number mw ms level wn prefix bits s) gb.
Definition check_printnumber := mismatches printnumber_ok.

(* ---- glue through api.Transform ---- *)
(* (source literal bytes, literal cut out of the output, units the generator meant) *)
Definition glue_string_ok (c : bytes * bytes * list Z) : bool :=
  let '(src, out, u) := c in value_is (literal_value src) u && value_is (literal_value out) u.
Definition check_glue_string := mismatches glue_string_ok.

(* does the decimal m*10^e round to the float64 with these bits (round to
   nearest, ties to even)?  exact integer arithmetic: with the float
   F = M*2^x, its neighbours' midpoints are (2M-1)*2^(x-1) and (2M+1)*2^(x-1)
   (for the smallest normal M the lower neighbour is half as far). *)
Definition rounds_to (bits : Z) (me : Z * Z) : bool :=
  let '(m, e) := me in
  let '(M, x) := float_mx bits in
  (* compare m*10^e with lo = (4M - d)*2^(x-2), hi = (4M+2)*2^(x-2) *)
  let d := if (M =? 4503599627370496) && negb (x =? -1074) then 1 else 2 in
  let s2 := Z.min (x - 2) 0 in let s10 := Z.min e 0 in
  (* scale everything by 2^(-s2) * 10^(-s10) *)
  let v := m * 10 ^ (e - s10) * 2 ^ (- s2) in
  let lo := (4 * M - d) * 2 ^ (x - 2 - s2) * 10 ^ (- s10) in
  let hi := (4 * M + 2) * 2 ^ (x - 2 - s2) * 10 ^ (- s10) in
  let even := Z.even M in
  (if even then (lo <=? v) && (v <=? hi) else (lo <? v) && (v <? hi)).

(* (float64 bits of the input's value, literal cut out of the output) *)
Definition glue_number_ok (c : Z * bytes) : bool :=
  let '(bits, out) := c in
  match mv out with Some me => rounds_to bits me | None => false end.
Definition check_glue_number := mismatches glue_number_ok.

(* ---- helpers/utf.go ---- *)
(* (units, helpers.UTF16ToString(units), helpers.StringToUTF16 of that) *)
Definition utf_ok (c : list Z * bytes * list Z) : bool :=
  let '(u, w, back) := c in
  zlist_eqb (UTF16ToString u) w && zlist_eqb (StringToUTF16 w) back
  && value_is (wtf8_to_utf16 (S (length w)) w) u.
Definition check_utf := mismatches utf_ok.
(* (bytes, rune, width) of helpers.DecodeWTF8Rune *)
Definition wtf8rune_ok (c : bytes * Z * Z) : bool :=
  let '(b, r, w) := c in let '(mr, mw) := DecodeWTF8Rune b in (mr =? r) && (mw =? w).
Definition check_wtf8rune := mismatches wtf8rune_ok.

(* ---- property keys and member names ---- *)
From V Require Import C01.Keys.
(* (cfg, units, Go canPrintIdentifierUTF16) *)
Definition canprint_ok (c : qcfg * list Z * bool) : bool :=
  let '(cfg, u, g) := c in Bool.eqb (can_print_identifier_utf16 cfg u) g.
Definition check_canprint := mismatches canprint_ok.
(* printProperty string key: (cfg, preferQuoted, units, Go key bytes) *)
Definition strkey_ok (c : qcfg * bool * list Z * bytes) : bool :=
  let '(cfg, pq, u, gb) := c in
  match print_string_key cfg pq u with Some b => zlist_eqb b gb | None => false end.
Definition check_strkey := mismatches strkey_ok.
(* specification side: the printed key denotes the same property key *)
Definition strkey_spec_ok (c : qcfg * bool * list Z * bytes) : bool :=
  let '(cfg, pq, u, gb) := c in value_is (key_value gb) u.
Definition check_strkey_spec := mismatches strkey_spec_ok.
(* EDot: (cfg, runes of the name, Go bytes after the target) *)
Definition dot_ok (c : qcfg * list Z * bytes) : bool :=
  let '(cfg, rs, gb) := c in
  match print_dot_name cfg 4 rs with Some b => zlist_eqb b gb | None => false end.
Definition check_dot := mismatches dot_ok.

(* ---- templates with substitutions, BigInt, regexp ---- *)
From V Require Import C01.Template.
(* (cfg, prefix, head units, tail units list, Go bytes after the prefix) *)
Definition template_ok (c : qcfg * bytes * list Z * list (list Z) * bytes) : bool :=
  let '(cfg, prefix, head, tails, gb) := c in zlist_eqb (print_template cfg prefix head tails) gb.
Definition check_template := mismatches template_ok.
(* specification side: the code points the model printed (which rendered to the
   observed bytes) split into exactly the cooked chunks *)
Definition template_spec_ok (c : qcfg * bytes * list Z * list (list Z) * bytes) : bool :=
  let '(cfg, prefix, head, tails, gb) := c in
  match template_value (template_cps cfg prefix head tails) with
  | Some chunks => list_eqb zlist_eqb chunks (head :: tails)
  | None => false
  end.
Definition check_template_spec := mismatches template_spec_ok.
(* (prefix, value text, Go bytes after the prefix) *)
Definition bigint_ok (c : bytes * bytes * bytes) : bool :=
  let '(prefix, v, gb) := c in zlist_eqb (print_bigint prefix v) gb.
Definition check_bigint := mismatches bigint_ok.
(* (cfg, prefix, value text, Go bytes after the prefix) *)
Definition regexp_ok (c : qcfg * bytes * bytes * bytes) : bool :=
  let '(cfg, prefix, v, gb) := c in zlist_eqb (print_regexp cfg prefix v) gb.
Definition check_regexp := mismatches regexp_ok.

(* ---- tagged templates ---- *)
From V Require Import C01.Tagged C01.TaggedProofs.
(* (head raw bytes, tail raw bytes list, Go bytes after the tag) *)
Definition tagged_ok (c : bytes * list bytes * bytes) : bool :=
  let '(h, ts, gb) := c in zlist_eqb (print_tagged h ts) gb.
Definition check_tagged := mismatches tagged_ok.
(* specification side: the raw strings (TRV) of what was printed are the stored raw strings *)
Fixpoint decode_all (l : list bytes) : option (list (list Z)) :=
  match l with
  | [] => Some []
  | b :: r => match utf8_decode b, decode_all r with Some c, Some cs => Some (c :: cs) | _, _ => None end
  end.
Definition tagged_spec_ok (c : bytes * list bytes * bytes) : bool :=
  let '(h, ts, gb) := c in
  match utf8_decode h, decode_all ts with
  | Some hc, Some tcs =>
      zlist_eqb (render (tagged_cps hc tcs)) gb &&
      match raw_value (tagged_cps hc tcs) with
      | Some raws => list_eqb zlist_eqb raws (map units (hc :: tcs))
      | None => false
      end
  | _, _ => false
  end.
Definition check_tagged_spec := mismatches tagged_spec_ok.

(* EDot, specification side: the printed member access denotes the same key *)
Definition dot_spec_ok (c : qcfg * list Z * bytes) : bool :=
  let '(cfg, rs, gb) := c in value_is (member_key gb) (flat_map rune_units rs).
Definition check_dot_spec := mismatches dot_spec_ok.

(* ---- directive prologue: end-to-end model versus api.Transform + node ---- *)
From V Require Import C01.Directive.
(* (source body, is the source body strict in node, is the transformed body strict in node) *)
Definition directive_ok (c : list sstmt * bool * bool) : bool :=
  let '(src, src_strict, out_strict) := c in
  Bool.eqb (prologue_strict src) src_strict && Bool.eqb (prologue_strict (roundtrip cfg_default src)) out_strict.
Definition check_directive := mismatches directive_ok.
