(* Checkers evaluated by the correspondence run: each returns the indices of
   the cases on which the model and the implementation's observed output
   differ (check_x) or on which the specification-side predicate fails on the
   observed output (check_x_spec). *)
From V Require Import Common.Base C01.Utf C01.Quote C01.SpecLiteral.

Fixpoint mism_from {A} (f : A -> bool) (l : list A) (i : nat) : list nat :=
  match l with
  | [] => []
  | x :: r => if f x then mism_from f r (S i) else i :: mism_from f r (S i)
  end.
Definition mismatches {A} (f : A -> bool) (l : list A) : list nat := mism_from f l 0.

Definition value_is (v : option (list Z)) (u : list Z) : bool :=
  match v with Some l => zlist_eqb l u | None => false end.
Definition all_ascii (b : bytes) : bool := forallb (fun x => (0 <=? x) && (x <? 128)) b.

(* printQuotedUTF16: (cfg, allowBacktick, noWrap, prefix, units, Go bytes) *)
Definition quoted_ok (c : qcfg * bool * bool * bytes * list Z * bytes) : bool :=
  let '(cfg, abt, nw, prefix, text, gb) := c in zlist_eqb (print_quoted cfg abt nw prefix text) gb.
Definition check_quoted := mismatches quoted_ok.
Definition quoted_spec_ok (c : qcfg * bool * bool * bytes * list Z * bytes) : bool :=
  let '(cfg, abt, nw, prefix, text, gb) := c in
  value_is (literal_value gb) text && (if ascii_only cfg then all_ascii gb else true).
Definition check_quoted_spec := mismatches quoted_spec_ok.

(* printUnquotedUTF16: (cfg, quote, noWrap, prefix, units, Go bytes) *)
Definition unquoted_ok (c : qcfg * Z * bool * bytes * list Z * bytes) : bool :=
  let '(cfg, q, nw, prefix, text, gb) := c in zlist_eqb (print_unquoted cfg q nw prefix text) gb.
Definition check_unquoted := mismatches unquoted_ok.
Definition unquoted_spec_ok (c : qcfg * Z * bool * bytes * list Z * bytes) : bool :=
  let '(cfg, q, nw, prefix, text, gb) := c in
  value_is (literal_value (q :: gb ++ [q])) text && (if ascii_only cfg then all_ascii gb else true).
Definition check_unquoted_spec := mismatches unquoted_spec_ok.

(* printIdentifierUTF16: (cfg, units, returned normally?, Go bytes) *)
Definition ident_ok (c : qcfg * list Z * bool * bytes) : bool :=
  let '(cfg, name, ok, gb) := c in
  match print_identifier_utf16 cfg name with
  | Some b => ok && zlist_eqb b gb
  | None => negb ok
  end.
Definition check_ident := mismatches ident_ok.
Definition ident_spec_ok (c : qcfg * list Z * bool * bytes) : bool :=
  let '(cfg, name, ok, gb) := c in
  if ok then value_is (ident_value gb) name && (if ascii_only cfg then all_ascii gb else true) else true.
Definition check_ident_spec := mismatches ident_spec_ok.
