(* C01 model: /repo/internal/helpers/utf.go
     encodeWTF8Rune, UTF16ToString, DecodeWTF8Rune, StringToUTF16
   and the two Go standard-library functions they rely on
     utf8.EncodeRune, utf8.DecodeRune (the decoder behind `for _, c := range s`).
   Bytes, runes and UTF-16 code units are Z.  Go's shifts and masks on values
   that are known to be in range are written with / and mod (same function on
   the stated ranges; the correspondence run compares bytes).
   Executable definitions only. *)
From V Require Import Common.Base.

Definition is_u16 (c : Z) : Prop := 0 <= c <= 65535.
Definition is_byte (c : Z) : Prop := 0 <= c <= 255.
Definition is_high (c : Z) : bool := (55296 <=? c) && (c <=? 56319).   (* D800..DBFF *)
Definition is_low (c : Z) : bool := (56320 <=? c) && (c <=? 57343).    (* DC00..DFFF *)
Definition is_surrogate (c : Z) : bool := (55296 <=? c) && (c <=? 57343).

(* (r1-0xD800)<<10 | (r2-0xDC00) + 0x10000.  In Go `|` and `+` have the same
   precedence and associate to the left: ((A<<10) | B) + 0x10000, where the low
   10 bits of A<<10 are zero and 0 <= B < 1024 (only evaluated on a high/low
   pair), so the bitwise or is a sum. *)
Definition combine_lor (r1 r2 : Z) : Z := ((r1 - 55296) * 1024 + (r2 - 56320)) + 65536.

(* the printer's formula: (c<<10) + c2 + (0x10000 - (0xD800<<10) - 0xDC00) *)
Definition combine_add (c c2 : Z) : Z := c * 1024 + c2 + (65536 - 55296 * 1024 - 56320).

Definition RuneError : Z := 65533.
Definition MaxRune : Z := 1114111.

Definition encodeWTF8Rune (r : Z) : bytes :=
  if r <? 0 then [239; 191; 189]
  else if r <=? 127 then [r]
  else if r <=? 2047 then [192 + r / 64; 128 + r mod 64]
  else if MaxRune <? r then [239; 191; 189]
  else if r <=? 65535 then [224 + r / 4096; 128 + (r / 64) mod 64; 128 + r mod 64]
  else [240 + r / 262144; 128 + (r / 4096) mod 64; 128 + (r / 64) mod 64; 128 + r mod 64].

(* utf8.EncodeRune: surrogates and out-of-range become U+FFFD *)
Definition EncodeRune (r : Z) : bytes :=
  if (r <? 0) || (MaxRune <? r) || is_surrogate r then [239; 191; 189]
  else encodeWTF8Rune r.

Fixpoint UTF16ToString (text : list Z) : bytes :=
  match text with
  | [] => []
  | r1 :: rest =>
      match rest with
      | r2 :: rest' =>
          if is_high r1 && is_low r2
          then encodeWTF8Rune (combine_lor r1 r2) ++ UTF16ToString rest'
          else encodeWTF8Rune r1 ++ UTF16ToString rest
      | [] => encodeWTF8Rune r1
      end
  end.

(* DecodeWTF8Rune: (rune, width).  Width 0 only for an empty input; a truncated
   multi-byte sequence gives (RuneError, 1) (after fix 8cccdcd in /repo).
   On bytes (0..255): (s0&0xE0)==0xC0 <-> 192<=s0<224, s0&0x1F = s0-192,
   (s1&0xC0)==0x80 <-> 128<=s1<192, s1&0x3F = s1-128, etc.; written that way. *)
Definition cont (b : Z) : bool := (128 <=? b) && (b <=? 191).
Definition DecodeWTF8Rune (s : bytes) : Z * Z :=
  match s with
  | [] => (RuneError, 0)
  | s0 :: t =>
      if s0 <? 128 then (s0, 1)
      else
        let sz := if (192 <=? s0) && (s0 <? 224) then 2
                  else if (224 <=? s0) && (s0 <? 240) then 3
                  else if (240 <=? s0) && (s0 <? 248) then 4 else 0 in
        if sz =? 0 then (RuneError, 1)
        else if Z.of_nat (length s) <? sz then (RuneError, 1)
        else match t with
             | [] => (RuneError, 1)
             | s1 :: t1 =>
                 if negb (cont s1) then (RuneError, 1)
                 else if sz =? 2 then
                   let cp := (s0 - 192) * 64 + (s1 - 128) in
                   if cp <? 128 then (RuneError, 1) else (cp, 2)
                 else match t1 with
                      | [] => (RuneError, 1)
                      | s2 :: t2 =>
                          if negb (cont s2) then (RuneError, 1)
                          else if sz =? 3 then
                            let cp := (s0 - 224) * 4096 + (s1 - 128) * 64 + (s2 - 128) in
                            if cp <? 2048 then (RuneError, 1) else (cp, 3)
                          else match t2 with
                               | [] => (RuneError, 1)
                               | s3 :: _ =>
                                   if negb (cont s3) then (RuneError, 1)
                                   else
                                     let cp := (s0 - 240) * 262144 + (s1 - 128) * 4096
                                               + (s2 - 128) * 64 + (s3 - 128) in
                                     if (cp <? 65536) || (1114111 <? cp) then (RuneError, 1) else (cp, 4)
                               end
                      end
             end
  end.

(* one rune as UTF-16 units (what StringToUTF16 appends) *)
Definition rune_units (c : Z) : list Z :=
  if c <=? 65535 then [c]
  else [55296 + ((c - 65536) / 1024) mod 1024; 56320 + (c - 65536) mod 1024].

(* decoding a whole WTF-8 string with DecodeWTF8Rune (as helpers/quote.go and
   the lexer's consumers do); None if the decoder reports width 0 (truncated) *)
Fixpoint wtf8_to_utf16 (fuel : nat) (s : bytes) : option (list Z) :=
  match fuel with
  | O => None
  | S f =>
      match s with
      | [] => Some []
      | _ => let '(r, w) := DecodeWTF8Rune s in
             if w =? 0 then None
             else match wtf8_to_utf16 f (skipn (Z.to_nat w) s) with
                  | Some l => Some (rune_units r ++ l)
                  | None => None
                  end
      end
  end.

(* utf8.DecodeRune (strict UTF-8; invalid => (RuneError,1)), first/accept
   ranges of the Go implementation written out: C2..DF; E0 A0..BF; E1..EC,
   EE..EF 80..BF; ED 80..9F; F0 90..BF; F1..F3 80..BF; F4 80..8F *)
Definition go_DecodeRune (s : bytes) : Z * Z :=
  match s with
  | [] => (RuneError, 0)
  | b0 :: t =>
      if b0 <? 128 then (b0, 1)
      else if (194 <=? b0) && (b0 <=? 223) then
        match t with
        | b1 :: _ => if cont b1 then ((b0 - 192) * 64 + (b1 - 128), 2) else (RuneError, 1)
        | _ => (RuneError, 1)
        end
      else if (224 <=? b0) && (b0 <=? 239) then
        match t with
        | b1 :: b2 :: _ =>
            let lo := if b0 =? 224 then 160 else 128 in
            let hi := if b0 =? 237 then 159 else 191 in
            if (lo <=? b1) && (b1 <=? hi) && cont b2
            then ((b0 - 224) * 4096 + (b1 - 128) * 64 + (b2 - 128), 3) else (RuneError, 1)
        | _ => (RuneError, 1)
        end
      else if (240 <=? b0) && (b0 <=? 244) then
        match t with
        | b1 :: b2 :: b3 :: _ =>
            let lo := if b0 =? 240 then 144 else 128 in
            let hi := if b0 =? 244 then 143 else 191 in
            if (lo <=? b1) && (b1 <=? hi) && cont b2 && cont b3
            then ((b0 - 240) * 262144 + (b1 - 128) * 4096 + (b2 - 128) * 64 + (b3 - 128), 4)
            else (RuneError, 1)
        | _ => (RuneError, 1)
        end
      else (RuneError, 1)
  end.

(* for _, c := range text { ... }  of StringToUTF16 *)
Fixpoint StringToUTF16_fuel (fuel : nat) (s : bytes) : list Z :=
  match fuel with
  | O => []
  | S f =>
      match s with
      | [] => []
      | _ => let '(r, w) := go_DecodeRune s in
             rune_units r ++ StringToUTF16_fuel f (skipn (Z.to_nat w) s)
      end
  end.
Definition StringToUTF16 (s : bytes) : list Z := StringToUTF16_fuel (length s) s.

(* well-formed UTF-16: every surrogate is part of a high/low pair *)
Fixpoint wf_utf16 (u : list Z) : bool :=
  match u with
  | [] => true
  | c :: rest =>
      if is_high c then
        match rest with
        | c2 :: rest' => is_low c2 && wf_utf16 rest'
        | [] => false
        end
      else negb (is_low c) && wf_utf16 rest
  end.
