(* C01 lemmas about the number printer model, part 2 (deepening round). *)
From V Require Import Common.Base C01.Num C01.SpecNumeric C01.NumProofs.

(* ================= deepening: the two remaining text shapes ================= *)

(* "0.ddd" : "0.5" => ".5" (minify), "0.001" => "1e-3" when shorter *)
Lemma mv_dot_frac fp t e :
  digs fp -> fp <> [] -> exp_tail t -> exponent_part t = Some e ->
  mv (46 :: fp ++ t) = Some (num fp, e - Z.of_nat (length fp)).
Proof.
  intros Hf Hne Ht He. rewrite mv_is_dec by (intros x h E; inversion E).
  apply (mv_dec_frac [] fp t e); auto. constructor.
Qed.

Lemma strip_lead_first k r :
  (match r with 48 :: _ => False | _ => True end) -> digs (repeat 48 k ++ r) -> num (repeat 48 k ++ r) <> 0 ->
  r <> [] /\ int_part_ok r = true /\ digs r.
Proof.
  intros Hr Hd Hn. apply digs_app in Hd as [_ Hd]. rewrite num_lead_zeros in Hn.
  split; [intros E; rewrite E in Hn; apply Hn; reflexivity|]. split; [|exact Hd].
  destruct r as [|c [|c2 r']]; try reflexivity. cbn [int_part_ok].
  destruct (c =? 48) eqn:E; [|reflexivity]. apply Z.eqb_eq in E. subst. contradiction.
Qed.

Lemma shorten_zero_dot mw fp :
  digs fp -> num fp <> 0 -> Z.of_nat (length fp) < 10 ^ 60 ->
  let s := 48 :: 46 :: fp in value_preserved (shorten mw s) s.
Proof.
  intros Hfp Hnz Hlen s.
  assert (Hne : fp <> []) by (intros E; rewrite E in Hnz; apply Hnz; reflexivity).
  assert (Hs : mv s = Some (num fp, 0 - Z.of_nat (length fp))).
  { unfold s. replace (48 :: 46 :: fp) with ([48] ++ 46 :: fp ++ []) by (rewrite app_nil_r; reflexivity).
    rewrite mv_dec_digits_first; [|repeat constructor; lia|discriminate|right; eexists; right; reflexivity].
    rewrite (mv_dec_frac [48] fp [] 0).
    - assert (E : num ([48] ++ fp) = num fp) by (rewrite num_app; unfold num at 1; cbn [digits_value]; lia).
      rewrite E. reflexivity.
    - repeat constructor; lia.
    - exact Hfp.
    - left; discriminate.
    - reflexivity.
    - left; reflexivity.
    - reflexivity. }
  assert (Hr1 : forall b : bool, value_preserved (if b then 46 :: fp else s) s).
  { intros b. exists (num fp, 0 - Z.of_nat (length fp)), (num fp, 0 - Z.of_nat (length fp)).
    split; [|split; [exact Hs|apply dec_eq_refl]]. destruct b; [|exact Hs].
    replace (46 :: fp) with (46 :: fp ++ []) by (rewrite app_nil_r; reflexivity).
    apply mv_dot_frac; auto. left; reflexivity. }
  assert (Hn101 : ~ In 101 s).
  { unfold s. intros [H|[H|H]]; try lia. revert H. apply digs_not_in; [exact Hfp|lia]. }
  unfold shorten, simplify_exponent. rewrite (split_last_none 101 s Hn101).
  unfold s. change (48 :: 46 :: fp) with ([48] ++ 46 :: fp).
  rewrite (split_first_app 46 [48]) by (intros [H|H]; [lia|exact H]).
  change (zlist_eqb [48] [48]) with true. cbn beta iota. cbn [app]. fold s.
  destruct fp as [|c r] eqn:Efp; [congruence|].
  destruct (Z.eq_dec c 48) as [->|Hc].
  - pose proof (span0_spec (48 :: r)) as Hsp. destruct (span0 (48 :: r)) as [z t]. destruct Hsp as [E1 [E2 E3]].
    match goal with |- context [if ?c then t ++ _ else _] => destruct c end; [|apply Hr1].
    rewrite E1 in Hfp, Hnz. rewrite E2 in Hfp, Hnz.
    destruct (strip_lead_first (length z) t E3 Hfp Hnz) as [T1 [T2 T3]].
    assert (Hnum : num (48 :: r) = num t) by (rewrite E1, E2; apply num_lead_zeros).
    exists (num t, - len (48 :: r)), (num (48 :: r), 0 - Z.of_nat (length (48 :: r))).
    split; [|split; [exact Hs|]].
    + cbn [app]. rewrite mv_dec_digits_first; [|exact T3|exact T1|right; eexists; left; reflexivity].
      apply mv_dec_int; auto. right; eexists; reflexivity.
      apply exponent_part_small. unfold len. lia.
    + rewrite Hnum. unfold len. replace (0 - Z.of_nat (length (48 :: r))) with (- Z.of_nat (length (48 :: r))) by lia.
      apply dec_eq_refl.
  - assert (E : match c :: r with 48 :: _ => true | _ => false end = false).
    { destruct c as [|p|p]; try reflexivity. do 6 (destruct p as [p|p|]; try reflexivity). congruence. }
    assert (G : forall (A : Type) (x y : A), match c :: r with 48 :: _ => x | _ => y end = y).
    { intros. destruct c as [|p|p]; try reflexivity. do 6 (destruct p as [p|p|]; try reflexivity). congruence. }
    rewrite G. apply Hr1.
Qed.

(* "de+21" / "12e-7": digits and an exponent, no dot: only the exponent is tidied *)
Lemma span0_before_nonzero : forall a b,
  (exists x, In x a /\ x <> 48) -> (length (fst (span0 (a ++ b))) < length a)%nat.
Proof.
  induction a as [|c r IH]; intros b [x [Hin Hx]]; [destruct Hin|].
  destruct (Z.eq_dec c 48) as [->|Hc].
  - destruct Hin as [E|Hin]; [congruence|].
    cbn [app span0]. specialize (IH b (ex_intro _ x (conj Hin Hx))).
    destruct (span0 (r ++ b)) as [z t]. cbn [fst length] in *. lia.
  - assert (E : span0 ((c :: r) ++ b) = ([], (c :: r) ++ b)).
    { cbn [app span0]. destruct c as [|p|p]; try reflexivity. do 6 (destruct p as [p|p|]; try reflexivity). congruence. }
    rewrite E. cbn. lia.
Qed.

Lemma num_lower_bound c r : digs (c :: r) -> c <> 48 -> 10 ^ Z.of_nat (length r) <= num (c :: r).
Proof.
  intros Hd Hc. inversion Hd as [|? ? Hc' Hr]; subst.
  change (c :: r) with ([c] ++ r). rewrite num_app. unfold num at 1. cbn [digits_value].
  pose proof (num_nonneg r Hr). assert (0 < 10 ^ Z.of_nat (length r)) by (apply Z.pow_pos_nonneg; lia). nia.
Qed.

Lemma shorten_int_exp mw ip sg ex :
  digs ip -> ip <> [] -> int_part_ok ip = true ->
  digs ex -> num ex <> 0 -> num ex < 1000 ->
  let s := ip ++ 101 :: sign_bytes sg ++ ex in
  value_preserved (shorten mw s) s.
Proof.
  intros Hip Hne Hok Hex Hnz Hexb s.
  destruct (strip0_spec ex) as [j [Ej Es]].
  remember (strip0 ex) as ex' eqn:Hdef.
  assert (Hex' : digs ex') by (rewrite Ej in Hex; apply digs_app in Hex; tauto).
  assert (Hnum : num ex = num ex') by (rewrite Ej at 1; apply num_lead_zeros).
  assert (Hne' : ex' <> []) by (intros E; rewrite E in Hnum; cbn in Hnum; congruence).
  assert (Hexne : ex <> []) by (intros E; rewrite E in Hnz; cbn in Hnz; congruence).
  set (E := sign_val sg (num ex)).
  assert (Hs : mv s = Some (num ip, E)).
  { unfold s. rewrite mv_dec_digits_first; [|exact Hip|exact Hne|right; eexists; left; reflexivity].
    apply mv_dec_int; auto. right; eexists; reflexivity. apply exponent_part_sign; auto. }
  set (res := ip ++ 101 :: norm_sign_bytes sg ++ ex').
  assert (Hres : simplify_exponent s = res).
  { unfold s, res. rewrite Hdef. apply simplify_exponent_form. exact Hex. }
  assert (Hresv : value_preserved res s).
  { exists (num ip, E), (num ip, E). split; [|split; [exact Hs|apply dec_eq_refl]].
    unfold res. rewrite mv_dec_digits_first; [|exact Hip|exact Hne|right; eexists; left; reflexivity].
    apply mv_dec_int; auto. right; eexists; reflexivity.
    unfold E. rewrite Hnum. apply exponent_part_norm; auto. }
  unfold shorten. rewrite Hres.
  assert (Hn46 : ~ In 46 res).
  { unfold res. intros Hin. apply in_app_or in Hin as [Hin|[Hin|Hin]]; [|lia|].
    - revert Hin. apply digs_not_in; [exact Hip|lia].
    - apply in_app_or in Hin as [Hin|Hin]; [destruct sg; cbn in Hin; lia|].
      revert Hin. apply digs_not_in; [exact Hex'|lia]. }
  rewrite (split_first_none 46 res Hn46).
  destruct (last_is_zero res); [|exact Hresv].
  pose proof (span0_spec (rev res)) as Hsp.
  (* the trailing zeros all belong to the exponent, which has at most 3 digits *)
  assert (Hrev : rev res = rev ex' ++ (rev (norm_sign_bytes sg) ++ 101 :: rev ip)).
  { unfold res. rewrite rev_app_distr. cbn [rev]. rewrite rev_app_distr, <- !app_assoc. reflexivity. }
  destruct ex' as [|c r] eqn:Hexq; [congruence|].
  assert (Hc48 : c <> 48) by (intros ->; exact Es).
  assert (Hlen3 : (length r <= 2)%nat).
  { pose proof (num_lower_bound c r Hex' Hc48) as Hb. rewrite <- Hnum in Hb.
    destruct (le_lt_dec (length r) 2) as [|Hgt]; [assumption|exfalso].
    assert (10 ^ 3 <= 10 ^ Z.of_nat (length r)) by (apply Z.pow_le_mono_r; lia). lia. }
  assert (Hz : (length (fst (span0 (rev res))) < length (rev (c :: r)))%nat).
  { rewrite Hrev. apply span0_before_nonzero. exists c. split; [|exact Hc48].
    apply in_rev. rewrite rev_involutive. left; reflexivity. }
  destruct (span0 (rev res)) as [z t]. destruct Hsp as [E1 [E2 E3]]. cbn [fst] in Hz.
  rewrite rev_length in Hz. cbn [length] in Hz.
  assert (Hlr : len res = len z + len (rev t)).
  { unfold len. rewrite <- (rev_length res), E1, app_length, rev_length. lia. }
  assert (Hsm : 1 <= len (smallIntToBytes (len z))).
  { destruct (small_digs (len z)) as [_ Hn]; [unfold len; split; [lia|]; apply Z.lt_trans with 3; [lia|reflexivity]|].
    destruct (smallIntToBytes (len z)); [congruence|unfold len; cbn [length]; lia]. }
  destruct (len (rev t) + 1 + len (smallIntToBytes (len z)) <? len res) eqn:Ec; [|exact Hresv].
  exfalso. unfold len in *. lia.
Qed.

(* ================= all text shapes of FormatFloat(v,'g'/'e',-1,64) ================= *)
Definition form_zero_dot (s : bytes) : Prop :=
  exists fp, s = 48 :: 46 :: fp /\ digs fp /\ num fp <> 0 /\ Z.of_nat (length fp) < 10 ^ 60.
Definition form_int_exp (s : bytes) : Prop :=
  exists ip sg ex, s = ip ++ 101 :: sign_bytes sg ++ ex /\
    digs ip /\ ip <> [] /\ int_part_ok ip = true /\ digs ex /\ num ex <> 0 /\ num ex < 1000.

(* digits | digits.digits | 0.digits (not all zero) | digits[.digits]e[+-]digits *)
Definition float_text (s : bytes) : Prop :=
  form_int s \/ form_dot s \/ form_dot_exp s \/ form_zero_dot s \/ form_int_exp s.

Lemma shorten_value_all mw s : float_text s -> value_preserved (shorten mw s) s.
Proof.
  intros [H|[H|[H|[H|H]]]].
  - apply shorten_value_forms. auto.
  - apply shorten_value_forms. auto.
  - apply shorten_value_forms. auto.
  - destruct H as [fp [-> [H1 [H2 H3]]]]. apply shorten_zero_dot; auto.
  - destruct H as [ip [sg [ex [-> [H1 [H2 [H3 [H4 [H5 H6]]]]]]]]]. apply shorten_int_exp; auto.
Qed.

Lemma print_float_value_all mw bits s :
  0 <= bits -> float_text s ->
  let out := fst (printNonNegativeFloat mw bits s) in
  value_preserved out s \/ exists v, float_int bits = Some v /\ mv out = Some (v, 0).
Proof.
  intros Hb Hf. unfold printNonNegativeFloat.
  destruct (float_int bits) as [v|] eqn:Ev.
  - pose proof (float_int_nonneg bits v Hb Ev) as Hv.
    destruct (v <? 1000) eqn:E1.
    + right. exists v. split; [reflexivity|]. cbn [fst]. apply small_int_value. lia.
    + cbn [fst].
      destruct (mw && (1000000000000 <=? v) && (v <=? 18446744073709549568)) eqn:E2.
      * destruct (2 + len (to_hex v) <? len (shorten mw s)).
        -- right. exists v. split; [reflexivity|]. apply hex_literal_value. lia.
        -- left. apply shorten_value_all. exact Hf.
      * left. apply shorten_value_all. exact Hf.
  - cbn [fst]. left. apply shorten_value_all. exact Hf.
Qed.

(* ---- an executable recogniser of float_text, evaluated by the harness on
   every text strconv actually produced ---- *)
Definition nonempty (l : bytes) : bool := match l with [] => false | _ => true end.
Definition exp_ok (r : bytes) (bound : Z) : bool :=
  let r' := match r with 43 :: t => t | 45 :: t => t | _ => r end in
  let '(ex, t) := take_digits r' in
  nonempty ex && negb (nonempty t) && negb (digits_value ex 0 =? 0) && (digits_value ex 0 <? bound).
Definition float_text_b (s : bytes) : bool :=
  (Z.of_nat (length s) <? 1000) &&
  let '(ip, r) := take_digits s in
  nonempty ip && int_part_ok ip &&
  match r with
  | [] => true
  | c :: r1 =>
      if c =? 46 then
        let '(fp, r2) := take_digits r1 in
        match r2 with
        | [] => if zlist_eqb ip [48] then negb (digits_value fp 0 =? 0) else true
        | c2 :: r3 => (c2 =? 101) && negb (zlist_eqb ip [48]) && exp_ok r3 (10 ^ 60)
        end
      else (c =? 101) && exp_ok r1 1000
  end.

Lemma take_digits_spec l : let '(d, t) := take_digits l in l = d ++ t /\ digs d.
Proof.
  induction l as [|c r IH]; cbn [take_digits]; [split; [reflexivity|constructor]|].
  destruct (dig c) eqn:E.
  - destruct (take_digits r) as [d t]. destruct IH as [I1 I2]. split; [cbn [app]; f_equal; exact I1|].
    constructor; [unfold dig in E; lia|exact I2].
  - split; [reflexivity|constructor].
Qed.

Lemma nonempty_true l : nonempty l = true -> l <> [].
Proof. destruct l; [discriminate|discriminate]. Qed.

Lemma exp_ok_spec r bound : exp_ok r bound = true ->
  exists sg ex, r = sign_bytes sg ++ ex /\ digs ex /\ num ex <> 0 /\ num ex < bound.
Proof.
  unfold exp_ok. intros H.
  set (r' := match r with 43 :: t => t | 45 :: t => t | _ => r end) in *.
  pose proof (take_digits_spec r') as Hs. destruct (take_digits r') as [ex t].
  destruct Hs as [S1 S2].
  apply andb_true_iff in H as [H H4]. apply andb_true_iff in H as [H H3]. apply andb_true_iff in H as [H1 H2].
  destruct t; [|discriminate]. rewrite app_nil_r in S1.
  assert (G : exists sg, r = sign_bytes sg ++ r').
  { unfold r'. destruct r as [|c q]; [exists SgNone; reflexivity|].
    destruct (Z.eq_dec c 43) as [->|N1]; [exists SgPlus; reflexivity|].
    destruct (Z.eq_dec c 45) as [->|N2]; [exists SgMinus; reflexivity|].
    exists SgNone. cbn [sign_bytes app].
    destruct c as [|p|p]; try reflexivity. do 6 (destruct p as [p|p|]; try reflexivity); congruence. }
  destruct G as [sg G]. exists sg, ex. rewrite G, S1. unfold num. repeat split; auto; lia.
Qed.

Lemma float_text_b_sound s : float_text_b s = true -> float_text s.
Proof.
  unfold float_text_b. intros H. apply andb_true_iff in H as [Hl H].
  pose proof (take_digits_spec s) as Hs. destruct (take_digits s) as [ip r]. destruct Hs as [S1 S2].
  apply andb_true_iff in H as [H H3]. apply andb_true_iff in H as [H1 H2]. apply nonempty_true in H1.
  assert (Hb : forall n : nat, Z.of_nat n < 1000 -> Z.of_nat n < 10 ^ 60) by (intros; apply Z.lt_trans with 1000; [assumption|reflexivity]).
  assert (Hb2 : forall n : nat, Z.of_nat n < 1000 -> Z.of_nat n < 10 ^ 64) by (intros; apply Z.lt_trans with 1000; [assumption|reflexivity]).
  destruct r as [|c r1].
  - left. rewrite app_nil_r in S1. subst. repeat split; auto. apply Hb2. lia.
  - destruct (c =? 46) eqn:E46.
    + apply Z.eqb_eq in E46. subst c.
      pose proof (take_digits_spec r1) as Hs1. destruct (take_digits r1) as [fp r2]. destruct Hs1 as [T1 T2].
      destruct r2 as [|c2 r3].
      * rewrite app_nil_r in T1. subst r1.
        destruct (zlist_eqb ip [48]) eqn:E48.
        -- apply zlist_eqb_eq in E48. subst ip. right; right; right; left.
           exists fp. cbn [app] in S1. repeat split; auto; [unfold num; lia|].
           apply Hb. rewrite S1 in Hl. cbn [length] in Hl. lia.
        -- right; left. exists ip, fp. repeat split; auto.
      * apply andb_true_iff in H3 as [H3 H5]. apply andb_true_iff in H3 as [H3 E48].
        apply Z.eqb_eq in H3. subst c2.
        destruct (exp_ok_spec _ _ H5) as [sg [ex [X1 [X2 [X3 X4]]]]].
        right; right; left. exists ip, fp, sg, ex. subst. repeat split; auto; [destruct (zlist_eqb ip [48]); [discriminate|reflexivity]|].
        apply Hb. rewrite app_length in Hl. cbn [length] in Hl. rewrite app_length in Hl. lia.
    + apply andb_true_iff in H3 as [H3 H5]. apply Z.eqb_eq in H3. subst c.
      destruct (exp_ok_spec _ _ H5) as [sg [ex [X1 [X2 [X3 X4]]]]].
      right; right; right; right. exists ip, sg, ex. subst. repeat split; auto.
Qed.

Section Strconv.
  Variable FormatFloat : Z -> bytes.
  Hypothesis FormatFloat_shape : forall bits, 0 <= bits -> float_text (FormatFloat bits).
  Lemma print_number_literal_value_all : forall mw bits, 0 <= bits ->
    let out := fst (printNonNegativeFloat mw bits (FormatFloat bits)) in
    value_preserved out (FormatFloat bits) \/ exists v, float_int bits = Some v /\ mv out = Some (v, 0).
  Proof. intros mw bits Hb. apply print_float_value_all; [exact Hb|apply FormatFloat_shape; exact Hb]. Qed.
End Strconv.
