(* C01 model: /repo/internal/js_printer/js_printer.go
     printUnquotedUTF16 (l.65), printQuotedUTF16 (l.1353, the quote chooser),
     currentLineLength (l.791, on a fresh printer), QuoteIdentifier (l.33),
     printIdentifierUTF16 (l.454).
   The Go code appends bytes; every append is either ASCII bytes or
   utf8.EncodeRune of one rune, so the model first produces the sequence of
   code points ([pu]) and then encodes each with EncodeRune ([to_bytes]):
   the same byte string.  Nothing in the Go code depends on byte lengths (the
   line-wrap counter counts UTF-16 units).  Executable definitions only. *)
From V Require Import Common.Base C01.Utf.

Record qcfg := mkQ {
  ascii_only : bool;      (* options.ASCIIOnly *)
  uni_esc : bool;         (* !UnsupportedFeatures.Has(compat.UnicodeEscapes) *)
  script_guard : bool;    (* !UnsupportedFeatures.Has(compat.InlineScript) *)
  line_limit : Z;         (* options.LineLimit *)
  minify_syntax : bool;   (* options.MinifySyntax *)
  template_ok : bool      (* !UnsupportedFeatures.Has(compat.TemplateLiteral) *)
}.

(* hexChars[d] for 0 <= d < 16 : "0123456789ABCDEF" *)
Definition hexc (d : Z) : Z := if d <? 10 then 48 + d else 55 + d.

(* '\\','u',hexChars[c>>12],hexChars[(c>>8)&15],hexChars[(c>>4)&15],hexChars[c&15] *)
Definition esc_u4 (c : Z) : list Z :=
  [92; 117; hexc (c / 4096); hexc ((c / 256) mod 16); hexc ((c / 16) mod 16); hexc (c mod 16)].
(* '\\','x',hexChars[c>>4],hexChars[c&15] *)
Definition esc_x2 (c : Z) : list Z := [92; 120; hexc (c / 16); hexc (c mod 16)].
(* fmt.Sprintf("\\u{%X}", r) for a rune made from a surrogate pair
   (0x10000 <= r <= 0x10FFFF: five or six digits, no leading zero) *)
Definition hexX (r : Z) : list Z :=
  if r <? 1048576
  then [hexc (r / 65536); hexc ((r / 4096) mod 16); hexc ((r / 256) mod 16); hexc ((r / 16) mod 16); hexc (r mod 16)]
  else [hexc (r / 1048576); hexc ((r / 65536) mod 16); hexc ((r / 4096) mod 16); hexc ((r / 256) mod 16);
        hexc ((r / 16) mod 16); hexc (r mod 16)].
Definition esc_ubrace (r : Z) : list Z := [92; 117; 123] ++ hexX r ++ [125].

Definition lower (a : Z) : Z := if (65 <=? a) && (a <=? 90) then a + 32 else a.
(* i+6 <= len(text) and text[i..i+5] equals "script" ignoring ASCII case *)
Definition matches_script (rest : list Z) : bool :=
  match rest with
  | a0 :: a1 :: a2 :: a3 :: a4 :: a5 :: _ =>
      (lower a0 =? 115) && (lower a1 =? 99) && (lower a2 =? 114) &&
      (lower a3 =? 105) && (lower a4 =? 112) && (lower a5 =? 116)
  | _ => false
  end.

Definition next_is_digit (rest : list Z) : bool :=
  match rest with c2 :: _ => (48 <=? c2) && (c2 <=? 57) | [] => false end.
Definition next_is (x : Z) (rest : list Z) : bool :=
  match rest with c2 :: _ => c2 =? x | [] => false end.

(* one iteration of the loop for a unit that is not a high surrogate;
   prev = text[i-2] (or -1 when i < 2), rest = text[i:] *)
Definition simple_chunk (cfg : qcfg) (q prev c : Z) (rest : list Z) : list Z :=
  if c =? 0 then (if next_is_digit rest then [92; 120; 48; 48] else [92; 48])
  else if c =? 7 then [92; 120; 48; 55]
  else if c =? 8 then [92; 98]
  else if c =? 12 then [92; 102]
  else if c =? 10 then (if q =? 96 then [10] else [92; 110])
  else if c =? 13 then [92; 114]
  else if c =? 11 then [92; 118]
  else if c =? 27 then [92; 120; 49; 66]
  else if c =? 92 then [92; 92]
  else if c =? 47 then
    (if script_guard cfg && (prev =? 60) && matches_script rest then [92; 47] else [47])
  else if c =? 39 then (if q =? 39 then [92; 39] else [39])
  else if c =? 34 then (if q =? 34 then [92; 34] else [34])
  else if c =? 96 then (if q =? 96 then [92; 96] else [96])
  else if c =? 36 then (if (q =? 96) && next_is 123 rest then [92; 36] else [36])
  else if c =? 8232 then [92; 117; 50; 48; 50; 56]
  else if c =? 8233 then [92; 117; 50; 48; 50; 57]
  else if c =? 65279 then [92; 117; 70; 69; 70; 70]
  else if c <=? 126 then [c]
  else if is_low c || (ascii_only cfg && (255 <? c)) then esc_u4 c
  else if ascii_only cfg then esc_x2 c
  else [c].

(* a high surrogate followed by a low surrogate *)
Definition pair_chunk (cfg : qcfg) (c c2 : Z) : list Z :=
  if ascii_only cfg then
    (if uni_esc cfg then esc_ubrace (combine_add c c2) else esc_u4 c ++ esc_u4 c2)
  else [combine_add c c2].

(* the loop; sl = startLineLength, i = index of the unit about to be read *)
Fixpoint pu (cfg : qcfg) (q : Z) (wrap : bool) (prev sl i : Z) (text : list Z) {struct text} : list Z :=
  match text with
  | [] => []
  | c :: rest =>
      let dowrap := wrap && (line_limit cfg <=? sl + i) in
      let sl1 := if dowrap then sl - line_limit cfg else sl in
      let i1 := i + 1 in
      (if dowrap then [92; 10] else []) ++
      (if is_high c then
         match rest with
         | c2 :: rest' =>
             if is_low c2
             then pair_chunk cfg c c2 ++ pu cfg q wrap c2 sl1 (i1 + 1) rest'
             else esc_u4 c ++ pu cfg q wrap c sl1 i1 rest
         | [] => esc_u4 c
         end
       else
         simple_chunk cfg q prev c rest
         ++ pu cfg q wrap c (if (c =? 10) && (q =? 96) then - i1 else sl1) i1 rest)
  end.

(* p.currentLineLength() on a printer whose buffer is js and whose
   oldLineStart/oldLineEnd are still 0 *)
Fixpoint line_len_from (js : bytes) (acc : Z) : Z :=
  match js with
  | [] => acc
  | c :: r => if (c =? 13) || (c =? 10) then line_len_from r 0 else line_len_from r (acc + 1)
  end.
Definition currentLineLength (js : bytes) : Z := line_len_from js 0.

Definition print_unquoted_cps (cfg : qcfg) (q : Z) (nowrap : bool) (linelen : Z) (text : list Z) : list Z :=
  let wrap := (0 <? line_limit cfg) && negb nowrap in
  let sl := if wrap then Z.min linelen (line_limit cfg) else 0 in
  pu cfg q wrap (-1) sl 0 text.

(* the cost loop of printQuotedUTF16 *)
Fixpoint costs (ms : bool) (data : list Z) (s d b : Z) : Z * Z * Z :=
  match data with
  | [] => (s, d, b)
  | c :: rest =>
      if c =? 10 then costs ms rest s d (if ms then b - 1 else b)
      else if c =? 39 then costs ms rest (s + 1) d b
      else if c =? 34 then costs ms rest s (d + 1) b
      else if c =? 96 then costs ms rest s d (b + 1)
      else if c =? 36 then costs ms rest s d (if next_is 123 rest then b + 1 else b)
      else costs ms rest s d b
  end.

Definition choose_quote (cfg : qcfg) (allow_backtick : bool) (data : list Z) : Z :=
  let allow := allow_backtick && template_ok cfg in
  let '(s, d, b) := costs (minify_syntax cfg) data 0 0 0 in
  if s <? d then (if (b <? s) && allow then 96 else 39)
  else if (b <? d) && allow then 96 else 34.

(* code points printed by printQuotedUTF16 when the current line already
   holds linelen bytes *)
Definition print_quoted_cps (cfg : qcfg) (allow_backtick nowrap : bool) (linelen : Z) (data : list Z) : list Z :=
  let q := choose_quote cfg allow_backtick data in
  q :: print_unquoted_cps cfg q nowrap (linelen + 1) data ++ [q].

Definition to_bytes (cps : list Z) : bytes := flat_map EncodeRune cps.

Definition print_unquoted (cfg : qcfg) (q : Z) (nowrap : bool) (prefix : bytes) (text : list Z) : bytes :=
  to_bytes (print_unquoted_cps cfg q nowrap (currentLineLength prefix) text).
Definition print_quoted (cfg : qcfg) (allow_backtick nowrap : bool) (prefix : bytes) (data : list Z) : bytes :=
  to_bytes (print_quoted_cps cfg allow_backtick nowrap (currentLineLength prefix) data).

(* ---- identifiers ---- *)

(* printIdentifierUTF16: None models the panic("Cannot encode identifier") *)
Fixpoint ident_cps (cfg : qcfg) (name : list Z) {struct name} : option (list Z) :=
  match name with
  | [] => Some []
  | c :: rest =>
      let one (c : Z) (rest : list Z) (k : option (list Z)) :=
        match k with
        | None => None
        | Some tl =>
            if ascii_only cfg && (126 <? c) then
              (if c <=? 65535 then Some (esc_u4 c ++ tl)
               else if uni_esc cfg then Some (esc_ubrace c ++ tl) else None)
            else Some (c :: tl)
        end in
      match rest with
      | c2 :: rest' =>
          if is_high c && is_low c2 then one (combine_add c c2) rest' (ident_cps cfg rest')
          else one c rest (ident_cps cfg rest)
      | [] => one c rest (Some [])
      end
  end.
Definition print_identifier_utf16 (cfg : qcfg) (name : list Z) : option bytes :=
  option_map to_bytes (ident_cps cfg name).

(* QuoteIdentifier over the runes of the name (for _, c := range name) *)
Fixpoint quote_ident_cps (cfg : qcfg) (runes : list Z) : option (list Z) :=
  match runes with
  | [] => Some []
  | c :: rest =>
      match quote_ident_cps cfg rest with
      | None => None
      | Some tl =>
          if (32 <=? c) && (c <=? 126) then Some (c :: tl)
          else if c <=? 65535 then Some (esc_u4 c ++ tl)
          else if uni_esc cfg then Some (esc_ubrace c ++ tl) else None
      end
  end.
