(* C01 lemmas: templates with substitutions split into exactly the cooked
   chunks; BigInt / regexp texts are printed verbatim. *)
From V Require Import Common.Base C01.Utf C01.Quote C01.SpecLiteral C01.QuoteProofs C01.Num C01.Template.

(* only the closing-quote branch of [normal] reaches Done, and it emits nothing *)
Lemma step_done_emits_nothing s e : step KTemplate s 96 = Some (e, Done) -> e = [] /\ accepting s = true.
Proof.
  intros H. unfold accepting. rewrite H.
  destruct s; cbn in H; try discriminate; try (inversion H; subst; split; reflexivity);
    try (destruct (hexval 96); discriminate).
Qed.

(* a body segment X after which the closing backtick is accepted with value u
   can equally be followed by a substitution: the chunk is cur ++ u *)
Lemma chunk_then : forall X s cur u,
  Forall (fun c => c <> SUBST) X ->
  run KTemplate s (X ++ [96]) = Some u ->
  (forall rest, trun s (X ++ SUBST :: rest) cur = option_map (cons (cur ++ u)) (trun Normal rest []))
  /\ trun s (X ++ [96]) cur = Some [cur ++ u].
Proof.
  induction X as [|c X IH]; intros s cur u Hn Hr.
  - cbn [app] in *. rewrite run_cons in Hr.
    destruct (step KTemplate s 96) as [[e s']|] eqn:Es; [|discriminate].
    destruct s'; cbn in Hr; try discriminate.
    destruct (step_done_emits_nothing s e Es) as [-> Hacc].
    assert (Eu : u = []) by (cbn in Hr; congruence). subst u. rewrite app_nil_r. split.
    + intros rest. cbn [trun]. replace (SUBST =? SUBST) with true by reflexivity. rewrite Hacc, ?app_nil_r. reflexivity.
    + cbn [trun]. replace (96 =? SUBST) with false by reflexivity. rewrite Es, ?app_nil_r. reflexivity.
  - inversion Hn as [|? ? Hc Hn']; subst. cbn [app] in *. rewrite run_cons in Hr.
    destruct (step KTemplate s c) as [[e s1]|] eqn:Es; [|discriminate].
    destruct (run KTemplate s1 (X ++ [96])) as [u1|] eqn:E1; [|discriminate].
    cbn in Hr. inversion Hr; subst.
    destruct (IH s1 (cur ++ e) u1 Hn' E1) as [I1 I2].
    assert (Ec : (c =? SUBST) = false) by lia.
    split.
    + intros rest. cbn [trun]. rewrite Ec, Es, I1, app_assoc. reflexivity.
    + cbn [trun]. rewrite Ec, Es, I2, app_assoc. reflexivity.
Qed.

Lemma pu_no_subst cfg nowrap linelen u : all_u16 u ->
  Forall (fun c => c <> SUBST) (print_unquoted_cps cfg 96 nowrap linelen u).
Proof.
  intros Hu. assert (G : forallb (good (ascii_only cfg) false) (print_unquoted_cps cfg 96 nowrap linelen u) = true).
  { unfold print_unquoted_cps. apply pu_good with (n := length u); [discriminate|lia|exact Hu]. }
  rewrite forallb_forall in G. apply Forall_forall. intros x Hx. specialize (G x Hx).
  unfold good, scalar, SUBST in *. lia.
Qed.

Lemma pu_template_run cfg nowrap linelen u : all_u16 u ->
  run KTemplate Normal (print_unquoted_cps cfg 96 nowrap linelen u ++ [96]) = Some u.
Proof.
  intros Hu. pose proof (unquoted_cps_value cfg KTemplate nowrap linelen u Hu) as H.
  unfold literal_value_cps in H. cbn [quote_of] in H. exact H.
Qed.

Lemma tails_value cfg : forall tails sofar,
  Forall all_u16 tails ->
  forall cur X, Forall (fun c => c <> SUBST) X -> forall u,
  run KTemplate Normal (X ++ [96]) = Some u ->
  trun Normal (X ++ tails_cps cfg sofar tails ++ [96]) cur = Some ((cur ++ u) :: tails).
Proof.
  induction tails as [|t r IH]; intros sofar Hu cur X HX u Hr.
  - cbn [tails_cps app]. apply (chunk_then X Normal cur u HX Hr).
  - inversion Hu as [|? ? Ht Hr']; subst. cbn [tails_cps]. cbv zeta.
    set (so1 := sofar ++ subst_bytes).
    set (c := print_unquoted_cps cfg 96 false (currentLineLength so1) t).
    destruct (chunk_then X Normal cur u HX Hr) as [I1 _].
    cbn [app]. rewrite I1.
    rewrite <- app_assoc.
    rewrite (IH (so1 ++ to_bytes c) Hr' [] c (pu_no_subst cfg false _ t Ht) t (pu_template_run cfg false _ t Ht)).
    reflexivity.
Qed.

Lemma template_roundtrip_all cfg prefix head tails :
  all_u16 head -> Forall all_u16 tails ->
  template_value (template_cps cfg prefix head tails) = Some (head :: tails).
Proof.
  intros Hh Ht. unfold template_value, template_cps. cbv zeta.
  rewrite <- app_assoc.
  rewrite (tails_value cfg tails _ Ht [] _ (pu_no_subst cfg false _ head Hh) head (pu_template_run cfg false _ head Hh)).
  reflexivity.
Qed.

(* the rendered bytes: every non-marker code point is UTF-8 encoded; under the
   ASCII charset everything outside the substitutions is below 128 *)
Lemma template_cps_ascii cfg prefix head tails :
  ascii_only cfg = true -> all_u16 head -> Forall all_u16 tails ->
  Forall (fun x => x = SUBST \/ 0 <= x < 128) (template_cps cfg prefix head tails).
Proof.
  intros Ha Hh Ht.
  assert (P : forall ll u, all_u16 u -> Forall (fun x => x = SUBST \/ 0 <= x < 128) (print_unquoted_cps cfg 96 false ll u)).
  { intros ll u Hu. assert (G : forallb (good (ascii_only cfg) false) (print_unquoted_cps cfg 96 false ll u) = true).
    { unfold print_unquoted_cps. apply pu_good with (n := length u); [discriminate|lia|exact Hu]. }
    rewrite Ha in G. rewrite forallb_forall in G. apply Forall_forall. intros x Hx. specialize (G x Hx).
    unfold good, scalar in G. right. lia. }
  unfold template_cps. cbv zeta. constructor; [right; lia|].
  apply Forall_app. split; [apply P; exact Hh|].
  apply Forall_app. split; [|constructor; [right; lia|constructor]].
  match goal with |- Forall _ (tails_cps cfg ?so tails) => generalize so end.
  clear Hh. induction Ht as [|t r Ht1 Ht2 IH]; intros sofar; cbn [tails_cps]; [constructor|].
  cbv zeta. constructor; [left; reflexivity|]. apply Forall_app. split; [apply P; exact Ht1|apply IH].
Qed.

(* BigInt and regexp: verbatim *)
Lemma bigint_verbatim js v : exists sp, print_bigint js v = sp ++ v ++ [110] /\ (sp = [] \/ sp = [32]).
Proof.
  unfold print_bigint, space_before_ident. destruct (rev js) as [|c r]; [exists []; auto|].
  destruct (ident_continue_ascii c); [exists [32]|exists []]; auto.
Qed.

Lemma regexp_verbatim cfg js v : exists sp, print_regexp cfg js v = sp ++ v /\ (sp = [] \/ sp = [32]).
Proof.
  unfold print_regexp, regexp_space. destruct (rev js) as [|c r]; [exists []; auto|].
  destruct ((c =? 47) || _); [exists [32]|exists []]; auto.
Qed.

(* no line comment and (with the guard) no "</script" across the boundary *)
Lemma regexp_guard cfg js last v :
  print_regexp cfg (js ++ [last]) v = [32] ++ v \/
  (last <> 47 /\ (script_guard cfg = true -> last = 60 -> starts_slash_script v = false)).
Proof.
  unfold print_regexp, regexp_space. rewrite rev_app_distr. cbn [rev app].
  destruct (last =? 47) eqn:E1; cbn [orb]; [left; reflexivity|].
  destruct (script_guard cfg && (last =? 60) && starts_slash_script v) eqn:E2; [left; reflexivity|].
  right. split; [lia|]. intros Hg Hl. rewrite Hg in E2. cbn [andb] in E2.
  replace (last =? 60) with true in E2 by lia. exact E2.
Qed.
