(* C01 specification, independent of esbuild's code.
   (1) UTF-8 (RFC 3629 / Unicode ch.3 D92, table 3-7): source bytes -> code points
       (strict: no overlong forms, no surrogates, <= U+10FFFF).
   (2) ECMA-262 (2023) 12.9.4 String Literals: the String Value SV of a
       StringLiteral, and 12.9.6 Template Literal Lexical Components: the
       Template Value TV (cooked) of a NoSubstitutionTemplate, as a
       deterministic recogniser over code points producing UTF-16 code units.
       Strict-mode / template rules are used for the legacy forms: \1..\9 and
       \0 followed by a DecimalDigit are rejected (they are errors in strict
       code and in untagged templates), so a literal accepted here has this
       value in every mode.
   The recogniser is a state machine whose states are the positions inside
   the productions:
       Normal                  between characters of the body
       Esc                     after `\`                 (EscapeSequence / LineContinuation)
       EscCR                   after `\` <CR>            (LineTerminatorSequence <CR><LF>)
       Zero                    after `\0`                ([lookahead not DecimalDigit])
       Hex1, Hex2 v            inside \x HexDigit HexDigit
       U0, U4 k v              inside \u Hex4Digits      (k digits still to read)
       UB0, UB v               inside \u{ CodePoint }    (MV <= 0x10FFFF)
       CR                      template: after a raw <CR> (TV of <CR><LF> is <LF>)
       Dollar                  template: after `$`       (`${` would start a substitution)
       Done                    after the closing quote
*)
From V Require Import Common.Base.

(* ---------- UTF-8 ---------- *)
Definition cont_byte (b : Z) : bool := (128 <=? b) && (b <=? 191).
Definition scalar (cp : Z) : bool := (0 <=? cp) && (cp <=? 1114111) && negb ((55296 <=? cp) && (cp <=? 57343)).

Fixpoint utf8_decode (b : bytes) : option (list Z) :=
  match b with
  | [] => Some []
  | b0 :: t =>
      if (0 <=? b0) && (b0 <=? 127) then option_map (cons b0) (utf8_decode t)
      else if (192 <=? b0) && (b0 <=? 223) then
        match t with
        | b1 :: t1 =>
            let cp := (b0 - 192) * 64 + (b1 - 128) in
            if cont_byte b1 && (128 <=? cp) then option_map (cons cp) (utf8_decode t1) else None
        | _ => None
        end
      else if (224 <=? b0) && (b0 <=? 239) then
        match t with
        | b1 :: b2 :: t2 =>
            let cp := (b0 - 224) * 4096 + (b1 - 128) * 64 + (b2 - 128) in
            if cont_byte b1 && cont_byte b2 && (2048 <=? cp) && scalar cp
            then option_map (cons cp) (utf8_decode t2) else None
        | _ => None
        end
      else if (240 <=? b0) && (b0 <=? 247) then
        match t with
        | b1 :: b2 :: b3 :: t3 =>
            let cp := (b0 - 240) * 262144 + (b1 - 128) * 4096 + (b2 - 128) * 64 + (b3 - 128) in
            if cont_byte b1 && cont_byte b2 && cont_byte b3 && (65536 <=? cp) && scalar cp
            then option_map (cons cp) (utf8_decode t3) else None
        | _ => None
        end
      else None
  end.

(* ---------- String Value / Template Value ---------- *)
Inductive kind := KSingle | KDouble | KTemplate.
Definition quote_of (k : kind) : Z := match k with KSingle => 39 | KDouble => 34 | KTemplate => 96 end.
Definition kind_of (q : Z) : option kind :=
  if q =? 39 then Some KSingle else if q =? 34 then Some KDouble else if q =? 96 then Some KTemplate else None.

Inductive st :=
| Normal | Esc | EscCR | Zero | Hex1 | Hex2 (v : Z) | U0 | U4 (k : nat) (v : Z) | UB0 | UB (v : Z)
| CR | Dollar | Done.

(* UTF16EncodeCodePoint (11.1.1) *)
Definition utf16_units (cp : Z) : list Z :=
  if cp <=? 65535 then [cp]
  else [55296 + (cp - 65536) / 1024; 56320 + (cp - 65536) mod 1024].

(* MV of a HexDigit *)
Definition hexval (c : Z) : option Z :=
  if (48 <=? c) && (c <=? 57) then Some (c - 48)
  else if (97 <=? c) && (c <=? 102) then Some (c - 87)
  else if (65 <=? c) && (c <=? 70) then Some (c - 55)
  else None.

Definition is_digit (c : Z) : bool := (48 <=? c) && (c <=? 57).

(* a character at a position where a new StringCharacter / TemplateCharacter may start *)
Definition normal (k : kind) (c : Z) : option (list Z * st) :=
  if c =? quote_of k then Some ([], Done)
  else if c =? 92 then Some ([], Esc)
  else match k with
       | KTemplate =>
           if c =? 13 then Some ([10], CR)            (* <CR> and <CR><LF> cook to <LF> *)
           else if c =? 36 then Some ([36], Dollar)   (* `$` [lookahead != `{`] *)
           else Some (utf16_units c, Normal)
       | _ =>
           if (c =? 10) || (c =? 13) then None        (* LineTerminator other than <LS> <PS> *)
           else Some (utf16_units c, Normal)
       end.

Definition step (k : kind) (s : st) (c : Z) : option (list Z * st) :=
  match s with
  | Done => None
  | Normal => normal k c
  | Zero => if is_digit c then None else normal k c
  | CR => if c =? 10 then Some ([], Normal) else normal k c
  | Dollar => if c =? 123 then None else normal k c
  | EscCR => if c =? 10 then Some ([], Normal) else normal k c
  | Esc =>
      if c =? 39 then Some ([39], Normal) else if c =? 34 then Some ([34], Normal)
      else if c =? 92 then Some ([92], Normal)
      else if c =? 98 then Some ([8], Normal) else if c =? 102 then Some ([12], Normal)
      else if c =? 110 then Some ([10], Normal) else if c =? 114 then Some ([13], Normal)
      else if c =? 116 then Some ([9], Normal) else if c =? 118 then Some ([11], Normal)
      else if c =? 48 then Some ([0], Zero)
      else if is_digit c then None                     (* legacy octal, \8 \9 *)
      else if c =? 120 then Some ([], Hex1)
      else if c =? 117 then Some ([], U0)
      else if (c =? 10) || (c =? 8232) || (c =? 8233) then Some ([], Normal)   (* LineContinuation *)
      else if c =? 13 then Some ([], EscCR)
      else Some (utf16_units c, Normal)                (* NonEscapeCharacter *)
  | Hex1 => match hexval c with Some d => Some ([], Hex2 d) | None => None end
  | Hex2 v => match hexval c with Some d => Some ([v * 16 + d], Normal) | None => None end
  | U0 => if c =? 123 then Some ([], UB0)
          else match hexval c with Some d => Some ([], U4 3 d) | None => None end
  | U4 k v =>
      match hexval c with
      | Some d => match k with
                  | S (S k') => Some ([], U4 (S k') (v * 16 + d))
                  | _ => Some ([v * 16 + d], Normal)
                  end
      | None => None
      end
  | UB0 => match hexval c with Some d => Some ([], UB d) | None => None end
  | UB v =>
      if c =? 125 then Some (utf16_units v, Normal)
      else match hexval c with
           | Some d => if 1114111 <? v * 16 + d then None else Some ([], UB (v * 16 + d))
           | None => None
           end
  end.

Fixpoint run (k : kind) (s : st) (cps : list Z) : option (list Z) :=
  match cps with
  | [] => match s with Done => Some [] | _ => None end
  | c :: r =>
      match step k s c with
      | None => None
      | Some (emit, s') => option_map (app emit) (run k s' r)
      end
  end.

(* value of a complete literal given as code points: quote, body, same quote *)
Definition literal_value_cps (cps : list Z) : option (list Z) :=
  match cps with
  | q :: body => match kind_of q with Some k => run k Normal body | None => None end
  | [] => None
  end.

(* value of a complete literal given as UTF-8 source bytes *)
Definition literal_value (src : bytes) : option (list Z) :=
  match utf8_decode src with Some cps => literal_value_cps cps | None => None end.

(* ---------- IdentifierName String Value (12.7.1) ----------
   each \uHHHH / \u{H+} contributes its code point, every other code point
   itself; the result is the UTF-16 encoding of the code point sequence. *)
Inductive ist := INormal | IEsc | IU0 | IU4 (k : nat) (v : Z) | IUB0 | IUB (v : Z).
Definition istep (s : ist) (c : Z) : option (list Z * ist) :=
  match s with
  | INormal => if c =? 92 then Some ([], IEsc) else Some ([c], INormal)
  | IEsc => if c =? 117 then Some ([], IU0) else None
  | IU0 => if c =? 123 then Some ([], IUB0)
           else match hexval c with Some d => Some ([], IU4 3 d) | None => None end
  | IU4 k v =>
      match hexval c with
      | Some d => match k with
                  | S (S k') => Some ([], IU4 (S k') (v * 16 + d))
                  | _ => Some ([v * 16 + d], INormal)
                  end
      | None => None
      end
  | IUB0 => match hexval c with Some d => Some ([], IUB d) | None => None end
  | IUB v =>
      if c =? 125 then Some ([v], INormal)
      else match hexval c with
           | Some d => if 1114111 <? v * 16 + d then None else Some ([], IUB (v * 16 + d))
           | None => None
           end
  end.
(* code points denoted by an IdentifierName source text *)
Fixpoint irun (s : ist) (cps : list Z) : option (list Z) :=
  match cps with
  | [] => match s with INormal => Some [] | _ => None end
  | c :: r => match istep s c with
              | None => None
              | Some (emit, s') => option_map (app emit) (irun s' r)
              end
  end.
Definition ident_value (src : bytes) : option (list Z) :=
  match utf8_decode src with
  | Some cps => option_map (flat_map utf16_units) (irun INormal cps)
  | None => None
  end.

(* ---------- PropertyName (13.2.5): LiteralPropertyName :: IdentifierName | StringLiteral ----------
   the property key (as UTF-16 code units) a printed key text denotes *)
Definition key_value (out : bytes) : option (list Z) :=
  match out with
  | q :: _ => if (q =? 34) || (q =? 39) || (q =? 96) then literal_value out else ident_value out
  | [] => None
  end.

(* MemberExpression . IdentifierName  /  MemberExpression [ StringLiteral ]:
   the property key denoted by the text printed after the object expression *)
Definition member_key (out : bytes) : option (list Z) :=
  match out with
  | 46 :: rest => ident_value rest
  | 91 :: rest => match rev rest with
                  | 93 :: inner_rev => literal_value (rev inner_rev)
                  | _ => None
                  end
  | _ => None
  end.
