(* C01 model and specification: tagged templates.
   /repo/internal/js_printer/js_printer.go printExpr ETemplate with a tag:
     "`" HeadRaw ( "${" expr "}" TailRaw )* "`"   - the raw strings are printed
   verbatim (p.print), no wrapping, no escaping.  The raw strings come from
   js_lexer.CookedAndRawTemplateContents: the source text of the chunk with
   <CR><LF> and <CR> replaced by <LF>.
   Specification (ECMA-262 12.9.6 Static Semantics: TRV): the Template Raw
   Value of each chunk; a substitution is the marker SUBST as in Template.v. *)
From V Require Import Common.Base C01.Utf C01.Quote C01.SpecLiteral C01.Template.

(* bytes printed after the tag *)
Definition print_tagged (head : bytes) (tails : list bytes) : bytes :=
  [96] ++ head ++ flat_map (fun t => subst_bytes ++ t) tails ++ [96].
(* the same as code points with one marker per substitution *)
Definition tagged_cps (head : list Z) (tails : list (list Z)) : list Z :=
  96 :: head ++ flat_map (fun t => SUBST :: t) tails ++ [96].

Inductive rst := RNormal | REsc | RCR | RDollar | RDone.
Definition rnormal (c : Z) : option (list Z * rst) :=
  if c =? 96 then Some ([], RDone)
  else if c =? 92 then Some ([92], REsc)            (* TRV of \ EscapeSequence / NotEscapeSequence / LineContinuation: the source text *)
  else if c =? 13 then Some ([10], RCR)             (* TRV of <CR> and <CR><LF> is <LF> *)
  else if c =? 36 then Some ([36], RDollar)         (* `$` [lookahead != `{`] *)
  else Some (utf16_units c, RNormal).
Definition rstep (s : rst) (c : Z) : option (list Z * rst) :=
  match s with
  | RDone => None
  | RNormal => rnormal c
  | RCR => if c =? 10 then Some ([], RNormal) else rnormal c
  | RDollar => if c =? 123 then None else rnormal c
  | REsc => if c =? 13 then Some ([10], RCR) else Some (utf16_units c, RNormal)
  end.
Definition raccepting (s : rst) : bool :=
  match s with RNormal | RCR | RDollar => true | _ => false end.
Fixpoint rrun (s : rst) (cps : list Z) (cur : list Z) : option (list (list Z)) :=
  match cps with
  | [] => match s with RDone => Some [cur] | _ => None end
  | c :: r =>
      if c =? SUBST then
        (if raccepting s then option_map (cons cur) (rrun RNormal r []) else None)
      else match rstep s c with
           | Some (emit, s') => rrun s' r (cur ++ emit)
           | None => None
           end
  end.
(* the raw strings of a template given as code points *)
Definition raw_value (cps : list Z) : option (list (list Z)) :=
  match cps with
  | 96 :: body => rrun RNormal body []
  | _ => None
  end.

(* a raw chunk the lexer can have stored: <CR> already normalised away, and a
   complete chunk (no unescaped backtick or ${ inside, no trailing backslash) *)
Definition lexer_raw (x : list Z) : Prop :=
  ~ In 13 x /\ ~ In SUBST x /\ exists w, rrun RNormal (x ++ [96]) [] = Some [w].
