(* C01 property theorems. This file contains only statements closed by
   [exact lemma] and Print Assumptions. *)
From V Require Import Common.Base C01.Utf C01.Quote C01.SpecLiteral C01.QuoteProofs.

(* printQuotedUTF16: for EVERY sequence of UTF-16 code units (lone surrogates
   included), every configuration (charset, unicode-escape support,
   inline-script guard, line limit and wrapping column, minify-syntax quote
   cost, template support, backtick allowed or not), the bytes printed are a
   string literal / no-substitution template whose ECMA-262 String Value /
   Template Value is exactly the input sequence. *)
Theorem quote_roundtrip : forall cfg allow_backtick nowrap prefix u,
  all_u16 u -> literal_value (print_quoted cfg allow_backtick nowrap prefix u) = Some u.
Proof. exact quote_roundtrip_all. Qed.
Print Assumptions quote_roundtrip.

(* printUnquotedUTF16 between any of the three quote characters (this is how
   template literals and PreferTemplate strings are printed) *)
Theorem unquoted_roundtrip : forall cfg k nowrap prefix u,
  all_u16 u ->
  literal_value (quote_of k :: print_unquoted cfg (quote_of k) nowrap prefix u ++ [quote_of k]) = Some u.
Proof. exact unquoted_roundtrip_all. Qed.
Print Assumptions unquoted_roundtrip.

(* ASCII charset: every output byte is below 128 *)
Theorem quote_ascii : forall cfg allow_backtick nowrap prefix u,
  ascii_only cfg = true -> all_u16 u ->
  Forall (fun b => 0 <= b < 128) (print_quoted cfg allow_backtick nowrap prefix u).
Proof. exact quote_ascii_all. Qed.
Print Assumptions quote_ascii.

(* the output never contains a raw CR, U+2028 or U+2029, and contains a raw
   LF only inside a template or as the escaped newline of line wrapping *)
Theorem quote_no_raw_line_terminator : forall cfg k nowrap prefix u,
  all_u16 u ->
  let nolf := negb (quote_of k =? 96) && negb ((0 <? line_limit cfg) && negb nowrap) in
  exists cps, utf8_decode (print_unquoted cfg (quote_of k) nowrap prefix u) = Some cps /\
              Forall (no_lt nolf) cps.
Proof. exact quote_no_raw_lt_all. Qed.
Print Assumptions quote_no_raw_line_terminator.
