(* C01 property theorems. This file contains only statements closed by
   [exact lemma] and Print Assumptions. *)
From V Require Import Common.Base C01.Utf C01.Quote C01.SpecLiteral C01.QuoteProofs.

Theorem hex_digit_roundtrip : forall d, 0 <= d < 16 -> hexval (hexc d) = Some d.
Proof. exact hexc_hexval. Qed.
Print Assumptions hex_digit_roundtrip.
