(* C01 property theorems. This file contains only statements closed by
   [exact lemma] and Print Assumptions. *)
From V Require Import Common.Base C01.Utf C01.Quote C01.SpecLiteral C01.QuoteProofs.
From V Require Import C01.Num C01.SpecNumeric C01.NumProofs C01.NumProofs2 C01.NumFlag C01.ScriptProofs.
From V Require Import C13.Token C13.ParseSpec C01.CommaTrace.
From V Require Import gen.IdTablesGen C01.Keys C01.KeysProofs.
From V Require Import C01.Template C01.TemplateProofs C01.Tagged C01.TaggedProofs C01.Directive.

(* printQuotedUTF16: for EVERY sequence of UTF-16 code units (lone surrogates
   included), every configuration (charset, unicode-escape support,
   inline-script guard, line limit and wrapping column, minify-syntax quote
   cost, template support, backtick allowed or not), the bytes printed are a
   string literal / no-substitution template whose ECMA-262 String Value /
   Template Value is exactly the input sequence. *)
Theorem quote_roundtrip : forall cfg allow_backtick nowrap prefix u,
  all_u16 u -> literal_value (print_quoted cfg allow_backtick nowrap prefix u) = Some u.
Proof. exact quote_roundtrip_all. Qed.
Print Assumptions quote_roundtrip.

(* printUnquotedUTF16 between any of the three quote characters (this is how
   template literals and PreferTemplate strings are printed) *)
Theorem unquoted_roundtrip : forall cfg k nowrap prefix u,
  all_u16 u ->
  literal_value (quote_of k :: print_unquoted cfg (quote_of k) nowrap prefix u ++ [quote_of k]) = Some u.
Proof. exact unquoted_roundtrip_all. Qed.
Print Assumptions unquoted_roundtrip.

(* ASCII charset: every output byte is below 128 *)
Theorem quote_ascii : forall cfg allow_backtick nowrap prefix u,
  ascii_only cfg = true -> all_u16 u ->
  Forall (fun b => 0 <= b < 128) (print_quoted cfg allow_backtick nowrap prefix u).
Proof. exact quote_ascii_all. Qed.
Print Assumptions quote_ascii.

(* the output never contains a raw CR, U+2028 or U+2029, and contains a raw
   LF only inside a template or as the escaped newline of line wrapping *)
Theorem quote_no_raw_line_terminator : forall cfg k nowrap prefix u,
  all_u16 u ->
  let nolf := negb (quote_of k =? 96) && negb ((0 <? line_limit cfg) && negb nowrap) in
  exists cps, utf8_decode (print_unquoted cfg (quote_of k) nowrap prefix u) = Some cps /\
              Forall (no_lt nolf) cps.
Proof. exact quote_no_raw_lt_all. Qed.
Print Assumptions quote_no_raw_line_terminator.

(* with the inline-script guard on (platform browser), the printed literal
   never contains "</script" in any ASCII letter case: every UTF-16 sequence,
   every other setting (wrapping, charset, quote choice) *)
Theorem quote_no_script_close : forall cfg allow_backtick nowrap prefix u,
  script_guard cfg = true -> all_u16 u ->
  exists cps, utf8_decode (print_quoted cfg allow_backtick nowrap prefix u) = Some cps /\
              contains_ci script_close cps = false.
Proof. exact quote_no_script_close_bytes. Qed.
Print Assumptions quote_no_script_close.

(* printIdentifierUTF16: when it returns (it panics for a non-BMP name under
   ASCII without \u{...} support), the text printed denotes, as an ECMA-262
   IdentifierName (escapes \uHHHH and \u{H+} resolved), exactly the name:
   every well-formed UTF-16 name without a backslash, every configuration *)
Theorem ident_roundtrip : forall cfg name out,
  all_u16 name -> wf_utf16 name = true -> ~ In 92 name ->
  print_identifier_utf16 cfg name = Some out -> ident_value out = Some name.
Proof. exact ident_roundtrip_all. Qed.
Print Assumptions ident_roundtrip.

(* helpers.StringToUTF16 (helpers.UTF16ToString u) = u is FALSE for lone
   surrogates (witness [0xD800] -> ED A0 80 -> FFFD FFFD FFFD); this is the path
   printQuotedUTF8 takes (import paths, directives, clause aliases), not the
   path of string literals (which stay UTF-16). Replayed on the real
   helpers by the `utf` correspondence family. *)
Theorem string_to_utf16_roundtrip_refuted :
  exists u, all_u16 u /\ StringToUTF16 (UTF16ToString u) <> u.
Proof. exact string_to_utf16_not_inverse. Qed.
Print Assumptions string_to_utf16_roundtrip_refuted.

(* ---- numbers ---- *)

(* the rewriting printNonNegativeFloat applies to FormatFloat's text keeps the
   exact mathematical value (ECMA-262 MV), for EVERY text of the shape
   strconv.FormatFloat(v,'g'/'e',-1,64) can produce for a finite v >= 0
   ([float_text]: digits | digits.digits | 0.digits not all zero |
   digits[.digits]e[+-]digits with a non-zero exponent), in fact for a wider
   set (any number of integer digits, optional sign, leading zeros in the
   exponent).  Examples: "1000" => "1e3", "0.001" => "1e-3" / ".001",
   "1.2e+24" => "12e23", "1.5e-07" => "15e-8", "1.2e+01" => "12", "1e+21" => "1e21". *)
Theorem shorten_value : forall mw s,
  float_text s -> exists a b, mv (shorten mw s) = Some a /\ mv s = Some b /\ dec_eq a b.
Proof. exact shorten_value_all. Qed.
Print Assumptions shorten_value.

(* the executable recogniser the correspondence run evaluates on every text
   strconv really produced accepts only texts of that shape *)
Theorem float_text_recogniser_sound : forall s, float_text_b s = true -> float_text s.
Proof. exact float_text_b_sound. Qed.
Print Assumptions float_text_recogniser_sound.

(* "0x" ++ FormatUint(v,16) is a HexIntegerLiteral whose MV is exactly v *)
Theorem hex_path_exact : forall v, 0 <= v < 16 ^ 64 -> mv ([48; 120] ++ to_hex v) = Some (v, 0).
Proof. exact hex_literal_value. Qed.
Print Assumptions hex_path_exact.

(* the < 1000 fast path prints a DecimalIntegerLiteral whose MV is exactly v *)
Theorem small_int_exact : forall v, 0 <= v < 10 ^ 64 -> mv (smallIntToBytes v) = Some (v, 0).
Proof. exact small_int_value. Qed.
Print Assumptions small_int_exact.

(* printNonNegativeFloat as a whole: the bytes printed are a JS numeric literal
   denoting either exactly the value of FormatFloat's text or exactly the
   float's integer value (small-integer and hex paths) *)
Theorem print_float_value : forall mw bits s,
  0 <= bits -> float_text s ->
  let out := fst (printNonNegativeFloat mw bits s) in
  value_preserved out s \/ exists v, float_int bits = Some v /\ mv out = Some (v, 0).
Proof. exact print_float_value_all. Qed.
Print Assumptions print_float_value.

(* the same with the trusted facts about strconv named: IF FormatFloat's text
   has the documented shape THEN for every float64 the printed literal denotes
   the value of that text or exactly the float.  (That the text's value rounds
   back to the float - the shortest-round-trip property - is the remaining
   trusted fact; the harness checks it per case with exact arithmetic.) *)
Theorem print_number_literal_value : forall (FormatFloat : Z -> bytes),
  (forall bits, 0 <= bits -> float_text (FormatFloat bits)) ->
  forall mw bits, 0 <= bits ->
    let out := fst (printNonNegativeFloat mw bits (FormatFloat bits)) in
    value_preserved out (FormatFloat bits) \/ exists v, float_int bits = Some v /\ mv out = Some (v, 0).
Proof. exact print_number_literal_value_all. Qed.
Print Assumptions print_number_literal_value.

(* needSpaceBeforeDot: for every float and every FormatFloat text shape the flag
   printNonNegativeFloat sets is true exactly when the bytes printed are a bare
   run of decimal digits - the only case in which a following "." would be
   read as a decimal point ("1 .toString()"); "1e3", ".5", "1.5", "0x10" need no space *)
Theorem shorten_dot_flag : forall mw bits s,
  0 <= bits -> float_text s ->
  snd (printNonNegativeFloat mw bits s) = forallb dig (fst (printNonNegativeFloat mw bits s)).
Proof. exact shorten_dot_flag_all. Qed.
Print Assumptions shorten_dot_flag.

(* ---- expressions: the C01 side of C13's print_parse_roundtrip ---- *)

(* C13 proves that printing then parsing a tree gives back [norm tree] (comma
   re-nesting).  On the fragment norm acts on (identifiers, literals, member /
   index access, unary, binary, assignment, comma, conditional: [cexpr], embedded
   into C13's tree type by [embed]) C13's norm is [cnorm] ... *)
Theorem c13_norm_on_fragment : forall e, norm (embed e) = embed (cnorm e).
Proof. exact norm_embed_all. Qed.
Print Assumptions c13_norm_on_fragment.

(* ... and [cnorm] preserves behaviour: in EVERY compositional semantics in
   which `l , r` is "evaluate l, GetValue, evaluate r, GetValue" (ECMA-262
   13.16.1) and GetValue is idempotent, a tree and its normal form have the
   same meaning (value, final state, failure). *)
Theorem norm_preserves_meaning :
  forall (S V : Type) m_id m_num m_re m_dot m_un m_bin m_cond m_index,
  (forall f f' s, den_eq S V f f' -> den_eq S V (m_dot f s) (m_dot f' s)) ->
  (forall o f f', den_eq S V f f' -> den_eq S V (m_un o f) (m_un o f')) ->
  (forall o f f' g g', den_eq S V f f' -> den_eq S V g g' -> den_eq S V (m_bin o f g) (m_bin o f' g')) ->
  (forall c c' y y' n n', den_eq S V c c' -> den_eq S V y y' -> den_eq S V n n' ->
     den_eq S V (m_cond c y n) (m_cond c' y' n')) ->
  (forall f f' g g', den_eq S V f f' -> den_eq S V g g' -> den_eq S V (m_index f g) (m_index f' g')) ->
  forall getvalue : V -> S -> option (V * S),
  (forall v s w s', getvalue v s = Some (w, s') -> getvalue w s' = Some (w, s')) ->
  forall e,
    den_eq S V (meaning S V m_id m_num m_re m_dot m_un m_bin m_cond m_index getvalue (cnorm e))
               (meaning S V m_id m_num m_re m_dot m_un m_bin m_cond m_index getvalue e).
Proof. exact norm_meaning_all. Qed.
Print Assumptions norm_preserves_meaning.

(* instance: a left-to-right trace semantics with a variable store, Read /
   Write / GetProp / GetIndex events, References and GetValue, simple, compound
   and logical assignment, short-circuit && || ??, conditional, ++/--,
   arithmetic with failing division: for every tree and every initial state,
   the same value, the same final store and the same event trace (or both fail) *)
Theorem norm_preserves_trace : forall e s, trace_eval (cnorm e) s = trace_eval e s.
Proof. exact norm_trace_all. Qed.
Print Assumptions norm_preserves_trace.

(* ---- property keys ---- *)

(* the identifier tables REGENERATED from internal/js_ast/unicode.go on this
   run contain no surrogate code point and stay within 0..U+10FFFF (this is
   what makes "esbuild calls it an identifier" imply well-formed UTF-16) *)
Theorem id_tables_well_formed :
  table_ok id_start_es5_and_esnext = true /\ table_ok id_continue_es5_and_esnext = true.
Proof. exact (conj id_start_table_ok id_continue_table_ok). Qed.
Print Assumptions id_tables_well_formed.

(* printProperty with a string key, for EVERY UTF-16 key string, every
   configuration and either value of PreferQuotedKey: the printer never reaches
   the "Cannot encode identifier" panic, and the text it prints for the key -
   an IdentifierName (`{a: 1}`, `{\u00E9: 1}`, `{\u{20BB7}: 1}`) or a string
   literal (`{"a b": 1}`) - denotes exactly the same property key. *)
Theorem string_key_identity : forall cfg prefer_quoted key,
  all_u16 key -> exists out, print_string_key cfg prefer_quoted key = Some out /\ key_value out = Some key.
Proof. exact string_key_identity_all. Qed.
Print Assumptions string_key_identity.

(* member access `obj.name` / `obj["name"]` (EDot): for EVERY name (any
   sequence of Unicode scalar values, i.e. any Go string that is valid UTF-8),
   every configuration and column, the printer's choice between ".name"
   (raw, or escaped by QuoteIdentifier under the ASCII charset) and ["name"]
   yields a text denoting exactly the same property key; QuoteIdentifier's
   "Cannot encode identifier" panic is unreachable. *)
Theorem member_name_identity : forall cfg linelen rs,
  forallb scalar rs = true ->
  exists out, print_dot_name cfg linelen rs = Some out /\ member_key out = Some (flat_map rune_units rs).
Proof. exact member_name_identity_all. Qed.
Print Assumptions member_name_identity.

(* ---- templates with substitutions, BigInt, regular expressions ---- *)

(* an untagged template literal with any number of substitutions: for EVERY
   cooked head and tails (all UTF-16 sequences, lone surrogates included),
   every configuration and every column, the code points printed (each
   `${ expression }` standing as one marker) are split by the ECMA-262
   template lexical grammar (TemplateHead / Middle / Tail, TV with CR/CRLF
   cooking, `$` not followed by `{`, \0 not followed by a digit, line
   continuations from --line-limit) into exactly the cooked chunks.  What the
   expressions print as is outside this theorem. *)
Theorem template_roundtrip : forall cfg prefix head tails,
  all_u16 head -> Forall all_u16 tails ->
  template_value (template_cps cfg prefix head tails) = Some (head :: tails).
Proof. exact template_roundtrip_all. Qed.
Print Assumptions template_roundtrip.

(* under the ASCII charset everything the template printer emits outside the
   substitutions is below 128 *)
Theorem template_ascii : forall cfg prefix head tails,
  ascii_only cfg = true -> all_u16 head -> Forall all_u16 tails ->
  Forall (fun x => x = SUBST \/ 0 <= x < 128) (template_cps cfg prefix head tails).
Proof. exact template_cps_ascii. Qed.
Print Assumptions template_ascii.

(* BigInt and regular expression literals are printed verbatim (digits / body
   and flags byte for byte), preceded by at most one space *)
Theorem bigint_printed_verbatim : forall js v,
  exists sp, print_bigint js v = sp ++ v ++ [110] /\ (sp = [] \/ sp = [32]).
Proof. exact bigint_verbatim. Qed.
Print Assumptions bigint_printed_verbatim.
Theorem regexp_printed_verbatim : forall cfg js v,
  exists sp, print_regexp cfg js v = sp ++ v /\ (sp = [] \/ sp = [32]).
Proof. exact regexp_verbatim. Qed.
Print Assumptions regexp_printed_verbatim.
(* ... and the space is there whenever the previous byte is "/" (no line
   comment, on every platform: /repo fix c46361e) or, with the inline-script
   guard, "<" before a text starting with /script in any ASCII case *)
Theorem regexp_boundary_guard : forall cfg js last v,
  print_regexp cfg (js ++ [last]) v = [32] ++ v \/
  (last <> 47 /\ (script_guard cfg = true -> last = 60 -> starts_slash_script v = false)).
Proof. exact regexp_guard. Qed.
Print Assumptions regexp_boundary_guard.

(* ---- tagged templates ---- *)

(* a tagged template is printed as "`" HeadRaw ( ${ expr } TailRaw )* "`" with
   the stored raw strings verbatim.  For every raw text the lexer can have
   stored (js_lexer.CookedAndRawTemplateContents: the chunk's source text with
   <CR><LF> and <CR> already replaced by <LF>; a complete chunk: no unescaped
   backtick or ${ inside, no trailing backslash - [lexer_raw]) and any number
   of substitutions, the Template Raw Values (ECMA-262 12.9.6 TRV) of the
   printed template are exactly the stored raw strings (as UTF-16).  Since the
   cooked strings (including `undefined` for an invalid escape, ES2018) are a
   function of the raw text, they are preserved as well. *)
Theorem tagged_template_raw_roundtrip : forall head tails,
  lexer_raw head -> Forall lexer_raw tails ->
  raw_value (tagged_cps head tails) = Some (map units (head :: tails)).
Proof. exact tagged_raw_roundtrip_all. Qed.
Print Assumptions tagged_template_raw_roundtrip.

(* the bytes of the model are the rendering of those code points (one
   `${this}` per marker in the correspondence run) *)
Theorem tagged_template_bytes : forall head tails,
  render (tagged_cps head tails) = print_tagged (to_bytes head) (map to_bytes tails)
  \/ In SUBST head \/ Exists (In SUBST) tails.
Proof. exact print_tagged_render. Qed.
Print Assumptions tagged_template_bytes.

(* ---- directive prologue ---- *)

(* The statement that SHOULD hold: transforming a body does not change whether
   it is strict,
       forall cfg src, strict_preserved cfg src
   i.e. prologue_strict (roundtrip cfg src) = prologue_strict src, where
   roundtrip is the end-to-end model of js_parser + js_printer on the
   statements that matter (C01/Directive.v, tied to api.Transform + node by the
   `directive` correspondence family) and prologue_strict is ECMA-262 11.2.1.
   It is FALSE of the faithful model; the four witnesses are the recorded known
   findings, replayed on the real code by the fixed corpus on every run:
     wit_A   'use\x20strict'; ...          (escaped text is not a Use Strict Directive; printed unescaped)
     wit_A2  'use\u0020strict'; ...
     wit_B   ('use strict'); ...           (parenthesised string statement printed without parentheses)
     wit_C   'a' + 'b'; 'use strict'; ...  (dropped statement promotes the string into the prologue)
   In all four the source body is sloppy and the printed body is strict. *)
Theorem strict_preserved_refuted :
  ~ strict_preserved cfg_default wit_A /\ ~ strict_preserved cfg_default wit_A2 /\
  ~ strict_preserved cfg_default wit_B /\ ~ strict_preserved cfg_default wit_C.
Proof. exact strict_preserved_refuted_witnesses. Qed.
Print Assumptions strict_preserved_refuted.
