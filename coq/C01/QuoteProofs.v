(* C01 lemmas about the string printer model. *)
From V Require Import Common.Base C01.Utf C01.Quote C01.SpecLiteral.

Lemma hexc_hexval d : 0 <= d < 16 -> hexval (hexc d) = Some d.
Proof.
  intros H. unfold hexc, hexval.
  destruct (d <? 10) eqn:E.
  - replace ((48 <=? 48 + d) && (48 + d <=? 57)) with true by lia. f_equal. lia.
  - replace ((48 <=? 55 + d) && (55 + d <=? 57)) with false by lia.
    replace ((97 <=? 55 + d) && (55 + d <=? 102)) with false by lia.
    replace ((65 <=? 55 + d) && (55 + d <=? 70)) with true by lia. f_equal. lia.
Qed.

(* ---------- UTF-8 layer ---------- *)
Lemma scalar_EncodeRune cp : scalar cp = true -> EncodeRune cp = encodeWTF8Rune cp.
Proof.
  unfold scalar, EncodeRune, is_surrogate, MaxRune. intros H.
  replace ((cp <? 0) || (1114111 <? cp) || ((55296 <=? cp) && (cp <=? 57343))) with false by lia.
  reflexivity.
Qed.

Lemma utf8_enc_dec cp rest :
  scalar cp = true ->
  utf8_decode (EncodeRune cp ++ rest) = option_map (cons cp) (utf8_decode rest).
Proof.
  intros H. rewrite (scalar_EncodeRune _ H). unfold scalar in H.
  unfold encodeWTF8Rune, MaxRune.
  destruct (cp <? 0) eqn:E0; [lia|].
  destruct (cp <=? 127) eqn:E1.
  { cbn [app utf8_decode]. replace ((0 <=? cp) && (cp <=? 127)) with true by lia. reflexivity. }
  destruct (cp <=? 2047) eqn:E2.
  { cbn [app utf8_decode].
    replace ((0 <=? 192 + cp / 64) && (192 + cp / 64 <=? 127)) with false by lia.
    replace ((192 <=? 192 + cp / 64) && (192 + cp / 64 <=? 223)) with true by lia.
    unfold cont_byte.
    replace ((128 <=? 128 + cp mod 64) && (128 + cp mod 64 <=? 191)) with true by lia.
    replace ((192 + cp / 64 - 192) * 64 + (128 + cp mod 64 - 128)) with cp by lia.
    replace (128 <=? cp) with true by lia. reflexivity. }
  destruct (1114111 <? cp) eqn:E3; [lia|].
  destruct (cp <=? 65535) eqn:E4.
  { cbn [app utf8_decode].
    replace ((0 <=? 224 + cp / 4096) && (224 + cp / 4096 <=? 127)) with false by lia.
    replace ((192 <=? 224 + cp / 4096) && (224 + cp / 4096 <=? 223)) with false by lia.
    replace ((224 <=? 224 + cp / 4096) && (224 + cp / 4096 <=? 239)) with true by lia.
    unfold cont_byte.
    replace ((128 <=? 128 + (cp / 64) mod 64) && (128 + (cp / 64) mod 64 <=? 191)) with true by lia.
    replace ((128 <=? 128 + cp mod 64) && (128 + cp mod 64 <=? 191)) with true by lia.
    replace ((224 + cp / 4096 - 224) * 4096 + (128 + (cp / 64) mod 64 - 128) * 64 + (128 + cp mod 64 - 128)) with cp by lia.
    replace (2048 <=? cp) with true by lia. unfold scalar. rewrite H. reflexivity. }
  cbn [app utf8_decode].
  replace ((0 <=? 240 + cp / 262144) && (240 + cp / 262144 <=? 127)) with false by lia.
  replace ((192 <=? 240 + cp / 262144) && (240 + cp / 262144 <=? 223)) with false by lia.
  replace ((224 <=? 240 + cp / 262144) && (240 + cp / 262144 <=? 239)) with false by lia.
  replace ((240 <=? 240 + cp / 262144) && (240 + cp / 262144 <=? 247)) with true by lia.
  unfold cont_byte.
  replace ((128 <=? 128 + (cp / 4096) mod 64) && (128 + (cp / 4096) mod 64 <=? 191)) with true by lia.
  replace ((128 <=? 128 + (cp / 64) mod 64) && (128 + (cp / 64) mod 64 <=? 191)) with true by lia.
  replace ((128 <=? 128 + cp mod 64) && (128 + cp mod 64 <=? 191)) with true by lia.
  replace ((240 + cp / 262144 - 240) * 262144 + (128 + (cp / 4096) mod 64 - 128) * 4096
           + (128 + (cp / 64) mod 64 - 128) * 64 + (128 + cp mod 64 - 128)) with cp by lia.
  replace (65536 <=? cp) with true by lia. unfold scalar. rewrite H. reflexivity.
Qed.

Lemma utf8_roundtrip cps :
  forallb scalar cps = true -> utf8_decode (to_bytes cps) = Some cps.
Proof.
  induction cps as [|c r IH]; intros H; [reflexivity|].
  cbn [forallb] in H. apply andb_true_iff in H as [H1 H2].
  unfold to_bytes. cbn [flat_map]. rewrite utf8_enc_dec by exact H1.
  fold (to_bytes r). rewrite IH by exact H2. reflexivity.
Qed.

(* ---------- String Value layer ---------- *)
Definition inv (s : st) (rest : list Z) : Prop :=
  s = Normal \/ (s = Zero /\ next_is_digit rest = false) \/ (s = Dollar /\ next_is 123 rest = false).

Definition pend (s : st) (x : Z) : Prop :=
  s = Normal \/ (s = Zero /\ is_digit x = false) \/ (s = Dollar /\ x <> 123).

Lemma pend_step k s x : pend s x -> step k s x = normal k x.
Proof.
  intros [->|[[-> H]|[-> H]]]; cbn [step]; [reflexivity|rewrite H; reflexivity|].
  destruct (x =? 123) eqn:E; [lia|reflexivity].
Qed.

Lemma inv_pend s c rest : inv s (c :: rest) -> pend s c.
Proof.
  intros [->|[[-> H]|[-> H]]]; [left; reflexivity| |].
  - right; left; split; [reflexivity|exact H].
  - right; right; split; [reflexivity|]. cbn [next_is] in H. lia.
Qed.

Lemma inv_pend_any s rest x : inv s rest -> is_digit x = false -> x <> 123 -> pend s x.
Proof.
  intros [->|[[-> H]|[-> H]]] Hd Hx; [left; reflexivity| |].
  - right; left; split; [reflexivity|exact Hd].
  - right; right; split; [reflexivity|exact Hx].
Qed.

Lemma run_cons k s c r :
  run k s (c :: r) = match step k s c with
                     | None => None
                     | Some (emit, s') => option_map (app emit) (run k s' r)
                     end.
Proof. reflexivity. Qed.

Lemma run_bs k s rest r : inv s rest -> run k s (92 :: r) = run k Esc r.
Proof.
  intros H. rewrite run_cons, (pend_step k s 92).
  - unfold normal. destruct k; cbn; destruct (run _ Esc r); reflexivity.
  - eapply inv_pend_any; [exact H|reflexivity|lia].
Qed.

Lemma hexc_range d : 0 <= d < 16 -> (48 <= hexc d <= 57) \/ (65 <= hexc d <= 70).
Proof. intros H. unfold hexc. destruct (d <? 10) eqn:E; lia. Qed.

Lemma step_U0_hex k d : 0 <= d < 16 -> step k U0 (hexc d) = Some ([], U4 3 d).
Proof.
  intros H. cbn [step]. destruct (hexc_range d H); (destruct (hexc d =? 123) eqn:E; [lia|]);
    rewrite hexc_hexval by exact H; reflexivity.
Qed.
Lemma step_U4_hex k n v d : 0 <= d < 16 ->
  step k (U4 n v) (hexc d) = match n with
                             | S (S k') => Some ([], U4 (S k') (v * 16 + d))
                             | _ => Some ([v * 16 + d], Normal)
                             end.
Proof. intros H. cbn [step]. rewrite hexc_hexval by exact H. reflexivity. Qed.
Lemma step_Hex1_hex k d : 0 <= d < 16 -> step k Hex1 (hexc d) = Some ([], Hex2 d).
Proof. intros H. cbn [step]. rewrite hexc_hexval by exact H. reflexivity. Qed.
Lemma step_Hex2_hex k v d : 0 <= d < 16 -> step k (Hex2 v) (hexc d) = Some ([v * 16 + d], Normal).
Proof. intros H. cbn [step]. rewrite hexc_hexval by exact H. reflexivity. Qed.
Lemma step_UB0_hex k d : 0 <= d < 16 -> step k UB0 (hexc d) = Some ([], UB d).
Proof. intros H. cbn [step]. rewrite hexc_hexval by exact H. reflexivity. Qed.
Lemma step_UB_hex k v d : 0 <= d < 16 -> v * 16 + d <= 1114111 ->
  step k (UB v) (hexc d) = Some ([], UB (v * 16 + d)).
Proof.
  intros H Hv. cbn [step]. destruct (hexc_range d H); (destruct (hexc d =? 125) eqn:E; [lia|]);
    rewrite hexc_hexval by exact H; (destruct (1114111 <? v * 16 + d) eqn:E2; [lia|reflexivity]).
Qed.

Lemma option_map_app_nil {A} (o : option (list A)) : option_map (app []) o = o.
Proof. destruct o; reflexivity. Qed.
Lemma option_map_app_one {A} (x : A) (o : option (list A)) : option_map (app [x]) o = option_map (cons x) o.
Proof. destruct o; reflexivity. Qed.

Lemma run_esc_u4 k s rest c tail :
  0 <= c <= 65535 -> inv s rest ->
  run k s (esc_u4 c ++ tail) = option_map (cons c) (run k Normal tail).
Proof.
  intros Hc Hs. unfold esc_u4. cbn [app].
  rewrite (run_bs k s rest _ Hs).
  rewrite run_cons. replace (step k Esc 117) with (Some (@nil Z, U0)) by reflexivity.
  rewrite option_map_app_nil.
  rewrite run_cons, step_U0_hex by lia. rewrite option_map_app_nil.
  rewrite run_cons, step_U4_hex by lia. rewrite option_map_app_nil.
  rewrite run_cons, step_U4_hex by lia. rewrite option_map_app_nil.
  rewrite run_cons, step_U4_hex by lia. rewrite option_map_app_one.
  f_equal. f_equal. lia.
Qed.

Lemma run_esc_x2 k s rest c tail :
  0 <= c <= 255 -> inv s rest ->
  run k s (esc_x2 c ++ tail) = option_map (cons c) (run k Normal tail).
Proof.
  intros Hc Hs. unfold esc_x2. cbn [app].
  rewrite (run_bs k s rest _ Hs).
  rewrite run_cons. replace (step k Esc 120) with (Some (@nil Z, Hex1)) by reflexivity.
  rewrite option_map_app_nil.
  rewrite run_cons, step_Hex1_hex by lia. rewrite option_map_app_nil.
  rewrite run_cons, step_Hex2_hex by lia. rewrite option_map_app_one.
  f_equal. f_equal. lia.
Qed.

Lemma units_pair c c2 :
  is_high c = true -> is_low c2 = true -> utf16_units (combine_add c c2) = [c; c2].
Proof.
  unfold is_high, is_low, utf16_units, combine_add. intros H1 H2.
  destruct (_ <=? 65535) eqn:E; [lia|]. f_equal; [lia|f_equal; lia].
Qed.

Lemma combine_range c c2 :
  is_high c = true -> is_low c2 = true -> 65536 <= combine_add c c2 <= 1114111.
Proof. unfold is_high, is_low, combine_add. lia. Qed.

Lemma run_esc_ubrace k s rest r tail :
  65536 <= r <= 1114111 -> inv s rest ->
  run k s (esc_ubrace r ++ tail) = option_map (app (utf16_units r)) (run k Normal tail).
Proof.
  intros Hr Hs. unfold esc_ubrace, hexX. cbn [app].
  rewrite (run_bs k s rest _ Hs).
  rewrite run_cons. replace (step k Esc 117) with (Some (@nil Z, U0)) by reflexivity.
  rewrite option_map_app_nil.
  rewrite run_cons. replace (step k U0 123) with (Some (@nil Z, UB0)) by reflexivity.
  rewrite option_map_app_nil.
  destruct (r <? 1048576) eqn:E; cbn [app].
  - rewrite run_cons, step_UB0_hex by lia. rewrite option_map_app_nil.
    do 4 (rewrite run_cons, step_UB_hex by lia; rewrite option_map_app_nil).
    rewrite run_cons. cbn [step]. replace (125 =? 125) with true by reflexivity.
    do 2 f_equal. f_equal. lia.
  - rewrite run_cons, step_UB0_hex by lia. rewrite option_map_app_nil.
    do 5 (rewrite run_cons, step_UB_hex by lia; rewrite option_map_app_nil).
    rewrite run_cons. cbn [step]. replace (125 =? 125) with true by reflexivity.
    do 2 f_equal. f_equal. lia.
Qed.

Lemma units_small c : c <= 65535 -> utf16_units c = [c].
Proof. intros H. unfold utf16_units. destruct (c <=? 65535) eqn:E; [reflexivity|lia]. Qed.

Lemma normal_raw k c :
  c <> quote_of k -> c <> 92 -> c <> 13 -> (k = KTemplate -> c <> 36) -> (k <> KTemplate -> c <> 10) ->
  normal k c = Some (utf16_units c, Normal).
Proof.
  intros Hq Hb Hcr Hd Hn. unfold normal.
  destruct (c =? quote_of k) eqn:E1; [lia|]. destruct (c =? 92) eqn:E2; [lia|].
  destruct k.
  - destruct (c =? 10) eqn:E3; [exfalso; apply Hn; [discriminate|lia]|]. destruct (c =? 13) eqn:E4; [lia|]. reflexivity.
  - destruct (c =? 10) eqn:E3; [exfalso; apply Hn; [discriminate|lia]|]. destruct (c =? 13) eqn:E4; [lia|]. reflexivity.
  - destruct (c =? 13) eqn:E4; [lia|]. destruct (c =? 36) eqn:E5; [exfalso; apply Hd; [reflexivity|lia]|]. reflexivity.
Qed.

Ltac fin_esc k Hs v :=
  cbn [app]; rewrite (run_bs k _ _ _ Hs); rewrite run_cons;
  match goal with |- context [step k Esc ?x] => change (step k Esc x) with (Some ([v], Normal)) end;
  apply option_map_app_one.

Ltac fin_raw k Hp :=
  cbn [app]; rewrite run_cons, (pend_step k _ _ Hp), normal_raw;
  [rewrite units_small by lia; apply option_map_app_one | first [cbn [quote_of]; lia | destruct k; cbn [quote_of]; lia] | lia | lia
  | intros; subst; try lia; try discriminate | intros; try lia; try congruence ].

Lemma simple_chunk_run k cfg prev c rest s tail :
  0 <= c <= 65535 -> is_high c = false -> inv s (c :: rest) ->
  exists s', inv s' rest /\
    run k s (simple_chunk cfg (quote_of k) prev c rest ++ tail) = option_map (cons c) (run k s' tail).
Proof.
  intros Hc Hh Hs. pose proof (inv_pend _ _ _ Hs) as Hp.
  unfold simple_chunk.
  destruct (c =? 0) eqn:E0.
  { apply Z.eqb_eq in E0; subst c. destruct (next_is_digit rest) eqn:Ed.
    - exists Normal; split; [left; reflexivity|].
      change [92;120;48;48] with (esc_x2 0). apply run_esc_x2 with (rest := 0 :: rest); [lia|exact Hs].
    - exists Zero. split; [right; left; auto|].
      cbn [app]; rewrite (run_bs k _ _ _ Hs); rewrite run_cons.
      change (step k Esc 48) with (Some ([0], Zero)). apply option_map_app_one. }
  destruct (c =? 7) eqn:E1.
  { apply Z.eqb_eq in E1; subst c. exists Normal; split; [left; reflexivity|].
    change [92;120;48;55] with (esc_x2 7). apply run_esc_x2 with (rest := 7 :: rest); [lia|exact Hs]. }
  destruct (c =? 8) eqn:E2.
  { apply Z.eqb_eq in E2; subst c. exists Normal; split; [left; reflexivity|]. fin_esc k Hs 8. }
  destruct (c =? 12) eqn:E3.
  { apply Z.eqb_eq in E3; subst c. exists Normal; split; [left; reflexivity|]. fin_esc k Hs 12. }
  destruct (c =? 10) eqn:E4.
  { apply Z.eqb_eq in E4; subst c. exists Normal; split; [left; reflexivity|].
    destruct k; cbn [quote_of Z.eqb Pos.eqb].
    - fin_esc KSingle Hs 10.
    - fin_esc KDouble Hs 10.
    - cbn [app]. rewrite run_cons, (pend_step _ _ _ Hp). cbn. destruct (run KTemplate Normal tail); reflexivity. }
  destruct (c =? 13) eqn:E5.
  { apply Z.eqb_eq in E5; subst c. exists Normal; split; [left; reflexivity|]. fin_esc k Hs 13. }
  destruct (c =? 11) eqn:E6.
  { apply Z.eqb_eq in E6; subst c. exists Normal; split; [left; reflexivity|]. fin_esc k Hs 11. }
  destruct (c =? 27) eqn:E7.
  { apply Z.eqb_eq in E7; subst c. exists Normal; split; [left; reflexivity|].
    change [92;120;49;66] with (esc_x2 27). apply run_esc_x2 with (rest := 27 :: rest); [lia|exact Hs]. }
  destruct (c =? 92) eqn:E8.
  { apply Z.eqb_eq in E8; subst c. exists Normal; split; [left; reflexivity|]. fin_esc k Hs 92. }
  destruct (c =? 47) eqn:E9.
  { apply Z.eqb_eq in E9; subst c. exists Normal; split; [left; reflexivity|].
    destruct (script_guard cfg && (prev =? 60) && matches_script rest).
    - fin_esc k Hs 47.
    - fin_raw k Hp. }
  destruct (c =? 39) eqn:E10.
  { apply Z.eqb_eq in E10; subst c. exists Normal; split; [left; reflexivity|].
    destruct k; cbn [quote_of Z.eqb Pos.eqb].
    - fin_esc KSingle Hs 39.
    - fin_raw KDouble Hp.
    - fin_raw KTemplate Hp. }
  destruct (c =? 34) eqn:E11.
  { apply Z.eqb_eq in E11; subst c. exists Normal; split; [left; reflexivity|].
    destruct k; cbn [quote_of Z.eqb Pos.eqb].
    - fin_raw KSingle Hp.
    - fin_esc KDouble Hs 34.
    - fin_raw KTemplate Hp. }
  destruct (c =? 96) eqn:E12.
  { apply Z.eqb_eq in E12; subst c. exists Normal; split; [left; reflexivity|].
    destruct k; cbn [quote_of Z.eqb Pos.eqb].
    - fin_raw KSingle Hp.
    - fin_raw KDouble Hp.
    - fin_esc KTemplate Hs 96. }
  destruct (c =? 36) eqn:E13.
  { apply Z.eqb_eq in E13; subst c.
    destruct k; cbn [quote_of Z.eqb Pos.eqb andb].
    - exists Normal; split; [left; reflexivity|]. fin_raw KSingle Hp.
    - exists Normal; split; [left; reflexivity|]. fin_raw KDouble Hp.
    - destruct (next_is 123 rest) eqn:En.
      + exists Normal; split; [left; reflexivity|]. fin_esc KTemplate Hs 36.
      + exists Dollar; split; [right; right; auto|].
        cbn [app]. rewrite run_cons, (pend_step _ _ _ Hp). cbn. destruct (run KTemplate Dollar tail); reflexivity. }
  destruct (c =? 8232) eqn:E14.
  { apply Z.eqb_eq in E14; subst c. exists Normal; split; [left; reflexivity|].
    change [92; 117; 50; 48; 50; 56] with (esc_u4 8232). apply run_esc_u4 with (rest := 8232 :: rest); [lia|exact Hs]. }
  destruct (c =? 8233) eqn:E15.
  { apply Z.eqb_eq in E15; subst c. exists Normal; split; [left; reflexivity|].
    change [92; 117; 50; 48; 50; 57] with (esc_u4 8233). apply run_esc_u4 with (rest := 8233 :: rest); [lia|exact Hs]. }
  destruct (c =? 65279) eqn:E16.
  { apply Z.eqb_eq in E16; subst c. exists Normal; split; [left; reflexivity|].
    change [92; 117; 70; 69; 70; 70] with (esc_u4 65279). apply run_esc_u4 with (rest := 65279 :: rest); [lia|exact Hs]. }
  exists Normal; split; [left; reflexivity|].
  destruct (c <=? 126) eqn:E17.
  { fin_raw k Hp. }
  destruct (is_low c || (ascii_only cfg && (255 <? c))) eqn:E18.
  { apply run_esc_u4 with (rest := c :: rest); [lia|exact Hs]. }
  destruct (ascii_only cfg) eqn:E19.
  { apply run_esc_x2 with (rest := c :: rest); [|exact Hs].
    cbn [andb] in E18. apply orb_false_iff in E18 as [_ E18]. lia. }
  fin_raw k Hp.
Qed.

Lemma quote_pend k s : inv s [] -> pend s (quote_of k).
Proof. intros H. eapply inv_pend_any; [exact H|destruct k; reflexivity|destruct k; cbn; lia]. Qed.

Lemma run_close k s : inv s [] -> run k s [quote_of k] = Some [].
Proof.
  intros H. rewrite run_cons, (pend_step k _ _ (quote_pend k s H)).
  unfold normal. rewrite Z.eqb_refl. reflexivity.
Qed.

Lemma inv_normal rest : inv Normal rest. Proof. left; reflexivity. Qed.

Lemma pu_run k cfg wrap : forall n text prev sl i s,
  (length text <= n)%nat -> Forall (fun c => 0 <= c <= 65535) text -> inv s text ->
  run k s (pu cfg (quote_of k) wrap prev sl i text ++ [quote_of k]) = Some text.
Proof.
  induction n as [|n IH]; intros text prev sl i s Hlen Hu Hs.
  { destruct text; [|cbn in Hlen; lia]. cbn [pu app]. apply run_close. exact Hs. }
  destruct text as [|c rest]; [cbn [pu app]; apply run_close; exact Hs|].
  cbn [length] in Hlen. inversion Hu as [|? ? Hc Hu']; subst.
  cbn [pu].
  set (dowrap := wrap && (line_limit cfg <=? sl + i)).
  set (sl1 := if dowrap then sl - line_limit cfg else sl).
  rewrite <- app_assoc.
  assert (Hw : exists s1, inv s1 (c :: rest) /\
     forall X, run k s ((if dowrap then [92; 10] else []) ++ X) = run k s1 X).
  { destruct dowrap.
    - exists Normal. split; [apply inv_normal|]. intros X. cbn [app].
      rewrite (run_bs k s _ _ Hs). rewrite run_cons.
      change (step k Esc 10) with (Some (@nil Z, Normal)). apply option_map_app_nil.
    - exists s. split; [exact Hs|]. reflexivity. }
  destruct Hw as [s1 [Hs1 Hw]]. rewrite Hw. clear Hw.
  destruct (is_high c) eqn:Hh.
  - destruct rest as [|c2 rest'].
    + rewrite (run_esc_u4 k s1 [c]) by (auto; lia). cbn [app]. rewrite run_close by apply inv_normal. reflexivity.
    + inversion Hu' as [|? ? Hc2 Hu'']; subst.
      destruct (is_low c2) eqn:Hl.
      * rewrite <- app_assoc.
        assert (Hp : run k s1 (pair_chunk cfg c c2 ++ pu cfg (quote_of k) wrap c2 sl1 (i + 1 + 1) rest' ++ [quote_of k])
                     = option_map (app [c; c2]) (run k Normal (pu cfg (quote_of k) wrap c2 sl1 (i + 1 + 1) rest' ++ [quote_of k]))).
        { unfold pair_chunk. pose proof (combine_range c c2 Hh Hl) as Hr.
          destruct (ascii_only cfg).
          - destruct (uni_esc cfg).
            + rewrite (run_esc_ubrace k s1 (c :: c2 :: rest')) by (auto; lia).
              rewrite (units_pair c c2 Hh Hl). reflexivity.
            + rewrite <- app_assoc.
              rewrite (run_esc_u4 k s1 (c :: c2 :: rest')) by (auto; lia).
              rewrite (run_esc_u4 k Normal []) by (try apply inv_normal; lia).
              destruct (run k Normal _); reflexivity.
          - cbn [app]. rewrite run_cons, (pend_step k s1 (combine_add c c2)).
            + rewrite normal_raw.
              * rewrite (units_pair c c2 Hh Hl). reflexivity.
              * destruct k; cbn [quote_of]; lia.
              * lia.
              * lia.
              * intros; lia.
              * intros; lia.
            + eapply inv_pend_any; [exact Hs1| |lia].
              unfold is_digit. lia. }
        rewrite Hp. rewrite IH; [reflexivity| |exact Hu''|apply inv_normal].
        cbn [length] in Hlen. lia.
      * rewrite <- app_assoc.
        rewrite (run_esc_u4 k s1 (c :: c2 :: rest')) by (auto; lia).
        rewrite IH; [reflexivity| |exact Hu'|apply inv_normal]. lia.
  - rewrite <- app_assoc.
    destruct (simple_chunk_run k cfg prev c rest s1
                (pu cfg (quote_of k) wrap c (if (c =? 10) && (quote_of k =? 96) then - (i + 1) else sl1) (i + 1) rest ++ [quote_of k])
                Hc Hh Hs1) as [s' [Hs' Hrun]].
    rewrite Hrun. rewrite IH; [reflexivity| |exact Hu'|exact Hs']. lia.
Qed.

(* all quoted literals: every UTF-16 sequence, every configuration *)
Definition all_u16 (u : list Z) : Prop := Forall (fun c => 0 <= c <= 65535) u.

Lemma kind_of_quote k : kind_of (quote_of k) = Some k.
Proof. destruct k; reflexivity. Qed.

Lemma unquoted_cps_value cfg k nowrap linelen u :
  all_u16 u ->
  literal_value_cps (quote_of k :: print_unquoted_cps cfg (quote_of k) nowrap linelen u ++ [quote_of k]) = Some u.
Proof.
  intros Hu. unfold literal_value_cps. rewrite kind_of_quote.
  unfold print_unquoted_cps. apply (pu_run k cfg _ (length u)); [lia|exact Hu|apply inv_normal].
Qed.

Lemma choose_quote_kind cfg abt u : exists k, choose_quote cfg abt u = quote_of k.
Proof.
  unfold choose_quote. destruct (costs _ _ _ _ _) as [[s d] b].
  destruct (s <? d).
  - destruct ((b <? s) && _); [exists KTemplate|exists KSingle]; reflexivity.
  - destruct ((b <? d) && _); [exists KTemplate|exists KDouble]; reflexivity.
Qed.

Lemma quoted_cps_value cfg abt nowrap linelen u :
  all_u16 u -> literal_value_cps (print_quoted_cps cfg abt nowrap linelen u) = Some u.
Proof.
  intros Hu. unfold print_quoted_cps. destruct (choose_quote_kind cfg abt u) as [k ->].
  apply unquoted_cps_value. exact Hu.
Qed.

(* ---------- per-code-point properties of the output ---------- *)
Definition good (ascii : bool) (nolf : bool) (x : Z) : bool :=
  scalar x && (if ascii then x <? 128 else true)
  && negb (x =? 13) && negb (x =? 8232) && negb (x =? 8233) && (if nolf then negb (x =? 10) else true).

Lemma hexc_good a n d : 0 <= d < 16 -> good a n (hexc d) = true.
Proof.
  intros H. destruct (hexc_range d H); unfold good, scalar; destruct a, n; lia.
Qed.

Lemma esc_u4_good a n c : 0 <= c <= 65535 -> forallb (good a n) (esc_u4 c) = true.
Proof.
  intros H. unfold esc_u4. cbn [forallb].
  rewrite !hexc_good by lia. destruct a, n; reflexivity.
Qed.
Lemma esc_x2_good a n c : 0 <= c <= 255 -> forallb (good a n) (esc_x2 c) = true.
Proof.
  intros H. unfold esc_x2. cbn [forallb].
  rewrite !hexc_good by lia. destruct a, n; reflexivity.
Qed.
Lemma esc_ubrace_good a n r : 65536 <= r <= 1114111 -> forallb (good a n) (esc_ubrace r) = true.
Proof.
  intros H. unfold esc_ubrace, hexX. destruct (r <? 1048576) eqn:E; cbn [app forallb];
    rewrite !hexc_good by lia; destruct a, n; reflexivity.
Qed.

Lemma simple_chunk_good cfg q prev c rest nolf :
  0 <= c <= 65535 -> is_high c = false ->
  (nolf = true -> q <> 96) ->
  forallb (good (ascii_only cfg) nolf) (simple_chunk cfg q prev c rest) = true.
Proof.
  intros Hc Hh Hq. unfold simple_chunk.
  assert (K : forall l, forallb (fun x => (0 <=? x) && (x <? 128) && negb (x =? 13) && negb (x =? 10)) l = true ->
                        forallb (good (ascii_only cfg) nolf) l = true).
  { intros l Hl. rewrite forallb_forall in *. intros x Hx. specialize (Hl x Hx).
    unfold good, scalar. destruct (ascii_only cfg), nolf; lia. }
  destruct (c =? 0); [destruct (next_is_digit rest); apply K; reflexivity|].
  destruct (c =? 7); [apply K; reflexivity|].
  destruct (c =? 8); [apply K; reflexivity|].
  destruct (c =? 12); [apply K; reflexivity|].
  destruct (c =? 10) eqn:E10.
  { destruct (q =? 96) eqn:Eq; [|apply K; reflexivity].
    cbn [forallb]. unfold good, scalar. destruct nolf; [exfalso; apply Hq; [reflexivity|lia]|].
    destruct (ascii_only cfg); reflexivity. }
  destruct (c =? 13) eqn:E13; [apply K; reflexivity|].
  destruct (c =? 11); [apply K; reflexivity|].
  destruct (c =? 27); [apply K; reflexivity|].
  destruct (c =? 92); [apply K; reflexivity|].
  destruct (c =? 47); [destruct (_ && _ && _); apply K; reflexivity|].
  destruct (c =? 39); [destruct (q =? 39); apply K; reflexivity|].
  destruct (c =? 34); [destruct (q =? 34); apply K; reflexivity|].
  destruct (c =? 96); [destruct (q =? 96); apply K; reflexivity|].
  destruct (c =? 36); [destruct ((q =? 96) && _); apply K; reflexivity|].
  destruct (c =? 8232) eqn:E1; [apply K; reflexivity|].
  destruct (c =? 8233) eqn:E2; [apply K; reflexivity|].
  destruct (c =? 65279); [apply K; reflexivity|].
  destruct (c <=? 126) eqn:E3.
  { apply K. cbn [forallb]. lia. }
  destruct (is_low c || (ascii_only cfg && (255 <? c))) eqn:E4; [apply esc_u4_good; lia|].
  destruct (ascii_only cfg) eqn:E5.
  { apply esc_x2_good. cbn [andb] in E4. apply orb_false_iff in E4 as [_ E4]. lia. }
  cbn [forallb]. apply orb_false_iff in E4 as [E4 _].
  unfold good, scalar. unfold is_high in Hh. unfold is_low in E4. destruct nolf; lia.
Qed.

Lemma pu_good cfg q wrap nolf :
  (nolf = true -> q <> 96 /\ wrap = false) ->
  forall n text prev sl i,
  (length text <= n)%nat -> all_u16 text ->
  forallb (good (ascii_only cfg) nolf) (pu cfg q wrap prev sl i text) = true.
Proof.
  intros Hn. induction n as [|n IH]; intros text prev sl i Hlen Hu.
  { destruct text; [reflexivity|cbn in Hlen; lia]. }
  destruct text as [|c rest]; [reflexivity|].
  cbn [length] in Hlen. inversion Hu as [|? ? Hc Hu']; subst.
  cbn [pu]. rewrite forallb_app. apply andb_true_iff. split.
  { destruct (wrap && _) eqn:Ew; [|reflexivity].
    cbn [forallb]. unfold good, scalar. destruct nolf.
    - destruct (Hn eq_refl) as [_ ->]. discriminate.
    - destruct (ascii_only cfg); reflexivity. }
  destruct (is_high c) eqn:Hh.
  - destruct rest as [|c2 rest']; [apply esc_u4_good; lia|].
    inversion Hu' as [|? ? Hc2 Hu'']; subst.
    destruct (is_low c2) eqn:Hl.
    + rewrite forallb_app. apply andb_true_iff. split.
      * unfold pair_chunk. pose proof (combine_range c c2 Hh Hl) as Hr.
        destruct (ascii_only cfg) eqn:Ea.
        -- destruct (uni_esc cfg); [apply esc_ubrace_good; lia|].
           rewrite forallb_app, !esc_u4_good by lia. reflexivity.
        -- cbn [forallb]. unfold good, scalar. destruct nolf; lia.
      * apply IH; [cbn [length] in Hlen; lia|exact Hu''].
    + rewrite forallb_app, esc_u4_good by lia. apply IH; [lia|exact Hu'].
  - rewrite forallb_app. apply andb_true_iff. split.
    + apply simple_chunk_good; [exact Hc|exact Hh|]. intros E. apply Hn. exact E.
    + apply IH; [lia|exact Hu'].
Qed.

Lemma good_scalar a n l : forallb (good a n) l = true -> forallb scalar l = true.
Proof.
  intros H. rewrite forallb_forall in *. intros x Hx. specialize (H x Hx).
  unfold good in H. destruct (scalar x); [reflexivity|discriminate].
Qed.

Lemma quote_good a n k : good a n (quote_of k) = true.
Proof. destruct k, a, n; reflexivity. Qed.

Lemma print_quoted_cps_good cfg abt nowrap linelen u :
  all_u16 u -> forallb (good (ascii_only cfg) false) (print_quoted_cps cfg abt nowrap linelen u) = true.
Proof.
  intros Hu. unfold print_quoted_cps. destruct (choose_quote_kind cfg abt u) as [k ->].
  cbn [forallb]. rewrite quote_good. rewrite forallb_app. cbn [forallb]. rewrite quote_good.
  unfold print_unquoted_cps. rewrite (pu_good cfg _ _ false) with (n := length u); [reflexivity|discriminate|lia|exact Hu].
Qed.

(* the main theorem at byte level *)
Lemma quote_roundtrip_all cfg abt nowrap prefix u :
  all_u16 u -> literal_value (print_quoted cfg abt nowrap prefix u) = Some u.
Proof.
  intros Hu. unfold literal_value, print_quoted.
  rewrite utf8_roundtrip.
  - apply quoted_cps_value. exact Hu.
  - eapply good_scalar. apply print_quoted_cps_good. exact Hu.
Qed.

Lemma unquoted_roundtrip_all cfg k nowrap prefix u :
  all_u16 u ->
  literal_value (quote_of k :: print_unquoted cfg (quote_of k) nowrap prefix u ++ [quote_of k]) = Some u.
Proof.
  intros Hu. unfold literal_value, print_unquoted.
  assert (E : quote_of k :: to_bytes (print_unquoted_cps cfg (quote_of k) nowrap (currentLineLength prefix) u) ++ [quote_of k]
              = to_bytes (quote_of k :: print_unquoted_cps cfg (quote_of k) nowrap (currentLineLength prefix) u ++ [quote_of k])).
  { unfold to_bytes. cbn [flat_map]. rewrite flat_map_app. cbn [flat_map]. rewrite app_nil_r.
    destruct k; reflexivity. }
  rewrite E. rewrite utf8_roundtrip.
  - apply unquoted_cps_value. exact Hu.
  - cbn [forallb]. replace (scalar (quote_of k)) with true by (destruct k; reflexivity).
    rewrite forallb_app. cbn [forallb]. replace (scalar (quote_of k)) with true by (destruct k; reflexivity).
    rewrite (good_scalar (ascii_only cfg) false); [reflexivity|].
    unfold print_unquoted_cps. apply pu_good with (n := length u); [discriminate|lia|exact Hu].
Qed.

Lemma to_bytes_ascii l :
  forallb (fun x => (0 <=? x) && (x <? 128)) l = true -> to_bytes l = l.
Proof.
  induction l as [|x r IH]; intros H; [reflexivity|].
  cbn [forallb] in H. apply andb_true_iff in H as [H1 H2].
  unfold to_bytes. cbn [flat_map]. fold (to_bytes r). rewrite IH by exact H2.
  unfold EncodeRune, encodeWTF8Rune, is_surrogate, MaxRune.
  replace ((x <? 0) || (1114111 <? x) || ((55296 <=? x) && (x <=? 57343))) with false by lia.
  replace (x <? 0) with false by lia. replace (x <=? 127) with true by lia. reflexivity.
Qed.

Lemma quote_ascii_all cfg abt nowrap prefix u :
  ascii_only cfg = true -> all_u16 u ->
  Forall (fun b => 0 <= b < 128) (print_quoted cfg abt nowrap prefix u).
Proof.
  intros Ha Hu. unfold print_quoted.
  pose proof (print_quoted_cps_good cfg abt nowrap (currentLineLength prefix) u Hu) as G.
  rewrite Ha in G.
  assert (A : forallb (fun x => (0 <=? x) && (x <? 128)) (print_quoted_cps cfg abt nowrap (currentLineLength prefix) u) = true).
  { rewrite forallb_forall in *. intros x Hx. specialize (G x Hx). unfold good, scalar in G. lia. }
  rewrite to_bytes_ascii by exact A.
  rewrite forallb_forall in A. apply Forall_forall. intros x Hx. specialize (A x Hx). lia.
Qed.

(* no raw CR / LS / PS ever; no raw LF in '..' and ".." literals unless it
   is the escaped newline of line wrapping *)
Definition no_lt (nolf : bool) (x : Z) : Prop :=
  x <> 13 /\ x <> 8232 /\ x <> 8233 /\ (nolf = true -> x <> 10).

Lemma quote_no_raw_lt_all cfg k nowrap prefix u :
  all_u16 u ->
  let nolf := negb (quote_of k =? 96) && negb ((0 <? line_limit cfg) && negb nowrap) in
  exists cps, utf8_decode (print_unquoted cfg (quote_of k) nowrap prefix u) = Some cps /\
              Forall (no_lt nolf) cps.
Proof.
  intros Hu nolf. exists (print_unquoted_cps cfg (quote_of k) nowrap (currentLineLength prefix) u).
  assert (G : forallb (good (ascii_only cfg) nolf)
                (print_unquoted_cps cfg (quote_of k) nowrap (currentLineLength prefix) u) = true).
  { unfold print_unquoted_cps. apply pu_good with (n := length u); [|lia|exact Hu].
    unfold nolf. intros E. apply andb_true_iff in E as [E1 E2]. split; [lia|].
    destruct ((0 <? line_limit cfg) && negb nowrap); [discriminate|reflexivity]. }
  split.
  - unfold print_unquoted. apply utf8_roundtrip. eapply good_scalar. exact G.
  - rewrite forallb_forall in G. apply Forall_forall. intros x Hx. specialize (G x Hx).
    unfold good in G. unfold no_lt. destruct nolf; repeat split; try lia; intros; try lia.
Qed.

(* ---------- identifiers ---------- *)
Lemma irun_cons s c r :
  irun s (c :: r) = match istep s c with
                    | None => None
                    | Some (emit, s') => option_map (app emit) (irun s' r)
                    end.
Proof. reflexivity. Qed.

Lemma istep_IU0_hex d : 0 <= d < 16 -> istep IU0 (hexc d) = Some ([], IU4 3 d).
Proof.
  intros H. cbn [istep]. destruct (hexc_range d H); (destruct (hexc d =? 123) eqn:E; [lia|]);
    rewrite hexc_hexval by exact H; reflexivity.
Qed.
Lemma istep_IU4_hex n v d : 0 <= d < 16 ->
  istep (IU4 n v) (hexc d) = match n with
                             | S (S k') => Some ([], IU4 (S k') (v * 16 + d))
                             | _ => Some ([v * 16 + d], INormal)
                             end.
Proof. intros H. cbn [istep]. rewrite hexc_hexval by exact H. reflexivity. Qed.
Lemma istep_IUB0_hex d : 0 <= d < 16 -> istep IUB0 (hexc d) = Some ([], IUB d).
Proof. intros H. cbn [istep]. rewrite hexc_hexval by exact H. reflexivity. Qed.
Lemma istep_IUB_hex v d : 0 <= d < 16 -> v * 16 + d <= 1114111 ->
  istep (IUB v) (hexc d) = Some ([], IUB (v * 16 + d)).
Proof.
  intros H Hv. cbn [istep]. destruct (hexc_range d H); (destruct (hexc d =? 125) eqn:E; [lia|]);
    rewrite hexc_hexval by exact H; (destruct (1114111 <? v * 16 + d) eqn:E2; [lia|reflexivity]).
Qed.

Lemma irun_esc_u4 c tail :
  0 <= c <= 65535 -> irun INormal (esc_u4 c ++ tail) = option_map (cons c) (irun INormal tail).
Proof.
  intros Hc. unfold esc_u4. cbn [app].
  rewrite irun_cons. change (istep INormal 92) with (Some (@nil Z, IEsc)). cbn beta iota. rewrite option_map_app_nil.
  rewrite irun_cons. change (istep IEsc 117) with (Some (@nil Z, IU0)). cbn beta iota. rewrite option_map_app_nil.
  rewrite irun_cons, istep_IU0_hex by lia. rewrite option_map_app_nil.
  rewrite irun_cons, istep_IU4_hex by lia. rewrite option_map_app_nil.
  rewrite irun_cons, istep_IU4_hex by lia. rewrite option_map_app_nil.
  rewrite irun_cons, istep_IU4_hex by lia. rewrite option_map_app_one.
  f_equal. f_equal. lia.
Qed.

Lemma irun_esc_ubrace r tail :
  65536 <= r <= 1114111 -> irun INormal (esc_ubrace r ++ tail) = option_map (cons r) (irun INormal tail).
Proof.
  intros Hr. unfold esc_ubrace, hexX. cbn [app].
  rewrite irun_cons. change (istep INormal 92) with (Some (@nil Z, IEsc)). cbn beta iota. rewrite option_map_app_nil.
  rewrite irun_cons. change (istep IEsc 117) with (Some (@nil Z, IU0)). cbn beta iota. rewrite option_map_app_nil.
  rewrite irun_cons. change (istep IU0 123) with (Some (@nil Z, IUB0)). cbn beta iota. rewrite option_map_app_nil.
  destruct (r <? 1048576) eqn:E; cbn [app].
  - rewrite irun_cons, istep_IUB0_hex by lia. rewrite option_map_app_nil.
    do 4 (rewrite irun_cons, istep_IUB_hex by lia; rewrite option_map_app_nil).
    rewrite irun_cons. cbn [istep]. replace (125 =? 125) with true by reflexivity.
    rewrite option_map_app_one. f_equal. f_equal. lia.
  - rewrite irun_cons, istep_IUB0_hex by lia. rewrite option_map_app_nil.
    do 5 (rewrite irun_cons, istep_IUB_hex by lia; rewrite option_map_app_nil).
    rewrite irun_cons. cbn [istep]. replace (125 =? 125) with true by reflexivity.
    rewrite option_map_app_one. f_equal. f_equal. lia.
Qed.

Lemma irun_raw c tail : c <> 92 -> irun INormal (c :: tail) = option_map (cons c) (irun INormal tail).
Proof.
  intros H. rewrite irun_cons. cbn [istep]. destruct (c =? 92) eqn:E; [lia|]. apply option_map_app_one.
Qed.

(* one step of ident_cps: the code point cp (a BMP non-surrogate unit or a
   combined pair), what it prints, and what that denotes *)
Lemma ident_one_ok cfg cp tl out :
  scalar cp = true -> cp <> 92 ->
  (if ascii_only cfg && (126 <? cp)
   then (if cp <=? 65535 then Some (esc_u4 cp ++ tl)
         else if uni_esc cfg then Some (esc_ubrace cp ++ tl) else None)
   else Some (cp :: tl)) = Some out ->
  forallb scalar tl = true ->
  forallb scalar out = true /\ irun INormal out = option_map (cons cp) (irun INormal tl).
Proof.
  intros Hs Hne H Htl. unfold scalar in Hs.
  destruct (ascii_only cfg && (126 <? cp)) eqn:E.
  - destruct (cp <=? 65535) eqn:E2.
    + replace out with (esc_u4 cp ++ tl) by congruence. split.
      * rewrite forallb_app, Htl, andb_true_r. eapply good_scalar. apply (esc_u4_good false false). lia.
      * apply irun_esc_u4. lia.
    + destruct (uni_esc cfg); [|discriminate]. replace out with (esc_ubrace cp ++ tl) by congruence. split.
      * rewrite forallb_app, Htl, andb_true_r. eapply good_scalar. apply (esc_ubrace_good false false). lia.
      * apply irun_esc_ubrace. lia.
  - replace out with (cp :: tl) by congruence. split.
    + cbn [forallb]. rewrite Htl. unfold scalar. lia.
    + apply irun_raw. exact Hne.
Qed.

Lemma ident_cps_ok cfg : forall n name cps,
  (length name <= n)%nat -> all_u16 name -> wf_utf16 name = true -> ~ In 92 name ->
  ident_cps cfg name = Some cps ->
  forallb scalar cps = true /\
  exists v, irun INormal cps = Some v /\ flat_map utf16_units v = name.
Proof.
  induction n as [|n IH]; intros name cps Hlen Hu Hwf Hbs H.
  { destruct name; [|cbn in Hlen; lia]. inversion H; subst. split; [reflexivity|exists []; auto]. }
  destruct name as [|c rest]; [inversion H; subst; split; [reflexivity|exists []; auto]|].
  cbn [length] in Hlen. inversion Hu as [|? ? Hc Hu']; subst.
  cbn [ident_cps] in H. cbn [wf_utf16] in Hwf.
  destruct rest as [|c2 rest'].
  - (* single last unit *)
    destruct (is_high c) eqn:Hh; [discriminate|]. rewrite andb_true_r in Hwf.
    assert (Hsc : scalar c = true).
    { unfold scalar. unfold is_high in Hh. unfold is_low in Hwf. lia. }
    destruct (ident_one_ok cfg c [] cps Hsc) as [G1 G2]; [intros E; apply Hbs; left; lia|exact H|reflexivity|].
    split; [exact G1|]. exists [c]. split; [rewrite G2; reflexivity|].
    cbn [flat_map]. rewrite units_small by lia. reflexivity.
  - inversion Hu' as [|? ? Hc2 Hu'']; subst.
    destruct (is_high c) eqn:Hh.
    + destruct (is_low c2) eqn:Hl; [|discriminate]. cbn [andb] in H, Hwf.
      destruct (ident_cps cfg rest') as [tl|] eqn:Et; [|discriminate].
      destruct (IH rest' tl) as [T1 [v [T2 T3]]]; [cbn [length] in Hlen; lia|exact Hu''|exact Hwf| |exact Et|].
      { intros Hin. apply Hbs. right; right; exact Hin. }
      pose proof (combine_range c c2 Hh Hl) as Hr.
      destruct (ident_one_ok cfg (combine_add c c2) tl cps) as [G1 G2]; [unfold scalar; lia|lia|exact H|exact T1|].
      split; [exact G1|]. exists (combine_add c c2 :: v). split; [rewrite G2, T2; reflexivity|].
      cbn [flat_map]. rewrite (units_pair c c2 Hh Hl), T3. reflexivity.
    + cbn [andb] in H. apply andb_true_iff in Hwf as [Hnl Hwf].
      destruct (ident_cps cfg (c2 :: rest')) as [tl|] eqn:Et; [|discriminate].
      destruct (IH (c2 :: rest') tl) as [T1 [v [T2 T3]]]; [lia|exact Hu'|exact Hwf| |exact Et|].
      { intros Hin. apply Hbs. right; exact Hin. }
      assert (Hsc : scalar c = true).
      { unfold scalar. unfold is_high in Hh. unfold is_low in Hnl. lia. }
      destruct (ident_one_ok cfg c tl cps Hsc) as [G1 G2]; [intros E; apply Hbs; left; lia|exact H|exact T1|].
      split; [exact G1|]. exists (c :: v). split; [rewrite G2, T2; reflexivity|].
      cbn [flat_map]. rewrite units_small by lia. rewrite T3. reflexivity.
Qed.

Lemma ident_roundtrip_all cfg name out :
  all_u16 name -> wf_utf16 name = true -> ~ In 92 name ->
  print_identifier_utf16 cfg name = Some out -> ident_value out = Some name.
Proof.
  intros Hu Hwf Hbs H. unfold print_identifier_utf16 in H.
  destruct (ident_cps cfg name) as [cps|] eqn:E; [|discriminate]. inversion H; subst.
  destruct (ident_cps_ok cfg (length name) name cps (le_n _) Hu Hwf Hbs E) as [G1 [v [G2 G3]]].
  unfold ident_value. rewrite utf8_roundtrip by exact G1. rewrite G2. cbn [option_map]. rewrite G3. reflexivity.
Qed.

(* Go's `for range` decoder (StringToUTF16) does not invert UTF16ToString on
   lone surrogates: WTF-8 bytes ED A0 80 become three U+FFFD *)
Lemma string_to_utf16_not_inverse :
  exists u, all_u16 u /\ StringToUTF16 (UTF16ToString u) <> u.
Proof.
  exists [55296]. split; [repeat constructor; lia|]. vm_compute. discriminate.
Qed.
