(* C01 lemmas about the string printer model. *)
From V Require Import Common.Base C01.Utf C01.Quote C01.SpecLiteral.

Lemma hexc_hexval d : 0 <= d < 16 -> hexval (hexc d) = Some d.
Proof.
  intros H. unfold hexc, hexval.
  destruct (d <? 10) eqn:E.
  - replace ((48 <=? 48 + d) && (48 + d <=? 57)) with true by lia. f_equal. lia.
  - replace ((48 <=? 55 + d) && (55 + d <=? 57)) with false by lia.
    replace ((97 <=? 55 + d) && (55 + d <=? 102)) with false by lia.
    replace ((65 <=? 55 + d) && (55 + d <=? 70)) with true by lia. f_equal. lia.
Qed.
